(* C18: lock discipline of the output path of cli/yara.c (what a scanning thread does between two
   file_queue_get calls: scan_file -> scanner -> callback -> handle_message / print_* ...).

   gen/GenOutput.v (regenerated from cli/yara.c by lib/genoutput.py on every run) is the code of the
   worker thread as an [ostmt]: control flow is kept (sequence, choice for if/switch, loops, break /
   continue / return, inlined calls of the functions of cli/yara.c), statements are reduced to the
   events that matter: lock / unlock of output_mutex, one [EOut] per stdio call, one [EVar] per access to
   a file-scope variable.  Conditions are not interpreted: both branches of every choice and any
   number of iterations of every loop are possible, so the executions of the C code are among the
   executions [exec] of the [ostmt].

   [chk] is an abstract interpreter over "is output_mutex held by this thread"; [lrun] is the same
   thing on a single event trace; Proofs/QueueOutputProofs.v proves chk sound for all executions. *)
From Coq Require Import List String Bool.
Import ListNotations.

Inductive ostream := Stdout | Stderr.

Inductive oev :=
| ELock                               (* cli_mutex_lock(&output_mutex) *)
| EUnlock                             (* cli_mutex_unlock(&output_mutex) *)
| EOut (s : ostream) (site : string)  (* one stdio call writing to s; site = function[:case label] *)
| EVar (v : string) (write : bool).   (* read / write of the file-scope variable v *)

Inductive ostmt :=
| OSkip
| OEv (e : oev)
| OSeq (a b : ostmt)
| OChoice (a b : ostmt)               (* if / else, the cases of a switch *)
| OLoop (c b : ostmt)                 (* c: evaluation of the condition, b: body; zero or more iterations *)
| OCatchBreak (s : ostmt)             (* switch: break leaves it *)
| OFun (name : string) (s : ostmt)    (* inlined call: return leaves it *)
| OReturn | OBreak | OContinue.

Inductive outcome := ONormal | OBrk | OCont | ORet.

Definition catch_break (o : outcome) : outcome := match o with OBrk => ONormal | x => x end.

(* all executions: trace of events and how the statement was left *)
Inductive exec : ostmt -> list oev -> outcome -> Prop :=
| x_skip : exec OSkip [] ONormal
| x_ev e : exec (OEv e) [e] ONormal
| x_seq_n a b t1 t2 o : exec a t1 ONormal -> exec b t2 o -> exec (OSeq a b) (t1 ++ t2) o
| x_seq_x a b t1 o : exec a t1 o -> o <> ONormal -> exec (OSeq a b) t1 o
| x_choice_l a b t o : exec a t o -> exec (OChoice a b) t o
| x_choice_r a b t o : exec b t o -> exec (OChoice a b) t o
| x_loop_exit c b tc : exec c tc ONormal -> exec (OLoop c b) tc ONormal
| x_loop_iter c b tc tb ob t o : exec c tc ONormal -> exec b tb ob -> (ob = ONormal \/ ob = OCont) ->
    exec (OLoop c b) t o -> exec (OLoop c b) (tc ++ tb ++ t) o
| x_loop_brk c b tc tb : exec c tc ONormal -> exec b tb OBrk -> exec (OLoop c b) (tc ++ tb) ONormal
| x_loop_ret c b tc tb : exec c tc ONormal -> exec b tb ORet -> exec (OLoop c b) (tc ++ tb) ORet
| x_catch s t o : exec s t o -> exec (OCatchBreak s) t (catch_break o)
| x_fun n s t o : exec s t o -> (o = ONormal \/ o = ORet) -> exec (OFun n s) t ONormal
| x_return : exec OReturn [] ORet
| x_break : exec OBreak [] OBrk
| x_continue : exec OContinue [] OCont.

(* ---- the discipline on one trace: h = "this thread holds output_mutex" ---- *)
Section Discipline.
Variable allowed : oev -> bool.       (* events that may happen without the mutex *)

Definition lstep (h : bool) (e : oev) : option bool :=
  match e with
  | ELock => if h then None else Some true       (* no second lock of a non-recursive mutex *)
  | EUnlock => if h then Some false else None    (* no unlock of a mutex that is not held *)
  | _ => if h || allowed e then Some h else None
  end.

Fixpoint lrun (h : bool) (tr : list oev) : option bool :=
  match tr with
  | [] => Some h
  | e :: t => match lstep h e with Some h' => lrun h' t | None => None end
  end.

(* ---- the abstract interpreter: lock state at each way of leaving a statement (None = not left that way) ---- *)
Record ores := mkR { r_n : option bool; r_b : option bool; r_c : option bool; r_r : option bool }.

Definition sel (r : ores) (o : outcome) : option bool :=
  match o with ONormal => r_n r | OBrk => r_b r | OCont => r_c r | ORet => r_r r end.

Definition omerge (a b : option bool) : option (option bool) :=
  match a, b with
  | None, x => Some x
  | x, None => Some x
  | Some p, Some q => if Bool.eqb p q then Some a else None
  end.

Definition rmerge (x y : ores) : option ores :=
  match omerge (r_n x) (r_n y), omerge (r_b x) (r_b y), omerge (r_c x) (r_c y), omerge (r_r x) (r_r y) with
  | Some n, Some b, Some c, Some r => Some (mkR n b c r)
  | _, _, _, _ => None
  end.

Definition okst (o : option bool) (h : bool) : bool := match o with None => true | Some x => Bool.eqb x h end.
Definition isnone (o : option bool) : bool := match o with None => true | Some _ => false end.

Fixpoint chk (s : ostmt) (h : bool) : option ores :=
  match s with
  | OSkip => Some (mkR (Some h) None None None)
  | OEv e => match lstep h e with Some h' => Some (mkR (Some h') None None None) | None => None end
  | OSeq a b =>
      match chk a h with
      | Some ra =>
          match r_n ra with
          | Some h1 => match chk b h1 with
                       | Some rb => rmerge (mkR None (r_b ra) (r_c ra) (r_r ra)) rb
                       | None => None
                       end
          | None => Some ra
          end
      | None => None
      end
  | OChoice a b => match chk a h, chk b h with Some ra, Some rb => rmerge ra rb | _, _ => None end
  | OLoop c b =>
      match chk c h with
      | Some rc =>
          if okst (r_n rc) h && negb (isnone (r_n rc)) && isnone (r_b rc) && isnone (r_c rc) && isnone (r_r rc) then
            match chk b h with
            | Some rb => if okst (r_n rb) h && okst (r_c rb) h && okst (r_b rb) h
                         then Some (mkR (Some h) None None (r_r rb)) else None
            | None => None
            end
          else None
      | None => None
      end
  | OCatchBreak s =>
      match chk s h with
      | Some r => match omerge (r_n r) (r_b r) with Some n => Some (mkR n None (r_c r) (r_r r)) | None => None end
      | None => None
      end
  | OFun _ s =>
      match chk s h with
      | Some r => if isnone (r_b r) && isnone (r_c r)
                  then match omerge (r_n r) (r_r r) with Some n => Some (mkR n None None None) | None => None end
                  else None
      | None => None
      end
  | OReturn => Some (mkR None None None (Some h))
  | OBreak => Some (mkR None (Some h) None None)
  | OContinue => Some (mkR None None (Some h) None)
  end.
End Discipline.

(* file-scope variables written somewhere in the statement *)
Fixpoint written_vars (s : ostmt) : list string :=
  match s with
  | OEv (EVar v true) => [v]
  | OSeq a b | OChoice a b | OLoop a b => written_vars a ++ written_vars b
  | OCatchBreak a | OFun _ a => written_vars a
  | _ => []
  end.

Definition smem (x : string) (l : list string) : bool := existsb (String.eqb x) l.

(* What may happen without output_mutex:
   - nothing on stdout;
   - on stderr only the listed sites;
   - a variable may be READ if no worker path writes it and the main thread does not write it while the
     workers run (options set before the threads are created); any other access only for the listed
     variables (known findings). *)
Definition out_allowed (known_vars stderr_sites worker_written main_written : list string) (e : oev) : bool :=
  match e with
  | EOut Stdout _ => false
  | EOut Stderr site => smem site stderr_sites
  | EVar v w => smem v known_vars || (negb w && negb (smem v worker_written) && negb (smem v main_written))
  | _ => false
  end.

(* accesses that are NOT under output_mutex and are accepted: each is a recorded finding / candidate *)
Definition known_unprotected_vars : list string := ["total_count"%string].
  (* known_findings.json: C18 limit-global, race:total_count *)
Definition unlocked_stderr_sites : list string :=
  ["callback:CALLBACK_MSG_TOO_SLOW_SCANNING"%string; "callback:CALLBACK_MSG_TOO_MANY_MATCHES"%string].
  (* warnings go to stderr with a single fprintf outside the mutex *)

Definition is_stdout (e : oev) : bool := match e with EOut Stdout _ => true | _ => false end.
Definition is_lock (e : oev) : bool := match e with ELock => true | _ => false end.
Definition is_var (e : oev) : bool := match e with EVar _ _ => true | _ => false end.

(* ---- several threads and one mutex ---- *)
Definition gev := (nat * oev)%type.

Fixpoint proj (t : nat) (g : list gev) : list oev :=
  match g with
  | [] => []
  | (u, e) :: r => if Nat.eqb u t then e :: proj t r else proj t r
  end.

(* the mutex: lock only when free, unlock only by the owner (as QLock / QUnlock of Model/Queue.v) *)
Definition gstep (own : option nat) (x : gev) : option (option nat) :=
  match snd x with
  | ELock => match own with None => Some (Some (fst x)) | Some _ => None end
  | EUnlock => match own with Some u => if Nat.eqb u (fst x) then Some None else None | None => None end
  | _ => Some own
  end.

Fixpoint grun (own : option nat) (g : list gev) : option (option nat) :=
  match g with
  | [] => Some own
  | x :: r => match gstep own x with Some o => grun o r | None => None end
  end.

(* ---- an executable witness generator for [exec] (choices: true = first branch / iterate) ---- *)
Fixpoint orun (fuel : nat) (s : ostmt) (ch : list bool) : option (list oev * outcome * list bool) :=
  match fuel with
  | 0 => None
  | S k =>
      match s with
      | OSkip => Some ([], ONormal, ch)
      | OEv e => Some ([e], ONormal, ch)
      | OSeq a b =>
          match orun k a ch with
          | Some (t1, ONormal, ch1) =>
              match orun k b ch1 with Some (t2, o, ch2) => Some (t1 ++ t2, o, ch2) | None => None end
          | x => x
          end
      | OChoice a b => match ch with c :: r => orun k (if c then a else b) r | [] => None end
      | OLoop c b =>
          match orun k c ch with
          | Some (tc, ONormal, true :: ch1) =>
              match orun k b ch1 with
              | Some (tb, ONormal, ch2) | Some (tb, OCont, ch2) =>
                  match orun k (OLoop c b) ch2 with Some (t, o, ch3) => Some (tc ++ tb ++ t, o, ch3) | None => None end
              | Some (tb, OBrk, ch2) => Some (tc ++ tb, ONormal, ch2)
              | Some (tb, ORet, ch2) => Some (tc ++ tb, ORet, ch2)
              | None => None
              end
          | Some (tc, ONormal, false :: ch1) => Some (tc, ONormal, ch1)
          | _ => None
          end
      | OCatchBreak a => match orun k a ch with Some (t, o, r) => Some (t, catch_break o, r) | None => None end
      | OFun _ a =>
          match orun k a ch with
          | Some (t, ONormal, r) | Some (t, ORet, r) => Some (t, ONormal, r)
          | _ => None
          end
      | OReturn => Some ([], ORet, ch)
      | OBreak => Some ([], OBrk, ch)
      | OContinue => Some ([], OCont, ch)
      end
  end.
