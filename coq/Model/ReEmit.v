(* Code size and distance tests of _yr_re_emit (libyara/re.c), for C15 "regular-expression size":
   every relative offset stored in a split / jump instruction is a 16-bit signed value; re.c tests the
   distance before narrowing it and answers ERROR_REGULAR_EXPRESSION_TOO_LARGE.  Instruction sizes and
   the (operator, limit) of every distance test are regenerated from re.c (gen/GenLimits.v). *)
From Coq Require Import ZArith List Bool Lia.
From YV Require Import Base.Cmp gen.GenConsts gen.GenLimits.
Import ListNotations.
Local Open Scope Z_scope.

(* the part of the regexp AST that matters for sizes; [EmRep n a] = a concatenated n times *)
Inductive emrx :=
| EmLit | EmAny | EmClass
| EmCat (a b : emrx) | EmRep (n : Z) (a : emrx)
| EmAlt (a b : emrx) | EmStar (a : emrx) | EmPlus (a : emrx)
| EmRange (lo hi : Z) (a : emrx)      (* e{lo,hi}, e? = {0,1}, e{n,} = {n,RE_MAX_RANGE}; child is not `.` *)
| EmRangeAny.                        (* .{lo,hi} : one RE_OPCODE_REPEAT_ANY instruction *)

Definition em_rg_prolog (lo hi : Z) : bool := 0 <? lo.
Definition em_rg_repeat (lo hi : Z) : bool := (lo + 1 <? hi) || (2 <? hi).
Definition em_rg_split (lo hi : Z) : bool := lo <? hi.
Definition em_rg_epilog (lo hi : Z) : bool := (lo <? hi) || (1 <? hi).

Fixpoint em_size (r : emrx) : Z :=
  match r with
  | EmLit => re_sz_literal
  | EmAny => re_sz_any
  | EmClass => re_sz_class
  | EmCat a b => em_size a + em_size b
  | EmRep n a => Z.max 0 n * em_size a
  | EmAlt a b => re_sz_split + em_size a + re_sz_jump + em_size b
  | EmStar a => re_sz_split + em_size a + re_sz_jump
  | EmPlus a => em_size a + re_sz_split
  | EmRange lo hi a =>
      let s := em_size a in
      (if em_rg_prolog lo hi then s else 0) + (if em_rg_repeat lo hi then re_sz_repeat + s + re_sz_repeat else 0) +
      (if em_rg_split lo hi then re_sz_split else 0) + (if em_rg_epilog lo hi then s else 0)
  | EmRangeAny => re_sz_repeat_any
  end.

(* `if (A - B OP LIMIT) return ERROR_REGULAR_EXPRESSION_TOO_LARGE` with A, B uint32 and LIMIT an int constant:
   both sides are converted to uint32.  [d] is the true signed distance A - B. *)
Definition em_two32 : Z := 4294967296.
Definition em_dist_rejects (op : cmpop) (lim d : Z) : bool := cmp_eval op (d mod em_two32) (lim mod em_two32).

(* the relative offsets a node stores itself (not those of its em_children), with the test guarding each *)
Definition em_node_tests (r : emrx) : list (cmpop * Z * Z * bool) :=   (* operator, limit, distance, narrowed to int16? (else int32) *)
  match r with
  | EmPlus a => [(re_plus_back_op, re_plus_back_lim, - em_size a, true)]
  | EmStar a => [(re_star_back_op, re_star_back_lim, - (re_sz_split + em_size a), true);
                (re_star_fwd_op, re_star_fwd_lim, re_sz_split + em_size a + re_sz_jump, true)]
  | EmAlt a b => [(re_alt_split_op, re_alt_split_lim, re_sz_split + em_size a + re_sz_jump, true);
                 (re_alt_jump_op, re_alt_jump_lim, re_sz_jump + em_size b, true)]
  | EmRange lo hi a =>
      (if em_rg_repeat lo hi then [(re_range_rep_back_op, re_range_rep_back_lim, - em_size a, false);
                                (re_range_rep_fwd_op, re_range_rep_fwd_lim, re_sz_repeat + em_size a + re_sz_repeat, false)] else []) ++
      (if em_rg_split lo hi then [(re_range_split_op, re_range_split_lim, re_sz_split + em_size a, true)] else [])
  | _ => []
  end.

Definition em_children (r : emrx) : list emrx :=
  match r with
  | EmCat a b | EmAlt a b => [a; b]
  | EmRep n a => if 0 <? n then [a] else []
  | EmStar a | EmPlus a | EmRange _ _ a => [a]
  | _ => []
  end.

(* what re.c decides: ERROR_REGULAR_EXPRESSION_TOO_LARGE iff some test fires *)
Fixpoint em_ok (r : emrx) : bool :=
  let self := forallb (fun t => match t with (op, lim, d, _) => negb (em_dist_rejects op lim d) end) (em_node_tests r) in
  match r with
  | EmCat a b | EmAlt a b => em_ok a && em_ok b && self
  | EmRep n a => if 0 <? n then em_ok a else true
  | EmStar a | EmPlus a | EmRange _ _ a => em_ok a && self
  | _ => self
  end.

(* what the limit means: every stored offset is representable in the integer type it is narrowed to *)
Definition em_fit (narrow16 : bool) (d : Z) : bool :=
  if narrow16 then (-32768 <=? d) && (d <=? 32767) else (-2147483648 <=? d) && (d <=? 2147483647).
Fixpoint em_fits (r : emrx) : bool :=
  let self := forallb (fun t => match t with (_, _, d, n16) => em_fit n16 d end) (em_node_tests r) in
  match r with
  | EmCat a b | EmAlt a b => em_fits a && em_fits b && self
  | EmRep n a => if 0 <? n then em_fits a else true
  | EmStar a | EmPlus a | EmRange _ _ a => em_fits a && self
  | _ => self
  end.

(* every sub-expression emits at least one byte (e{0} emits nothing: a + over it has distance 0, which the
   unsigned test of re.c reads as "too large"), ranges are well formed *)
Fixpoint em_wf (r : emrx) : bool :=
  match r with
  | EmCat a b | EmAlt a b => em_wf a && em_wf b
  | EmRep n a => (0 <? n) && em_wf a
  | EmStar a | EmPlus a => em_wf a
  | EmRange lo hi a => (0 <=? lo) && (lo <=? hi) && (1 <=? hi) && em_wf a
  | _ => true
  end.
