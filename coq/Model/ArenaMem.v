(* In-memory model of YR_ARENA while it is being written (libyara/arena.c):
   buffers with a base address, a capacity and used bytes; the relocation list; growth by
   doubling from the initial size; realloc that may move a buffer; the pointer fix-up loop of
   _yr_arena_allocate_memory; and [abs], the conversion of every registered pointer into a
   (buffer, offset) reference with the search semantics of yr_arena_ptr_to_ref, which is what
   yr_arena_save_stream performs before writing.  Definitions only; proofs in
   Proofs/ArenaMemProofs.v, statements in Props/Properties_C19.v.

   Addresses and capacities are N (64-bit values are never converted to unary); buffer numbers,
   offsets and sizes of the operations are nat (they index concrete lists).

   A relocatable slot is 8 bytes holding an absolute address, little endian (sizeof_ptr = 8 is
   re-checked against /repo by Proofs/ArenaMemProofs.ptr_is_8_bytes). *)
From Coq Require Import List NArith ZArith Lia Bool Arith.
From YV Require Import Base.Bytes gen.GenConsts Model.Arena.
Import ListNotations.
Local Open Scope N_scope.

Definition slot := (nat * nat)%type.          (* buffer number, offset of an 8-byte pointer slot *)

Record mbuf := { base : N;                     (* YR_ARENA_BUFFER.data ; 0 = NULL *)
                 cap : N;                      (* .size *)
                 data : bytes }.               (* the first .used bytes *)
Definition nullbuf : mbuf := {| base := 0; cap := 0; data := [] |}.
Definition with_data (b : mbuf) (d : bytes) : mbuf := {| base := base b; cap := cap b; data := d |}.

Record mem_arena := { mbufs : list mbuf;       (* buffers[0 .. num_buffers) *)
                      mrelocs : list slot;     (* reloc_list_head .. tail, in list order *)
                      minit : N;               (* initial_buffer_size *)
                      mcalls : nat;            (* number of yr_realloc calls so far (indexes the oracle) *)
                      mzlim : list N;          (* per buffer: the bytes at offsets [used, mzlim) are known to be zero *)
                      mpinned : bool }.        (* true: arena.c as it was before the "fix: zero the memory returned by
                                                  yr_arena_allocate_zeroed_memory in every case" commit *)

(* C return codes / behaviours that are not a return value *)
Inductive merr := EInvalidArgument | ENoMem.
Inductive mbad :=
| BadBufferId     (* buffer_id == num_buffers passes the test `buffer_id > arena->num_buffers` *)
| BadAssertPtr    (* an assert() of yr_arena_get_ptr fires *)
| BadStoreOOB     (* memcpy outside the used part of a buffer *)
| BadHang         (* initial_buffer_size == 0: `while (new_size < used + size) new_size *= 2` never ends *)
| BadDirtyZero    (* pinned code only: a ZERO_MEMORY allocation served from spare capacity that was never
                     zeroed.  arena.c used to memset only the part added by a realloc made with the flag, so
                     after a growth caused by yr_arena_write_data / yr_arena_allocate_memory the "zeroed"
                     memory was indeterminate.  The current code memsets the allocated region itself. *)
| BadPlacement.   (* the oracle answered something realloc cannot return: NULL is modelled as ENoMem by the
                     caller, here: overlapping another live block, or wrapping around the address space *)
Inductive mres (A : Type) := MOk (a : A) | MErr (e : merr) | MBad (b : mbad).
Arguments MOk {A}. Arguments MErr {A}. Arguments MBad {A}.
Definition mbind {A B} (r : mres A) (f : A -> mres B) : mres B :=
  match r with MOk a => f a | MErr e => MErr e | MBad b => MBad b end.
Notation "'mdo' x <- r ; k" := (mbind r (fun x => k)) (at level 200, x pattern, r at level 100, k at level 200).

Fixpoint upd {A} (l : list A) (i : nat) (x : A) : list A :=
  match l, i with
  | [], _ => []
  | _ :: r, O => x :: r
  | y :: r, S i' => y :: upd r i' x
  end.

Definition bufof (l : list mbuf) (i : nat) : mbuf := nth i l nullbuf.
Definition used (l : list mbuf) (i : nat) : nat := length (data (bufof l i)).

(* ---------- one pass over the relocation list: "slot := f (slot)" for every entry, in list order.
   Both loops of arena.c that walk the list have this shape: the fix-up in
   _yr_arena_allocate_memory and the pointer -> reference conversion of yr_arena_save_stream. *)
Definition slot_step (f : bytes -> bytes) (l : list mbuf) (s : slot) : list mbuf :=
  let mb := bufof l (fst s) in
  upd l (fst s) (with_data mb (splice (data mb) (snd s) (f (slice (data mb) (snd s) 8)))).
Definition mapslots (f : bytes -> bytes) (rs : list slot) (l : list mbuf) : list mbuf :=
  fold_left (slot_step f) rs l.

(* ---------- growth: new_size = (size == 0) ? initial : size * 2; while (new_size < used + size) new_size *= 2;
   if (new_size > 4GB) return ERROR_INSUFFICIENT_MEMORY *)
Fixpoint dbl (fuel : nat) (n need : N) : N :=
  match fuel with
  | O => n
  | S f => if n <? need then dbl f (2 * n) need else n
  end.
Definition four_gb : N := 4294967296.
Inductive gres := GOk (n : N) | GNoMem | GHang | GBadAnswer.
Definition grow_size (init cp need : N) : gres :=
  if four_gb <? need then GNoMem           (* the loop ends above 4GB (size_t does not wrap below 2^63) *)
  else
    let n := dbl 64 (if cp =? 0 then init else 2 * cp) need in
    if n <? need then GHang                (* only for init = 0, see ArenaMemProofs.grow_never_hangs *)
    else if four_gb <? n then GNoMem else GOk n.

(* the relocated pointer: `if (target >= b->data && target < b->data + b->used) target = target - b->data + new_data` *)
Definition fixup (ob : N) (u : N) (nbase : N) (s : bytes) : bytes :=
  let v := le_dec s in
  if (ob <=? v) && (v <? ob + u) then le_enc 8 (v - ob + nbase) else s.

(* what realloc may answer: non-NULL, inside the address space, not overlapping any other live block
   (the block being resized may be extended in place, moved, even onto part of its old range) *)
Definition two64 : N := 18446744073709551616.
Fixpoint place_ok_from (i : nat) (l : list mbuf) (b : nat) (nbase ncap : N) : bool :=
  match l with
  | [] => true
  | mb :: r => ((i =? b)%nat || (base mb =? 0) || (base mb + cap mb <=? nbase) || (nbase + ncap <=? base mb))
               && place_ok_from (S i) r b nbase ncap
  end.
Definition placement_ok (l : list mbuf) (b : nat) (nbase ncap : N) : bool :=
  negb (nbase =? 0) && (nbase + ncap <=? two64) && place_ok_from 0 l b nbase ncap.

(* answer of the k-th yr_realloc call: the address, and optionally the size that was asked for.
   [None]: the size is arena.c's (doubling from the initial size, [grow_size]).  [Some n]: any other
   growth policy; n must make room for the request and stay within 4 GB.  The theorems hold for every
   oracle, hence for every growth policy: the doubling factor is not something they depend on. *)
Definition oracle := nat -> N * option N.
Definition pick_size (ans : option N) (init cp need : N) : gres :=
  match ans with
  | None => grow_size init cp need
  | Some n => if (n <? need) || (four_gb <? n) then GBadAnswer else GOk n
  end.

(* _yr_arena_allocate_memory(arena, flags, b, |x|, &ref) followed by what the caller stores in the new
   region: x is zeros for the ZERO_MEMORY flag, the data of yr_arena_write_data, or the indeterminate
   contents of fresh memory for yr_arena_allocate_memory *)
Definition m_alloc (orc : oracle) (m : mem_arena) (b : nat) (zero : bool) (x : bytes) : mres mem_arena :=
  let l := mbufs m in
  let nb := length l in
  if (nb <? b)%nat then MErr EInvalidArgument
  else if (b =? nb)%nat then MBad BadBufferId
  else
    let mb := bufof l b in
    let u := nlen (data mb) in
    if cap mb - u <? nlen x then
      match pick_size (snd (orc (mcalls m))) (minit m) (cap mb) (u + nlen x) with
      | GNoMem => MErr ENoMem
      | GHang => MBad BadHang
      | GBadAnswer => MBad BadPlacement
      | GOk ncap =>
          let nbase := fst (orc (mcalls m)) in
          if placement_ok l b nbase ncap then
            let l1 := if negb (base mb =? 0) && negb (base mb =? nbase)
                      then mapslots (fixup (base mb) u nbase) (mrelocs m) l else l in
            let mb1 := bufof l1 b in
            MOk {| mbufs := upd l1 b {| base := nbase; cap := ncap; data := data mb1 ++ x |};
                   mrelocs := mrelocs m; minit := minit m; mcalls := S (mcalls m);
                   (* `if (flags & YR_ARENA_ZERO_MEMORY) memset(new_data + used, 0, new_size - used)` *)
                   mzlim := if zero then upd (mzlim m) b ncap else mzlim m; mpinned := mpinned m |}
          else MBad BadPlacement
      end
    else if zero && mpinned m && (nth b (mzlim m) 0 <? u + nlen x) then MBad BadDirtyZero
    else (* current code: `if (flags & YR_ARENA_ZERO_MEMORY) memset(b->data + b->used, 0, size)` *)
      MOk {| mbufs := upd l b (with_data mb (data mb ++ x));
             mrelocs := mrelocs m; minit := minit m; mcalls := mcalls m; mzlim := mzlim m; mpinned := mpinned m |}.

(* yr_arena_get_ptr / yr_arena_ref_to_ptr *)
Definition get_ptr (l : list mbuf) (t : option slot) : mres N :=
  match t with
  | None => MOk 0
  | Some (i, o) =>
      if (i <? length l)%nat then
        if (o <=? used l i)%nat then MOk (if base (bufof l i) =? 0 then 0 else base (bufof l i) + N.of_nat o)
        else MBad BadAssertPtr
      else MBad BadAssertPtr
  end.

(* memcpy(yr_arena_get_ptr(b, off), x, |x|) *)
Definition m_poke (m : mem_arena) (b off : nat) (x : bytes) : mres mem_arena :=
  let l := mbufs m in
  if (b <? length l)%nat && (off + length x <=? used l b)%nat then
    MOk {| mbufs := upd l b (with_data (bufof l b) (splice (data (bufof l b)) off x));
           mrelocs := mrelocs m; minit := minit m; mcalls := mcalls m; mzlim := mzlim m; mpinned := mpinned m |}
  else MBad BadStoreOOB.

Definition m_reg (m : mem_arena) (ss : list slot) : mem_arena :=
  {| mbufs := mbufs m; mrelocs := mrelocs m ++ ss; minit := minit m; mcalls := mcalls m; mzlim := mzlim m;
     mpinned := mpinned m |}.

(* ---------- operations: an address-free description of what a client of the arena does *)
Inductive op :=
| OAlloc (b n : nat)                         (* yr_arena_allocate_zeroed_memory(b, n) *)
| OAllocRaw (b : nat) (x : bytes)            (* yr_arena_allocate_memory(b, |x|), fresh memory holds x *)
| OWrite (b : nat) (x : bytes)               (* yr_arena_write_data(b, x, |x|) *)
| OStruct (b n : nat) (offs : list nat)      (* yr_arena_allocate_struct(b, n, &ref, offs..., EOL) *)
| ORelocStore (b off : nat) (t : option slot)
     (* yr_arena_make_ptr_relocatable(b, off, EOL); *(void** )get_ptr(b, off) = ref_to_ptr(t)   (compiler.c:799) *)
| OStorePtr (b off : nat) (t : option slot)  (* *(void** )get_ptr(b, off) = ref_to_ptr(t) *)
| OStoreBytes (b off : nat) (x : bytes)      (* memcpy(get_ptr(b, off), x, |x|) *)
| OEmitArgReloc (b : nat) (i : N) (t : option slot).
     (* yr_parser_emit_with_arg_reloc (parser.c:139): p = ref_to_ptr(t) is taken FIRST, then
        write_data(b, &i, 1); write_data(b, &p, 8, &ref); make_ptr_relocatable(b, ref.offset) *)

Definition step (orc : oracle) (m : mem_arena) (o : op) : mres mem_arena :=
  match o with
  | OAlloc b n => m_alloc orc m b true (repeat 0 n)
  | OAllocRaw b x => m_alloc orc m b false x
  | OWrite b x => m_alloc orc m b false x
  | OStruct b n offs =>
      let u := used (mbufs m) b in
      mdo m1 <- m_alloc orc m b true (repeat 0 n);
      MOk (m_reg m1 (map (fun o => (b, (u + o)%nat)) offs))
  | ORelocStore b off t =>
      mdo p <- get_ptr (mbufs m) t;
      m_poke (m_reg m [(b, off)]) b off (le_enc 8 p)
  | OStorePtr b off t =>
      mdo p <- get_ptr (mbufs m) t;
      m_poke m b off (le_enc 8 p)
  | OStoreBytes b off x => m_poke m b off x
  | OEmitArgReloc b i t =>
      let u := used (mbufs m) b in
      mdo p <- get_ptr (mbufs m) t;
      mdo m1 <- m_alloc orc m b false [i];
      mdo m2 <- m_alloc orc m1 b false (le_enc 8 p);
      MOk (m_reg m2 [(b, S u)])
  end.

Fixpoint run (orc : oracle) (m : mem_arena) (ops : list op) : mres mem_arena :=
  match ops with
  | [] => MOk m
  | o :: r => match step orc m o with MOk m' => run orc m' r | e => e end
  end.

(* yr_arena_create(nb, cap, &arena) *)
Definition init (nb : nat) (cp : N) : mem_arena :=
  {| mbufs := repeat nullbuf nb; mrelocs := []; minit := cp; mcalls := 0; mzlim := repeat 0 nb; mpinned := false |}.
(* the same with arena.c as it was at the pinned commit (only used by the _refuted witness and by the check's
   classification of a reappearance) *)
Definition init_pinned (nb : nat) (cp : N) : mem_arena :=
  {| mbufs := repeat nullbuf nb; mrelocs := []; minit := cp; mcalls := 0; mzlim := repeat 0 nb; mpinned := true |}.

(* ---------- yr_arena_ptr_to_ref: first buffer, in index order, with data != NULL and
   data <= address < data + used *)
Fixpoint p2r_from (i : nat) (l : list mbuf) (v : N) : option slot :=
  match l with
  | [] => None
  | mb :: r =>
      if negb (base mb =? 0) && (base mb <=? v) && (v <? base mb + nlen (data mb))
      then Some (i, N.to_nat (v - base mb))
      else p2r_from (S i) r v
  end.
Definition p2r (l : list mbuf) (v : N) : option slot := if v =? 0 then None else p2r_from 0 l v.
(* 0 when yr_arena_ptr_to_ref returns 0 (the assert(found) of yr_arena_save_stream; with NDEBUG a NULL ref is written) *)
Definition p2r_found (l : list mbuf) (v : N) : bool :=
  (v =? 0) || match p2r_from 0 l v with Some _ => true | None => false end.

(* a reference as it is stored in a slot of a saved image: YR_ARENA_REF, all ones = NULL *)
Definition enc_t (t : option slot) : bytes :=
  match t with
  | None => enc_ref (null32, null32)
  | Some (i, o) => enc_ref (N.of_nat i, N.of_nat o)
  end.
Definition cvt (l : list mbuf) (s : bytes) : bytes := enc_t (p2r l (le_dec s)).

(* ---------- the address-free content.  [aarena] is [Arena.arena] with the relocation entries still nat *)
Record aarena := { abufs : list bytes; arelocs : list slot }.
Definition to_arena (a : aarena) : arena :=
  {| bufs := abufs a; relocs := map (fun s : slot => (N.of_nat (fst s), N.of_nat (snd s))) (arelocs a) |}.

Definition absA (m : mem_arena) : aarena :=
  {| abufs := map data (mapslots (cvt (mbufs m)) (mrelocs m) (mbufs m)); arelocs := mrelocs m |}.
Definition abs (m : mem_arena) : arena := to_arena (absA m).
(* true iff the assert(found) in yr_arena_save_stream holds for every entry *)
Definition abs_found (m : mem_arena) : bool :=
  forallb (fun s : slot => p2r_found (mbufs m) (le_dec (slice (data (bufof (mbufs m) (fst s))) (snd s) 8))) (mrelocs m).

(* yr_arena_save_stream on the in-memory arena: header, table of used sizes, buffers with pointers
   converted in place by the first loop, relocation entries, terminator *)
Definition save_mem (c : cfg) (m : mem_arena) : bytes :=
  let converted := mapslots (cvt (mbufs m)) (mrelocs m) (mbufs m) in
  header (nlen (mbufs m))
  ++ table_from (N.of_nat hdr_size + N.of_nat ent_size * nlen (mbufs m)) (map data (mbufs m))
  ++ concat (map data converted)
  ++ concat (map (fun s : slot => enc_ref (N.of_nat (fst s), N.of_nat (snd s))) (mrelocs m))
  ++ terminator c.

(* ---------- the same operations on address-free content, with the interface discipline as checks.
   [strict = true]: a stored pointer designates a byte strictly inside the used part of a buffer;
   [strict = false]: also one past the end, which yr_arena_get_ptr's assert(offset <= used) permits. *)
Definition sl_disjb (s s' : slot) : bool :=
  negb (fst s =? fst s')%nat || (snd s + 8 <=? snd s')%nat || (snd s' + 8 <=? snd s)%nat.
Definition slot_eqb (s s' : slot) : bool := (fst s =? fst s')%nat && (snd s =? snd s')%nat.

Definition valid_t (strict : bool) (l : list bytes) (t : option slot) : bool :=
  match t with
  | None => true
  | Some (i, o) => (i <? length l)%nat &&
                   (if strict then (o <? length (nth i l []))%nat else (o <=? length (nth i l []))%nat)
  end.

Definition a_alloc (a : aarena) (b : nat) (x : bytes) (news : list slot) : mres aarena :=
  let nb := length (abufs a) in
  if (nb <? b)%nat then MErr EInvalidArgument
  else if (b =? nb)%nat then MBad BadBufferId
  else MOk {| abufs := upd (abufs a) b (nth b (abufs a) [] ++ x); arelocs := arelocs a ++ news |}.

Definition a_poke (a : aarena) (b off : nat) (x : bytes) : aarena :=
  {| abufs := upd (abufs a) b (splice (nth b (abufs a) []) off x); arelocs := arelocs a |}.

Fixpoint offs_ok (n : nat) (offs : list nat) : bool :=
  match offs with
  | [] => true
  | o :: r => (o + 8 <=? n)%nat && forallb (fun o' => (o + 8 <=? o')%nat || (o' + 8 <=? o)%nat) r && offs_ok n r
  end.
(* n zero bytes with a NULL reference at every registered offset *)
Definition struct_image (n : nat) (offs : list nat) : bytes :=
  fold_left (fun l o => splice l o (enc_t None)) offs (repeat 0 n).

Inductive discipline := DNotRegistered | DTarget | DRegion | DOverlap | DSameBuffer.
Inductive ares (A : Type) := AOk (a : A) | AErr (e : merr) | ABadId | ADisc (d : discipline).
Arguments AOk {A}. Arguments AErr {A}. Arguments ABadId {A}. Arguments ADisc {A}.
Definition of_mres {A} (r : mres A) : ares A :=
  match r with MOk a => AOk a | MErr e => AErr e | MBad _ => ABadId end.

Definition astep (strict : bool) (a : aarena) (o : op) : ares aarena :=
  let l := abufs a in
  match o with
  | OAlloc b n => of_mres (a_alloc a b (repeat 0 n) [])
  | OAllocRaw b x => of_mres (a_alloc a b x [])
  | OWrite b x => of_mres (a_alloc a b x [])
  | OStruct b n offs =>
      if offs_ok n offs then
        of_mres (a_alloc a b (struct_image n offs) (map (fun o => (b, (length (nth b l []) + o)%nat)) offs))
      else ADisc DOverlap
  | ORelocStore b off t =>
      if negb ((b <? length l)%nat && (off + 8 <=? length (nth b l []))%nat) then ADisc DRegion
      else if negb (forallb (sl_disjb (b, off)) (arelocs a)) then ADisc DOverlap
      else if negb (valid_t strict l t) then ADisc DTarget
      else AOk {| abufs := abufs (a_poke a b off (enc_t t)); arelocs := arelocs a ++ [(b, off)] |}
  | OStorePtr b off t =>
      if negb (existsb (slot_eqb (b, off)) (arelocs a)) then ADisc DNotRegistered
      else if negb (valid_t strict l t) then ADisc DTarget
      else AOk (a_poke a b off (enc_t t))
  | OStoreBytes b off x =>
      if negb ((b <? length l)%nat && (off + length x <=? length (nth b l []))%nat) then ADisc DRegion
      else if negb (forallb (fun s : slot => negb (fst s =? b)%nat || (snd s + 8 <=? off)%nat
                                             || (off + length x <=? snd s)%nat) (arelocs a))
      then ADisc DOverlap
      else AOk (a_poke a b off x)
  | OEmitArgReloc b i t =>
      if negb (valid_t strict l t) then ADisc DTarget
      else if match t with Some (tb, _) => (tb =? b)%nat | None => false end then ADisc DSameBuffer
      else match a_alloc a b [i] [] with
           | MOk a1 => of_mres (a_alloc a1 b (enc_t t) [(b, S (length (nth b l [])))])
           | r => of_mres r
           end
  end.

Fixpoint arun (strict : bool) (a : aarena) (ops : list op) : ares aarena :=
  match ops with
  | [] => AOk a
  | o :: r => match astep strict a o with AOk a' => arun strict a' r | e => e end
  end.
Definition ainit (nb : nat) : aarena := {| abufs := repeat [] nb; arelocs := [] |}.

(* "every pointer written is registered and points strictly inside a buffer (or is NULL)", and the
   other rules of the interface: slots inside the used part and not overlapping, plain bytes are not
   stored over a registered slot, emit_with_arg_reloc is not given a pointer into the buffer it writes to *)
Definition disciplined (nb : nat) (ops : list op) : Prop := exists a, arun true (ainit nb) ops = AOk a.

(* ---------- entry points of the extracted model runner (ocaml/cmds/20_arenamem.ml) *)
Definition am_run (nb : nat) (cp : N) (answers : list (N * option N)) (ops : list op) : mres mem_arena :=
  run (fun k => nth k answers (0, None)) (init nb cp) ops.
Definition am_run_pinned (nb : nat) (cp : N) (answers : list (N * option N)) (ops : list op) : mres mem_arena :=
  run (fun k => nth k answers (0, None)) (init_pinned nb cp) ops.
Definition am_arun (strict : bool) (nb : nat) (ops : list op) : ares aarena := arun strict (ainit nb) ops.
Definition am_mem (m : mem_arena) : list (N * bytes) := map (fun b => (base b, data b)) (mbufs m).
Definition am_calls (m : mem_arena) : nat := mcalls m.
Definition am_abs (m : mem_arena) : list bytes * list (N * N) := (bufs (abs m), relocs (abs m)).
Definition am_aabs (a : aarena) : list bytes * list (N * N) := (bufs (to_arena a), relocs (to_arena a)).
Definition am_found (m : mem_arena) : bool := abs_found m.
Definition am_save (m : mem_arena) : bytes := save_mem cfg_current m.
