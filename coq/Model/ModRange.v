(* C14 model: the byte-range walker shared by the data functions of the hash and math modules
   (modules/hash/hash.c data_md5/data_sha1/data_sha256/data_checksum32/data_crc32, modules/math/math.c
   get_distribution/data_serial_correlation/data_monte_carlo_pi: ten copies of one loop), the digest cache
   of hash.c, crc32 / checksum32, the integer part of math.*, string.to_int (strtoll) and string.length.
   Definitions only; proofs are in Proofs/ModRangeProofs.v.

   Conventions.  A memory block is (base, data); its size is the length of its data (the harness and the
   library's own iterators always hand out readable blocks, so yr_fetch_block_data never returns NULL here).
   Offsets and lengths are the int64 arguments of the rule, as Z.  The C code compares them with the
   uint64 base / size_t size after the `offset < 0 || length < 0` test, so on the values that reach the
   loop signed and unsigned comparison coincide; block ends are assumed < 2^63 (no address wraps). *)
From Coq Require Import List NArith ZArith Lia Bool.
From YV Require Import Base.Bytes Base.CSem gen.GenConsts.
Import ListNotations.
Local Open Scope Z_scope.

(* ------------------------------------------------------------------ blocks and the range walker *)
Record block := mkblock { b_base : Z; b_data : list N }.
Definition b_size (b : block) : Z := Z.of_nat (length (b_data b)).
Definition b_end (b : block) : Z := b_base b + b_size b.

(* block_data + data_offset, data_len bytes *)
Definition chunk (b : block) (doff dlen : Z) : list N :=
  firstn (Z.to_nat dlen) (skipn (Z.to_nat doff) (b_data b)).

Section Walk.
Context {St : Type}.
Variable upd : St -> list N -> St.     (* what the loop body does with block_data+data_offset, data_len *)
(* [fixd] = true : the loop of the current code (fix fc7cae9), `if (past_first_block && block->base + ... ) break;`
   [fixd] = false: the loop as it was in 4.5.2, `if (block->base + block->size >= offset + length) break;`,
                   kept only for the refutation witness of the pinned variant. *)
Variable fixd : bool.

(* foreach_memory_block(iterator, block) { ... } followed by the !past_first_block test.
   [past] is past_first_block; None is YR_UNDEFINED. *)
Fixpoint walk (bs : list block) (off len : Z) (past : bool) (st : St) : option St :=
  match bs with
  | [] => if past then Some st else None
  | b :: rest =>
      if (b_base b <=? off) && (off <? b_end b) then
        let doff := off - b_base b in
        let dlen := Z.min len (b_size b - doff) in
        let st' := upd st (chunk b doff dlen) in
        let off' := off + dlen in
        let len' := len - dlen in
        if off' + len' <=? b_end b then Some st'                (* break; past_first_block is true *)
        else walk rest off' len' true st'
      else if past then None                                    (* gap after the first block of the range *)
      else if negb fixd && (off + len <=? b_end b) then None    (* break with past_first_block false *)
      else walk rest off len false st
  end.

(* block = first_memory_block(context); the `block == NULL`, `offset < 0 || length < 0 ||
   offset < block->base` tests; then the loop (which restarts from the first block). *)
Definition range_walk (bs : list block) (off len : Z) (st : St) : option St :=
  match bs with
  | [] => None
  | b0 :: _ =>
      if (off <? 0) || (len <? 0) || (off <? b_base b0) then None
      else walk bs off len false st
  end.
End Walk.

(* the addressed bytes: the walker instantiated with "append the chunk" *)
Definition addressed (fixd : bool) (bs : list block) (off len : Z) : option (list N) :=
  range_walk (fun acc c => acc ++ c) fixd bs off len [].

(* specification side: what a range of a buffer means *)
Definition range_spec (base : Z) (data : list N) (off len : Z) : option (list N) :=
  if (base <=? off) && (off <? base + Z.of_nat (length data)) && (0 <=? off) && (0 <=? len) then
    Some (firstn (Z.to_nat (Z.min len (base + Z.of_nat (length data) - off))) (skipn (Z.to_nat (off - base)) data))
  else None.

(* consecutive blocks starting at [base] carrying the given pieces *)
Fixpoint blocks_of (base : Z) (parts : list (list N)) : list block :=
  match parts with
  | [] => []
  | p :: r => mkblock base p :: blocks_of (base + Z.of_nat (length p)) r
  end.

(* ------------------------------------------------------------------ hash.* over a streaming digest *)
Section Hash.
Variables (Ctx D : Type).
Variable h_init : Ctx.                         (* yr_md5_init *)
Variable h_update : Ctx -> list N -> Ctx.      (* yr_md5_update(ctx, block_data + data_offset, data_len) *)
Variable h_final : Ctx -> D.                   (* yr_md5_final + digest_to_ascii *)
Definition module_hash (fixd : bool) (bs : list block) (off len : Z) : option D :=
  option_map h_final (range_walk h_update fixd bs off len h_init).
Definition digest_of (l : list N) : D := h_final (h_update h_init l).
End Hash.

(* ------------------------------------------------------------------ the digest cache of hash.c *)
Inductive alg := MD5 | SHA1 | SHA256.
Definition ns_of (a : alg) : list N :=           (* the ns strings "md5", "sha1", "sha256" *)
  match a with
  | MD5 => [109; 100; 53]
  | SHA1 => [115; 104; 97; 49]
  | SHA256 => [115; 104; 97; 50; 53; 54]
  end%N.
Definition u64 (z : Z) : N := Z.to_N (z mod two64).
(* CACHE_KEY { int64_t offset; int64_t length; } as its 16 raw bytes (little endian) *)
Definition raw_key (off len : Z) : list N := le_enc 8 (u64 off) ++ le_enc 8 (u64 len).

Section Cache.
Variable D : Type.
Variable H : alg -> list N -> D.                 (* the digest text of a byte string, per algorithm *)
Variable fixd : bool.
Variable bs : list block.
Definition centry := (list N * list N * D)%type.  (* ns, key bytes, value *)
Definition cache := list centry.
Fixpoint cache_lookup (c : cache) (ns key : list N) : option D :=
  match c with
  | [] => None
  | (n, k, d) :: r => if bytes_eqb n ns && bytes_eqb k key then Some d else cache_lookup r ns key
  end.
Definition cache_add (c : cache) (ns key : list N) (d : D) : cache := (ns, key, d) :: c.

Definition call := (alg * Z * Z)%type.
Definition uncached (q : call) : option D :=
  let '(a, off, len) := q in option_map (H a) (addressed fixd bs off len).

(* data_md5 / data_sha1 / data_sha256: argument tests, cache lookup, walk, add_to_cache *)
Definition cached_call (c : cache) (q : call) : cache * option D :=
  let '(a, off, len) := q in
  match bs with
  | [] => (c, None)
  | b0 :: _ =>
      if (off <? 0) || (len <? 0) || (off <? b_base b0) then (c, None)
      else match cache_lookup c (ns_of a) (raw_key off len) with
           | Some d => (c, Some d)
           | None =>
               match walk (fun acc ch => acc ++ ch) fixd bs off len false [] with
               | None => (c, None)                       (* undefined results are not cached *)
               | Some l => let d := H a l in (cache_add c (ns_of a) (raw_key off len) d, Some d)
               end
           end
  end.
Fixpoint run_cached (c : cache) (calls : list call) : list (option D) :=
  match calls with
  | [] => []
  | q :: r => let '(c', res) := cached_call c q in res :: run_cached c' r
  end.
Definition results_with_cache (calls : list call) : list (option D) := run_cached [] calls.
Definition results_without_cache (calls : list call) : list (option D) := map uncached calls.
End Cache.

(* ------------------------------------------------------------------ crc32, checksum32 *)
Local Open Scope N_scope.
Definition crc32_tab : list N := [
    0x00000000; 0x77073096; 0xee0e612c; 0x990951ba; 0x076dc419; 0x706af48f;
    0xe963a535; 0x9e6495a3; 0x0edb8832; 0x79dcb8a4; 0xe0d5e91e; 0x97d2d988;
    0x09b64c2b; 0x7eb17cbd; 0xe7b82d07; 0x90bf1d91; 0x1db71064; 0x6ab020f2;
    0xf3b97148; 0x84be41de; 0x1adad47d; 0x6ddde4eb; 0xf4d4b551; 0x83d385c7;
    0x136c9856; 0x646ba8c0; 0xfd62f97a; 0x8a65c9ec; 0x14015c4f; 0x63066cd9;
    0xfa0f3d63; 0x8d080df5; 0x3b6e20c8; 0x4c69105e; 0xd56041e4; 0xa2677172;
    0x3c03e4d1; 0x4b04d447; 0xd20d85fd; 0xa50ab56b; 0x35b5a8fa; 0x42b2986c;
    0xdbbbc9d6; 0xacbcf940; 0x32d86ce3; 0x45df5c75; 0xdcd60dcf; 0xabd13d59;
    0x26d930ac; 0x51de003a; 0xc8d75180; 0xbfd06116; 0x21b4f4b5; 0x56b3c423;
    0xcfba9599; 0xb8bda50f; 0x2802b89e; 0x5f058808; 0xc60cd9b2; 0xb10be924;
    0x2f6f7c87; 0x58684c11; 0xc1611dab; 0xb6662d3d; 0x76dc4190; 0x01db7106;
    0x98d220bc; 0xefd5102a; 0x71b18589; 0x06b6b51f; 0x9fbfe4a5; 0xe8b8d433;
    0x7807c9a2; 0x0f00f934; 0x9609a88e; 0xe10e9818; 0x7f6a0dbb; 0x086d3d2d;
    0x91646c97; 0xe6635c01; 0x6b6b51f4; 0x1c6c6162; 0x856530d8; 0xf262004e;
    0x6c0695ed; 0x1b01a57b; 0x8208f4c1; 0xf50fc457; 0x65b0d9c6; 0x12b7e950;
    0x8bbeb8ea; 0xfcb9887c; 0x62dd1ddf; 0x15da2d49; 0x8cd37cf3; 0xfbd44c65;
    0x4db26158; 0x3ab551ce; 0xa3bc0074; 0xd4bb30e2; 0x4adfa541; 0x3dd895d7;
    0xa4d1c46d; 0xd3d6f4fb; 0x4369e96a; 0x346ed9fc; 0xad678846; 0xda60b8d0;
    0x44042d73; 0x33031de5; 0xaa0a4c5f; 0xdd0d7cc9; 0x5005713c; 0x270241aa;
    0xbe0b1010; 0xc90c2086; 0x5768b525; 0x206f85b3; 0xb966d409; 0xce61e49f;
    0x5edef90e; 0x29d9c998; 0xb0d09822; 0xc7d7a8b4; 0x59b33d17; 0x2eb40d81;
    0xb7bd5c3b; 0xc0ba6cad; 0xedb88320; 0x9abfb3b6; 0x03b6e20c; 0x74b1d29a;
    0xead54739; 0x9dd277af; 0x04db2615; 0x73dc1683; 0xe3630b12; 0x94643b84;
    0x0d6d6a3e; 0x7a6a5aa8; 0xe40ecf0b; 0x9309ff9d; 0x0a00ae27; 0x7d079eb1;
    0xf00f9344; 0x8708a3d2; 0x1e01f268; 0x6906c2fe; 0xf762575d; 0x806567cb;
    0x196c3671; 0x6e6b06e7; 0xfed41b76; 0x89d32be0; 0x10da7a5a; 0x67dd4acc;
    0xf9b9df6f; 0x8ebeeff9; 0x17b7be43; 0x60b08ed5; 0xd6d6a3e8; 0xa1d1937e;
    0x38d8c2c4; 0x4fdff252; 0xd1bb67f1; 0xa6bc5767; 0x3fb506dd; 0x48b2364b;
    0xd80d2bda; 0xaf0a1b4c; 0x36034af6; 0x41047a60; 0xdf60efc3; 0xa867df55;
    0x316e8eef; 0x4669be79; 0xcb61b38c; 0xbc66831a; 0x256fd2a0; 0x5268e236;
    0xcc0c7795; 0xbb0b4703; 0x220216b9; 0x5505262f; 0xc5ba3bbe; 0xb2bd0b28;
    0x2bb45a92; 0x5cb36a04; 0xc2d7ffa7; 0xb5d0cf31; 0x2cd99e8b; 0x5bdeae1d;
    0x9b64c2b0; 0xec63f226; 0x756aa39c; 0x026d930a; 0x9c0906a9; 0xeb0e363f;
    0x72076785; 0x05005713; 0x95bf4a82; 0xe2b87a14; 0x7bb12bae; 0x0cb61b38;
    0x92d28e9b; 0xe5d5be0d; 0x7cdcefb7; 0x0bdbdf21; 0x86d3d2d4; 0xf1d4e242;
    0x68ddb3f8; 0x1fda836e; 0x81be16cd; 0xf6b9265b; 0x6fb077e1; 0x18b74777;
    0x88085ae6; 0xff0f6a70; 0x66063bca; 0x11010b5c; 0x8f659eff; 0xf862ae69;
    0x616bffd3; 0x166ccf45; 0xa00ae278; 0xd70dd2ee; 0x4e048354; 0x3903b3c2;
    0xa7672661; 0xd06016f7; 0x4969474d; 0x3e6e77db; 0xaed16a4a; 0xd9d65adc;
    0x40df0b66; 0x37d83bf0; 0xa9bcae53; 0xdebb9ec5; 0x47b2cf7f; 0x30b5ffe9;
    0xbdbdf21c; 0xcabac28a; 0x53b39330; 0x24b4a3a6; 0xbad03605; 0xcdd70693;
    0x54de5729; 0x23d967bf; 0xb3667a2e; 0xc4614ab8; 0x5d681b02; 0x2a6f2b94;
    0xb40bbe37; 0xc30c8ea1; 0x5a05df1b; 0x2d02ef8d].

(* checksum = crc32_tab[(checksum ^ byte) & 0xFF] ^ (checksum >> 8) *)
Definition crc_step (c b : N) : N :=
  N.lxor (nth (N.to_nat (N.land (N.lxor c b) 255)) crc32_tab 0) (N.shiftr c 8).
Definition crc_update (c : N) (l : list N) : N := fold_left crc_step l c.
Definition crc32_table (l : list N) : N := N.lxor (crc_update 0xFFFFFFFF l) 0xFFFFFFFF.

(* reference: reflected CRC-32 (polynomial 0xEDB88320), one bit at a time *)
Definition crc_poly : N := 0xEDB88320.
Definition crc_bit (x : N) : N := N.lxor (N.shiftr x 1) (if N.testbit x 0 then crc_poly else 0).
Definition crc_bit8 (x : N) : N := crc_bit (crc_bit (crc_bit (crc_bit (crc_bit (crc_bit (crc_bit (crc_bit x))))))).
Definition crc_step_bitwise (c b : N) : N := crc_bit8 (N.lxor c b).
Definition crc32_bitwise (l : list N) : N := N.lxor (fold_left crc_step_bitwise l 0xFFFFFFFF) 0xFFFFFFFF.

Definition two32 : N := 4294967296.
Definition sum_step (s b : N) : N := (s + b) mod two32.           (* uint32_t checksum += byte *)
Definition sum_update (s : N) (l : list N) : N := fold_left sum_step l s.
Definition checksum32 (l : list N) : N := sum_update 0 l.
Definition byte_sum (l : list N) : N := fold_right N.add 0 l.

Definition data_crc32 (fixd : bool) (bs : list block) (off len : Z) : option N :=
  option_map (fun c => N.lxor c 0xFFFFFFFF) (range_walk crc_update fixd bs off len 0xFFFFFFFF).
Definition data_checksum32 (fixd : bool) (bs : list block) (off len : Z) : option N :=
  range_walk sum_update fixd bs off len 0.

(* ------------------------------------------------------------------ math: distribution, count, mode *)
Definition hist0 : list N := repeat 0 256.
Fixpoint incr_nth (h : list N) (i : nat) : list N :=
  match h, i with
  | [], _ => []
  | x :: r, O => ((x + 1) mod two32) :: r                         (* uint32_t data[c]++ *)
  | x :: r, S j => x :: incr_nth r j
  end.
Definition hist_add (h : list N) (l : list N) : list N := fold_left (fun h c => incr_nth h (N.to_nat c)) l h.
Definition get_distribution (fixd : bool) (bs : list block) (off len : Z) : option (list N) :=
  range_walk hist_add fixd bs off len hist0.

(* get_distribution_global: every block must start where the previous one ended, the first at 0 *)
Fixpoint global_walk (bs : list block) (expected : Z) (h : list N) : option (list N) :=
  match bs with
  | [] => Some h
  | b :: r => if (expected =? b_base b)%Z then global_walk r (b_end b) (hist_add h (b_data b)) else None
  end.
Definition get_distribution_global (bs : list block) : option (list N) := global_walk bs 0%Z hist0.

(* for (i = 0; i < 256; i++) if (distribution[i] > distribution[most_common]) most_common = i; *)
Fixpoint mode_loop (h : list N) (i n mc : nat) : nat :=
  match n with
  | O => mc
  | S n' => mode_loop h (S i) n' (if nth mc h 0 <? nth i h 0 then i else mc)
  end.
Definition mode_of (h : list N) : N := N.of_nat (mode_loop h 0 256 0).
Definition total_of (h : list N) : N := fold_right N.add 0 h.

Definition byte_arg_ok (byte : Z) : bool := ((0 <=? byte) && (byte <=? 255))%Z.
Definition count_range (fixd : bool) (bs : list block) (byte off len : Z) : option N :=
  if byte_arg_ok byte then option_map (fun h => nth (Z.to_nat byte) h 0) (get_distribution fixd bs off len) else None.
Definition count_global (bs : list block) (byte : Z) : option N :=
  if byte_arg_ok byte then option_map (fun h => nth (Z.to_nat byte) h 0) (get_distribution_global bs) else None.
Definition mode_range (fixd : bool) (bs : list block) (off len : Z) : option N := option_map mode_of (get_distribution fixd bs off len).
Definition mode_global (bs : list block) : option N := option_map mode_of (get_distribution_global bs).
(* percentage = (float) count / (float) total : the model gives numerator and denominator *)
Definition percentage_range (fixd : bool) (bs : list block) (byte off len : Z) : option (N * N) :=
  if byte_arg_ok byte then option_map (fun h => (nth (Z.to_nat byte) h 0, total_of h)) (get_distribution fixd bs off len) else None.
Definition percentage_global (bs : list block) (byte : Z) : option (N * N) :=
  if byte_arg_ok byte then option_map (fun h => (nth (Z.to_nat byte) h 0, total_of h)) (get_distribution_global bs) else None.

(* histogram specification *)
Definition occ (c : N) (l : list N) : N := N.of_nat (length (filter (N.eqb c) l)).

(* ------------------------------------------------------------------ math.monte_carlo_pi: the integer core
   The bytes of the range are taken in groups of six (a running index over the whole range, fix 344810f);
   a group is a point (mx, my) with 24-bit big-endian coordinates; it is a hit when
   mx*mx + my*my <= (256^3 - 1)^2.  All these numbers are below 2^49, so the C doubles hold them exactly.
   State: the bytes of the unfinished group (monte[0 .. mpos % 6)), mcount, inmont. *)
Local Open Scope N_scope.
Definition mc_incirc : N := 281474943156225.                       (* pow(pow(256.0, 3.0) - 1, 2.0) = (2^24 - 1)^2 *)
Definition mc_coord (a b c : N) : N := (a * 256 + b) * 256 + c.    (* mx = (mx * 256.0) + monte[j], three times *)
Definition mc_hit (a b c d e f : N) : bool :=
  mc_coord a b c * mc_coord a b c + mc_coord d e f * mc_coord d e f <=? mc_incirc.
Definition mc_state := (list N * N * N)%type.
Definition mc0 : mc_state := ([], 0, 0).
Definition mc_step (st : mc_state) (x : N) : mc_state :=
  let '(p, m, i) := st in
  match p with
  | [a; b; c; d; e] => ([], m + 1, if mc_hit a b c d e x then i + 1 else i)
  | _ => (p ++ [x], m, i)
  end.
Definition mc_update (st : mc_state) (l : list N) : mc_state := fold_left mc_step l st.
(* (mcount, inmont) of a byte sequence; the float result is fabs((4.0 * inmont / mcount - PI) / PI), undefined when mcount = 0 *)
Definition mc_counts (l : list N) : N * N := let '(_, m, i) := mc_update mc0 l in (m, i).
Definition data_monte_carlo (fixd : bool) (bs : list block) (off len : Z) : option (N * N) :=
  option_map (fun st : mc_state => let '(_, m, i) := st in (m, i)) (range_walk mc_update fixd bs off len mc0).
(* specification: complete groups of six from the start of the sequence; a trailing 1..5 bytes are ignored *)
Fixpoint mc_spec (l : list N) : N * N :=
  match l with
  | a :: b :: c :: d :: e :: f :: r => let '(m, i) := mc_spec r in (m + 1, if mc_hit a b c d e f then i + 1 else i)
  | _ => (0, 0)
  end.

(* ------------------------------------------------------------------ math: integer functions *)
Local Open Scope Z_scope.
(* return_integer(v): the value YR_UNDEFINED *is* "undefined" *)
Definition ret_int (v : Z) : option Z := if v =? YR_UNDEFINED then None else Some v.
(* a call with an undefined argument is not made (exec.c OP_CALL): result undefined *)
Definition arg_def (v : Z) : bool := negb (v =? YR_UNDEFINED).

Definition uz (z : Z) : Z := z mod two64.                           (* (uint64_t) z *)
Definition math_min (i j : Z) : option Z :=                          (* uint64_t i, j; i < j ? i : j *)
  if arg_def i && arg_def j then ret_int (wrap64 (if uz i <? uz j then uz i else uz j)) else None.
Definition math_max (i j : Z) : option Z :=
  if arg_def i && arg_def j then ret_int (wrap64 (if uz j <? uz i then uz i else uz j)) else None.
Definition math_abs (i : Z) : option Z :=                            (* INT64_MIN has no absolute value: undefined (fix 47f96c8) *)
  if arg_def i then (if i =? INT64_MIN then None else ret_int (Z.abs i)) else None.
(* the function as it was in 4.5.2: llabs(INT64_MIN) (undefined behaviour in C) gives INT64_MIN on x86-64/glibc *)
Definition math_abs_pinned (i : Z) : option Z :=
  if arg_def i then ret_int (if i =? INT64_MIN then INT64_MIN else Z.abs i) else None.
Definition math_to_number (b : bool) : Z := if b then 1 else 0.
(* in_range(test, lower, upper) on doubles; arguments here are numerators over one common power of two,
   for which comparison of doubles is comparison of integers *)
Definition math_in_range (t l u : Z) : Z := if (l <=? t) && (t <=? u) then 1 else 0.

(* ------------------------------------------------------------------ printing integers (math.to_string) *)
Definition digit_char (d : Z) : N := Z.to_N (if d <? 10 then 48 + d else 87 + d).   (* 0-9 a-z *)
Fixpoint digits_of (fuel : nat) (base n : Z) (acc : list N) : list N :=
  match fuel with
  | O => acc
  | S f => let acc' := digit_char (n mod base) :: acc in
           if n <? base then acc' else digits_of f base (n / base) acc'
  end.
Definition print_nat (base n : Z) : list N := digits_of 64 base n [].
Definition print_dec (z : Z) : list N := if z <? 0 then 45%N :: print_nat 10 (- z) else print_nat 10 z.
Definition math_to_string (i : Z) : option (list N) := if arg_def i then Some (print_dec i) else None.
Definition math_to_string_base (i base : Z) : option (list N) :=
  if arg_def i && arg_def base then
    if base =? 10 then Some (print_dec i)
    else if base =? 8 then Some (print_nat 8 (uz i))                  (* %llo / %llx print the unsigned value *)
    else if base =? 16 then Some (print_nat 16 (uz i))
    else None
  else None.

(* ------------------------------------------------------------------ string.to_int: strtoll(s, &endp, base) *)
Local Open Scope N_scope.
Definition is_space (c : N) : bool := ((9 <=? c) && (c <=? 13)) || (c =? 32).
Definition digit_val (c : N) : option Z :=
  if (48 <=? c) && (c <=? 57) then Some (Z.of_N c - 48)%Z
  else if (97 <=? c) && (c <=? 122) then Some (Z.of_N c - 87)%Z
  else if (65 <=? c) && (c <=? 90) then Some (Z.of_N c - 55)%Z
  else None.
Definition digit_in (base : Z) (c : N) : option Z :=
  match digit_val c with
  | Some v => if (v <? base)%Z then Some v else None
  | None => None
  end.
Fixpoint skip_space (s : list N) : list N :=
  match s with
  | c :: r => if is_space c then skip_space r else s
  | [] => []
  end.
(* consume the longest run of digits of the base: (accumulated value, how many, what follows) *)
Fixpoint take_digits (base : Z) (s : list N) (acc : Z) (n : nat) : Z * nat * list N :=
  match s with
  | c :: r => match digit_in base c with
              | Some v => take_digits base r (acc * base + v)%Z (S n)
              | None => (acc, n, s)
              end
  | [] => (acc, n, [])
  end.
(* the C string seen through char*: up to the first NUL *)
Fixpoint cstr (s : list N) : list N :=
  match s with
  | [] => []
  | c :: r => if c =? 0 then [] else c :: cstr r
  end.

Record strtoll_res := { st_value : Z; st_noconv : bool; st_rest : list N; st_erange : bool }.

(* "0x"/"0X" followed by a hex digit *)
Definition has_hex_prefix (s : list N) : bool :=
  match s with
  | c0 :: x :: h :: _ => (c0 =? 48) && ((x =? 120) || (x =? 88)) && (match digit_in 16 h with Some _ => true | None => false end)
  | _ => false
  end.

(* LLONG_MIN / LLONG_MAX with errno = ERANGE when the exact value does not fit *)
Definition strtoll_finish (neg : bool) (v : Z) (rest : list N) : strtoll_res :=
  let sv := if neg then (- v)%Z else v in
  if (sv <? INT64_MIN)%Z then {| st_value := INT64_MIN; st_noconv := false; st_rest := rest; st_erange := true |}
  else if (INT64_MAX <? sv)%Z then {| st_value := INT64_MAX; st_noconv := false; st_rest := rest; st_erange := true |}
  else {| st_value := sv; st_noconv := false; st_rest := rest; st_erange := false |}.

(* after white space and sign: base detection, prefix, digits.  [s] is the original string (endp = nptr
   when nothing is converted) *)
Definition strtoll_body (neg : bool) (s s2 : list N) (base : Z) : strtoll_res :=
  let '(b, s3) := if ((base =? 0) || (base =? 16))%Z && has_hex_prefix s2 then (16%Z, skipn 2 s2)
                  else if (base =? 0)%Z then (match s2 with c :: _ => if c =? 48 then 8%Z else 10%Z | [] => 10%Z end, s2)
                  else (base, s2) in
  let '(v, n, rest) := take_digits b s3 0%Z O in
  match n with
  | O => {| st_value := 0; st_noconv := true; st_rest := s; st_erange := false |}
  | Datatypes.S _ => strtoll_finish neg v rest
  end.

Definition strtoll (s : list N) (base : Z) : strtoll_res :=
  let s1 := skip_space s in
  match s1 with
  | c :: r => if c =? 45 then strtoll_body true s r base
              else if c =? 43 then strtoll_body false s r base
              else strtoll_body false s s1 base
  | [] => strtoll_body false s [] base
  end.

(* string.c string_to_int: errno != 0, endp == s, *endp != '\0' are the three rejections *)
Definition string_to_int (s : list N) (base : Z) : option Z :=
  let r := strtoll (cstr s) base in
  if st_erange r then None
  else if st_noconv r then None
  else match st_rest r with [] => Some (st_value r) | _ :: _ => None end.

Definition base_ok (base : Z) : bool := ((base =? 0) || ((2 <=? base) && (base <=? 36)))%Z.
Definition mod_to_int (s : list N) : option Z :=
  match string_to_int s 0 with Some v => ret_int v | None => None end.
Definition mod_to_int_base (s : list N) (base : Z) : option Z :=
  if arg_def base then
    if base_ok base then match string_to_int s base with Some v => ret_int v | None => None end else None
  else None.
Definition mod_length (s : list N) : Z := Z.of_nat (length s).           (* SIZED_STRING length, NULs included *)
