(* One scanner (YR_SCAN_CONTEXT) across a history of operations (C10).

   Every field of YR_SCAN_CONTEXT that outlives a call of yr_scanner_scan_mem_blocks is a field of
   [sstate]; [step] follows scanner.c (yr_scanner_create 235-330, yr_scanner_destroy 333-375,
   set_flags/set_timeout 385-405, define_* 404-470, yr_scanner_scan_mem_blocks 472-655) and the
   clean-up at the end of yr_execute_code (exec.c 2376-2383, modules.c yr_modules_unload_all).

   What one scan reports is NOT modelled: it is the parameter [oracle], a function of exactly the
   things the engine reads -- flags, timeout, the input, the externals in objects_table, the entry
   point the scan sees and whatever match data lingers from an abandoned scan.  A leak from one scan
   into a later one is therefore visible as a changed argument of [oracle].  checks/c10.py
   instantiates [oracle] with measurements on freshly created scanners and compares the model's
   prediction for the reused scanner with the implementation, including the state fields
   (harness/h_hist.c "ctx"). *)
From Coq Require Import List NArith ZArith Bool.
From YV Require Import Base.Bytes gen.GenConsts Model.Externals.
Import ListNotations.
Local Open Scope N_scope.

(* ------------------------------------------------------------------ inputs, messages *)
Record input := {
  in_id : N;                  (* names the buffer / block list *)
  in_ep_file : option N;      (* yr_get_entry_point_offset of its first block; None = YR_UNDEFINED *)
  in_ep_mem : option N;       (* yr_get_entry_point_address (SCAN_FLAGS_PROCESS_MEMORY) *)
  in_fsize : option N;        (* what iterator->file_size returns; None = no such function *)
  in_nblocks : nat            (* number of blocks the iterator delivers *)
}.

Inductive mkind := KImport | KImported | KLog | KTooMany | KSlow | KRule | KFinished.
Definition msg := (mkind * N)%type.          (* kind, payload (opaque) *)

(* what an uninterrupted scan (callback always answers CONTINUE, every block ready) produces *)
Record natural := {
  n_msgs : list msg;
  n_rc : Z;
  n_exec : bool;              (* the scan gets as far as yr_execute_code *)
  n_pool : nat                (* fibers + fast-exec positions it allocates at most *)
}.

Definition flag_set (flags : N) (f : Z) : bool := negb (N.eqb (N.land flags (Z.to_N f)) 0).

Definition in_ep (flags : N) (i : input) : option N :=
  if flag_set flags SCAN_FLAGS_PROCESS_MEMORY then in_ep_mem i else in_ep_file i.

(* callback answers: message index -> CALLBACK_ABORT / CALLBACK_ERROR (CONTINUE elsewhere) *)
Inductive answer := AnsAbort | AnsError.
Definition script := list (nat * answer).

Fixpoint script_at (s : script) (k : nat) : option answer :=
  match s with [] => None | (j, a) :: t => if Nat.eqb j k then Some a else script_at t k end.

(* what a non-CONTINUE answer to a message of each kind does: Some rc = the scan stops with rc.
   modules.c 138/171: only CALLBACK_ERROR counts for the two import messages; console.c and the
   SCAN_FINISHED call ignore the answer; scan.c 1102: anything but CONTINUE -> TOO_MANY_MATCHES;
   scanner.c 185: anything but CONTINUE -> TOO_SLOW_SCANNING; scanner.c 611-619 for rule messages *)
Definition stops (k : mkind) (a : answer) : option Z :=
  match k, a with
  | KImport, AnsError | KImported, AnsError => Some ERROR_CALLBACK_ERROR
  | KImport, AnsAbort | KImported, AnsAbort => None
  | KLog, _ | KFinished, _ => None
  | KTooMany, _ => Some ERROR_TOO_MANY_MATCHES
  | KSlow, _ => Some ERROR_TOO_SLOW_SCANNING
  | KRule, AnsAbort => Some ERROR_SUCCESS
  | KRule, AnsError => Some ERROR_CALLBACK_ERROR
  end.

(* messages delivered, and where/with what the scan was stopped by the callback *)
Fixpoint deliver (ms : list msg) (s : script) (k : nat) : list msg * option (mkind * Z) :=
  match ms with
  | [] => ([], None)
  | m :: t =>
      match script_at s k with
      | Some a =>
          match stops (fst m) a with
          | Some rc => ([m], Some (fst m, rc))
          | None => let (d, st) := deliver t s (S k) in (m :: d, st)
          end
      | None => let (d, st) := deliver t s (S k) in (m :: d, st)
      end
  end.

(* messages of the block-scanning phase come before yr_execute_code *)
Definition before_exec (k : mkind) : bool := match k with KTooMany | KSlow => true | _ => false end.

(* ------------------------------------------------------------------ the state *)
Record suspended := { su_input : input; su_script : script; su_done : nat }.

Record sstate := {
  st_alive : bool;
  st_ep : option N;                 (* entry_point; None = YR_UNDEFINED *)
  st_fsize : option N;              (* file_size *)
  st_flags : N;
  st_timeout : N;                   (* nanoseconds *)
  st_objs : objs;                   (* objects_table: externals ... *)
  st_mods : list ident;             (* ... and module structures (between scans: none) *)
  (* per-scan data, as "dirty" markers: ids of the inputs whose data they still hold *)
  st_rule_flags : list N;           (* rule_matches_flags *)
  st_ns_unsat : list N;             (* ns_unsatisfied_flags *)
  st_disabled : list N;             (* strings_temp_disabled *)
  st_matches : list N;              (* matches *)
  st_unconfirmed : list N;          (* unconfirmed_matches *)
  st_required : list N;             (* required_eval *)
  st_notebook : option N;           (* matches_notebook: None = NULL, Some i = the one created for input i *)
  st_last_error : option N;         (* last_error_string *)
  st_pool : nat;                    (* re_fiber_pool + re_fast_exec_position_pool, all in the free lists *)
  st_susp : option suspended;       (* a scan that returned ERROR_BLOCK_NOT_READY *)
  st_leaked : nat                   (* heap blocks nothing points to any more *)
}.

Definition default_flags : N := Z.to_N SCAN_FLAGS_REPORT_RULES_MATCHING + Z.to_N SCAN_FLAGS_REPORT_RULES_NOT_MATCHING.

(* yr_scanner_create over the externals snapshot [o] *)
Definition fresh (o : objs) : sstate := {|
  st_alive := true; st_ep := None; st_fsize := None; st_flags := default_flags; st_timeout := 0;
  st_objs := o; st_mods := [];
  st_rule_flags := []; st_ns_unsat := []; st_disabled := []; st_matches := []; st_unconfirmed := [];
  st_required := []; st_notebook := None; st_last_error := None; st_pool := 0; st_susp := None;
  st_leaked := 0 |}.

(* data of an abandoned scan that a later scan can read *)
Record residue := { r_matches : list N; r_unconfirmed : list N; r_disabled : list N;
                    r_rule_flags : list N; r_ns_unsat : list N }.
Definition residue_of (s : sstate) : residue :=
  {| r_matches := st_matches s; r_unconfirmed := st_unconfirmed s; r_disabled := st_disabled s;
     r_rule_flags := st_rule_flags s; r_ns_unsat := st_ns_unsat s |}.
Definition no_residue : residue :=
  {| r_matches := []; r_unconfirmed := []; r_disabled := []; r_rule_flags := []; r_ns_unsat := [] |}.

Inductive op :=
| Scan (i : input) (s : script) (notready : option nat)   (* a new scan; notready = Some j: the iterator
                                                             answers ERROR_BLOCK_NOT_READY when asked for block j *)
| Resume (notready : option nat)                          (* the same call repeated with the same iterator *)
| SetFlags (f : N)
| SetTimeout (seconds : N)
| PokeTimeout (ns : N)
| Define (x : ident) (d : dval)
| Destroy.

Inductive trace :=
| TScan (ms : list msg) (rc : Z)
| TRes (r : res)
| TDestroyed (leaked : nat)
| TNone.

(* the code as it is now / as it was at the pinned commit *)
Record cfg := {
  cf_reset_ep : bool;       (* scanner->entry_point = YR_UNDEFINED at the start of every new scan (c92ef8f) *)
  cf_unload_any : bool      (* yr_modules_unload_all removes whatever object carries a module's name (before 9d2571f) *)
}.
Definition cfg_current : cfg := {| cf_reset_ep := true; cf_unload_any := false |}.
Definition cfg_pinned : cfg := {| cf_reset_ep := false; cf_unload_any := true |}.

Definition with_ep (s : sstate) (ep : option N) : sstate := {|
  st_alive := st_alive s; st_ep := ep; st_fsize := st_fsize s; st_flags := st_flags s; st_timeout := st_timeout s;
  st_objs := st_objs s; st_mods := st_mods s; st_rule_flags := st_rule_flags s; st_ns_unsat := st_ns_unsat s;
  st_disabled := st_disabled s; st_matches := st_matches s; st_unconfirmed := st_unconfirmed s;
  st_required := st_required s; st_notebook := st_notebook s; st_last_error := st_last_error s;
  st_pool := st_pool s; st_susp := st_susp s; st_leaked := st_leaked s |}.

Section WithOracle.
Variable cf : cfg.

(* the identifiers of yr_modules_table: yr_modules_unload_all removes each of them from objects_table *)
Variable modnames : list ident.
Variable oracle : N -> N -> input -> objs -> option N -> residue -> natural.

(* _yr_scanner_clean_matches + notebook destroy (scanner.c 634-643) *)
Definition cleaned (s : sstate) (ep fs : option N) (o : objs) (le : option N) (pool : nat) (leaked : nat) : sstate := {|
  st_alive := true; st_ep := ep; st_fsize := fs; st_flags := st_flags s; st_timeout := st_timeout s;
  st_objs := o; st_mods := [];
  st_rule_flags := []; st_ns_unsat := []; st_disabled := []; st_matches := []; st_unconfirmed := [];
  st_required := []; st_notebook := None; st_last_error := le; st_pool := pool; st_susp := None;
  st_leaked := leaked |}.

(* the scan left waiting for a block: nothing is cleaned, the notebook stays (scanner.c 632) *)
Definition waiting (s : sstate) (ep : option N) (i : input) (sc : script) (j : nat) (leaked : nat)
                   (res : residue) : sstate := {|
  st_alive := true; st_ep := ep; st_fsize := st_fsize s; st_flags := st_flags s; st_timeout := st_timeout s;
  st_objs := st_objs s; st_mods := [];
  st_rule_flags := r_rule_flags res; st_ns_unsat := r_ns_unsat res; st_disabled := r_disabled res;
  st_matches := r_matches res ++ [in_id i]; st_unconfirmed := r_unconfirmed res ++ [in_id i];
  st_required := [in_id i]; st_notebook := Some (in_id i); st_last_error := st_last_error s;
  st_pool := st_pool s; st_susp := Some {| su_input := i; su_script := sc; su_done := j |};
  st_leaked := leaked |}.

(* from the point where all blocks are known to be deliverable up to the exit of scan_mem_blocks.
   [res] is what lingers from OTHER scans; [leaked] already counts an overwritten notebook. *)
Definition finish (s : sstate) (i : input) (sc : script) (res : residue) (leaked : nat) : sstate * trace :=
  let ep := match st_ep s with Some e => Some e | None => in_ep (st_flags s) i end in   (* scanner.c 536 *)
  let nat := oracle (st_flags s) (st_timeout s) i (st_objs s) ep res in
  let (ms, stop) := deliver (n_msgs nat) sc 0 in
  let rc := match stop with Some (_, rc) => rc | None => n_rc nat end in
  let exec := match stop with Some (k, _) => negb (before_exec k) | None => n_exec nat end in
  let le := match stop with Some (KTooMany, _) => Some (in_id i) | _ => st_last_error s end in
  (cleaned s ep
     (if exec then in_fsize i else st_fsize s)                                  (* scanner.c 573-576 *)
     (if exec && cf_unload_any cf then remove_keys modnames (st_objs s) else st_objs s)   (* yr_modules_unload_all *)
     le (Nat.max (st_pool s) (n_pool nat)) leaked,
   TScan ms rc).

Definition step (s : sstate) (o : op) : sstate * trace :=
  if negb (st_alive s) then (s, TNone) else
  match o with
  | Scan i sc nr =>
      (* a new scan: what an abandoned scan left behind (one that returned ERROR_BLOCK_NOT_READY and was
         not resumed) is discarded first -- _yr_scanner_clean_matches + yr_notebook_destroy when
         matches_notebook != NULL (scanner.c 506-513, since fix 8a2210d); required_eval is re-initialised;
         nothing else is reset *)
      let leaked := st_leaked s in
      let res := match st_notebook s with Some _ => no_residue | None => residue_of s end in
      (* the entry point found by an earlier scan is forgotten (scanner.c 536, since fix c92ef8f) *)
      let s0 := if cf_reset_ep cf then with_ep s None else s in
      let ep := match st_ep s0 with Some e => Some e | None => in_ep (st_flags s) i end in
      let nat := oracle (st_flags s) (st_timeout s) i (st_objs s) ep res in
      match nr with
      | Some j =>
          (* an error of the block-scanning phase (time-out) comes first; otherwise the scan waits *)
          if n_exec nat then
            if Nat.ltb 0 j && Nat.leb j (in_nblocks i)
            then (waiting s0 ep i sc j leaked res, TScan [] ERROR_BLOCK_NOT_READY)
            else (s, TNone)
          else finish s0 i sc res leaked
      | None => finish s0 i sc res leaked
      end
  | Resume nr =>
      match st_susp s with
      | None => (s, TNone)
      | Some su =>
          match nr with
          | Some j =>
              if Nat.ltb (su_done su) j && Nat.leb j (in_nblocks (su_input su))
              then (waiting s (st_ep s) (su_input su) (su_script su) j (st_leaked s)
                      {| r_matches := removelast (st_matches s); r_unconfirmed := removelast (st_unconfirmed s);
                         r_disabled := st_disabled s; r_rule_flags := st_rule_flags s; r_ns_unsat := st_ns_unsat s |},
                    TScan [] ERROR_BLOCK_NOT_READY)
              else (s, TNone)
          | None =>
              finish s (su_input su) (su_script su)
                {| r_matches := removelast (st_matches s); r_unconfirmed := removelast (st_unconfirmed s);
                   r_disabled := st_disabled s; r_rule_flags := st_rule_flags s; r_ns_unsat := st_ns_unsat s |}
                (st_leaked s)
          end
      end
  | SetFlags f =>
      (* scanner.c 392-402 *)
      let f' := if flag_set f SCAN_FLAGS_REPORT_RULES_MATCHING || flag_set f SCAN_FLAGS_REPORT_RULES_NOT_MATCHING
                then f else N.lor f default_flags in
      ({| st_alive := true; st_ep := st_ep s; st_fsize := st_fsize s; st_flags := f'; st_timeout := st_timeout s;
          st_objs := st_objs s; st_mods := st_mods s; st_rule_flags := st_rule_flags s; st_ns_unsat := st_ns_unsat s;
          st_disabled := st_disabled s; st_matches := st_matches s; st_unconfirmed := st_unconfirmed s;
          st_required := st_required s; st_notebook := st_notebook s; st_last_error := st_last_error s;
          st_pool := st_pool s; st_susp := st_susp s; st_leaked := st_leaked s |}, TNone)
  | SetTimeout t =>
      ({| st_alive := true; st_ep := st_ep s; st_fsize := st_fsize s; st_flags := st_flags s;
          st_timeout := t * 1000000000;
          st_objs := st_objs s; st_mods := st_mods s; st_rule_flags := st_rule_flags s; st_ns_unsat := st_ns_unsat s;
          st_disabled := st_disabled s; st_matches := st_matches s; st_unconfirmed := st_unconfirmed s;
          st_required := st_required s; st_notebook := st_notebook s; st_last_error := st_last_error s;
          st_pool := st_pool s; st_susp := st_susp s; st_leaked := st_leaked s |}, TNone)
  | PokeTimeout t =>
      ({| st_alive := true; st_ep := st_ep s; st_fsize := st_fsize s; st_flags := st_flags s;
          st_timeout := t;
          st_objs := st_objs s; st_mods := st_mods s; st_rule_flags := st_rule_flags s; st_ns_unsat := st_ns_unsat s;
          st_disabled := st_disabled s; st_matches := st_matches s; st_unconfirmed := st_unconfirmed s;
          st_required := st_required s; st_notebook := st_notebook s; st_last_error := st_last_error s;
          st_pool := st_pool s; st_susp := st_susp s; st_leaked := st_leaked s |}, TNone)
  | Define x d =>
      let (o', rc) := scanner_define (st_objs s) x d in
      ({| st_alive := true; st_ep := st_ep s; st_fsize := st_fsize s; st_flags := st_flags s; st_timeout := st_timeout s;
          st_objs := o'; st_mods := st_mods s; st_rule_flags := st_rule_flags s; st_ns_unsat := st_ns_unsat s;
          st_disabled := st_disabled s; st_matches := st_matches s; st_unconfirmed := st_unconfirmed s;
          st_required := st_required s; st_notebook := st_notebook s; st_last_error := st_last_error s;
          st_pool := st_pool s; st_susp := st_susp s; st_leaked := st_leaked s |}, TRes rc)
  | Destroy =>
      (* scanner.c 333-380: pools, objects_table with its objects, the notebook of a scan that still
         waits (since fix 8a2210d), the six arrays, the struct *)
      let leaked := st_leaked s in
      ({| st_alive := false; st_ep := None; st_fsize := None; st_flags := 0; st_timeout := 0;
          st_objs := []; st_mods := []; st_rule_flags := []; st_ns_unsat := []; st_disabled := [];
          st_matches := []; st_unconfirmed := []; st_required := []; st_notebook := None;
          st_last_error := None; st_pool := 0; st_susp := None; st_leaked := leaked |}, TDestroyed leaked)
  end.

Definition run_state (s : sstate) (h : list op) : sstate := fold_left (fun s o => fst (step s o)) h s.

Fixpoint run (s : sstate) (h : list op) : sstate * list trace :=
  match h with
  | [] => (s, [])
  | o :: t => let (s1, tr) := step s o in let (s2, trs) := run s1 t in (s2, tr :: trs)
  end.

(* "the same settings": the operations of a history that configure the scanner *)
Definition is_setting (o : op) : bool :=
  match o with SetFlags _ | SetTimeout _ | PokeTimeout _ | Define _ _ => true | _ => false end.

(* no external variable carries the name of a module *)
Definition no_module_names (o : objs) : bool := forallb (fun kv => negb (mem (fst kv) modnames)) o.

(* heap blocks the scanner owns or has lost: struct + objects_table + six arrays, one per object,
   the pools, a notebook, and what leaked *)
Definition heap_live (s : sstate) : nat :=
  ((if st_alive s then 8 + length (st_objs s) + length (st_mods s) + st_pool s else 0)
   + (match st_notebook s with Some _ => 1 | None => 0 end) + st_leaked s)%nat.

End WithOracle.

(* ------------------------------------------------------------------ a concrete toy oracle (non-vacuity, witnesses)
   one rule "entrypoint >= 0" reported through RULE_MATCHING (payload 1) / RULE_NOT_MATCHING (payload 0),
   and one rule that shows lingering matches of another scan (payload 10 + number of foreign match sets) *)
Definition toy_oracle (flags timeout : N) (i : input) (o : objs) (ep : option N) (r : residue) : natural :=
  {| n_msgs := [(KRule, match ep with Some _ => 1 | None => 0 end);
                (KRule, 10 + N.of_nat (length (r_matches r)));
                (KFinished, 0)];
     n_rc := 0; n_exec := true; n_pool := 0 |}.

Definition inp_pe : input := {| in_id := 1; in_ep_file := Some 5344; in_ep_mem := Some 5344; in_fsize := Some 32768; in_nblocks := 1 |}.
Definition inp_text : input := {| in_id := 2; in_ep_file := None; in_ep_mem := None; in_fsize := Some 9; in_nblocks := 1 |}.
Definition inp_blocks : input := {| in_id := 3; in_ep_file := None; in_ep_mem := None; in_fsize := Some 20; in_nblocks := 2 |}.
