(* C20: external variables are typed, scoped and isolated.
   Statements only; proofs in Proofs/ExternalsProofs.v over Model/Externals.v (the three define
   families exactly as compiler.c / rules.c / scanner.c have them, tied to /repo by checks/c20.py). *)
From Coq Require Import List NArith ZArith QArith.
From YV Require Import Base.Bytes gen.GenConsts Model.Externals Proofs.ExternalsProofs.
Import ListNotations.

(* defining a variable on one scanner never affects another scanner, the rule set or the compiler *)
Theorem scanner_defs_isolated : forall w k x d w' r,
  step w (OSDef k x d) = (w', r) ->
  w_comp w' = w_comp w /\ w_rules w' = w_rules w /\
  forall j, j <> k -> slot_get j (w_scanners w') = slot_get j (w_scanners w).
Proof. exact scanner_defs_isolated_proof. Qed.
Print Assumptions scanner_defs_isolated.

(* a rule-set definition reaches only scanners created afterwards *)
Theorem rules_defs_leave_existing_scanners : forall w x d w' r,
  step w (ORDef x d) = (w', r) -> w_scanners w' = w_scanners w /\ w_comp w' = w_comp w.
Proof. exact rules_defs_leave_scanners_proof. Qed.
Print Assumptions rules_defs_leave_existing_scanners.

(* definitions with an unknown identifier, an incompatible type or a NULL string are rejected and change
   nothing, at every level (the world before and after is the same) *)
Theorem invalid_define_changes_nothing : forall w o c w',
  is_define o = true -> step w o = (w', Res (RErr c)) -> w' = w.
Proof. exact invalid_define_changes_nothing_proof. Qed.
Print Assumptions invalid_define_changes_nothing.

(* NULL strings at the three levels (compiler: since ce98a74, scanner: since 0dc25b3) *)
Theorem null_string_rejected_everywhere :
  snd (run world0 [OCDef 1%N (DS None); OCDef 1%N (DS (Some [97%N])); OCDef 1%N (DS None); OGetRules; ORDef 1%N (DS None);
                   OCreate 0%nat; OSDef 0%nat 1%N (DS None); OSDef 0%nat 9%N (DS None); OScan 0%nat]) =
    [Res (RErr ERROR_INVALID_ARGUMENT); Res ROk; Res (RErr ERROR_INVALID_ARGUMENT); Res ROk; Res (RErr ERROR_INVALID_ARGUMENT);
     Res ROk; Res (RErr ERROR_INVALID_ARGUMENT); Res (RErr ERROR_INVALID_ARGUMENT); Seen [(1%N, PS [97%N])]].
Proof. exact null_string_rejected_everywhere_proof. Qed.

(* the one place left where the model of the code says "misbehaves" (known finding save-after-string-redefine):
   yr_rules_define_string_variable stores a heap pointer in a relocatable slot, yr_rules_save_stream asserts *)
Theorem save_after_string_redefine_crashes :
  snd (run world0 [OCDef 1%N (DS (Some [97%N])); OGetRules; OSave; ORDef 1%N (DS (Some [98%N])); OSave]) =
    [Res ROk; Res ROk; Res ROk; Res ROk; Res RCrash].
Proof. exact save_after_string_redefine_crashes_proof. Qed.

(* the documented errors, per level (the levels differ: a boolean define on an integer variable is
   ERROR_INVALID_EXTERNAL_VARIABLE_TYPE on a rule set and accepted on a scanner) *)
Theorem rules_define_codes : forall r x d,
  snd (rules_define r x d) =
    match d, rfind x r with
    | DS None, _ => RErr ERROR_INVALID_ARGUMENT
    | _, None => RErr ERROR_INVALID_ARGUMENT
    | _, Some e => if rules_valid (x_ty e) d then ROk else RErr ERROR_INVALID_EXTERNAL_VARIABLE_TYPE
    end.
Proof. exact rules_define_codes_proof. Qed.
Print Assumptions rules_define_codes.

Theorem scanner_define_codes : forall o x d,
  snd (scanner_define o x d) =
    match d, lookup x o with
    | DS None, _ => RErr ERROR_INVALID_ARGUMENT
    | _, None => RErr ERROR_INVALID_ARGUMENT
    | DI _, Some (PI _) | DB _, Some (PI _) | DF _, Some (PF _) | DS (Some _), Some (PS _) => ROk
    | _, Some _ => RErr ERROR_INVALID_EXTERNAL_VARIABLE_TYPE
    end.
Proof. exact scanner_define_codes_proof. Qed.
Print Assumptions scanner_define_codes.

Theorem compiler_define_codes : forall c x d,
  snd (compiler_define c x d) =
    match d with
    | DS None => RErr ERROR_INVALID_ARGUMENT
    | _ => if mem x (c_objs c) then RErr ERROR_DUPLICATED_EXTERNAL_VARIABLE else ROk
    end.
Proof. exact compiler_define_codes_proof. Qed.
Print Assumptions compiler_define_codes.

(* a condition over externals has the verdict of the same condition over literals of their values *)
Theorem externals_behave_as_literals : forall env env' c b,
  eval_cond env c = Some b -> eval_cond env' (subst_c env c) = Some b.
Proof. exact externals_behave_as_literals_proof. Qed.
Print Assumptions externals_behave_as_literals.

(* the most specific value.  NOT proved in closed form over histories: the specification
   [spec_scanner] (scanner definition if any, else the rule-set value when the scanner was created,
   else the compile-time value; Model/Externals.v) is only evaluated against the state machine
   ([most_specific_value_example]) and exercised by checks/c20.py.  Proved are the four steps the
   closed form is the induction of: *)
Theorem most_specific_value_partial :
  (* 1. creation copies the rule-set table as it is at that moment *)
  (forall w k w' rs ob, w_rules w = Some rs -> slot_get k (w_scanners w) = None -> scanner_objs rs [] = inl ob ->
     step w (OCreate k) = (w', Res ROk) -> slot_get k (w_scanners w') = Some ob /\ w_rules w' = Some rs) /\
  (* 2. an accepted scanner-level definition replaces that scanner's value and nothing else *)
  (forall o x d o', scanner_define o x d = (o', ROk) ->
     lookup x o' = Some (dval_payload d) /\ forall y, y <> x -> lookup y o' = lookup y o) /\
  (* 3. later rule-set definitions do not reach it *)
  (forall w x d w' r, step w (ORDef x d) = (w', r) -> w_scanners w' = w_scanners w /\ w_comp w' = w_comp w) /\
  (* 4. a scan sees exactly its scanner's table *)
  (forall w k ob, slot_get k (w_scanners w) = Some ob -> step w (OScan k) = (w, Seen ob)).
Proof.
  exact (conj create_snapshots_rules_proof (conj scanner_define_sets_proof
          (conj rules_defs_leave_scanners_proof scan_sees_own_objects_proof))).
Qed.
Print Assumptions most_specific_value_partial.

Example most_specific_value_example :
  let w := run_state world0 ([OCDef 1%N (DI 5); OCDef 2%N (DS (Some [97%N])); OCDef 1%N (DF (1#2)); OGetRules] ++ msv_history) in
  forall k x decl, In (k, x, decl) [(0%nat, 1%N, (XInt, PI 5)); (1%nat, 1%N, (XInt, PI 5)); (2%nat, 1%N, (XInt, PI 5));
                                    (0%nat, 2%N, (XStr, PS [97%N])); (1%nat, 2%N, (XStr, PS [97%N])); (2%nat, 2%N, (XStr, PS [97%N]))] ->
  match slot_get k (w_scanners w) with Some ob => lookup x ob | None => None end = spec_scanner (rev msv_history) decl k x.
Proof. exact msv_example_proof. Qed.

(* non-vacuity of the hypotheses of the theorems above: a world with a rule set, two scanners, and
   definitions of every outcome *)
Example c20_hypotheses_satisfiable :
  snd (run world0 [OCDef 1%N (DI 5); OCDef 2%N (DS (Some [97%N])); OCDef 1%N (DB 1); OGetRules; OCreate 0%nat; OCreate 1%nat;
                   ORDef 1%N (DB 1); ORDef 9%N (DI 1); ORDef 2%N (DS None); OSDef 0%nat 1%N (DB 7); OSDef 0%nat 2%N (DI 1);
                   OSDef 0%nat 9%N (DI 1); OScan 0%nat; OScan 1%nat]) =
  [Res ROk; Res ROk; Res (RErr ERROR_DUPLICATED_EXTERNAL_VARIABLE); Res ROk; Res ROk; Res ROk;
   Res (RErr ERROR_INVALID_EXTERNAL_VARIABLE_TYPE); Res (RErr ERROR_INVALID_ARGUMENT); Res (RErr ERROR_INVALID_ARGUMENT);
   Res ROk; Res (RErr ERROR_INVALID_EXTERNAL_VARIABLE_TYPE); Res (RErr ERROR_INVALID_ARGUMENT);
   Seen [(1%N, PI 7); (2%N, PS [97%N])]; Seen [(1%N, PI 5); (2%N, PS [97%N])]].
Proof. reflexivity. Qed.
