(* C20: external variables are typed, scoped and isolated.
   Statements only; proofs in Proofs/ExternalsProofs.v over Model/Externals.v (the three define
   families exactly as compiler.c / rules.c / scanner.c have them, tied to /repo by checks/c20.py). *)
From Coq Require Import List NArith ZArith.
From YV Require Import Base.Bytes gen.GenConsts Model.Externals Proofs.ExternalsProofs.
Import ListNotations.

(* defining a variable on one scanner never affects another scanner, the rule set or the compiler *)
Theorem scanner_defs_isolated : forall w k x d w' r,
  step w (OSDef k x d) = (w', r) ->
  w_comp w' = w_comp w /\ w_rules w' = w_rules w /\
  forall j, j <> k -> slot_get j (w_scanners w') = slot_get j (w_scanners w).
Proof. exact scanner_defs_isolated_proof. Qed.
Print Assumptions scanner_defs_isolated.

(* a rule-set definition reaches only scanners created afterwards *)
Theorem rules_defs_leave_existing_scanners : forall w x d w' r,
  step w (ORDef x d) = (w', r) -> w_scanners w' = w_scanners w /\ w_comp w' = w_comp w.
Proof. exact rules_defs_leave_scanners_proof. Qed.
Print Assumptions rules_defs_leave_existing_scanners.

(* invalid definitions change nothing: the statement in full is REFUTED on the current tree
   (yr_compiler_define_string_variable(c, x, NULL) returns ERROR_INVALID_ARGUMENT after writing the
   table entry, compiler.c 764-780) ... *)
Theorem invalid_define_changes_nothing_refuted : ~ invalid_define_changes_nothing_statement.
Proof. exact invalid_define_refuted_proof. Qed.
Print Assumptions invalid_define_changes_nothing_refuted.

(* ... with these consequences in the model of the code (each replayed on the implementation by checks/c20.py) *)
Theorem null_string_then_create_crashes :
  snd (run world0 [OCDef 1%N (DS None); OGetRules; OCreate 0%nat]) =
    [Res (RErr ERROR_INVALID_ARGUMENT); Res ROk; Res RCrash].
Proof. exact null_string_then_create_crashes_proof. Qed.
Theorem scanner_null_string_crashes :
  snd (run world0 [OCDef 1%N (DS (Some [97%N])); OGetRules; OCreate 0%nat; OSDef 0%nat 1%N (DS None)]) =
    [Res ROk; Res ROk; Res ROk; Res RCrash].
Proof. exact scanner_null_string_crashes_proof. Qed.
Theorem save_after_string_redefine_crashes :
  snd (run world0 [OCDef 1%N (DS (Some [97%N])); OGetRules; OSave; ORDef 1%N (DS (Some [98%N])); OSave]) =
    [Res ROk; Res ROk; Res ROk; Res ROk; Res RCrash].
Proof. exact save_after_string_redefine_crashes_proof. Qed.

(* ... and holds for every other definition at every level *)
Theorem invalid_define_changes_nothing_partial : forall w o c w',
  is_define o = true -> (forall x, o <> OCDef x (DS None)) ->
  step w o = (w', Res (RErr c)) -> w' = w.
Proof. exact invalid_define_partial_proof. Qed.
Print Assumptions invalid_define_changes_nothing_partial.

(* the documented errors, per level (the levels differ: a boolean define on an integer variable is
   ERROR_INVALID_EXTERNAL_VARIABLE_TYPE on a rule set and accepted on a scanner) *)
Theorem rules_define_codes : forall r x d,
  snd (rules_define r x d) =
    match d, rfind x r with
    | DS None, _ => RErr ERROR_INVALID_ARGUMENT
    | _, None => RErr ERROR_INVALID_ARGUMENT
    | _, Some e => if rules_valid (x_ty e) d then ROk else RErr ERROR_INVALID_EXTERNAL_VARIABLE_TYPE
    end.
Proof. exact rules_define_codes_proof. Qed.
Print Assumptions rules_define_codes.

Theorem scanner_define_codes : forall o x d,
  snd (scanner_define o x d) =
    match lookup x o with
    | None => RErr ERROR_INVALID_ARGUMENT
    | Some v =>
        match d, v with
        | DI _, PI _ | DB _, PI _ | DF _, PF _ | DS (Some _), PS _ => ROk
        | DS None, PS _ => RCrash
        | _, _ => RErr ERROR_INVALID_EXTERNAL_VARIABLE_TYPE
        end
    end.
Proof. exact scanner_define_codes_proof. Qed.
Print Assumptions scanner_define_codes.

(* a condition over externals has the verdict of the same condition over literals of their values *)
Theorem externals_behave_as_literals : forall env env' c b,
  eval_cond env c = Some b -> eval_cond env' (subst_c env c) = Some b.
Proof. exact externals_behave_as_literals_proof. Qed.
Print Assumptions externals_behave_as_literals.
