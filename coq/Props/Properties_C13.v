(* C13: all scan entry points agree, also across interrupted block iteration.
   Statements only; proofs in Proofs/ResumeProofs.v; model in Model/Resume.v (yr_scanner_scan_mem_blocks as a
   resumable machine over a position-keeping iterator; tied to scanner.c / exec.c / rules.c / filemap.c by
   checks/c13.py on every run).  The statements hold for every instance of the abstract parts: M / m_scan
   (what scanning one block adds to the matches) and finish (rule evaluation + report loop). *)
From Coq Require Import List ZArith NArith.
From YV Require Import gen.GenConsts Model.Report Spec.ReportSpec Model.Resume Proofs.ResumeProofs.
Import ListNotations.

(* For every block list, every file-size function and every not-ready pattern allowed by the contract
   (not-ready answers at arbitrary calls of the first full iteration, including first() itself; none later):
   repeating the call until it completes gives exactly the result r of the uninterrupted scan, after exactly
   1 + (number of not-ready answers) calls, and leaves the scanner as it was created (no matches, no
   notebook). *)
Theorem resume_equivalent :
  forall (M : Type) (m_empty : M) (m_scan : M -> rs_block -> list N -> M) (R : Type) (reads : list N)
         (finish : M -> option N -> list (option N) -> R) (blocks : list rs_block) (fsz : option N) (pat : list bool),
  rs_conforming (length blocks) pat = true ->
  exists r itf itf0,
    rs_run M m_empty m_scan R reads finish blocks fsz pat =
      Some (r, S (count_true pat), rs_init M m_empty, itf) /\
    rs_run M m_empty m_scan R reads finish blocks fsz [] = Some (r, 1, rs_init M m_empty, itf0).
Proof. exact resume_equivalent_proof. Qed.
Print Assumptions resume_equivalent.

(* ... and that result is: every block scanned exactly once, in iterator order (nothing duplicated or lost),
   then the rules evaluated on those matches with the values read back from the blocks *)
Theorem resume_result_is_each_block_once :
  forall (M : Type) (m_empty : M) (m_scan : M -> rs_block -> list N -> M) (R : Type) (reads : list N)
         (finish : M -> option N -> list (option N) -> R) (blocks : list rs_block) (fsz : option N) (pat : list bool),
  rs_conforming (length blocks) pat = true ->
  exists itf,
    rs_run M m_empty m_scan R reads finish blocks fsz pat =
      Some (finish (fold_left (rs_scan_block M m_scan) blocks m_empty) fsz (map (pure_read_from blocks) reads),
            S (count_true pat), rs_init M m_empty, itf).
Proof. exact run_characterised. Qed.
Print Assumptions resume_result_is_each_block_once.

(* memory, file path, file descriptor, rules-level or through a scanner object (in the state every completed
   scan leaves, see above), or a caller's single-block iterator with a file_size function: same result.
   Premise: scanning an empty block finds nothing (an empty file is mapped to data = NULL and skipped,
   filemap.c:236-255 / scanner.c:530; an empty memory buffer is scanned). *)
Theorem entry_points_agree :
  forall (M : Type) (m_empty : M) (m_scan : M -> rs_block -> list N -> M) (R : Type) (reads : list N)
         (finish : M -> option N -> list (option N) -> R),
  (forall b, m_scan m_empty b [] = m_empty) ->
  forall buf,
    rs_rules_scan_mem M m_empty m_scan R reads finish buf = Some (entry_result M m_empty m_scan R reads finish buf) /\
    rs_rules_scan_file M m_empty m_scan R reads finish buf = Some (entry_result M m_empty m_scan R reads finish buf) /\
    rs_rules_scan_fd M m_empty m_scan R reads finish buf = Some (entry_result M m_empty m_scan R reads finish buf) /\
    rs_scanner_scan_mem M m_empty m_scan R reads finish (rs_init M m_empty) buf =
      Some (entry_result M m_empty m_scan R reads finish buf) /\
    rs_scanner_scan_file M m_empty m_scan R reads finish (rs_init M m_empty) buf =
      Some (entry_result M m_empty m_scan R reads finish buf) /\
    rs_scanner_scan_fd M m_empty m_scan R reads finish (rs_init M m_empty) buf =
      Some (entry_result M m_empty m_scan R reads finish buf) /\
    rs_single_block_iter M m_empty m_scan R reads finish (rs_init M m_empty) buf =
      Some (entry_result M m_empty m_scan R reads finish buf).
Proof. exact entry_points_agree_proof. Qed.
Print Assumptions entry_points_agree.

(* the premise holds for the concrete instance the check runs *)
Theorem entry_premise_holds_for_literals :
  forall pats b, rc_scan pats (map (fun _ => []) pats) b [] = map (fun _ => []) pats.
Proof. exact rc_scan_empty. Qed.
Print Assumptions entry_premise_holds_for_literals.

(* FINDING (refutation of "through a scanner object" for scanners that gave up an interrupted scan): the state
   a call leaves when it returns ERROR_BLOCK_NOT_READY keeps the matches, and nothing but the completion of
   that same scan ever cleans them.  Witness: rule "#a == 1" ($a = "abc"); blocks "abc","abc", the second not
   ready; the caller gives up and scans "ab" with the same scanner: the rule matches, with a match at offset 0
   of a buffer that does not contain "abc".  A fresh scanner says no match. *)
Theorem scanner_reuse_after_abandoned_scan_refuted :
  ex_scan_ab (rs_init _ (map (fun _ => []) ex_pats)) = Some ([RNoMatch 0; RFinished], ERROR_SUCCESS, [[]]) /\
  ex_scan_ab ex_abandoned_state = Some ([RMatch 0; RFinished], ERROR_SUCCESS, [[0%N]]).
Proof. exact scanner_reuse_after_abandoned_scan_refuted_proof. Qed.
Print Assumptions scanner_reuse_after_abandoned_scan_refuted.

(* non-vacuity: a conforming pattern with three not-ready answers (first() itself, then twice in a row) over
   two blocks: four calls, same result as the uninterrupted scan *)
Example c13_uninterrupted : ex_run [] = Some (ex_expected, 1).
Proof. exact ex_uninterrupted. Qed.
Example c13_interrupted :
  rs_conforming 2 [true; false; true; true; false] = true /\
  ex_run [true; false; true; true; false] = Some (ex_expected, 4).
Proof. exact ex_interrupted. Qed.
(* the premise of resume_equivalent is needed: not ready during the re-iteration done by rule evaluation
   (outside the documented contract) turns uint8(4) into undefined and flips a verdict *)
Example c13_nonconforming_pattern_changes_verdict :
  rs_conforming 2 [false; false; false; true] = false /\
  ex_run [false; false; false; true] =
    Some (([RMatch 0; RNoMatch 1; RMatch 2; RFinished], ERROR_SUCCESS, [[0; 3]%N]), 1).
Proof. exact ex_nonconforming. Qed.
