(* C13: all scan entry points agree, also across interrupted block iteration.
   Statements only; proofs in Proofs/ResumeProofs.v; model in Model/Resume.v (yr_scanner_scan_mem_blocks as a
   resumable machine over a position-keeping iterator; tied to scanner.c / exec.c / rules.c / filemap.c by
   checks/c13.py on every run).  [discard] selects the code variant: true = the code as it is now (fix 8a2210d),
   false = the pinned code.  The statements hold for every instance of the abstract parts: M / m_scan
   (what scanning one block adds to the matches) and finish (rule evaluation + report loop). *)
From Coq Require Import List ZArith NArith.
From YV Require Import gen.GenConsts Model.Report Spec.ReportSpec Model.Resume Proofs.ResumeProofs.
Import ListNotations.

(* For every block list, every file-size function and every not-ready pattern allowed by the contract
   (not-ready answers at arbitrary calls of the first full iteration, including first() itself; none later):
   repeating the call until it completes gives exactly the result r of the uninterrupted scan, after exactly
   1 + (number of not-ready answers) calls, and leaves the scanner as it was created (no matches, no
   notebook). *)
Theorem resume_equivalent :
  forall (discard : bool) (M : Type) (m_empty : M) (m_scan : M -> rs_block -> list N -> M) (R : Type) (reads : list N)
         (finish : M -> option N -> list (option N) -> R) (blocks : list rs_block) (fsz : option N) (pat : list bool),
  rs_conforming (length blocks) pat = true ->
  exists r itf itf0,
    rs_run discard M m_empty m_scan R reads finish blocks fsz pat =
      Some (r, S (count_true pat), rs_init M m_empty, itf) /\
    rs_run discard M m_empty m_scan R reads finish blocks fsz [] = Some (r, 1, rs_init M m_empty, itf0).
Proof. exact resume_equivalent_proof. Qed.
Print Assumptions resume_equivalent.

(* ... and that result is: every block scanned exactly once, in iterator order (nothing duplicated or lost),
   then the rules evaluated on those matches with the values read back from the blocks *)
Theorem resume_result_is_each_block_once :
  forall (discard : bool) (M : Type) (m_empty : M) (m_scan : M -> rs_block -> list N -> M) (R : Type) (reads : list N)
         (finish : M -> option N -> list (option N) -> R) (blocks : list rs_block) (fsz : option N) (pat : list bool),
  rs_conforming (length blocks) pat = true ->
  exists itf,
    rs_run discard M m_empty m_scan R reads finish blocks fsz pat =
      Some (finish (fold_left (rs_scan_block M m_scan) blocks m_empty) fsz (map (pure_read_from blocks) reads),
            S (count_true pat), rs_init M m_empty, itf).
Proof. exact run_characterised. Qed.
Print Assumptions resume_result_is_each_block_once.

(* memory, file path, file descriptor, rules-level or through a scanner object (in the state every completed
   scan leaves, see above), or a caller's single-block iterator with a file_size function: same result.
   Premise: scanning an empty block finds nothing (an empty file is mapped to data = NULL and skipped,
   filemap.c:236-255 / scanner.c:530; an empty memory buffer is scanned). *)
Theorem entry_points_agree :
  forall (discard : bool) (M : Type) (m_empty : M) (m_scan : M -> rs_block -> list N -> M) (R : Type) (reads : list N)
         (finish : M -> option N -> list (option N) -> R),
  (forall b, m_scan m_empty b [] = m_empty) ->
  forall buf,
    rs_rules_scan_mem discard M m_empty m_scan R reads finish buf = Some (entry_result M m_empty m_scan R reads finish buf) /\
    rs_rules_scan_file discard M m_empty m_scan R reads finish buf = Some (entry_result M m_empty m_scan R reads finish buf) /\
    rs_rules_scan_fd discard M m_empty m_scan R reads finish buf = Some (entry_result M m_empty m_scan R reads finish buf) /\
    rs_scanner_scan_mem discard M m_empty m_scan R reads finish (rs_init M m_empty) buf =
      Some (entry_result M m_empty m_scan R reads finish buf) /\
    rs_scanner_scan_file discard M m_empty m_scan R reads finish (rs_init M m_empty) buf =
      Some (entry_result M m_empty m_scan R reads finish buf) /\
    rs_scanner_scan_fd discard M m_empty m_scan R reads finish (rs_init M m_empty) buf =
      Some (entry_result M m_empty m_scan R reads finish buf) /\
    rs_single_block_iter discard M m_empty m_scan R reads finish (rs_init M m_empty) buf =
      Some (entry_result M m_empty m_scan R reads finish buf).
Proof. exact entry_points_agree_proof. Qed.
Print Assumptions entry_points_agree.

(* the premise holds for the concrete instance the check runs (matches and entry point) *)
Theorem entry_premise_holds_for_literals :
  forall pats eps b, rc_scan_acc pats eps (rc_empty pats) b [] = rc_empty pats.
Proof. exact rc_scan_acc_empty. Qed.
Print Assumptions entry_premise_holds_for_literals.

(* scanner->entry_point is part of what a not-ready return keeps ([M] above; [rc_acc] in the concrete instance:
   set from the first block that has one, only while undefined): for every conforming pattern the resumed scan
   evaluates the rules (entrypoint == n, $s at entrypoint included) on the accumulator of the one-shot scan,
   whose entry point is that of the first block with one - wherever the not-ready answers fell, in particular
   after the block carrying the executable header was consumed. *)
Theorem resume_keeps_entry_point :
  forall d pats eps rules imports f sc blocks fsz pat,
  rs_conforming (length blocks) pat = true ->
  exists acc itf,
    rc_run d pats eps rules imports f sc blocks fsz pat =
      Some (rc_finish rules imports f sc acc fsz (map (pure_read_from blocks) (rc_reads rules)),
            S (count_true pat), rs_init _ (rc_empty pats), itf) /\
    acc = fold_left (rs_scan_block rc_acc (rc_scan_acc pats eps)) blocks (rc_empty pats) /\
    ra_entry acc = rc_first_ep eps blocks.
Proof. exact resume_keeps_entry_point_proof. Qed.
Print Assumptions resume_keeps_entry_point.

(* A scan started (new iterator) on a scanner whose previous scan was given up after ERROR_BLOCK_NOT_READY -
   the state (m, notebook alive) for ANY leftover matches m; every not-ready return leaves the notebook alive,
   see not_ready_leaves_notebook - gives, call by call and through every single-buffer entry point, exactly what
   a newly created scanner gives; neither that scan nor yr_scanner_destroy loses the old notebook.
   This is the code as fixed by 8a2210d (variant discard = true). *)
Theorem scan_after_abandoned_equals_fresh :
  forall (M : Type) (m_empty : M) (m_scan : M -> rs_block -> list N -> M) (R : Type) (reads : list N)
         (finish : M -> option N -> list (option N) -> R) (blocks : list rs_block) (fsz : option N) (m : M)
         (it : rs_iter) (fuel : nat) (buf : list N),
  ri_err it = false ->
  rs_drive true M m_empty m_scan R reads finish blocks fsz fuel (mk_rs_state M m true) it =
    rs_drive true M m_empty m_scan R reads finish blocks fsz fuel (rs_init M m_empty) it /\
  rs_scanner_scan_mem true M m_empty m_scan R reads finish (mk_rs_state M m true) buf =
    rs_rules_scan_mem true M m_empty m_scan R reads finish buf /\
  rs_scanner_scan_file true M m_empty m_scan R reads finish (mk_rs_state M m true) buf =
    rs_rules_scan_file true M m_empty m_scan R reads finish buf /\
  rs_scanner_scan_fd true M m_empty m_scan R reads finish (mk_rs_state M m true) buf =
    rs_rules_scan_fd true M m_empty m_scan R reads finish buf /\
  rs_fresh_leaks true M (mk_rs_state M m true) = false /\
  rs_destroy_leaks true M (mk_rs_state M m true) = false.
Proof. exact scan_after_abandoned_equals_fresh_proof. Qed.
Print Assumptions scan_after_abandoned_equals_fresh.

Theorem not_ready_leaves_notebook :
  forall (discard : bool) (M : Type) (m_empty : M) (m_scan : M -> rs_block -> list N -> M) (R : Type) (reads : list N)
         (finish : M -> option N -> list (option N) -> R) (blocks : list rs_block) fsz st it st' it',
  rs_scan_call discard M m_empty m_scan R reads finish blocks fsz st it = (RsNotReady R, st', it') ->
  rs_notebook M st' = true.
Proof. exact not_ready_keeps_notebook. Qed.
Print Assumptions not_ready_leaves_notebook.

(* the pinned code (variant discard = false, before fix 8a2210d) did not have this property.  Witness: rule
   "#a == 1" ($a = "abc"); blocks "abc","abc", the second not ready; the caller gives up and scans "ab" with the
   same scanner: the rule matches with a match at offset 0 of a buffer that does not contain "abc"; the old
   notebook is overwritten by the next scan and not freed by destroy. *)
Theorem scanner_reuse_after_abandoned_scan_pinned_refuted :
  ex_scan_ab false (rs_init _ (rc_empty ex_pats)) = Some ([RNoMatch 0; RFinished], ERROR_SUCCESS, [[]], None) /\
  ex_scan_ab false (ex_abandoned_state false) = Some ([RMatch 0; RFinished], ERROR_SUCCESS, [[0%N]], None) /\
  rs_fresh_leaks false _ (ex_abandoned_state false) = true /\
  rs_destroy_leaks false _ (ex_abandoned_state false) = true.
Proof. exact scanner_reuse_after_abandoned_scan_pinned_refuted_proof. Qed.
Print Assumptions scanner_reuse_after_abandoned_scan_pinned_refuted.

(* non-vacuity of scan_after_abandoned_equals_fresh: the abandoned call of the witness does return not-ready and
   leaves a match behind; the current code then answers as a fresh scanner does *)
Example c13_abandoned_state_exists : forall d,
  fst (fst (ex_abandoned_call d)) = RsNotReady _ /\ ex_abandoned_state d = mk_rs_state _ (mk_rc_acc [[0%N]] None) true.
Proof. exact abandoned_call_returns_not_ready. Qed.
Example c13_abandoned_current_code :
  ex_scan_ab true (ex_abandoned_state true) = Some ([RNoMatch 0; RFinished], ERROR_SUCCESS, [[]], None) /\
  ex_scan_ab true (rs_init _ (rc_empty ex_pats)) = Some ([RNoMatch 0; RFinished], ERROR_SUCCESS, [[]], None) /\
  rs_fresh_leaks true _ (ex_abandoned_state true) = false /\
  rs_destroy_leaks true _ (ex_abandoned_state true) = false.
Proof. exact ex_abandoned_current. Qed.

(* non-vacuity: a conforming pattern with three not-ready answers (first() itself, then twice in a row) over
   two blocks: four calls, same result as the uninterrupted scan *)
Example c13_uninterrupted : ex_run [] = Some (ex_expected, 1).
Proof. exact ex_uninterrupted. Qed.
Example c13_interrupted :
  rs_conforming 2 [true; false; true; true; false] = true /\
  ex_run [true; false; true; true; false] = Some (ex_expected, 4).
Proof. exact ex_interrupted. Qed.
Example c13_entry_point_survives_resume :
  ex_ep_run [] = Some (([RMatch 0; RMatch 1; RFinished], ERROR_SUCCESS, [[0; 3]%N], Some 3%N), 1) /\
  ex_ep_run [false; true; false] = Some (([RMatch 0; RMatch 1; RFinished], ERROR_SUCCESS, [[0; 3]%N], Some 3%N), 2).
Proof. exact ex_entry_point_survives. Qed.
(* the premise of resume_equivalent is needed: not ready during the re-iteration done by rule evaluation
   (outside the documented contract) turns uint8(4) into undefined and flips a verdict *)
Example c13_nonconforming_pattern_changes_verdict :
  rs_conforming 2 [false; false; false; true] = false /\
  ex_run [false; false; false; true] =
    Some (([RMatch 0; RNoMatch 1; RMatch 2; RFinished], ERROR_SUCCESS, [[0; 3]%N], @None N), 1).
Proof. exact ex_nonconforming. Qed.
