(* C03 (and the language part of C02): regular-expression strings and `matches` agree with regex
   semantics.  Spec/RegexSpec.v gives the documented semantics [M] over spans of a buffer (literals,
   classes, dot, alternation, star, bounded repeats as abbreviations, ^ $ \b \B; greedy and lazy
   quantifiers denote the same language) and the executable reference [ends]; checks/c03.py and
   checks/c02.py compare the real scanner with the extracted reference on generated expressions
   and buffers.  Proofs: Proofs/RegexProofs.v. *)
From Coq Require Import List Arith NArith Sorting.Sorted.
From YV Require Import Base.Bytes Spec.RegexSpec Proofs.RegexProofs.
From Coq Require Lia.
Import ListNotations.

(* the reference computes exactly the declarative relation, for every expression, buffer and position *)
Theorem reference_is_semantics : forall buf r i j, (i <= length buf)%nat ->
  (In j (ends buf r i) <-> M buf r i j).
Proof. intros buf r i j Hi. exact (proj1 (ends_correct buf r i j Hi)). Qed.
Print Assumptions reference_is_semantics.

(* string matches: offsets ascending, each once; a length is listed at an offset iff the expression
   matches the non-empty span of that length starting there *)
Theorem re_string_matches_exact : forall buf r,
  StronglySorted lt (map fst (re_matches_all buf r)) /\
  (forall o len, (0 < len)%nat ->
     ((exists ls, In (o, ls) (re_matches_all buf r) /\ In len ls) <-> M buf r o (o + len))).
Proof. exact re_string_matches_exact_proof. Qed.
Print Assumptions re_string_matches_exact.

(* the `matches` operator: true exactly when the expression matches somewhere in the operand *)
Theorem matches_operator_exact : forall buf r,
  re_matches_somewhere buf r = true <-> exists o j, (o <= length buf)%nat /\ M buf r o j.
Proof. exact matches_operator_exact_proof. Qed.
Print Assumptions matches_operator_exact.

Example regex_example :
  let r := RCat (RSet (CByte 97)) (RCat (RStar (RSet (CByte 98))) (RSet (CByte 99))) in   (* ab*c *)
  re_matches_all [120; 97; 98; 98; 99; 97; 99]%N r = [(1, [4]); (5, [2])] /\
  re_matches_somewhere [97; 99]%N (RCat r REnd) = true.
Proof. vm_compute. split; reflexivity. Qed.
(* not proved (correspondence only): that the bytecode emitted by re.c and the fiber VM of re.c accept
   exactly this language (emit_sound_complete, vm_sound/vm_complete of the design). *)

(* Source tie of the case table: what the implementation's altercase table (regenerated from /repo on every run) does to each of the 256
   byte values is the documented case folding used by `nocase` and /i: letters A-Z and a-z swap case, every other byte is left alone. *)
Theorem altercase_table_is_documented : forall b : N, (b < 256)%N ->
  alter_b b = if ((65 <=? b)%N && (b <=? 90)%N)%bool then (b + 32)%N else if ((97 <=? b)%N && (b <=? 122)%N)%bool then (b - 32)%N else b.
Proof.
  assert (H : forallb (fun n => N.eqb (alter_b (N.of_nat n))
                 (let b := N.of_nat n in if ((65 <=? b)%N && (b <=? 90)%N)%bool then (b + 32)%N else if ((97 <=? b)%N && (b <=? 122)%N)%bool then (b - 32)%N else b))
                      (seq 0 256) = true) by (vm_compute; reflexivity).
  intros b Hb. rewrite forallb_forall in H. specialize (H (N.to_nat b)).
  rewrite Nnat.N2Nat.id in H. apply N.eqb_eq. apply H. apply in_seq. Lia.lia.
Qed.
Print Assumptions altercase_table_is_documented.
