From YV Require Import Spec.RegexSpec.
Theorem placeholder_c03 : True. Proof. exact I. Qed.
