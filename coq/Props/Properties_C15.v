(* C15: exceeding an engine limit yields the documented error, not a crash or hang.
   Statements only; proofs are in Proofs/LimitsProofs.v.  The decision functions (Model/Limits.v) are
   written over gen/GenLimits.v, which lib/genlimits.py cuts out of /repo's sources on every run
   (operator and operand of every limit test, test-before-increment facts, clock-read spacing), and
   over gen/GenConsts.v (values of the macros).  checks/c15.py runs the extracted functions against
   the implementation at L-1, L, L+1, 10L for every limit.
   "accepts n" = n items presented one after the other from the initial state are all lim_accepted:
   in every theorem the L-th item IS accepted and the (L+1)-th is the first one refused. *)
From Coq Require Import ZArith NArith List Bool.
From YV Require Import Base.Cmp gen.GenConsts gen.GenLimits Model.Limits Proofs.LimitsProofs Model.ReEmit Proofs.ReEmitProofs.
Import ListNotations.
Local Open Scope Z_scope.

(* matches per string: the YR_MAX_STRING_MATCHES-th match is stored, the next one raises ERROR_TOO_MANY_MATCHES *)
Theorem limit_exact_matches : forall n : N, accepts_matches n = true <-> Z.of_N n <= YR_MAX_STRING_MATCHES.
Proof. exact limit_exact_matches_proof. Qed.
Print Assumptions limit_exact_matches.

(* the stored list never holds more than the cap and its count field is its length *)
Theorem match_list_bounded : forall off m m', ml_wf m -> add_match off m = Some m' -> ml_wf m'.
Proof. exact add_match_wf. Qed.
Print Assumptions match_list_bounded.

(* evaluation stack, for every setting cap of YR_CONFIG_STACK_SIZE: depth cap fits, cap+1 overflows *)
Theorem limit_exact_vm_stack : forall (cap : Z) (d : N), 0 <= cap -> (accepts_vm_stack cap d = true <-> Z.of_N d <= cap).
Proof. exact limit_exact_vm_stack_proof. Qed.
Print Assumptions limit_exact_vm_stack.

(* iterators test for room for all the slots they are about to fill *)
Theorem limit_exact_vm_iterators :
  Forall (fun chk => forall sp cap, vm_iter_accepts chk sp cap = true <-> sp + (fst chk + 1) <= cap) vm_iter_checks.
Proof. exact vm_iter_exact_proof. Qed.
Print Assumptions limit_exact_vm_iterators.

(* ... and that room is exactly what they then fill: an iterator that stores p slots (p counted in exec.c: 2 for
   arrays, integer ranges, integer lists, string sets and text-string sets, 3 for dictionaries) goes ahead iff
   sp + p <= capacity, so none of its stores lands outside the stack buffer and no store that fits is refused *)
Theorem limit_exact_vm_iterator_room :
  Forall2 (fun chk p => forall sp cap, vm_iter_accepts chk sp cap = true <-> sp + p <= cap) vm_iter_checks vm_iter_pushes.
Proof. exact vm_iter_room_exact_proof. Qed.
Print Assumptions limit_exact_vm_iterator_room.

Example vm_iterator_pushes_inhabited : vm_iter_pushes <> [] /\ Forall (fun p => 2 <= p) vm_iter_pushes.
Proof. exact vm_iter_pushes_example. Qed.

(* regular expressions: RE_MAX_SPLIT_ID split instructions, RE_MAX_FIBERS live fibers, repeat bound RE_MAX_RANGE *)
Theorem limit_exact_splits : forall n : N, accepts_splits n = true <-> Z.of_N n <= RE_MAX_SPLIT_ID.
Proof. exact limit_exact_splits_proof. Qed.
Print Assumptions limit_exact_splits.

Theorem limit_exact_fibers : forall n : N, accepts_fibers n = true <-> Z.of_N n <= RE_MAX_FIBERS.
Proof. exact limit_exact_fibers_proof. Qed.
Print Assumptions limit_exact_fibers.

Theorem limit_exact_re_range : forall hi, re_range_rejects hi = false <-> hi <= RE_MAX_RANGE.
Proof. exact limit_exact_re_range_proof. Qed.
Print Assumptions limit_exact_re_range.

(* regular-expression SIZE: every split / jump of the code stores a 16-bit signed relative offset (repeat instructions a
   32-bit one).  For every regexp (shape [emrx]: literals, `.`, classes, concatenation, |, *, +, ?, {n,m}, {n,}) re.c answers
   ERROR_REGULAR_EXPRESSION_TOO_LARGE exactly when some stored offset would not fit its field; the (operator, limit) of
   each of the eight distance tests of _yr_re_emit and the instruction sizes are regenerated from re.c. *)
Theorem limit_exact_re_size : forall r, em_wf r = true -> em_size r < 2147483648 -> em_ok r = em_fits r.
Proof. exact emit_ok_exact_proof. Qed.
Print Assumptions limit_exact_re_size.

(* the boundary at every emit site, in bytes of code of the sub-expression (a literal is 2 bytes, `.` 1, a class 34):
   (e1|e2): size(e1) <= 32760 and size(e2) <= 32764;  (e)*: size(e) <= 32760;  (e)+: size(e) <= 32768;
   (e)?, (e){n,m}, (e){n,}: size(e) <= 32763;  (e){n}: no 16-bit offset *)
Example re_size_boundaries :
  em_ok (EmAlt (EmCat (em_body 16379) (EmCat EmAny EmAny)) EmLit) = true /\ em_ok (EmAlt (EmCat (em_body 16380) EmAny) EmLit) = false /\
  em_ok (EmAlt EmLit (em_body 16382)) = true /\ em_ok (EmAlt EmLit (EmCat (em_body 16382) EmAny)) = false /\
  em_ok (EmStar (em_body 16380)) = true /\ em_ok (EmStar (EmCat (em_body 16380) EmAny)) = false /\
  em_ok (EmPlus (em_body 16384)) = true /\ em_ok (EmPlus (EmCat (em_body 16384) EmAny)) = false /\
  em_ok (EmRange 0 1 (EmCat (em_body 16381) EmAny)) = true /\ em_ok (EmRange 0 1 (em_body 16382)) = false /\
  em_ok (EmRange 2 32767 (EmCat (em_body 16381) EmAny)) = true /\ em_ok (EmRange 2 32767 (em_body 16382)) = false /\
  em_ok (EmRange 3 3 (em_body 20000)) = true.
Proof. exact boundaries. Qed.

(* outside [em_wf]: e{0} emits no code; a + over it has distance 0, which the unsigned distance test reads as too large *)
Theorem re_plus_over_empty_refuted : em_fits (EmPlus (EmRange 0 0 EmLit)) = true /\ em_ok (EmPlus (EmRange 0 0 EmLit)) = false.
Proof. exact plus_over_empty_refuted. Qed.
Print Assumptions re_plus_over_empty_refuted.

(* RE_MAX_STACK has no test in the code.  Partial: proved is only the arithmetic core (a nesting of d
   counted repeats needs code of size >= 3^d; 3^d <= INT16_MAX implies d < RE_MAX_STACK); that every
   counted repeat triples the code and that the size tests of re.c bound the whole nest is NOT
   modelled (explored by checks/c15.py: nests of depth 1..12 compile or are refused, never crash). *)
Theorem limit_re_stack_partial : forall d : nat, pow3 d <= 32767 -> Z.of_nat d < RE_MAX_STACK.
Proof. exact re_stack_depth_bounded_proof. Qed.
Print Assumptions limit_re_stack_partial.

(* compiler *)
Theorem limit_exact_loops : forall d : N, accepts_loops d = true <-> Z.of_N d <= YR_MAX_LOOP_NESTING.
Proof. exact limit_exact_loops_proof. Qed.
Print Assumptions limit_exact_loops.

(* for every setting max of YR_CONFIG_MAX_STRINGS_PER_RULE *)
Theorem limit_exact_strings : forall (max : Z) (n : N), 0 <= max -> (accepts_strings max n = true <-> Z.of_N n <= max).
Proof. exact limit_exact_strings_proof. Qed.
Print Assumptions limit_exact_strings.

Theorem limit_exact_includes : forall d : N, accepts_includes d = true <-> Z.of_N d <= YR_MAX_INCLUDE_DEPTH.
Proof. exact limit_exact_includes_proof. Qed.
Print Assumptions limit_exact_includes.

(* lexer: a chunk of len bytes appended to a buffer holding cur bytes; identifiers; integer literals *)
Theorem limit_exact_lexbuf : forall len cur, lex_rejects len cur = false <-> len + cur <= YR_LEX_BUF_SIZE - 2.
Proof. exact limit_exact_lexbuf_proof. Qed.
Print Assumptions limit_exact_lexbuf.

Theorem limit_exact_ident : forall len, ident_rejects len = false <-> len <= 128.
Proof. exact limit_exact_ident_proof. Qed.
Print Assumptions limit_exact_ident.

(* a literal with digits of value v and suffix s is accepted with value v*mul iff that fits in int64 *)
Theorem limit_exact_int_literal : forall (v : Z) (s : suffix), 0 <= v ->
  (v * suffix_mul s <= LLONG_MAX -> int_literal v s = Some (v * suffix_mul s)) /\
  (LLONG_MAX < v * suffix_mul s -> int_literal v s = None).
Proof. exact limit_exact_int_literal_proof. Qed.
Print Assumptions limit_exact_int_literal.

(* match data, for every setting m of YR_CONFIG_MAX_MATCH_DATA below 2^31 ... *)
Theorem limit_exact_match_data : forall m len, 0 <= m < 2147483648 -> match_data_len m len = Z.min len m.
Proof. exact match_data_exact_proof. Qed.
Print Assumptions limit_exact_match_data.

(* ... and refuted for the settings from 2^31 on, which yr_set_configuration accepts: the (int32_t)
   cast makes data_length negative.  Not observable where malloc refuses the 2 TB notebook page that
   such a setting requests (then the scan returns ERROR_INSUFFICIENT_MEMORY; checks/c15.py). *)
Theorem limit_match_data_all_settings_refuted :
  exists m len, 0 <= m < 4294967296 /\ 0 < len /\ match_data_len m len < 0.
Proof. exact match_data_negative_proof. Qed.
Print Assumptions limit_match_data_all_settings_refuted.

(* hitting the cap on string s (callback answers CONTINUE: s is disabled for the rest of the scan)
   leaves the match list of every other string exactly as in a scan without s, and the scan succeeds *)
Theorem limit_isolated : forall (answer : nat -> bool) (evs : list (nat * Z)) (s s' : nat),
  (forall x, answer x = true) -> s' <> s ->
  matches_of (run answer evs) s' = matches_of (run answer (filter (fun e => negb (Nat.eqb (fst e) s)) evs)) s' /\
  cx_rc (run answer evs) = ERROR_SUCCESS.
Proof. exact limit_isolated_proof. Qed.
Print Assumptions limit_isolated.

(* once the callback refuses, the scan result is an error and nothing more is recorded: not silent *)
Theorem limit_abort_not_silent : forall (evs : list (nat * Z)) (c : ctx),
  cx_rc c <> ERROR_SUCCESS -> fold_left (verify (fun _ => false)) evs c = c.
Proof. exact abort_not_silent_proof. Qed.
Print Assumptions limit_abort_not_silent.

(* slow-scanning warning: the window of the final test ... *)
Theorem slow_warning_window : forall c, slow_final true c = true <-> YR_SLOW_STRING_MATCHES <= c < YR_MAX_STRING_MATCHES.
Proof. exact slow_window_proof. Qed.
Print Assumptions slow_warning_window.

(* ... but "a string with that many matches is reported" is refuted: the tests read scanner->matches->count,
   i.e. the count of the string with index 0 only (replayed on the implementation by checks/c15.py) *)
Theorem slow_warning_per_string_refuted :
  exists (counts : nat -> Z) (s : nat), s <> 0%nat /\ YR_SLOW_STRING_MATCHES <= counts s < YR_MAX_STRING_MATCHES /\
     slow_visit (slow_observed counts) = false /\ slow_final true (slow_observed counts) = false.
Proof. exact slow_other_strings_unseen_proof. Qed.
Print Assumptions slow_warning_per_string_refuted.

(* work between two clock reads: <= 4096 bytes in the block loop, <= 100 instructions in the VM
   (spacing constants and operators from the source; the documented bounds are SPEC_BLOCK_SPACING and SPEC_VM_SPACING) *)
Theorem timeout_check_spacing :
  (forall i, 0 <= i -> exists j, i <= j < i + block_check_modulus /\ block_reads_clock j = true) /\
  block_index_step = 1 /\ block_check_modulus <= SPEC_BLOCK_SPACING /\
  (vm_cycle_reset <= vm_cycle_init < vm_check_cycles) /\
  (forall c, vm_cycle_reset <= c < vm_check_cycles -> vm_cycle_reset <= snd (vm_tick c) < vm_check_cycles) /\
  (forall c, vm_cycle_reset <= c < vm_check_cycles -> vm_reads_within (Z.to_nat vm_check_cycles) c = true) /\
  vm_check_cycles <= SPEC_VM_SPACING.
Proof. exact timeout_check_spacing_proof. Qed.
Print Assumptions timeout_check_spacing.

(* block phase: the guard of the clock read is a function of the offset INSIDE the current block, so it matters that every
   block -- whatever its size >= 1 -- reads the clock at least once (at offset 0); together with timeout_check_spacing
   (reads at most block_check_modulus bytes apart) a scan delivered in small blocks (yr_scanner_scan_mem_blocks with a
   page-wise iterator, process scanning) is not exempt from the deadline.  The whole guard is regenerated from scanner.c. *)
Theorem every_block_reads_clock : forall size, 1 <= size -> exists i, 0 <= i < size /\ block_reads_clock i = true.
Proof. exact every_block_reads_clock_proof. Qed.
Print Assumptions every_block_reads_clock.

(* once the VM's test sees the deadline passed (result = ERROR_SCAN_TIMEOUT, stop = true) no further instruction executes:
   the test is the last statement of the body of `while (!stop)`, after the switch.  (Were it before the opcode fetch, one more
   instruction would run, and OP_ITER_NEXT / OP_CALL / OP_MATCHES / OP_IMPORT overwrite result or stop.)  The position is
   regenerated from exec.c. *)
Theorem timeout_stops_at_once : vm_instrs_after_deadline_test = 0 /\ vm_deadline_test_after_switch = true.
Proof. exact vm_deadline_stops_at_once_proof. Qed.
Print Assumptions timeout_stops_at_once.

(* the deadline itself: yr_scanner_set_timeout (through which yr_rules_scan_* and `yara -a` pass as well) turns every number
   of seconds its `int` parameter can carry into exactly that many nanoseconds, the unit of the two deadline tests; the
   expression is regenerated from scanner.c with its C integer types and wrap-around explicit *)
Theorem timeout_ns_exact : forall t, 0 <= t <= timeout_param_max -> timeout_ns t = t * timeout_ns_per_second.
Proof. exact timeout_ns_exact_proof. Qed.
Print Assumptions timeout_ns_exact.

Example timeout_ns_inhabited : timeout_ns 3 = 3000000000 /\ timeout_ns 60 = 60000000000 /\ timeout_ns 2147483647 = 2147483647000000000.
Proof. exact timeout_ns_example. Qed.

(* "ERROR_SCAN_TIMEOUT within a bounded delay of the deadline" is wall-clock.  Partial: proved is that
   the time between two clock reads is at most 4096 (resp. 100) times a bound B on the cost of one
   step.  MISSING: B itself -- one block-loop step verifies every atom hit at that position (a regexp
   run over up to YR_RE_SCAN_LIMIT bytes with up to RE_MAX_FIBERS fibers), one VM instruction can be
   a module call over the whole file; neither has a bound in the model.  checks/c15.py measures B on
   the implementation and checks the delay against spacing*B. *)
Theorem timeout_bounded_delay_partial : forall (cost : Z -> Z) (B : Z), 0 <= B -> (forall t, cost t <= B) ->
  (forall i, 0 <= i -> exists k : nat, Z.of_nat k < block_check_modulus /\ block_reads_clock (i + Z.of_nat k) = true /\
                                      cost_sum cost i k <= SPEC_BLOCK_SPACING * B) /\
  (forall (s c : Z), vm_cycle_reset <= c < vm_check_cycles ->
       vm_reads_within (Z.to_nat vm_check_cycles) c = true /\
       cost_sum cost s (Z.to_nat vm_check_cycles) <= SPEC_VM_SPACING * B).
Proof. exact timeout_bounded_delay_partial_proof. Qed.
Print Assumptions timeout_bounded_delay_partial.

(* defaults set by yr_initialize lie in the ranges the theorems above assume *)
Theorem configurable_defaults_in_range :
  0 < cfg_default_stack_size < 4294967296 /\ 0 < cfg_default_max_strings_per_rule < 4294967296 /\
  0 <= cfg_default_max_match_data < 2147483648 /\
  exec_MEM_SIZE = YR_MAX_LOOP_NESTING * (YR_MAX_LOOP_VARS + YR_INTERNAL_LOOP_VARS).
Proof. exact defaults_proof. Qed.
Print Assumptions configurable_defaults_in_range.

(* non-vacuity: both sides of every limit are inhabited, at the boundary *)
Example limits_at_boundary :
  accepts_matches (NL YR_MAX_STRING_MATCHES) = true /\ accepts_matches (NL (YR_MAX_STRING_MATCHES + 1)) = false /\
  accepts_vm_stack 4 4 = true /\ accepts_vm_stack 4 5 = false /\ accepts_vm_stack 0 1 = false /\
  accepts_vm_stack cfg_default_stack_size (NL cfg_default_stack_size) = true /\
  accepts_vm_stack cfg_default_stack_size (NL (cfg_default_stack_size + 1)) = false /\
  accepts_splits (NL RE_MAX_SPLIT_ID) = true /\ accepts_splits (NL (RE_MAX_SPLIT_ID + 1)) = false /\
  accepts_fibers (NL RE_MAX_FIBERS) = true /\ accepts_fibers (NL (RE_MAX_FIBERS + 1)) = false /\
  accepts_loops (NL YR_MAX_LOOP_NESTING) = true /\ accepts_loops (NL (YR_MAX_LOOP_NESTING + 1)) = false /\
  accepts_strings cfg_default_max_strings_per_rule (NL cfg_default_max_strings_per_rule) = true /\
  accepts_strings cfg_default_max_strings_per_rule (NL (cfg_default_max_strings_per_rule + 1)) = false /\
  accepts_strings 0 1 = false /\
  accepts_includes (NL YR_MAX_INCLUDE_DEPTH) = true /\ accepts_includes (NL (YR_MAX_INCLUDE_DEPTH + 1)) = false /\
  lex_rejects (YR_LEX_BUF_SIZE - 2) 0 = false /\ lex_rejects (YR_LEX_BUF_SIZE - 1) 0 = true /\
  ident_rejects 128 = false /\ ident_rejects 129 = true /\
  int_literal 9223372036854775807 SNone = Some 9223372036854775807 /\ int_literal 9223372036854775808 SNone = None /\
  int_literal 9007199254740991 SKB = Some 9223372036854774784 /\ int_literal 9007199254740992 SKB = None /\
  re_range_rejects RE_MAX_RANGE = false /\ re_range_rejects (RE_MAX_RANGE + 1) = true.
Proof. exact examples_proof. Qed.

(* the block loop on a buffer in which one string matches at every position: counts, TOO_MANY_MATCHES
   callbacks, slow-scanning warning, result code (compared with the implementation by checks/c15.py) *)
Example scan_at_boundary :
  scan_all_match true (NL (YR_SLOW_STRING_MATCHES + 1)) = (YR_SLOW_STRING_MATCHES + 1, 0, false, ERROR_SUCCESS) /\
  scan_all_match true (NL (YR_SLOW_STRING_MATCHES + 2)) = (YR_SLOW_STRING_MATCHES + 2, 0, true, ERROR_SUCCESS) /\
  scan_all_match true (NL YR_MAX_STRING_MATCHES) = (YR_MAX_STRING_MATCHES, 0, false, ERROR_SUCCESS) /\
  scan_all_match true (NL (YR_MAX_STRING_MATCHES + 1)) = (YR_MAX_STRING_MATCHES, 1, false, ERROR_SUCCESS) /\
  scan_all_match false (NL (YR_MAX_STRING_MATCHES + 1)) = (YR_MAX_STRING_MATCHES, 1, false, ERROR_TOO_MANY_MATCHES).
Proof. exact scan_examples_proof. Qed.

Example isolation_inhabited :
  let evs := [(0%nat, 1); (1%nat, 7); (0%nat, 2); (1%nat, 9)] in
  matches_of (run (fun _ => true) evs) 1%nat = [7; 9] /\ matches_of (run (fun _ => true) evs) 0%nat = [1; 2].
Proof. exact isolation_example_proof. Qed.
