(* C05: a rule's result does not depend on what else is compiled with it.
   The documented semantics (Spec/TextSpec.v, Spec/CondSpec.v) evaluates a rule on its own strings only,
   so independence is a statement about the engine: the shared automaton must report every atom
   occurrence of every string whatever other atoms share its states, prefixes, suffixes and match lists.
   That is ac_reports_all_and_only, which holds for every image passing ac_cert - evaluated by
   checks/c05.py on the image of every COMBINED rule set. *)
From Coq Require Import List NArith.
From YV Require Import Base.Bytes Spec.TextSpec Model.Arena Model.Image Model.AC Model.TextAtoms Model.Verify Proofs.TextProofs Proofs.ACProofs Proofs.VerifyProofs.
Import ListNotations.

(* occurrences of a string's atoms reach the verifier in ANY automaton that passes the certificate,
   i.e. regardless of which other rules contributed states and matches to it *)
Theorem shared_automaton_reports_every_atom : forall cr sidx a bt buf o,
  ac_cert cr = true -> all_bytes buf = true ->
  In (a, bt) (atoms_of cr sidx) -> atom_ends_at a buf (o + N.to_nat bt) ->
  exists mu, In mu (hits_at cr buf (o + N.to_nat bt)) /\ am_string (pool_at cr mu) = sidx /\
             (N.of_nat (o + N.to_nat bt) - am_backtrack (pool_at cr mu) = N.of_nat o)%N.
Proof. exact atom_hits_reach_verifier_proof. Qed.
Print Assumptions shared_automaton_reports_every_atom.

(* adding atoms (of other strings or rules) never removes a candidate offset of a string *)
Theorem adding_atoms_keeps_candidates : forall atoms extra buf o,
  candidate atoms buf o -> candidate (atoms ++ extra) buf o.
Proof.
  intros atoms extra buf o [a [bt [Hin He]]]. exists a, bt. split; [apply in_or_app; now left|exact He].
Qed.
Print Assumptions adding_atoms_keeps_candidates.

(* with the coverage certificate of the string (C01): every occurrence of the string in every buffer is
   handed to the verifier by the shared automaton *)
Theorem occurrences_verified_in_any_company : forall cr sidx s m buf o lk,
  ac_cert cr = true -> legal m = true -> all_bytes s = true -> all_bytes buf = true ->
  cover_ok s m (atoms_of cr sidx) = true -> In lk (occs_at s m buf o) ->
  exists bt mu, In mu (hits_at cr buf (o + N.to_nat bt)) /\ am_string (pool_at cr mu) = sidx /\
                (N.of_nat (o + N.to_nat bt) - am_backtrack (pool_at cr mu) = N.of_nat o)%N.
Proof.
  intros cr sidx s m buf o lk Hc Hl Hs Hb Hcov Hocc.
  destruct (candidates_complete_proof s m _ buf o lk Hl Hs Hb Hcov Hocc) as [a [bt [Hin He]]].
  exists bt. exact (atom_hits_reach_verifier_proof cr sidx a bt buf o Hc Hb Hin He).
Qed.
Print Assumptions occurrences_verified_in_any_company.
(* the offsets recorded for a text string by the scan model (stored automaton + literal verifier + match list, Model/Verify.v)
   are the same in ANY two images that pass the certificates: whatever else was compiled with the string, in whatever order,
   under whatever string index *)
Theorem text_matches_independent_of_company : forall cr1 sidx1 fl1 cr2 sidx2 fl2 s m buf,
  ac_cert cr1 = true -> ac_cert cr2 = true -> all_bytes buf = true ->
  text_certs cr1 sidx1 fl1 s m = true -> complete_certs cr1 sidx1 fl1 s m = true ->
  text_certs cr2 sidx2 fl2 s m = true -> complete_certs cr2 sidx2 fl2 s m = true ->
  map fst (scan_string cr1 sidx1 fl1 s None buf) = map fst (scan_string cr2 sidx2 fl2 s None buf).
Proof. exact scan_offsets_image_independent_proof. Qed.
Print Assumptions text_matches_independent_of_company.

(* not proved: independence of the lexer/parser level (splitting sources over files and includes) and of
   the condition bytecode; those are metamorphic runs in checks/c05.py. *)
