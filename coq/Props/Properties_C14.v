(* C14: hash, math and string module functions compute their definitions.
   Model: Model/ModRange.v (range walker of the ten data functions, digest cache, crc32, checksum32,
   distribution/count/mode, integer math, strtoll / string.to_int); proofs: Proofs/ModRangeProofs.v.
   [fixd] selects the loop's break condition: true = the current code (fix fc7cae9), false = yara 4.5.2 as pinned
   (kept only for the `_refuted` witnesses). *)
From Coq Require Import List NArith ZArith Bool.
From YV Require Import Base.Bytes Base.CSem gen.GenConsts Model.ModRange Proofs.ModRangeProofs.
Import ListNotations.
Local Open Scope Z_scope.

(* one buffer = one block at base 0 (yr_rules_scan_mem and friends): the full statement, both variants *)
Theorem addressed_bytes_exact : forall fixd data off len,
  addressed fixd [mkblock 0 data] off len = range_spec 0 data off len.
Proof. exact addressed_single. Qed.
Print Assumptions addressed_bytes_exact.

(* any partition of the data into non-empty contiguous blocks.  For the current code (fixd = true) this is the
   full statement (see addressed_bytes_exact_partition below); the pinned 4.5.2 loop deviated exactly on zero-length
   ranges starting at an interior block start. *)
Theorem addressed_bytes_exact_blocks : forall fixd base parts off len,
  nonempty_parts parts -> 0 <= base ->
  addressed fixd (blocks_of base parts) off len =
    if negb fixd && (len =? 0) && boundary_hit (blocks_of base parts) off then None
    else range_spec base (concat parts) off len.
Proof. exact addressed_contiguous. Qed.
Print Assumptions addressed_bytes_exact_blocks.

(* the current code: every partition into non-empty contiguous blocks addresses exactly the range of the data *)
Theorem addressed_bytes_exact_partition : forall base parts off len,
  nonempty_parts parts -> 0 <= base ->
  addressed true (blocks_of base parts) off len = range_spec base (concat parts) off len.
Proof. exact (addressed_contiguous true). Qed.
Print Assumptions addressed_bytes_exact_partition.

(* pinned 4.5.2 variant *)
Theorem addressed_bytes_exact_refuted :
  exists parts off len, nonempty_parts parts /\
    addressed false (blocks_of 0 parts) off len <> range_spec 0 (concat parts) off len /\
    addressed false [mkblock 0 (concat parts)] off len = range_spec 0 (concat parts) off len.
Proof. exact addressed_bytes_exact_refuted_lemma. Qed.
Print Assumptions addressed_bytes_exact_refuted.

Theorem empty_block_refuted :
  exists fixd parts off len, addressed fixd (blocks_of 0 parts) off len <> range_spec 0 (concat parts) off len.
Proof. exact empty_block_refuted_lemma. Qed.
Print Assumptions empty_block_refuted.

(* every streaming digest (init / update / final with update (update s a) b = update s (a ++ b)) is fed exactly
   the addressed bytes, whatever the block structure (gaps, overlaps, any bases) *)
Theorem hash_feeds_exact_bytes :
  forall (Ctx D : Type) (h_init : Ctx) (h_update : Ctx -> list N -> Ctx) (h_final : Ctx -> D),
  (forall s a b, h_update (h_update s a) b = h_update s (a ++ b)) ->
  (forall s, h_update s [] = s) ->
  forall fixd bs off len,
    module_hash Ctx D h_init h_update h_final fixd bs off len =
    option_map (digest_of Ctx D h_init h_update h_final) (addressed fixd bs off len).
Proof. exact module_hash_exact. Qed.
Print Assumptions hash_feeds_exact_bytes.

Theorem cache_transparent : forall (D : Type) (H : alg -> list N -> D) fixd bs calls,
  Forall (fun q : call => let '(a, off, len) := q in in64 off /\ in64 len) calls ->
  results_with_cache D H fixd bs calls = results_without_cache D H fixd bs calls.
Proof. exact cache_transparent_lemma. Qed.
Print Assumptions cache_transparent.

Theorem crc32_data_exact : forall fixd bs off len,
  data_crc32 fixd bs off len = option_map crc32_table (addressed fixd bs off len).
Proof. exact data_crc32_exact. Qed.
Print Assumptions crc32_data_exact.

Theorem crc32_table_eq_bitwise : forall l, all_bytes l = true -> crc32_table l = crc32_bitwise l.
Proof. exact crc32_table_eq_bitwise_lemma. Qed.
Print Assumptions crc32_table_eq_bitwise.

Theorem checksum32_data_exact : forall fixd bs off len,
  data_checksum32 fixd bs off len = option_map checksum32 (addressed fixd bs off len).
Proof. exact data_checksum32_exact. Qed.
Print Assumptions checksum32_data_exact.

Theorem checksum32_is_sum_mod_2_32 : forall l, checksum32 l = (byte_sum l mod two32)%N.
Proof. exact checksum32_spec. Qed.
Print Assumptions checksum32_is_sum_mod_2_32.

Theorem distribution_exact : forall fixd bs off len,
  get_distribution fixd bs off len = option_map (hist_add hist0) (addressed fixd bs off len).
Proof. exact get_distribution_exact. Qed.
Print Assumptions distribution_exact.

Theorem distribution_counts : forall l c,
  (c < 256)%N -> (N.of_nat (length l) < two32)%N -> nth (N.to_nat c) (hist_add hist0 l) 0%N = occ c l.
Proof. exact distribution_counts_small. Qed.
Print Assumptions distribution_counts.

Theorem mode_is_least_most_frequent : forall h,
  let m := N.to_nat (mode_of h) in
  (m < 256)%nat /\ (forall c, (c < 256)%nat -> (nth c h 0 <= nth m h 0)%N) /\ (forall c, (c < m)%nat -> (nth c h 0 < nth m h 0)%N).
Proof. exact mode_of_spec. Qed.
Print Assumptions mode_is_least_most_frequent.

Theorem min_is_unsigned_min : forall i j, in64 i -> in64 j -> i <> YR_UNDEFINED -> j <> YR_UNDEFINED ->
  math_min i j = Some (if uz i <? uz j then i else j).
Proof. exact math_min_spec. Qed.
Print Assumptions min_is_unsigned_min.

Theorem max_is_unsigned_max : forall i j, in64 i -> in64 j -> i <> YR_UNDEFINED -> j <> YR_UNDEFINED ->
  math_max i j = Some (if uz j <? uz i then i else j).
Proof. exact math_max_spec. Qed.
Print Assumptions max_is_unsigned_max.

(* math.abs x = |x|, undefined exactly at INT64_MIN *)
Theorem abs_exact : forall i, in64 i -> i <> YR_UNDEFINED ->
  math_abs i = if i =? INT64_MIN then None else Some (Z.abs i).
Proof. exact math_abs_exact. Qed.
Print Assumptions abs_exact.

Theorem abs_pinned_refuted : exists i, in64 i /\ i <> YR_UNDEFINED /\ math_abs_pinned i = Some INT64_MIN.
Proof. exact math_abs_pinned_refuted_lemma. Qed.
Print Assumptions abs_pinned_refuted.

Theorem to_int_roundtrip_partial : forall z, in64 z -> z <> YR_UNDEFINED -> mod_to_int (print_dec z) = Some z.
Proof. exact to_int_roundtrip_lemma. Qed.
Print Assumptions to_int_roundtrip_partial.

Theorem to_int_roundtrip_refuted : exists z, in64 z /\ mod_to_int (print_dec z) <> Some z.
Proof. exact to_int_roundtrip_refuted_lemma. Qed.
Print Assumptions to_int_roundtrip_refuted.

(* string.to_int(s, 10) accepts exactly: C white space, an optional sign, one or more decimal digits up to the
   first NUL and nothing else, with the value inside int64 and different from the undefined pattern *)
Theorem to_int_base10_exact : forall s v,
  mod_to_int_base s 10 = Some v <-> (decimal_numeral (cstr s) v /\ in64 v /\ v <> YR_UNDEFINED).
Proof. exact to_int_base10_exact_lemma. Qed.
Print Assumptions to_int_base10_exact.

(* math.monte_carlo_pi(offset, length): the counts (groups, hits) the loop computes are those of the addressed
   bytes taken in groups of six from the start of the range - for any block structure; with
   addressed_bytes_exact_partition they do not depend on how contiguous memory is cut into blocks.  Only
   fabs((4.0 * hits / groups - PI) / PI) is left to the correspondence. *)
Theorem monte_carlo_data_exact : forall fixd bs off len,
  data_monte_carlo fixd bs off len = option_map mc_counts (addressed fixd bs off len).
Proof. exact data_monte_carlo_exact. Qed.
Print Assumptions monte_carlo_data_exact.

Theorem monte_carlo_counts_spec : forall l, mc_counts l = mc_spec l.
Proof. exact mc_counts_spec. Qed.
Print Assumptions monte_carlo_counts_spec.

Theorem monte_carlo_group_count : forall l, fst (mc_spec l) = N.of_nat (length l / 6).
Proof. exact (fun l => mc_spec_count (length l) l (le_n _)). Qed.
Print Assumptions monte_carlo_group_count.
