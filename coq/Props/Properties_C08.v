(* C08: saved rules behave identically once loaded (codec part).
   Proofs in Proofs/ArenaProofs.v and Proofs/ArenaMemProofs.v. *)
From Coq Require Import List NArith Lia.
From YV Require Import Base.Bytes Model.Arena Model.ArenaMem Proofs.ArenaProofs Proofs.ArenaMemProofs.
Import ListNotations.

(* loading what was saved gives back exactly the saved content: every buffer byte and the whole
   relocation list *)
Theorem load_save_roundtrip : forall a : arena,
  wf_arena a = true -> rules_load cfg_current (save cfg_current a) = LOk a.
Proof. exact load_save_roundtrip_proof. Qed.
Print Assumptions load_save_roundtrip.

(* the bytes written depend only on the address-free content of the in-memory arena, never on where its
   buffers happen to live (Model/ArenaMem.v models the arena with absolute pointers) *)
Theorem saved_bytes_address_free : forall c m m',
  slots_in (mrelocs m) (mbufs m) -> NoOv (mrelocs m) ->
  slots_in (mrelocs m') (mbufs m') -> NoOv (mrelocs m') ->
  abs m = abs m' -> save_mem c m = save_mem c m'.
Proof. exact save_address_free_proof. Qed.
Print Assumptions saved_bytes_address_free.
(* per image (checks/c08.py): wf_arena, layout_cert (every DECLARE_REFERENCE field of the table structs
   is registered for relocation) and byte-identical re-save by the model.  Not proved: that scanning the
   loaded rules equals scanning the original for all buffers (no full scan model); that is compared on
   generated buffers. *)
