(* C08: saved rules behave identically once loaded (codec part).
   Proofs in Proofs/ArenaProofs.v and Proofs/ArenaMemProofs.v. *)
From Coq Require Import List NArith Lia.
From YV Require Import Base.Bytes Model.Arena Proofs.ArenaProofs.
Import ListNotations.

(* loading what was saved gives back exactly the saved content: every buffer byte and the whole
   relocation list *)
Theorem load_save_roundtrip : forall a : arena,
  wf_arena a = true -> rules_load cfg_current (save cfg_current a) = LOk a.
Proof. exact load_save_roundtrip_proof. Qed.
Print Assumptions load_save_roundtrip.
