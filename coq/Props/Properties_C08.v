(* C08: saved rules behave identically once loaded (codec part).
   Proofs in Proofs/ArenaProofs.v and Proofs/ArenaMemProofs.v. *)
From Coq Require Import List NArith Lia.
From YV Require Import Base.Bytes Model.Arena Model.ArenaMem Model.Image Model.Verify Proofs.ArenaProofs Proofs.ArenaMemProofs Proofs.VerifyProofs.
Import ListNotations.

(* loading what was saved gives back exactly the saved content: every buffer byte and the whole
   relocation list *)
Theorem load_save_roundtrip : forall a : arena,
  wf_arena a = true -> rules_load cfg_current (save cfg_current a) = LOk a.
Proof. exact load_save_roundtrip_proof. Qed.
Print Assumptions load_save_roundtrip.

(* the bytes written depend only on the address-free content of the in-memory arena, never on where its
   buffers happen to live (Model/ArenaMem.v models the arena with absolute pointers) *)
Theorem saved_bytes_address_free : forall c m m',
  slots_in (mrelocs m) (mbufs m) -> NoOv (mrelocs m) ->
  slots_in (mrelocs m') (mbufs m') -> NoOv (mrelocs m') ->
  abs m = abs m' -> save_mem c m = save_mem c m'.
Proof. exact save_address_free_proof. Qed.
Print Assumptions saved_bytes_address_free.
(* what the scan model (Model/Verify.v: stored automaton + literal verifier + match list, proved exact in Properties_C01)
   records for any text string of the image and any buffer is the same before saving and after loading the saved bytes *)
Theorem text_scan_same_after_reload : forall (a a' : arena) sidx buf,
  wf_arena a = true -> rules_load cfg_current (save cfg_current a) = LOk a' ->
  scan_image_string (decode a') sidx buf = scan_image_string (decode a) sidx buf.
Proof. exact text_scan_same_after_reload_proof. Qed.
Print Assumptions text_scan_same_after_reload.

(* per image (checks/c08.py): wf_arena, layout_cert (every DECLARE_REFERENCE field of the table structs
   is registered for relocation) and byte-identical re-save by the model.  Not proved: that scanning the
   loaded rules equals scanning the original for regexp / hex strings and conditions (no scan model for them); that is
   compared on generated buffers. *)
