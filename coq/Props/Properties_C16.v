(* C16 (PARTIAL): allocation failure is reported, never suffered -- proved for the AllocLang translations
   (Model/AllocLang.v) of the arena, notebook, stack, hash-table functions and of the atom-list builders of atoms.c,
   for EVERY set [fails] of failing allocation indices (in particular "the k-th" and "the k-th and all later").
   Each theorem says: the function returns (never a fault: no use of a failed or freed block, no double free),
   with ERROR_INSUFFICIENT_MEMORY or success, and the live-allocation set afterwards is the one before plus exactly
   the blocks owned by the result (Permutation / exact list equations), so that the result is destroyable and
   nothing leaks.  NOT proved: every other allocation site of libyara (explored by injection in checks/c16.py),
   yr_scanner_create (modelled and tied, not proved), and that the C text is what the model says (tied by the
   function-level correspondence: return class, live-allocation delta and allocation count for every k). *)
From Coq Require Import List Arith Permutation.
From YV Require Import Model.AllocLang Proofs.AllocProofs.
Import ListNotations.

Theorem every_program_preserves_wf : forall fails c s o s', wf s -> exec fails c s = (o, s') ->
  wf s' /\ next s <= next s' /\ count s <= count s'.
Proof. exact exec_wf. Qed.
Print Assumptions every_program_preserves_wf.

Theorem atom_list_builders_fail_safe : forall fails ns src dst s,
  src <> dst -> (forall b, In b (lv s src) -> In b (live s)) ->
  exists s' new, exec fails (list_builder ns src dst) s = (Returned, s') /\
    live s' = new ++ live s /\ lv s' dst = new /\ (forall l', l' <> dst -> lv s' l' = lv s l') /\
    (forall y, y <> vNEW -> pv s' y = pv s y) /\
    ((rc s' = OK /\ length new = list_sum ns /\ count s' = count s + list_sum ns) \/
     (rc s' = ENOMEM /\ length new < list_sum ns /\ count s' <= count s + list_sum ns)).
Proof. exact list_builder_spec. Qed.
Print Assumptions atom_list_builders_fail_safe.

Theorem atoms_wide_xor_case_insensitive_are_builders :
  (forall src dst n, atoms_wide src dst n = list_builder (repeat 1 n) src dst) /\
  (forall src dst n a b, atoms_xor src dst n a b = list_builder (repeat (xor_iters a b) n) src dst) /\
  (forall src dst ns, atoms_case_insensitive src dst ns = list_builder ns src dst).
Proof. exact (conj atoms_wide_is (conj atoms_xor_is atoms_ci_is)). Qed.
Print Assumptions atoms_wide_xor_case_insensitive_are_builders.

Theorem extract_from_string_fail_safe : forall fails i s o s', wf s ->
  exec fails (extract_from_string i) s = (o, s') ->
  o = Returned /\ wf s' /\
  ((rc s' = OK /\ Permutation (live s') (lv s' lATOMS ++ live s) /\ NoDup (lv s' lATOMS) /\
    (forall b, In b (lv s' lATOMS) -> In b (live s'))) \/
   (rc s' = ENOMEM /\ Permutation (live s') (live s))).
Proof. exact extract_from_string_fail_safe_full. Qed.
Print Assumptions extract_from_string_fail_safe.

Theorem arena_create_fail_safe : forall fails s, exists s', exec fails arena_create s = (Returned, s') /\
  ((rc s' = OK /\ exists a, pv s' vARENA = Some a /\ lv s' lRELOCS = [] /\ live s' = a :: live s) \/
   (rc s' = ENOMEM /\ live s' = live s)).
Proof. exact arena_create_spec. Qed.
Print Assumptions arena_create_fail_safe.

Theorem arena_make_ptr_relocatable_fail_safe : forall fails n s a, pv s vARENA = Some a -> In a (live s) ->
  exists s' new, exec fails (arena_make_ptr_relocatable n) s = (Returned, s') /\ pv s' vARENA = Some a /\
    live s' = new ++ live s /\ lv s' lRELOCS = new ++ lv s lRELOCS /\
    ((rc s' = OK /\ length new = n) \/ (rc s' = ENOMEM /\ length new < n)).
Proof. exact arena_make_ptr_relocatable_spec. Qed.
Print Assumptions arena_make_ptr_relocatable_fail_safe.

Theorem arena_allocate_fail_safe : forall fails path buf s a, pv s vARENA = Some a -> In a (live s) ->
  (forall b, In b (lv s lRELOCS) -> In b (live s)) ->
  (forall d, pv s (vBUF buf) = Some d -> In d (live s) /\ d <> a /\ ~ In d (lv s lRELOCS)) ->
  exists s', exec fails (arena_allocate path buf) s = (Returned, s') /\
    ((rc s' = ENOMEM /\ live s' = live s /\ pv s' (vBUF buf) = pv s (vBUF buf)) \/
     (rc s' = OK /\ match path with
                    | Grow => exists d', pv s' (vBUF buf) = Some d' /\
                                match pv s (vBUF buf) with
                                | Some d => Permutation (d :: live s') (d' :: live s)
                                | None => live s' = d' :: live s
                                end
                    | _ => live s' = live s /\ pv s' (vBUF buf) = pv s (vBUF buf)
                    end)).
Proof. exact arena_allocate_spec. Qed.
Print Assumptions arena_allocate_fail_safe.

Theorem arena_release_frees_everything : forall fails nbuf s a frame, pv s vARENA = Some a ->
  Permutation (live s) (a :: buf_blocks s (seq 0 nbuf) ++ lv s lRELOCS ++ frame) ->
  exists s', exec fails (arena_release nbuf) s = (Returned, s') /\ rc s' = OK /\ Permutation (live s') frame.
Proof. exact arena_release_spec. Qed.
Print Assumptions arena_release_frees_everything.

Theorem notebook_create_fail_safe : forall fails s, exists s', exec fails notebook_create s = (Returned, s') /\
  ((rc s' = OK /\ exists n p, pv s' vNB = Some n /\ lv s' lPAGES = [p] /\ live s' = p :: n :: live s) \/
   (rc s' = ENOMEM /\ live s' = live s)).
Proof. exact notebook_create_spec. Qed.
Print Assumptions notebook_create_fail_safe.

Theorem notebook_alloc_fail_safe : forall fails needs s n, pv s vNB = Some n -> In n (live s) ->
  (forall b, In b (lv s lPAGES) -> In b (live s)) ->
  exists s', exec fails (notebook_alloc needs) s = (Returned, s') /\ pv s' vNB = Some n /\
  ((rc s' = OK /\ exists new, live s' = new ++ live s /\ lv s' lPAGES = new ++ lv s lPAGES /\ length new = (if needs then 1 else 0)) \/
   (rc s' = ENOMEM /\ live s' = live s /\ lv s' lPAGES = lv s lPAGES)).
Proof. exact notebook_alloc_spec. Qed.
Print Assumptions notebook_alloc_fail_safe.

Theorem notebook_destroy_frees_everything : forall fails s n frame, pv s vNB = Some n ->
  Permutation (live s) (n :: lv s lPAGES ++ frame) ->
  exists s', exec fails notebook_destroy s = (Returned, s') /\ rc s' = OK /\ Permutation (live s') frame.
Proof. exact notebook_destroy_spec. Qed.
Print Assumptions notebook_destroy_frees_everything.

Theorem stack_create_fail_safe : forall fails s, exists s', exec fails stack_create s = (Returned, s') /\
  ((rc s' = OK /\ exists a d, pv s' vSTACK = Some a /\ pv s' vITEMS = Some d /\ live s' = d :: a :: live s) \/
   (rc s' = ENOMEM /\ live s' = live s /\ pv s' vSTACK = None)).
Proof. exact stack_create_spec. Qed.
Print Assumptions stack_create_fail_safe.

Theorem stack_push_fail_safe : forall fails full s a d, wf s -> pv s vSTACK = Some a -> pv s vITEMS = Some d ->
  In a (live s) -> In d (live s) -> a <> d ->
  exists s', exec fails (stack_push full) s = (Returned, s') /\ pv s' vSTACK = Some a /\
  ((rc s' = OK /\ exists d', pv s' vITEMS = Some d' /\ In a (live s') /\ In d' (live s') /\ a <> d' /\
                  Permutation (d :: live s') (d' :: live s)) \/
   (rc s' = ENOMEM /\ live s' = live s /\ pv s' vITEMS = Some d)).
Proof. exact stack_push_spec. Qed.
Print Assumptions stack_push_fail_safe.

Theorem stack_destroy_frees_everything : forall fails s a d frame, pv s vSTACK = Some a -> pv s vITEMS = Some d ->
  Permutation (live s) (a :: d :: frame) -> a <> d ->
  exists s', exec fails stack_destroy s = (Normal, s') /\ Permutation (live s') frame.
Proof. exact stack_destroy_spec. Qed.
Print Assumptions stack_destroy_frees_everything.

Theorem hash_create_fail_safe : forall fails s, exists s', exec fails hash_create s = (Returned, s') /\
  ((rc s' = OK /\ exists t, pv s' vTABLE = Some t /\ lv s' lENTRIES = [] /\ live s' = t :: live s) \/
   (rc s' = ENOMEM /\ live s' = live s)).
Proof. exact hash_create_spec. Qed.
Print Assumptions hash_create_fail_safe.

Theorem hash_add_fail_safe : forall fails has_ns s t, pv s vTABLE = Some t -> In t (live s) ->
  exists s', exec fails (hash_add has_ns) s = (Returned, s') /\ pv s' vTABLE = Some t /\
  ((rc s' = OK /\ exists new, live s' = new ++ live s /\ lv s' lENTRIES = rev new ++ lv s lENTRIES /\
                  length new = (if has_ns then 3 else 2)) \/
   (rc s' = ENOMEM /\ live s' = live s /\ lv s' lENTRIES = lv s lENTRIES)).
Proof. exact hash_add_spec. Qed.
Print Assumptions hash_add_fail_safe.

Theorem hash_destroy_frees_everything : forall fails s t frame, pv s vTABLE = Some t ->
  Permutation (live s) (t :: lv s lENTRIES ++ frame) ->
  exists s', exec fails hash_destroy s = (Normal, s') /\ Permutation (live s') frame.
Proof. exact hash_destroy_spec. Qed.
Print Assumptions hash_destroy_frees_everything.
