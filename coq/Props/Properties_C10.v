(* C10: a scanner's results do not depend on its scan history.
   Statements only; proofs are in Proofs/ScannerProofs.v, the model ([step], [fresh], [hist_ok]) in
   Model/ScannerHist.v.  [oracle] is what one scan reports as a function of everything the engine
   reads (flags, timeout, input, externals, entry point seen, lingering match data of another scan);
   [modnames] are the identifiers of yr_modules_table.  The model is tied to /repo by checks/c10.py
   on every run (extracted model vs harness/h_hist on random histories, state fields included). *)
From Coq Require Import List NArith ZArith.
From YV Require Import gen.GenConsts Model.Externals Model.ScannerHist Proofs.ScannerProofs.
Import ListNotations.

(* The property in full ([history_independent_statement], [destroy_no_leak_statement] in
   Proofs/ScannerProofs.v):
     forall o h i sc nr, alive after h ->
       trace (step (run h (fresh o)) (Scan i sc nr)) = trace (step (run (settings of h) (fresh o)) (Scan i sc nr))
     forall o h, alive after h -> nothing stays allocated after Destroy.
   On the current tree the faithful model REFUTES the first: *)

(* 1. entry_point is set only when undefined (scanner.c 536) and never reset: [scan PE; scan text] *)
Theorem history_independent_refuted : ~ history_independent_statement [] toy_oracle.
Proof. exact history_independent_refuted_proof. Qed.
Print Assumptions history_independent_refuted.

(* 2. (was: a scan left at ERROR_BLOCK_NOT_READY and never resumed leaked its matches into the next scan
      and lost its notebook -- repaired in /repo by 8a2210d; the model follows the repaired code and
      abandoned suspensions are now inside the theorems below) *)

(* 3. an external variable with the name of a module is removed from objects_table by
      yr_modules_unload_all at the end of the first scan *)
Theorem history_independent_refuted_module_name : ~ history_independent_statement [7%N] toy_oracle_x.
Proof. exact history_independent_refuted_module_name_proof. Qed.
Print Assumptions history_independent_refuted_module_name.

(* What holds, for every rule set (oracle), every module table, ALL histories of scans (completed,
   aborted or failed from the callback, timed out, suspended and resumed or abandoned), setting
   changes and defines that do not crash ([hist_ok]: no NULL string), whose externals are not named
   like modules: the ONLY channel from the history into a scan is the entry_point field. *)
Theorem history_independent_partial :
  forall modnames oracle o h i sc nr,
  no_module_names modnames o = true ->
  hist_ok modnames oracle (fresh o) (h ++ [Scan i sc nr]) = true ->
  st_alive (run_state modnames oracle (fresh o) h) = true ->
  snd (step modnames oracle (run_state modnames oracle (fresh o) h) (Scan i sc nr)) =
  snd (step modnames oracle
         (with_ep (run_state modnames oracle (fresh o) (filter is_setting h))
                  (st_ep (run_state modnames oracle (fresh o) h)))
         (Scan i sc nr)).
Proof. exact history_independent_partial_proof. Qed.
Print Assumptions history_independent_partial.

(* ... so the property holds as stated as long as no entry point was recorded *)
Theorem history_independent_no_entry_point :
  forall modnames oracle o h i sc nr,
  no_module_names modnames o = true ->
  hist_ok modnames oracle (fresh o) (h ++ [Scan i sc nr]) = true ->
  st_alive (run_state modnames oracle (fresh o) h) = true ->
  st_ep (run_state modnames oracle (fresh o) h) = None ->
  snd (step modnames oracle (run_state modnames oracle (fresh o) h) (Scan i sc nr)) =
  snd (step modnames oracle (run_state modnames oracle (fresh o) (filter is_setting h)) (Scan i sc nr)).
Proof. exact history_independent_no_entry_point_proof. Qed.
Print Assumptions history_independent_no_entry_point.

(* the invariant of the induction: between scans every per-scan field is at its initial value *)
Theorem between_scans_clean :
  forall modnames oracle o h,
  no_module_names modnames o = true -> hist_ok modnames oracle (fresh o) h = true ->
  st_alive (run_state modnames oracle (fresh o) h) = true ->
  st_susp (run_state modnames oracle (fresh o) h) = None ->
  let s := run_state modnames oracle (fresh o) h in
  st_matches s = [] /\ st_unconfirmed s = [] /\ st_required s = [] /\ st_notebook s = None /\
  st_rule_flags s = [] /\ st_ns_unsat s = [] /\ st_disabled s = [] /\ st_mods s = [] /\ st_leaked s = 0%nat.
Proof. exact between_scans_clean_proof. Qed.
Print Assumptions between_scans_clean.

Theorem destroy_any_prefix_no_leak_partial :
  forall modnames oracle o h,
  no_module_names modnames o = true ->
  hist_ok modnames oracle (fresh o) (h ++ [Destroy]) = true ->
  st_alive (run_state modnames oracle (fresh o) h) = true ->
  heap_live (fst (step modnames oracle (run_state modnames oracle (fresh o) h) Destroy)) = 0%nat.
Proof. exact destroy_no_leak_partial_proof. Qed.
Print Assumptions destroy_any_prefix_no_leak_partial.

(* destroy after any prefix, also while a scan waits for a block, leaves nothing allocated: the
   hypotheses are those of the theorem above (the scanner model has no other owner of memory; the
   engine's own allocations during a scan are outside the model and are checked with ASan) *)
(* non-vacuity: a history with PE, suspended-and-resumed, aborted, failed and timed-out scans
   satisfies the hypotheses (and records an entry point) *)
Example c10_hypotheses_satisfiable :
  no_module_names [7%N] [(5%N, PI 3)] = true /\
  hist_ok [7%N] toy_oracle (fresh [(5%N, PI 3)]) (example_history ++ [Scan inp_text [] None]) = true /\
  hist_ok [7%N] toy_oracle (fresh [(5%N, PI 3)]) (example_history ++ [Destroy]) = true /\
  st_alive (run_state [7%N] toy_oracle (fresh [(5%N, PI 3)]) example_history) = true.
Proof. destruct hypotheses_satisfiable as (A & B & C & D & _). auto. Qed.

(* ... and one that abandons a suspended scan and is destroyed while another one waits *)
Example c10_abandon_satisfiable :
  hist_ok [] toy_oracle (fresh []) ([Scan inp_blocks [] (Some 1%nat); Scan inp_text [] None; Scan inp_blocks [] (Some 1%nat)] ++ [Destroy]) = true /\
  snd (run [] toy_oracle (fresh []) [Scan inp_blocks [] (Some 1%nat); Scan inp_text [] None; Scan inp_blocks [] (Some 1%nat); Destroy]) =
    [TScan [] ERROR_BLOCK_NOT_READY; TScan [(KRule, 0%N); (KRule, 10%N); (KFinished, 0%N)] 0; TScan [] ERROR_BLOCK_NOT_READY; TDestroyed 0].
Proof. vm_compute. split; reflexivity. Qed.
