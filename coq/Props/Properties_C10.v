(* C10: a scanner's results do not depend on its scan history.
   Statements only; proofs are in Proofs/ScannerProofs.v, the model ([step], [fresh]) in
   Model/ScannerHist.v.  [oracle] is what one scan reports as a function of everything the engine
   reads (flags, timeout, input, externals, entry point seen, lingering match data of another scan);
   [modnames] are the identifiers of yr_modules_table; [cfg_current] is the code as it is in /repo now,
   [cfg_pinned] the code of the pinned commit.  The model is tied to /repo by checks/c10.py on every
   run (extracted model vs harness/h_hist on random histories, state fields included). *)
From Coq Require Import List NArith ZArith.
From YV Require Import gen.GenConsts Model.Externals Model.ScannerHist Proofs.ScannerProofs.
Import ListNotations.

(* for every rule set (oracle), every module table, every externals snapshot, ALL histories h of scans
   (completed, aborted or failed from the callback at any message, timed out, stopped by too many
   matches, suspended by a not-ready block and resumed or abandoned), flag / timeout changes and
   external definitions (valid or rejected), and every scan (input, callback script, not-ready answer):
   the scan reports after h what it reports on a freshly created scanner given the same settings *)
Theorem history_independent :
  forall modnames oracle (o : objs) (h : list op) (i : input) (sc : script) (nr : option nat),
    st_alive (run_state cfg_current modnames oracle (fresh o) h) = true ->
    snd (step cfg_current modnames oracle (run_state cfg_current modnames oracle (fresh o) h) (Scan i sc nr)) =
    snd (step cfg_current modnames oracle (run_state cfg_current modnames oracle (fresh o) (filter is_setting h)) (Scan i sc nr)).
Proof. exact history_independent_proof. Qed.
Print Assumptions history_independent.

(* the invariant of the induction: between scans every per-scan field is at its initial value *)
Theorem between_scans_clean :
  forall modnames oracle o h,
  st_alive (run_state cfg_current modnames oracle (fresh o) h) = true ->
  st_susp (run_state cfg_current modnames oracle (fresh o) h) = None ->
  let s := run_state cfg_current modnames oracle (fresh o) h in
  st_matches s = [] /\ st_unconfirmed s = [] /\ st_required s = [] /\ st_notebook s = None /\
  st_rule_flags s = [] /\ st_ns_unsat s = [] /\ st_disabled s = [] /\ st_mods s = [] /\ st_leaked s = 0%nat.
Proof. exact between_scans_clean_proof. Qed.
Print Assumptions between_scans_clean.

(* flags, timeout and externals are exactly what the setting operations made them, whatever was scanned
   (also externals that carry the name of a module) *)
Theorem settings_survive :
  forall modnames oracle o h,
  st_alive (run_state cfg_current modnames oracle (fresh o) h) = true ->
  let s := run_state cfg_current modnames oracle (fresh o) h in
  let s' := run_state cfg_current modnames oracle (fresh o) (filter is_setting h) in
  st_flags s = st_flags s' /\ st_timeout s = st_timeout s' /\ st_objs s = st_objs s'.
Proof. exact settings_survive_proof. Qed.
Print Assumptions settings_survive.

(* the scanner destroyed after any prefix -- also while a scan waits for a block -- owns and has lost nothing
   (the scanner model; what the engine allocates during a scan is checked with ASan by checks/c10.py) *)
Theorem destroy_any_prefix_no_leak :
  forall modnames oracle (o : objs) (h : list op),
    st_alive (run_state cfg_current modnames oracle (fresh o) h) = true ->
    heap_live (fst (step cfg_current modnames oracle (run_state cfg_current modnames oracle (fresh o) h) Destroy)) = 0%nat.
Proof. exact destroy_no_leak_proof. Qed.
Print Assumptions destroy_any_prefix_no_leak.

(* the pinned commit: entry_point was set only when undefined and never reset (repaired by c92ef8f) ... *)
Theorem history_independent_pinned_refuted : ~ history_independent_statement cfg_pinned [] toy_oracle.
Proof. exact history_independent_pinned_refuted_proof. Qed.
Print Assumptions history_independent_pinned_refuted.

(* ... and an external variable with the name of a module was removed by yr_modules_unload_all (repaired by 9d2571f) *)
Theorem history_independent_pinned_refuted_module_name : ~ history_independent_statement cfg_pinned [7%N] toy_oracle_x.
Proof. exact history_independent_pinned_refuted_module_name_proof. Qed.
Print Assumptions history_independent_pinned_refuted_module_name.

(* non-vacuity: a history with a PE, suspended-and-resumed, aborted, failed, timed-out and abandoned scans,
   a rejected define and an external named like a module is alive, ends suspended, and is destroyed clean *)
Example c10_hypotheses_satisfiable :
  st_alive (run_state cfg_current [7%N] toy_oracle (fresh [(5%N, PI 3); (7%N, PI 1)]) example_history) = true /\
  st_susp (run_state cfg_current [7%N] toy_oracle (fresh [(5%N, PI 3); (7%N, PI 1)]) example_history) <> None /\
  snd (step cfg_current [7%N] toy_oracle (run_state cfg_current [7%N] toy_oracle (fresh [(5%N, PI 3); (7%N, PI 1)]) example_history) Destroy)
    = TDestroyed 0.
Proof. destruct hypotheses_satisfiable as (A & _ & C & _ & E). auto. Qed.
