(* C07 (proved fragment): compile-time evaluation of constant expressions never executes a trapping
   operation (division by zero, INT64_MIN / -1, out-of-range shift), for all int64 operands.
   gen/GenFold.v is regenerated from libyara/grammar.y on every run. *)
From Coq Require Import ZArith.
From YV Require Import gen.GenConsts Base.CSem gen.GenFold Proofs.FoldProofs.
Local Open Scope Z_scope.

Theorem fold_never_traps : forall a b, in64 a -> in64 b ->
  fold_add a b <> FTrap /\ fold_sub a b <> FTrap /\ fold_mul a b <> FTrap /\ fold_div a b <> FTrap /\
  fold_mod a b <> FTrap /\ fold_bxor a b <> FTrap /\ fold_band a b <> FTrap /\ fold_bor a b <> FTrap /\
  fold_shl a b <> FTrap /\ fold_shr a b <> FTrap.
Proof.
  intros a b Ha Hb.
  exact (conj (fold_add_no_trap a b Ha Hb) (conj (fold_sub_no_trap a b Ha Hb) (conj (fold_mul_no_trap a b Ha Hb)
        (conj (fold_div_no_trap a b Ha Hb) (conj (fold_mod_no_trap a b Ha Hb) (conj (fold_bxor_no_trap a b Ha Hb)
        (conj (fold_band_no_trap a b Ha Hb) (conj (fold_bor_no_trap a b Ha Hb) (conj (fold_shl_no_trap a b Ha Hb)
        (fold_shr_no_trap a b Ha Hb)))))))))).
Qed.
Print Assumptions fold_never_traps.
