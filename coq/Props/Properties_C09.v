(* C09: concurrent scans that share one rule set are race-free and deterministic.   *** PARTIAL ***
   Statements only; proofs in Proofs/ConcurrentProofs.v; model in Model/Concurrent.v (interleaving semantics: shared
   rules, the process-wide SIGBUS disposition, exception_handler_usecount, exception_handler_mutex, one local state
   per thread; YR_TRYCATCH entry / exit as the five atomic steps each of exception.h:243-266 / 278-289).

   What is proved is about the model: for EVERY step function (scan_step / create / define are universally
   quantified: any computation that reads the rules and its own scanner), every number of threads and every schedule.
   That a real scan IS such a step - it reads the rules' arena and writes only memory owned by its scanner - is the
   frame fact checked on the implementation on every run by checks/c09.py (rules arena mprotect-ed read-only while
   1..32 threads scan; every thread's callback trace equal to the trace of the same scan alone; the counter and the
   signal disposition observed at rendezvous points; ThreadSanitizer).  Data races below the model (libc, OpenSSL,
   rand() in yr_scanner_create, thread-local storage) are observed by those monitors, not proved absent. *)
From Coq Require Import List ZArith NArith.
From YV Require Import Model.Concurrent Proofs.ConcurrentProofs.
Import ListNotations.
Local Open Scope Z_scope.

(* For every schedule (any interleaving, any number of threads, threads waiting for the mutex included) of programs
   that do not write the shared rules, do not call sigaction themselves and use the real YR_TRYCATCH: if thread t has
   finished, its final local state (its scanner with everything the scan reported, its TLS slot, its nesting depth)
   is exactly the state it reaches when it runs ALONE from the same initial state; and the rules are unchanged. *)
Theorem scans_noninterfering :
  forall (R C A X V : Type) (scan_step : R -> A -> C -> C) (create : R -> C) (define : X -> V -> C -> C)
         (g0 : gstate R C A X V) (sched : list nat) (t : nat) (l0 lf : local R C A X V),
  all_clean R C A X V g0 -> g_mutex _ _ _ _ _ g0 = None ->
  nth_error (g_locals _ _ _ _ _ g0) t = Some l0 ->
  nth_error (g_locals _ _ _ _ _ (run R C A X V scan_step create define sched g0)) t = Some lf ->
  finished _ _ _ _ _ lf = true ->
  nth_error (g_locals _ _ _ _ _ (run R C A X V scan_step create define (repeat t (fuel_of _ _ _ _ _ l0)) g0)) t = Some lf /\
  lf = alone R C A X V scan_step create define (g_rules _ _ _ _ _ g0) l0 (fuel_of _ _ _ _ _ l0) /\
  g_rules _ _ _ _ _ (run R C A X V scan_step create define sched g0) = g_rules _ _ _ _ _ g0.
Proof. exact scans_noninterfering_proof. Qed.
Print Assumptions scans_noninterfering.

(* the frame property behind it, step by step: a step of thread t leaves the rules and every other thread's local
   state untouched, and does to t's own state what lstep (a function of the rules and that state only) says *)
Theorem scan_steps_write_only_their_own_context :
  forall (R C A X V : Type) (scan_step : R -> A -> C -> C) (create : R -> C) (define : X -> V -> C -> C)
         (t : nat) (g : gstate R C A X V),
  all_clean R C A X V g ->
  all_clean R C A X V (gstep R C A X V scan_step create define t g) /\
  g_rules _ _ _ _ _ (gstep R C A X V scan_step create define t g) = g_rules _ _ _ _ _ g /\
  (forall u, u <> t -> nth_error (g_locals _ _ _ _ _ (gstep R C A X V scan_step create define t g)) u =
                       nth_error (g_locals _ _ _ _ _ g) u) /\
  (forall l, nth_error (g_locals _ _ _ _ _ g) t = Some l ->
     nth_error (g_locals _ _ _ _ _ (gstep R C A X V scan_step create define t g)) t = Some l \/
     nth_error (g_locals _ _ _ _ _ (gstep R C A X V scan_step create define t g)) t =
       Some (lstep R C A X V scan_step create define (g_rules _ _ _ _ _ g) 0 l)).
Proof. exact gstep_frame. Qed.
Print Assumptions scan_steps_write_only_their_own_context.

(* a thread on its own always runs to completion (so the right-hand side above is a finished state: non-vacuity
   of "the result of running that thread's steps alone") *)
Theorem alone_run_finishes :
  forall (R C A X V : Type) (scan_step : R -> A -> C -> C) (create : R -> C) (define : X -> V -> C -> C)
         (r : R) (l : local R C A X V),
  finished _ _ _ _ _ (alone R C A X V scan_step create define r l (fuel_of _ _ _ _ _ l)) = true.
Proof. exact alone_finishes. Qed.
Print Assumptions alone_run_finishes.

(* The handler protocol.  Programs: well bracketed, at most mx sections nested (bal).  After EVERY schedule prefix:
   the counter equals the sum over the threads of the sections each has open (counted from its increment to its
   decrement); only the owner of the mutex is inside the critical section; whenever nobody is in the middle of the
   critical section, the handler is installed iff the counter is positive, otherwise the ORIGINAL handler is in
   place, and the saved handler is the original one; when all threads have finished: original handler, counter 0,
   mutex free. *)
Theorem handler_protocol :
  forall (R C A X V : Type) (scan_step : R -> A -> C -> C) (create : R -> C) (define : X -> V -> C -> C)
         (mx : nat) (r : R) (n : nat) (progs : list (list (mop R C A X V))) (sched : list nat),
  Forall (fun p => bal R C A X V mx 0 None p = true) progs ->
  let g := run R C A X V scan_step create define sched (init R C A X V r (HApp n) progs) in
  g_count _ _ _ _ _ g = sumz R C A X V (g_locals _ _ _ _ _ g) /\
  (forall u l, nth_error (g_locals _ _ _ _ _ g) u = Some l -> 0 <= contrib R C A X V l <= Z.of_nat mx) /\
  (forall u l, nth_error (g_locals _ _ _ _ _ g) u = Some l -> in_crit R C A X V l = true -> g_mutex _ _ _ _ _ g = Some u) /\
  (g_mutex _ _ _ _ _ g = None ->
     (installed _ _ _ _ _ g = true <-> g_count _ _ _ _ _ g > 0) /\
     (g_count _ _ _ _ _ g = 0 -> g_handler _ _ _ _ _ g = HApp n) /\
     (g_count _ _ _ _ _ g > 0 -> g_old _ _ _ _ _ g = HApp n)) /\
  (all_finished _ _ _ _ _ g = true ->
     g_handler _ _ _ _ _ g = HApp n /\ g_count _ _ _ _ _ g = 0 /\ g_mutex _ _ _ _ _ g = None).
Proof. exact handler_protocol_proof. Qed.
Print Assumptions handler_protocol.

(* without nesting (mx = 1: libyara's own calls never nest) the counter is the NUMBER OF THREADS inside a section *)
Theorem handler_count_is_threads_inside :
  forall (R C A X V : Type) (scan_step : R -> A -> C -> C) (create : R -> C) (define : X -> V -> C -> C)
         (r : R) (n : nat) (progs : list (list (mop R C A X V))) (sched : list nat),
  Forall (fun p => bal R C A X V 1 0 None p = true) progs ->
  let g := run R C A X V scan_step create define sched (init R C A X V r (HApp n) progs) in
  g_count _ _ _ _ _ g = Z.of_nat (length (filter (inside R C A X V) (g_locals _ _ _ _ _ g))).
Proof. exact handler_count_is_threads_inside_proof. Qed.
Print Assumptions handler_count_is_threads_inside.

(* ... and each thread's TLS slot points to the jumpinfo of the section it is in, and is NULL outside *)
Theorem tls_points_to_own_frame :
  forall (R C A X V : Type) (scan_step : R -> A -> C -> C) (create : R -> C) (define : X -> V -> C -> C)
         (r : R) (n : nat) (progs : list (list (mop R C A X V))) (sched : list nat),
  Forall (fun p => bal R C A X V 1 0 None p = true) progs ->
  forall u l, nth_error (g_locals _ _ _ _ _ (run R C A X V scan_step create define sched (init R C A X V r (HApp n) progs))) u = Some l ->
    tlsinv R C A X V l.
Proof. exact tls_points_to_own_frame_proof. Qed.
Print Assumptions tls_points_to_own_frame.

(* the calls libyara itself makes have that shape, whatever the blocks and whatever the error test *)
Theorem scan_calls_are_well_bracketed :
  forall (R C A X V : Type) (ok : R -> option C -> bool) (blocks : list A) (exec report : A),
  bal R C A X V 1 0 None (scan_call R C A X V ok blocks exec report) = true /\
  bal R C A X V 1 0 None (scan_call_notry R C A X V ok blocks exec report) = true.
Proof. exact scan_calls_bal. Qed.
Print Assumptions scan_calls_are_well_bracketed.

(* a scanner-level definition of an external variable changes the defining thread's scanner and nothing else: not
   the rules, not the handler state, no other thread's local state *)
Theorem externals_private :
  forall (R C A X V : Type) (scan_step : R -> A -> C -> C) (create : R -> C) (define : X -> V -> C -> C)
         (t : nat) (g : gstate R C A X V) ctx x v p m d tls reg,
  nth_error (g_locals _ _ _ _ _ g) t = Some (mkLocal _ _ _ _ _ ctx (MDefine x v :: p) m d tls false reg) ->
  let g' := gstep R C A X V scan_step create define t g in
  g_rules _ _ _ _ _ g' = g_rules _ _ _ _ _ g /\ g_handler _ _ _ _ _ g' = g_handler _ _ _ _ _ g /\
  g_old _ _ _ _ _ g' = g_old _ _ _ _ _ g /\ g_count _ _ _ _ _ g' = g_count _ _ _ _ _ g /\
  g_mutex _ _ _ _ _ g' = g_mutex _ _ _ _ _ g /\
  (forall u, u <> t -> nth_error (g_locals _ _ _ _ _ g') u = nth_error (g_locals _ _ _ _ _ g) u) /\
  nth_error (g_locals _ _ _ _ _ g') t = Some (mkLocal _ _ _ _ _ (option_map (define x v) ctx) p 0 d tls false reg).
Proof. exact externals_private_proof. Qed.
Print Assumptions externals_private.

(* ---------------------------------------------------------------------------------------------- non-vacuity *)
(* three threads over two rules: externals 10 / -5 / default, the second thread's scan ends in an error in its
   second block (the second try section and the report are skipped), the third uses SCAN_FLAGS_NO_TRYCATCH.
   The premises hold, an interleaved schedule finishes all of them, the results are the ones of the solo runs. *)
Example c09_premises_satisfiable :
  Forall (fun p => i_bal 1 0 None p = true) ex_progs /\
  all_finished _ _ _ _ _ (i_run ex_sched ex_g0) = true /\
  ex_ctx (i_run ex_sched ex_g0) 0 = Some (mkICtx 10 false [1; 1; 1; 1; 1; 0; 1; 1]) /\
  ex_ctx (i_run ex_sched ex_g0) 1 = Some (mkICtx (-5) true [0; 0]) /\
  ex_ctx (i_run ex_sched ex_g0) 2 = Some (mkICtx 0 false [0; 0; 0; 0; 0; 0]) /\
  (forall t, (t < 3)%nat -> ex_ctx (i_run ex_sched ex_g0) t = ex_ctx (i_run (repeat t 200) ex_g0) t).
Proof. exact ex_premises. Qed.

Example c09_two_threads_inside :
  let g := i_run (firstn 24 ex_sched) ex_g0 in
  g_count _ _ _ _ _ g = 2 /\ installed _ _ _ _ _ g = true /\ g_mutex _ _ _ _ _ g = None /\
  map i_contrib (g_locals _ _ _ _ _ g) = [1; 1; 0].
Proof. exact ex_prefix. Qed.

(* ------------------------------------------------------------ what the premises exclude (each one a witness) *)
(* yr_rule_disable / yr_rules_define_xxx write the shared rules: with one of them in flight the result of another
   thread's scan depends on the schedule *)
Theorem rules_level_write_refutes_determinism :
  all_finished _ _ _ _ _ (i_run [0; 0; 1]%nat (i_init ex_rules (HApp 0) w_write_progs)) = true /\
  all_finished _ _ _ _ _ (i_run [1; 0; 0]%nat (i_init ex_rules (HApp 0) w_write_progs)) = true /\
  ex_ctx (i_run [0; 0; 1]%nat (i_init ex_rules (HApp 0) w_write_progs)) 0 = Some (mkICtx 0 false [1; 0]) /\
  ex_ctx (i_run [1; 0; 0]%nat (i_init ex_rules (HApp 0) w_write_progs)) 0 = Some (mkICtx 0 false [0]).
Proof. exact w_rules_write_interferes. Qed.

(* a variable with static storage duration in a module is shared state too (Model/Concurrent.v, "What a scan may write"):
   a console.log that formats into a static buffer hands scanner A the text of scanner B *)
Theorem module_static_buffer_refutes_noninterference :
  let g0 := i_init [(0, false)] (HApp 0) w_static_progs in
  all_finished _ _ _ _ _ (i_run [0; 0; 0; 1; 1; 1; 0; 1]%nat g0) = true /\
  ex_ctx (i_run [0; 0; 0; 1; 1; 1; 0; 1]%nat g0) 0 = Some (mkICtx 1111 false [0]) /\
  ex_ctx (i_run (repeat 0%nat 4) g0) 0 = Some (mkICtx 1111 false [1]) /\
  ex_ctx (i_run [0; 0; 0; 1; 1; 1; 0; 1]%nat g0) 1 = ex_ctx (i_run (repeat 1%nat 4) g0) 1.
Proof. exact w_static_buffer_interferes. Qed.

(* the self-test change "exception_handler_usecount++ outside the mutex" breaks handler_protocol in the model *)
Theorem increment_outside_mutex_refutes_protocol :
  let g0 := i_init ex_rules (HApp 0) w_racy_progs in
  (g_count _ _ _ _ _ (i_run w_racy_sched1 g0) = 1 /\ g_old _ _ _ _ _ (i_run w_racy_sched1 g0) = HYara /\
   map (l_depth _ _ _ _ _) (g_locals _ _ _ _ _ (i_run w_racy_sched1 g0)) = [1; 1]%nat) /\
  (g_count _ _ _ _ _ (i_run w_racy_sched2 g0) = 0 /\ g_mutex _ _ _ _ _ (i_run w_racy_sched2 g0) = None /\
   map (l_depth _ _ _ _ _) (g_locals _ _ _ _ _ (i_run w_racy_sched2 g0)) = [0; 1]%nat) /\
  (all_finished _ _ _ _ _ (i_run w_racy_sched3 g0) = true /\ g_count _ _ _ _ _ (i_run w_racy_sched3 g0) = -1 /\
   g_handler _ _ _ _ _ (i_run w_racy_sched3 g0) = HYara).
Proof. exact w_racy_enter_breaks_protocol. Qed.

(* the handler is process wide: what the application installs while a scan is in flight is overwritten *)
Theorem application_handler_installed_during_scan_is_lost :
  let g0 := i_init ex_rules (HApp 0) w_app_progs in
  g_handler _ _ _ _ _ (i_run [0; 0; 0; 0; 0; 1; 0; 0; 0; 0; 0]%nat g0) = HApp 0 /\
  g_handler _ _ _ _ _ (i_run [1; 0; 0; 0; 0; 0; 0; 0; 0; 0; 0]%nat g0) = HApp 7.
Proof. exact w_application_handler_lost. Qed.

(* a scan started from a callback that runs inside yr_execute_code nests two YR_TRYCATCH on one thread: the counter
   protocol still holds (handler_protocol, mx = 2) but the outer section loses its jump buffer *)
Theorem nested_trycatch_loses_outer_jump_buffer :
  let g := i_run (repeat 0%nat 15) (i_init ex_rules (HApp 0) w_nested_progs) in
  map (l_depth _ _ _ _ _) (g_locals _ _ _ _ _ g) = [1%nat] /\ map (l_tls _ _ _ _ _) (g_locals _ _ _ _ _ g) = [None] /\
  installed _ _ _ _ _ g = true /\ i_bal 2 0 None (hd [] w_nested_progs) = true.
Proof. exact w_nested_try_loses_jump_buffer. Qed.
