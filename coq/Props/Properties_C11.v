(* C11: the scan callback protocol is exact.
   Statements only; proofs in Proofs/ReportProofs.v; model in Model/Report.v (tied to scanner.c / exec.c /
   modules.c by checks/c11.py on every run); declarative vocabulary in Spec/ReportSpec.v:
     rp_trace / rp_ret imports rules f sc   messages and return code of a scan, for the callback script sc
     expected f rules                       one message per non-private rule in definition order, RMatch i when
                                            [verdict] (= rule_holds) and the MATCHING flag is on, RNoMatch i
                                            when not and the NOT_MATCHING flag is on
     rp_full imports rules f                module pairs ++ expected ++ [RFinished]
     rp_stops sc k m                        the answer to the k-th message m stops the scan
   Every statement is for all import lists, all rule lists (any mix of global / private / disabled rules over
   any namespaces), all flag words and all scripts (nat -> Z). *)
From Coq Require Import List ZArith Lia.
From YV Require Import gen.GenConsts Model.Report Spec.ReportSpec Proofs.ReportProofs.
Import ListNotations.

(* the model is exactly "walk the declarative message list, stop right after the first stopping answer" *)
Theorem protocol_is_cut_of_full_list : forall imports rules f sc,
  rp_scan_o imports rules f sc = rp_cut sc 0 (rp_full imports rules f).
Proof. exact scan_is_cut. Qed.
Print Assumptions protocol_is_cut_of_full_list.

(* in every scan the rule messages are a prefix of [expected] (so: at most once each, in definition order,
   filtered by the flags); in a scan that reaches SCAN_FINISHED they are all of it (exactly once each) *)
Theorem each_nonprivate_once_in_order : forall imports rules f sc,
  (exists n, rule_part (rp_trace imports rules f sc) = firstn n (expected f rules)) /\
  (In RFinished (rp_trace imports rules f sc) -> rule_part (rp_trace imports rules f sc) = expected f rules).
Proof. exact each_nonprivate_once_in_order_proof. Qed.
Print Assumptions each_nonprivate_once_in_order.

(* ... and with both report flags on, [expected] names exactly the non-private rules, ascending *)
Theorem expected_lists_every_nonprivate_rule : forall f all rules i0,
  rp_rep_m f = true -> rp_rep_n f = true ->
  map msg_index (expected_from f all rules i0) =
  map fst (filter (fun ir => negb (rp_private (snd ir))) (combine (seq i0 (length rules)) rules)).
Proof. exact expected_indices. Qed.
Print Assumptions expected_lists_every_nonprivate_rule.

Theorem private_never : forall imports rules f sc i,
  In (RMatch i) (rp_trace imports rules f sc) \/ In (RNoMatch i) (rp_trace imports rules f sc) ->
  exists r, nth_error rules i = Some r /\ rp_private r = false.
Proof. exact private_never_proof. Qed.
Print Assumptions private_never.

(* SCAN_FINISHED is sent iff no delivered message got a stopping answer; when sent it is the last message
   and occurs once *)
Theorem finished_last_iff_not_aborted : forall imports rules f sc,
  (In RFinished (rp_trace imports rules f sc) <-> ~ answers_stop sc (rp_trace imports rules f sc)) /\
  (In RFinished (rp_trace imports rules f sc) ->
   exists pre, rp_trace imports rules f sc = pre ++ [RFinished] /\ ~ In RFinished pre).
Proof. exact finished_last_iff_not_aborted_proof. Qed.
Print Assumptions finished_last_iff_not_aborted.

(* rule_holds all r := the rule's condition holds (and it is not disabled) and every global rule of its
   namespace, wherever defined, holds *)
Theorem matching_iff_cond_and_globals : forall imports rules f sc i,
  (In (RMatch i) (rp_trace imports rules f sc) -> exists r, nth_error rules i = Some r /\ rule_holds rules r) /\
  (In (RNoMatch i) (rp_trace imports rules f sc) -> exists r, nth_error rules i = Some r /\ ~ rule_holds rules r) /\
  (In RFinished (rp_trace imports rules f sc) -> forall r, nth_error rules i = Some r -> rp_private r = false ->
     (In (RMatch i) (rp_trace imports rules f sc) <-> (rp_rep_m (rp_set_flags f) = true /\ rule_holds rules r)) /\
     (In (RNoMatch i) (rp_trace imports rules f sc) <-> (rp_rep_n (rp_set_flags f) = true /\ ~ rule_holds rules r))).
Proof. exact matching_iff_cond_and_globals_proof. Qed.
Print Assumptions matching_iff_cond_and_globals.

(* unless a module message is answered with CALLBACK_ERROR: one IMPORT_MODULE / MODULE_IMPORTED pair per
   distinct module (whatever the number of import statements and namespaces), whether or not the scan is
   later stopped in the report loop *)
Theorem import_pair_once_per_module : forall imports rules f sc,
  (forall k, k < length (module_msgs imports) -> rp_is_error (sc k) = false) ->
  module_part (rp_trace imports rules f sc) = flat_map (fun m => [RImport m; RImported m]) (dedup imports []) /\
  NoDup (dedup imports []) /\ (forall m, In m (dedup imports []) <-> In m imports).
Proof. exact import_pair_once_per_module_proof. Qed.
Print Assumptions import_pair_once_per_module.

Theorem abort_stops_with_success : forall imports rules f sc k m,
  nth_error (rp_full imports rules f) k = Some m -> is_rule_msg m = true ->
  (forall j m', j < k -> nth_error (rp_full imports rules f) j = Some m' -> rp_stops sc j m' = None) ->
  sc k = CALLBACK_ABORT ->
  rp_scan imports rules f sc = (firstn (S k) (rp_full imports rules f), ERROR_SUCCESS) /\
  ~ In RFinished (firstn (S k) (rp_full imports rules f)).
Proof. exact abort_stops_with_success_proof. Qed.
Print Assumptions abort_stops_with_success.

Theorem error_stops_with_callback_error : forall imports rules f sc k m,
  nth_error (rp_full imports rules f) k = Some m -> is_rule_msg m = true ->
  (forall j m', j < k -> nth_error (rp_full imports rules f) j = Some m' -> rp_stops sc j m' = None) ->
  sc k = CALLBACK_ERROR ->
  rp_scan imports rules f sc = (firstn (S k) (rp_full imports rules f), ERROR_CALLBACK_ERROR) /\
  ~ In RFinished (firstn (S k) (rp_full imports rules f)).
Proof. exact error_stops_with_callback_error_proof. Qed.
Print Assumptions error_stops_with_callback_error.

Theorem module_error_fails_scan : forall imports rules f sc k m,
  nth_error (rp_full imports rules f) k = Some m -> is_module_msg m = true ->
  (forall j, j < k -> rp_is_error (sc j) = false) ->
  sc k = CALLBACK_ERROR ->
  rp_scan imports rules f sc = (firstn (S k) (module_msgs imports), ERROR_CALLBACK_ERROR) /\
  rule_part (firstn (S k) (module_msgs imports)) = [] /\
  ~ In RFinished (firstn (S k) (module_msgs imports)).
Proof. exact module_error_fails_scan_proof. Qed.
Print Assumptions module_error_fails_scan.

(* the four report-flag settings a caller can pass (0 means both, scanner.c:396) *)
Theorem four_flag_settings :
  let both := Z.lor SCAN_FLAGS_REPORT_RULES_MATCHING SCAN_FLAGS_REPORT_RULES_NOT_MATCHING in
  (rp_rep_m (rp_set_flags 0) = true /\ rp_rep_n (rp_set_flags 0) = true) /\
  (rp_rep_m (rp_set_flags SCAN_FLAGS_REPORT_RULES_MATCHING) = true /\
   rp_rep_n (rp_set_flags SCAN_FLAGS_REPORT_RULES_MATCHING) = false) /\
  (rp_rep_m (rp_set_flags SCAN_FLAGS_REPORT_RULES_NOT_MATCHING) = false /\
   rp_rep_n (rp_set_flags SCAN_FLAGS_REPORT_RULES_NOT_MATCHING) = true) /\
  (rp_rep_m (rp_set_flags both) = true /\ rp_rep_n (rp_set_flags both) = true).
Proof. exact set_flags_four. Qed.
Print Assumptions four_flag_settings.

(* non-vacuity: a rule set with global / private / global+private rules over two namespaces and a module
   imported twice; an abort, an error and a module error each cut the trace as stated; the hypotheses of
   abort_stops_with_success are satisfiable *)
Example c11_full_trace : rp_scan ex_imports ex_rules 0 never_stop =
  ([RImport 0; RImported 0; RImport 1; RImported 1; RMatch 0; RMatch 2; RNoMatch 3; RNoMatch 4; RNoMatch 5; RFinished],
   ERROR_SUCCESS).
Proof. exact ex_full. Qed.
Example c11_abort : rp_scan ex_imports ex_rules 0 (rp_script_of [(5%nat, CALLBACK_ABORT)]) =
  ([RImport 0; RImported 0; RImport 1; RImported 1; RMatch 0; RMatch 2], ERROR_SUCCESS).
Proof. exact ex_abort. Qed.
Example c11_error : rp_scan ex_imports ex_rules 0 (rp_script_of [(5%nat, CALLBACK_ERROR)]) =
  ([RImport 0; RImported 0; RImport 1; RImported 1; RMatch 0; RMatch 2], ERROR_CALLBACK_ERROR).
Proof. exact ex_error. Qed.
Example c11_module_error : rp_scan ex_imports ex_rules 0 (rp_script_of [(2%nat, CALLBACK_ERROR)]) =
  ([RImport 0; RImported 0; RImport 1], ERROR_CALLBACK_ERROR).
Proof. exact ex_module_error. Qed.
Example c11_module_abort_is_ignored : rp_scan ex_imports ex_rules 0 (rp_script_of [(2%nat, CALLBACK_ABORT)]) =
  rp_scan ex_imports ex_rules 0 never_stop.
Proof. exact ex_module_abort_ignored. Qed.
Example c11_abort_hypotheses_satisfiable :
  nth_error (rp_full ex_imports ex_rules 0) 5 = Some (RMatch 2) /\
  (forall j m', j < 5 -> nth_error (rp_full ex_imports ex_rules 0) j = Some m' ->
     rp_stops (rp_script_of [(5%nat, CALLBACK_ABORT)]) j m' = None).
Proof. exact ex_hyps_abort. Qed.
