(* C01: text-string matches are exactly the documented occurrences.
   Spec/TextSpec.v is the documented semantics (ascii, wide, nocase, fullword, xor); the extracted
   [text_matches] is compared with the real scanner on every run (checks/c01.py), and [cover_ok] is
   evaluated on the atoms decoded from every compiled image. Proofs: Proofs/TextProofs.v. *)
From Coq Require Import List NArith Sorting.Sorted.
From YV Require Import Base.Bytes Spec.TextSpec Model.Arena Model.Image Model.AC Model.TextAtoms Proofs.TextProofs Proofs.ACProofs.
Import ListNotations.

(* the reference the implementation is compared with reports each offset once, in ascending order,
   and an offset is reported exactly when the string occurs there under the documented semantics *)
Theorem text_matches_exact : forall s m buf,
  StronglySorted lt (map fst (text_matches s m buf)) /\
  (forall o lk, In lk (occs_at s m buf o) <-> exists l, In (o, l) (text_matches s m buf) /\ In lk l).
Proof. exact text_matches_exact_proof. Qed.
Print Assumptions text_matches_exact.

(* "whichever substring the engine picks internally to index the pattern": for every buffer, every
   occurrence of the string is proposed to the verifier by some atom hit, for ANY atom set that
   passes the coverage certificate - in particular for every atom-quality table (also serves C12) *)
Theorem candidates_complete : forall s m atoms buf o lk,
  legal m = true -> all_bytes s = true -> all_bytes buf = true ->
  cover_ok s m atoms = true -> In lk (occs_at s m buf o) -> candidate atoms buf o.
Proof. exact candidates_complete_proof. Qed.
Print Assumptions candidates_complete.
(* the automaton stored in the compiled image: under the certificate ac_cert (evaluated on every
   generated image) the scan loop, at every position of every buffer, walks exactly the matches owned by
   the states whose path is a suffix of the input read so far - nothing else and nothing less *)
Theorem ac_reports_all_and_only : forall cr, ac_cert cr = true -> forall buf i mu, all_bytes buf = true ->
  (In mu (hits_at cr buf i) <->
   (exists v, suffix v (firstn i buf) /\ owns cr (states cr) mu v) /\
   (am_backtrack (pool_at cr mu) <= N.of_nat i)%N).
Proof. intros cr Hc buf i mu Hb. exact (ac_reports_all_and_only_proof cr Hc buf i mu Hb). Qed.
Print Assumptions ac_reports_all_and_only.

(* together: every occurrence of every atom of a string reaches the verifier with the occurrence's offset *)
Theorem atom_hits_reach_verifier : forall cr sidx a bt buf o,
  ac_cert cr = true -> all_bytes buf = true ->
  In (a, bt) (atoms_of cr sidx) -> atom_ends_at a buf (o + N.to_nat bt) ->
  exists mu, In mu (hits_at cr buf (o + N.to_nat bt)) /\ am_string (pool_at cr mu) = sidx /\
             (N.of_nat (o + N.to_nat bt) - am_backtrack (pool_at cr mu) = N.of_nat o)%N.
Proof. exact atom_hits_reach_verifier_proof. Qed.
Print Assumptions atom_hits_reach_verifier.
(* not proved here (correspondence only): that the verifier accepts exactly the occurrences among the
   candidates (the compare functions of scan.c). *)

Example cover_and_occurrence :
  let m := {| m_ascii := true; m_wide := true; m_nocase := true; m_fullword := false; m_xor := None |} in
  let atoms := [([104; 105]%N, 2%N); ([72; 105]%N, 2%N); ([104; 73]%N, 2%N); ([72; 73]%N, 2%N);
                ([104; 0; 105; 0]%N, 4%N); ([72; 0; 105; 0]%N, 4%N); ([104; 0; 73; 0]%N, 4%N); ([72; 0; 73; 0]%N, 4%N)] in
  cover_ok [104; 105]%N m atoms = true /\ legal m = true /\
  text_matches [104; 105]%N m [120; 72; 0; 105; 0; 104; 73]%N = [(1%nat, [(4%N, 0%N)]); (5%nat, [(2%N, 0%N)])].
Proof. vm_compute. repeat split; reflexivity. Qed.
