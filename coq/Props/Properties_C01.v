(* C01: text-string matches are exactly the documented occurrences.
   Spec/TextSpec.v is the documented semantics (ascii, wide, nocase, fullword, xor); the extracted
   [text_matches] is compared with the real scanner on every run (checks/c01.py), and [cover_ok] is
   evaluated on the atoms decoded from every compiled image. Proofs: Proofs/TextProofs.v. *)
From Coq Require Import List NArith Sorting.Sorted Lia.
From YV Require Import Base.Bytes Spec.TextSpec Model.Arena Model.Image Model.AC Model.TextAtoms Model.Verify Proofs.TextProofs Proofs.ACProofs Proofs.VerifyProofs.
Import ListNotations.

(* the reference the implementation is compared with reports each offset once, in ascending order,
   and an offset is reported exactly when the string occurs there under the documented semantics *)
Theorem text_matches_exact : forall s m buf,
  StronglySorted lt (map fst (text_matches s m buf)) /\
  (forall o lk, In lk (occs_at s m buf o) <-> exists l, In (o, l) (text_matches s m buf) /\ In lk l).
Proof. exact text_matches_exact_proof. Qed.
Print Assumptions text_matches_exact.

(* "whichever substring the engine picks internally to index the pattern": for every buffer, every
   occurrence of the string is proposed to the verifier by some atom hit, for ANY atom set that
   passes the coverage certificate - in particular for every atom-quality table (also serves C12) *)
Theorem candidates_complete : forall s m atoms buf o lk,
  legal m = true -> all_bytes s = true -> all_bytes buf = true ->
  cover_ok s m atoms = true -> In lk (occs_at s m buf o) -> candidate atoms buf o.
Proof. exact candidates_complete_proof. Qed.
Print Assumptions candidates_complete.
(* the automaton stored in the compiled image: under the certificate ac_cert (evaluated on every
   generated image) the scan loop, at every position of every buffer, walks exactly the matches owned by
   the states whose path is a suffix of the input read so far - nothing else and nothing less *)
Theorem ac_reports_all_and_only : forall cr, ac_cert cr = true -> forall buf i mu, all_bytes buf = true ->
  (In mu (hits_at cr buf i) <->
   (exists v, suffix v (firstn i buf) /\ owns cr (states cr) mu v) /\
   (am_backtrack (pool_at cr mu) <= N.of_nat i)%N).
Proof. intros cr Hc buf i mu Hb. exact (ac_reports_all_and_only_proof cr Hc buf i mu Hb). Qed.
Print Assumptions ac_reports_all_and_only.

(* together: every occurrence of every atom of a string reaches the verifier with the occurrence's offset *)
Theorem atom_hits_reach_verifier : forall cr sidx a bt buf o,
  ac_cert cr = true -> all_bytes buf = true ->
  In (a, bt) (atoms_of cr sidx) -> atom_ends_at a buf (o + N.to_nat bt) ->
  exists mu, In mu (hits_at cr buf (o + N.to_nat bt)) /\ am_string (pool_at cr mu) = sidx /\
             (N.of_nat (o + N.to_nat bt) - am_backtrack (pool_at cr mu) = N.of_nat o)%N.
Proof. exact atom_hits_reach_verifier_proof. Qed.
Print Assumptions atom_hits_reach_verifier.
(* ---- the verifier and the whole scan of one text string (Model/Verify.v: which comparison functions of scan.c run, in
   which order and under which flags; the FITS_IN_ATOM shortcut; where the xor key comes from; the fullword test of the
   match callback; the sorted match list).  [scan_string] runs the stored automaton over the buffer and verifies every hit
   of the string.  Under per-image certificates (evaluated on every generated image by checks/c01.py) the matches it records
   are exactly the documented occurrences. *)

(* ascending offsets, each once: for every image, string, flags and buffer *)
Theorem scan_text_sorted : forall cr sidx fl s fixed buf,
  StronglySorted lt (map fst (scan_string cr sidx fl s fixed buf)).
Proof. exact scan_string_sorted_proof. Qed.
Print Assumptions scan_text_sorted.

(* nothing else: every recorded (offset, length, key) is a documented occurrence.  text_certs: the flags stored in the image
   agree with the declaration; for FITS_IN_ATOM strings every atom is a variant of a whole rendering and every variant is an
   atom; for other xor strings every atom forces the key of any rendering the verifier may accept into the declared range. *)
Theorem scan_text_sound : forall cr sidx fl s m buf o len key,
  ac_cert cr = true -> all_bytes buf = true -> text_certs cr sidx fl s m = true ->
  In (o, (len, key)) (scan_string cr sidx fl s None buf) -> In (len, key) (occs_at s m buf o).
Proof. exact scan_string_sound_proof. Qed.
Print Assumptions scan_text_sound.

(* nothing missed: an offset with a documented occurrence has a recorded match.  complete_certs: atom coverage, the
   FITS_IN_ATOM flag is set exactly for strings of at most YR_MAX_ATOM_LENGTH bytes, and a string whose ascii and wide forms
   can both be accepted contains no NUL byte (with NUL bytes the two forms can overlap at one offset and the fullword test of
   the form tried first decides). *)
Theorem scan_text_complete : forall cr sidx fl s m buf o lk,
  ac_cert cr = true -> all_bytes buf = true -> text_certs cr sidx fl s m = true -> complete_certs cr sidx fl s m = true ->
  In lk (occs_at s m buf o) -> exists lk', In (o, lk') (scan_string cr sidx fl s None buf).
Proof. exact scan_string_complete_proof. Qed.
Print Assumptions scan_text_complete.

(* the scan that the check runs (it carries the automaton state along, like the C loop) is the scan of the theorems *)
Theorem scan_incremental_is_scan : forall cr sidx fl s fixed buf,
  scan_string_inc cr sidx fl s fixed buf = scan_string cr sidx fl s fixed buf.
Proof. exact scan_string_inc_eq. Qed.
Print Assumptions scan_incremental_is_scan.

(* The key certificate is not a technicality.  Without it the verifier is NOT sound: a hit of a genuine atom of the wide
   form (bytes 8..11 of the wide rendering of "aaaaaaab" xored with key 1, backtrack 12) makes the verifier compare the
   ASCII form and accept it with key 0, although the string is declared xor(1-3).  The same input makes the real scanner
   report the match (known finding xor-key-outside-range). *)
Theorem literal_verifier_sound_without_key_certificate_refuted :
  exists fl s m v bt buf off lk,
    flags_agree fl m = true /\ legal m = true /\ vf_fits fl = false /\
    In v (window_variants m (slice (widen s) (N.to_nat bt - length v) (length v))) /\
    atom_ends_at v buf (off + N.to_nat bt) /\
    verify_literal fl s bt None buf off = Some lk /\ occs_at s m buf off = [].
Proof.
  exists {| vf_ascii := true; vf_wide := true; vf_nocase := false; vf_xor := true; vf_fullword := false; vf_fits := false |},
         [97; 97; 97; 97; 97; 97; 97; 98]%N,
         {| m_ascii := true; m_wide := true; m_nocase := false; m_fullword := false; m_xor := Some (1, 3)%N |},
         [96; 1; 96; 1]%N, 12%N,
         [97; 97; 97; 97; 97; 97; 97; 98; 96; 1; 96; 1]%N, 0%nat, (8, 0)%N.
  vm_compute. repeat split; auto. lia.
Qed.
Print Assumptions literal_verifier_sound_without_key_certificate_refuted.

(* not proved (correspondence only): base64 / base64wide strings (not modelled); that the compare loops of scan.c are the
   functions match_ascii / match_wide of the model (checks/c01.py compares whole scans: offset, length and key must be EQUAL
   to the model's, not just admissible). *)

Example cover_and_occurrence :
  let m := {| m_ascii := true; m_wide := true; m_nocase := true; m_fullword := false; m_xor := None |} in
  let atoms := [([104; 105]%N, 2%N); ([72; 105]%N, 2%N); ([104; 73]%N, 2%N); ([72; 73]%N, 2%N);
                ([104; 0; 105; 0]%N, 4%N); ([72; 0; 105; 0]%N, 4%N); ([104; 0; 73; 0]%N, 4%N); ([72; 0; 73; 0]%N, 4%N)] in
  cover_ok [104; 105]%N m atoms = true /\ legal m = true /\
  text_matches [104; 105]%N m [120; 72; 0; 105; 0; 104; 73]%N = [(1%nat, [(4%N, 0%N)]); (5%nat, [(2%N, 0%N)])].
Proof. vm_compute. repeat split; reflexivity. Qed.
