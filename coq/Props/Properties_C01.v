(* C01: text-string matches are exactly the documented occurrences.
   Spec/TextSpec.v is the documented semantics (ascii, wide, nocase, fullword, xor); the extracted
   [text_matches] is compared with the real scanner on every run (checks/c01.py), and [cover_ok] is
   evaluated on the atoms decoded from every compiled image. Proofs: Proofs/TextProofs.v. *)
From Coq Require Import List Arith NArith Sorting.Sorted Lia.
From YV Require Import Base.Bytes Spec.TextSpec Model.Arena Model.Image Model.AC Model.TextAtoms Model.Verify Spec.Base64Spec Proofs.TextProofs Proofs.ACProofs Proofs.VerifyProofs Proofs.Base64Proofs.
Import ListNotations.

(* the reference the implementation is compared with reports each offset once, in ascending order,
   and an offset is reported exactly when the string occurs there under the documented semantics *)
Theorem text_matches_exact : forall s m buf,
  StronglySorted lt (map fst (text_matches s m buf)) /\
  (forall o lk, In lk (occs_at s m buf o) <-> exists l, In (o, l) (text_matches s m buf) /\ In lk l).
Proof. exact text_matches_exact_proof. Qed.
Print Assumptions text_matches_exact.

(* "whichever substring the engine picks internally to index the pattern": for every buffer, every
   occurrence of the string is proposed to the verifier by some atom hit, for ANY atom set that
   passes the coverage certificate - in particular for every atom-quality table (also serves C12) *)
Theorem candidates_complete : forall s m atoms buf o lk,
  legal m = true -> all_bytes s = true -> all_bytes buf = true ->
  cover_ok s m atoms = true -> In lk (occs_at s m buf o) -> candidate atoms buf o.
Proof. exact candidates_complete_proof. Qed.
Print Assumptions candidates_complete.
(* the automaton stored in the compiled image: under the certificate ac_cert (evaluated on every
   generated image) the scan loop, at every position of every buffer, walks exactly the matches owned by
   the states whose path is a suffix of the input read so far - nothing else and nothing less *)
Theorem ac_reports_all_and_only : forall cr, ac_cert cr = true -> forall buf i mu, all_bytes buf = true ->
  (In mu (hits_at cr buf i) <->
   (exists v, suffix v (firstn i buf) /\ owns cr (states cr) mu v) /\
   (am_backtrack (pool_at cr mu) <= N.of_nat i)%N).
Proof. intros cr Hc buf i mu Hb. exact (ac_reports_all_and_only_proof cr Hc buf i mu Hb). Qed.
Print Assumptions ac_reports_all_and_only.

(* together: every occurrence of every atom of a string reaches the verifier with the occurrence's offset *)
Theorem atom_hits_reach_verifier : forall cr sidx a bt buf o,
  ac_cert cr = true -> all_bytes buf = true ->
  In (a, bt) (atoms_of cr sidx) -> atom_ends_at a buf (o + N.to_nat bt) ->
  exists mu, In mu (hits_at cr buf (o + N.to_nat bt)) /\ am_string (pool_at cr mu) = sidx /\
             (N.of_nat (o + N.to_nat bt) - am_backtrack (pool_at cr mu) = N.of_nat o)%N.
Proof. exact atom_hits_reach_verifier_proof. Qed.
Print Assumptions atom_hits_reach_verifier.
(* ---- the verifier and the whole scan of one text string (Model/Verify.v: which comparison functions of scan.c run, in
   which order and under which flags; the FITS_IN_ATOM shortcut; where the xor key comes from; the fullword test of the
   match callback; the sorted match list).  [scan_string] runs the stored automaton over the buffer and verifies every hit
   of the string.  Under per-image certificates (evaluated on every generated image by checks/c01.py) the matches it records
   are exactly the documented occurrences. *)

(* ascending offsets, each once: for every image, string, flags and buffer *)
Theorem scan_text_sorted : forall cr sidx fl s fixed buf,
  StronglySorted lt (map fst (scan_string cr sidx fl s fixed buf)).
Proof. exact scan_string_sorted_proof. Qed.
Print Assumptions scan_text_sorted.

(* nothing else: every recorded (offset, length, key) is a documented occurrence.  text_certs: the flags stored in the image
   agree with the declaration; for FITS_IN_ATOM strings every atom is a variant of a whole rendering and every variant is an
   atom; for other xor strings every atom forces the key of any rendering the verifier may accept into the declared range. *)
Theorem scan_text_sound : forall cr sidx fl s m buf o len key,
  ac_cert cr = true -> all_bytes buf = true -> text_certs cr sidx fl s m = true ->
  In (o, (len, key)) (scan_string cr sidx fl s None buf) -> In (len, key) (occs_at s m buf o).
Proof. exact scan_string_sound_proof. Qed.
Print Assumptions scan_text_sound.

(* nothing missed: an offset with a documented occurrence has a recorded match.  complete_certs: atom coverage, the
   FITS_IN_ATOM flag is set exactly for strings of at most YR_MAX_ATOM_LENGTH bytes, and a string whose ascii and wide forms
   can both be accepted contains no NUL byte (with NUL bytes the two forms can overlap at one offset and the fullword test of
   the form tried first decides). *)
Theorem scan_text_complete : forall cr sidx fl s m buf o lk,
  ac_cert cr = true -> all_bytes buf = true -> text_certs cr sidx fl s m = true -> complete_certs cr sidx fl s m = true ->
  In lk (occs_at s m buf o) -> exists lk', In (o, lk') (scan_string cr sidx fl s None buf).
Proof. exact scan_string_complete_proof. Qed.
Print Assumptions scan_text_complete.

(* together: exactly the documented offsets, in the documented order *)
Theorem scan_text_offsets_exact : forall cr sidx fl s m buf,
  ac_cert cr = true -> all_bytes buf = true -> text_certs cr sidx fl s m = true -> complete_certs cr sidx fl s m = true ->
  map fst (scan_string cr sidx fl s None buf) = map fst (text_matches s m buf).
Proof. exact scan_offsets_exact_proof. Qed.
Print Assumptions scan_text_offsets_exact.

(* the scan that the check runs (it carries the automaton state along, like the C loop) is the scan of the theorems *)
Theorem scan_incremental_is_scan : forall cr sidx fl s fixed buf,
  scan_string_inc cr sidx fl s fixed buf = scan_string cr sidx fl s fixed buf.
Proof. exact scan_string_inc_eq. Qed.
Print Assumptions scan_incremental_is_scan.

(* The key certificate is not a technicality.  Without it the verifier is NOT sound: a hit of a genuine atom of the wide
   form (bytes 8..11 of the wide rendering of "aaaaaaab" xored with key 1, backtrack 12) makes the verifier compare the
   ASCII form and accept it with key 0, although the string is declared xor(1-3).  The same input makes the real scanner
   report the match (known finding xor-key-outside-range). *)
Theorem literal_verifier_sound_without_key_certificate_refuted :
  exists fl s m v bt buf off lk,
    flags_agree fl m = true /\ legal m = true /\ vf_fits fl = false /\
    In v (window_variants m (slice (widen s) (N.to_nat bt - length v) (length v))) /\
    atom_ends_at v buf (off + N.to_nat bt) /\
    verify_literal fl s bt None buf off = Some lk /\ occs_at s m buf off = [].
Proof.
  exists {| vf_ascii := true; vf_wide := true; vf_nocase := false; vf_xor := true; vf_fullword := false; vf_fits := false |},
         [97; 97; 97; 97; 97; 97; 97; 98]%N,
         {| m_ascii := true; m_wide := true; m_nocase := false; m_fullword := false; m_xor := Some (1, 3)%N |},
         [96; 1; 96; 1]%N, 12%N,
         [97; 97; 97; 97; 97; 97; 97; 98; 96; 1; 96; 1]%N, 0%nat, (8, 0)%N.
  vm_compute. repeat split; auto. lia.
Qed.
Print Assumptions literal_verifier_sound_without_key_certificate_refuted.

(* ---- base64 / base64wide strings (Spec/Base64Spec.v).  The documented meaning - "strings that have been base64 encoded" as
   part of a larger text - is context independence: the three searched forms (b64_variant, as base64.c builds them) are exactly
   characters of the encoding that do not depend on what surrounds the string. *)
Theorem b64_context_independent : forall s P Q i k,
  (i < 3)%nat -> length P = (3 * k + i)%nat -> all_bytes s = true -> all_bytes P = true -> all_bytes Q = true ->
  forall j, (b64_leading i <= j)%nat ->
            (j < data_chars (i + length s) - (if Nat.eqb (pad_of (i + length s)) 0 then 0 else 1))%nat ->
  sextet_at (P ++ s ++ Q) (4 * k + j) = sextet_at (repeat 65%N i ++ s) j.
Proof. exact b64_context_independent_proof. Qed.
Print Assumptions b64_context_independent.

(* every text that contains s has, in its base64 encoding (any alphabet), the form for |prefix| mod 3 at the place of s *)
Theorem encoded_text_contains_variant : forall alpha s P Q i k,
  (i < 3)%nat -> length P = (3 * k + i)%nat -> s <> [] ->
  all_bytes s = true -> all_bytes P = true -> all_bytes Q = true ->
  let v := b64_variant alpha s i in
  slice (b64_encode alpha (P ++ s ++ Q)) (4 * k + b64_leading i) (length v) = v.
Proof. exact encoded_text_contains_variant_proof. Qed.
Print Assumptions encoded_text_contains_variant.

(* the executable reference lists exactly the places where one of the forms (or its wide version) stands *)
Theorem b64_matches_exact : forall alpha s plain wide buf,
  (forall o len, In len (b64_occs_at alpha s plain wide buf o) <->
     exists v, In v (b64_variants alpha s plain wide) /\ v <> [] /\ slice buf o (length v) = v /\ len = nlen v) /\
  (forall o l, In (o, l) (b64_matches alpha s plain wide buf) <-> (o < length buf)%nat /\ l = b64_occs_at alpha s plain wide buf o /\ l <> []).
Proof. exact b64_matches_exact_proof. Qed.
Print Assumptions b64_matches_exact.

Example b64_documented_example :   (* docs/writingrules.rst: "This program cannot" *)
  let s := map N.of_nat [84;104;105;115;32;112;114;111;103;114;97;109;32;99;97;110;110;111;116]%nat in
  map (b64_variant default_alphabet s) [1; 2]%nat =
  [map N.of_nat [82;111;97;88;77;103;99;72;74;118;90;51;74;104;98;83;66;106;89;87;53;117;98;51]%nat;    (* RoaXMgcHJvZ3JhbSBjYW5ub3 *)
   map N.of_nat [85;97;71;108;122;73;72;66;121;98;50;100;121;89;87;48;103;89;50;70;117;98;109;57;48]%nat]  (* UaGlzIHByb2dyYW0gY2Fubm90 *)
  /\ b64_encode default_alphabet (map N.of_nat [77;97]%nat) = map N.of_nat [84;87;69;61]%nat.   (* RFC 4648: "Ma" -> "TWE=" *)
Proof. vm_compute. split; reflexivity. Qed.

(* not proved (correspondence only): that the regular expression built by base64.c from the forms matches exactly them; that the compare loops of scan.c are the
   functions match_ascii / match_wide of the model (checks/c01.py compares whole scans: offset, length and key must be EQUAL
   to the model's, not just admissible). *)

Example cover_and_occurrence :
  let m := {| m_ascii := true; m_wide := true; m_nocase := true; m_fullword := false; m_xor := None |} in
  let atoms := [([104; 105]%N, 2%N); ([72; 105]%N, 2%N); ([104; 73]%N, 2%N); ([72; 73]%N, 2%N);
                ([104; 0; 105; 0]%N, 4%N); ([72; 0; 105; 0]%N, 4%N); ([104; 0; 73; 0]%N, 4%N); ([72; 0; 73; 0]%N, 4%N)] in
  cover_ok [104; 105]%N m atoms = true /\ legal m = true /\
  text_matches [104; 105]%N m [120; 72; 0; 105; 0; 104; 73]%N = [(1%nat, [(4%N, 0%N)]); (5%nat, [(2%N, 0%N)])].
Proof. vm_compute. repeat split; reflexivity. Qed.

(* Source tie of the character classes: the tables the implementation's yr_isalnum / yr_lowercase produce (regenerated from /repo on every
   run) are the documented classes the specification uses -- for all 256 byte values.  A change of either function breaks this obligation;
   the correspondence then finds the byte (the specification keeps the documented class, the implementation follows its table). *)
Theorem character_tables_are_documented : forall b : N, (b < 256)%N ->
  table_alnum b = alnum b /\ table_lower b = lower b.
Proof.
  assert (H : forallb (fun n => andb (Bool.eqb (table_alnum (N.of_nat n)) (alnum (N.of_nat n))) (N.eqb (table_lower (N.of_nat n)) (lower (N.of_nat n))))
                      (seq 0 256) = true) by (vm_compute; reflexivity).
  intros b Hb. rewrite forallb_forall in H. specialize (H (N.to_nat b)).
  rewrite Nnat.N2Nat.id in H.
  assert (Hin : In (N.to_nat b) (seq 0 256)) by (apply in_seq; lia).
  apply H in Hin. apply Bool.andb_true_iff in Hin as [H1 H2].
  split; [now apply Bool.eqb_prop | now apply N.eqb_eq].
Qed.
Print Assumptions character_tables_are_documented.
