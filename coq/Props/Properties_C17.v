(* C17: incomplete or damaged compiled-rule files are rejected, never half-loaded.
   Statements only; proofs are in Proofs/ArenaProofs.v.  [cfg_current] is the loader as it is in
   /repo now (tied by checks/c17.py on every run), [cfg_pinned] the loader of the pinned commit. *)
From Coq Require Import List NArith Lia.
From YV Require Import Base.Bytes Model.Arena Proofs.ArenaProofs Proofs.ArenaCanon.
Import ListNotations.

(* every strict prefix of every file the library writes is rejected with an error *)
Theorem truncated_rejected : forall (a : arena) (n : nat),
  wf_arena a = true -> (n < length (save cfg_current a))%nat ->
  exists e, rules_load cfg_current (firstn n (save cfg_current a)) = LErr e.
Proof. exact truncated_rejected_proof. Qed.
Print Assumptions truncated_rejected.

(* ... while the complete file loads as exactly the arena that was saved (so the theorem above is
   not vacuous: the rejection is due to the cut) *)
Theorem complete_file_accepted : forall a : arena,
  wf_arena a = true -> rules_load cfg_current (save cfg_current a) = LOk a.
Proof. exact load_save_roundtrip_proof. Qed.
Print Assumptions complete_file_accepted.

(* header corruptions: whatever the rest of the file is, a file is accepted only with the right
   magic, version and number of sections *)
Theorem header_corruption_rejected_partial : forall (s : bytes) (a : arena),
  rules_load cfg_current s = LOk a ->
  firstn 4 s = magic /\ nth 4 s 0%N = file_version /\ nth 5 s 0%N = num_sections.
Proof. exact accepted_files_have_valid_header. Qed.
Print Assumptions header_corruption_rejected_partial.
(* never half-loaded: whatever the loader accepts is, byte for byte, the file the saver writes for the
   arena it hands out (header, section table with its offset and size columns, section bodies,
   relocation list, terminator), followed at most by bytes that are never read.  A file whose header
   or section table is not the one belonging to its contents is therefore never accepted. *)
Theorem accepted_file_is_saved_image : forall (s : bytes) (a : arena),
  all_bytes s = true -> rules_load cfg_current s = LOk a ->
  exists tail, s = save cfg_current a ++ tail.
Proof. exact accepted_file_is_saved_image_proof. Qed.
Print Assumptions accepted_file_is_saved_image.

(* so a damaged header or table cannot go unnoticed: two accepted files with the same loaded
   content agree on every byte the saver writes *)
Theorem accepted_same_arena_same_bytes : forall (s s' : bytes) (a : arena),
  all_bytes s = true -> all_bytes s' = true ->
  rules_load cfg_current s = LOk a -> rules_load cfg_current s' = LOk a ->
  firstn (length (save cfg_current a)) s = firstn (length (save cfg_current a)) s'.
Proof. exact accepted_same_arena_same_bytes_proof. Qed.
Print Assumptions accepted_same_arena_same_bytes.

(* non-vacuity: a written file consists of bytes and is accepted *)
Example saved_image_is_bytes_and_accepted :
  all_bytes (save cfg_current tiny_arena_reloc) = true /\ rules_load cfg_current (save cfg_current tiny_arena_reloc) = LOk tiny_arena_reloc.
Proof. split; vm_compute; reflexivity. Qed.
(* not a theorem (and false in general): that every single corrupted size field is rejected.  A
   changed size of the LAST section moves the boundary between that section and the relocation list
   and can, for suitable contents, give another self-consistent file; by the theorem above it is then
   the written image of different rules, not a half-loaded copy of these.  checks/c17.py sweeps the
   single-field corruptions of every generated image on the implementation. *)

(* the finding on the pinned tree: the loader without the list terminator accepts a cut file *)
Theorem truncated_refuted_pinned :
  exists a n a', wf_arena a = true /\ (n < length (save cfg_pinned a))%nat /\
     rules_load cfg_pinned (firstn n (save cfg_pinned a)) = LOk a' /\ a' <> a.
Proof. exact truncated_refuted_pinned_proof. Qed.
Print Assumptions truncated_refuted_pinned.

(* non-vacuity: well-formed arenas exist (and every image the real compiler produces is checked
   to be well-formed by checks/c17.py and checks/c08.py) *)
Example wf_arena_inhabited : wf_arena tiny_arena = true /\ wf_arena tiny_arena_reloc = true.
Proof. exact tiny_arena_wf. Qed.
