(* C02: hex-string matches are exactly the documented occurrences.
   A hex string is a regular expression over bytes (checks/c02.py translates the generator's hex AST:
   bytes, ?? and nibble masks, ~ negation, jumps [n], [n-m], [n-] as bounded/unbounded repeats of "any
   byte", nested alternatives); its semantics is Spec/RegexSpec.v, whose executable reference is
   proved exact (Properties_C03.reference_is_semantics) and compared with the real scanner, including
   patterns that the engine splits at jumps above YR_STRING_CHAINING_THRESHOLD and re-joins. *)
From Coq Require Import List Arith NArith Sorting.Sorted.
From YV Require Import Base.Bytes Spec.RegexSpec Proofs.RegexProofs Spec.HexSpec Proofs.HexProofs.
Import ListNotations.

Theorem hex_reference_is_semantics : forall buf r i j, (i <= length buf)%nat ->
  (In j (ends buf r i) <-> M buf r i j).
Proof. intros buf r i j Hi. exact (proj1 (ends_correct buf r i j Hi)). Qed.
Print Assumptions hex_reference_is_semantics.

Theorem hex_string_matches_exact : forall buf r,
  StronglySorted lt (map fst (re_matches_all buf r)) /\
  (forall o len, (0 < len)%nat ->
     ((exists ls, In (o, ls) (re_matches_all buf r) /\ In len ls) <-> M buf r o (o + len))).
Proof. exact re_string_matches_exact_proof. Qed.
Print Assumptions hex_string_matches_exact.

(* a jump [n-m] matches exactly the gaps of n..m bytes (the bounds are inclusive on both sides) *)
Theorem hex_jump_exact : forall buf n m i j, (n <= m)%nat -> (i <= length buf)%nat ->
  (M buf (rrep (RSet CAny) n (Some m)) i j <-> (i + n <= j <= i + m)%nat /\ (j <= length buf)%nat).
Proof. exact hex_jump_exact_proof. Qed.
Print Assumptions hex_jump_exact.

Example hex_example :   (* { 61 [1-2] 63 } on "a.c a..c a...c" *)
  let r := RCat (RSet (CByte 97)) (RCat (rrep (RSet CAny) 1 (Some 2)) (RSet (CByte 99))) in
  map fst (re_matches_all [97; 46; 99; 32; 97; 46; 46; 99; 32; 97; 46; 46; 46; 99]%N r) = [0; 4].
Proof. vm_compute. reflexivity. Qed.
(* The interval-based reference used for patterns that the engine splits into chained pieces (Spec/HexSpec.v:
   binary positions, a jump maps a set of positions to a union of intervals) is exact as well: for a hex string
   whose jumps have min <= max (others are rejected at compile time), it lists offset o with length len iff the
   translated expression matches the span [o, o+len). *)
Theorem hex_fast_reference_exact : forall buf p i j, hex_wf p = true -> (i <= N.of_nat (length buf))%N ->
  (In j (hends buf p [i]) <-> M buf (hex_to_re p) (N.to_nat i) (N.to_nat j)).
Proof. exact hex_fast_reference_exact_proof. Qed.
Print Assumptions hex_fast_reference_exact.

Theorem hex_fast_matches_exact : forall buf p, hex_wf p = true ->
  forall o len, (0 < len)%N ->
    ((exists ls, In (o, ls) (hex_matches_all buf p) /\ In len ls) <->
     M buf (hex_to_re p) (N.to_nat o) (N.to_nat o + N.to_nat len)).
Proof. exact hex_matches_exact_proof. Qed.
Print Assumptions hex_fast_matches_exact.

Example hex_fast_example :   (* { 61 [1-2] ( 63 | 64 ) } on "a.c a..d a...c": the same answer as the expanded expression *)
  let p := HJump 1 2 (HAltP (HTok (CByte 99) HNil) (HTok (CByte 100) HNil) HNil) in
  let buf := [97; 46; 99; 32; 97; 46; 46; 100; 32; 97; 46; 46; 46; 99]%N in
  hex_wf (HTok (CByte 97) p) = true /\
  hex_matches_all buf (HTok (CByte 97) p) = [(0, [3]); (4, [4])]%N /\
  map fst (re_matches_all buf (hex_to_re (HTok (CByte 97) p))) = [0; 4].
Proof. vm_compute. repeat split. Qed.

(* not proved (correspondence only): the splitting of a pattern into chained pieces and their re-joining
   (split_preserves_lang / chain_confirm_exact of the design), and the fast matcher of re.c. *)
