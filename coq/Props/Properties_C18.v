(* C18: command-line results are independent of thread count (the file-queue protocol part).
   Statements only; proofs are in Proofs/QueueProofs.v.

   [queue_cfg] (gen/GenQueue.v) is regenerated on every run from cli/yara.c: the op lists of
   file_queue_put / file_queue_get / file_queue_finish, the size of the ring, the initial values of
   the semaphores, and the bound main() puts on the number of scanning threads.  Model/Queue.v gives
   it a small-step semantics: [reachable queue_cfg files N s] = state [s] is reached from the
   initial state by SOME interleaving of the producer (one file_queue_put per element of [files],
   then file_queue_finish) and N scanning threads, one atomic op at a time.  The theorems hold for
   every list of files, every N from 1 to YR_MAX_THREADS and every such interleaving.

   Not covered by theorems (exercised by checks/c18.py only): directory walking, scanning and
   printing themselves, the output mutex, yarac/-C, exit status, deadlines (--timeout). *)
From Coq Require Import List Arith Permutation.
From YV Require Import Model.QueueOps Model.Queue gen.GenQueue Proofs.QueueProofs.
From YV Require Import Model.QueueOutput gen.GenOutput Proofs.QueueOutputProofs.
Import ListNotations.

(* (a) the counting invariant: semaphore values, files in the ring and operations in flight *)
Theorem queue_inv : forall (files : list nat) (N : nat) (s : qstate),
  1 <= N <= queue_max_threads -> reachable queue_cfg files N s ->
  q_used (q_sh s) + sumf hold (q_cons s) + sumf nullc (q_cons s) + sumf gcount (q_cons s) + ppend (q_prod s)
    = Pn files (q_prod s) + finrel Tq (q_prod s) /\
  q_unused (q_sh s) + Pn files (q_prod s) + phold (q_prod s) + sumf pendS (q_cons s) + sumf pendN (q_cons s)
    = Mq + sumf gcount (q_cons s) + sumf nullc (q_cons s) /\
  sumf gcount (q_cons s) <= Pn files (q_prod s) <= sumf gcount (q_cons s) + Mq /\
  q_head (q_sh s) = sumf gcount (q_cons s) mod qc_slots queue_cfg /\
  q_tail (q_sh s) = Pn files (q_prod s) mod qc_slots queue_cfg.
Proof. exact queue_inv_proof. Qed.
Print Assumptions queue_inv.

(* (b) in every terminal state (producer returned from file_queue_finish, every scanning thread
   left its loop) the files handed to the scanning threads are exactly the files put by the
   producer, as multisets: nothing lost, nothing scanned twice *)
Theorem each_file_once : forall (files : list nat) (N : nat) (s : qstate),
  1 <= N <= queue_max_threads -> reachable queue_cfg files N s ->
  qterminal s = true -> Permutation (qdelivered s) files.
Proof. exact each_file_once_proof. Qed.
Print Assumptions each_file_once.

(* (c) no deadlock: in every reachable state that is not terminal some thread can take a step *)
Theorem no_deadlock : forall (files : list nat) (N : nat) (s : qstate),
  1 <= N <= queue_max_threads -> reachable queue_cfg files N s ->
  qterminal s = false -> exists t, qenabled_thread queue_cfg files t s = true.
Proof. exact no_deadlock_proof. Qed.
Print Assumptions no_deadlock.

(* (d) race freedom, which justifies one step per C statement: whenever a thread is about to read
   or write queue_head, queue_tail or a slot of file_queue[], it owns queue_mutex *)
Theorem accesses_under_mutex : forall (files : list nat) (N : nat) (s : qstate),
  1 <= N <= queue_max_threads -> reachable queue_cfg files N s ->
  forall t o, qnext_op queue_cfg t s = Some o -> qop_code o = 7 -> q_mtx (q_sh s) = Some t.
Proof. exact accesses_under_mutex_proof. Qed.
Print Assumptions accesses_under_mutex.

(* the hypotheses are satisfiable and the conclusions not trivial (70 files, 3 threads): a reachable
   state with a full queue and a blocked producer; a reachable terminal state in which each thread
   got some files; a thread inside the critical section *)
Theorem c18_nonvacuous_full_queue :
  reachable queue_cfg ex_files 3 ex_full /\ qterminal ex_full = false /\
  qenabled_thread queue_cfg ex_files 0 ex_full = false /\
  q_used (q_sh ex_full) = 64 /\ q_unused (q_sh ex_full) = 0 /\ q_tail (q_sh ex_full) = 64 /\
  qenabled_threads queue_cfg ex_files ex_full = [1; 2; 3].
Proof. exact ex_full_queue. Qed.

Theorem c18_nonvacuous_terminal :
  (1 <= 3 <= queue_max_threads) /\ reachable queue_cfg ex_files 3 ex_final /\ qterminal ex_final = true /\
  length (qdelivered ex_final) = 70 /\ forallb (fun c => 0 <? length (qc_got c)) (q_cons ex_final) = true /\
  qdelivered ex_final <> ex_files.
Proof. exact ex_terminal_reachable. Qed.

Theorem c18_nonvacuous_critical_section :
  reachable queue_cfg ex_files 3 ex_incs /\ qnext_op queue_cfg 2 ex_incs = Some (QLoad QHead) /\
  q_mtx (q_sh ex_incs) = Some 2.
Proof. exact ex_in_critical_section. Qed.

(* ------------------------------------------------------------------------------------------------
   The output path.  [out_worker] (gen/GenOutput.v) is regenerated on every run from cli/yara.c: the
   code a scanning thread runs (scanning_thread, scan_file, the scanner callback, handle_message,
   the print_ helpers), with control flow kept and statements reduced to events: lock / unlock of output_mutex,
   one [EOut] per stdio call, one [EVar] per access to a file-scope variable.  [exec out_worker tr o]:
   [tr] is the event trace of SOME execution (any branch of every if/switch, any number of
   iterations of every loop, early returns).  [lrun allowed_now h tr] runs "is the mutex held by this
   thread" over a trace and fails on: a second lock, an unlock without lock, and any output or
   variable access without the mutex that is not accepted by [allowed_now]. *)

(* (e) every write to stdout of every execution of a scanning thread happens with output_mutex held;
   lock and unlock are balanced on every path, early returns included; on stderr the only writes
   without the mutex are the two warning sites listed in [unlocked_stderr_sites] *)
Theorem output_under_mutex : forall tr o, exec out_worker tr o ->
  lrun allowed_now false tr = Some false /\
  forall pre e post, tr = pre ++ e :: post ->
    exists held, lrun allowed_now false pre = Some held /\
      (forall site, e = EOut Stdout site -> held = true) /\
      (forall site, e = EOut Stderr site -> held = true \/ In site unlocked_stderr_sites) /\
      (e = ELock -> held = false) /\ (e = EUnlock -> held = true).
Proof. exact output_under_mutex_proof. Qed.
Print Assumptions output_under_mutex.

(* (f) every access of a scanning thread to a file-scope variable is under output_mutex, or is a read
   of a variable that no scanning thread writes and the main thread does not write while they run
   (the options), or concerns a variable of [known_unprotected_vars] = total_count (known findings
   limit-global / race:total_count).  A new unprotected access makes [worker_checked] fail. *)
Theorem shared_accesses_disciplined : forall tr o, exec out_worker tr o ->
  forall pre v w post, tr = pre ++ EVar v w :: post ->
    exists held, lrun allowed_now false pre = Some held /\
      (held = true \/ In v known_unprotected_vars \/
       (w = false /\ ~ In v (written_vars out_worker) /\ ~ In v out_main_writes)).
Proof. exact shared_accesses_proof. Qed.
Print Assumptions shared_accesses_disciplined.

(* (g) any number of scanning threads, each somewhere inside an execution of the worker code,
   interleaved in any way the mutex permits ([grun]: lock only when free, unlock only by the owner):
   what is written to stdout between a lock and the matching unlock of thread t is written by t,
   i.e. the lines of a match group are contiguous in the output *)
Theorem match_group_atomic : forall g : list (nat * oev),
  (forall t, exists tr o rest, exec out_worker tr o /\ tr = proj t g ++ rest) ->
  grun None g <> None ->
  forall pre t sec post, g = pre ++ (t, ELock) :: sec ++ (t, EUnlock) :: post -> ~ In (t, EUnlock) sec ->
  forall u site, In (u, EOut Stdout site) sec -> u = t.
Proof. exact match_group_atomic_proof. Qed.
Print Assumptions match_group_atomic.

Theorem stdout_writer_owns_mutex : forall g : list (nat * oev),
  (forall t, exists tr o rest, exec out_worker tr o /\ tr = proj t g ++ rest) ->
  grun None g <> None ->
  forall pre u site post, g = pre ++ (u, EOut Stdout site) :: post -> grun None pre = Some (Some u).
Proof. exact stdout_writer_owns_mutex_proof. Qed.
Print Assumptions stdout_writer_owns_mutex.

(* non-vacuity: the worker code has an execution that locks, prints to stdout and accesses shared
   variables; a two-thread interleaving satisfying the hypotheses; and the mutex alone does not give
   atomicity: a thread printing without it tears a group and is rejected by the discipline *)
Theorem c18_nonvacuous_worker_prints :
  exists tr, exec out_worker tr ONormal /\
             existsb is_lock tr = true /\ existsb is_stdout tr = true /\ existsb is_var tr = true.
Proof. exact worker_has_printing_execution. Qed.

Theorem c18_nonvacuous_interleaving :
  grun None ex_g = Some None /\ lrun allowed_now false (proj 1 ex_g) = Some false /\
  lrun allowed_now false (proj 2 ex_g) = Some false.
Proof. exact ex_g_ok. Qed.

Theorem c18_discipline_needed :
  grun None ex_torn = Some None /\ lrun allowed_now false (proj 2 ex_torn) = None.
Proof. exact ex_torn_rejected. Qed.
