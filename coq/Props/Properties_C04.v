(* C04: rule conditions evaluate per the documented language semantics.
   Spec/CondSpec.v is the documented three-valued semantics; its extracted evaluator is compared with
   the real compiler + scanner on random condition trees printed with minimal parentheses
   (checks/c04.py).  Proved here, over models REGENERATED from the sources on every run:
   the precedence declarations of grammar.y are the manual's table, and every integer / boolean VM
   case treats undefined operands as documented. *)
From Coq Require Import ZArith Bool List String.
From YV Require Import gen.GenConsts gen.GenPrec Base.CSem gen.GenFold Spec.IntSpec Spec.CondSpec Proofs.FoldProofs.
Local Open Scope Z_scope.

Theorem prec_table_matches_manual : grammar_levels = manual_levels.
Proof. reflexivity. Qed.
Print Assumptions prec_table_matches_manual.

(* "and"/"or" treat undefined as false and never yield undefined; "not" propagates it *)
Theorem boolean_opcodes_documented : forall a b,
  vm_OP_AND a b = VVal (b2z (truthZ a && truthZ b)) /\
  vm_OP_OR a b = VVal (b2z (truthZ a || truthZ b)) /\
  vm_OP_NOT a = VVal (if a =? YR_UNDEFINED then YR_UNDEFINED else b2z (a =? 0)).
Proof. intros a b. exact (conj (vm_and_spec a b) (conj (vm_or_spec a b) (vm_not_spec a))). Qed.
Print Assumptions boolean_opcodes_documented.

(* every other (integer) operator yields undefined when an operand is undefined *)
Theorem undefined_propagation : forall a b, a = YR_UNDEFINED \/ b = YR_UNDEFINED ->
  vm_OP_INT_ADD a b = VVal YR_UNDEFINED /\ vm_OP_INT_SUB a b = VVal YR_UNDEFINED /\ vm_OP_INT_MUL a b = VVal YR_UNDEFINED /\
  vm_OP_INT_DIV a b = VVal YR_UNDEFINED /\ vm_OP_MOD a b = VVal YR_UNDEFINED /\ vm_OP_SHL a b = VVal YR_UNDEFINED /\
  vm_OP_SHR a b = VVal YR_UNDEFINED /\ vm_OP_BITWISE_AND a b = VVal YR_UNDEFINED /\ vm_OP_BITWISE_OR a b = VVal YR_UNDEFINED /\
  vm_OP_BITWISE_XOR a b = VVal YR_UNDEFINED /\ vm_OP_INT_EQ a b = VVal YR_UNDEFINED /\ vm_OP_INT_NEQ a b = VVal YR_UNDEFINED /\
  vm_OP_INT_LT a b = VVal YR_UNDEFINED /\ vm_OP_INT_GT a b = VVal YR_UNDEFINED /\ vm_OP_INT_LE a b = VVal YR_UNDEFINED /\
  vm_OP_INT_GE a b = VVal YR_UNDEFINED.
Proof.
  intros a b H.
  exact (conj (vm_undef_propagates_add a b H) (conj (vm_undef_sub a b H) (conj (vm_undef_mul a b H) (conj (vm_undef_div a b H)
        (conj (vm_undef_mod a b H) (conj (vm_undef_shl a b H) (conj (vm_undef_shr a b H) (conj (vm_undef_band a b H)
        (conj (vm_undef_bor a b H) (conj (vm_undef_bxor a b H) (conj (vm_undef_eq a b H) (conj (vm_undef_neq a b H)
        (conj (vm_undef_lt a b H) (conj (vm_undef_gt a b H) (conj (vm_undef_le a b H) (vm_undef_ge a b H)))))))))))))))).
Qed.
Print Assumptions undefined_propagation.

(* the documented evaluator itself: and/or are never undefined, an undefined condition is false *)
Theorem spec_and_or_total : forall en a b,
  (exists v, eval_b en (BAnd a b) = Some v) /\ (exists v, eval_b en (BOr a b) = Some v) /\
  (eval_b en a = None -> verdict en a = false /\ eval_b en (BNot a) = None).
Proof.
  intros en a b. split; [eexists; reflexivity|]. split; [eexists; reflexivity|].
  intros H. unfold verdict. cbn [eval_b]. rewrite H. split; reflexivity.
Qed.
Print Assumptions spec_and_or_total.
(* ---- string operators (Spec/StrOpSpec.v): the executable operators decide the documented statements *)
From YV Require Import Base.Bytes Spec.StrOpSpec Proofs.StrOpProofs.

Theorem contains_spec : forall hay needle, contains hay needle = true <-> exists p s, hay = (p ++ needle ++ s)%list.
Proof. exact contains_spec_proof. Qed.
Print Assumptions contains_spec.

Theorem startswith_endswith_eq_spec : forall a b,
  (strop_eval SStartsWith a b = true <-> exists t, a = (b ++ t)%list) /\
  (strop_eval SEndsWith a b = true <-> exists t, a = (t ++ b)%list) /\
  (strop_eval SEq a b = true <-> a = b).
Proof. intros a b. split; [apply startswith_spec_proof|split; [apply endswith_spec_proof|apply str_eq_spec_proof]]. Qed.
Print Assumptions startswith_endswith_eq_spec.

Theorem case_insensitive_forms : forall a b,
  strop_eval SIContains a b = strop_eval SContains (lower_s a) (lower_s b) /\
  strop_eval SIStartsWith a b = strop_eval SStartsWith (lower_s a) (lower_s b) /\
  strop_eval SIEndsWith a b = strop_eval SEndsWith (lower_s a) (lower_s b) /\
  (strop_eval SIEquals a b = true <-> lower_s a = lower_s b).
Proof. exact i_forms_proof. Qed.
Print Assumptions case_insensitive_forms.

(* not proved (correspondence only): that the bytecode the compiler emits for a condition computes
   eval_b of that condition (compile_cond / vm_expr_correct of the design). *)
