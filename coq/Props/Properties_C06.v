(* C06 (PARTIAL: proved fragment = guard arithmetic only).  Scanning arbitrary bytes with any module is
   memory-safe and terminates.  Proved here, about models regenerated from the source on every run
   (gen/GenBounds.v) and the hand model Model/PeRva.v: the bounds predicates are sound in exact
   unsigned/pointer arithmetic, pe_rva_to_offset only returns offsets
   inside the file, its section loop is capped by MAX_PE_SECTIONS.
   NOT proved: that every dereference of the module parsers is dominated by such a predicate; absence of
   use-after-free / uninitialised reads / leaks; termination of the C.  checks/c06.py explores those. *)
From Coq Require Import ZArith List.
From YV Require Import Base.USem gen.GenBounds Model.PeRva Proofs.BoundsProofs Proofs.RecursionProofs.
Import ListNotations.
Local Open Scope Z_scope.

Theorem fits_in_pe_sound : forall base size p n,
  addr_space_ok base size -> is_u64 p -> is_u64 n ->
  fits_in_pe base size p n = true -> base <= p /\ p + n <= base + size.
Proof. exact fits_in_pe_sound_l. Qed.
Print Assumptions fits_in_pe_sound.

Theorem fits_in_dex_sound : forall base size p n,
  addr_space_ok base size -> is_u64 p -> is_u64 n ->
  fits_in_dex base size p n = true -> base <= p /\ p + n <= base + size.
Proof. exact fits_in_dex_sound_l. Qed.
Print Assumptions fits_in_dex_sound.

(* elf.c is_valid_ptr as it is written now (repaired in /repo 4d21781: no pointer sum that can wrap) *)
Theorem is_valid_ptr_sound : forall base size ptr n,
  addr_space_ok base size -> is_u64 ptr -> is_u64 n ->
  is_valid_ptr base size ptr n = true -> base <= ptr /\ ptr + n <= base + size.
Proof. exact is_valid_ptr_sound_l. Qed.
Print Assumptions is_valid_ptr_sound.

(* the pinned 4.5.2 text of the predicate (kept verbatim in Proofs/BoundsProofs.v) was not sound: witness *)
Theorem is_valid_ptr_pinned_refuted : exists base size ptr n,
  addr_space_ok base size /\ is_u64 ptr /\ is_u64 n /\
  is_valid_ptr_pinned base size ptr n = true /\ ~ (base <= ptr /\ ptr + n <= base + size).
Proof. exact is_valid_ptr_pinned_refuted_l. Qed.
Print Assumptions is_valid_ptr_pinned_refuted.

Theorem macho_range_sound : forall data size command parsed_size cmdsize offset asize,
  addr_space_ok data size -> data + size + sizeof_yr_load_command_t < M64 ->
  is_u32 cmdsize -> 0 <= parsed_size <= size -> command = data + parsed_size -> is_u64 offset -> is_u64 asize ->
  (macho_cmd_ok_1 data size command parsed_size cmdsize = true -> macho_cmd_post data size command parsed_size cmdsize) /\
  (macho_cmd_ok_2 data size command parsed_size cmdsize = true -> macho_cmd_post data size command parsed_size cmdsize) /\
  (macho_fat_arch_ok size offset asize = true ->
     offset + asize <= size /\ data <= data + offset /\ (data + offset) + asize <= data + size).
Proof.
  intros data size command parsed_size cmdsize offset asize Hs Ht Hc Hp He Ho Ha.
  exact (conj (macho_cmd_ok_1_sound_l data size command parsed_size cmdsize Hs Ht Hc Hp He)
        (conj (macho_cmd_ok_2_sound_l data size command parsed_size cmdsize Hs Ht Hc Hp He)
              (macho_fat_arch_ok_sound_l data size offset asize Hs Ho Ha))).
Qed.
Print Assumptions macho_range_sound.

(* pe.c pe_parse_exports: every indexed access to the three parallel export tables (ordinals[j], function_addrs[i],
   names[j]) lies in the data, given the guard of that table as it is written now and the bound the index is known
   to be below where the access is evaluated (both regenerated from the source) *)
Theorem exports_tables_in_bounds : forall nfun_raw nn_raw avail_o avail_f avail_n,
  is_u32 nfun_raw -> is_u32 nn_raw -> is_u64 avail_o -> is_u64 avail_f -> is_u64 avail_n ->
  let nexp := exp_number_of_exports nfun_raw in
  let nnames := exp_number_of_names nexp nn_raw in
  (exp_ordinals_rejects avail_o nexp nnames nn_raw = false ->
     forall j, 0 <= j < exp_ordinals_index_bound nexp nnames -> sizeof_WORD * (j + 1) <= avail_o) /\
  (exp_functions_rejects avail_f nexp nnames nn_raw = false ->
     forall i, 0 <= i < exp_functions_index_bound nexp nnames -> sizeof_DWORD * (i + 1) <= avail_f) /\
  (exp_names_rejects avail_n nexp nnames nn_raw = false ->
     forall j, 0 <= j < exp_names_index_bound nexp nnames -> sizeof_DWORD * (j + 1) <= avail_n).
Proof. exact exports_tables_in_bounds_l. Qed.
Print Assumptions exports_tables_in_bounds.

(* dotnet.c: the functions that carry a `depth` counter against loops (parse_signature_type, get_type_def_or_ref_fullname,
   parse_enclosing_types): the call graph between them, what every call passes as depth (depth, depth + 1, or a constant) and
   which functions test depth against their limit before calling anything are regenerated from the source.  On EVERY closed
   call chain no call passes a constant, at least one passes depth + 1, and a function that tests depth lies on it: the
   recursion depth is bounded by the limits.  (A call site that passes `depth` unchanged on a cycle breaks this.) *)
Theorem dotnet_recursion_guarded : forall f es, chain dotnet_depth_calls f f es ->
  (forall e, In e es -> snd e <> (-1)%Z) /\
  (exists e, In e es /\ snd e = 1%Z) /\
  (exists e, In e es /\ (gd dotnet_depth_guarded (fst (fst e)) = true \/ gd dotnet_depth_guarded (snd (fst e)) = true)).
Proof. exact dotnet_recursion_guarded_l. Qed.
Print Assumptions dotnet_recursion_guarded.

(* elf.c module_load: in each of the four (class, byte order) branches, what the branch demands of the block size covers the
   type the block is cast to and the header type of the parser it calls, and the parser is the one for that class and byte order
   (branches regenerated from the source, sizes evaluated by the C compiler) *)
Theorem elf_header_guards_match : forall cls dat demanded cast phdr bits be block_size,
  In (cls, dat, demanded, cast, phdr, bits, be) elf_header_branches ->
  demanded < block_size ->
  cast <= block_size /\ phdr <= block_size /\ cast = phdr /\
  (cls = ELF_CLASS_32 -> bits = 32) /\ (cls = ELF_CLASS_64 -> bits = 64) /\
  (dat = ELF_DATA_2LSB -> be = 0) /\ (dat = ELF_DATA_2MSB -> be = 1).
Proof. exact elf_header_guards_match_l. Qed.
Print Assumptions elf_header_guards_match.

(* object.c yr_object_dict_set_item (the storage every module dictionary is written through): with the initial size, the growth
   and the free-counter bookkeeping as written in the source (regenerated), after ANY number of insertions used + free = capacity
   and the entry the next insertion writes, objects[used], lies inside the block *)
Theorem dict_growth_invariant : forall n, dict_inv (dict_after n) /\ d_used (dict_after n) <= d_cap (dict_after n) /\
  d_used (dict_after n) < d_cap (dict_step (dict_after n)).
Proof. exact dict_growth_invariant_l. Qed.
Print Assumptions dict_growth_invariant.

Theorem rva_to_offset_in_range : forall pe secs rva off,
  0 <= pe_data_size pe <= 9223372036854775807 ->
  pe_rva_to_offset pe secs rva = ROffset off -> 0 <= off < pe_data_size pe.
Proof. exact rva_to_offset_in_range_l. Qed.
Print Assumptions rva_to_offset_in_range.

Theorem caps_bound_iterations : forall pe secs rva,
  0 <= pe_nsec pe ->
  let r := section_loop loop_fuel pe secs rva 0 init_state in
  r <> LOutOfFuel /\ 0 <= loop_steps r <= Z.min (pe_nsec pe) MAX_PE_SECTIONS.
Proof. exact caps_bound_iterations_l. Qed.
Print Assumptions caps_bound_iterations.
