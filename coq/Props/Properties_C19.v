(* C19: compiled rules do not depend on how internal storage grew.
   Model: Model/ArenaMem.v (in-memory arena of libyara/arena.c: capacities, base addresses, realloc
   that may move, the relocation fix-up loop, yr_arena_ptr_to_ref).  Proofs: Proofs/ArenaMemProofs.v.
   Tie to /repo: checks/c19.py (op-sequence correspondence of the real yr_arena_* functions against
   the extracted model; compilations of generated rule sets at initial capacities 1 .. 1 MiB).

   [run orc (init nb cap) ops] executes an address-free description [ops] of what a client does
   (allocate, write, allocate_struct, make_ptr_relocatable, store a pointer to (buffer, offset), ...)
   on an arena of [nb] buffers with initial buffer size [cap]; every yr_realloc is answered by the
   oracle [orc] (a run is [MBad BadPlacement] when the answer is not a possible result of realloc:
   NULL, wrapping, or overlapping another live block).  [disciplined nb ops] is the premise
   "every pointer written is registered and points strictly inside a buffer or is NULL" (plus: slots
   lie inside the used part and do not overlap, plain bytes are not stored over a slot,
   yr_parser_emit_with_arg_reloc is not given a target in the buffer it writes to); it is decided
   by executing [ops] on address-free content, so it does not mention capacities or addresses. *)
From Coq Require Import List NArith Lia.
From YV Require Import Base.Bytes Model.Arena Model.ArenaMem Proofs.ArenaMemProofs.
Import ListNotations.
Local Open Scope N_scope.

(* growth or relocation, at whatever point it happens, is invisible in the content the saver sees:
   all op sequences, all initial capacities > 0, all placements *)
Theorem growth_invisible : forall nb ops cap cap' orc orc' m m',
  disciplined nb ops -> 0 < cap -> 0 < cap' ->
  run orc (init nb cap) ops = MOk m -> run orc' (init nb cap') ops = MOk m' ->
  abs m = abs m'.
Proof. exact growth_invisible_proof. Qed.
Print Assumptions growth_invisible.

(* ... and that content is the one obtained without any address at all *)
Theorem abs_address_free : forall nb ops cap orc m A,
  0 < cap -> arun true (ainit nb) ops = AOk A -> run orc (init nb cap) ops = MOk m ->
  absA m = A /\ inv m.
Proof. exact abs_is_address_free. Qed.
Print Assumptions abs_address_free.

(* the runs the two theorems above speak about exist unless memory runs out: a disciplined
   sequence never trips an assert, never writes out of bounds, never loops, and every zeroed
   allocation is zero *)
Theorem run_progress : forall nb ops cap orc,
  disciplined nb ops -> 0 < cap ->
  match run orc (init nb cap) ops with
  | MOk _ => True | MErr ENoMem => True | MBad BadPlacement => True | _ => False
  end.
Proof. exact run_progress_proof. Qed.
Print Assumptions run_progress.

(* yr_arena_save_stream on the memory image writes the same bytes whatever the capacity was, and
   they are [Arena.save] (the codec of C08/C17) of the address-free content *)
Corollary save_independent_of_capacity : forall c nb ops cap cap' orc orc' m m',
  disciplined nb ops -> 0 < cap -> 0 < cap' ->
  run orc (init nb cap) ops = MOk m -> run orc' (init nb cap') ops = MOk m' ->
  save_mem c m = save_mem c m' /\ save_mem c m = save c (abs m).
Proof. exact save_independent_of_capacity_proof. Qed.
Print Assumptions save_independent_of_capacity.

(* for C08: the bytes written depend only on the address-free content *)
Theorem save_address_free : forall c m m',
  slots_in (mrelocs m) (mbufs m) -> NoOv (mrelocs m) ->
  slots_in (mrelocs m') (mbufs m') -> NoOv (mrelocs m') ->
  abs m = abs m' -> save_mem c m = save_mem c m'.
Proof. exact save_address_free_proof. Qed.
Print Assumptions save_address_free.

(* the doubling loop terminates for every non-zero initial size (it does not for 0) *)
Theorem growth_terminates : forall init cp need, 0 < init -> grow_size init cp need <> GHang.
Proof. exact grow_never_hangs. Qed.
Print Assumptions growth_terminates.

(* ---- caveats, as refutations of the stronger statements *)

(* ONE PAST THE END.  The fix-up adjusts targets in [data, data + used) only.  A registered pointer
   to data + used (yr_arena_get_ptr permits offset = used) is left stale when its buffer moves:
   without "strictly inside" the theorem is false, and yr_arena_save_stream's assert(found) fires. *)
Theorem growth_invisible_one_past_end_refuted :
  exists nb ops cap cap' orc orc' m m',
    (exists A, arun false (ainit nb) ops = AOk A) /\ 0 < cap /\ 0 < cap' /\
    run orc (init nb cap) ops = MOk m /\ run orc' (init nb cap') ops = MOk m' /\
    abs_found m = false /\ abs_found m' = true /\ abs m <> abs m'.
Proof. exact one_past_end_refuted_proof. Qed.
Print Assumptions growth_invisible_one_past_end_refuted.

(* POINTER TAKEN BEFORE THE WRITE.  yr_parser_emit_with_arg_reloc (parser.c:139) receives a raw
   pointer and then writes twice to the code buffer before registering the slot; were the target in
   that same buffer the result would depend on the capacity.  All callers in /repo pass targets in
   other buffers (checked by the capacity sweep of checks/c19.py, not by proof). *)
Theorem pointer_taken_before_write_refuted :
  exists nb ops cap cap' orc orc' m m',
    arun true (ainit nb) ops = ADisc DSameBuffer /\ 0 < cap /\ 0 < cap' /\
    run orc (init nb cap) ops = MOk m /\ run orc' (init nb cap') ops = MOk m' /\ abs m <> abs m'.
Proof. exact pointer_taken_before_write_refuted_proof. Qed.
Print Assumptions pointer_taken_before_write_refuted.

(* THE 4 GB LIMIT.  new_size > 4GB fails; with initial size 3 a buffer of 3 GB + 1 byte needs 6 GB,
   with 1 MiB it needs exactly 4 GB: memory exhaustion is the one capacity-dependent outcome. *)
Theorem growth_limit_depends_on_capacity_refuted :
  grow_size 3 (3 * 1073741824) (3 * 1073741824 + 1) = GNoMem /\
  grow_size 1048576 2147483648 (3 * 1073741824 + 1) = GOk four_gb.
Proof. exact grow_limit_depends_on_capacity. Qed.
Print Assumptions growth_limit_depends_on_capacity_refuted.

(* FIXED DEFECT (pinned code, [init_pinned]): yr_arena_allocate_zeroed_memory and yr_arena_allocate_struct
   memset only the part added by a realloc that carried the ZERO flag; spare capacity left by a growth for
   yr_arena_write_data was handed out as it was, so whether "zeroed" memory was zero depended on the
   initial capacity.  The current code ([init], after "fix: zero the memory returned by
   yr_arena_allocate_zeroed_memory in every case") zeroes the region itself; checks/c19.py reports a
   reappearance under the key arena-zeroed-allocation-not-zeroed. *)
Theorem zeroed_allocation_not_zeroed_refuted_pinned :
  disciplined 1 dirty_ops /\
  run orc_up (init_pinned 1 8) dirty_ops = MBad BadDirtyZero /\
  is_ok (run orc_up (init_pinned 1 5) dirty_ops) = true /\
  is_ok (run orc_up (init 1 8) dirty_ops) = true.
Proof. exact zeroed_allocation_not_zeroed_pinned_proof. Qed.
Print Assumptions zeroed_allocation_not_zeroed_refuted_pinned.

(* non-vacuity: a sequence with every kind of operation, pointers inside a buffer, across buffers
   and NULL, is disciplined and runs at capacity 1 (8 moving reallocs) and at 1 MiB (3) *)
Example growth_invisible_inhabited :
  disciplined 3 ex_ops /\
  is_ok (run orc_up (init 3 1) ex_ops) = true /\ is_ok (run orc_down (init 3 1048576) ex_ops) = true /\
  mcalls (get_ok (run orc_up (init 3 1) ex_ops)) = 8%nat /\
  mcalls (get_ok (run orc_down (init 3 1048576) ex_ops)) = 3%nat.
Proof. exact ex_ops_ok. Qed.
