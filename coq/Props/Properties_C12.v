(* C12: shortcuts and compile-time evaluation never change a verdict (folding part).
   gen/GenFold.v is regenerated from libyara/grammar.y and libyara/exec.c on every run; the
   proofs are in Proofs/FoldProofs.v.  Operands range over all of Z (in particular all int64). *)
From Coq Require Import ZArith.
From YV Require Import gen.GenConsts Base.CSem gen.GenFold Spec.IntSpec Proofs.FoldProofs.
Local Open Scope Z_scope.

(* whenever the compiler folds a constant expression to a value, the scanner computes the same
   value for the opcode that the very same grammar action emits *)
Theorem fold_agrees_with_vm :
  agrees2 fold_add vm_of_fold_add /\ agrees2 fold_sub vm_of_fold_sub /\ agrees2 fold_mul vm_of_fold_mul /\
  agrees2 fold_div vm_of_fold_div /\ agrees2 fold_mod vm_of_fold_mod /\ agrees2 fold_bxor vm_of_fold_bxor /\
  agrees2 fold_band vm_of_fold_band /\ agrees2 fold_bor vm_of_fold_bor /\ agrees2 fold_shl vm_of_fold_shl /\
  agrees2 fold_shr vm_of_fold_shr /\ agrees1 fold_neg vm_of_fold_neg /\ agrees1 fold_bnot vm_of_fold_bnot.
Proof.
  exact (conj fold_add_agrees (conj fold_sub_agrees (conj fold_mul_agrees (conj fold_div_agrees
        (conj fold_mod_agrees (conj fold_bxor_agrees (conj fold_band_agrees (conj fold_bor_agrees
        (conj fold_shl_agrees (conj fold_shr_agrees (conj fold_neg_agrees fold_bnot_agrees))))))))))).
Qed.
Print Assumptions fold_agrees_with_vm.

(* the opcode emitted for each operator computes the documented operator *)
Theorem vm_computes_documented_operators : forall a b, a <> YR_UNDEFINED -> b <> YR_UNDEFINED ->
  vm_of_fold_add a b = enc (spec_add a b) /\ vm_of_fold_sub a b = enc (spec_sub a b) /\
  vm_of_fold_mul a b = enc (spec_mul a b) /\ vm_of_fold_div a b = enc (spec_div a b) /\
  vm_of_fold_mod a b = enc (spec_mod a b) /\ vm_of_fold_shl a b = enc (spec_shl a b) /\
  vm_of_fold_shr a b = enc (spec_shr a b) /\ vm_of_fold_band a b = enc (spec_band a b) /\
  vm_of_fold_bor a b = enc (spec_bor a b) /\ vm_of_fold_bxor a b = enc (spec_bxor a b).
Proof.
  intros a b Ha Hb.
  exact (conj (vm_add_spec a b Ha Hb) (conj (vm_sub_spec a b Ha Hb) (conj (vm_mul_spec a b Ha Hb)
        (conj (vm_div_spec a b Ha Hb) (conj (vm_mod_spec a b Ha Hb) (conj (vm_shl_spec a b Ha Hb)
        (conj (vm_shr_spec a b Ha Hb) (conj (vm_band_spec a b Ha Hb) (conj (vm_bor_spec a b Ha Hb)
        (vm_bxor_spec a b Ha Hb)))))))))).
Qed.
Print Assumptions vm_computes_documented_operators.

(* non-vacuity: folding does produce values, and rejects *)
Example fold_examples :
  fold_add 2 3 = Folded 5 /\ fold_shr 8 1 = Folded 4 /\ fold_shl 1 64 = Folded 0 /\
  fold_div 7 0 = Reject ERROR_DIVISION_BY_ZERO /\ fold_add INT64_MAX 1 = Reject ERROR_INTEGER_OVERFLOW /\
  fold_shl 1 (-1) = Reject ERROR_INVALID_OPERAND /\ fold_div INT64_MIN (-1) = Folded YR_UNDEFINED.
Proof. vm_compute. repeat split; reflexivity. Qed.

(* ---- the shortcuts of yr_scan_verify_match for text strings (Model/Verify.v) *)
From Coq Require Import List NArith.
From YV Require Import Base.Bytes Model.Image Model.AC Model.Verify Proofs.VerifyProofs.
Import ListNotations.

(* STRING_FLAGS_FIXED_OFFSET (a string used only as `$s at K`): the scan records exactly those matches of the unrestricted
   scan that are at K - nothing at K is lost, whichever atom hit proposes it and in whichever order *)
Theorem fixed_offset_shortcut_exact : forall cr sidx fl s K buf,
  scan_string cr sidx fl s (Some K) buf = filter (at_offset K) (scan_string cr sidx fl s None buf).
Proof. exact fixed_offset_shortcut_exact_proof. Qed.
Print Assumptions fixed_offset_shortcut_exact.

(* fast mode + STRING_FLAGS_SINGLE_MATCH (a string used only as `$s`): verification stops after the first recorded match;
   a match is recorded iff the unrestricted scan records one, and it is at one of the unrestricted scan's offsets *)
Theorem fast_mode_single_match_verdict : forall cr sidx fl s fixed buf,
  (scan_string_fast cr sidx fl s fixed buf = [] <-> scan_string cr sidx fl s fixed buf = []) /\
  (forall x, In x (scan_string_fast cr sidx fl s fixed buf) -> exists x', In x' (scan_string cr sidx fl s fixed buf) /\ fst x' = fst x).
Proof. exact fast_mode_single_match_proof. Qed.
Print Assumptions fast_mode_single_match_verdict.
