(* Unsigned / pointer C-semantics layer for gen/GenBounds.v and Model/PeRva.v (property C06).

   Values are Z.  An unsigned value of width w lives in [0, 2^w); every arithmetic operation
   reduces its result modulo 2^w (C 6.2.5p9).  Pointers are flat 64-bit addresses: pointer
   arithmetic is modelled as the x86-64 machine computes it, i.e. it WRAPS modulo 2^64 (in ISO C
   leaving the object is undefined; what the compiled code does is wrap, and the point of the
   soundness theorems is that under their hypotheses no wrap happens).
   Comparison of pointers is comparison of addresses.

   Short-circuit operators are emitted as [if] by the translator, not as andb/orb. *)
From Coq Require Import ZArith Lia Bool.
Local Open Scope Z_scope.

Definition M8  : Z := 256.
Definition M16 : Z := 65536.
Definition M32 : Z := 4294967296.
Definition M64 : Z := 18446744073709551616.

(* modulus of a width; only 8/16/32/64 occur, anything else is treated as 64 *)
Definition umod (w : Z) : Z :=
  if w =? 8 then M8 else if w =? 16 then M16 else if w =? 32 then M32 else M64.

Definition u_cast (w x : Z) : Z := x mod umod w.
Definition u_add (w a b : Z) : Z := (a + b) mod umod w.
Definition u_sub (w a b : Z) : Z := (a - b) mod umod w.
Definition u_mul (w a b : Z) : Z := (a * b) mod umod w.
(* / and % of unsigned values; division by zero traps in C: the translator refuses a divisor
   that is not guarded, the hand model guards it itself; here x/0 = 0 as in Coq *)
Definition u_div (w a b : Z) : Z := (a / b) mod umod w.
Definition u_rem (w a b : Z) : Z := (a mod b) mod umod w.
Definition u_and (w a b : Z) : Z := (Z.land a b) mod umod w.
(* ~x at width w *)
Definition u_not (w a : Z) : Z := (umod w - 1 - a) mod umod w.

Definition u_lt (a b : Z) : bool := a <? b.
Definition u_le (a b : Z) : bool := a <=? b.
Definition u_gt (a b : Z) : bool := b <? a.
Definition u_ge (a b : Z) : bool := b <=? a.
Definition u_eq (a b : Z) : bool := a =? b.
Definition u_ne (a b : Z) : bool := negb (a =? b).

(* pointers: element size is explicit (the translator only accepts byte-sized elements, [sz]=1,
   but the scale is kept in the term) *)
Definition p_add (sz p n : Z) : Z := (p + sz * n) mod M64.
Definition p_sub (sz p n : Z) : Z := (p - sz * n) mod M64.
Definition p_cast (x : Z) : Z := x mod M64.

(* int64_t view of a 64-bit pattern (two's complement) *)
Definition to_s64 (x : Z) : Z := if x <? 9223372036854775808 then x else x - M64.

Definition is_u (w x : Z) : Prop := 0 <= x < umod w.
Definition is_u64 (x : Z) : Prop := 0 <= x < M64.
Definition is_u32 (x : Z) : Prop := 0 <= x < M32.

(* a buffer [base, base+size) that exists in a 64-bit address space: its one-past-the-end
   address is representable *)
Definition addr_space_ok (base size : Z) : Prop := 0 <= base /\ 0 <= size /\ base + size < M64.

(* "the n bytes at p lie inside the buffer", in unbounded integers *)
Definition in_buffer (base size p n : Z) : Prop := base <= p /\ p + n <= base + size.

Lemma umod_cases : forall w, umod w = M8 \/ umod w = M16 \/ umod w = M32 \/ umod w = M64.
Proof.
  intro w. unfold umod.
  destruct (w =? 8); [auto|]. destruct (w =? 16); [auto|]. destruct (w =? 32); auto.
Qed.

Lemma umod_64 : umod 64 = M64. Proof. reflexivity. Qed.
Lemma umod_32 : umod 32 = M32. Proof. reflexivity. Qed.
Lemma umod_16 : umod 16 = M16. Proof. reflexivity. Qed.

Lemma u_cast_id : forall w x, is_u w x -> u_cast w x = x.
Proof. intros w x H. unfold u_cast, is_u in *. apply Z.mod_small. exact H. Qed.

Lemma u_cast_range : forall w x, is_u w (u_cast w x).
Proof.
  intros w x. unfold is_u, u_cast. apply Z.mod_pos_bound.
  destruct (umod_cases w) as [E|[E|[E|E]]]; rewrite E; reflexivity.
Qed.
