(* Bytes, little-endian codecs and list-slicing lemmas shared by all models. *)
From Coq Require Import List NArith ZArith Lia Bool.
Import ListNotations.
Local Open Scope N_scope.

Definition bytes := list N.

Definition is_byte (b : N) : bool := b <? 256.
Definition all_bytes (l : bytes) : bool := forallb is_byte l.

Fixpoint le_enc (k : nat) (v : N) : bytes :=
  match k with
  | O => []
  | S k' => (v mod 256) :: le_enc k' (v / 256)
  end.

Fixpoint le_dec (l : bytes) : N :=
  match l with
  | [] => 0
  | b :: r => b + 256 * le_dec r
  end.

Definition nlen {A} (l : list A) : N := N.of_nat (length l).

(* sub-list [off, off+n) ; total: clipped *)
Definition slice {A} (l : list A) (off n : nat) : list A := firstn n (skipn off l).

(* overwrite l[off .. off+|v|) by v ; requires off+|v| <= |l| to be meaningful *)
Definition splice {A} (l : list A) (off : nat) (v : list A) : list A :=
  firstn off l ++ v ++ skipn (off + length v) l.

Lemma le_enc_length k v : length (le_enc k v) = k.
Proof. revert v; induction k as [|k IH]; intros v; simpl; [reflexivity|]. now rewrite IH. Qed.

Lemma le_dec_enc k v : v < 256 ^ N.of_nat k -> le_dec (le_enc k v) = v.
Proof.
  revert v; induction k as [|k IH]; intros v Hv.
  - simpl in *. lia.
  - cbn [le_enc le_dec]. rewrite IH.
    + pose proof (N.div_mod v 256). lia.
    + rewrite Nnat.Nat2N.inj_succ, N.pow_succ_r' in Hv.
      apply N.div_lt_upper_bound; lia.
Qed.

Lemma le_enc_all_bytes k v : all_bytes (le_enc k v) = true.
Proof.
  revert v; induction k as [|k IH]; intros v; simpl; [reflexivity|].
  unfold all_bytes in IH. rewrite IH, andb_true_r. unfold is_byte.
  apply N.ltb_lt. apply N.mod_lt. lia.
Qed.

Lemma le_dec_bound l : all_bytes l = true -> le_dec l < 256 ^ N.of_nat (length l).
Proof.
  induction l as [|b r IH]; intros H.
  - cbn. lia.
  - cbn [all_bytes forallb] in H. apply andb_true_iff in H as [Hb Hr]. specialize (IH Hr).
    unfold is_byte in Hb. apply N.ltb_lt in Hb.
    cbn [le_dec length]. rewrite Nnat.Nat2N.inj_succ, N.pow_succ_r'. lia.
Qed.

Lemma le_enc_dec l : all_bytes l = true -> le_enc (length l) (le_dec l) = l.
Proof.
  induction l as [|b r IH]; intros H; [reflexivity|].
  cbn [all_bytes forallb] in H. apply andb_true_iff in H as [Hb Hr].
  unfold is_byte in Hb. apply N.ltb_lt in Hb.
  cbn [length le_enc le_dec]. f_equal.
  - symmetry. apply N.mod_unique with (q := le_dec r); lia.
  - rewrite <- (N.div_unique (b + 256 * le_dec r) 256 (le_dec r) b) by lia. now apply IH.
Qed.

Lemma all_bytes_app a b : all_bytes (a ++ b) = all_bytes a && all_bytes b.
Proof. unfold all_bytes. apply forallb_app. Qed.

Lemma all_bytes_firstn n l : all_bytes l = true -> all_bytes (firstn n l) = true.
Proof.
  unfold all_bytes. rewrite !forallb_forall. intros H x Hx. apply H.
  rewrite <- (firstn_skipn n l). apply in_or_app. now left.
Qed.

Lemma all_bytes_skipn n l : all_bytes l = true -> all_bytes (skipn n l) = true.
Proof.
  unfold all_bytes. rewrite !forallb_forall. intros H x Hx. apply H.
  rewrite <- (firstn_skipn n l). apply in_or_app. now right.
Qed.

Lemma splice_length {A} (l : list A) off v :
  (off + length v <= length l)%nat -> length (splice l off v) = length l.
Proof.
  intros H. unfold splice. rewrite !app_length, firstn_length, skipn_length. lia.
Qed.

Lemma slice_splice_same {A} (l : list A) off v :
  (off + length v <= length l)%nat -> slice (splice l off v) off (length v) = v.
Proof.
  intros H. unfold slice, splice.
  rewrite skipn_app. rewrite firstn_length. replace (off - Nat.min off (length l))%nat with 0%nat by lia.
  rewrite skipn_all2 by (rewrite firstn_length; lia). simpl.
  rewrite firstn_app. replace (length v - length v)%nat with 0%nat by lia.
  rewrite firstn_all. simpl. now rewrite app_nil_r.
Qed.

Fixpoint bytes_eqb (a b : bytes) : bool :=
  match a, b with
  | [], [] => true
  | x :: a', y :: b' => (x =? y) && bytes_eqb a' b'
  | _, _ => false
  end.

Lemma bytes_eqb_eq a b : bytes_eqb a b = true <-> a = b.
Proof.
  revert b; induction a as [|x a IH]; intros [|y b]; simpl; split; intros H; try congruence; try reflexivity.
  - apply andb_true_iff in H as [H1 H2]. apply N.eqb_eq in H1. apply IH in H2. congruence.
  - inversion H; subst. rewrite N.eqb_refl. simpl. now apply IH.
Qed.

Lemma firstn_app_exact {A} n (a b : list A) : n = length a -> firstn n (a ++ b) = a.
Proof. intros ->. rewrite firstn_app, Nat.sub_diag, firstn_all. simpl. apply app_nil_r. Qed.

Lemma skipn_app_exact {A} n (a b : list A) : n = length a -> skipn n (a ++ b) = b.
Proof. intros ->. rewrite skipn_app, Nat.sub_diag, skipn_all. reflexivity. Qed.

Lemma skipn_skipn' {A} a b (l : list A) : skipn a (skipn b l) = skipn (b + a) l.
Proof.
  revert l; induction b as [|b IH]; intros l; [reflexivity|].
  destruct l as [|x l]; cbn [skipn Nat.add]; [now rewrite skipn_nil|]. apply IH.
Qed.
