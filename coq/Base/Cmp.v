(* Comparison operators of C limit tests, as first-class values: lib/genlimits.py emits the operator
   each limit test uses in the source, Model/Limits.v evaluates it with [cmp_eval]. *)
From Coq Require Import ZArith Bool Lia.
Local Open Scope Z_scope.

Inductive cmpop := CEq | CNe | CLt | CLe | CGt | CGe.

Definition cmp_eval (o : cmpop) (a b : Z) : bool :=
  match o with
  | CEq => a =? b
  | CNe => negb (a =? b)
  | CLt => a <? b
  | CLe => a <=? b
  | CGt => b <? a
  | CGe => b <=? a
  end.

Definition cmp_prop (o : cmpop) (a b : Z) : Prop :=
  match o with
  | CEq => a = b
  | CNe => a <> b
  | CLt => a < b
  | CLe => a <= b
  | CGt => b < a
  | CGe => b <= a
  end.

Lemma cmp_true_iff : forall o a b, cmp_eval o a b = true <-> cmp_prop o a b.
Proof.
  intros o a b; destruct o; simpl.
  - apply Z.eqb_eq.
  - rewrite negb_true_iff. apply Z.eqb_neq.
  - apply Z.ltb_lt.
  - apply Z.leb_le.
  - apply Z.ltb_lt.
  - apply Z.leb_le.
Qed.

Lemma cmp_false_iff : forall o a b, cmp_eval o a b = false <-> ~ cmp_prop o a b.
Proof.
  intros o a b. rewrite <- cmp_true_iff. destruct (cmp_eval o a b); intuition congruence.
Qed.

(* C integer conversions, for expressions translated from the source: a value converted to an unsigned type of
   modulus m is z mod m; to a signed type of modulus m (h = m/2) it is the representative in [-h, h) -- what gcc
   computes for signed overflow as well (formally undefined behaviour) *)
Definition c_wrap_u (m z : Z) : Z := z mod m.
Definition c_wrap_s (m h z : Z) : Z := (z + h) mod m - h.
