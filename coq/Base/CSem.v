(* C-semantics layer for the generated models (GenFold.v, GenVM.v, GenBounds.v).
   int64 values are Z in [-2^63, 2^63); arithmetic wraps (two's complement, as gcc/clang on
   x86-64 compute it); the operations that trap in hardware or whose result the C standard
   leaves to the machine in a way that matters (division by zero, INT64_MIN / -1, shift counts
   outside 0..63) are [CTrap]. *)
From Coq Require Import ZArith Lia Bool.
From YV Require Import gen.GenConsts.
Local Open Scope Z_scope.

Definition INT64_MIN : Z := - 9223372036854775808.
Definition INT64_MAX : Z := 9223372036854775807.
Definition two64 : Z := 18446744073709551616.

Definition wrap64 (z : Z) : Z := (z + 9223372036854775808) mod two64 - 9223372036854775808.
Definition in64 (z : Z) : Prop := INT64_MIN <= z <= INT64_MAX.
Definition in64b (z : Z) : bool := (INT64_MIN <=? z) && (z <=? INT64_MAX).

Inductive cres := CVal (z : Z) | CTrap.

Definition lift1 (f : Z -> cres) (a : cres) : cres := match a with CVal x => f x | CTrap => CTrap end.
Definition lift2 (f : Z -> Z -> cres) (a b : cres) : cres :=
  match a, b with CVal x, CVal y => f x y | _, _ => CTrap end.
Definition b2z (b : bool) : Z := if b then 1 else 0.

Definition c_add := lift2 (fun x y => CVal (wrap64 (x + y))).
Definition c_sub := lift2 (fun x y => CVal (wrap64 (x - y))).
Definition c_mul := lift2 (fun x y => CVal (wrap64 (x * y))).
Definition c_div := lift2 (fun x y =>
  if y =? 0 then CTrap else if (x =? INT64_MIN) && (y =? -1) then CTrap else CVal (Z.quot x y)).
Definition c_rem := lift2 (fun x y =>
  if y =? 0 then CTrap else if (x =? INT64_MIN) && (y =? -1) then CTrap else CVal (Z.rem x y)).
Definition c_shl := lift2 (fun x y =>
  if (y <? 0) || (64 <=? y) then CTrap else CVal (wrap64 (x * 2 ^ y))).
Definition c_shr := lift2 (fun x y =>
  if (y <? 0) || (64 <=? y) then CTrap else CVal (x / 2 ^ y)).      (* arithmetic shift: floor *)
Definition c_band := lift2 (fun x y => CVal (Z.land x y)).
Definition c_bor := lift2 (fun x y => CVal (Z.lor x y)).
Definition c_bxor := lift2 (fun x y => CVal (Z.lxor x y)).
Definition c_lt := lift2 (fun x y => CVal (b2z (x <? y))).
Definition c_gt := lift2 (fun x y => CVal (b2z (y <? x))).
Definition c_le := lift2 (fun x y => CVal (b2z (x <=? y))).
Definition c_ge := lift2 (fun x y => CVal (b2z (y <=? x))).
Definition c_eq := lift2 (fun x y => CVal (b2z (x =? y))).
Definition c_ne := lift2 (fun x y => CVal (b2z (negb (x =? y)))).
Definition c_neg := lift1 (fun x => CVal (wrap64 (- x))).
Definition c_bnot := lift1 (fun x => CVal (Z.lnot x)).
Definition c_lnot := lift1 (fun x => CVal (b2z (x =? 0))).
Definition c_llabs := lift1 (fun x => CVal (if x =? INT64_MIN then INT64_MIN else Z.abs x)).
Definition c_is_undef := lift1 (fun x => CVal (b2z (x =? YR_UNDEFINED))).

(* && || ?: evaluate their right operands only when C does *)
Definition c_land (a b : cres) : cres :=
  match a with CTrap => CTrap | CVal x => if x =? 0 then CVal 0 else lift1 (fun y => CVal (b2z (negb (y =? 0)))) b end.
Definition c_lor (a b : cres) : cres :=
  match a with CTrap => CTrap | CVal x => if x =? 0 then lift1 (fun y => CVal (b2z (negb (y =? 0)))) b else CVal 1 end.
Definition c_cond (c a b : cres) : cres :=
  match c with CTrap => CTrap | CVal x => if x =? 0 then b else a end.

(* ---- boolean conditions: [None] when evaluating the condition traps *)
Definition cb2 (f : Z -> Z -> bool) (a b : cres) : option bool :=
  match a, b with CVal x, CVal y => Some (f x y) | _, _ => None end.
Definition cb_lt := cb2 Z.ltb.
Definition cb_gt := cb2 (fun x y => y <? x).
Definition cb_le := cb2 Z.leb.
Definition cb_ge := cb2 (fun x y => y <=? x).
Definition cb_eq := cb2 Z.eqb.
Definition cb_ne := cb2 (fun x y => negb (x =? y)).
Definition cb_is_undef (a : cres) : option bool := match a with CVal x => Some (x =? YR_UNDEFINED) | CTrap => None end.
Definition cb_nz (a : cres) : option bool := match a with CVal x => Some (negb (x =? 0)) | CTrap => None end.

(* ---- statements of a grammar action / VM case, in continuation-passing style so that symbolic
   evaluation yields a decision tree: [fin] is where the action ends (fail_if_error / break),
   [k] is the rest of the action. *)
Inductive status := Running | Aborted | Trapped.
Record fstate := { f_result : Z; f_value : option Z; f_status : status }.

Definition trapped (s : fstate) : fstate := {| f_result := f_result s; f_value := f_value s; f_status := Trapped |}.

Section Stmt.
Variable R : Type.
Definition stmt := (fstate -> R) -> (fstate -> R) -> fstate -> R.
Definition s_skip : stmt := fun fin k s => k s.
Definition s_seq (a b : stmt) : stmt := fun fin k s => a fin (b fin k) s.
Definition s_set_value (e : fstate -> cres) : stmt := fun fin k s =>
  match e s with
  | CVal z => k {| f_result := f_result s; f_value := Some z; f_status := Running |}
  | CTrap => fin (trapped s)
  end.
Definition s_set_result (e : fstate -> cres) : stmt := fun fin k s =>
  match e s with
  | CVal z => k {| f_result := z; f_value := f_value s; f_status := Running |}
  | CTrap => fin (trapped s)
  end.
Definition s_ifb (c : fstate -> option bool) (t e : stmt) : stmt := fun fin k s =>
  match c s with
  | Some b => if b then t fin k s else e fin k s
  | None => fin (trapped s)
  end.
(* fail_if_error(x): leaves the action when x is not ERROR_SUCCESS (0) *)
Definition s_fail_if (e : fstate -> cres) : stmt := fun fin k s =>
  match e s with
  | CVal z => if z =? 0 then k s else fin {| f_result := z; f_value := f_value s; f_status := Aborted |}
  | CTrap => fin (trapped s)
  end.
(* break / push(r1); break of a VM case *)
Definition s_stop : stmt := fun fin k s => fin s.
Definition run_stmt (st : stmt) (fin : fstate -> R) (s : fstate) : R := st fin fin s.
End Stmt.
Arguments s_skip {R}. Arguments s_seq {R}. Arguments s_set_value {R}. Arguments s_set_result {R}.
Arguments s_ifb {R}. Arguments s_fail_if {R}. Arguments s_stop {R}. Arguments run_stmt {R}.

Definition init_state : fstate := {| f_result := 0; f_value := None; f_status := Running |}.

Inductive foldres :=
| Folded (v : Z)        (* the action succeeded and assigned this value to $$.value.integer *)
| Reject (code : Z)     (* compile error *)
| FTrap                 (* the compiler itself executes a trapping operation *)
| FNoValue.             (* the action succeeded without assigning a value *)

Definition fold_result (s : fstate) : foldres :=
  match f_status s with
  | Trapped => FTrap
  | _ => if f_result s =? 0 then match f_value s with Some v => Folded v | None => FNoValue end
         else Reject (f_result s)
  end.

(* VM case: the value left in r1.i when the case pushes r1 *)
Inductive vmres := VVal (v : Z) | VTrap | VNoValue.
Definition vm_result (s : fstate) : vmres :=
  match f_status s with
  | Trapped => VTrap
  | _ => match f_value s with Some v => VVal v | None => VNoValue end
  end.

Lemma wrap64_in_range z : in64 z -> wrap64 z = z.
Proof. unfold in64, wrap64, INT64_MIN, INT64_MAX, two64. intros H. rewrite Z.mod_small; lia. Qed.

Lemma wrap64_range z : in64 (wrap64 z).
Proof.
  unfold in64, wrap64, INT64_MIN, INT64_MAX, two64.
  pose proof (Z.mod_pos_bound (z + 9223372036854775808) 18446744073709551616 ltac:(lia)). lia.
Qed.
