(* Extraction of the executable models for the correspondence checks.
   ExtrOcamlBasic only: bool, option, unit, list, prod, sumbool, sumor are mapped to OCaml's;
   N, Z, positive, nat stay the Coq datatypes. *)
Require Extraction.
Require Import ExtrOcamlBasic.
From YV Require Import Base.Bytes Base.CSem Model.Arena gen.GenFold Spec.IntSpec.

Cd "extracted".
Extraction "model.ml" Arena.save Arena.arena_load Arena.rules_load Arena.wf_arena Arena.cfg_pinned Arena.cfg_current
  fold_add fold_sub fold_mul fold_div fold_mod fold_bxor fold_band fold_bor fold_shl fold_shr fold_neg fold_bnot
  vm_of_fold_add vm_of_fold_sub vm_of_fold_mul vm_of_fold_div vm_of_fold_mod vm_of_fold_bxor vm_of_fold_band
  vm_of_fold_bor vm_of_fold_shl vm_of_fold_shr vm_of_fold_neg vm_of_fold_bnot
  vm_OP_INT_EQ vm_OP_INT_NEQ vm_OP_INT_LT vm_OP_INT_GT vm_OP_INT_LE vm_OP_INT_GE
  spec_add spec_sub spec_mul spec_div spec_mod spec_bxor spec_band spec_bor spec_shl spec_shr spec_neg spec_bnot.
Cd "..".
