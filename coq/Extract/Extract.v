(* Extraction of the executable models for the correspondence checks.
   ExtrOcamlBasic only: bool, option, unit, list, prod, sumbool, sumor are mapped to OCaml's;
   N, Z, positive, nat stay the Coq datatypes. *)
Require Extraction.
Require Import ExtrOcamlBasic.
From YV Require Import Base.Bytes Model.Arena.

Cd "extracted".
Extraction "model.ml" Arena.save Arena.arena_load Arena.rules_load Arena.wf_arena Arena.cfg_pinned Arena.cfg_current.
Cd "..".
