(* Declarative side of C11: which messages a scan is supposed to send (no callback script, no bitmaps, no
   message counter), and what "the callback stopped the scan" means.  No proofs here. *)
From Coq Require Import List ZArith Bool Arith.
From YV Require Import gen.GenConsts Model.Report.
Import ListNotations.

Definition is_module_msg (m : rp_msg) : bool := match m with RImport _ | RImported _ => true | _ => false end.
Definition is_rule_msg (m : rp_msg) : bool := match m with RMatch _ | RNoMatch _ => true | _ => false end.
Definition rule_part (tr : list rp_msg) : list rp_msg := filter is_rule_msg tr.
Definition module_part (tr : list rp_msg) : list rp_msg := filter is_module_msg tr.

(* "a rule is reported as matching iff its condition holds and every global rule in its namespace holds" *)
Definition rule_holds (all : list rp_rule) (r : rp_rule) : Prop :=
  rp_rule_true r = true /\
  forall g, In g all -> rp_global g = true -> rp_ns g = rp_ns r -> rp_rule_true g = true.

(* the same, computable *)
Definition ns_ok (all : list rp_rule) (ns : nat) : bool :=
  forallb (fun g => if (if rp_global g then Nat.eqb (rp_ns g) ns else false) then rp_rule_true g else true) all.
Definition verdict (all : list rp_rule) (r : rp_rule) : bool := if rp_rule_true r then ns_ok all (rp_ns r) else false.

(* the rule messages of a scan that is not stopped: one entry per non-private rule, in definition order,
   filtered by the two report flags ([f] is the flag word after yr_scanner_set_flags) *)
Definition expected_one (f : Z) (all : list rp_rule) (i : nat) (r : rp_rule) : list rp_msg :=
  if rp_private r then []
  else if verdict all r then (if rp_rep_m f then [RMatch i] else [])
  else (if rp_rep_n f then [RNoMatch i] else []).
Fixpoint expected_from (f : Z) (all rules : list rp_rule) (i : nat) : list rp_msg :=
  match rules with
  | [] => []
  | r :: rs => expected_one f all i r ++ expected_from f all rs (S i)
  end.
Definition expected (f : Z) (rules : list rp_rule) : list rp_msg := expected_from (rp_set_flags f) rules rules 0.

(* the module messages: one IMPORT_MODULE / MODULE_IMPORTED pair per distinct module, in order of first import *)
Fixpoint dedup (l seen : list nat) : list nat :=
  match l with
  | [] => []
  | m :: r => if existsb (Nat.eqb m) seen then dedup r seen else m :: dedup r (m :: seen)
  end.
Definition module_msgs (imports : list nat) : list rp_msg :=
  flat_map (fun m => [RImport m; RImported m]) (dedup imports []).

(* all messages of a scan the callback never stops *)
Definition rp_full (imports : list nat) (rules : list rp_rule) (f : Z) : list rp_msg :=
  module_msgs imports ++ expected f rules ++ [RFinished].

(* which answers stop a scan: CALLBACK_ERROR to a module message; CALLBACK_ABORT or CALLBACK_ERROR to a rule
   message; nothing in response to SCAN_FINISHED *)
Definition rp_stops (sc : rp_script) (k : nat) (m : rp_msg) : option rp_outcome :=
  match m with
  | RImport _ | RImported _ => if rp_is_error (sc k) then Some RErrored else None
  | RMatch _ | RNoMatch _ =>
      if rp_is_abort (sc k) then Some RAborted else if rp_is_error (sc k) then Some RErrored else None
  | RFinished => None
  end.

(* walk the full message list with the script: deliver messages until an answer stops the scan *)
Fixpoint rp_cut (sc : rp_script) (k : nat) (msgs : list rp_msg) : list rp_msg * rp_outcome :=
  match msgs with
  | [] => ([], RCompleted)
  | m :: ms =>
      match rp_stops sc k m with
      | Some o => ([m], o)
      | None => let '(t, o) := rp_cut sc (S k) ms in (m :: t, o)
      end
  end.

(* "the scan was stopped by the callback": some delivered message got a stopping answer *)
Definition answers_stop (sc : rp_script) (tr : list rp_msg) : Prop :=
  exists k m, nth_error tr k = Some m /\ rp_stops sc k m <> None.

Definition rp_trace imports rules f sc : list rp_msg := fst (rp_scan imports rules f sc).
Definition rp_ret imports rules f sc : Z := snd (rp_scan imports rules f sc).
Definition never_stop : rp_script := fun _ => CALLBACK_CONTINUE.
