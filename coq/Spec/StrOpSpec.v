(* String operators of conditions (docs/writingrules.rst, "String operators" / comparison of strings):
   contains, icontains, startswith, istartswith, endswith, iendswith, iequals, ==, !=, <, <=, >, >= on byte strings.
   The i-forms compare after mapping both operands through the ASCII lower-case table. *)
From Coq Require Import List NArith Bool Lia.
From YV Require Import Base.Bytes gen.GenTables Spec.TextSpec.
Import ListNotations.
Local Open Scope N_scope.

Definition lower_s (s : bytes) : bytes := map lower s.

Fixpoint is_prefix (p s : bytes) : bool :=
  match p, s with
  | [], _ => true
  | x :: p', y :: s' => (x =? y) && is_prefix p' s'
  | _ :: _, [] => false
  end.

Fixpoint contains (hay needle : bytes) : bool :=
  is_prefix needle hay || match hay with [] => false | _ :: r => contains r needle end.

(* lexicographic order on unsigned bytes, a proper prefix is smaller *)
Fixpoint s_compare (a b : bytes) : comparison :=
  match a, b with
  | [], [] => Eq
  | [], _ :: _ => Lt
  | _ :: _, [] => Gt
  | x :: a', y :: b' => match x ?= y with Eq => s_compare a' b' | c => c end
  end.

Inductive strop := SContains | SIContains | SStartsWith | SIStartsWith | SEndsWith | SIEndsWith | SIEquals
                 | SEq | SNe | SLt | SLe | SGt | SGe.

Definition strop_eval (op : strop) (a b : bytes) : bool :=
  match op with
  | SContains => contains a b
  | SIContains => contains (lower_s a) (lower_s b)
  | SStartsWith => is_prefix b a
  | SIStartsWith => is_prefix (lower_s b) (lower_s a)
  | SEndsWith => is_prefix (rev b) (rev a)
  | SIEndsWith => is_prefix (rev (lower_s b)) (rev (lower_s a))
  | SIEquals => bytes_eqb (lower_s a) (lower_s b)
  | SEq => match s_compare a b with Eq => true | _ => false end
  | SNe => match s_compare a b with Eq => false | _ => true end
  | SLt => match s_compare a b with Lt => true | _ => false end
  | SLe => match s_compare a b with Gt => false | _ => true end
  | SGt => match s_compare a b with Gt => true | _ => false end
  | SGe => match s_compare a b with Lt => false | _ => true end
  end.
