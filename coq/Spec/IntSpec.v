(* Documented semantics of YARA's integer operators (docs/writingrules.rst: 64-bit signed integers,
   undefined results for division by zero etc.).  Operands and results are Z in the int64 range;
   [None] is the undefined value. *)
From Coq Require Import ZArith Bool.
From YV Require Import Base.CSem.
Local Open Scope Z_scope.

Definition spec_add (a b : Z) : option Z := Some (wrap64 (a + b)).
Definition spec_sub (a b : Z) : option Z := Some (wrap64 (a - b)).
Definition spec_mul (a b : Z) : option Z := Some (wrap64 (a * b)).
Definition spec_div (a b : Z) : option Z :=
  if b =? 0 then None else if (a =? INT64_MIN) && (b =? -1) then None else Some (Z.quot a b).
Definition spec_mod (a b : Z) : option Z :=
  if b =? 0 then None else if (a =? INT64_MIN) && (b =? -1) then None else Some (Z.rem a b).
Definition spec_shl (a b : Z) : option Z :=
  if b <? 0 then None else if b <? 64 then Some (wrap64 (a * 2 ^ b)) else Some 0.
Definition spec_shr (a b : Z) : option Z :=
  if b <? 0 then None else if b <? 64 then Some (a / 2 ^ b) else Some 0.
Definition spec_band (a b : Z) : option Z := Some (Z.land a b).
Definition spec_bor (a b : Z) : option Z := Some (Z.lor a b).
Definition spec_bxor (a b : Z) : option Z := Some (Z.lxor a b).
Definition spec_neg (a : Z) : option Z := Some (wrap64 (- a)).
Definition spec_bnot (a : Z) : option Z := Some (Z.lnot a).
Definition spec_cmp (f : Z -> Z -> bool) (a b : Z) : option Z := Some (b2z (f a b)).
