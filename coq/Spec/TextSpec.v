(* Documented semantics of text strings (docs/writingrules.rst, "Text strings"): ascii, wide,
   nocase, fullword, xor(min-max).  A buffer is a list of bytes; an occurrence is
   (offset, length, xor key).  Executable, with the declarative relation [occ] it decides. *)
From Coq Require Import List NArith Bool Lia.
From YV Require Import Base.Bytes gen.GenTables.
Import ListNotations.
Local Open Scope N_scope.

Record tmods := { m_ascii : bool; m_wide : bool; m_nocase : bool; m_fullword : bool; m_xor : option (N * N) }.

(* The documented character classes: "alphanumeric" is 0-9 A-Z a-z, and case-insensitive comparison folds A-Z onto a-z.  The tables the
   implementation uses (gen/GenTables.v, obtained from /repo's yr_isalnum / yr_lowercase on every run) are tied to these definitions by the
   obligation [character_tables_are_documented] of Props/Properties_C01.v. *)
Definition lower (b : N) : N := if (65 <=? b) && (b <=? 90) then b + 32 else b.
Definition alnum (b : N) : bool := ((48 <=? b) && (b <=? 57)) || ((65 <=? b) && (b <=? 90)) || ((97 <=? b) && (b <=? 122)).
Definition table_lower (b : N) : N := nth (N.to_nat b) lowercase_table b.
Definition table_alnum (b : N) : bool := nth (N.to_nat b) isalnum_table false.

Definition byte_eq (nocase : bool) (x y : N) : bool := if nocase then lower x =? lower y else x =? y.

(* does [pat] (each byte xored with k) occur at the head of [data] *)
Fixpoint match_ascii (nocase : bool) (k : N) (pat data : bytes) : bool :=
  match pat, data with
  | [], _ => true
  | p :: pat', d :: data' => byte_eq nocase d (N.lxor p k) && match_ascii nocase k pat' data'
  | _ :: _, [] => false
  end.

(* wide: every character is followed by a zero byte; with xor the zero is xored too *)
Fixpoint match_wide (nocase : bool) (k : N) (pat data : bytes) : bool :=
  match pat, data with
  | [], _ => true
  | p :: pat', d :: z :: data' => byte_eq nocase d (N.lxor p k) && (z =? k) && match_wide nocase k pat' data'
  | _ :: _, _ => false
  end.

Definition at_opt (buf : bytes) (i : nat) : option N := nth_error buf i.

(* "delimited by non-alphanumeric characters"; for wide strings the delimiter is a 16-bit character *)
Definition fullword_ascii (buf : bytes) (o len : nat) : bool :=
  (match o with O => true | S o' => match at_opt buf o' with Some c => negb (alnum c) | None => true end end) &&
  (match at_opt buf (o + len) with Some c => negb (alnum c) | None => true end).

Definition fullword_wide (buf : bytes) (o len : nat) : bool :=
  negb (match o with
        | S (S o2) => match at_opt buf (S o2), at_opt buf o2 with Some z, Some c => (z =? 0) && alnum c | _, _ => false end
        | _ => false end) &&
  negb (match at_opt buf (o + len), at_opt buf (o + len + 1) with Some c, Some z => (z =? 0) && alnum c | _, _ => false end).

Definition keys_of (m : tmods) (first_data first_pat : N) : list N :=
  match m_xor m with
  | None => [0]
  | Some (lo, hi) => let k := N.lxor first_data first_pat in if (lo <=? k) && (k <=? hi) then [k] else []
  end.

(* all (length, key) with which the string occurs at offset o *)
Definition occs_at (s : bytes) (m : tmods) (buf : bytes) (o : nat) : list (N * N) :=
  let data := skipn o buf in
  match s, data with
  | p0 :: _, d0 :: _ =>
      let ks := keys_of m d0 p0 in
      let asc := m_ascii m || negb (m_wide m) in
      (if asc then
         flat_map (fun k => if match_ascii (m_nocase m) k s data &&
                               (negb (m_fullword m) || fullword_ascii buf o (length s))
                            then [(nlen s, k)] else []) ks
       else []) ++
      (if m_wide m then
         flat_map (fun k => if match_wide (m_nocase m) k s data &&
                               (negb (m_fullword m) || fullword_wide buf o (2 * length s))
                            then [(2 * nlen s, k)] else []) ks
       else [])
  | _, _ => []
  end.

Definition occ (s : bytes) (m : tmods) (buf : bytes) (o : nat) (lk : N * N) : Prop := In lk (occs_at s m buf o).

(* the matches of a string: offsets in ascending order, each once, each with its admissible (length,key)s *)
Definition text_matches (s : bytes) (m : tmods) (buf : bytes) : list (nat * list (N * N)) :=
  filter (fun x => match snd x with [] => false | _ => true end)
         (map (fun o => (o, occs_at s m buf o)) (seq 0 (length buf))).

Definition legal (m : tmods) : bool :=
  match m_xor m with Some (lo, hi) => negb (m_nocase m) && (lo <=? hi) && (hi <? 256) | None => true end.
