(* base64 / base64wide text strings (docs/writingrules.rst, "Base64 strings"): the string is searched for in the three
   forms it can take inside the base64 encoding of a larger text, depending on its byte offset modulo 3; the characters
   that also depend on the neighbouring bytes of the text are left out.  [sextet_at] is the j-th 6-bit group of the bit
   string of a text; [b64_variant] is what the compiler searches for (base64.c: encode "A"^i ++ s, drop i+1 leading
   characters when i > 0 and pad+1 trailing characters when there is padding).  Proofs/Base64Proofs.v shows that every
   variant is context independent: whatever surrounds s in a text, the encoding of the text contains the variant. *)
From Coq Require Import List Arith NArith Bool Lia.
From YV Require Import Base.Bytes Spec.TextSpec Model.TextAtoms.
Import ListNotations.
Local Open Scope N_scope.

Definition byte_nth (T : bytes) (q : nat) : N := nth q T 0.

(* bits 6j .. 6j+5 of the text, missing bits are zero *)
Definition sextet_at (T : bytes) (j : nat) : N :=
  let bit := (6 * j)%nat in
  let q := (bit / 8)%nat in
  let r := (bit mod 8)%nat in
  let w := byte_nth T q * 256 + byte_nth T (S q) in
  (w / 2 ^ N.of_nat (10 - r)) mod 64.

Definition data_chars (n : nat) : nat := ((4 * n + 2) / 3)%nat.      (* characters that carry bits of n bytes *)
Definition pad_of (n : nat) : nat := ((3 - n mod 3) mod 3)%nat.

(* RFC 4648 with an arbitrary 64-character alphabet *)
Definition b64_encode (alpha : bytes) (T : bytes) : bytes :=
  map (fun j => nth (N.to_nat (sextet_at T j)) alpha 0) (seq 0 (data_chars (length T))) ++ repeat 61 (pad_of (length T)).

Definition b64_leading (i : nat) : nat := match i with O => O | _ => S i end.
Definition b64_trailing (pad : nat) : nat := match pad with O => O | _ => S pad end.

(* the i-th searched form: characters [leading, data_chars - (1 if padded)) of the encoding of "A"^i ++ s *)
Definition b64_variant (alpha : bytes) (s : bytes) (i : nat) : bytes :=
  let T := repeat 65 i ++ s in
  let e := b64_encode alpha T in
  let lead := b64_leading i in
  let trail := b64_trailing (pad_of (length T)) in
  firstn (length e - (lead + trail)) (skipn lead e).

Definition b64_offsets (s : bytes) : list nat := if (length s =? 1)%nat then [0; 2]%nat else [0; 1; 2]%nat.

Definition b64_variants (alpha : bytes) (s : bytes) (plain wide : bool) : list bytes :=
  (if plain then map (b64_variant alpha s) (b64_offsets s) else []) ++
  (if wide then map (fun i => widen (b64_variant alpha s i)) (b64_offsets s) else []).

(* a base64 string occurs at o with length len iff one of its forms is there *)
Definition b64_occs_at (alpha s : bytes) (plain wide : bool) (buf : bytes) (o : nat) : list N :=
  flat_map (fun v => if (negb (match v with [] => true | _ => false end)) && bytes_eqb (slice buf o (length v)) v then [nlen v] else [])
           (b64_variants alpha s plain wide).

Definition b64_matches (alpha s : bytes) (plain wide : bool) (buf : bytes) : list (nat * list N) :=
  filter (fun x => match snd x with [] => false | _ => true end)
         (map (fun o => (o, b64_occs_at alpha s plain wide buf o)) (seq 0 (length buf))).

Definition default_alphabet : bytes :=
  map N.of_nat (seq 65 26 ++ seq 97 26 ++ seq 48 10 ++ [43; 47]%nat).
