(* Documented semantics of rule conditions (docs/writingrules.rst "Conditions", "Undefined values"):
   a three-valued evaluator over the true match sets and the buffer.  [None] is the undefined value.
   Integer operators are those of Spec/IntSpec.v.  Where the manual is silent (empty loops, index 0)
   the comments say which reading is used. *)
From Coq Require Import List ZArith NArith Bool.
From YV Require Import Base.Bytes Base.CSem Spec.IntSpec.
Import ListNotations.
Local Open Scope Z_scope.

Inductive binop := OAdd | OSub | OMul | ODiv | OMod | OBand | OBor | OBxor | OShl | OShr.
Inductive cmpop := CEq | CNe | CLt | CGt | CLe | CGe.

Inductive iexpr :=
| ILit (z : Z)
| IFilesize
| IExt (k : nat)
| ICount (s : nat)
| IOffset (s : nat) (i : iexpr)
| ILength (s : nat) (i : iexpr)
| IRead (nbytes : nat) (signed bigendian : bool) (e : iexpr)
| INeg (e : iexpr)
| IBnot (e : iexpr)
| IBin (op : binop) (a b : iexpr)
| IVar (n : nat).                     (* loop variable, de Bruijn index from the innermost loop *)

Inductive quant := QAll | QAny | QNone | QNum (e : iexpr).

Inductive bexpr :=
| BTrue | BFalse
| BStr (s : nat)
| BAt (s : nat) (e : iexpr)
| BIn (s : nat) (lo hi : iexpr)
| BCmp (op : cmpop) (a b : iexpr)
| BAnd (a b : bexpr) | BOr (a b : bexpr) | BNot (a : bexpr)
| BDefined (a : bexpr)
| BDefinedI (e : iexpr)
| BOf (q : quant) (set : list nat)
| BOfIn (q : quant) (set : list nat) (lo hi : iexpr)      (* q of set in (lo..hi) *)
| BOfAt (q : quant) (set : list nat) (e : iexpr)          (* q of set at e *)
| BForIn (q : quant) (lo hi : iexpr) (body : bexpr)
| BForList (q : quant) (items : list iexpr) (body : bexpr)
| BForOf (q : quant) (set : list nat) (body : bexpr)   (* the body refers to the current string with BCur... *)
| BCur | BCurAt (e : iexpr) | BCurIn (lo hi : iexpr)
| BRule (k : nat)
| BInt (e : iexpr).                    (* an integer used as a boolean: true iff non zero *)

Record env := {
  e_buf : bytes;
  e_matches : list (list (Z * Z));     (* per string: (offset, length) ascending *)
  e_ext : list Z;                      (* integer externals *)
  e_rules : list bool;                 (* verdicts of earlier rules *)
  e_vars : list (option Z);            (* loop variables, innermost first; an enumeration item may be undefined *)
  e_cur : option nat }.                (* current string of a for..of loop *)

Definition matches_of (en : env) (s : nat) : list (Z * Z) := nth s (e_matches en) [].

Definition app_bin (op : binop) (a b : Z) : option Z :=
  match op with
  | OAdd => spec_add a b | OSub => spec_sub a b | OMul => spec_mul a b | ODiv => spec_div a b
  | OMod => spec_mod a b | OBand => spec_band a b | OBor => spec_bor a b | OBxor => spec_bxor a b
  | OShl => spec_shl a b | OShr => spec_shr a b
  end.

Definition app_cmp (op : cmpop) (a b : Z) : bool :=
  match op with
  | CEq => a =? b | CNe => negb (a =? b) | CLt => a <? b | CGt => b <? a | CLe => a <=? b | CGe => b <=? a
  end.

(* little/big endian reads of 1, 2 or 4 bytes at an offset inside the buffer *)
Definition read_int (buf : bytes) (nbytes : nat) (signed bigendian : bool) (off : Z) : option Z :=
  if (off <? 0) || (Z.of_nat (length buf) <? off + Z.of_nat nbytes) then None
  else
    let bs := slice buf (Z.to_nat off) nbytes in
    let v := Z.of_N (le_dec (if bigendian then rev bs else bs)) in
    let m := 2 ^ (8 * Z.of_nat nbytes) in
    Some (if signed && (m / 2 <=? v) then v - m else v).

Definition nth_match (l : list (Z * Z)) (i : Z) : option (Z * Z) :=
  if (i <? 1) || (Z.of_nat (length l) <? i) then None else nth_error l (Z.to_nat (i - 1)).

Fixpoint eval_i (en : env) (e : iexpr) : option Z :=
  match e with
  | ILit z => Some z
  | IFilesize => Some (Z.of_nat (length (e_buf en)))
  | IExt k => nth_error (e_ext en) k
  | ICount s => Some (Z.of_nat (length (matches_of en s)))
  | IOffset s i => match eval_i en i with
                   | Some iv => option_map fst (nth_match (matches_of en s) iv)
                   | None => None end
  | ILength s i => match eval_i en i with
                   | Some iv => option_map snd (nth_match (matches_of en s) iv)
                   | None => None end
  | IRead n sg be a => match eval_i en a with Some off => read_int (e_buf en) n sg be off | None => None end
  | INeg a => match eval_i en a with Some x => spec_neg x | None => None end
  | IBnot a => match eval_i en a with Some x => spec_bnot x | None => None end
  | IBin op a b => match eval_i en a, eval_i en b with Some x, Some y => app_bin op x y | _, _ => None end
  | IVar n => match nth_error (e_vars en) n with Some v => v | None => None end
  end.

Definition truth (v : option bool) : bool := match v with Some true => true | _ => false end.

Definition found_at (l : list (Z * Z)) (o : Z) : bool := existsb (fun m => fst m =? o) l.
Definition found_in (l : list (Z * Z)) (lo hi : Z) : bool := existsb (fun m => (lo <=? fst m) && (fst m <=? hi)) l.

(* quantifier verdict from the number of true bodies and of iterations.
   Reading used where the manual is silent: a loop over zero items is false for every quantifier. *)
Definition quant_verdict (q : option (option Z)) (trues total : Z) : option bool :=
  if total =? 0 then Some false else
  match q with
  | None => Some (trues =? total)                         (* all *)
  | Some None => None                                     (* undefined count: undefined *)
  | Some (Some n) => if n =? 0 then Some (trues =? 0) else Some (n <=? trues)
  end.

Definition eval_quant (en : env) (q : quant) : option (option Z) :=
  match q with
  | QAll => None
  | QAny => Some (Some 1)
  | QNone => Some (Some 0)
  | QNum e => Some (eval_i en e)
  end.

Definition range_items (lo hi : Z) : list Z :=
  if hi <? lo then [] else map (fun k => lo + Z.of_nat k) (seq 0 (Z.to_nat (hi - lo + 1))).

Definition with_var (en : env) (v : option Z) : env :=
  {| e_buf := e_buf en; e_matches := e_matches en; e_ext := e_ext en; e_rules := e_rules en;
     e_vars := v :: e_vars en; e_cur := e_cur en |}.
Definition with_cur (en : env) (s : nat) : env :=
  {| e_buf := e_buf en; e_matches := e_matches en; e_ext := e_ext en; e_rules := e_rules en;
     e_vars := e_vars en; e_cur := Some s |}.

Definition count_true (l : list (option bool)) : Z := Z.of_nat (length (filter truth l)).

Fixpoint eval_b (en : env) (b : bexpr) : option bool :=
  match b with
  | BTrue => Some true
  | BFalse => Some false
  | BStr s => Some (match matches_of en s with [] => false | _ => true end)
  | BAt s e => match eval_i en e with Some o => Some (found_at (matches_of en s) o) | None => None end
  | BIn s lo hi => match eval_i en lo, eval_i en hi with
                   | Some l, Some h => Some (found_in (matches_of en s) l h) | _, _ => None end
  | BCmp op a c => match eval_i en a, eval_i en c with Some x, Some y => Some (app_cmp op x y) | _, _ => None end
  | BAnd a c => Some (truth (eval_b en a) && truth (eval_b en c))       (* undefined counts as false *)
  | BOr a c => Some (truth (eval_b en a) || truth (eval_b en c))
  | BNot a => option_map negb (eval_b en a)
  | BDefined a => Some (match eval_b en a with Some _ => true | None => false end)
  | BDefinedI e => Some (match eval_i en e with Some _ => true | None => false end)
  | BOf q set =>
      quant_verdict (eval_quant en q)
        (count_true (map (fun s => Some (match matches_of en s with [] => false | _ => true end)) set))
        (Z.of_nat (length set))
  | BOfIn q set lo hi =>
      match eval_i en lo, eval_i en hi with
      | Some l, Some h =>
          quant_verdict (eval_quant en q)
            (count_true (map (fun s => Some (found_in (matches_of en s) l h)) set)) (Z.of_nat (length set))
      | _, _ => None
      end
  | BOfAt q set e =>
      match eval_i en e with
      | Some o =>
          quant_verdict (eval_quant en q)
            (count_true (map (fun s => Some (found_at (matches_of en s) o)) set)) (Z.of_nat (length set))
      | None => None
      end
  | BForIn q lo hi body =>
      match eval_i en lo, eval_i en hi with
      | Some l, Some h =>
          let items := range_items l h in
          quant_verdict (eval_quant en q) (count_true (map (fun v => eval_b (with_var en (Some v)) body) items))
                        (Z.of_nat (length items))
      | _, _ => None
      end
  | BForList q items body =>
      (* an undefined item makes the body see an undefined variable; the list itself is defined *)
      quant_verdict (eval_quant en q)
        (count_true (map (fun it => eval_b (with_var en (eval_i en it)) body) items))
        (Z.of_nat (length items))
  | BForOf q set body =>
      quant_verdict (eval_quant en q) (count_true (map (fun s => eval_b (with_cur en s) body) set))
                    (Z.of_nat (length set))
  | BCur => match e_cur en with Some s => Some (match matches_of en s with [] => false | _ => true end) | None => None end
  | BCurAt e => match e_cur en, eval_i en e with
                | Some s, Some o => Some (found_at (matches_of en s) o) | _, _ => None end
  | BCurIn lo hi => match e_cur en, eval_i en lo, eval_i en hi with
                    | Some s, Some l, Some h => Some (found_in (matches_of en s) l h) | _, _, _ => None end
  | BRule k => Some (nth k (e_rules en) false)
  | BInt e => option_map (fun z => negb (z =? 0)) (eval_i en e)
  end.

(* "an undefined condition is false" *)
Definition verdict (en : env) (b : bexpr) : bool := truth (eval_b en b).

(* a rule set: conditions in definition order, later ones may refer to earlier ones *)
Fixpoint verdicts (buf : bytes) (ms : list (list (Z * Z))) (ext : list Z) (conds : list bexpr) (done : list bool) : list bool :=
  match conds with
  | [] => done
  | c :: r =>
      let en := {| e_buf := buf; e_matches := ms; e_ext := ext; e_rules := done; e_vars := []; e_cur := None |} in
      verdicts buf ms ext r (done ++ [verdict en c])
  end.
