(* Hex strings as their own small syntax, with a reference matcher whose positions are binary numbers and
   whose jumps are intervals: the regular-expression reference (Spec/RegexSpec.v) unfolds a jump [n-m] into m
   nested optional bytes over Peano positions, which is too slow for patterns that the engine splits into
   chained pieces (jumps above YR_STRING_CHAINING_THRESHOLD = 200) on buffers with several candidate pieces.
   Proofs/HexProofs.v shows that [hends] computes exactly the relation M of the translated expression. *)
From Coq Require Import List Arith NArith Bool Lia.
From YV Require Import Base.Bytes Spec.RegexSpec.
Import ListNotations.
Local Open Scope N_scope.

Inductive hexpat :=
| HNil
| HTok (c : cset) (rest : hexpat)            (* a byte, ??, a nibble mask, a negated byte *)
| HJump (n m : N) (rest : hexpat)            (* [n-m], [n] = [n-n] *)
| HJumpInf (n : N) (rest : hexpat)           (* [n-] *)
| HAltP (a b : hexpat) (rest : hexpat).      (* ( a | b ) ; more alternatives nest in b *)

Definition anyset : re := RSet CAny.

Fixpoint hex_to_re (p : hexpat) : re :=
  match p with
  | HNil => REmpty
  | HTok c r => RCat (RSet c) (hex_to_re r)
  | HJump n m r => RCat (rrep anyset (N.to_nat n) (Some (N.to_nat m))) (hex_to_re r)
  | HJumpInf n r => RCat (rrep anyset (N.to_nat n) None) (hex_to_re r)
  | HAltP a b r => RCat (RAlt (hex_to_re a) (hex_to_re b)) (hex_to_re r)
  end.

(* all positions 0..length buf *)
Definition posns (buf : bytes) : list N := map N.of_nat (seq 0 (S (length buf))).
Definition byte_atN (buf : bytes) (i : N) : option N := nth_error buf (N.to_nat i).
Definition memN (x : N) (l : list N) : bool := existsb (N.eqb x) l.

(* the set of positions satisfying f: sorted, without duplicates, whatever f is.  [ps] is [posns buf], computed once *)
Definition norm (ps : list N) (f : N -> bool) : list N := filter f ps.

(* from a set of start positions to the set of end positions *)
Fixpoint hends_on (ps : list N) (buf : bytes) (p : hexpat) (S : list N) : list N :=
  match S with [] => [] | _ =>
  match p with
  | HNil => S
  | HTok c r =>
      hends_on ps buf r (norm ps (fun j => existsb (fun i => (N.succ i =? j) &&
                    match byte_atN buf i with Some b => in_cset c b | None => false end) S))
  | HJump n m r => hends_on ps buf r (norm ps (fun j => existsb (fun i => (i + n <=? j) && (j <=? i + m)) S))
  | HJumpInf n r => hends_on ps buf r (norm ps (fun j => existsb (fun i => i + n <=? j) S))
  | HAltP a b r =>
      let A := hends_on ps buf a S in
      let B := hends_on ps buf b S in
      hends_on ps buf r (norm ps (fun j => memN j A || memN j B))
  end end.

Definition hends (buf : bytes) (p : hexpat) (S : list N) : list N := hends_on (posns buf) buf p S.

Definition hex_lengths_on (ps : list N) (buf : bytes) (p : hexpat) (o : N) : list N :=
  map (fun j => j - o) (filter (fun j => o <? j) (hends_on ps buf p [o])).

(* a hex-string match at offset o is a non-empty span; every admissible length is listed *)
Definition hex_matches_all (buf : bytes) (p : hexpat) : list (N * list N) :=
  let ps := posns buf in
  filter (fun x => match snd x with [] => false | _ => true end)
         (map (fun o => (o, hex_lengths_on ps buf p o)) (map N.of_nat (seq 0 (length buf)))).
