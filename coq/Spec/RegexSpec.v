(* Semantics of YARA regular expressions and hex strings over a buffer (docs/writingrules.rst,
   "Regular expressions", "Hexadecimal strings").  A match is a span [i, j) of the buffer.
   [M] is the declarative relation; [ends] computes, for a start position, all end positions;
   Proofs/RegexProofs.v shows ends = M.  Greedy and lazy quantifiers denote the same language. *)
From Coq Require Import List Arith NArith Bool Lia.
From YV Require Import Base.Bytes gen.GenTables Spec.TextSpec.
Import ListNotations.

(* a set of bytes, as a predicate table would be too big: a small language of classes *)
Inductive cset :=
| CByte (b : N)                 (* exactly this byte *)
| CAny                          (* any byte (dot with /s, ?? in hex strings) *)
| CAnyNoNl                      (* dot without /s: any byte except \n *)
| CMask (value mask : N)        (* hex nibble wildcards: (x land mask) = value *)
| CRange (lo hi : N)
| CWord | CSpace | CDigit       (* \w \s \d *)
| CUnion (a b : cset)
| CNot (a : cset)
| CNoCase (a : cset).           (* a, or the other-case version of a byte in a *)

Definition is_space (b : N) : bool := (N.eqb b 32) || ((9 <=? b)%N && (b <=? 13)%N).
Definition is_digit (b : N) : bool := (48 <=? b)%N && (b <=? 57)%N.
Definition is_word (b : N) : bool := alnum b || N.eqb b 95.
Definition alter_b (b : N) : N := nth (N.to_nat b) altercase_table b.

Fixpoint in_cset (c : cset) (b : N) : bool :=
  match c with
  | CByte x => N.eqb b x
  | CAny => true
  | CAnyNoNl => negb (N.eqb b 10)
  | CMask v m => N.eqb (N.land b m) v
  | CRange lo hi => (lo <=? b)%N && (b <=? hi)%N
  | CWord => is_word b
  | CSpace => is_space b
  | CDigit => is_digit b
  | CUnion x y => in_cset x b || in_cset y b
  | CNot x => negb (in_cset x b)
  | CNoCase x => in_cset x b || in_cset x (alter_b b)
  end.

Inductive re :=
| REmpty                         (* matches the empty span *)
| RSet (c : cset)                (* one byte *)
| RCat (a b : re)
| RAlt (a b : re)
| RStar (a : re)                 (* a* and a*? *)
| RStart | REnd                  (* ^ $ : start / end of the scanned data *)
| RWordB | RNonWordB.            (* \b \B *)

(* a{n,m} and a{n,} are abbreviations *)
Fixpoint rpow (a : re) (n : nat) : re := match n with O => REmpty | S k => RCat a (rpow a k) end.
Fixpoint ropt_pow (a : re) (n : nat) : re := match n with O => REmpty | S k => RAlt REmpty (RCat a (ropt_pow a k)) end.
Definition rrep (a : re) (n : nat) (m : option nat) : re :=
  match m with
  | None => RCat (rpow a n) (RStar a)
  | Some mm => RCat (rpow a n) (ropt_pow a (mm - n))
  end.

Definition byte_at (buf : bytes) (i : nat) : option N := nth_error buf i.

(* \b: exactly one of the neighbours is a word character; outside the buffer counts as non-word *)
Definition word_boundary (buf : bytes) (i : nat) : bool :=
  let before := match i with O => false | S k => match byte_at buf k with Some c => is_word c | None => false end end in
  let after := match byte_at buf i with Some c => is_word c | None => false end in
  xorb before after.

Inductive M (buf : bytes) : re -> nat -> nat -> Prop :=
| M_empty i : M buf REmpty i i
| M_set c i b : byte_at buf i = Some b -> in_cset c b = true -> M buf (RSet c) i (S i)
| M_cat a b i k j : M buf a i k -> M buf b k j -> M buf (RCat a b) i j
| M_altl a b i j : M buf a i j -> M buf (RAlt a b) i j
| M_altr a b i j : M buf b i j -> M buf (RAlt a b) i j
| M_star0 a i : M buf (RStar a) i i
| M_star1 a i k j : M buf a i k -> M buf (RStar a) k j -> M buf (RStar a) i j
| M_start : M buf RStart 0 0
| M_end : M buf REnd (length buf) (length buf)
| M_wb i : word_boundary buf i = true -> (i <= length buf)%nat -> M buf RWordB i i
| M_nwb i : word_boundary buf i = false -> (i <= length buf)%nat -> M buf RNonWordB i i.

(* ---- executable: all end positions of matches starting at i *)
Definition nat_mem (x : nat) (l : list nat) : bool := existsb (Nat.eqb x) l.
Fixpoint add_all (l acc : list nat) : list nat :=
  match l with [] => acc | x :: r => if nat_mem x acc then add_all r acc else add_all r (acc ++ [x]) end.

(* closure of a step function from a start set: at most [fuel] rounds, stopping as soon as a round adds nothing *)
Fixpoint closure (step : nat -> list nat) (fuel : nat) (acc : list nat) : list nat :=
  match fuel with
  | O => acc
  | S f => let acc' := add_all (flat_map step acc) acc in
           if Nat.eqb (length acc') (length acc) then acc else closure step f acc'
  end.

Fixpoint ends (buf : bytes) (r : re) (i : nat) : list nat :=
  match r with
  | REmpty => [i]
  | RSet c => match byte_at buf i with Some b => if in_cset c b then [S i] else [] | None => [] end
  | RCat a b => add_all (flat_map (ends buf b) (ends buf a i)) []
  | RAlt a b => add_all (ends buf b i) (add_all (ends buf a i) [])
  | RStar a => closure (ends buf a) (S (length buf)) [i]
  | RStart => if Nat.eqb i 0 then [i] else []
  | REnd => if Nat.eqb i (length buf) then [i] else []
  | RWordB => if word_boundary buf i && (i <=? length buf)%nat then [i] else []
  | RNonWordB => if negb (word_boundary buf i) && (i <=? length buf)%nat then [i] else []
  end.

(* a string match at offset o: a NON-EMPTY span; all admissible lengths *)
Definition re_lengths (buf : bytes) (r : re) (o : nat) : list nat :=
  map (fun j => j - o) (filter (fun j => o <? j) (ends buf r o)).

Definition re_matches_all (buf : bytes) (r : re) : list (nat * list nat) :=
  filter (fun x => match snd x with [] => false | _ => true end)
         (map (fun o => (o, re_lengths buf r o)) (seq 0 (length buf))).

(* the `matches` operator: the expression matches somewhere in the operand (empty spans count) *)
Definition re_matches_somewhere (buf : bytes) (r : re) : bool :=
  existsb (fun o => match ends buf r o with [] => false | _ => true end) (seq 0 (S (length buf))).
