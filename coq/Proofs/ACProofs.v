(* Correctness of the stored Aho-Corasick automaton under the certificate ac_cert (Model/AC.v):
   the state after any input is the state of the longest suffix of the input that is a path, and the
   match list walked there contains exactly the own matches of all states whose path is a suffix. *)
From Coq Require Import List Arith NArith Bool Lia.
From YV Require Import Base.Bytes Model.Arena Model.Image Model.AC.
Import ListNotations.
Local Open Scope N_scope.

Definition suffix (v w : bytes) : Prop := exists p, w = p ++ v.

Lemma suffix_refl w : suffix w w. Proof. exists []. reflexivity. Qed.
Lemma suffix_nil w : suffix [] w. Proof. exists w. now rewrite app_nil_r. Qed.
Lemma suffix_cons v x w : suffix v w -> suffix v (x :: w).
Proof. intros [p ->]. exists (x :: p). reflexivity. Qed.
Lemma suffix_length v w : suffix v w -> (length v <= length w)%nat.
Proof. intros [p ->]. rewrite app_length. lia. Qed.
Lemma suffix_trans u v w : suffix u v -> suffix v w -> suffix u w.
Proof. intros [p ->] [q ->]. exists (q ++ p). now rewrite app_assoc. Qed.

(* two suffixes of the same word: the shorter is a suffix of the longer *)
Lemma suffix_total u v w : suffix u w -> suffix v w -> (length u <= length v)%nat -> suffix u v.
Proof.
  intros [p Hp] [q Hq] L. subst w.
  assert (Hlen : (length q <= length p)%nat).
  { apply (f_equal (@length N)) in Hq. rewrite !app_length in Hq. lia. }
  exists (skipn (length q) p).
  assert (E : p = firstn (length q) p ++ skipn (length q) p) by (symmetry; apply firstn_skipn).
  rewrite E in Hq at 1. rewrite <- app_assoc in Hq.
  assert (F : firstn (length q) p = q).
  { apply (f_equal (firstn (length q))) in Hq.
    rewrite firstn_app_exact in Hq by (rewrite firstn_length; lia).
    rewrite firstn_app_exact in Hq by reflexivity. exact Hq. }
  rewrite F in Hq. now apply app_inv_head in Hq.
Qed.

Lemma suffix_cons_inv v x w : suffix v (x :: w) -> v = x :: w \/ suffix v w.
Proof.
  intros [p H]. destruct p as [|y p]; [left; now simpl in H|].
  right. inversion H. exists p. reflexivity.
Qed.

Lemma suffix_snoc_inv u w b : suffix u (w ++ [b]) -> u = [] \/ exists u', u = u' ++ [b] /\ suffix u' w.
Proof.
  intros [p H]. destruct (rev u) as [|c ru] eqn:E.
  - left. apply (f_equal (@rev N)) in E. rewrite rev_involutive in E. exact E.
  - right. assert (Hu : u = rev ru ++ [c]) by (apply (f_equal (@rev N)) in E; rewrite rev_involutive in E; exact E).
    subst u. rewrite app_assoc in H. apply app_inj_tail in H as [H1 H2]. subst c.
    exists (rev ru). split; [reflexivity|]. exists p. exact H1.
Qed.

Section Cert.
Variable sts : list (N * bytes).
Definition P (w : bytes) : Prop := exists q, state_of sts w = Some q.

Hypothesis root : state_of sts [] = Some 0.
Hypothesis pclosed : forall w b, P (w ++ [b]) -> P w.

Lemma state_of_dec w : {q | state_of sts w = Some q} + {state_of sts w = None}.
Proof. destruct (state_of sts w) as [q|]; [left; now exists q|right; reflexivity]. Qed.

Lemma lsuf_suffix w : suffix (lsuf sts w) w.
Proof.
  induction w as [|x w IH]; cbn [lsuf].
  - destruct (state_of sts []); apply suffix_refl.
  - destruct (state_of sts (x :: w)); [apply suffix_refl|]. now apply suffix_cons.
Qed.

Lemma lsuf_P w : P (lsuf sts w).
Proof.
  induction w as [|x w IH]; cbn [lsuf].
  - destruct (state_of sts []) eqn:E; [now exists n|]. rewrite root in E. discriminate.
  - destruct (state_of sts (x :: w)) eqn:E; [now exists n|]. exact IH.
Qed.

Lemma lsuf_longest w v : suffix v w -> P v -> suffix v (lsuf sts w).
Proof.
  induction w as [|x w IH]; intros Hs [q Hq]; cbn [lsuf].
  - destruct Hs as [p Hp]. symmetry in Hp. apply app_eq_nil in Hp as [_ ->].
    rewrite Hq. apply suffix_refl.
  - destruct (suffix_cons_inv _ _ _ Hs) as [->|Hs'].
    + rewrite Hq. apply suffix_refl.
    + destruct (state_of sts (x :: w)); [exact Hs|]. apply IH; [exact Hs'|now exists q].
Qed.

Lemma suffix_antisym u v : suffix u v -> suffix v u -> u = v.
Proof.
  intros [p Hp] H2. pose proof (suffix_length _ _ H2) as L.
  subst v. rewrite app_length in L. destruct p; [reflexivity|simpl in L; lia].
Qed.

Lemma suffix_app_tail u w b : suffix u w -> suffix (u ++ [b]) (w ++ [b]).
Proof. intros [p ->]. exists p. now rewrite app_assoc. Qed.

(* the key step of Aho-Corasick *)
Lemma lsuf_step w b : lsuf sts (w ++ [b]) = lsuf sts (lsuf sts w ++ [b]).
Proof.
  set (d := lsuf sts w). set (u := lsuf sts (w ++ [b])).
  apply suffix_antisym.
  - (* u is a suffix of d ++ [b] and a path, hence a suffix of lsuf (d ++ [b]) *)
    apply lsuf_longest; [|apply lsuf_P].
    destruct (suffix_snoc_inv u w b (lsuf_suffix _)) as [E|[u' [E Hs]]].
    + rewrite E. apply suffix_nil.
    + rewrite E. apply suffix_app_tail. apply lsuf_longest; [exact Hs|].
      apply (pclosed u' b). rewrite <- E. apply lsuf_P.
  - apply lsuf_longest; [|apply lsuf_P].
    eapply suffix_trans; [apply lsuf_suffix|]. apply suffix_app_tail. apply lsuf_suffix.
Qed.

End Cert.

(* ------------------------------------------------------------------ from the boolean certificate to facts *)
Lemma state_of_in sts w q : state_of sts w = Some q -> In (q, w) sts.
Proof.
  unfold state_of. destruct (find _ sts) as [[q' w']|] eqn:E; [|discriminate].
  intros H. inversion H; subst. apply find_some in E as [Hin Hb]. cbn in Hb.
  apply bytes_eqb_eq in Hb. now subst.
Qed.

Lemma nodup_state_of sts q w : nodup_paths sts = true -> In (q, w) sts -> state_of sts w = Some q.
Proof.
  induction sts as [|[q0 w0] r IH]; intros Hn Hin; [destruct Hin|].
  cbn [nodup_paths] in Hn. apply andb_true_iff in Hn as [Hn1 Hn2]. apply negb_true_iff in Hn1.
  unfold state_of. cbn [find snd]. destruct (bytes_eqb w0 w) eqn:E.
  - apply bytes_eqb_eq in E. subst w0. destruct Hin as [Hin|Hin]; [inversion Hin; reflexivity|].
    exfalso. rewrite <- not_true_iff_false in Hn1. apply Hn1. apply existsb_exists.
    exists (q, w). split; [exact Hin|]. cbn. now apply bytes_eqb_eq.
  - destruct Hin as [Hin|Hin].
    + inversion Hin; subst. assert (bytes_eqb w w = true) by now apply bytes_eqb_eq. congruence.
    + apply IH; assumption.
Qed.

Lemma prefix_closed_spec sts : prefix_closed sts = true -> forall w b, P sts (w ++ [b]) -> P sts w.
Proof.
  intros H w b [q Hq]. apply state_of_in in Hq. unfold prefix_closed in H.
  rewrite forallb_forall in H. specialize (H _ Hq). cbn [snd] in H.
  rewrite rev_app_distr in H. cbn [rev app] in H. rewrite rev_involutive in H.
  unfold P. destruct (state_of sts w) as [q'|]; [exists q'; reflexivity|discriminate].
Qed.

Lemma ac_run_from_app cr q w1 w2 :
  ac_run_from cr q (w1 ++ w2) = match ac_run_from cr q w1 with Some q' => ac_run_from cr q' w2 | None => None end.
Proof.
  revert q; induction w1 as [|b w1 IH]; intros q; cbn [app ac_run_from]; [reflexivity|].
  destruct (ac_step cr q b); [apply IH|reflexivity].
Qed.

Lemma in_all_bytes_list b : b < 256 -> In b all_bytes_list.
Proof.
  intros H. unfold all_bytes_list. apply in_map_iff. exists (N.to_nat b). split; [apply Nnat.N2Nat.id|].
  apply in_seq. lia.
Qed.

Section Run.
Variable cr : crules.
Let sts := states cr.
Hypothesis cert : ac_cert cr = true.

Lemma cert_facts :
  state_of sts [] = Some 0 /\ nodup_paths sts = true /\ prefix_closed sts = true /\
  steps_ok cr sts = true /\ lists_ok cr sts = true.
Proof.
  pose proof cert as c. unfold ac_cert in c. cbv zeta in c. fold sts in c.
  apply andb_true_iff in c as [c c6]. apply andb_true_iff in c as [c c5].
  apply andb_true_iff in c as [c c4]. apply andb_true_iff in c as [c c3].
  apply andb_true_iff in c as [c1 c2].
  repeat split; try assumption;
  try (clear -c1; destruct sts as [|[q w] r]; [discriminate|]; destruct q; [|discriminate]; destruct w; [|discriminate];
       reflexivity).
Qed.

Theorem run_is_longest_suffix w :
  all_bytes w = true -> ac_run cr w = state_of sts (lsuf sts w).
Proof.
  destruct cert_facts as [Hroot [Hnd [Hpc [Hst _]]]].
  pose proof (prefix_closed_spec sts Hpc) as Hpc'.
  induction w as [|b w IH] using rev_ind; intros Hb.
  - unfold ac_run. cbn [ac_run_from lsuf]. rewrite Hroot. symmetry. exact Hroot.
  - rewrite all_bytes_app in Hb. apply andb_true_iff in Hb as [Hw Hb].
    unfold ac_run in *. rewrite ac_run_from_app. rewrite (IH Hw).
    destruct (lsuf_P sts Hroot w) as [q Hq]. rewrite Hq. cbn [ac_run_from].
    pose proof (state_of_in _ _ _ Hq) as Hin.
    unfold steps_ok in Hst. rewrite forallb_forall in Hst. specialize (Hst _ Hin). cbn [fst snd] in Hst.
    rewrite forallb_forall in Hst.
    assert (Hbb : b < 256).
    { cbn [all_bytes forallb] in Hb. rewrite andb_true_r in Hb. unfold is_byte in Hb. now apply N.ltb_lt. }
    specialize (Hst b (in_all_bytes_list b Hbb)).
    rewrite (lsuf_step sts Hroot Hpc' w b).
    destruct (ac_step cr q b) as [q'|]; [|discriminate].
    destruct (state_of sts (lsuf sts (lsuf sts w ++ [b]))) as [q''|]; [|discriminate].
    apply N.eqb_eq in Hst. now subst.
Qed.

End Run.

(* ------------------------------------------------------------------ match lists *)
Lemma combine_eqb_eq (l t : list N) :
  length l = length t -> forallb (fun xy => fst xy =? snd xy) (combine l t) = true -> l = t.
Proof.
  revert t; induction l as [|x l IH]; intros [|y t] L H; try discriminate; [reflexivity|].
  cbn [combine forallb fst snd] in H. apply andb_true_iff in H as [H1 H2]. apply N.eqb_eq in H1.
  f_equal; [exact H1|]. apply IH; [simpl in L; lia|exact H2].
Qed.

Lemma strip_suffix_list_spec l : forall t p, strip_suffix_list l t = Some p -> l = p ++ t.
Proof.
  induction l as [|x l IH]; intros t p H; cbn [strip_suffix_list] in H.
  - destruct (length (@nil N) =? length t)%nat eqn:E.
    + apply Nat.eqb_eq in E. destruct (forallb _ _) eqn:F; [|discriminate]. inversion H; subst.
      cbn. now apply combine_eqb_eq.
    + discriminate.
  - destruct (length (x :: l) =? length t)%nat eqn:E.
    + apply Nat.eqb_eq in E. destruct (forallb _ _) eqn:F; [|discriminate]. inversion H; subst.
      cbn [app]. now apply combine_eqb_eq.
    + destruct (strip_suffix_list l t) as [p'|] eqn:E2; [|discriminate]. inversion H; subst.
      cbn [app]. f_equal. now apply IH.
Qed.

Definition owns (cr : crules) (sts : list (N * bytes)) (mu : N) (v : bytes) : Prop :=
  exists g own, In (g, v) sts /\ own_matches cr sts (g, v) = Some own /\ In mu own.

Section Lists.
Variable cr : crules.
Let sts := states cr.
Hypothesis cert : ac_cert cr = true.

Lemma suffix_of_nil v : suffix v [] -> v = [].
Proof. intros [p H]. symmetry in H. now apply app_eq_nil in H as [_ ->]. Qed.

Lemma list_sem : forall n d q, (length d <= n)%nat -> In (q, d) sts ->
  forall mu, In mu (match_list cr q) <-> exists v, suffix v d /\ owns cr sts mu v.
Proof.
  destruct (cert_facts cr cert) as [Hroot [Hnd [Hpc [_ Hl]]]]. fold sts in Hroot, Hnd, Hpc, Hl.
  pose proof (prefix_closed_spec sts Hpc) as Hpc'.
  induction n as [|n IH]; intros d q Ln Hin mu.
  - destruct d; [|simpl in Ln; lia].
    split.
    + intros Hmu. exists []. split; [apply suffix_refl|]. exists q, (match_list cr q). repeat split; assumption.
    + intros [v [Hs [g [own [Hg [Ho Hmu]]]]]]. apply suffix_of_nil in Hs. subst v.
      assert (g = q). { pose proof (nodup_state_of _ _ _ Hnd Hg) as E1. pose proof (nodup_state_of _ _ _ Hnd Hin) as E2. congruence. }
      subst g. cbn in Ho. inversion Ho; subst. exact Hmu.
  - destruct d as [|x r].
    { apply (IH [] q); [simpl; lia|exact Hin]. }
    unfold lists_ok in Hl. rewrite forallb_forall in Hl. pose proof (Hl _ Hin) as Hq.
    destruct (own_matches cr sts (q, x :: r)) as [X|] eqn:EX; [|discriminate].
    pose proof EX as EX'. unfold own_matches in EX'. cbn [snd fst] in EX'.
    destruct (state_of sts (lsuf sts r)) as [f|] eqn:Ef; [|discriminate].
    apply strip_suffix_list_spec in EX'.
    pose proof (state_of_in _ _ _ Ef) as Hf.
    assert (Lf : (length (lsuf sts r) <= n)%nat).
    { assert (Hsr : suffix (lsuf sts r) r) by (apply lsuf_suffix; try exact Hroot).
      pose proof (suffix_length _ _ Hsr). simpl in Ln. lia. }
    pose proof (IH _ _ Lf Hf mu) as IHf.
    split.
    + intros Hmu. rewrite EX' in Hmu. apply in_app_or in Hmu as [Hmu|Hmu].
      * exists (x :: r). split; [apply suffix_refl|]. exists q, X. repeat split; assumption.
      * apply IHf in Hmu as [v [Hs Ho]]. exists v. split; [|exact Ho].
        apply suffix_cons. eapply suffix_trans; [exact Hs|apply lsuf_suffix; try exact Hroot].
    + intros [v [Hs Ho]]. rewrite EX'. apply in_or_app.
      destruct (suffix_cons_inv _ _ _ Hs) as [->|Hs'].
      * left. destruct Ho as [g [own [Hg [Ho Hmu]]]].
        assert (g = q). { pose proof (nodup_state_of _ _ _ Hnd Hg) as E1. pose proof (nodup_state_of _ _ _ Hnd Hin) as E2. congruence. }
        subst g. assert (E : Some own = Some X) by (rewrite <- Ho; exact EX). inversion E; subst. exact Hmu.
      * right. apply IHf. exists v. split; [|exact Ho].
        apply lsuf_longest; try exact Hroot; try exact Hs'.
        destruct Ho as [g [own [Hg _]]]. exists g. now apply nodup_state_of.
Qed.

Theorem ac_reports_all_and_only_proof buf i mu :
  all_bytes buf = true ->
  In mu (hits_at cr buf i) <->
  (exists v, suffix v (firstn i buf) /\ owns cr sts mu v) /\ am_backtrack (pool_at cr mu) <= N.of_nat i.
Proof.
  intros Hb. destruct (cert_facts cr cert) as [Hroot [Hnd [Hpc _]]]. fold sts in Hroot, Hnd, Hpc.
  unfold hits_at. rewrite (run_is_longest_suffix cr cert) by (now apply all_bytes_firstn). fold sts.
  destruct (lsuf_P sts Hroot (firstn i buf)) as [q Hq]. rewrite Hq.
  pose proof (state_of_in _ _ _ Hq) as Hin.
  rewrite filter_In. rewrite (list_sem _ _ q (le_n _) Hin mu).
  split.
  - intros [[v [Hs Ho]] Hbt]. apply N.leb_le in Hbt. split; [|exact Hbt].
    exists v. split; [|exact Ho]. eapply suffix_trans; [exact Hs|apply lsuf_suffix; try exact Hroot].
  - intros [[v [Hs Ho]] Hbt]. split; [|now apply N.leb_le].
    exists v. split; [|exact Ho]. apply lsuf_longest; try exact Hroot; try exact Hs.
    destruct Ho as [g [own [Hg _]]]. exists g. now apply nodup_state_of.
Qed.

End Lists.

(* ------------------------------------------------------------------ atoms of a string and the verifier *)
From YV Require Import Spec.TextSpec Model.TextAtoms.

Lemma atoms_of_owns cr sidx a bt :
  In (a, bt) (atoms_of cr sidx) ->
  exists mu, owns cr (states cr) mu a /\ am_string (pool_at cr mu) = sidx /\ am_backtrack (pool_at cr mu) = bt.
Proof.
  unfold atoms_of, atoms_for. intros H. apply in_map_iff in H as [[s' [a' bt']] [E H]].
  cbn in E. inversion E; subst a' bt'. apply filter_In in H as [H Hs]. cbn in Hs. apply N.eqb_eq in Hs. subst s'.
  unfold all_atoms in H. apply in_flat_map in H as [[g v] [Hg H]].
  destruct (own_matches cr (states cr) (g, v)) as [own|] eqn:Eo; [|destruct H].
  apply in_map_iff in H as [mu [E2 Hmu]]. cbn in E2. inversion E2; subst.
  exists mu. split; [|split; reflexivity]. exists g, own. repeat split; assumption.
Qed.

Lemma atom_ends_suffix a buf i : atom_ends_at a buf i -> suffix a (firstn i buf).
Proof.
  intros [L [E Hi]]. exists (firstn (i - length a) buf).
  rewrite <- E at 2. unfold slice.
  rewrite <- (firstn_skipn (i - length a) (firstn i buf)) at 1. f_equal.
  - rewrite firstn_firstn. f_equal. lia.
  - rewrite skipn_firstn_comm. f_equal. lia.
Qed.

(* every occurrence of an atom of string [sidx] makes the scan loop hand (string, offset) to the verifier *)
Theorem atom_hits_reach_verifier_proof cr sidx a bt buf o :
  ac_cert cr = true -> all_bytes buf = true ->
  In (a, bt) (atoms_of cr sidx) -> atom_ends_at a buf (o + N.to_nat bt) ->
  exists mu, In mu (hits_at cr buf (o + N.to_nat bt)) /\ am_string (pool_at cr mu) = sidx /\
             N.of_nat (o + N.to_nat bt) - am_backtrack (pool_at cr mu) = N.of_nat o.
Proof.
  intros Hc Hb Hin He. destruct (atoms_of_owns _ _ _ _ Hin) as [mu [Ho [Hs Hbt]]].
  exists mu. split; [|split; [exact Hs|rewrite Hbt; lia]].
  apply (ac_reports_all_and_only_proof cr Hc); [exact Hb|]. split.
  - exists a. split; [now apply atom_ends_suffix|exact Ho].
  - rewrite Hbt. lia.
Qed.
