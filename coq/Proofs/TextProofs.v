(* Proofs for C01: the executable text-string spec is sorted/exact, and atom coverage implies that
   every occurrence is proposed as a candidate, whichever window the compiler chose as atom. *)
From Coq Require Import List Arith NArith Bool Lia Sorting.Sorted.
From YV Require Import Base.Bytes gen.GenTables Spec.TextSpec Model.TextAtoms.
Import ListNotations.
Local Open Scope N_scope.

(* ------------------------------------------------------------------ the spec itself *)
Lemma seq_sorted a n : StronglySorted lt (seq a n).
Proof.
  revert a; induction n as [|n IH]; intros a; cbn [seq]; constructor; [apply IH|].
  rewrite Forall_forall. intros x Hx. apply in_seq in Hx. lia.
Qed.

Lemma sorted_filter_map {A} (f : nat -> A) (p : nat * A -> bool) l :
  StronglySorted lt l -> StronglySorted lt (map fst (filter p (map (fun o => (o, f o)) l))).
Proof.
  induction 1 as [|x l Hs IH Hf]; cbn [map filter]; [constructor|].
  destruct (p (x, f x)); cbn [map fst]; [|exact IH].
  constructor; [exact IH|]. rewrite Forall_forall in *. intros y Hy.
  apply in_map_iff in Hy as [[y' v] [<- Hy]]. apply filter_In in Hy as [Hy _].
  apply in_map_iff in Hy as [z [Hz Hin]]. inversion Hz; subst. cbn. now apply Hf.
Qed.

Lemma occs_at_past_end s m buf o : (length buf <= o)%nat -> occs_at s m buf o = [].
Proof. intros H. unfold occs_at. rewrite skipn_all2 by lia. destruct s; reflexivity. Qed.

Theorem text_matches_exact_proof s m buf :
  StronglySorted lt (map fst (text_matches s m buf)) /\
  (forall o lk, In lk (occs_at s m buf o) <-> exists l, In (o, l) (text_matches s m buf) /\ In lk l).
Proof.
  split.
  - unfold text_matches. apply sorted_filter_map. apply seq_sorted.
  - intros o lk. unfold text_matches. split.
    + intros H. exists (occs_at s m buf o). split; [|exact H].
      apply filter_In. split.
      * apply in_map_iff. exists o. split; [reflexivity|]. apply in_seq.
        destruct (Nat.lt_ge_cases o (length buf)) as [Hlt|Hge]; [lia|].
        rewrite occs_at_past_end in H by lia. destruct H.
      * cbn. destruct (occs_at s m buf o); [destruct H|reflexivity].
    + intros [l [Hin Hlk]]. apply filter_In in Hin as [Hin _].
      apply in_map_iff in Hin as [o' [Heq _]]. inversion Heq; subst. exact Hlk.
Qed.

(* ------------------------------------------------------------------ byte relations *)
Definition Rr (nocase : bool) (k : N) (d p : N) : Prop := byte_eq nocase d (N.lxor p k) = true.

Lemma byte_eq_refl nocase x : byte_eq nocase x x = true.
Proof. unfold byte_eq. destruct nocase; apply N.eqb_refl. Qed.

Lemma match_ascii_forall2 nocase k pat : forall data,
  match_ascii nocase k pat data = true ->
  (length pat <= length data)%nat /\ Forall2 (Rr nocase k) (firstn (length pat) data) pat.
Proof.
  induction pat as [|p pat IH]; intros data H; cbn [match_ascii length firstn] in *.
  - split; [lia|constructor].
  - destruct data as [|d data]; [discriminate|].
    apply andb_true_iff in H as [H1 H2]. destruct (IH _ H2) as [L F].
    cbn [length firstn]. split; [lia|]. constructor; assumption.
Qed.

Lemma match_wide_forall2 nocase k pat : forall data,
  match_wide nocase k pat data = true ->
  (length (widen pat) <= length data)%nat /\ Forall2 (Rr nocase k) (firstn (length (widen pat)) data) (widen pat).
Proof.
  induction pat as [|p pat IH]; intros data H; cbn [match_wide widen flat_map length firstn app] in *.
  - split; [lia|constructor].
  - destruct data as [|d [|z data]]; try discriminate.
    apply andb_true_iff in H as [H12 H3]. apply andb_true_iff in H12 as [H1 H2].
    destruct (IH _ H3) as [L F]. cbn [length firstn]. split; [unfold widen in L; lia|].
    constructor; [exact H1|]. constructor; [|exact F].
    unfold Rr. apply N.eqb_eq in H2. subst z. rewrite N.lxor_0_l. apply byte_eq_refl.
Qed.

Lemma Forall2_firstn {A B} (R : A -> B -> Prop) (l1 : list A) (l2 : list B) :
  Forall2 R l1 l2 -> forall n, Forall2 R (firstn n l1) (firstn n l2).
Proof.
  induction 1 as [|x y l1 l2 Hxy H IH]; intros n.
  - rewrite !firstn_nil. constructor.
  - destruct n; cbn [firstn]; constructor; [assumption|apply IH].
Qed.

Lemma Forall2_skipn {A B} (R : A -> B -> Prop) (l1 : list A) (l2 : list B) :
  Forall2 R l1 l2 -> forall n, Forall2 R (skipn n l1) (skipn n l2).
Proof.
  induction 1 as [|x y l1 l2 Hxy H IH]; intros n.
  - rewrite !skipn_nil. constructor.
  - destruct n; cbn [skipn]; [constructor; assumption|apply IH].
Qed.

Lemma Forall2_slice {A B} (R : A -> B -> Prop) (l1 : list A) (l2 : list B) off n :
  Forall2 R l1 l2 -> Forall2 R (slice l1 off n) (slice l2 off n).
Proof. intros H. unfold slice. apply Forall2_firstn. now apply Forall2_skipn. Qed.

(* ------------------------------------------------------------------ window variants *)
Definition range256 : list N := map N.of_nat (seq 0 256).

Lemma lower_alter_table :
  forallb (fun d => forallb (fun p => implb (lower d =? lower p) ((d =? p) || (d =? alter p))) range256) range256 = true.
Proof. vm_compute. reflexivity. Qed.

Lemma in_range256 x : x < 256 -> In x range256.
Proof.
  intros H. unfold range256. apply in_map_iff. exists (N.to_nat x). split; [apply Nnat.N2Nat.id|].
  apply in_seq. lia.
Qed.

Lemma lower_eq_cases d p : d < 256 -> p < 256 -> lower d = lower p -> d = p \/ d = alter p.
Proof.
  intros Hd Hp H. pose proof lower_alter_table as T.
  rewrite forallb_forall in T. specialize (T d (in_range256 d Hd)).
  rewrite forallb_forall in T. specialize (T p (in_range256 p Hp)).
  rewrite H, N.eqb_refl in T. cbn [implb] in T. apply orb_true_iff in T as [T|T]; apply N.eqb_eq in T; auto.
Qed.

Lemma case_combos_in dwin pwin :
  all_bytes dwin = true -> all_bytes pwin = true ->
  Forall2 (fun d p => lower d = lower p) dwin pwin -> In dwin (case_combos pwin).
Proof.
  intros Hd Hp H. induction H as [|d p dw pw Hdp H IH]; cbn [case_combos]; [now left|].
  cbn [all_bytes forallb] in Hd, Hp. apply andb_true_iff in Hd as [Hd1 Hd2]. apply andb_true_iff in Hp as [Hp1 Hp2].
  specialize (IH Hd2 Hp2). unfold is_byte in *. apply N.ltb_lt in Hd1, Hp1.
  apply in_or_app. destruct (lower_eq_cases d p Hd1 Hp1 Hdp) as [-> | ->].
  - left. now apply in_map.
  - destruct (alter p =? p) eqn:E.
    + apply N.eqb_eq in E. rewrite E. left. now apply in_map.
    + right. now apply in_map.
Qed.

Lemma in_keys_in lo hi k : lo <= k -> k <= hi -> In k (keys_in lo hi).
Proof.
  intros H1 H2. unfold keys_in. apply in_map_iff. exists (N.to_nat k). split; [apply Nnat.N2Nat.id|].
  apply in_seq. lia.
Qed.

Lemma xor_window dwin pwin k :
  Forall2 (Rr false k) dwin pwin -> dwin = map (fun c => N.lxor c k) pwin.
Proof.
  induction 1 as [|d p dw pw H _ IH]; cbn [map]; [reflexivity|].
  unfold Rr, byte_eq in H. apply N.eqb_eq in H. now rewrite H, IH.
Qed.

Lemma plain_window dwin pwin : Forall2 (Rr false 0) dwin pwin -> dwin = pwin.
Proof.
  induction 1 as [|d p dw pw H _ IH]; [reflexivity|].
  unfold Rr, byte_eq in H. apply N.eqb_eq in H. rewrite N.lxor_0_r in H. now rewrite H, IH.
Qed.

Lemma nocase_window dwin pwin :
  Forall2 (Rr true 0) dwin pwin -> Forall2 (fun d p => lower d = lower p) dwin pwin.
Proof.
  induction 1 as [|d p dw pw H _ IH]; constructor; [|exact IH].
  unfold Rr, byte_eq in H. apply N.eqb_eq in H. now rewrite N.lxor_0_r in H.
Qed.

(* the key with which an occurrence matches is admissible for the modifiers *)
Definition key_ok (m : tmods) (k : N) : Prop :=
  match m_xor m with Some (lo, hi) => lo <= k /\ k <= hi | None => k = 0 end.

Lemma keys_of_ok m d0 p0 k : In k (keys_of m d0 p0) -> key_ok m k.
Proof.
  unfold keys_of, key_ok. destruct (m_xor m) as [[lo hi]|].
  - destruct ((lo <=? N.lxor d0 p0) && (N.lxor d0 p0 <=? hi)) eqn:E; [|intros []].
    intros [<- | []]. apply andb_true_iff in E as [E1 E2]. apply N.leb_le in E1, E2. auto.
  - intros [<- | []]. reflexivity.
Qed.

Lemma window_in_variants m k dwin pwin :
  legal m = true -> key_ok m k -> all_bytes dwin = true -> all_bytes pwin = true ->
  Forall2 (Rr (m_nocase m) k) dwin pwin -> In dwin (window_variants m pwin).
Proof.
  intros Hl Hk Hd Hp H. unfold window_variants, key_ok, legal in *.
  destruct (m_xor m) as [[lo hi]|].
  - destruct Hk as [K1 K2]. apply andb_true_iff in Hl as [Hl _]. apply andb_true_iff in Hl as [Hl _].
    apply negb_true_iff in Hl. rewrite Hl in H.
    apply in_map_iff. exists k. split; [symmetry; now apply xor_window|]. now apply in_keys_in.
  - subst k. destruct (m_nocase m).
    + apply case_combos_in; try assumption. now apply nocase_window.
    + left. symmetry. now apply plain_window.
Qed.

(* ------------------------------------------------------------------ coverage gives candidates *)
Lemma has_atom_in atoms a bt : has_atom atoms a bt = true -> In (a, bt) atoms.
Proof.
  unfold has_atom. intros H. apply existsb_exists in H as [[a' bt'] [Hin H]].
  cbn in H. apply andb_true_iff in H as [H1 H2]. apply bytes_eqb_eq in H1. apply N.eqb_eq in H2. now subst.
Qed.

Lemma all_bytes_slice l off n : all_bytes l = true -> all_bytes (slice l off n) = true.
Proof. intros H. unfold slice. apply all_bytes_firstn. now apply all_bytes_skipn. Qed.

Lemma slice_length_full {A} (l : list A) off n : (off + n <= length l)%nat -> length (slice l off n) = n.
Proof. intros H. unfold slice. rewrite firstn_length, skipn_length. lia. Qed.

Lemma slice_firstn_skipn {A} (buf : list A) o L off n :
  (off + n <= L)%nat -> slice (firstn L (skipn o buf)) off n = slice buf (o + off) n.
Proof.
  intros H. unfold slice. rewrite skipn_firstn_comm. rewrite firstn_firstn.
  replace (Nat.min n (L - off)) with n by lia. now rewrite skipn_skipn'.
Qed.

Lemma covered_candidate m atoms buf o r k :
  legal m = true -> key_ok m k -> all_bytes buf = true -> all_bytes r = true ->
  (length r <= length (skipn o buf))%nat ->
  Forall2 (Rr (m_nocase m) k) (firstn (length r) (skipn o buf)) r ->
  rendering_covered m atoms r = true -> candidate atoms buf o.
Proof.
  intros Hl Hk Hb Hr Hlen HF Hc. unfold rendering_covered in Hc.
  apply existsb_exists in Hc as [off [_ Hc]]. apply existsb_exists in Hc as [l [_ Hc]].
  unfold window_covered in Hc. apply andb_true_iff in Hc as [Hc Hall]. apply andb_true_iff in Hc as [Hpos Hfit].
  apply Nat.ltb_lt in Hpos. apply Nat.leb_le in Hfit.
  set (pwin := slice r off l) in *.
  set (dwin := slice buf (o + off) l).
  assert (HFw : Forall2 (Rr (m_nocase m) k) dwin pwin).
  { unfold dwin, pwin. rewrite <- (slice_firstn_skipn buf o (length r) off l) by lia. now apply Forall2_slice. }
  assert (Hin : In dwin (window_variants m pwin)).
  { apply (window_in_variants m k); try assumption; apply all_bytes_slice; assumption. }
  rewrite forallb_forall in Hall. specialize (Hall dwin Hin). apply has_atom_in in Hall.
  rewrite skipn_length in Hlen.
  assert (Ld : length dwin = l) by (unfold dwin; apply slice_length_full; lia).
  exists dwin, (N.of_nat (off + l)). split; [exact Hall|].
  unfold atom_ends_at. rewrite Nnat.Nat2N.id, Ld. repeat split; try lia.
  unfold dwin. f_equal. lia.
Qed.

Theorem candidates_complete_proof s m atoms buf o lk :
  legal m = true -> all_bytes s = true -> all_bytes buf = true ->
  cover_ok s m atoms = true -> In lk (occs_at s m buf o) -> candidate atoms buf o.
Proof.
  intros Hl Hs Hb Hc Hin. unfold cover_ok in Hc. apply andb_true_iff in Hc as [Ca Cw].
  unfold occs_at in Hin.
  destruct s as [|p0 s']; [destruct (skipn o buf); destruct Hin|].
  destruct (skipn o buf) as [|d0 data'] eqn:Ed; [destruct Hin|].
  set (s := p0 :: s') in *. set (data := d0 :: data') in *.
  apply in_app_or in Hin as [Hin|Hin].
  - destruct (m_ascii m || negb (m_wide m)) eqn:Ea; [|destruct Hin].
    apply in_flat_map in Hin as [k [Hk Hin]].
    destruct (match_ascii (m_nocase m) k s data && _) eqn:Em; [|destruct Hin].
    apply andb_true_iff in Em as [Em _]. apply match_ascii_forall2 in Em as [L F].
    apply (covered_candidate m atoms buf o s k); try assumption.
    + eapply keys_of_ok; eassumption.
    + rewrite Ed. exact L.
    + rewrite Ed. exact F.
  - destruct (m_wide m) eqn:Ew; [|destruct Hin].
    apply in_flat_map in Hin as [k [Hk Hin]].
    destruct (match_wide (m_nocase m) k s data && _) eqn:Em; [|destruct Hin].
    apply andb_true_iff in Em as [Em _]. apply match_wide_forall2 in Em as [L F].
    apply (covered_candidate m atoms buf o (widen s) k); try assumption.
    + eapply keys_of_ok; eassumption.
    + clear -Hs. induction s as [|c r IH]; [reflexivity|].
      cbn [all_bytes forallb] in Hs. apply andb_true_iff in Hs as [H1 H2].
      cbn [widen flat_map app all_bytes forallb]. rewrite H1. cbn. apply IH. exact H2.
    + rewrite Ed. exact L.
    + rewrite Ed. exact F.
Qed.
