(* C06, proved fragment: the guard arithmetic of the module parsers.

   What is proved: the bounds predicates as translated from the source on every run (gen/GenBounds.v)
   are sound in exact unsigned/pointer arithmetic (or are refuted, with a witness); the hand model of
   pe_rva_to_offset only returns offsets inside the file; its section loop is capped.
   What is NOT proved (C06 is PARTIAL): that every dereference in pe.c/elf.c/dotnet.c/macho.c/dex.c is
   dominated by one of these predicates, absence of use-after-free, of uninitialised reads and of
   leaks, termination of the C.  That part is explored by checks/c06.py under ASan/UBSan/LSan. *)
From Coq Require Import ZArith Lia List Bool.
From YV Require Import Base.USem gen.GenBounds Model.PeRva.
Import ListNotations.
Local Open Scope Z_scope.

(* ---- symbolic execution of a generated predicate into linear arithmetic *)
Ltac unfold_sem :=
  unfold u_le, u_lt, u_ge, u_gt, u_eq, u_ne, u_cast, u_add, u_sub, u_mul, u_rem, u_div, p_add, p_sub, p_cast in *;
  change (umod 64) with M64 in *; change (umod 32) with M32 in *; change (umod 16) with M16 in *.

Ltac split_ifs :=
  repeat (match goal with
          | H : context [if ?c then _ else _] |- _ =>
              lazymatch c with
              | context [if _ then _ else _] => fail
              | true => fail
              | false => fail
              | _ => destruct c eqn:?
              end
          end; cbv iota in *; try discriminate).

Ltac b2p :=
  repeat match goal with
         | H : (_ <=? _) = true |- _ => apply Z.leb_le in H
         | H : (_ <=? _) = false |- _ => apply Z.leb_gt in H
         | H : (_ <? _) = true |- _ => apply Z.ltb_lt in H
         | H : (_ <? _) = false |- _ => apply Z.ltb_ge in H
         | H : (_ =? _) = true |- _ => apply Z.eqb_eq in H
         | H : (_ =? _) = false |- _ => apply Z.eqb_neq in H
         | H : negb _ = true |- _ => apply Bool.negb_true_iff in H
         | H : negb _ = false |- _ => apply Bool.negb_false_iff in H
         end.

Ltac modlia :=
  unfold is_u64, is_u32, is_u, addr_space_ok, in_buffer in *;
  change (umod 64) with M64 in *; change (umod 32) with M32 in *; change (umod 16) with M16 in *;
  unfold M64, M32, M16 in *; Z.div_mod_to_equations; lia.

Ltac crunch_pred := unfold_sem; split_ifs; b2p; modlia.

(* ------------------------------------------------------------------ fits_in_pe / fits_in_dex *)
Lemma fits_in_pe_sound_l : forall base size p n,
  addr_space_ok base size -> is_u64 p -> is_u64 n ->
  fits_in_pe base size p n = true -> in_buffer base size p n.
Proof.
  intros base size p n Hs Hp Hn H. unfold fits_in_pe in H. timeout 60 crunch_pred.
Qed.

Lemma struct_fits_in_pe_sound_l : forall base size p,
  addr_space_ok base size -> is_u64 p ->
  fits_in_pe base size p sizeof_IMAGE_SECTION_HEADER = true -> in_buffer base size p sizeof_IMAGE_SECTION_HEADER.
Proof.
  intros base size p Hs Hp H. apply fits_in_pe_sound_l; auto. unfold is_u64, M64, sizeof_IMAGE_SECTION_HEADER. lia.
Qed.

Lemma fits_in_dex_sound_l : forall base size p n,
  addr_space_ok base size -> is_u64 p -> is_u64 n ->
  fits_in_dex base size p n = true -> in_buffer base size p n.
Proof.
  intros base size p n Hs Hp Hn H. unfold fits_in_dex in H. timeout 60 crunch_pred.
Qed.

(* ------------------------------------------------------------------ is_valid_ptr (elf.c) *)
(* as written since the repair: ptr >= base && ptr_size <= size && (size_t)(ptr - base) <= size - ptr_size : no sum that can wrap *)
Lemma is_valid_ptr_sound_l : forall base size ptr n,
  addr_space_ok base size -> is_u64 ptr -> is_u64 n ->
  is_valid_ptr base size ptr n = true -> in_buffer base size ptr n.
Proof.
  intros base size ptr n Hs Hp Hn H. unfold is_valid_ptr in H. timeout 60 crunch_pred.
Qed.

(* the variant of the pinned yara 4.5.2 tree (`((char * )ptr) + ptr_size <= ((char * )base) + size`), kept as text: it is NOT sound,
   the sum wraps for a ptr in the last ptr_size bytes of the address space (ptr = elf + <64-bit offset from the file>) *)
Definition is_valid_ptr_pinned (base size ptr ptr_size : Z) : bool :=
  (if (if (u_ge ptr base) then (u_le ptr_size size) else false) then (u_le (p_add 1 ptr ptr_size) (p_add 1 base size)) else false).

Lemma is_valid_ptr_pinned_refuted_l : exists base size ptr n,
  addr_space_ok base size /\ is_u64 ptr /\ is_u64 n /\
  is_valid_ptr_pinned base size ptr n = true /\ ~ in_buffer base size ptr n.
Proof.
  exists 4096, 4096, (M64 - 8), 16.
  repeat split; try (unfold M64; lia); try (vm_compute; congruence).
  unfold in_buffer, M64. lia.
Qed.

(* ------------------------------------------------------------------ pe_parse_exports: parallel tables *)
(* gen/GenBounds.v holds, as written in pe.c now: the two counts, the guard of each of the three tables
   (ordinals: WORD, function_addrs and names: DWORD) in terms of the bytes available from the table to
   the end of the data, and for every indexed access the bound its index is below at that point (loop
   bounds and the conjuncts to the LEFT of the access).  Every access lies in the data. *)
Lemma exports_tables_in_bounds_l : forall nfun_raw nn_raw avail_o avail_f avail_n,
  is_u32 nfun_raw -> is_u32 nn_raw -> is_u64 avail_o -> is_u64 avail_f -> is_u64 avail_n ->
  let nexp := exp_number_of_exports nfun_raw in
  let nnames := exp_number_of_names nexp nn_raw in
  (exp_ordinals_rejects avail_o nexp nnames nn_raw = false ->
     forall j, 0 <= j < exp_ordinals_index_bound nexp nnames -> sizeof_WORD * (j + 1) <= avail_o) /\
  (exp_functions_rejects avail_f nexp nnames nn_raw = false ->
     forall i, 0 <= i < exp_functions_index_bound nexp nnames -> sizeof_DWORD * (i + 1) <= avail_f) /\
  (exp_names_rejects avail_n nexp nnames nn_raw = false ->
     forall j, 0 <= j < exp_names_index_bound nexp nnames -> sizeof_DWORD * (j + 1) <= avail_n).
Proof.
  intros nfun_raw nn_raw avail_o avail_f avail_n Hf Hn Ho Hfa Hna nexp nnames.
  assert (Hnexp : 0 <= nexp <= MAX_PE_EXPORTS /\ nexp <= nfun_raw).
  { subst nexp. unfold exp_number_of_exports, MAX_PE_EXPORTS, is_u32, M32 in *. unfold_sem.
    destruct (nfun_raw <? 16384) eqn:E; b2p; lia. }
  assert (Hnn : 0 <= nnames <= nexp /\ nnames <= nn_raw).
  { subst nnames. unfold exp_number_of_names, is_u32, M32 in *. unfold_sem.
    destruct (nn_raw <? nexp) eqn:E; b2p; lia. }
  clearbody nexp nnames. unfold MAX_PE_EXPORTS in Hnexp.
  repeat split; intros H k Hk;
    unfold exp_ordinals_rejects, exp_functions_rejects, exp_names_rejects,
           exp_ordinals_index_bound, exp_functions_index_bound, exp_names_index_bound, sizeof_WORD, sizeof_DWORD in *;
    unfold_sem; b2p; timeout 60 modlia.
Qed.

(* ------------------------------------------------------------------ macho load-command loops *)
(* loop invariant: command = data + parsed_size, parsed_size <= size.  The guards give: the 8-byte
   load command header and the whole command lie in the buffer, cmdsize >= 8 (progress), and the
   invariant holds again after `command += cmdsize; parsed_size += cmdsize`. *)
Definition macho_cmd_post (data size command parsed_size cmdsize : Z) : Prop :=
  in_buffer data size command sizeof_yr_load_command_t /\
  in_buffer data size command cmdsize /\
  sizeof_yr_load_command_t <= cmdsize /\
  parsed_size + cmdsize <= size /\ command + cmdsize = data + (parsed_size + cmdsize).

Lemma macho_cmd_ok_1_sound_l : forall data size command parsed_size cmdsize,
  addr_space_ok data size -> data + size + sizeof_yr_load_command_t < M64 ->
  is_u32 cmdsize -> 0 <= parsed_size <= size -> command = data + parsed_size ->
  macho_cmd_ok_1 data size command parsed_size cmdsize = true ->
  macho_cmd_post data size command parsed_size cmdsize.
Proof.
  intros data size command parsed_size cmdsize Hs Htop Hc Hp Hcmd H.
  unfold macho_cmd_ok_1 in H. unfold macho_cmd_post. unfold sizeof_yr_load_command_t in *.
  timeout 60 crunch_pred.
Qed.

Lemma macho_cmd_ok_2_sound_l : forall data size command parsed_size cmdsize,
  addr_space_ok data size -> data + size + sizeof_yr_load_command_t < M64 ->
  is_u32 cmdsize -> 0 <= parsed_size <= size -> command = data + parsed_size ->
  macho_cmd_ok_2 data size command parsed_size cmdsize = true ->
  macho_cmd_post data size command parsed_size cmdsize.
Proof.
  intros data size command parsed_size cmdsize Hs Htop Hc Hp Hcmd H.
  unfold macho_cmd_ok_2 in H. unfold macho_cmd_post. unfold sizeof_yr_load_command_t in *.
  timeout 60 crunch_pred.
Qed.

(* fat-arch loop: the nested file (data + offset, asize) lies in (data, size), no wrap in offset + asize *)
Lemma macho_fat_arch_ok_sound_l : forall data size offset asize,
  addr_space_ok data size -> is_u64 offset -> is_u64 asize ->
  macho_fat_arch_ok size offset asize = true ->
  offset + asize <= size /\ in_buffer data size (data + offset) asize.
Proof.
  intros data size offset asize Hs Ho Ha H. unfold macho_fat_arch_ok in H. timeout 60 crunch_pred.
Qed.

(* ------------------------------------------------------------------ pe_rva_to_offset *)
Lemma pe_rva_loop_cond_cap : forall i n, pe_rva_loop_cond i n = true -> i < n /\ i < MAX_PE_SECTIONS.
Proof.
  intros i n H. unfold pe_rva_loop_cond in H. unfold MAX_PE_SECTIONS in *. timeout 60 crunch_pred.
Qed.

Lemma section_loop_capped : forall fuel pe secs rva i st,
  0 <= i -> i <= Z.min (pe_nsec pe) MAX_PE_SECTIONS -> Z.of_nat fuel + i > MAX_PE_SECTIONS ->
  let r := section_loop fuel pe secs rva i st in
  r <> LOutOfFuel /\ i <= loop_steps r <= Z.min (pe_nsec pe) MAX_PE_SECTIONS.
Proof.
  induction fuel as [|fuel IH]; intros pe secs rva i st Hi Hmin Hfuel.
  - exfalso. simpl Z.of_nat in Hfuel. lia.
  - cbn [section_loop].
    destruct (pe_rva_loop_cond i (pe_nsec pe)) eqn:Hc.
    + apply pe_rva_loop_cond_cap in Hc.
      destruct (fits_in_pe _ _ _ _).
      * specialize (IH pe secs rva (i + 1) (section_step pe rva (nth (Z.to_nat i) secs zero_section) st)).
        cbv zeta in IH. destruct IH as [IH1 IH2]; try lia. split; [exact IH1|lia].
      * cbn. split; [discriminate|lia].
    + cbn. split; [discriminate|lia].
Qed.

Lemma caps_bound_iterations_l : forall pe secs rva,
  0 <= pe_nsec pe ->
  let r := section_loop loop_fuel pe secs rva 0 init_state in
  r <> LOutOfFuel /\ 0 <= loop_steps r <= Z.min (pe_nsec pe) MAX_PE_SECTIONS.
Proof.
  intros pe secs rva Hn. apply section_loop_capped.
  - lia.
  - unfold MAX_PE_SECTIONS. lia.
  - unfold loop_fuel. rewrite Z2Nat.id; unfold MAX_PE_SECTIONS; lia.
Qed.

Lemma rva_tail_in_range : forall pe rva st off,
  0 <= pe_data_size pe <= 9223372036854775807 ->
  rva_tail pe rva st = ROffset off -> 0 <= off < pe_data_size pe.
Proof.
  intros pe rva st off Hd H. unfold rva_tail in H.
  destruct (u_ge (u_sub 64 rva (section_rva _)) _); [discriminate|].
  match type of H with (if u_ge ?r _ then _ else _) = _ => set (bits := r) in *; assert (Hb : 0 <= bits < M64) end.
  { subst bits. unfold u_add. change (umod 64) with M64. apply Z.mod_pos_bound. reflexivity. }
  destruct (u_ge bits (pe_data_size pe)) eqn:Hge; [discriminate|].
  injection H as <-. unfold u_ge in Hge. apply Z.leb_gt in Hge.
  unfold to_s64. destruct (bits <? 9223372036854775808) eqn:Hlt.
  - lia.
  - apply Z.ltb_ge in Hlt. lia.
Qed.

Lemma rva_to_offset_in_range_l : forall pe secs rva off,
  0 <= pe_data_size pe <= 9223372036854775807 ->
  pe_rva_to_offset pe secs rva = ROffset off -> 0 <= off < pe_data_size pe.
Proof.
  intros pe secs rva off Hd H. unfold pe_rva_to_offset in H.
  destruct (section_loop loop_fuel pe secs rva 0 init_state); try discriminate.
  eapply rva_tail_in_range; eauto.
Qed.

(* the model never answers "out of fuel" *)
Lemma rva_to_offset_total_l : forall pe secs rva, 0 <= pe_nsec pe -> pe_rva_to_offset pe secs rva <> RFuel.
Proof.
  intros pe secs rva Hn. unfold pe_rva_to_offset.
  destruct (caps_bound_iterations_l pe secs rva Hn) as [H _].
  destruct (section_loop loop_fuel pe secs rva 0 init_state); try congruence.
  unfold rva_tail. destruct (u_ge _ _); [discriminate|]. destruct (u_ge _ _); discriminate.
Qed.

(* ------------------------------------------------------------------ non-vacuity: the hypotheses of every theorem are satisfiable *)
Ltac nonvac := repeat split; try (unfold is_u64, is_u32, is_u, addr_space_ok, M64, M32; cbn; lia); try (vm_compute; congruence).

Example fits_in_pe_sound_nonvacuous :
  addr_space_ok 4096 100 /\ is_u64 4100 /\ is_u64 8 /\ fits_in_pe 4096 100 4100 8 = true.
Proof. nonvac. Qed.
(* the answer `false` where soundness demands it (what the predicate answers at the exact edges inside the buffer
   is not part of the property: a stricter guard is still sound) *)
Example fits_in_pe_rejects :
  fits_in_pe 4096 100 4195 2 = false /\ fits_in_pe 4096 100 4095 1 = false /\ fits_in_pe 4096 100 4096 101 = false /\
  fits_in_pe 4096 100 (M64 - 1) 2 = false.
Proof. nonvac. Qed.
Example fits_in_dex_sound_nonvacuous :
  addr_space_ok 4096 100 /\ is_u64 4100 /\ is_u64 8 /\ fits_in_dex 4096 100 4100 8 = true.
Proof. nonvac. Qed.
Example is_valid_ptr_sound_nonvacuous :
  addr_space_ok 4096 100 /\ is_u64 4100 /\ is_u64 8 /\ is_valid_ptr 4096 100 4100 8 = true /\
  is_valid_ptr 4096 4096 (M64 - 8) 16 = false.
Proof. nonvac. Qed.
Example exports_tables_nonvacuous :
  is_u32 64 /\ is_u32 1 /\ exp_number_of_exports 64 = 64 /\ exp_number_of_names 64 1 = 1 /\
  exp_ordinals_rejects 128 64 1 1 = false /\ exp_ordinals_rejects 2 64 1 1 = true /\
  exp_functions_rejects 256 64 1 1 = false /\ exp_names_rejects 4 64 1 1 = false /\
  0 < exp_ordinals_index_bound 64 1 /\ 0 < exp_functions_index_bound 64 1 /\ 0 < exp_names_index_bound 64 1.
Proof. nonvac. Qed.
Example macho_cmd_ok_sound_nonvacuous :
  addr_space_ok 4096 100 /\ 4096 + 100 + sizeof_yr_load_command_t < M64 /\ is_u32 24 /\ 0 <= 28 <= 100 /\ 4124 = 4096 + 28 /\
  macho_cmd_ok_1 4096 100 4124 28 24 = true /\ macho_cmd_ok_2 4096 100 4124 28 24 = true.
Proof. nonvac. Qed.
Example macho_fat_arch_ok_sound_nonvacuous :
  addr_space_ok 4096 100 /\ is_u64 20 /\ is_u64 80 /\ macho_fat_arch_ok 100 20 80 = true /\
  macho_fat_arch_ok 100 20 81 = false /\ macho_fat_arch_ok 100 (M64 - 1) 2 = false.
Proof. nonvac. Qed.

Definition ex_pe := {| pe_data := 4096; pe_data_size := 2048; pe_first_section := 4096 + 376; pe_nsec := 2;
                       pe_file_alignment := 512; pe_section_alignment := 4096 |}.
Definition ex_secs := [ {| s_va := 4096; s_vsize := 300; s_rawsize := 512; s_rawptr := 1024 |};
                        {| s_va := 8192; s_vsize := 100; s_rawsize := 512; s_rawptr := 1536 |} ].
Example rva_to_offset_in_range_nonvacuous :
  0 <= pe_data_size ex_pe <= 9223372036854775807 /\
  pe_rva_to_offset ex_pe ex_secs 4100 = ROffset 1028 /\      (* inside the first section *)
  pe_rva_to_offset ex_pe ex_secs 8200 = ROffset 1544 /\      (* inside the second *)
  pe_rva_to_offset ex_pe ex_secs 16 = ROffset 16 /\          (* before the first section: mapped straight *)
  pe_rva_to_offset ex_pe ex_secs 8192000 = RNone.
Proof. nonvac. Qed.
Example caps_bound_iterations_nonvacuous :
  0 <= pe_nsec ex_pe /\ loop_steps (section_loop loop_fuel ex_pe ex_secs 4100 0 init_state) = 2 /\
  (* a header claiming 65535 sections in a big enough file runs exactly MAX_PE_SECTIONS iterations *)
  loop_steps (section_loop loop_fuel {| pe_data := 4096; pe_data_size := 1048576; pe_first_section := 4096 + 376; pe_nsec := 65535;
                                        pe_file_alignment := 512; pe_section_alignment := 4096 |} [] 0 0 init_state) = MAX_PE_SECTIONS.
Proof. nonvac. Qed.
