(* C10: proofs over Model/ScannerHist.v *)
From Coq Require Import List NArith ZArith Bool Lia.
From YV Require Import Base.Bytes gen.GenConsts Model.Externals Model.ScannerHist.
Import ListNotations.

Ltac conj := repeat match goal with |- _ /\ _ => split end.

(* ------------------------------------------------------------------ statements *)

(* the property as stated: a scan after any history reports what the same scan reports on a freshly
   created scanner that was given the same settings *)
Definition history_independent_statement (modnames : list ident)
    (oracle : N -> N -> input -> objs -> option N -> residue -> natural) : Prop :=
  forall (o : objs) (h : list op) (i : input) (sc : script) (nr : option nat),
    st_alive (run_state modnames oracle (fresh o) h) = true ->
    snd (step modnames oracle (run_state modnames oracle (fresh o) h) (Scan i sc nr)) =
    snd (step modnames oracle (run_state modnames oracle (fresh o) (filter is_setting h)) (Scan i sc nr)).

Definition destroy_no_leak_statement (modnames : list ident)
    (oracle : N -> N -> input -> objs -> option N -> residue -> natural) : Prop :=
  forall (o : objs) (h : list op),
    st_alive (run_state modnames oracle (fresh o) h) = true ->
    heap_live (fst (step modnames oracle (run_state modnames oracle (fresh o) h) Destroy)) = 0%nat.

(* ------------------------------------------------------------------ refutations on the current tree *)

(* entry point: scan a PE, then a text buffer *)
Lemma history_independent_refuted_proof : ~ history_independent_statement [] toy_oracle.
Proof.
  intros H. specialize (H [] [Scan inp_pe [] None] inp_text [] None eq_refl).
  vm_compute in H. discriminate H.
Qed.

(* an external variable that has the name of a module is removed by yr_modules_unload_all *)
Definition toy_oracle_x (flags timeout : N) (i : input) (o : objs) (ep : option N) (r : residue) : natural :=
  {| n_msgs := [(KRule, match lookup 7%N o with Some (PI z) => Z.to_N z | _ => 99%N end)];
     n_rc := 0; n_exec := true; n_pool := 0 |}.
Lemma history_independent_refuted_module_name_proof : ~ history_independent_statement [7%N] toy_oracle_x.
Proof.
  intros H. specialize (H [(7%N, PI 1)] [Scan inp_text [] None] inp_text [] None eq_refl).
  vm_compute in H. discriminate H.
Qed.

Lemma op_eq_Destroy_dec (o : op) : {o = Destroy} + {o <> Destroy}.
Proof. destruct o; first [left; reflexivity | right; discriminate]. Qed.

(* ------------------------------------------------------------------ the invariant *)
Section Proofs.
Variable modnames : list ident.
Variable oracle : N -> N -> input -> objs -> option N -> residue -> natural.
Notation step := (step modnames oracle).
Notation run_state := (run_state modnames oracle).
Notation hist_ok := (hist_ok modnames oracle).
Notation finish := (finish modnames oracle).

(* "all per-scan fields are at their initial value between scans" -- or hold exactly the data of the
   one scan that waits for a block *)
Record inv (s : sstate) : Prop := {
  inv_alive : st_alive s = true;
  inv_mods : st_mods s = [];
  inv_leaked : st_leaked s = 0%nat;
  inv_rule_flags : st_rule_flags s = [];
  inv_ns : st_ns_unsat s = [];
  inv_disabled : st_disabled s = [];
  inv_idle : st_susp s = None ->
      st_matches s = [] /\ st_unconfirmed s = [] /\ st_required s = [] /\ st_notebook s = None;
  inv_wait : forall su, st_susp s = Some su ->
      st_matches s = [in_id (su_input su)] /\ st_unconfirmed s = [in_id (su_input su)] /\
      st_notebook s = Some (in_id (su_input su))
}.

Lemma inv_fresh o : inv (fresh o).
Proof. constructor; cbn; auto; intros; discriminate. Qed.

(* same settings *)
Definition sim (s s' : sstate) : Prop :=
  st_flags s = st_flags s' /\ st_timeout s = st_timeout s' /\ st_objs s = st_objs s'.

(* a scanner that was only configured *)
Definition pristine (s : sstate) : Prop :=
  inv s /\ st_susp s = None /\ st_ep s = None.

Lemma update_keys x v (o : objs) : map fst (update x v o) = map fst o.
Proof.
  induction o as [|[y w] t IH]; cbn; auto. destruct (N.eqb y x); cbn; congruence.
Qed.

Lemma scanner_define_keys o x d : map fst (fst (scanner_define o x d)) = map fst o.
Proof.
  unfold scanner_define. destruct (lookup x o) as [v|]; auto.
  destruct d as [z|z|q|[s|]]; destruct v; cbn; auto using update_keys.
Qed.

Lemma no_module_names_keys o o' : map fst o = map fst o' -> no_module_names modnames o = no_module_names modnames o'.
Proof.
  unfold no_module_names. revert o'. induction o as [|[k v] t IH]; intros [|[k' v'] t'] H; cbn in *; try discriminate; auto.
  injection H as -> H. now rewrite (IH _ H).
Qed.

Lemma remove_keys_id o : no_module_names modnames o = true -> remove_keys modnames o = o.
Proof.
  unfold no_module_names, mem. induction o as [|[k v] t IH]; cbn; auto. intros H.
  apply andb_true_iff in H as [H1 H2]. apply negb_true_iff in H1. rewrite H1, IH; auto.
Qed.

Lemma run_state_cons s o t : run_state s (o :: t) = run_state (fst (step s o)) t.
Proof. reflexivity. Qed.

Lemma step_dead s o : st_alive s = false -> step s o = (s, TNone).
Proof. intros H. unfold ScannerHist.step. now rewrite H. Qed.

Lemma dead_stays s h : st_alive s = false -> run_state s h = s.
Proof.
  revert s. induction h as [|o t IH]; intros s H; auto.
  rewrite run_state_cons, (step_dead s o H). now apply IH.
Qed.

Lemma run_state_app s a b : run_state s (a ++ b) = run_state (run_state s a) b.
Proof. unfold ScannerHist.run_state. apply fold_left_app. Qed.

Lemma hist_ok_app s a b : hist_ok s (a ++ b) = true -> hist_ok s a = true /\ hist_ok (run_state s a) b = true.
Proof.
  revert s. induction a as [|o t IH]; intros s H; cbn in *; auto.
  destruct (match o with Define _ _ => _ | _ => _ end); try discriminate.
  apply IH in H. exact H.
Qed.

Lemma cleaned_inv s ep fs o le pool : inv (cleaned s ep fs o le pool 0%nat).
Proof. constructor; cbn; auto; intros; discriminate. Qed.

(* finish from a state whose foreign residue is empty: clean state, settings kept *)
Lemma finish_inv s i sc :
  inv s -> no_module_names modnames (st_objs s) = true ->
  let s1 := fst (finish s i sc no_residue 0%nat) in
  inv s1 /\ st_susp s1 = None /\ st_flags s1 = st_flags s /\ st_timeout s1 = st_timeout s /\ st_objs s1 = st_objs s.
Proof.
  intros I NM. unfold ScannerHist.finish.
  destruct (deliver _ sc 0%nat) as [ms stop]. cbn.
  assert (E : (if match stop with Some (k, _) => negb (before_exec k) | None => n_exec (oracle (st_flags s) (st_timeout s) i (st_objs s)
                 match st_ep s with Some e => Some e | None => in_ep (st_flags s) i end no_residue) end
               then remove_keys modnames (st_objs s) else st_objs s) = st_objs s).
  { destruct (match stop with Some _ => _ | None => _ end); auto using remove_keys_id. }
  conj; cbn; auto using cleaned_inv.
Qed.

Definition op_ok (s : sstate) (o : op) : bool :=
  match o with
  | Define x d => match snd (scanner_define (st_objs s) x d) with RCrash => false | _ => true end
  | _ => true
  end.

Lemma hist_ok_cons s o t : hist_ok s (o :: t) = (if op_ok s o then hist_ok (fst (step s o)) t else false).
Proof. reflexivity. Qed.

Lemma residue_idle s : inv s -> st_susp s = None -> residue_of s = no_residue.
Proof.
  intros I H. destruct (inv_idle _ I H) as (A & B & C & D).
  unfold residue_of, no_residue. now rewrite A, B, (inv_rule_flags _ I), (inv_ns _ I), (inv_disabled _ I).
Qed.

(* what a new scan starts from: nothing of another scan *)
Lemma scan_residue_clean s : inv s ->
  match st_notebook s with Some _ => no_residue | None => residue_of s end = no_residue.
Proof.
  intros I. destruct (st_susp s) as [su|] eqn:SU.
  - destruct (inv_wait _ I su SU) as (_ & _ & NB). now rewrite NB.
  - destruct (inv_idle _ I SU) as (_ & _ & _ & NB). rewrite NB. now apply residue_idle.
Qed.

(* one step keeps the invariant and the settings relation; a Destroy kills the scanner *)
Lemma step_inv s s' o :
  inv s -> sim s s' -> pristine s' -> no_module_names modnames (st_objs s) = true -> op_ok s o = true ->
  o <> Destroy ->
  let s1 := fst (step s o) in
  let s1' := if is_setting o then fst (step s' o) else s' in
  inv s1 /\ sim s1 s1' /\ pristine s1' /\ no_module_names modnames (st_objs s1) = true.
Proof.
  intros I (SF & ST & SO) (I' & PS & PE) NM OK ND.
  pose proof (inv_alive _ I) as AL. pose proof (inv_alive _ I') as AL'.
  destruct o as [i sc nr | nr | f | t | t | x d | ]; try congruence; cbn [is_setting].
  - (* Scan *)
    unfold ScannerHist.step. rewrite AL. cbn [negb].
    rewrite (scan_residue_clean _ I), (inv_leaked _ I).
    assert (FIN : inv (fst (finish s i sc no_residue 0%nat)) /\ sim (fst (finish s i sc no_residue 0%nat)) s' /\
                  pristine s' /\ no_module_names modnames (st_objs (fst (finish s i sc no_residue 0%nat))) = true).
    { destruct (finish_inv s i sc I NM) as (A & B & C & D & E).
      unfold sim, pristine; conj; auto; congruence. }
    destruct nr as [j|]; [|exact FIN].
    match goal with |- context [if n_exec ?x then _ else _] => destruct (n_exec x) end; [|exact FIN].
    destruct (Nat.ltb 0 j && Nat.leb j (in_nblocks i)); cbn [fst].
    + split; [|unfold sim, pristine; conj; cbn; auto].
      constructor; cbn; auto; try discriminate.
      intros su [= <-]. cbn. auto.
    + unfold sim, pristine; conj; cbn; auto.
  - (* Resume *)
    destruct (st_susp s) as [su|] eqn:SU.
    2: { unfold ScannerHist.step. rewrite AL, SU. cbn [negb fst]. unfold sim, pristine; conj; auto. }
    unfold ScannerHist.step. rewrite AL, SU. cbn [negb].
    destruct (inv_wait _ I su SU) as (M1 & M2 & M3).
    rewrite M1, M2, (inv_rule_flags _ I), (inv_ns _ I), (inv_disabled _ I), (inv_leaked _ I). cbn [removelast].
    destruct nr as [j|].
    + destruct (Nat.ltb (su_done su) j && Nat.leb j (in_nblocks (su_input su))); cbn [fst].
      * split; [|unfold sim, pristine; conj; cbn; auto].
        constructor; cbn; auto; try discriminate. intros su' [= <-]. cbn. auto.
      * unfold sim, pristine; conj; cbn; auto.
    + change {| r_matches := []; r_unconfirmed := []; r_disabled := []; r_rule_flags := []; r_ns_unsat := [] |} with no_residue.
      destruct (finish_inv s (su_input su) (su_script su) I NM) as (A & B & C & D & E). cbn zeta.
      unfold sim, pristine; conj; auto; congruence.
  - (* SetFlags *)
    unfold ScannerHist.step. rewrite AL, AL'. cbn [negb fst].
    split; [|split; [|split]].
    + destruct I. constructor; cbn; auto.
    + unfold sim; cbn. conj; auto.
    + unfold pristine; split; [destruct I'; constructor; cbn; auto | cbn; auto].
    + cbn. auto.
  - (* SetTimeout *)
    unfold ScannerHist.step. rewrite AL, AL'. cbn [negb fst].
    split; [|split; [|split]].
    + destruct I. constructor; cbn; auto.
    + unfold sim; cbn. conj; auto.
    + unfold pristine; split; [destruct I'; constructor; cbn; auto | cbn; auto].
    + cbn. auto.
  - (* PokeTimeout *)
    unfold ScannerHist.step. rewrite AL, AL'. cbn [negb fst].
    split; [|split; [|split]].
    + destruct I. constructor; cbn; auto.
    + unfold sim; cbn. conj; auto.
    + unfold pristine; split; [destruct I'; constructor; cbn; auto | cbn; auto].
    + cbn. auto.
  - (* Define *)
    unfold ScannerHist.step. rewrite AL, AL'. cbn [negb]. rewrite <- SO.
    pose proof (scanner_define_keys (st_objs s) x d) as K.
    destruct (scanner_define (st_objs s) x d) as [o' rc]. cbn [fst] in *.
    split; [|split; [|split]].
    + destruct I. constructor; cbn; auto.
    + unfold sim; cbn. conj; auto.
    + unfold pristine; split; [destruct I'; constructor; cbn; auto | cbn; auto].
    + cbn [st_objs]. now rewrite (no_module_names_keys _ _ K).
Qed.

Lemma run_inv h : forall s s',
  inv s -> sim s s' -> pristine s' -> no_module_names modnames (st_objs s) = true ->
  hist_ok s h = true -> st_alive (run_state s h) = true ->
  inv (run_state s h) /\ sim (run_state s h) (run_state s' (filter is_setting h)) /\
  pristine (run_state s' (filter is_setting h)).
Proof.
  induction h as [|o t IH]; intros s s' I S P NM OK AL.
  - cbn. auto.
  - rewrite hist_ok_cons in OK. destruct (op_ok s o) eqn:OO; try discriminate.
    rewrite run_state_cons in *.
    destruct (op_eq_Destroy_dec o) as [->|ND].
    + (* Destroy: the scanner is dead afterwards *)
      exfalso. rewrite dead_stays in AL.
      * unfold ScannerHist.step in AL. rewrite (inv_alive _ I) in AL. cbn in AL. discriminate.
      * unfold ScannerHist.step. rewrite (inv_alive _ I). reflexivity.
    + destruct (step_inv s s' o I S P NM OO ND) as (I1 & S1 & P1 & NM1).
      cbn [filter]. destruct (is_setting o).
      * rewrite run_state_cons. apply IH; auto.
      * apply IH; auto.
Qed.

End Proofs.

(* ------------------------------------------------------------------ the theorems *)
Section Theorems.
Variable modnames : list ident.
Variable oracle : N -> N -> input -> objs -> option N -> residue -> natural.
Notation step := (step modnames oracle).
Notation run_state := (run_state modnames oracle).
Notation hist_ok := (hist_ok modnames oracle).
Notation finish := (finish modnames oracle).

Lemma finish_trace s1 s2 i sc res l1 l2 :
  st_ep s1 = st_ep s2 -> st_flags s1 = st_flags s2 -> st_timeout s1 = st_timeout s2 -> st_objs s1 = st_objs s2 ->
  snd (finish s1 i sc res l1) = snd (finish s2 i sc res l2).
Proof.
  intros E F T O. unfold ScannerHist.finish. rewrite E, F, T, O.
  destruct (deliver _ sc 0%nat) as [ms stop]. reflexivity.
Qed.

(* what a new scan reports depends on the state only through entry point, flags, timeout,
   externals and lingering match data *)
Lemma scan_trace s1 s2 i sc nr :
  st_alive s1 = true -> st_alive s2 = true ->
  st_ep s1 = st_ep s2 -> st_flags s1 = st_flags s2 -> st_timeout s1 = st_timeout s2 -> st_objs s1 = st_objs s2 ->
  match st_notebook s1 with Some _ => no_residue | None => residue_of s1 end =
  match st_notebook s2 with Some _ => no_residue | None => residue_of s2 end ->
  snd (step s1 (Scan i sc nr)) = snd (step s2 (Scan i sc nr)).
Proof.
  intros A1 A2 E F T O R. unfold ScannerHist.step. rewrite A1, A2. cbn [negb].
  rewrite R.
  destruct nr as [j|]; [|now apply finish_trace].
  rewrite E, F, T, O.
  match goal with |- context [if n_exec ?x then _ else _] => destruct (n_exec x) end.
  - destruct (Nat.ltb 0 j && Nat.leb j (in_nblocks i)); reflexivity.
  - apply finish_trace; auto.
Qed.

Lemma with_ep_same s : with_ep s (st_ep s) = s.
Proof. destruct s; reflexivity. Qed.

(* history independence, excluding exactly the entry point: after any history (aborted, failed,
   timed-out, suspended, resumed or abandoned scans), with no external variable named like a module, a scan reports what it reports on
   a freshly created scanner with the same settings whose entry_point field holds the stale value *)
Theorem history_independent_partial_proof : forall o h i sc nr,
  no_module_names modnames o = true ->
  hist_ok (fresh o) (h ++ [Scan i sc nr]) = true ->
  st_alive (run_state (fresh o) h) = true ->
  snd (step (run_state (fresh o) h) (Scan i sc nr)) =
  snd (step (with_ep (run_state (fresh o) (filter is_setting h)) (st_ep (run_state (fresh o) h))) (Scan i sc nr)).
Proof.
  intros o h i sc nr NM OK AL.
  apply hist_ok_app in OK as [OK1 OK2].
  assert (P0 : pristine (fresh o)) by (unfold pristine; auto using inv_fresh).
  destruct (run_inv modnames oracle h (fresh o) (fresh o) (inv_fresh o) (conj eq_refl (conj eq_refl eq_refl)) P0 NM OK1 AL)
    as (I & (SF & ST & SO) & (I' & PS & PE)).
  apply scan_trace; auto.
  - cbn. apply (inv_alive _ I').
  - rewrite (scan_residue_clean _ I).
    change (st_notebook (with_ep ?s ?e)) with (st_notebook s).
    change (residue_of (with_ep ?s ?e)) with (residue_of s).
    now rewrite (scan_residue_clean _ I').
Qed.

(* ... hence full independence whenever no entry point was ever recorded (no PE/ELF scanned before) *)
Corollary history_independent_no_entry_point_proof : forall o h i sc nr,
  no_module_names modnames o = true ->
  hist_ok (fresh o) (h ++ [Scan i sc nr]) = true ->
  st_alive (run_state (fresh o) h) = true ->
  st_ep (run_state (fresh o) h) = None ->
  snd (step (run_state (fresh o) h) (Scan i sc nr)) =
  snd (step (run_state (fresh o) (filter is_setting h)) (Scan i sc nr)).
Proof.
  intros o h i sc nr NM OK AL EP.
  rewrite (history_independent_partial_proof o h i sc nr NM OK AL), EP.
  pose proof OK as OK'. apply hist_ok_app in OK' as [OK1 _].
  assert (P0 : pristine (fresh o)) by (unfold pristine; auto using inv_fresh).
  destruct (run_inv modnames oracle h (fresh o) (fresh o) (inv_fresh o) (conj eq_refl (conj eq_refl eq_refl)) P0 NM OK1 AL)
    as (_ & _ & (_ & _ & PE)).
  now rewrite <- PE, with_ep_same.
Qed.

(* the per-scan fields are at their initial values between scans *)
Theorem between_scans_clean_proof : forall o h,
  no_module_names modnames o = true -> hist_ok (fresh o) h = true ->
  st_alive (run_state (fresh o) h) = true -> st_susp (run_state (fresh o) h) = None ->
  let s := run_state (fresh o) h in
  st_matches s = [] /\ st_unconfirmed s = [] /\ st_required s = [] /\ st_notebook s = None /\
  st_rule_flags s = [] /\ st_ns_unsat s = [] /\ st_disabled s = [] /\ st_mods s = [] /\ st_leaked s = 0%nat.
Proof.
  intros o h NM OK AL SU.
  assert (P0 : pristine (fresh o)) by (unfold pristine; auto using inv_fresh).
  destruct (run_inv modnames oracle h (fresh o) (fresh o) (inv_fresh o) (conj eq_refl (conj eq_refl eq_refl)) P0 NM OK AL)
    as (I & _ & _).
  destruct (inv_idle _ I SU) as (A & B & C & D). cbn zeta.
  conj; auto; apply I.
Qed.

(* destroy after any prefix -- also in the middle of a suspended scan -- releases everything *)
Theorem destroy_no_leak_partial_proof : forall o h,
  no_module_names modnames o = true ->
  hist_ok (fresh o) (h ++ [Destroy]) = true ->
  st_alive (run_state (fresh o) h) = true ->
  heap_live (fst (step (run_state (fresh o) h) Destroy)) = 0%nat.
Proof.
  intros o h NM OK AL.
  apply hist_ok_app in OK as [OK1 OK2].
  assert (P0 : pristine (fresh o)) by (unfold pristine; auto using inv_fresh).
  destruct (run_inv modnames oracle h (fresh o) (fresh o) (inv_fresh o) (conj eq_refl (conj eq_refl eq_refl)) P0 NM OK1 AL)
    as (I & _ & _).
  unfold ScannerHist.step. rewrite AL. cbn [negb fst]. unfold heap_live. cbn. apply (inv_leaked _ I).
Qed.

End Theorems.

(* ------------------------------------------------------------------ non-vacuity *)
Definition example_history : list op :=
  [Scan inp_pe [] None; SetFlags 1; Scan inp_blocks [(0%nat, AnsAbort)] (Some 1%nat); Resume (Some 2%nat); Resume None;
   Define 5%N (DI 4); PokeTimeout 1; Scan inp_text [(1%nat, AnsError)] None].

Example hypotheses_satisfiable :
  no_module_names [7%N] [(5%N, PI 3)] = true /\
  hist_ok [7%N] toy_oracle (fresh [(5%N, PI 3)]) (example_history ++ [Scan inp_text [] None]) = true /\
  hist_ok [7%N] toy_oracle (fresh [(5%N, PI 3)]) (example_history ++ [Destroy]) = true /\
  st_alive (run_state [7%N] toy_oracle (fresh [(5%N, PI 3)]) example_history) = true /\
  st_ep (run_state [7%N] toy_oracle (fresh [(5%N, PI 3)]) example_history) = Some 5344%N /\
  snd (run [7%N] toy_oracle (fresh [(5%N, PI 3)]) example_history) =
    [TScan [(KRule, 1%N); (KRule, 10%N); (KFinished, 0%N)] 0; TNone; TScan [] ERROR_BLOCK_NOT_READY;
     TScan [] ERROR_BLOCK_NOT_READY; TScan [(KRule, 1%N)] 0; TRes ROk; TNone; TScan [(KRule, 1%N); (KRule, 10%N)] ERROR_CALLBACK_ERROR].
Proof. vm_compute. repeat split. Qed.
