(* C10: proofs over Model/ScannerHist.v *)
From Coq Require Import List NArith ZArith Bool Lia.
From YV Require Import Base.Bytes gen.GenConsts Model.Externals Model.ScannerHist.
Import ListNotations.

Ltac conj := repeat match goal with |- _ /\ _ => split end.

(* ------------------------------------------------------------------ statements *)

(* the property as stated: a scan after any history reports what the same scan reports on a freshly
   created scanner that was given the same settings *)
Definition history_independent_statement (cf : cfg) (modnames : list ident)
    (oracle : N -> N -> input -> objs -> option N -> residue -> natural) : Prop :=
  forall (o : objs) (h : list op) (i : input) (sc : script) (nr : option nat),
    st_alive (run_state cf modnames oracle (fresh o) h) = true ->
    snd (step cf modnames oracle (run_state cf modnames oracle (fresh o) h) (Scan i sc nr)) =
    snd (step cf modnames oracle (run_state cf modnames oracle (fresh o) (filter is_setting h)) (Scan i sc nr)).

Definition destroy_no_leak_statement (cf : cfg) (modnames : list ident)
    (oracle : N -> N -> input -> objs -> option N -> residue -> natural) : Prop :=
  forall (o : objs) (h : list op),
    st_alive (run_state cf modnames oracle (fresh o) h) = true ->
    heap_live (fst (step cf modnames oracle (run_state cf modnames oracle (fresh o) h) Destroy)) = 0%nat.

(* ------------------------------------------------------------------ the code of the pinned commit is refuted *)

(* entry point: scan a PE, then a text buffer (repaired by c92ef8f) *)
Lemma history_independent_pinned_refuted_proof : ~ history_independent_statement cfg_pinned [] toy_oracle.
Proof.
  intros H. specialize (H [] [Scan inp_pe [] None] inp_text [] None eq_refl).
  vm_compute in H. discriminate H.
Qed.

(* an external variable that has the name of a module was removed by yr_modules_unload_all (repaired by 9d2571f) *)
Definition toy_oracle_x (flags timeout : N) (i : input) (o : objs) (ep : option N) (r : residue) : natural :=
  {| n_msgs := [(KRule, match lookup 7%N o with Some (PI z) => Z.to_N z | _ => 99%N end)];
     n_rc := 0; n_exec := true; n_pool := 0 |}.
Lemma history_independent_pinned_refuted_module_name_proof : ~ history_independent_statement cfg_pinned [7%N] toy_oracle_x.
Proof.
  intros H. specialize (H [(7%N, PI 1)] [Scan inp_text [] None] inp_text [] None eq_refl).
  vm_compute in H. discriminate H.
Qed.

Lemma op_eq_Destroy_dec (o : op) : {o = Destroy} + {o <> Destroy}.
Proof. destruct o; first [left; reflexivity | right; discriminate]. Qed.

(* ------------------------------------------------------------------ the invariant (current code) *)
Section Proofs.
Variable modnames : list ident.
Variable oracle : N -> N -> input -> objs -> option N -> residue -> natural.
Notation step := (step cfg_current modnames oracle).
Notation run_state := (run_state cfg_current modnames oracle).
Notation finish := (finish cfg_current modnames oracle).

(* "all per-scan fields are at their initial value between scans" -- or hold exactly the data of the
   one scan that waits for a block *)
Record inv (s : sstate) : Prop := {
  inv_alive : st_alive s = true;
  inv_mods : st_mods s = [];
  inv_leaked : st_leaked s = 0%nat;
  inv_rule_flags : st_rule_flags s = [];
  inv_ns : st_ns_unsat s = [];
  inv_disabled : st_disabled s = [];
  inv_idle : st_susp s = None ->
      st_matches s = [] /\ st_unconfirmed s = [] /\ st_required s = [] /\ st_notebook s = None;
  inv_wait : forall su, st_susp s = Some su ->
      st_matches s = [in_id (su_input su)] /\ st_unconfirmed s = [in_id (su_input su)] /\
      st_notebook s = Some (in_id (su_input su))
}.

Lemma inv_fresh o : inv (fresh o).
Proof. constructor; cbn; auto; intros; discriminate. Qed.

Lemma inv_with_ep s e : inv s -> inv (with_ep s e).
Proof. intros I. destruct I. constructor; cbn; auto. Qed.

(* same settings *)
Definition sim (s s' : sstate) : Prop :=
  st_flags s = st_flags s' /\ st_timeout s = st_timeout s' /\ st_objs s = st_objs s'.

Lemma run_state_cons s o t : run_state s (o :: t) = run_state (fst (step s o)) t.
Proof. reflexivity. Qed.

Lemma step_dead s o : st_alive s = false -> step s o = (s, TNone).
Proof. intros H. unfold ScannerHist.step. now rewrite H. Qed.

Lemma dead_stays s h : st_alive s = false -> run_state s h = s.
Proof.
  revert s. induction h as [|o t IH]; intros s H; auto.
  rewrite run_state_cons, (step_dead s o H). now apply IH.
Qed.

Lemma cleaned_inv s ep fs o le pool : inv (cleaned s ep fs o le pool 0%nat).
Proof. constructor; cbn; auto; intros; discriminate. Qed.

(* finish from a state whose foreign residue is empty: clean state, settings kept *)
Lemma finish_inv s i sc :
  inv s ->
  inv (fst (finish s i sc no_residue 0%nat)) /\ st_susp (fst (finish s i sc no_residue 0%nat)) = None /\
  st_flags (fst (finish s i sc no_residue 0%nat)) = st_flags s /\
  st_timeout (fst (finish s i sc no_residue 0%nat)) = st_timeout s /\
  st_objs (fst (finish s i sc no_residue 0%nat)) = st_objs s.
Proof.
  intros I. unfold ScannerHist.finish. cbn [cf_unload_any cfg_current].
  destruct (deliver _ sc 0%nat) as [ms stop]. cbn [fst].
  rewrite Bool.andb_false_r.
  conj; cbn; auto using cleaned_inv.
Qed.

Lemma residue_idle s : inv s -> st_susp s = None -> residue_of s = no_residue.
Proof.
  intros I H. destruct (inv_idle _ I H) as (A & B & C & D).
  unfold residue_of, no_residue. now rewrite A, B, (inv_rule_flags _ I), (inv_ns _ I), (inv_disabled _ I).
Qed.

(* what a new scan starts from: nothing of another scan *)
Lemma scan_residue_clean s : inv s ->
  match st_notebook s with Some _ => no_residue | None => residue_of s end = no_residue.
Proof.
  intros I. destruct (st_susp s) as [su|] eqn:SU.
  - destruct (inv_wait _ I su SU) as (_ & _ & NB). now rewrite NB.
  - destruct (inv_idle _ I SU) as (_ & _ & _ & NB). rewrite NB. now apply residue_idle.
Qed.

(* one step keeps the invariant on both scanners and the settings relation *)
Lemma step_inv s s' o :
  inv s -> inv s' -> sim s s' -> o <> Destroy ->
  inv (fst (step s o)) /\ inv (if is_setting o then fst (step s' o) else s') /\
  sim (fst (step s o)) (if is_setting o then fst (step s' o) else s').
Proof.
  intros I I' (SF & ST & SO) ND.
  pose proof (inv_alive _ I) as AL. pose proof (inv_alive _ I') as AL'.
  destruct o as [i sc nr | nr | f | t | t | x d | ]; try congruence; cbn [is_setting].
  - (* Scan *)
    unfold ScannerHist.step. rewrite AL. cbn [negb cf_reset_ep cfg_current].
    rewrite (scan_residue_clean _ I), (inv_leaked _ I).
    pose proof (inv_with_ep s None I) as I0.
    assert (FIN : inv (fst (finish (with_ep s None) i sc no_residue 0%nat)) /\ inv s' /\
                  sim (fst (finish (with_ep s None) i sc no_residue 0%nat)) s').
    { destruct (finish_inv (with_ep s None) i sc I0) as (A & B & C & D & E).
      unfold sim; conj; auto; cbn in *; congruence. }
    destruct nr as [j|]; [|exact FIN].
    match goal with |- context [if n_exec ?x then _ else _] => destruct (n_exec x) end; [|exact FIN].
    destruct (Nat.ltb 0 j && Nat.leb j (in_nblocks i)); cbn [fst].
    + split; [|unfold sim; conj; cbn; auto].
      constructor; cbn; auto; try discriminate.
      intros su [= <-]. cbn. auto.
    + unfold sim; conj; cbn; auto.
  - (* Resume *)
    destruct (st_susp s) as [su|] eqn:SU.
    2: { unfold ScannerHist.step. rewrite AL, SU. cbn [negb fst]. unfold sim; conj; auto. }
    unfold ScannerHist.step. rewrite AL, SU. cbn [negb].
    destruct (inv_wait _ I su SU) as (M1 & M2 & M3).
    rewrite M1, M2, (inv_rule_flags _ I), (inv_ns _ I), (inv_disabled _ I), (inv_leaked _ I). cbn [removelast].
    destruct nr as [j|].
    + destruct (Nat.ltb (su_done su) j && Nat.leb j (in_nblocks (su_input su))); cbn [fst].
      * split; [|unfold sim; conj; cbn; auto].
        constructor; cbn; auto; try discriminate. intros su' [= <-]. cbn. auto.
      * unfold sim; conj; cbn; auto.
    + change {| r_matches := []; r_unconfirmed := []; r_disabled := []; r_rule_flags := []; r_ns_unsat := [] |} with no_residue.
      destruct (finish_inv s (su_input su) (su_script su) I) as (A & B & C & D & E).
      unfold sim; conj; auto; congruence.
  - (* SetFlags *)
    unfold ScannerHist.step. rewrite AL, AL'. cbn [negb fst].
    split; [|split].
    + destruct I. constructor; cbn; auto.
    + destruct I'. constructor; cbn; auto.
    + unfold sim; cbn. conj; auto.
  - (* SetTimeout *)
    unfold ScannerHist.step. rewrite AL, AL'. cbn [negb fst].
    split; [|split].
    + destruct I. constructor; cbn; auto.
    + destruct I'. constructor; cbn; auto.
    + unfold sim; cbn. conj; auto.
  - (* PokeTimeout *)
    unfold ScannerHist.step. rewrite AL, AL'. cbn [negb fst].
    split; [|split].
    + destruct I. constructor; cbn; auto.
    + destruct I'. constructor; cbn; auto.
    + unfold sim; cbn. conj; auto.
  - (* Define *)
    unfold ScannerHist.step. rewrite AL, AL'. cbn [negb]. rewrite <- SO.
    destruct (scanner_define (st_objs s) x d) as [o' rc]. cbn [fst] in *.
    split; [|split].
    + destruct I. constructor; cbn; auto.
    + destruct I'. constructor; cbn; auto.
    + unfold sim; cbn. conj; auto.
Qed.

Lemma run_inv h : forall s s',
  inv s -> inv s' -> sim s s' -> st_alive (run_state s h) = true ->
  inv (run_state s h) /\ inv (run_state s' (filter is_setting h)) /\
  sim (run_state s h) (run_state s' (filter is_setting h)).
Proof.
  induction h as [|o t IH]; intros s s' I I' S AL.
  - cbn. auto.
  - rewrite run_state_cons in *.
    destruct (op_eq_Destroy_dec o) as [->|ND].
    + (* Destroy: the scanner is dead afterwards *)
      exfalso. rewrite dead_stays in AL.
      * unfold ScannerHist.step in AL. rewrite (inv_alive _ I) in AL. cbn in AL. discriminate.
      * unfold ScannerHist.step. rewrite (inv_alive _ I). reflexivity.
    + destruct (step_inv s s' o I I' S ND) as (I1 & I1' & S1).
      cbn [filter]. destruct (is_setting o).
      * rewrite run_state_cons. apply IH; auto.
      * apply IH; auto.
Qed.

Lemma finish_trace s1 s2 i sc res l1 l2 :
  st_ep s1 = st_ep s2 -> st_flags s1 = st_flags s2 -> st_timeout s1 = st_timeout s2 -> st_objs s1 = st_objs s2 ->
  snd (finish s1 i sc res l1) = snd (finish s2 i sc res l2).
Proof.
  intros E F T O. unfold ScannerHist.finish. rewrite E, F, T, O.
  destruct (deliver _ sc 0%nat) as [ms stop]. reflexivity.
Qed.

(* what a new scan reports depends on the state only through flags, timeout, externals and
   lingering match data -- NOT on the entry point of an earlier scan *)
Lemma scan_trace s1 s2 i sc nr :
  st_alive s1 = true -> st_alive s2 = true ->
  st_flags s1 = st_flags s2 -> st_timeout s1 = st_timeout s2 -> st_objs s1 = st_objs s2 ->
  match st_notebook s1 with Some _ => no_residue | None => residue_of s1 end =
  match st_notebook s2 with Some _ => no_residue | None => residue_of s2 end ->
  snd (step s1 (Scan i sc nr)) = snd (step s2 (Scan i sc nr)).
Proof.
  intros A1 A2 F T O R. unfold ScannerHist.step. rewrite A1, A2. cbn [negb cf_reset_ep cfg_current].
  rewrite R.
  destruct nr as [j|]; [|now apply finish_trace].
  cbn [with_ep st_ep]. rewrite F, T, O.
  match goal with |- context [if n_exec ?x then _ else _] => destruct (n_exec x) end.
  - destruct (Nat.ltb 0 j && Nat.leb j (in_nblocks i)); reflexivity.
  - apply finish_trace; auto.
Qed.

(* ------------------------------------------------------------------ the theorems *)

(* C10 in full: after ANY history -- scans completed, aborted or failed from the callback, timed out,
   stopped by too many matches, suspended and resumed or abandoned; flag, timeout and external
   changes -- a scan reports exactly what it reports on a freshly created scanner with the same settings *)
Theorem history_independent_proof : history_independent_statement cfg_current modnames oracle.
Proof.
  intros o h i sc nr AL.
  destruct (run_inv h (fresh o) (fresh o) (inv_fresh o) (inv_fresh o) (conj eq_refl (conj eq_refl eq_refl)) AL)
    as (I & I' & (SF & ST & SO)).
  apply scan_trace; auto.
  - apply (inv_alive _ I').
  - now rewrite (scan_residue_clean _ I), (scan_residue_clean _ I').
Qed.

(* the invariant of the induction: between scans every per-scan field is at its initial value *)
Theorem between_scans_clean_proof : forall o h,
  st_alive (run_state (fresh o) h) = true -> st_susp (run_state (fresh o) h) = None ->
  let s := run_state (fresh o) h in
  st_matches s = [] /\ st_unconfirmed s = [] /\ st_required s = [] /\ st_notebook s = None /\
  st_rule_flags s = [] /\ st_ns_unsat s = [] /\ st_disabled s = [] /\ st_mods s = [] /\ st_leaked s = 0%nat.
Proof.
  intros o h AL SU.
  destruct (run_inv h (fresh o) (fresh o) (inv_fresh o) (inv_fresh o) (conj eq_refl (conj eq_refl eq_refl)) AL)
    as (I & _ & _).
  destruct (inv_idle _ I SU) as (A & B & C & D). cbn zeta.
  conj; auto; apply I.
Qed.

(* the externals a scan sees are those of the settings, whatever was scanned *)
Theorem settings_survive_proof : forall o h,
  st_alive (run_state (fresh o) h) = true ->
  let s := run_state (fresh o) h in let s' := run_state (fresh o) (filter is_setting h) in
  st_flags s = st_flags s' /\ st_timeout s = st_timeout s' /\ st_objs s = st_objs s'.
Proof.
  intros o h AL.
  destruct (run_inv h (fresh o) (fresh o) (inv_fresh o) (inv_fresh o) (conj eq_refl (conj eq_refl eq_refl)) AL)
    as (_ & _ & S). exact S.
Qed.

(* destroy after any prefix -- also in the middle of a suspended scan -- releases everything *)
Theorem destroy_no_leak_proof : destroy_no_leak_statement cfg_current modnames oracle.
Proof.
  intros o h AL.
  destruct (run_inv h (fresh o) (fresh o) (inv_fresh o) (inv_fresh o) (conj eq_refl (conj eq_refl eq_refl)) AL)
    as (I & _ & _).
  unfold ScannerHist.step. rewrite AL. cbn [negb fst]. unfold heap_live. cbn. apply (inv_leaked _ I).
Qed.

End Proofs.

(* ------------------------------------------------------------------ non-vacuity *)
Definition example_history : list op :=
  [Scan inp_pe [] None; SetFlags 1; Scan inp_blocks [(0%nat, AnsAbort)] (Some 1%nat); Resume (Some 2%nat); Resume None;
   Define 5%N (DI 4); Define 5%N (DS None); PokeTimeout 1; Scan inp_text [(1%nat, AnsError)] None;
   Scan inp_blocks [] (Some 1%nat); Scan inp_pe [] None; Scan inp_blocks [] (Some 1%nat)].

Example hypotheses_satisfiable :
  st_alive (run_state cfg_current [7%N] toy_oracle (fresh [(5%N, PI 3); (7%N, PI 1)]) example_history) = true /\
  st_ep (run_state cfg_current [7%N] toy_oracle (fresh [(5%N, PI 3); (7%N, PI 1)]) example_history) = None /\
  st_susp (run_state cfg_current [7%N] toy_oracle (fresh [(5%N, PI 3); (7%N, PI 1)]) example_history) <> None /\
  snd (run cfg_current [7%N] toy_oracle (fresh [(5%N, PI 3); (7%N, PI 1)]) example_history) =
    [TScan [(KRule, 1%N); (KRule, 10%N); (KFinished, 0%N)] 0; TNone; TScan [] ERROR_BLOCK_NOT_READY;
     TScan [] ERROR_BLOCK_NOT_READY; TScan [(KRule, 0%N)] 0; TRes ROk; TRes (RErr ERROR_INVALID_ARGUMENT); TNone;
     TScan [(KRule, 0%N); (KRule, 10%N)] ERROR_CALLBACK_ERROR; TScan [] ERROR_BLOCK_NOT_READY;
     TScan [(KRule, 1%N); (KRule, 10%N); (KFinished, 0%N)] 0; TScan [] ERROR_BLOCK_NOT_READY] /\
  snd (step cfg_current [7%N] toy_oracle (run_state cfg_current [7%N] toy_oracle (fresh [(5%N, PI 3); (7%N, PI 1)]) example_history) Destroy)
    = TDestroyed 0.
Proof. vm_compute. repeat split; discriminate. Qed.
