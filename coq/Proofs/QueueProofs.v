(* C18: proofs about the file-queue protocol (Model/Queue.v) for the shape [qstd_cfg M T], any
   capacity M > 0, any number T of finish tokens, any list of files, any number 1 <= N <= T of
   consumers, ALL schedules (inductive invariant over [reachable]); instantiated at the end with
   the configuration regenerated from cli/yara.c (gen/GenQueue.v). *)
From Coq Require Import List Arith Bool Lia Permutation ZArith.
From YV Require Import Model.QueueOps Model.Queue gen.GenConsts gen.GenQueue.
Import ListNotations.
Local Opaque Nat.modulo Nat.div.

(* ------------------------------------------------------------------ lists *)
Lemma upd_length {A} i (x : A) l : length (qupd i x l) = length l.
Proof. revert i; induction l; intros [|i]; simpl; auto. Qed.

Lemma nth_error_upd_eq {A} i (x c : A) l : nth_error l i = Some c -> nth_error (qupd i x l) i = Some x.
Proof. revert i; induction l; intros [|i]; simpl; intros; try discriminate; auto. Qed.

Lemma nth_error_upd_neq {A} i j (x : A) l : i <> j -> nth_error (qupd i x l) j = nth_error l j.
Proof. revert i j; induction l; intros [|i] [|j]; simpl; intros; auto; try congruence. Qed.

Lemma nth_upd_eq {A} i (x d : A) l : i < length l -> nth i (qupd i x l) d = x.
Proof. revert i; induction l; intros [|i]; simpl; intros; auto; try lia. apply IHl; lia. Qed.

Lemma nth_upd_neq {A} i j (x d : A) l : i <> j -> nth j (qupd i x l) d = nth j l d.
Proof. revert i j; induction l; intros [|i] [|j]; simpl; intros; auto; try congruence. Qed.

Lemma Forall_upd {A} (P : A -> Prop) i x l : Forall P l -> P x -> Forall P (qupd i x l).
Proof.
  intros H; revert i; induction H; intros [|i] Hx; simpl; constructor; auto.
Qed.

Definition sumf {A} (f : A -> nat) (l : list A) : nat := fold_right (fun c a => f c + a) 0 l.

Lemma sumf_upd {A} (f : A -> nat) i c c' l :
  nth_error l i = Some c -> sumf f (qupd i c' l) + f c = sumf f l + f c'.
Proof.
  revert i; induction l; intros [|i]; simpl; intros H; try discriminate.
  - inversion H; subst; lia.
  - specialize (IHl _ H). lia.
Qed.

Lemma sumf_mono_at {A} (f g : A -> nat) i c l :
  (forall x, f x <= g x) -> nth_error l i = Some c -> sumf f l + g c <= sumf g l + f c.
Proof.
  intros Hfg; revert i; induction l; intros [|i]; simpl; intros H; try discriminate.
  - inversion H; subst. assert (sumf f l <= sumf g l).
    { clear - Hfg. induction l; simpl; auto. specialize (Hfg a). lia. } lia.
  - specialize (IHl _ H). specialize (Hfg a). lia.
Qed.

Lemma sumf_le {A} (f g : A -> nat) l : (forall x, f x <= g x) -> sumf f l <= sumf g l.
Proof. intros H; induction l; simpl; auto. specialize (H a). lia. Qed.

Lemma sumf_ge_at {A} (f : A -> nat) i c l : nth_error l i = Some c -> f c <= sumf f l.
Proof. revert i; induction l; intros [|i]; simpl; intros H; try discriminate.
  - inversion H; subst; lia. - specialize (IHl _ H); lia. Qed.

Lemma sumf_two {A} (f : A -> nat) i j c d l :
  i <> j -> nth_error l i = Some c -> nth_error l j = Some d -> f c + f d <= sumf f l.
Proof.
  revert i j; induction l; intros [|i] [|j]; simpl; intros Hij Hi Hj; try discriminate; try congruence.
  - inversion Hi; subst. pose proof (sumf_ge_at f _ _ _ Hj). lia.
  - inversion Hj; subst. pose proof (sumf_ge_at f _ _ _ Hi). lia.
  - assert (i <> j) by congruence. specialize (IHl _ _ H Hi Hj). lia.
Qed.

Lemma sumf_zero_Forall {A} (f : A -> nat) l : Forall (fun c => f c = 0) l -> sumf f l = 0.
Proof. induction 1; simpl; lia. Qed.

Lemma sumf_pos_ex {A} (f : A -> nat) l : 0 < sumf f l -> exists i c, nth_error l i = Some c /\ 0 < f c.
Proof.
  induction l; simpl; intros H; [lia|].
  destruct (f a) eqn:E.
  - destruct IHl as (i & c & Hi & Hc); [lia|]. exists (S i), c; auto.
  - exists 0, a; simpl; split; auto; lia.
Qed.

Lemma sumf_repeat {A} (f : A -> nat) c n : f c = 0 -> sumf f (repeat c n) = 0.
Proof. intros H; induction n; simpl; lia. Qed.

Lemma sumf_bound {A} (f : A -> nat) l : (forall c, f c <= 1) -> sumf f l <= length l.
Proof. intros H; induction l; simpl; auto. specialize (H a); lia. Qed.

Lemma flat_map_upd_same {A B} (f : A -> list B) i c c' l :
  nth_error l i = Some c -> f c' = f c -> flat_map f (qupd i c' l) = flat_map f l.
Proof.
  revert i; induction l; intros [|i]; simpl; intros H E; try discriminate.
  - inversion H; subst; congruence.
  - f_equal; eauto.
Qed.

Lemma flat_map_upd_snoc {A B} (f : A -> list B) i c c' x l :
  nth_error l i = Some c -> f c' = f c ++ [x] -> Permutation (flat_map f (qupd i c' l)) (flat_map f l ++ [x]).
Proof.
  revert i; induction l; intros [|i]; simpl; intros H E; try discriminate.
  - inversion H; subst. rewrite E. rewrite <- !app_assoc. apply Permutation_app_head. apply Permutation_app_comm.
  - rewrite <- app_assoc. apply Permutation_app_head. eauto.
Qed.

Lemma firstn_snoc {A} (l : list A) n x : nth_error l n = Some x -> firstn (S n) l = firstn n l ++ [x].
Proof.
  revert n; induction l; intros [|n]; simpl; intros H; try discriminate.
  - inversion H; auto.
  - f_equal. apply (IHl n H).
Qed.

Lemma flat_map_repeat_nil {A B} (f : A -> list B) c n : f c = [] -> flat_map f (repeat c n) = [].
Proof. intros H; induction n; simpl; auto. rewrite H, IHn; auto. Qed.

(* ------------------------------------------------------------------ modular arithmetic *)
Lemma mod_succ R a : R <> 0 -> (a mod R + 1) mod R = (a + 1) mod R.
Proof. intros. rewrite Nat.add_mod_idemp_l; auto. Qed.

Lemma mod_window_eq R a b : a <= b -> b < a + R -> a mod R = b mod R -> a = b.
Proof.
  intros Hab Hb E. assert (HR : R <> 0) by lia.
  pose proof (Nat.div_mod a R HR). pose proof (Nat.div_mod b R HR).
  pose proof (Nat.mod_upper_bound a R HR).
  assert (a / R = b / R) by nia. nia.
Qed.

(* ------------------------------------------------------------------ reachability, all schedules *)
Inductive reachable (cfg : qconfig) (files : list nat) (N : nat) : qstate -> Prop :=
| r_init : reachable cfg files N (qinit cfg files N)
| r_step s t s' : reachable cfg files N s -> qstep_thread cfg files t s = Some s' -> reachable cfg files N s'.

Lemma run_reachable cfg files N sched s : reachable cfg files N s -> reachable cfg files N (qrun cfg files sched s).
Proof.
  revert s; induction sched as [|t r IH]; simpl; intros s H; auto.
  destruct (qstep_thread cfg files t s) eqn:E; auto. apply IH. econstructor; eauto.
Qed.

Lemma sweep_reachable cfg files N fuel s : reachable cfg files N s -> reachable cfg files N (qsweep cfg files fuel s).
Proof.
  revert s; induction fuel; intros s H; [exact H|].
  change (qsweep cfg files (S fuel) s) with
    (if qterminal s then s else qsweep cfg files fuel (qrun cfg files (seq 0 (S (length (q_cons s)))) s)).
  destruct (qterminal s); auto. apply IHfuel. apply run_reachable; auto.
Qed.

(* ------------------------------------------------------------------ the invariant *)
Section Inv.
Variables (M T : nat) (files : list nat) (N : nat).
Hypothesis HM : 0 < M.
Hypothesis HN1 : 1 <= N.
Hypothesis HNT : N <= T.

Let cfg := qstd_cfg M T.
Let R := S M.
Let L := length files.

Definition ind (b : bool) : nat := if b then 1 else 0.
Definition inl (l : list nat) (x : nat) : bool := existsb (Nat.eqb x) l.
Definition live (c : qcstate) : bool := negb (qc_done c).
Definition isSome {A} (o : option A) : bool := match o with Some _ => true | None => false end.

(* per-consumer quantities (op numbers of qc_get: 0 QWait QUsed, 1 QLock, 2 QIfEqElse, 3 QLoad, 4 QInc,
   5 QUnlock, 6 QRelease QUnused) *)
Definition hold c := ind (live c && inl [1;2;3;4] (qc_pc c)).      (* took a token of [q_used], not yet spent *)
Definition pendS c := ind (live c && inl [5;6] (qc_pc c) && isSome (qc_res c)).  (* dequeued, [q_unused] not yet released *)
Definition pendN c := ind (live c && inl [5;6] (qc_pc c) && negb (isSome (qc_res c))). (* saw the empty queue, ditto *)
Definition nullc c := ind (qc_done c) + pendN c.                     (* spent a finish token *)
Definition gcount c := length (qc_got c) + pendS c.                  (* increments of head done *)
Definition incs c := ind (live c && inl [2;3;4;5] (qc_pc c)).        (* inside the critical section *)
Definition cmid c := ind (live c && inl [3;4] (qc_pc c)).            (* passed the emptiness test, head not yet moved *)
Definition taken c := qc_got c ++ (if live c && inl [5;6] (qc_pc c) then match qc_res c with Some f => [f] | None => [] end else []).

(* producer quantities (qc_put: 0 QWait QUnused, 1 QLock, 2 QStore, 3 QInc, 4 QUnlock, 5 QRelease QUsed) *)
Definition Pn p := match p with QPut pc idx => idx + ind (4 <=? pc) | QFin _ => L end.   (* increments of tail done *)
Definition ppend p := match p with QPut pc _ => ind (inl [4;5] pc) | _ => 0 end.
Definition phold p := match p with QPut pc _ => ind (inl [1;2;3] pc) | _ => 0 end.
Definition pincs p := match p with QPut pc _ => ind (inl [2;3;4] pc) | _ => 0 end.
Definition pstored p := match p with QPut pc _ => ind (pc =? 3) | _ => 0 end.
Definition finrel p := match p with QFin n => T - n | _ => 0 end.

Definition cwf (c : qcstate) : Prop :=
  qc_pc c <= 6 /\ (qc_done c = true -> qc_pc c = 0) /\ (qc_pc c <= 3 -> qc_res c = None).

Definition mtx_ok (m : option nat) (p : qpstate) (cs : list qcstate) : Prop :=
  pincs p + sumf incs cs = ind (isSome m) /\
  match m with
  | None => True
  | Some 0 => pincs p = 1
  | Some (S j) => exists c, nth_error cs j = Some c /\ incs c = 1
  end.

Record inv (s : qstate) : Prop := mkInv {
  i_len : length (q_cons s) = N;
  i_ringlen : length (q_ring (q_sh s)) = R;
  i_prod : match q_prod s with QPut pc idx => pc <= 5 /\ idx < L | QFin n => n <= T end;
  i_cons : Forall cwf (q_cons s);
  i_mtx : mtx_ok (q_mtx (q_sh s)) (q_prod s) (q_cons s);
  (* the counting invariant *)
  i_A : q_used (q_sh s) + sumf hold (q_cons s) + sumf nullc (q_cons s) + sumf gcount (q_cons s) + ppend (q_prod s)
        = Pn (q_prod s) + finrel (q_prod s);
  i_B : q_unused (q_sh s) + Pn (q_prod s) + phold (q_prod s) + sumf pendS (q_cons s) + sumf pendN (q_cons s)
        = M + sumf gcount (q_cons s) + sumf nullc (q_cons s);
  i_C1 : sumf gcount (q_cons s) + sumf cmid (q_cons s) <= Pn (q_prod s);
  i_C2 : Pn (q_prod s) + phold (q_prod s) <= sumf gcount (q_cons s) + M;
  i_H : 0 < sumf nullc (q_cons s) -> (exists n, q_prod s = QFin n) /\ sumf gcount (q_cons s) = Pn (q_prod s);
  i_head : q_head (q_sh s) = sumf gcount (q_cons s) mod R;
  i_tail : q_tail (q_sh s) = Pn (q_prod s) mod R;
  i_R : forall k, sumf gcount (q_cons s) <= k < Pn (q_prod s) + pstored (q_prod s) ->
                  nth (k mod R) (q_ring (q_sh s)) None = nth_error files k;
  i_F : forall j c, nth_error (q_cons s) j = Some c -> qc_done c = false -> qc_pc c = 4 ->
                    qc_res c = nth_error files (sumf gcount (q_cons s));
  i_G : Permutation (flat_map taken (q_cons s)) (firstn (sumf gcount (q_cons s)) files)
}.

Local Notation reach := (reachable cfg files N).

Lemma Pn_le_L p : (match p with QPut pc idx => pc <= 5 /\ idx < L | QFin n => n <= T end) -> Pn p <= L.
Proof. destruct p as [pc idx|n]; unfold Pn, ind; intros; auto. destruct (4 <=? pc); lia. Qed.

Lemma pend_le_null c : pendN c <= nullc c.  Proof. unfold nullc; lia. Qed.
Lemma cmid_le_incs c : cmid c <= incs c.
Proof. unfold cmid, incs, ind, inl. destruct (live c); simpl; auto.
  destruct (qc_pc c) as [|[|[|[|[|[|]]]]]]; simpl; auto. Qed.
Lemma incs_le1 c : incs c <= 1.  Proof. unfold incs, ind. destruct (_ && _); auto. Qed.
Lemma nullc_le1 c : nullc c <= 1.
Proof. unfold nullc, pendN, live, ind. destruct (qc_done c); simpl; auto. destruct (_ && _); auto. Qed.

(* ---- mutex bookkeeping ---- *)
Lemma mtx_ok_same m p cs i c c' :
  mtx_ok m p cs -> nth_error cs i = Some c -> incs c' = incs c -> mtx_ok m p (qupd i c' cs).
Proof.
  intros [H1 H2] Hn E. pose proof (sumf_upd incs _ _ c' _ Hn). split; [lia|].
  destruct m as [[|j]|]; auto.
  destruct H2 as (d & Hd & Hi). destruct (Nat.eq_dec i j).
  - subst j. exists c'. split. eapply nth_error_upd_eq; eauto. congruence.
  - exists d. rewrite nth_error_upd_neq; auto.
Qed.

Lemma mtx_ok_lock_c p cs i c c' :
  mtx_ok None p cs -> nth_error cs i = Some c -> incs c = 0 -> incs c' = 1 -> mtx_ok (Some (S i)) p (qupd i c' cs).
Proof.
  intros [H1 _] Hn E0 E1. pose proof (sumf_upd incs _ _ c' _ Hn). split; simpl in *; [lia|].
  exists c'; split; auto. eapply nth_error_upd_eq; eauto.
Qed.

Lemma mtx_ok_unlock_c m p cs i c c' :
  mtx_ok m p cs -> nth_error cs i = Some c -> incs c = 1 -> incs c' = 0 -> mtx_ok None p (qupd i c' cs).
Proof.
  intros [H1 _] Hn E1 E0. pose proof (sumf_upd incs _ _ c' _ Hn). pose proof (sumf_ge_at incs _ _ _ Hn).
  split; simpl; auto. destruct m; simpl in *; lia.
Qed.

Lemma mtx_ok_prod m p p' cs : mtx_ok m p cs -> pincs p' = pincs p -> mtx_ok m p' cs.
Proof. intros [H1 H2] E. split; [lia|]. destruct m as [[|j]|]; auto. lia. Qed.

Lemma mtx_held_sum m p cs i c : mtx_ok m p cs -> nth_error cs i = Some c -> incs c = 1 -> pincs p = 0 /\ sumf incs cs = 1.
Proof.
  intros [H1 _] Hn E. pose proof (sumf_ge_at incs _ _ _ Hn). destruct m; simpl in *; lia.
Qed.

(* ---- initial state ---- *)
Lemma inv_init : inv (qinit cfg files N).
Proof.
  set (c0 := mkQC 0 None [] false).
  set (p0 := match files with [] => QFin T | _ :: _ => QPut 0 0 end).
  change (qinit cfg files N) with (mkQS (mkQSh 0 M None 0 0 (repeat None R)) p0 (repeat c0 N)).
  assert (Z : forall f : qcstate -> nat, f c0 = 0 -> sumf f (repeat c0 N) = 0)
    by (intros; apply sumf_repeat; auto).
  assert (P0 : Pn p0 = 0 /\ ppend p0 = 0 /\ phold p0 = 0 /\ pincs p0 = 0 /\ pstored p0 = 0 /\ finrel p0 = 0).
  { assert (E : (p0 = QFin T /\ L = 0) \/ (p0 = QPut 0 0 /\ 0 < L)).
    { unfold p0, L. generalize files as fl. intros [|a t]; simpl; auto. right; split; auto; lia. }
    destruct E as [[-> E]|[-> E]]; simpl; repeat split; auto; lia. }
  destruct P0 as (P0 & P1 & P2 & P3 & P4 & P5).
  assert (PW : match p0 with QPut pc idx => pc <= 5 /\ idx < L | QFin n => n <= T end).
  { unfold p0, L. generalize files as fl. intros [|a t]; simpl; auto. lia. }
  constructor; cbn [q_cons q_sh q_prod q_ring q_used q_unused q_mtx q_head q_tail qsetmtx qsetsem qsetvar qsetring qgetsem qgetvar];
    rewrite ?P0, ?P1, ?P2, ?P3, ?P4, ?P5, ?(Z hold), ?(Z nullc), ?(Z gcount), ?(Z pendS), ?(Z pendN), ?(Z cmid) by reflexivity.
  - apply repeat_length.
  - apply repeat_length.
  - exact PW.
  - apply Forall_forall. intros c Hc. apply repeat_spec in Hc. subst. unfold cwf; simpl. repeat split; auto; lia.
  - split; simpl; auto. rewrite P3, (Z incs) by reflexivity. reflexivity.
  - lia.
  - lia.
  - lia.
  - lia.
  - lia.
  - rewrite Nat.mod_0_l; unfold R; auto.
  - rewrite Nat.mod_0_l; unfold R; auto.
  - intros k Hk. lia.
  - intros j c Hc _ Hpc. apply nth_error_In in Hc. apply repeat_spec in Hc. subst. discriminate.
  - rewrite flat_map_repeat_nil by reflexivity. simpl. constructor.
Qed.

(* ---- preservation ---- *)
Ltac sums Hn c' :=
  pose proof (sumf_upd hold _ _ c' _ Hn); pose proof (sumf_upd nullc _ _ c' _ Hn);
  pose proof (sumf_upd gcount _ _ c' _ Hn); pose proof (sumf_upd pendS _ _ c' _ Hn);
  pose proof (sumf_upd pendN _ _ c' _ Hn); pose proof (sumf_upd cmid _ _ c' _ Hn).

Ltac cwf_tac := unfold cwf; simpl; repeat split; intros; auto; try lia; try discriminate.

Ltac pfin :=
  simpl in *; rewrite ?upd_length; auto; try lia; try (eapply mtx_ok_prod; eauto; fail);
  try (intros; match goal with H : forall k, _ -> nth _ _ _ = _ |- nth _ _ _ = _ => apply H; lia end).

Lemma inv_step_prod s s' : inv s -> qstep_prod cfg files s = Some s' -> inv s'.
Proof.
  intros I Hs. destruct s as [[u un m h t r] p cs]. destruct I; simpl in *.
  unfold qstep_prod in Hs; simpl in Hs.
  destruct p as [pc idx|n].
  - destruct i_prod0 as [Hpc Hidx].
    destruct pc as [|[|[|[|[|[|pc]]]]]]; try lia; simpl in Hs.
    + (* QWait QUnused *)
      destruct un as [|k]; [discriminate|]. inversion Hs; subst; clear Hs.
      assert (sumf nullc cs = 0).
      { destruct (sumf nullc cs) eqn:E; auto. destruct i_H0 as [[n0 Hn0] _]; [lia|discriminate]. }
      pose proof (sumf_le pendN nullc cs pend_le_null).
      constructor; simpl in *; auto; try lia; try (eapply mtx_ok_prod; eauto; fail).
    + (* QLock *)
      destruct m; [discriminate|]. inversion Hs; subst; clear Hs.
      constructor; simpl in *; auto; try lia.
      destruct i_mtx0 as [H1 _]; split; simpl in *; auto; lia.
    + (* QStore QTail *)
      inversion Hs; subst; clear Hs.
      constructor; simpl in *; rewrite ?upd_length; auto; try lia; try (eapply mtx_ok_prod; eauto; fail).
      intros k Hk. rewrite Nat.add_0_r in *.
      destruct (Nat.eq_dec k idx) as [->|Hne].
      * rewrite nth_upd_eq; auto. rewrite i_ringlen0. apply Nat.mod_upper_bound. unfold R; lia.
      * rewrite nth_upd_neq. apply i_R0; lia.
        intro E. apply Hne. apply (mod_window_eq R); [lia | unfold R; lia | congruence].
    + (* QInc QTail *)
      inversion Hs; subst; clear Hs.
      constructor; pfin.
      rewrite Nat.add_0_r. apply (mod_succ (S M)). lia.
    + (* QUnlock *)
      inversion Hs; subst; clear Hs.
      constructor; pfin.
      destruct i_mtx0 as [H1 _]. split; simpl in *; auto. destruct m; simpl in *; lia.
    + (* QRelease QUsed, then next file or finish *)
      inversion Hs; subst; clear Hs. unfold qpnorm; simpl.
      assert (sumf nullc cs = 0).
      { destruct (sumf nullc cs) eqn:E; auto. destruct i_H0 as [[n0 Hn0] _]; [lia|discriminate]. }
      fold L. destruct (S idx <? L) eqn:E; [apply Nat.ltb_lt in E | apply Nat.ltb_ge in E].
      * constructor; pfin.
        all: try (rewrite ?Nat.add_0_r; f_equal; lia).
      * assert (L = idx + 1) by lia.
        constructor; pfin.
        all: try (rewrite ?Nat.add_0_r; f_equal; lia).
  - destruct n as [|n]; [discriminate|]. simpl in Hs. inversion Hs; subst; clear Hs.
    constructor; pfin.
    intros Hp. destruct (i_H0 Hp) as [_ ?]. split; eauto.
Qed.

Ltac cfin i i_H0 i_head0 i_R0 :=
  rewrite ?upd_length; auto; try lia;
  try (apply Forall_upd; [assumption | cwf_tac]; fail);
  try (eapply mtx_ok_same; eauto; fail);
  try (intros Hp; apply i_H0; lia);
  try (rewrite i_head0; f_equal; lia);
  try (intros k0 Hk; apply i_R0; lia);
  try (intros j c Hj Hd Hp4; destruct (Nat.eq_dec i j) as [<-|Hij];
       [ erewrite nth_error_upd_eq in Hj by eauto; inversion Hj; subst; simpl in Hp4; discriminate
       | rewrite nth_error_upd_neq in Hj by auto; eauto ]; fail);
  try (erewrite flat_map_upd_same; [assumption | eauto | unfold taken; simpl; rewrite ?app_nil_r; reflexivity]; fail).

Lemma inv_step_cons i s s' : inv s -> qstep_cons cfg i s = Some s' -> inv s'.
Proof.
  intros I Hs. destruct s as [[u un m h t r] p cs]. destruct I; simpl in *.
  unfold qstep_cons in Hs; simpl in Hs.
  destruct (nth_error cs i) as [c|] eqn:Hn; [|discriminate].
  destruct c as [pc res got dn]. simpl in Hs. destruct dn; [discriminate|].
  assert (Hwf : cwf (mkQC pc res got false)).
  { rewrite Forall_forall in i_cons0. apply i_cons0. eapply nth_error_In; eauto. }
  destruct Hwf as (Hpc & _ & Hres). simpl in Hpc, Hres.
  pose proof (Pn_le_L p i_prod0) as HPL.
  destruct pc as [|[|[|[|[|[|[|pc]]]]]]]; try lia; simpl in Hs.
  - (* QWait QUsed *)
    destruct u as [|k]; [discriminate|]. injection Hs as <-.
    sums Hn (mkQC 1 res got false). cbn in *.
    assert (HG : sumf gcount (qupd i (mkQC 1 res got false) cs) = sumf gcount cs) by lia.
    constructor; cbn [q_cons q_sh q_prod q_ring q_used q_unused q_mtx q_head q_tail qsetmtx qsetsem qsetvar qsetring qgetsem qgetvar]; rewrite ?HG; cfin i i_H0 i_head0 i_R0.
  - (* QLock *)
    destruct m; [discriminate|]. injection Hs as <-.
    sums Hn (mkQC 2 res got false). cbn in *.
    assert (HG : sumf gcount (qupd i (mkQC 2 res got false) cs) = sumf gcount cs) by lia.
    constructor; cbn [q_cons q_sh q_prod q_ring q_used q_unused q_mtx q_head q_tail qsetmtx qsetsem qsetvar qsetring qgetsem qgetvar]; rewrite ?HG; cfin i i_H0 i_head0 i_R0.
    eapply mtx_ok_lock_c; eauto.
  - (* QIfEqElse QHead QTail 2 *)
    destruct (mtx_held_sum _ _ _ _ _ i_mtx0 Hn eq_refl) as [Hpi Hsi].
    pose proof (sumf_mono_at cmid incs _ _ _ cmid_le_incs Hn) as Hcm. cbn in Hcm.
    assert (Hcm0 : sumf cmid cs = 0) by lia.
    destruct (h =? t) eqn:E; [apply Nat.eqb_eq in E | apply Nat.eqb_neq in E]; injection Hs as <-.
    + (* empty: result = NULL *)
      unfold qcnorm; simpl.
      sums Hn (mkQC 5 None got false). cbn in *.
      assert (HG : sumf gcount (qupd i (mkQC 5 None got false) cs) = sumf gcount cs) by lia.
      assert (HGP : sumf gcount cs = Pn p).
      { apply (mod_window_eq R); [lia | unfold R; lia | congruence]. }
      assert (Hfin : exists n, p = QFin n).
      { destruct p as [pc idx|n]; eauto. simpl in *. lia. }
      constructor; cbn [q_cons q_sh q_prod q_ring q_used q_unused q_mtx q_head q_tail qsetmtx qsetsem qsetvar qsetring qgetsem qgetvar]; rewrite ?HG; cfin i i_H0 i_head0 i_R0.
    + (* not empty *)
      unfold qcnorm; simpl.
      sums Hn (mkQC 3 res got false). cbn in *.
      assert (HG : sumf gcount (qupd i (mkQC 3 res got false) cs) = sumf gcount cs) by lia.
      assert (HGP : sumf gcount cs <> Pn p) by (intro; apply E; congruence).
      constructor; cbn [q_cons q_sh q_prod q_ring q_used q_unused q_mtx q_head q_tail qsetmtx qsetsem qsetvar qsetring qgetsem qgetvar]; rewrite ?HG; cfin i i_H0 i_head0 i_R0.
  - (* QLoad QHead *)
    injection Hs as <-. unfold qcnorm; simpl.
    pose proof (sumf_ge_at cmid _ _ _ Hn) as Hc1. cbn in Hc1.
    sums Hn (mkQC 4 (nth h r None) got false). cbn in *.
    assert (HG : sumf gcount (qupd i (mkQC 4 (nth h r None) got false) cs) = sumf gcount cs) by lia.
    constructor; cbn [q_cons q_sh q_prod q_ring q_used q_unused q_mtx q_head q_tail qsetmtx qsetsem qsetvar qsetring qgetsem qgetvar]; rewrite ?HG; cfin i i_H0 i_head0 i_R0.
    intros j c Hj Hd Hp4. destruct (Nat.eq_dec i j) as [<-|Hij].
    + erewrite nth_error_upd_eq in Hj by eauto. inversion Hj; subst c; simpl.
      rewrite i_head0. apply i_R0. lia.
    + rewrite nth_error_upd_neq in Hj by auto. eauto.
  - (* QInc QHead *)
    injection Hs as <-. unfold qcnorm; simpl.
    destruct (mtx_held_sum _ _ _ _ _ i_mtx0 Hn eq_refl) as [Hpi Hsi].
    pose proof (sumf_ge_at cmid _ _ _ Hn) as Hc1. cbn in Hc1.
    pose proof (i_F0 _ _ Hn eq_refl eq_refl) as HF. simpl in HF.
    destruct (nth_error files (sumf gcount cs)) as [f|] eqn:Ef.
    2:{ apply nth_error_None in Ef. fold L in Ef. lia. }
    subst res.
    sums Hn (mkQC 5 (Some f) got false). cbn in *.
    assert (HG : sumf gcount (qupd i (mkQC 5 (Some f) got false) cs) = S (sumf gcount cs)) by lia.
    constructor; cbn [q_cons q_sh q_prod q_ring q_used q_unused q_mtx q_head q_tail qsetmtx qsetsem qsetvar qsetring qgetsem qgetvar]; rewrite ?HG; cfin i i_H0 i_head0 i_R0.
    + rewrite i_head0. rewrite (mod_succ (S M)) by lia. f_equal. lia.
    + intros j c Hj Hd Hp4. destruct (Nat.eq_dec i j) as [<-|Hij].
      * erewrite nth_error_upd_eq in Hj by eauto. inversion Hj; subst c; discriminate.
      * rewrite nth_error_upd_neq in Hj by auto. exfalso.
        pose proof (sumf_two incs _ _ _ _ _ Hij Hn Hj) as Htwo.
        destruct c as [pc' res' got' dn']; simpl in *; subst. cbn in Htwo. lia.
    + erewrite firstn_snoc by eauto.
      eapply perm_trans.
      { eapply flat_map_upd_snoc with (x := f); [exact Hn | unfold taken; simpl; rewrite app_nil_r; reflexivity]. }
      apply Permutation_app_tail; auto.
  - (* QUnlock *)
    injection Hs as <-. unfold qcnorm; simpl.
    sums Hn (mkQC 6 res got false).
    destruct res as [f|]; cbn in *.
    + assert (HG : sumf gcount (qupd i (mkQC 6 (Some f) got false) cs) = sumf gcount cs) by lia.
      constructor; cbn [q_cons q_sh q_prod q_ring q_used q_unused q_mtx q_head q_tail qsetmtx qsetsem qsetvar qsetring qgetsem qgetvar]; rewrite ?HG; cfin i i_H0 i_head0 i_R0.
      eapply mtx_ok_unlock_c; eauto.
    + assert (HG : sumf gcount (qupd i (mkQC 6 None got false) cs) = sumf gcount cs) by lia.
      constructor; cbn [q_cons q_sh q_prod q_ring q_used q_unused q_mtx q_head q_tail qsetmtx qsetsem qsetvar qsetring qgetsem qgetvar]; rewrite ?HG; cfin i i_H0 i_head0 i_R0.
      eapply mtx_ok_unlock_c; eauto.
  - (* QRelease QUnused, then loop or end *)
    injection Hs as <-. unfold qcnorm; simpl.
    destruct res as [f|].
    + sums Hn (mkQC 0 None (got ++ [f]) false). cbn in *. rewrite app_length in *. simpl in *.
      assert (HG : sumf gcount (qupd i (mkQC 0 None (got ++ [f]) false) cs) = sumf gcount cs) by lia.
      constructor; cbn [q_cons q_sh q_prod q_ring q_used q_unused q_mtx q_head q_tail qsetmtx qsetsem qsetvar qsetring qgetsem qgetvar]; rewrite ?HG; cfin i i_H0 i_head0 i_R0.
    + sums Hn (mkQC 0 None got true). cbn in *.
      assert (HG : sumf gcount (qupd i (mkQC 0 None got true) cs) = sumf gcount cs) by lia.
      constructor; cbn [q_cons q_sh q_prod q_ring q_used q_unused q_mtx q_head q_tail qsetmtx qsetsem qsetvar qsetring qgetsem qgetvar]; rewrite ?HG; cfin i i_H0 i_head0 i_R0.
Qed.

Theorem reachable_inv s : reach s -> inv s.
Proof.
  induction 1. apply inv_init.
  destruct t; simpl in H0. eapply inv_step_prod; eauto. eapply inv_step_cons; eauto.
Qed.

(* ---- (a) the counting invariant ---- *)
Theorem counting_std s : reach s ->
  q_used (q_sh s) + sumf hold (q_cons s) + sumf nullc (q_cons s) + sumf gcount (q_cons s) + ppend (q_prod s)
    = Pn (q_prod s) + finrel (q_prod s) /\
  q_unused (q_sh s) + Pn (q_prod s) + phold (q_prod s) + sumf pendS (q_cons s) + sumf pendN (q_cons s)
    = M + sumf gcount (q_cons s) + sumf nullc (q_cons s) /\
  sumf gcount (q_cons s) <= Pn (q_prod s) <= sumf gcount (q_cons s) + M /\
  q_head (q_sh s) = sumf gcount (q_cons s) mod S M /\ q_tail (q_sh s) = Pn (q_prod s) mod S M.
Proof.
  intros H. destruct (reachable_inv _ H). repeat split; auto; lia.
Qed.

(* ---- (b) every file exactly once ---- *)
Lemma all_done_taken cs : forallb qc_done cs = true -> flat_map taken cs = flat_map qc_got cs.
Proof.
  induction cs as [|c cs IH]; simpl; auto. intros H. apply andb_prop in H. destruct H as [Hc Hr].
  rewrite IH by auto. f_equal. unfold taken, live. rewrite Hc. simpl. apply app_nil_r.
Qed.

Theorem each_file_once_std s : reach s -> qterminal s = true -> Permutation (qdelivered s) files.
Proof.
  intros Hr Ht. destruct (reachable_inv _ Hr). destruct s as [h p cs]. simpl in *.
  unfold qterminal in Ht; simpl in Ht. destruct p as [|[|n]]; try discriminate.
  unfold qdelivered; simpl. rewrite <- all_done_taken by auto.
  assert (Hpos : 0 < sumf nullc cs).
  { destruct cs as [|c cs]; simpl in *; [lia|]. apply andb_prop in Ht. destruct Ht as [Hc _].
    unfold nullc at 1. rewrite Hc. simpl. lia. }
  destruct (i_H0 Hpos) as [_ HG]. simpl in HG. rewrite HG in i_G0. unfold L in i_G0.
  rewrite firstn_all in i_G0. exact i_G0.
Qed.

(* ---- (c) no deadlock ---- *)
Definition idle (c : qcstate) : Prop := qc_done c = true \/ qc_pc c = 0.

Lemma cons_cases cs :
  (exists i c, nth_error cs i = Some c /\ qc_done c = false /\ qc_pc c <> 0) \/ Forall idle cs.
Proof.
  induction cs as [|c cs IH]; [right; constructor|].
  destruct (qc_done c) eqn:Ed.
  - destruct IH as [(i & d & Hi & Hd)|IH]; [left; exists (S i), d; auto | right; constructor; auto; left; auto].
  - destruct (Nat.eq_dec (qc_pc c) 0) as [E0|E0].
    + destruct IH as [(i & d & Hi & Hd)|IH]; [left; exists (S i), d; auto | right; constructor; auto; right; auto].
    + left; exists 0, c; simpl; auto.
Qed.

Lemma live_cases cs : (exists i c, nth_error cs i = Some c /\ qc_done c = false) \/ forallb qc_done cs = true.
Proof.
  induction cs as [|c cs IH]; [right; auto|]. simpl.
  destruct (qc_done c) eqn:Ed; [|left; exists 0, c; auto].
  destruct IH as [(i & d & Hi & Hd)|IH]; [left; exists (S i), d; auto | right; auto].
Qed.

Lemma idle_zero (f : qcstate -> nat) cs : (forall c, idle c -> f c = 0) -> Forall idle cs -> sumf f cs = 0.
Proof. intros Hf H. apply sumf_zero_Forall. eapply Forall_impl; eauto. Qed.

Lemma idle_hold c : idle c -> hold c = 0.
Proof. unfold idle, hold, live. intros [->| ->]; simpl; auto. rewrite andb_false_r; auto. Qed.
Lemma idle_pendS c : idle c -> pendS c = 0.
Proof. unfold idle, pendS, live. intros [->| ->]; simpl; auto. rewrite andb_false_r; auto. Qed.
Lemma idle_pendN c : idle c -> pendN c = 0.
Proof. unfold idle, pendN, live. intros [->| ->]; simpl; auto. rewrite andb_false_r; auto. Qed.

Lemma sumf_bound_at {A} (f : A -> nat) i c l :
  (forall x, f x <= 1) -> nth_error l i = Some c -> f c = 0 -> sumf f l + 1 <= length l.
Proof.
  intros Hf; revert i; induction l; intros [|i]; simpl; intros Hn E; try discriminate.
  - inversion Hn; subst. pose proof (sumf_bound f l Hf). lia.
  - specialize (IHl _ Hn E). specialize (Hf a). lia.
Qed.

Theorem no_deadlock_std s : reach s -> qterminal s = false -> exists t s', qstep_thread cfg files t s = Some s'.
Proof.
  intros Hr Ht. destruct (reachable_inv _ Hr). destruct s as [[u un m h t r] p cs]. simpl in *.
  destruct m as [o|].
  - (* the mutex is held: its owner is inside the critical section, where no op blocks *)
    destruct i_mtx0 as [Hsum Hown]. destruct o as [|j].
    + exists 0. destruct p as [pc idx|n]; simpl in Hown; [|discriminate].
      unfold qstep_thread, qstep_prod; simpl.
      destruct pc as [|[|[|[|[|pc]]]]]; try discriminate; simpl; eauto.
    + destruct Hown as (c & Hc & Hi). exists (S j). unfold qstep_thread, qstep_cons; simpl. rewrite Hc.
      destruct c as [pc res got dn]. unfold incs, live in Hi; simpl in *.
      destruct dn; simpl in Hi; try discriminate.
      destruct pc as [|[|[|[|[|[|pc]]]]]]; try discriminate; simpl; eauto.
      destruct (h =? t); eauto.
  - (* the mutex is free *)
    destruct (cons_cases cs) as [(i & c & Hc & Hd & Hp)|Hidle].
    { (* a consumer in the middle of file_queue_get *)
      exists (S i). unfold qstep_thread, qstep_cons; simpl. rewrite Hc.
      assert (Hwf : cwf c). { rewrite Forall_forall in i_cons0. apply i_cons0. eapply nth_error_In; eauto. }
      destruct Hwf as (Hpc & _ & _). destruct c as [pc res got dn]; simpl in *. subst dn.
      destruct pc as [|[|[|[|[|[|[|pc]]]]]]]; try lia; simpl; eauto.
      destruct (h =? t); eauto. }
    pose proof (idle_zero hold cs idle_hold Hidle) as Zh.
    pose proof (idle_zero pendS cs idle_pendS Hidle) as Zs.
    pose proof (idle_zero pendN cs idle_pendN Hidle) as Zn.
    destruct p as [pc idx|n].
    + destruct pc as [|pc].
      2:{ exists 0. unfold qstep_thread, qstep_prod; simpl. destruct i_prod0 as [Hpc _].
          destruct pc as [|[|[|[|[|pc]]]]]; try lia; simpl; eauto. }
      destruct un as [|k]; [|exists 0; unfold qstep_thread, qstep_prod; simpl; eauto].
      simpl in *.
      assert (Z0 : sumf nullc cs = 0).
      { destruct (sumf nullc cs) eqn:E; auto. destruct i_H0 as [[n0 Hn0] _]; [lia|discriminate]. }
      destruct (live_cases cs) as [(i & c & Hc & Hd)|Hall].
      * assert (Hpc : qc_pc c = 0).
        { rewrite Forall_forall in Hidle. destruct (Hidle c) as [E|E]; auto. eapply nth_error_In; eauto. congruence. }
        destruct u as [|k].
        -- exfalso. lia.
        -- exists (S i). unfold qstep_thread, qstep_cons; simpl. rewrite Hc, Hd, Hpc. simpl. eauto.
      * exfalso. destruct cs as [|c cs]; simpl in *; [lia|]. apply andb_prop in Hall. destruct Hall as [Hc _].
        unfold nullc at 1 in Z0. rewrite Hc in Z0. simpl in Z0. lia.
    + destruct n as [|n]; [|exists 0; unfold qstep_thread, qstep_prod; simpl; eauto].
      destruct (live_cases cs) as [(i & c & Hc & Hd)|Hall].
      * assert (Hpc : qc_pc c = 0).
        { rewrite Forall_forall in Hidle. destruct (Hidle c) as [E|E]; auto. eapply nth_error_In; eauto. congruence. }
        destruct u as [|k].
        -- exfalso. simpl in *.
           assert (Hn0 : nullc c = 0).
           { unfold nullc, pendN, live. rewrite Hd, Hpc. reflexivity. }
           pose proof (sumf_bound_at nullc _ _ _ nullc_le1 Hc Hn0). lia.
        -- exists (S i). unfold qstep_thread, qstep_cons; simpl. rewrite Hc, Hd, Hpc. simpl. eauto.
      * unfold qterminal in Ht; simpl in Ht. congruence.
Qed.

(* ---- race freedom: shared variables and slots are only touched by the owner of the mutex ---- *)
Theorem accesses_under_mutex_std s t o :
  reach s -> qnext_op cfg t s = Some o -> qop_code o = 7 -> q_mtx (q_sh s) = Some t.
Proof.
  intros Hr Ho Hc. destruct (reachable_inv _ Hr). destruct s as [[u un m h tl r] p cs]. simpl in *.
  destruct i_mtx0 as [Hsum Hown].
  destruct t as [|i]; simpl in Ho.
  - destruct p as [pc idx|[|n]]; try discriminate.
    + assert (Hp : pincs (QPut pc idx) = 1).
      { destruct i_prod0 as [Hpc0 _].
        destruct pc as [|[|[|[|[|[|pc]]]]]]; try lia; simpl in Ho; inversion Ho; subst; simpl in Hc; try discriminate; reflexivity. }
      destruct m as [[|j]|]; simpl in *; auto; try lia.
      destruct Hown as (c & Hc' & Hi). pose proof (sumf_ge_at incs _ _ _ Hc'). lia.
    + inversion Ho; subst. simpl in Hc. discriminate.
  - destruct (nth_error cs i) as [c|] eqn:Hn; [|discriminate].
    destruct c as [pc res got dn]. simpl in Ho. destruct dn; [discriminate|].
    assert (Hi : incs (mkQC pc res got false) = 1).
    { assert (Hwf : cwf (mkQC pc res got false)).
      { rewrite Forall_forall in i_cons0. apply i_cons0. eapply nth_error_In; eauto. }
      destruct Hwf as (Hpc0 & _ & _). simpl in Hpc0.
      destruct pc as [|[|[|[|[|[|[|pc]]]]]]]; try lia; simpl in Ho; inversion Ho; subst; simpl in Hc; try discriminate; reflexivity. }
    pose proof (sumf_ge_at incs _ _ _ Hn) as Hge.
    destruct m as [[|j]|]; simpl in *; try lia.
    destruct Hown as (d & Hd & Hdi). destruct (Nat.eq_dec i j) as [->|Hij]; auto.
    pose proof (sumf_two incs _ _ _ _ _ Hij Hn Hd). lia.
Qed.

End Inv.

(* ------------------------------------------------------------------ the configuration regenerated from cli/yara.c *)
Definition Mq : nat := Z.to_nat MAX_QUEUED_FILES.     (* queue capacity *)
Definition Tq : nat := qc_fin_n queue_cfg.            (* releases done by file_queue_finish *)

(* the three functions, the ring declaration and file_queue_init have the shape the proofs are about *)
Lemma cfg_shape : queue_cfg = qstd_cfg Mq Tq.
Proof. vm_compute. reflexivity. Qed.
Lemma Mq_pos : 0 < Mq.
Proof. vm_compute. lia. Qed.
(* file_queue_finish releases at least as many tokens as main() allows scanning threads *)
Lemma threads_covered : queue_max_threads <= Tq.
Proof. vm_compute. lia. Qed.

Section Final.
Variables (files : list nat) (N : nat) (s : qstate).
Hypothesis HN : 1 <= N <= queue_max_threads.
Hypothesis Hr : reachable queue_cfg files N s.

Let Hr' : reachable (qstd_cfg Mq Tq) files N s.
Proof. rewrite <- cfg_shape. exact Hr. Qed.
Let HNT : N <= Tq.
Proof. pose proof threads_covered. lia. Qed.
Let HN1 : 1 <= N.
Proof. lia. Qed.

Theorem queue_inv_proof :
  (* tokens of used_slots: available + taken and not yet spent + spent on the empty queue + spent on
     files dequeued + files enqueued but not yet announced = files enqueued + tokens released by finish *)
  q_used (q_sh s) + sumf hold (q_cons s) + sumf nullc (q_cons s) + sumf gcount (q_cons s) + ppend (q_prod s)
    = Pn files (q_prod s) + finrel Tq (q_prod s) /\
  (* tokens of unused_slots *)
  q_unused (q_sh s) + Pn files (q_prod s) + phold (q_prod s) + sumf pendS (q_cons s) + sumf pendN (q_cons s)
    = Mq + sumf gcount (q_cons s) + sumf nullc (q_cons s) /\
  (* never more than MAX_QUEUED_FILES files in the ring of MAX_QUEUED_FILES + 1 slots *)
  sumf gcount (q_cons s) <= Pn files (q_prod s) <= sumf gcount (q_cons s) + Mq /\
  q_head (q_sh s) = sumf gcount (q_cons s) mod qc_slots queue_cfg /\
  q_tail (q_sh s) = Pn files (q_prod s) mod qc_slots queue_cfg.
Proof.
  replace (qc_slots queue_cfg) with (S Mq) by (vm_compute; reflexivity).
  exact (counting_std Mq Tq files N Mq_pos HN1 HNT s Hr').
Qed.

Theorem each_file_once_proof : qterminal s = true -> Permutation (qdelivered s) files.
Proof. exact (each_file_once_std Mq Tq files N Mq_pos HN1 HNT s Hr'). Qed.

Theorem no_deadlock_proof : qterminal s = false -> exists t, qenabled_thread queue_cfg files t s = true.
Proof.
  intros Ht. destruct (no_deadlock_std Mq Tq files N Mq_pos HN1 HNT s Hr' Ht) as (t & s' & E).
  exists t. unfold qenabled_thread. rewrite cfg_shape, E. reflexivity.
Qed.

Theorem accesses_under_mutex_proof : forall t o,
  qnext_op queue_cfg t s = Some o -> qop_code o = 7 -> q_mtx (q_sh s) = Some t.
Proof.
  intros t o Ho Hc. rewrite cfg_shape in Ho.
  exact (accesses_under_mutex_std Mq Tq files N Mq_pos HN1 HNT s t o Hr' Ho Hc).
Qed.
End Final.

(* ------------------------------------------------------------------ non-vacuity *)
(* 70 files (more than the 65 slots), 3 scanning threads.  The producer alone fills the queue and then
   blocks: a reachable, non-terminal state in which a thread has no step, used_slots = 64,
   unused_slots = 0; the consumers are enabled *)
Definition ex_files : list nat := seq 100 70.
Definition ex_full : qstate := qrun queue_cfg ex_files (repeat 0 500) (qinit queue_cfg ex_files 3).

Example ex_full_queue :
  reachable queue_cfg ex_files 3 ex_full /\ qterminal ex_full = false /\
  qenabled_thread queue_cfg ex_files 0 ex_full = false /\
  q_used (q_sh ex_full) = 64 /\ q_unused (q_sh ex_full) = 0 /\ q_tail (q_sh ex_full) = 64 /\
  qenabled_threads queue_cfg ex_files ex_full = [1; 2; 3].
Proof. split; [apply run_reachable; constructor|]. vm_compute. repeat split. Qed.

(* continued under a fair schedule a terminal state is reached; every thread got some of the files,
   together the 70 *)
Definition ex_final : qstate := qsweep queue_cfg ex_files 1000 ex_full.

Example ex_terminal_reachable :
  (1 <= 3 <= queue_max_threads) /\ reachable queue_cfg ex_files 3 ex_final /\ qterminal ex_final = true /\
  length (qdelivered ex_final) = 70 /\ forallb (fun c => 0 <? length (qc_got c)) (q_cons ex_final) = true /\
  qdelivered ex_final <> ex_files.
Proof.
  split; [vm_compute; lia|]. split; [apply sweep_reachable; apply run_reachable; constructor|].
  vm_compute. repeat split. discriminate.
Qed.

(* a consumer inside the critical section: the hypothesis of accesses_under_mutex is satisfiable *)
Definition ex_incs : qstate := qrun queue_cfg ex_files (repeat 0 6 ++ repeat 2 3) (qinit queue_cfg ex_files 3).
Example ex_in_critical_section :
  reachable queue_cfg ex_files 3 ex_incs /\ qnext_op queue_cfg 2 ex_incs = Some (QLoad QHead) /\
  q_mtx (q_sh ex_incs) = Some 2.
Proof. split; [apply run_reachable; constructor|]. vm_compute. repeat split. Qed.

(* The model can express the failures the theorems exclude (so the theorems are not true for want
   of expressiveness); these are the hand-made breaking changes of DESIGN.md section 11. *)

(* finish releases fewer tokens than there are scanning threads: a deadlock *)
Example few_finish_tokens_deadlock :
  let c := qstd_cfg 2 1 in let fs := [1; 2; 3] in
  let s := qsweep c fs 100 (qinit c fs 2) in
  reachable c fs 2 s /\ qterminal s = false /\ qenabled_threads c fs s = [].
Proof. cbv zeta. split; [apply sweep_reachable; constructor|]. vm_compute. repeat split. Qed.

(* a ring with as many slots as the semaphore has tokens: a full queue looks empty, files are lost *)
Definition cfg_small_ring : qconfig :=
  mkQConfig [QWait QUnused; QLock; QStore QTail; QInc QTail 2; QUnlock; QRelease QUsed]
            [QWait QUsed; QLock; QIfEqElse QHead QTail 2; QLoad QHead; QInc QHead 2; QUnlock; QRelease QUnused]
            QUsed 1 2 0 2 0 0.
Example small_ring_loses_files :
  let fs := [1; 2; 3] in
  let s := qrun cfg_small_ring fs (repeat 0 12 ++ repeat 1 7 ++ repeat 0 20) (qinit cfg_small_ring fs 1) in
  reachable cfg_small_ring fs 1 s /\ qterminal s = true /\ qdelivered s = [].
Proof. cbv zeta. split; [apply run_reachable; constructor|]. vm_compute. repeat split. Qed.

(* the head index updated after the unlock: two threads are handed the same file *)
Definition cfg_unlocked_head : qconfig :=
  mkQConfig [QWait QUnused; QLock; QStore QTail; QInc QTail 3; QUnlock; QRelease QUsed]
            [QWait QUsed; QLock; QIfEqElse QHead QTail 1; QLoad QHead; QUnlock; QInc QHead 3; QRelease QUnused]
            QUsed 2 3 0 2 0 0.
Example unlocked_head_duplicates :
  let fs := [7] in
  let s := qrun cfg_unlocked_head fs (repeat 0 8 ++ repeat 1 5 ++ repeat 2 5 ++ repeat 1 2 ++ repeat 2 2)
                (qinit cfg_unlocked_head fs 2) in
  reachable cfg_unlocked_head fs 2 s /\ qdelivered s = [7; 7].
Proof. cbv zeta. split; [apply run_reachable; constructor|]. vm_compute. repeat split. Qed.
