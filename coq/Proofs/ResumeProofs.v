(* C13: proofs about Model/Resume.v.  Main result [run_characterised]: for every block list and every
   conforming not-ready pattern, repeating the scan call until it completes ends - after exactly
   1 + (number of not-ready answers) calls, with the scanner state clean - in
       finish (all blocks scanned once, in order) fsz (values read from the blocks)
   which does not mention the pattern.  By induction over the pattern. *)
From Coq Require Import List ZArith NArith Bool Arith Lia.
From YV Require Import gen.GenConsts Model.Report Spec.ReportSpec Model.Resume.
Import ListNotations.

Definition allfalse (l : list bool) : bool := forallb negb l.
Definition count_true (l : list bool) : nat := count_occ bool_dec l true.

Lemma allfalse_tl : forall l, allfalse l = true -> allfalse (tl l) = true.
Proof. destruct l as [|x l]; simpl; intros H; [reflexivity|]. apply andb_prop in H; tauto. Qed.

Lemma allfalse_count : forall l, allfalse l = true -> count_true l = 0.
Proof.
  induction l as [|x l IH]; simpl; intros H; [reflexivity|].
  apply andb_prop in H. destruct H as [Hx Hl]. destruct x; simpl in Hx; [discriminate|].
  unfold count_true in *. simpl. apply IH. exact Hl.
Qed.

Lemma after_ready_0 : forall p, rs_after_ready 0 p = p.
Proof. destruct p as [|x p]; [reflexivity|]. destruct x; reflexivity. Qed.

Lemma nth_error_skipn : forall (A : Type) (l : list A) j b,
  nth_error l j = Some b -> skipn j l = b :: skipn (S j) l.
Proof.
  induction l as [|x l IH]; intros j b H; [destruct j; discriminate|].
  destruct j as [|j]; simpl in H.
  - inversion H; reflexivity.
  - simpl. apply IH. exact H.
Qed.

Lemma skipn_all' : forall (A : Type) (l : list A), skipn (length l) l = [].
Proof. induction l; simpl; auto. Qed.

(* ------------------------------------------------------------------ the iterator *)
Section Iter.
  Variable blocks : list rs_block.
  Let n := length blocks.

  Lemma it_call_ready : forall isf it, allfalse (ri_pat it) = true ->
    exists it', rs_it_call blocks isf it = (nth_error blocks (if isf then 0 else ri_next it), it') /\
      ri_next it' = S (if isf then 0 else ri_next it) /\ ri_pat it' = tl (ri_pat it) /\ ri_err it' = false.
  Proof.
    intros isf it H. unfold rs_it_call.
    destruct (ri_pat it) as [|x p] eqn:Ep.
    - destruct (nth_error blocks (if isf then 0 else ri_next it)); eexists; split; try reflexivity; simpl; auto.
    - simpl in H. apply andb_prop in H. destruct H as [Hx _]. destruct x; simpl in Hx; [discriminate|].
      destruct (nth_error blocks (if isf then 0 else ri_next it)); eexists; split; try reflexivity; simpl; auto.
  Qed.

  Lemma it_call_notready : forall isf it p, ri_pat it = true :: p ->
    exists it', rs_it_call blocks isf it = (None, it') /\
      ri_next it' = ri_next it /\ ri_pat it' = p /\ ri_err it' = true.
  Proof.
    intros isf it p H. unfold rs_it_call. rewrite H. eexists; split; [reflexivity|]. simpl; auto.
  Qed.

  (* reading back *)
  Fixpoint pure_read_from (bl : list rs_block) (off : N) : option N :=
    match bl with
    | [] => None
    | b :: r => if rs_in_block b off
                then match rb_data b with Some d => nth_error d (N.to_nat (off - rb_base b)) | None => None end
                else pure_read_from r off
    end.

  Lemma read_loop_pure : forall d j it off fuel,
    allfalse (ri_pat it) = true -> ri_next it = S j -> j + d = n -> d <= fuel ->
    exists it', rs_read_loop blocks fuel off it (nth_error blocks j) = Some (pure_read_from (skipn j blocks) off, it') /\
                allfalse (ri_pat it') = true.
  Proof.
    induction d as [|d IH]; intros j it off fuel Ha Hn Hj Hf.
    - assert (j = n) by lia. subst j. unfold n. rewrite skipn_all'.
      replace (nth_error blocks (length blocks)) with (@None rs_block)
        by (symmetry; apply nth_error_None; lia).
      destruct fuel; simpl; eexists; split; try reflexivity; exact Ha.
    - destruct (nth_error blocks j) as [b|] eqn:Eb.
      2:{ apply nth_error_None in Eb. fold n in Eb. lia. }
      rewrite (nth_error_skipn _ _ _ _ Eb). simpl pure_read_from.
      destruct fuel as [|fu]; [lia|]. simpl rs_read_loop.
      destruct (rs_in_block b off).
      + eexists; split; [reflexivity|exact Ha].
      + destruct (it_call_ready false it Ha) as (it' & Hc & Hn' & Hp' & _). rewrite Hc. rewrite Hn.
        apply IH; [rewrite Hp'; apply allfalse_tl; exact Ha|rewrite Hn', Hn; reflexivity|lia|lia].
  Qed.

  Lemma do_reads_pure : forall reads it, allfalse (ri_pat it) = true ->
    exists it', rs_do_reads blocks reads it = Some (map (pure_read_from blocks) reads, it') /\
                allfalse (ri_pat it') = true.
  Proof.
    induction reads as [|off rest IH]; intros it Ha.
    - eexists; split; [reflexivity|exact Ha].
    - simpl. destruct (it_call_ready true it Ha) as (it1 & Hc & Hn1 & Hp1 & _). rewrite Hc.
      assert (allfalse (ri_pat it1) = true) as Ha1 by (rewrite Hp1; apply allfalse_tl; exact Ha).
      destruct (read_loop_pure n 0 it1 off (length blocks) Ha1 Hn1) as (it2 & Hr & Ha2); [reflexivity|unfold n; lia|].
      simpl skipn in Hr. rewrite Hr.
      destruct (IH it2 Ha2) as (it3 & Hd & Ha3). rewrite Hd. eexists; split; [reflexivity|exact Ha3].
  Qed.
End Iter.

(* ------------------------------------------------------------------ the machine *)
Section MachineProofs.
  Variable discard : bool.
  Variable M : Type.
  Variable m_empty : M.
  Variable m_scan : M -> rs_block -> list N -> M.
  Variable R : Type.
  Variable reads : list N.
  Variable finish : M -> option N -> list (option N) -> R.
  Variable blocks : list rs_block.
  Let n := length blocks.

  Notation scanb := (rs_scan_block M m_scan).
  Notation iterate := (rs_iterate M m_scan blocks).
  Notation drive := (rs_drive discard M m_empty m_scan R reads finish blocks).
  Notation init := (rs_init M m_empty).
  Definition fold_scan (m : M) (bl : list rs_block) : M := fold_left scanb bl m.
  Definition reads_val : list (option N) := map (pure_read_from blocks) reads.

  Lemma fold_scan_cons : forall m b l, fold_scan m (b :: l) = fold_scan (scanb m b) l.
  Proof. reflexivity. Qed.

  Lemma fold_scan_head : forall m bl b0, nth_error bl 0 = Some b0 ->
    fold_scan m bl = fold_scan (scanb m b0) (skipn 1 bl).
  Proof. intros m bl b0 H. destruct bl; simpl in H; inversion H; reflexivity. Qed.

  Lemma iterate_eq : forall f m it,
    iterate f m it =
    let '(nb, it') := rs_it_call blocks false it in
    match nb with
    | None => Some (m, it')
    | Some b => match f with O => None | S fu => iterate fu (scanb m b) it' end
    end.
  Proof. intros f m it. destruct f; reflexivity. Qed.

  Lemma iterate_ready : forall d j m it f,
    ri_pat it = [] -> ri_next it = j -> j + d = n -> d <= f ->
    exists it', iterate f m it = Some (fold_scan m (skipn j blocks), it') /\
                ri_pat it' = [] /\ ri_err it' = false.
  Proof.
    induction d as [|d IH]; intros j m it f Hp Hn Hj Hf.
    - assert (j = n) by lia. subst j. rewrite iterate_eq.
      assert (allfalse (ri_pat it) = true) as Ha by (rewrite Hp; reflexivity).
      destruct (it_call_ready blocks false it Ha) as (it' & Hc & _ & Hp' & He'). rewrite Hc. rewrite H.
      replace (nth_error blocks n) with (@None rs_block) by (symmetry; apply nth_error_None; unfold n; lia).
      unfold n. rewrite skipn_all'. eexists; split; [reflexivity|]. rewrite Hp', Hp. auto.
    - rewrite iterate_eq.
      assert (allfalse (ri_pat it) = true) as Ha by (rewrite Hp; reflexivity).
      destruct (it_call_ready blocks false it Ha) as (it' & Hc & Hn' & Hp' & He'). rewrite Hc. rewrite Hn.
      destruct (nth_error blocks j) as [b|] eqn:Eb.
      2:{ apply nth_error_None in Eb. fold n in Eb. lia. }
      destruct f as [|fu]; [lia|].
      rewrite (nth_error_skipn _ _ _ _ Eb). rewrite fold_scan_cons.
      apply IH; [rewrite Hp', Hp; reflexivity|rewrite Hn', Hn; reflexivity|lia|lia].
  Qed.

  (* what follows a completed or interrupted iteration, as the caller's loop sees it *)
  Definition bump (x : option (R * nat * rs_state M * rs_iter)) :=
    match x with Some (r, c, st, it) => Some (r, S c, st, it) | None => None end.

  Definition tail (fsz : option N) (fu : nat) (m : M) (it2 : rs_iter) : option (R * nat * rs_state M * rs_iter) :=
    if ri_err it2 then bump (drive fsz fu (mk_rs_state M m true) it2)
    else match rs_do_reads blocks reads it2 with
         | None => None
         | Some (vals, it3) => Some (finish m fsz vals, 1, init, it3)
         end.

  Definition cont (fsz : option N) (f fu : nat) (m : M) (it : rs_iter) :=
    match iterate f m it with
    | None => None
    | Some (m', it2) => tail fsz fu m' it2
    end.

  Lemma drive_cont : forall fsz fu st it, ri_err it = true ->
    drive fsz (S fu) st it = cont fsz n fu (rs_matches M st) it.
  Proof.
    intros fsz fu st it He. unfold cont, tail, bump. simpl rs_drive. unfold rs_scan_call. rewrite He. fold n.
    destruct (iterate n (rs_matches M st) it) as [[m' it2]|]; [|reflexivity].
    destruct (ri_err it2).
    - destruct (drive fsz fu (mk_rs_state M m' true) it2) as [[[[r c] st''] it'']|]; reflexivity.
    - destruct (rs_do_reads blocks reads it2) as [[vals it3]|]; reflexivity.
  Qed.

  Lemma drive_fresh : forall fsz fu st it, ri_err it = false ->
    drive fsz (S fu) st it =
    let '(b, it1) := rs_it_call blocks true it in
    match b with
    | None => tail fsz fu (rs_fresh_matches discard M m_empty st) it1
    | Some b0 => cont fsz n fu (scanb (rs_fresh_matches discard M m_empty st) b0) it1
    end.
  Proof.
    intros fsz fu st it He. unfold cont, tail, bump. simpl rs_drive. unfold rs_scan_call. rewrite He. fold n.
    destruct (rs_it_call blocks true it) as [b it1]. destruct b as [b0|].
    - destruct (iterate n (scanb (rs_fresh_matches discard M m_empty st) b0) it1) as [[m' it2]|]; [|reflexivity].
      destruct (ri_err it2).
      + destruct (drive fsz fu (mk_rs_state M m' true) it2) as [[[[r c] st''] it'']|]; reflexivity.
      + destruct (rs_do_reads blocks reads it2) as [[vals it3]|]; reflexivity.
    - destruct (ri_err it1).
      + destruct (drive fsz fu (mk_rs_state M (rs_fresh_matches discard M m_empty st) true) it1) as [[[[r c] st''] it'']|]; reflexivity.
      + destruct (rs_do_reads blocks reads it1) as [[vals it3]|]; reflexivity.
  Qed.

  Lemma tail_done : forall fsz fu m it2, ri_err it2 = false -> allfalse (ri_pat it2) = true ->
    exists itf, tail fsz fu m it2 = Some (finish m fsz reads_val, 1, init, itf).
  Proof.
    intros fsz fu m it2 He Ha. unfold tail. rewrite He.
    destruct (do_reads_pure blocks reads it2 Ha) as (it3 & Hd & _). rewrite Hd. eexists; reflexivity.
  Qed.

  (* the induction over the pattern *)
  Lemma phase1 : forall pat j m it f fu fsz,
    ri_pat it = pat -> ri_next it = j -> j <= n -> n - j <= f -> length pat <= fu ->
    allfalse (rs_after_ready (S n - j) pat) = true ->
    exists itf, cont fsz f fu m it =
                Some (finish (fold_scan m (skipn j blocks)) fsz reads_val, S (count_true pat), init, itf).
  Proof.
    induction pat as [|x p IH]; intros j m it f fu fsz Hp Hn Hj Hf Hfu Hc.
    - destruct (iterate_ready (n - j) j m it f Hp Hn) as (it' & Hi & Hp' & He'); [lia|lia|].
      unfold cont. rewrite Hi.
      apply tail_done; [exact He'|rewrite Hp'; reflexivity].
    - destruct x.
      + (* not ready: the call returns, the caller calls again, the continuation calls next() *)
        destruct (it_call_notready blocks false it p Hp) as (it' & Hcall & Hn' & Hp' & He').
        unfold cont. rewrite iterate_eq, Hcall. unfold tail. rewrite He'.
        simpl in Hfu. destruct fu as [|fu']; [lia|].
        rewrite (drive_cont fsz fu' (mk_rs_state M m true) it' He'). simpl rs_matches.
        destruct (IH j m it' n fu' fsz Hp') as (itf & Hx); [rewrite Hn'; exact Hn|exact Hj|lia|lia| |].
        * replace (S n - j) with (S (n - j)) in * by lia. simpl in Hc. exact Hc.
        * rewrite Hx. simpl. eexists. unfold count_true. simpl. reflexivity.
      + (* ready *)
        assert (count_true (false :: p) = count_true p) as Hct by reflexivity. rewrite Hct.
        unfold cont. rewrite iterate_eq. unfold rs_it_call. rewrite Hp. rewrite Hn. simpl tl.
        destruct (nth_error blocks j) as [b|] eqn:Eb.
        * assert (j < n) as Hlt by (unfold n; apply nth_error_Some; congruence).
          destruct f as [|f']; [lia|].
          set (it' := mk_rs_iter (S j) p false ((false, AnsBlock j) :: ri_log it)).
          destruct (IH (S j) (scanb m b) it' f' fu fsz) as (itf & Hx); try reflexivity; try lia.
          -- simpl in Hfu. lia.
          -- replace (S n - j) with (S (n - j)) in Hc by lia. simpl in Hc.
             replace (S n - S j) with (n - j) by lia. exact Hc.
          -- unfold cont in Hx. rewrite Hx. rewrite (nth_error_skipn _ _ _ _ Eb).
             rewrite fold_scan_cons. eexists; reflexivity.
        * assert (j = n) as Hjn by (apply nth_error_None in Eb; fold n in Eb; lia).
          replace (S n - j) with 1 in Hc by lia.
          change (rs_after_ready 1 (false :: p)) with (rs_after_ready 0 p) in Hc. rewrite after_ready_0 in Hc.
          rewrite Hjn. unfold n. rewrite skipn_all'. unfold fold_scan. simpl fold_left.
          rewrite (allfalse_count p Hc).
          apply tail_done; [reflexivity|exact Hc].
  Qed.

  Theorem run_characterised : forall fsz pat,
    rs_conforming n pat = true ->
    exists itf, rs_run discard M m_empty m_scan R reads finish blocks fsz pat =
                Some (finish (fold_scan m_empty blocks) fsz reads_val, S (count_true pat), init, itf).
  Proof.
    intros fsz pat Hc. unfold rs_run, rs_conforming in *.
    rewrite drive_fresh by reflexivity. change (rs_fresh_matches discard M m_empty init) with m_empty.
    destruct pat as [|x p].
    - (* always ready *)
      simpl length. unfold rs_it_call, rs_iter_init. cbn [ri_log ri_pat ri_next ri_err]. simpl tl.
      destruct (nth_error blocks 0) as [b0|] eqn:Eb.
      + set (it1 := mk_rs_iter 1 [] false [(true, AnsBlock 0)]).
        destruct (phase1 [] 1 (scanb m_empty b0) it1 n 0 fsz) as (itf & Hx); try reflexivity; try lia.
        * assert (0 < n) by (unfold n; apply nth_error_Some; congruence). lia.
        * rewrite Hx. rewrite (fold_scan_head m_empty blocks b0 Eb). eexists; reflexivity.
      + assert (blocks = []) as Hb by (destruct blocks; [reflexivity|discriminate]).
        rewrite Hb. unfold fold_scan. simpl fold_left.
        apply tail_done; reflexivity.
    - destruct x.
      + (* first() not ready *)
        unfold rs_it_call, rs_iter_init. cbn [ri_log ri_pat ri_next ri_err].
        set (it1 := mk_rs_iter 0 p true [(true, AnsNotReady)]).
        unfold tail. simpl ri_err. simpl length.
        rewrite (drive_cont fsz (length p) (mk_rs_state M m_empty true) it1) by reflexivity. simpl rs_matches.
        destruct (phase1 p 0 m_empty it1 n (length p) fsz) as (itf & Hx); try reflexivity; try lia.
        * replace (S n - 0) with (S n) by lia. simpl in Hc. exact Hc.
        * rewrite Hx. simpl. eexists. unfold count_true. simpl. reflexivity.
      + unfold rs_it_call, rs_iter_init. cbn [ri_log ri_pat ri_next ri_err]. simpl tl.
        assert (count_true (false :: p) = count_true p) as Hct by reflexivity. rewrite Hct.
        simpl in Hc.
        destruct (nth_error blocks 0) as [b0|] eqn:Eb.
        * set (it1 := mk_rs_iter 1 p false [(true, AnsBlock 0)]).
          destruct (phase1 p 1 (scanb m_empty b0) it1 n (length (false :: p)) fsz) as (itf & Hx);
            try reflexivity; try (simpl; lia).
          -- assert (0 < n) by (unfold n; apply nth_error_Some; congruence). lia.
          -- replace (S n - 1) with n by lia. exact Hc.
          -- rewrite Hx. rewrite (fold_scan_head m_empty blocks b0 Eb). eexists; reflexivity.
        * assert (blocks = []) as Hb by (destruct blocks; [reflexivity|discriminate]).
          assert (n = 0) as Hn0 by (unfold n; rewrite Hb; reflexivity).
          rewrite Hn0 in Hc. rewrite after_ready_0 in Hc.
          rewrite (allfalse_count p Hc).
          assert (fold_scan m_empty blocks = m_empty) as Hfs by (rewrite Hb; reflexivity). rewrite Hfs.
          apply tail_done; [reflexivity|exact Hc].
  Qed.

  Lemma conforming_nil : forall k, rs_conforming k [] = true.
  Proof. reflexivity. Qed.

  (* final trace of the interrupted run = trace of the uninterrupted run; nothing left behind; the number of
     calls is one more than the number of not-ready answers *)
  Theorem resume_equivalent_proof : forall fsz pat,
    rs_conforming (length blocks) pat = true ->
    exists r itf itf0,
      rs_run discard M m_empty m_scan R reads finish blocks fsz pat = Some (r, S (count_true pat), init, itf) /\
      rs_run discard M m_empty m_scan R reads finish blocks fsz [] = Some (r, 1, init, itf0).
  Proof.
    intros fsz pat Hc.
    destruct (run_characterised fsz pat Hc) as (itf & H1).
    destruct (run_characterised fsz [] (conforming_nil _)) as (itf0 & H0).
    eexists; exists itf, itf0. split; [exact H1|exact H0].
  Qed.

  Lemma drive1_call : forall fsz st it r c st' it',
    drive fsz 1 st it = Some (r, c, st', it') ->
    rs_scan_call discard M m_empty m_scan R reads finish blocks fsz st it = (RsDone R r, st', it').
  Proof.
    intros fsz st it r c st' it' H. simpl in H.
    destruct (rs_scan_call discard M m_empty m_scan R reads finish blocks fsz st it) as [[res st1] it1].
    destruct res; try discriminate. inversion H; subst; reflexivity.
  Qed.

  (* a call that returns ERROR_BLOCK_NOT_READY leaves the notebook alive *)
  Lemma not_ready_keeps_notebook : forall fsz st it st' it',
    rs_scan_call discard M m_empty m_scan R reads finish blocks fsz st it = (RsNotReady R, st', it') ->
    rs_notebook M st' = true.
  Proof.
    intros fsz st it st' it' H. unfold rs_scan_call in H.
    destruct (if ri_err it then _ else _) as [[m it2]|]; [|inversion H].
    destruct (ri_err it2).
    - inversion H; reflexivity.
    - destruct (rs_do_reads blocks reads it2) as [[vals it3]|]; inversion H.
  Qed.
End MachineProofs.

(* ------------------------------------------------------------------ abandoned scans (fix 8a2210d) *)
Section Abandoned.
  Variable M : Type.
  Variable m_empty : M.
  Variable m_scan : M -> rs_block -> list N -> M.
  Variable R : Type.
  Variable reads : list N.
  Variable finish : M -> option N -> list (option N) -> R.

  (* a fresh call (new iterator: last_error is not ERROR_BLOCK_NOT_READY) on a scanner whose previous scan was
     given up after ERROR_BLOCK_NOT_READY - whatever matches it left - behaves in every respect (result, state
     left behind, iterator calls) as the same call on a newly created scanner *)
  Lemma fresh_call_discards_leftovers : forall blocks fsz m it,
    ri_err it = false ->
    rs_scan_call true M m_empty m_scan R reads finish blocks fsz (mk_rs_state M m true) it =
    rs_scan_call true M m_empty m_scan R reads finish blocks fsz (rs_init M m_empty) it.
  Proof. intros blocks fsz m it He. unfold rs_scan_call. rewrite He. reflexivity. Qed.

  Theorem scan_after_abandoned_equals_fresh_proof : forall blocks fsz m it fuel buf,
    ri_err it = false ->
    rs_drive true M m_empty m_scan R reads finish blocks fsz fuel (mk_rs_state M m true) it =
      rs_drive true M m_empty m_scan R reads finish blocks fsz fuel (rs_init M m_empty) it /\
    rs_scanner_scan_mem true M m_empty m_scan R reads finish (mk_rs_state M m true) buf =
      rs_rules_scan_mem true M m_empty m_scan R reads finish buf /\
    rs_scanner_scan_file true M m_empty m_scan R reads finish (mk_rs_state M m true) buf =
      rs_rules_scan_file true M m_empty m_scan R reads finish buf /\
    rs_scanner_scan_fd true M m_empty m_scan R reads finish (mk_rs_state M m true) buf =
      rs_rules_scan_fd true M m_empty m_scan R reads finish buf /\
    rs_fresh_leaks true M (mk_rs_state M m true) = false /\
    rs_destroy_leaks true M (mk_rs_state M m true) = false.
  Proof.
    intros blocks fsz m it fuel buf He.
    split; [|repeat split].
    destruct fuel as [|fu]; [reflexivity|]. simpl. rewrite (fresh_call_discards_leftovers blocks fsz m it He). reflexivity.
  Qed.
End Abandoned.

(* ------------------------------------------------------------------ entry points *)
Section Entry.
  Variable discard : bool.
  Variable M : Type.
  Variable m_empty : M.
  Variable m_scan : M -> rs_block -> list N -> M.
  Variable R : Type.
  Variable reads : list N.
  Variable finish : M -> option N -> list (option N) -> R.
  (* scanning an empty block finds nothing *)
  Hypothesis scan_empty : forall b, m_scan m_empty b [] = m_empty.

  Definition entry_result (buf : list N) : R :=
    finish (rs_scan_block M m_scan m_empty (rs_mem_block buf)) (rs_fsz buf)
           (map (pure_read_from [rs_mem_block buf]) reads).

  Lemma one_block : forall b fsz,
    rs_one discard M m_empty m_scan R reads finish (rs_init M m_empty) b fsz =
    Some (finish (rs_scan_block M m_scan m_empty b) fsz (map (pure_read_from [b]) reads)).
  Proof.
    intros b fsz. unfold rs_one.
    destruct (run_characterised discard M m_empty m_scan R reads finish [b] fsz [] (conforming_nil _)) as (itf & H).
    unfold rs_run in H. simpl length in H.
    apply drive1_call in H. rewrite H. unfold fold_scan, reads_val. simpl. reflexivity.
  Qed.

  Lemma in_empty_block : forall d off, rs_in_block (mk_rs_block 0 0 d) off = false.
  Proof. intros d off. unfold rs_in_block. simpl. destruct (N.leb 0 off); reflexivity. Qed.

  Lemma map_block_same : forall buf,
    finish (rs_scan_block M m_scan m_empty (rs_map_block buf)) (rs_fsz buf)
           (map (pure_read_from [rs_map_block buf]) reads) = entry_result buf.
  Proof.
    intros buf. destruct buf as [|x buf]; [|reflexivity].
    unfold entry_result, rs_map_block, rs_mem_block, rs_scan_block. cbn [rb_data length N.of_nat].
    rewrite scan_empty.
    f_equal. apply map_ext. intros off. cbn [pure_read_from]. rewrite !in_empty_block. reflexivity.
  Qed.

  Theorem entry_points_agree_proof : forall buf,
    rs_rules_scan_mem discard M m_empty m_scan R reads finish buf = Some (entry_result buf) /\
    rs_rules_scan_file discard M m_empty m_scan R reads finish buf = Some (entry_result buf) /\
    rs_rules_scan_fd discard M m_empty m_scan R reads finish buf = Some (entry_result buf) /\
    rs_scanner_scan_mem discard M m_empty m_scan R reads finish (rs_init M m_empty) buf = Some (entry_result buf) /\
    rs_scanner_scan_file discard M m_empty m_scan R reads finish (rs_init M m_empty) buf = Some (entry_result buf) /\
    rs_scanner_scan_fd discard M m_empty m_scan R reads finish (rs_init M m_empty) buf = Some (entry_result buf) /\
    rs_single_block_iter discard M m_empty m_scan R reads finish (rs_init M m_empty) buf = Some (entry_result buf).
  Proof.
    intros buf.
    assert (rs_scanner_scan_mem discard M m_empty m_scan R reads finish (rs_init M m_empty) buf = Some (entry_result buf)) as Hm
      by (unfold rs_scanner_scan_mem; rewrite one_block; reflexivity).
    assert (rs_scanner_scan_file discard M m_empty m_scan R reads finish (rs_init M m_empty) buf = Some (entry_result buf)) as Hf
      by (unfold rs_scanner_scan_file; rewrite one_block, map_block_same; reflexivity).
    repeat split; try exact Hm; try exact Hf.
    unfold rs_single_block_iter.
    destruct (run_characterised discard M m_empty m_scan R reads finish [rs_mem_block buf] (rs_fsz buf) [] (conforming_nil _))
      as (itf & H).
    unfold rs_run in H. simpl length in H. rewrite H. unfold fold_scan, reads_val. reflexivity.
  Qed.
End Entry.

(* ------------------------------------------------------------------ the concrete instance *)
Lemma rc_scan_empty : forall pats b, rc_scan pats (map (fun _ => []) pats) b [] = map (fun _ => []) pats.
Proof.
  intros pats b. unfold rc_scan. induction pats as [|p ps IH]; [reflexivity|].
  simpl. f_equal. exact IH.
Qed.

Lemma rc_scan_acc_empty : forall pats eps b, rc_scan_acc pats eps (rc_empty pats) b [] = rc_empty pats.
Proof. intros pats eps b. unfold rc_scan_acc, rc_empty. simpl. rewrite rc_scan_empty. reflexivity. Qed.

(* scanner->entry_point over a sequence of blocks: the first block (with data) that has one wins, and once it
   is defined nothing changes it *)
Lemma rc_entry_fold : forall pats eps blocks a,
  ra_entry (fold_left (rs_scan_block rc_acc (rc_scan_acc pats eps)) blocks a) =
  match ra_entry a with Some e => Some e | None => rc_first_ep eps blocks end.
Proof.
  intros pats eps; induction blocks as [|b bl IH]; intros a.
  - simpl. destruct (ra_entry a); reflexivity.
  - simpl fold_left. rewrite IH. unfold rs_scan_block. simpl rc_first_ep.
    destruct (rb_data b) as [d|].
    + unfold rc_scan_acc. simpl ra_entry. destruct (ra_entry a) as [e|]; [reflexivity|].
      destruct d as [|x d]; [reflexivity|]. destruct (rc_ep eps (rb_base b)); reflexivity.
    + destruct (ra_entry a); reflexivity.
Qed.

(* resumed == one-shot for the concrete instance, entry point included: for every conforming pattern the rules
   are evaluated on the accumulator of the uninterrupted scan, whose entry point is that of the first block that
   has one - wherever the not-ready answers fell *)
Theorem resume_keeps_entry_point_proof :
  forall d pats eps rules imports f sc blocks fsz pat,
  rs_conforming (length blocks) pat = true ->
  exists acc itf,
    rc_run d pats eps rules imports f sc blocks fsz pat =
      Some (rc_finish rules imports f sc acc fsz (map (pure_read_from blocks) (rc_reads rules)),
            S (count_true pat), rs_init _ (rc_empty pats), itf) /\
    acc = fold_left (rs_scan_block rc_acc (rc_scan_acc pats eps)) blocks (rc_empty pats) /\
    ra_entry acc = rc_first_ep eps blocks.
Proof.
  intros d pats eps rules imports f sc blocks fsz pat Hc.
  destruct (run_characterised d rc_acc (rc_empty pats) (rc_scan_acc pats eps) _ (rc_reads rules)
              (rc_finish rules imports f sc) blocks fsz pat Hc) as (itf & H).
  eexists; exists itf. split; [exact H|]. split; [reflexivity|].
  unfold fold_scan. rewrite rc_entry_fold. reflexivity.
Qed.

(* non-vacuity and the boundary of the contract, on the concrete instance.
   strings: 0 = "abc"; rules: a: $0 ; u: uint8(4) == 0x62 ; c: #0 == 2 ; blocks "abc" @0, "abc" @3 *)
Definition ex_pats : list (list N) := [[97; 98; 99]%N].
Definition ex_rc_rules : list rc_rule :=
  [ mk_rc_rule 0 false false (RcStr 0); mk_rc_rule 0 false false (RcU8 4 98); mk_rc_rule 0 false false (RcCount 0 2) ].
Definition ex_blocks : list rs_block :=
  [ mk_rs_block 0 3 (Some [97; 98; 99]%N); mk_rs_block 3 3 (Some [97; 98; 99]%N) ].
Definition ex_run (pat : list bool) :=
  match rc_run true ex_pats [] ex_rc_rules [] 0 never_stop ex_blocks (Some 6%N) pat with
  | Some (r, c, _, _) => Some (r, c)
  | None => None
  end.

Definition ex_expected := ([RMatch 0; RMatch 1; RMatch 2; RFinished], ERROR_SUCCESS, [[0; 3]%N], @None N).

Lemma ex_uninterrupted : ex_run [] = Some (ex_expected, 1).
Proof. vm_compute. reflexivity. Qed.

Lemma ex_interrupted :
  rs_conforming 2 [true; false; true; true; false] = true /\
  ex_run [true; false; true; true; false] = Some (ex_expected, 4).
Proof. split; vm_compute; reflexivity. Qed.

(* outside the contract: not ready during the re-iteration done by rule evaluation (4th call = first() of
   uint8(4)): the read is undefined, rule u flips to not matching, the scan still returns success *)
Lemma ex_nonconforming :
  rs_conforming 2 [false; false; false; true] = false /\
  ex_run [false; false; false; true] =
    Some (([RMatch 0; RNoMatch 1; RMatch 2; RFinished], ERROR_SUCCESS, [[0; 3]%N], @None N), 1).
Proof. split; vm_compute; reflexivity. Qed.

(* entry point: block 0 is (said by the oracle to be) an executable whose entry point is at offset 3; rules
   "entrypoint == 3" and "$0 at entrypoint" (the match at 3 is in block 1).  Not ready after block 0 was
   consumed: the resumed scan still knows the entry point. *)
Definition ex_ep_rules : list rc_rule :=
  [ mk_rc_rule 0 false false (RcEpEq 3); mk_rc_rule 0 false false (RcAtEp 0) ].
Definition ex_ep_run (pat : list bool) :=
  match rc_run true ex_pats [(0, 3)%N] ex_ep_rules [] 0 never_stop ex_blocks (Some 6%N) pat with
  | Some (r, c, _, _) => Some (r, c)
  | None => None
  end.
Lemma ex_entry_point_survives :
  ex_ep_run [] = Some (([RMatch 0; RMatch 1; RFinished], ERROR_SUCCESS, [[0; 3]%N], Some 3%N), 1) /\
  ex_ep_run [false; true; false] = Some (([RMatch 0; RMatch 1; RFinished], ERROR_SUCCESS, [[0; 3]%N], Some 3%N), 2).
Proof. split; vm_compute; reflexivity. Qed.

(* the abandoned scan, on the concrete instance.  Rule: #0 == 1; blocks "abc","abc", the second not ready; the
   caller gives up and scans "ab" with the same scanner.  The state the abandoned call leaves is the same in
   both variants of the code; what the next (fresh) call does with it differs. *)
Definition ex_count_rule : list rc_rule := [ mk_rc_rule 0 false false (RcCount 0 1) ].
Definition ex_abandoned_call (discard : bool) :=
  rc_call discard ex_pats [] ex_count_rule [] 0 never_stop ex_blocks (Some 6%N)
          (rs_init _ (rc_empty ex_pats)) (rs_iter_init [false; true]).
Definition ex_abandoned_state (discard : bool) := snd (fst (ex_abandoned_call discard)).
Definition ex_scan_ab (discard : bool) (st : rs_state rc_acc) :=
  rs_scanner_scan_mem discard _ (rc_empty ex_pats) (rc_scan_acc ex_pats []) _ (rc_reads ex_count_rule)
                      (rc_finish ex_count_rule [] 0 never_stop) st [97; 98]%N.

Lemma abandoned_call_returns_not_ready : forall d,
  fst (fst (ex_abandoned_call d)) = RsNotReady _ /\
  ex_abandoned_state d = mk_rs_state _ (mk_rc_acc [[0%N]] None) true.
Proof. intros d; destruct d; split; vm_compute; reflexivity. Qed.

(* current code: same answer as a fresh scanner, nothing leaked by the next scan or by destroy *)
Lemma ex_abandoned_current :
  ex_scan_ab true (ex_abandoned_state true) = Some ([RNoMatch 0; RFinished], ERROR_SUCCESS, [[]], None) /\
  ex_scan_ab true (rs_init _ (rc_empty ex_pats)) = Some ([RNoMatch 0; RFinished], ERROR_SUCCESS, [[]], None) /\
  rs_fresh_leaks true _ (ex_abandoned_state true) = false /\
  rs_destroy_leaks true _ (ex_abandoned_state true) = false.
Proof. repeat split; vm_compute; reflexivity. Qed.

(* pinned code (before fix 8a2210d): the stale match at offset 0 makes "#a == 1" true on "ab", and the notebook
   is lost both ways *)
Lemma scanner_reuse_after_abandoned_scan_pinned_refuted_proof :
  ex_scan_ab false (rs_init _ (rc_empty ex_pats)) = Some ([RNoMatch 0; RFinished], ERROR_SUCCESS, [[]], None) /\
  ex_scan_ab false (ex_abandoned_state false) = Some ([RMatch 0; RFinished], ERROR_SUCCESS, [[0%N]], None) /\
  rs_fresh_leaks false _ (ex_abandoned_state false) = true /\
  rs_destroy_leaks false _ (ex_abandoned_state false) = true.
Proof. repeat split; vm_compute; reflexivity. Qed.
