(* C14 proofs about Model/ModRange.v: the range walker, the digest cache, crc32, checksum32,
   the byte distribution (count / mode) and string.to_int. *)
From Coq Require Import List NArith ZArith Lia Bool.
From YV Require Import Base.Bytes Base.CSem gen.GenConsts Model.ModRange.
Import ListNotations.
Local Open Scope Z_scope.

(* ================================================================== 1. the walker *)

Definition app_upd (acc c : list N) : list N := acc ++ c.

Lemma addressed_unfold fixd bs off len :
  addressed fixd bs off len = range_walk app_upd fixd bs off len [].
Proof. reflexivity. Qed.

(* Any loop body that only depends on the concatenation of the chunks it has seen computes a function
   of the addressed bytes. *)
Section Generic.
Context {St : Type}.
Variable upd : St -> list N -> St.
Variable fixd : bool.
Hypothesis upd_app : forall s a b, upd (upd s a) b = upd s (a ++ b).
Hypothesis upd_nil : forall s, upd s [] = s.

Lemma walk_generic bs : forall off len past s0 acc,
  walk upd fixd bs off len past (upd s0 acc) = option_map (upd s0) (walk app_upd fixd bs off len past acc).
Proof.
  induction bs as [|b rest IH]; intros off len past s0 acc.
  - cbn [walk]. destruct past; reflexivity.
  - cbn [walk].
    destruct ((b_base b <=? off) && (off <? b_end b)) eqn:Hin.
    + rewrite upd_app. unfold app_upd at 1 2.
      destruct (off + Z.min len (b_size b - (off - b_base b)) + (len - Z.min len (b_size b - (off - b_base b))) <=? b_end b) eqn:Hbrk.
      * reflexivity.
      * apply IH.
    + destruct past; [reflexivity|].
      destruct (negb fixd && (off + len <=? b_end b)); [reflexivity|].
      apply IH.
Qed.

Lemma range_walk_generic bs off len s0 :
  range_walk upd fixd bs off len s0 = option_map (upd s0) (addressed fixd bs off len).
Proof.
  unfold addressed, range_walk. destruct bs as [|b0 rest]; [reflexivity|].
  destruct ((off <? 0) || (len <? 0) || (off <? b_base b0)); [reflexivity|].
  rewrite <- (upd_nil s0) at 1. apply walk_generic.
Qed.
End Generic.

(* ---- contiguous partitions *)
Definition nonempty_parts (parts : list (list N)) : Prop := Forall (fun p => p <> []) parts.

Lemma concat_length_Z (parts : list (list N)) :
  0 <= Z.of_nat (length (concat parts)).
Proof. lia. Qed.

(* continuing a range into the next contiguous blocks *)
Lemma walk_contig fixd parts : forall base len acc,
  nonempty_parts parts -> 0 < len ->
  walk app_upd fixd (blocks_of base parts) base len true acc = Some (acc ++ firstn (Z.to_nat len) (concat parts)).
Proof.
  induction parts as [|p rest IH]; intros base len acc Hne Hlen.
  - cbn. now rewrite firstn_nil, app_nil_r.
  - inversion Hne as [|? ? Hp Hrest]; subst.
    cbn [blocks_of walk concat].
    assert (Hpl : 0 < Z.of_nat (length p)) by (destruct p; [congruence|cbn [length]; lia]).
    unfold b_end, b_size. cbn [b_base b_data].
    replace ((base <=? base) && (base <? base + Z.of_nat (length p))) with true
      by (symmetry; apply andb_true_iff; split; [apply Z.leb_le|apply Z.ltb_lt]; lia).
    replace (base - base) with 0 by lia. rewrite Z.sub_0_r.
    unfold chunk. cbn [b_data]. change (Z.to_nat 0) with O. cbn [skipn].
    destruct (Z.le_gt_cases len (Z.of_nat (length p))) as [Hle|Hgt].
    + rewrite Z.min_l by lia.
      replace (base + len + (len - len) <=? base + Z.of_nat (length p)) with true
        by (symmetry; apply Z.leb_le; lia).
      unfold app_upd. f_equal. f_equal.
      rewrite firstn_app. replace (Z.to_nat len - length p)%nat with O by lia.
      cbn [firstn]. now rewrite app_nil_r.
    + rewrite Z.min_r by lia.
      replace (base + Z.of_nat (length p) + (len - Z.of_nat (length p)) <=? base + Z.of_nat (length p)) with false
        by (symmetry; apply Z.leb_gt; lia).
      rewrite Nat2Z.id, firstn_all.
      rewrite IH by (try assumption; lia).
      unfold app_upd. rewrite <- app_assoc. f_equal. f_equal.
      rewrite firstn_app.
      rewrite (firstn_all2 p) by lia. f_equal. f_equal. lia.
Qed.

(* block bases of a contiguous list are at or after its start *)
Lemma bases_ge parts : forall base x, In x (map b_base (blocks_of base parts)) -> base <= x.
Proof.
  induction parts as [|p rest IH]; intros base x Hin; cbn in Hin; [contradiction|].
  destruct Hin as [<-|Hin]; [lia|]. apply IH in Hin. lia.
Qed.

Definition boundary_hit (bs : list block) (off : Z) : bool := existsb (Z.eqb off) (map b_base (tl bs)).

Lemma boundary_hit_false parts base off :
  off < base -> existsb (Z.eqb off) (map b_base (blocks_of base parts)) = false.
Proof.
  intros Hlt. destruct (existsb _ _) eqn:E; [|reflexivity].
  apply existsb_exists in E as [x [Hin Hx]]. apply Z.eqb_eq in Hx; subst x.
  apply bases_ge in Hin. lia.
Qed.

Lemma range_spec_skip base p R off len :
  base + Z.of_nat (length p) <= off -> 0 <= base ->
  range_spec base (p ++ R) off len = range_spec (base + Z.of_nat (length p)) R off len.
Proof.
  intros Hge Hb. unfold range_spec. rewrite app_length, Nat2Z.inj_add.
  replace (base <=? off) with true by (symmetry; apply Z.leb_le; lia).
  replace (base + Z.of_nat (length p) <=? off) with true by (symmetry; apply Z.leb_le; lia).
  replace (base + Z.of_nat (length p) + Z.of_nat (length R)) with (base + (Z.of_nat (length p) + Z.of_nat (length R))) by lia.
  destruct (_ && _ && _ && _); [|reflexivity].
  f_equal. rewrite skipn_app.
  rewrite skipn_all2 by lia. cbn [app].
  do 2 f_equal. lia.
Qed.

(* the loop before it reaches the block that contains [off] *)
Lemma walk_first fixd parts : forall base off len,
  nonempty_parts parts -> 0 <= base -> base <= off -> 0 <= len ->
  walk app_upd fixd (blocks_of base parts) off len false [] =
    if negb fixd && (len =? 0) && boundary_hit (blocks_of base parts) off then None
    else range_spec base (concat parts) off len.
Proof.
  induction parts as [|p rest IH]; intros base off len Hne Hb Hoff Hlen.
  - cbn. unfold range_spec. cbn [length]. rewrite !andb_false_r.
    replace (off <? base + Z.of_nat 0) with false by (symmetry; apply Z.ltb_ge; lia).
    now rewrite andb_false_r.
  - inversion Hne as [|? ? Hp Hrest]; subst.
    assert (Hpl : 0 < Z.of_nat (length p)) by (destruct p; [congruence|cbn [length]; lia]).
    cbn [blocks_of walk concat]. unfold boundary_hit. cbn [tl].
    unfold b_end, b_size. cbn [b_base b_data].
    replace (base <=? off) with true by (symmetry; apply Z.leb_le; lia). cbn [andb].
    destruct (off <? base + Z.of_nat (length p)) eqn:Hin.
    + (* the range starts in this block *)
      apply Z.ltb_lt in Hin.
      rewrite boundary_hit_false by lia. rewrite andb_false_r.
      unfold chunk. cbn [b_data].
      unfold range_spec. rewrite app_length, Nat2Z.inj_add.
      replace (base <=? off) with true by (symmetry; apply Z.leb_le; lia).
      replace (off <? base + (Z.of_nat (length p) + Z.of_nat (length (concat rest)))) with true
        by (symmetry; apply Z.ltb_lt; lia).
      replace (0 <=? off) with true by (symmetry; apply Z.leb_le; lia).
      replace (0 <=? len) with true by (symmetry; apply Z.leb_le; lia). cbn [andb].
      rewrite skipn_app.
      replace (Z.to_nat (off - base) - length p)%nat with O by lia. cbn [skipn].
      destruct (Z.le_gt_cases len (Z.of_nat (length p) - (off - base))) as [Hle|Hgt].
      * rewrite Z.min_l by lia.
        replace (off + len + (len - len) <=? base + Z.of_nat (length p)) with true by (symmetry; apply Z.leb_le; lia).
        unfold app_upd. cbn [app]. f_equal.
        rewrite Z.min_l by lia.
        rewrite firstn_app. rewrite skipn_length.
        replace (Z.to_nat len - (length p - Z.to_nat (off - base)))%nat with O by lia.
        cbn [firstn]. now rewrite app_nil_r.
      * rewrite (Z.min_r len (Z.of_nat (length p) - (off - base))) by lia.
        replace (off + (Z.of_nat (length p) - (off - base)) + (len - (Z.of_nat (length p) - (off - base))) <=? base + Z.of_nat (length p))
          with false by (symmetry; apply Z.leb_gt; lia).
        replace (off + (Z.of_nat (length p) - (off - base))) with (base + Z.of_nat (length p)) by lia.
        rewrite walk_contig by (try assumption; lia).
        unfold app_upd. cbn [app]. f_equal.
        rewrite (firstn_all2 (skipn _ p)) by (rewrite skipn_length; lia).
        rewrite firstn_app. rewrite skipn_length.
        rewrite (firstn_all2 (skipn _ p)) by (rewrite skipn_length; lia).
        f_equal.
        destruct (Z.le_gt_cases len (base + (Z.of_nat (length p) + Z.of_nat (length (concat rest))) - off)) as [Hl2|Hg2].
        -- rewrite Z.min_l by lia. f_equal. lia.
        -- rewrite Z.min_r by lia. rewrite !firstn_all2 by lia. reflexivity.
    + (* not there yet *)
      apply Z.ltb_ge in Hin.
      destruct fixd; cbn [negb andb].
      { rewrite IH by (try assumption; lia). cbn [negb andb]. now rewrite range_spec_skip by lia. }
      destruct (off + len <=? base + Z.of_nat (length p)) eqn:Hbrk.
      * apply Z.leb_le in Hbrk.
        assert (len = 0) by lia. assert (off = base + Z.of_nat (length p)) by lia. subst len.
        cbn [Z.eqb andb].
        destruct rest as [|q rest'].
        -- cbn. unfold range_spec. rewrite app_nil_r.
           replace (off <? base + Z.of_nat (length p)) with false by (symmetry; apply Z.ltb_ge; lia).
           now rewrite andb_false_r.
        -- cbn [blocks_of map existsb b_base]. subst off. now rewrite Z.eqb_refl.
      * apply Z.leb_gt in Hbrk.
        rewrite IH by (try assumption; lia). cbn [negb andb].
        rewrite range_spec_skip by lia.
        destruct rest as [|q rest']; [reflexivity|].
        cbn [blocks_of map existsb tl b_base].
        destruct (len =? 0) eqn:Hl0; [|reflexivity].
        apply Z.eqb_eq in Hl0. cbn [andb].
        replace (off =? base + Z.of_nat (length p)) with false by (symmetry; apply Z.eqb_neq; lia).
        reflexivity.
Qed.

(* exact characterisation for contiguous, non-empty blocks *)
Lemma addressed_contiguous fixd base parts off len :
  nonempty_parts parts -> 0 <= base ->
  addressed fixd (blocks_of base parts) off len =
    if negb fixd && (len =? 0) && boundary_hit (blocks_of base parts) off then None
    else range_spec base (concat parts) off len.
Proof.
  intros Hne Hb. rewrite addressed_unfold. unfold range_walk.
  destruct parts as [|p rest].
  - cbn. unfold range_spec. cbn [length]. rewrite andb_false_r.
    destruct (base <=? off) eqn:E1, (off <? base + Z.of_nat 0) eqn:E2; try reflexivity.
    apply Z.leb_le in E1. apply Z.ltb_lt in E2. lia.
  - cbn [blocks_of b_base].
    destruct ((off <? 0) || (len <? 0) || (off <? base)) eqn:Hbad.
    + assert (Hspec : range_spec base (concat (p :: rest)) off len = None).
      { unfold range_spec.
        apply orb_true_iff in Hbad as [Hbad|Hbad]; [apply orb_true_iff in Hbad as [Hbad|Hbad]|]; apply Z.ltb_lt in Hbad.
        - replace (0 <=? off) with false by (symmetry; apply Z.leb_gt; lia). now rewrite andb_false_r.
        - replace (0 <=? len) with false by (symmetry; apply Z.leb_gt; lia). now rewrite andb_false_r.
        - replace (base <=? off) with false by (symmetry; apply Z.leb_gt; lia). reflexivity. }
      rewrite Hspec. now destruct (_ && _).
    + apply orb_false_iff in Hbad as [Hbad H3]. apply orb_false_iff in Hbad as [H1 H2].
      apply Z.ltb_ge in H1, H2, H3.
      apply (walk_first fixd (p :: rest)); assumption.
Qed.

(* the data a scan of one buffer presents: one block at base 0 *)
Lemma addressed_single fixd data off len :
  addressed fixd [mkblock 0 data] off len = range_spec 0 data off len.
Proof.
  destruct data as [|x data'].
  - rewrite addressed_unfold. unfold range_walk, range_spec. cbn [b_base length walk].
    unfold b_end, b_size. cbn [b_base b_data length].
    destruct ((off <? 0) || (len <? 0) || (off <? 0)) eqn:E.
    + destruct (0 <=? off) eqn:E1, (off <? 0 + Z.of_nat 0) eqn:E2; try reflexivity.
      apply Z.leb_le in E1. apply Z.ltb_lt in E2. lia.
    + apply orb_false_iff in E as [E _]. apply orb_false_iff in E as [E1 _]. apply Z.ltb_ge in E1.
      replace (0 <=? off) with true by (symmetry; apply Z.leb_le; lia).
      replace (off <? 0 + Z.of_nat 0) with false by (symmetry; apply Z.ltb_ge; lia).
      cbn [andb]. now destruct (negb fixd && (off + len <=? 0 + Z.of_nat 0)).
  - pose proof (addressed_contiguous fixd 0 [x :: data'] off len) as H.
    cbn [blocks_of concat] in H. rewrite app_nil_r in H.
    unfold boundary_hit in H. cbn [tl map existsb] in H. rewrite andb_false_r in H.
    apply H; [|lia]. constructor; [discriminate|constructor].
Qed.

(* ================================================================== 2. functions of the addressed bytes *)

Lemma module_hash_exact (Ctx D : Type) (h_init : Ctx) (h_update : Ctx -> list N -> Ctx) (h_final : Ctx -> D) :
  (forall s a b, h_update (h_update s a) b = h_update s (a ++ b)) ->
  (forall s, h_update s [] = s) ->
  forall fixd bs off len,
    module_hash Ctx D h_init h_update h_final fixd bs off len =
    option_map (digest_of Ctx D h_init h_update h_final) (addressed fixd bs off len).
Proof.
  intros Happ Hnil fixd bs off len. unfold module_hash, digest_of.
  rewrite (range_walk_generic h_update fixd Happ Hnil).
  now destruct (addressed fixd bs off len).
Qed.

Lemma crc_update_app s a b : crc_update (crc_update s a) b = crc_update s (a ++ b).
Proof. unfold crc_update. now rewrite fold_left_app. Qed.
Lemma sum_update_app s a b : sum_update (sum_update s a) b = sum_update s (a ++ b).
Proof. unfold sum_update. now rewrite fold_left_app. Qed.
Lemma hist_add_app s a b : hist_add (hist_add s a) b = hist_add s (a ++ b).
Proof. unfold hist_add. now rewrite fold_left_app. Qed.

Lemma data_crc32_exact fixd bs off len :
  data_crc32 fixd bs off len = option_map crc32_table (addressed fixd bs off len).
Proof.
  unfold data_crc32. rewrite (range_walk_generic crc_update fixd crc_update_app (fun _ => eq_refl)).
  now destruct (addressed fixd bs off len).
Qed.

Lemma data_checksum32_exact fixd bs off len :
  data_checksum32 fixd bs off len = option_map checksum32 (addressed fixd bs off len).
Proof.
  unfold data_checksum32. now rewrite (range_walk_generic sum_update fixd sum_update_app (fun _ => eq_refl)).
Qed.

Lemma get_distribution_exact fixd bs off len :
  get_distribution fixd bs off len = option_map (hist_add hist0) (addressed fixd bs off len).
Proof.
  unfold get_distribution. now rewrite (range_walk_generic hist_add fixd hist_add_app (fun _ => eq_refl)).
Qed.

(* ================================================================== 3. the digest cache *)

Lemma app_inj_len {A} (a a' b b' : list A) :
  length a = length a' -> a ++ b = a' ++ b' -> a = a' /\ b = b'.
Proof.
  intros Hl He. split.
  - rewrite <- (firstn_app_exact (length a) a b eq_refl). rewrite He. now apply firstn_app_exact.
  - rewrite <- (skipn_app_exact (length a) a b eq_refl). rewrite He. now apply skipn_app_exact.
Qed.

Definition arg63 (z : Z) : Prop := 0 <= z < 9223372036854775808.

Lemma u64_small z : arg63 z -> u64 z = Z.to_N z.
Proof. unfold arg63, u64, two64. intros H. now rewrite Z.mod_small by lia. Qed.

Lemma le_enc8_inj a b : (a < 256 ^ 8)%N -> (b < 256 ^ 8)%N -> le_enc 8 a = le_enc 8 b -> a = b.
Proof.
  intros Ha Hb He. rewrite <- (le_dec_enc 8 a), <- (le_dec_enc 8 b) by assumption. now rewrite He.
Qed.

Lemma raw_key_inj off len off' len' :
  arg63 off -> arg63 len -> arg63 off' -> arg63 len' ->
  raw_key off len = raw_key off' len' -> off = off' /\ len = len'.
Proof.
  intros H1 H2 H3 H4 He. unfold raw_key in He.
  apply app_inj_len in He as [Ha Hb]; [|now rewrite !le_enc_length].
  rewrite !u64_small in Ha, Hb by assumption.
  unfold arg63 in *.
  assert (B : forall z, 0 <= z < 9223372036854775808 -> (Z.to_N z < 256 ^ 8)%N).
  { intros z Hz. change (256 ^ 8)%N with 18446744073709551616%N. lia. }
  apply le_enc8_inj in Ha; [|now apply B|now apply B].
  apply le_enc8_inj in Hb; [|now apply B|now apply B].
  lia.
Qed.

Lemma ns_of_inj a a' : ns_of a = ns_of a' -> a = a'.
Proof. destruct a, a'; cbn; intros H; try reflexivity; discriminate. Qed.

Section CacheProofs.
Variable D : Type.
Variable H : alg -> list N -> D.
Variable fixd : bool.
Variable bs : list block.

Definition good_entry (e : centry D) : Prop :=
  exists a off len, arg63 off /\ arg63 len /\ e = (ns_of a, raw_key off len, H a (match addressed fixd bs off len with Some l => l | None => [] end))
                    /\ addressed fixd bs off len <> None.
Definition cache_inv (c : cache D) : Prop := Forall good_entry c.

Lemma lookup_hit c : cache_inv c -> forall a off len d,
  arg63 off -> arg63 len ->
  cache_lookup D c (ns_of a) (raw_key off len) = Some d ->
  uncached D H fixd bs (a, off, len) = Some d.
Proof.
  induction c as [|e c IH]; intros Hinv a off len d Ho Hl Hlk; [discriminate|].
  inversion Hinv as [|? ? He Hc]; subst.
  destruct e as [[n k] v]. cbn [cache_lookup] in Hlk.
  destruct (bytes_eqb n (ns_of a) && bytes_eqb k (raw_key off len)) eqn:Heq.
  - injection Hlk as <-.
    apply andb_true_iff in Heq as [E1 E2]. apply bytes_eqb_eq in E1, E2.
    destruct He as (a' & off' & len' & Ho' & Hl' & Hent & Hdef).
    injection Hent as -> -> ->.
    apply ns_of_inj in E1; subst a'.
    apply raw_key_inj in E2 as [-> ->]; try assumption.
    unfold uncached. destruct (addressed fixd bs off len); [reflexivity|congruence].
  - now apply IH.
Qed.

Lemma cached_call_correct c q :
  cache_inv c -> (let '(a, off, len) := q in in64 off /\ in64 len) ->
  snd (cached_call D H fixd bs c q) = uncached D H fixd bs q /\ cache_inv (fst (cached_call D H fixd bs c q)).
Proof.
  intros Hinv. destruct q as [[a off] len]. intros [Hoff Hlen].
  pose proof (lookup_hit c Hinv a off len) as Hhit.
  assert (Hadd : forall l, arg63 off -> arg63 len -> addressed fixd bs off len = Some l ->
                           cache_inv ((ns_of a, raw_key off len, H a l) :: c)).
  { intros l Ao Al Hl. constructor; [|exact Hinv]. exists a, off, len. rewrite Hl.
    repeat split; try assumption; try apply Ao; try apply Al. discriminate. }
  assert (Hcases : addressed fixd bs off len =
                   match bs with
                   | [] => None
                   | b0 :: _ => if (off <? 0) || (len <? 0) || (off <? b_base b0) then None
                                else walk (fun acc ch => acc ++ ch) fixd bs off len false []
                   end) by reflexivity.
  unfold cached_call. unfold uncached in *.
  destruct bs as [|b0 rest].
  - rewrite Hcases. now split.
  - destruct ((off <? 0) || (len <? 0) || (off <? b_base b0)) eqn:Hbad.
    + rewrite Hcases. now split.
    + rewrite <- Hcases.
      apply orb_false_iff in Hbad as [Hbad _]. apply orb_false_iff in Hbad as [H1 H2].
      apply Z.ltb_ge in H1, H2.
      assert (Ao : arg63 off) by (unfold arg63, in64, INT64_MAX in *; lia).
      assert (Al : arg63 len) by (unfold arg63, in64, INT64_MAX in *; lia).
      destruct (cache_lookup D c (ns_of a) (raw_key off len)) as [d|] eqn:Hlk.
      * cbn [fst snd]. split; [|exact Hinv]. symmetry. now apply Hhit.
      * destruct (addressed fixd (b0 :: rest) off len) as [l|] eqn:Hl; cbn [fst snd option_map].
        -- split; [reflexivity|]. now apply Hadd.
        -- now split.
Qed.

Lemma run_cached_correct calls : forall c,
  cache_inv c -> Forall (fun q : call => let '(a, off, len) := q in in64 off /\ in64 len) calls ->
  run_cached D H fixd bs c calls = map (uncached D H fixd bs) calls.
Proof.
  induction calls as [|q r IH]; intros c Hinv Hall; [reflexivity|].
  inversion Hall as [|? ? Hq Hr]; subst.
  cbn [run_cached map].
  pose proof (cached_call_correct c q Hinv Hq) as [Hres Hinv'].
  destruct (cached_call D H fixd bs c q) as [c' res]. cbn [fst snd] in *.
  rewrite Hres. f_equal. now apply IH.
Qed.

Lemma cache_transparent_lemma calls :
  Forall (fun q : call => let '(a, off, len) := q in in64 off /\ in64 len) calls ->
  results_with_cache D H fixd bs calls = results_without_cache D H fixd bs calls.
Proof. intros Hall. apply run_cached_correct; [constructor|assumption]. Qed.
End CacheProofs.

(* ================================================================== 4. crc32: table = bitwise *)
Local Open Scope N_scope.

Lemma crc_bit_lxor x y : crc_bit (N.lxor x y) = N.lxor (crc_bit x) (crc_bit y).
Proof.
  unfold crc_bit. rewrite N.shiftr_lxor, N.lxor_spec.
  generalize crc_poly as P. intros P.
  destruct (N.testbit x 0), (N.testbit y 0); cbn [xorb];
    apply N.bits_inj; intro n; rewrite !N.lxor_spec, ?N.bits_0;
    destruct (N.testbit (N.shiftr x 1) n), (N.testbit (N.shiftr y 1) n), (N.testbit P n); reflexivity.
Qed.

Lemma crc_bit8_lxor x y : crc_bit8 (N.lxor x y) = N.lxor (crc_bit8 x) (crc_bit8 y).
Proof. unfold crc_bit8. now rewrite !crc_bit_lxor. Qed.

Lemma crc_bit_shiftl h k : 0 < k -> crc_bit (N.shiftl h k) = N.shiftl h (k - 1).
Proof.
  intros Hk. unfold crc_bit.
  rewrite N.shiftl_spec_low by assumption.
  rewrite N.shiftr_shiftl_l by lia.
  apply N.lxor_0_r.
Qed.

Lemma crc_bit8_high h : crc_bit8 (N.shiftl h 8) = h.
Proof.
  unfold crc_bit8.
  rewrite (crc_bit_shiftl h 8) by reflexivity. change (8 - 1) with 7.
  rewrite (crc_bit_shiftl h 7) by reflexivity. change (7 - 1) with 6.
  rewrite (crc_bit_shiftl h 6) by reflexivity. change (6 - 1) with 5.
  rewrite (crc_bit_shiftl h 5) by reflexivity. change (5 - 1) with 4.
  rewrite (crc_bit_shiftl h 4) by reflexivity. change (4 - 1) with 3.
  rewrite (crc_bit_shiftl h 3) by reflexivity. change (3 - 1) with 2.
  rewrite (crc_bit_shiftl h 2) by reflexivity. change (2 - 1) with 1.
  rewrite (crc_bit_shiftl h 1) by reflexivity. change (1 - 1) with 0.
  apply N.shiftl_0_r.
Qed.

Lemma split_low8 x : x = N.lxor (N.land x 255) (N.shiftl (N.shiftr x 8) 8).
Proof.
  apply N.bits_inj. intro n. rewrite N.lxor_spec, N.land_spec.
  change 255 with (N.ones 8).
  destruct (N.lt_ge_cases n 8) as [Hlt|Hge].
  - rewrite N.ones_spec_low by assumption. rewrite N.shiftl_spec_low by assumption.
    now rewrite andb_true_r, xorb_false_r.
  - rewrite N.ones_spec_high by assumption. rewrite N.shiftl_spec_high' by assumption.
    rewrite N.shiftr_spec'. rewrite N.sub_add by assumption.
    rewrite andb_false_r. now destruct (N.testbit x n).
Qed.

Definition crc_tab_ok_b : bool :=
  forallb (fun i => nth (N.to_nat i) crc32_tab 0 =? crc_bit8 i) (map N.of_nat (seq 0 256)).
Lemma crc_tab_ok : crc_tab_ok_b = true.
Proof. vm_compute. reflexivity. Qed.

Lemma crc_tab_entry i : i < 256 -> nth (N.to_nat i) crc32_tab 0 = crc_bit8 i.
Proof.
  intros Hi. pose proof crc_tab_ok as Hok. unfold crc_tab_ok_b in Hok.
  rewrite forallb_forall in Hok. apply N.eqb_eq, Hok.
  apply in_map_iff. exists (N.to_nat i). split; [apply N2Nat.id|]. apply in_seq. lia.
Qed.

Lemma crc_step_eq c b : b < 256 -> crc_step c b = crc_step_bitwise c b.
Proof.
  intros Hb. unfold crc_step, crc_step_bitwise.
  set (x := N.lxor c b).
  rewrite (split_low8 x) at 2.
  rewrite crc_bit8_lxor, crc_bit8_high.
  rewrite crc_tab_entry.
  2:{ change 255 with (N.ones 8). rewrite N.land_ones. apply N.mod_lt. discriminate. }
  f_equal. unfold x. rewrite N.shiftr_lxor.
  replace (N.shiftr b 8) with 0; [now rewrite N.lxor_0_r|].
  symmetry. rewrite N.shiftr_div_pow2. apply N.div_small. exact Hb.
Qed.

Lemma crc32_table_eq_bitwise_lemma l :
  all_bytes l = true -> crc32_table l = crc32_bitwise l.
Proof.
  intros Hl. unfold crc32_table, crc32_bitwise, crc_update. f_equal.
  generalize 0xFFFFFFFF as c. revert Hl.
  induction l as [|b r IH]; intros Hl c; [reflexivity|].
  cbn [all_bytes forallb] in Hl. apply andb_true_iff in Hl as [Hb Hr].
  unfold is_byte in Hb. apply N.ltb_lt in Hb.
  cbn [fold_left]. rewrite crc_step_eq by assumption. now apply IH.
Qed.

(* ================================================================== 5. checksum32 *)
Lemma sum_update_spec l : forall s, s < two32 -> sum_update s l = (s + byte_sum l) mod two32.
Proof.
  unfold sum_update, two32.
  induction l as [|b r IH]; intros s Hs; cbn [fold_left byte_sum fold_right].
  - rewrite N.add_0_r. symmetry. now apply N.mod_small.
  - unfold sum_step at 2. unfold two32. rewrite IH by (apply N.mod_lt; discriminate).
    rewrite N.add_mod_idemp_l by discriminate. f_equal. fold (byte_sum r). lia.
Qed.

Lemma checksum32_spec l : checksum32 l = byte_sum l mod two32.
Proof. unfold checksum32. rewrite sum_update_spec by reflexivity. reflexivity. Qed.

(* ================================================================== 6. distribution, count, mode *)
Lemma incr_nth_length h i : length (incr_nth h i) = length h.
Proof. revert i; induction h as [|x r IH]; intros [|j]; cbn; try reflexivity. now rewrite IH. Qed.

Lemma incr_nth_same h : forall i, (i < length h)%nat -> nth i (incr_nth h i) 0 = (nth i h 0 + 1) mod two32.
Proof.
  induction h as [|x r IH]; intros [|j] Hi; cbn in *; try lia; try reflexivity.
  apply IH. lia.
Qed.

Lemma incr_nth_other h : forall i j, i <> j -> nth j (incr_nth h i) 0 = nth j h 0.
Proof.
  induction h as [|x r IH]; intros [|i] [|j] Hij; cbn; try reflexivity; try congruence.
  apply IH. congruence.
Qed.

Lemma incr_nth_out h : forall i, (length h <= i)%nat -> incr_nth h i = h.
Proof.
  induction h as [|x r IH]; intros [|j] Hi; cbn in *; try reflexivity; try lia.
  f_equal. apply IH. lia.
Qed.

Lemma occ_cons c x l : occ c (x :: l) = (if c =? x then 1 else 0) + occ c l.
Proof. unfold occ. cbn [filter]. destruct (c =? x); cbn [length]; lia. Qed.

Lemma hist_add_spec l : forall h c,
  length h = 256%nat -> c < 256 ->
  nth (N.to_nat c) (hist_add h l) 0 mod two32 = (nth (N.to_nat c) h 0 + occ c l) mod two32.
Proof.
  unfold hist_add.
  induction l as [|x r IH]; intros h c Hlen Hc; cbn [fold_left].
  - unfold occ. cbn. now rewrite N.add_0_r.
  - rewrite IH by (try assumption; now rewrite incr_nth_length).
    rewrite occ_cons.
    destruct (N.eq_dec c x) as [<-|Hne].
    + rewrite N.eqb_refl. rewrite incr_nth_same by lia.
      unfold two32. rewrite N.add_mod_idemp_l by discriminate. f_equal. lia.
    + replace (c =? x) with false by (symmetry; now apply N.eqb_neq).
      rewrite incr_nth_other by lia. reflexivity.
Qed.

Lemma hist_add_bound l : forall h, Forall (fun v => v < two32) h -> Forall (fun v => v < two32) (hist_add h l).
Proof.
  unfold hist_add. induction l as [|x r IH]; intros h Hh; cbn [fold_left]; [assumption|].
  apply IH. clear IH. generalize (N.to_nat x) as i. induction Hh as [|v t Hv Ht IHt]; intros [|i]; cbn; constructor; try assumption.
  - apply N.mod_lt. discriminate.
  - apply IHt.
Qed.

Lemma hist0_bound : Forall (fun v => v < two32) hist0.
Proof. unfold hist0. apply Forall_forall. intros v Hv. apply repeat_spec in Hv. subst. reflexivity. Qed.

Lemma hist_add_length l : forall h, length (hist_add h l) = length h.
Proof. unfold hist_add. induction l as [|x r IH]; intros h; cbn [fold_left]; [reflexivity|]. now rewrite IH, incr_nth_length. Qed.

(* counts of the distribution are the numbers of occurrences (mod 2^32, as the array is uint32_t) *)
Lemma distribution_counts_lemma l c :
  c < 256 -> nth (N.to_nat c) (hist_add hist0 l) 0 = occ c l mod two32.
Proof.
  intros Hc.
  pose proof (hist_add_spec l hist0 c eq_refl Hc) as H.
  assert (Hz : nth (N.to_nat c) hist0 0 = 0).
  { unfold hist0. apply nth_repeat. }
  rewrite Hz, N.add_0_l in H. rewrite <- H. symmetry. apply N.mod_small.
  pose proof (hist_add_bound l hist0 hist0_bound) as Hb.
  rewrite Forall_forall in Hb. apply Hb. apply nth_In. rewrite hist_add_length. cbn. lia.
Qed.

Lemma occ_le_length c l : occ c l <= N.of_nat (length l).
Proof.
  unfold occ. induction l as [|x r IH]; cbn [filter length]; [lia|].
  destruct (c =? x); cbn [length]; lia.
Qed.

Lemma distribution_counts_small l c :
  c < 256 -> N.of_nat (length l) < two32 -> nth (N.to_nat c) (hist_add hist0 l) 0 = occ c l.
Proof.
  intros Hc Hl. rewrite distribution_counts_lemma by assumption. apply N.mod_small.
  pose proof (occ_le_length c l). lia.
Qed.

(* mode: the smallest byte value among those with the largest count *)
Definition is_mode (h : list N) (m : nat) (bound : nat) : Prop :=
  (forall c, (c < bound)%nat -> nth c h 0 <= nth m h 0) /\ (forall c, (c < m)%nat -> nth c h 0 < nth m h 0).

Lemma mode_loop_spec h : forall n i mc,
  (mc < Nat.max i 1)%nat -> is_mode h mc i -> 
  (mode_loop h i n mc < Nat.max (i + n) 1)%nat /\ is_mode h (mode_loop h i n mc) (i + n).
Proof.
  induction n as [|n IH]; intros i mc Hmc Hinv; cbn [mode_loop].
  - rewrite Nat.add_0_r. now split.
  - replace (i + S n)%nat with (S i + n)%nat by lia.
    destruct Hinv as [Hmax Hmin].
    destruct (nth mc h 0 <? nth i h 0) eqn:E.
    + apply N.ltb_lt in E. apply IH; [lia|]. split.
      * intros c Hc. destruct (Nat.eq_dec c i) as [->|Hne]; [lia|]. specialize (Hmax c ltac:(lia)). lia.
      * intros c Hc. specialize (Hmax c Hc). lia.
    + apply N.ltb_ge in E. apply IH; [lia|]. split.
      * intros c Hc. destruct (Nat.eq_dec c i) as [->|Hne]; [lia|]. apply Hmax. lia.
      * exact Hmin.
Qed.

Lemma mode_of_spec h :
  let m := N.to_nat (mode_of h) in
  (m < 256)%nat /\ (forall c, (c < 256)%nat -> nth c h 0 <= nth m h 0) /\ (forall c, (c < m)%nat -> nth c h 0 < nth m h 0).
Proof.
  unfold mode_of. rewrite Nat2N.id.
  assert (H0 : (0 < Nat.max 0 1)%nat) by (cbv; lia).
  assert (Hi : is_mode h 0 0) by (split; intros c Hc; lia).
  pose proof (mode_loop_spec h 256 0 0 H0 Hi) as [Hlt [Hmax Hmin]].
  change (0 + 256)%nat with 256%nat in *.
  change (Nat.max 256 1) with 256%nat in Hlt.
  repeat split; assumption.
Qed.

(* ================================================================== 7. string.to_int *)
Local Open Scope Z_scope.

Definition is_dec (c : N) : bool := ((48 <=? c) && (c <=? 57))%N.
Definition dec_step (a : Z) (c : N) : Z := a * 10 + (Z.of_N c - 48).
Definition dec_value (a : Z) (l : list N) : Z := fold_left dec_step l a.

Lemma digit_in_dec c : is_dec c = true -> digit_in 10 c = Some (Z.of_N c - 48).
Proof.
  unfold is_dec, digit_in, digit_val. intros H. rewrite H.
  apply andb_true_iff in H as [H1 H2]. apply N.leb_le in H1, H2.
  replace (Z.of_N c - 48 <? 10) with true; [reflexivity|]. symmetry. apply Z.ltb_lt. lia.
Qed.

Lemma take_digits_dec l : forall acc n,
  forallb is_dec l = true -> take_digits 10 l acc n = (dec_value acc l, (n + length l)%nat, []).
Proof.
  induction l as [|c r IH]; intros acc n H; cbn [take_digits dec_value fold_left length].
  - now rewrite Nat.add_0_r.
  - cbn [forallb] in H. apply andb_true_iff in H as [Hc Hr].
    rewrite digit_in_dec by assumption. rewrite IH by assumption.
    unfold dec_value, dec_step. f_equal. f_equal. lia.
Qed.

Lemma digit_char_dec d : 0 <= d < 10 -> is_dec (digit_char d) = true /\ Z.of_N (digit_char d) - 48 = d.
Proof.
  intros Hd. unfold digit_char. replace (d <? 10) with true by (symmetry; apply Z.ltb_lt; lia).
  unfold is_dec. split.
  - apply andb_true_iff. split; apply N.leb_le; lia.
  - lia.
Qed.

Lemma digits_of_dec fuel : forall n acc,
  0 <= n -> forallb is_dec acc = true -> forallb is_dec (digits_of fuel 10 n acc) = true.
Proof.
  induction fuel as [|f IH]; intros n acc Hn Hacc; cbn [digits_of]; [assumption|].
  assert (Hd : is_dec (digit_char (n mod 10)) = true) by (apply digit_char_dec; apply Z.mod_pos_bound; lia).
  destruct (n <? 10).
  - cbn [forallb]. now rewrite Hd.
  - apply IH; [apply Z.div_pos; lia|]. cbn [forallb]. now rewrite Hd.
Qed.

Lemma digits_of_value fuel : forall n acc,
  0 <= n < 10 ^ Z.of_nat fuel -> dec_value 0 (digits_of fuel 10 n acc) = dec_value n acc.
Proof.
  induction fuel as [|f IH]; intros n acc Hn.
  - cbn in Hn. assert (n = 0) by lia. subst. reflexivity.
  - cbn [digits_of].
    pose proof (digit_char_dec (n mod 10) ltac:(apply Z.mod_pos_bound; lia)) as [_ Hv].
    destruct (n <? 10) eqn:E.
    + apply Z.ltb_lt in E. unfold dec_value. cbn [fold_left]. unfold dec_step at 2.
      rewrite Hv. rewrite Z.mod_small by lia. reflexivity.
    + apply Z.ltb_ge in E. rewrite IH.
      * unfold dec_value. cbn [fold_left]. unfold dec_step at 2. rewrite Hv.
        f_equal. pose proof (Z.div_mod n 10 ltac:(lia)). lia.
      * rewrite Nat2Z.inj_succ, Z.pow_succ_r in Hn by lia.
        split; [apply Z.div_pos; lia|]. apply Z.div_lt_upper_bound; lia.
Qed.

(* the first digit printed for a positive number is not '0' *)
Lemma digits_of_head fuel : forall n acc,
  0 < n < 10 ^ Z.of_nat fuel ->
  exists c r, digits_of fuel 10 n acc = c :: r /\ (49 <= c <= 57)%N.
Proof.
  induction fuel as [|f IH]; intros n acc Hn.
  - cbn in Hn. lia.
  - cbn [digits_of]. destruct (n <? 10) eqn:E.
    + apply Z.ltb_lt in E. exists (digit_char (n mod 10)), acc. split; [reflexivity|].
      rewrite Z.mod_small by lia. unfold digit_char.
      replace (n <? 10) with true by (symmetry; apply Z.ltb_lt; lia). lia.
    + apply Z.ltb_ge in E. apply IH.
      rewrite Nat2Z.inj_succ, Z.pow_succ_r in Hn by lia.
      split; [apply Z.div_str_pos; lia|]. apply Z.div_lt_upper_bound; lia.
Qed.

Lemma cstr_id l : forallb (fun c => negb (c =? 0)%N) l = true -> cstr l = l.
Proof.
  induction l as [|c r IH]; intros H; [reflexivity|].
  cbn [forallb] in H. apply andb_true_iff in H as [Hc Hr].
  cbn [cstr]. destruct (c =? 0)%N; [discriminate|]. now rewrite IH.
Qed.

Lemma dec_nonzero l : forallb is_dec l = true -> forallb (fun c => negb (c =? 0)%N) l = true.
Proof.
  induction l as [|c r IH]; intros H; [reflexivity|].
  cbn [forallb] in *. apply andb_true_iff in H as [Hc Hr]. rewrite IH by assumption.
  unfold is_dec in Hc. apply andb_true_iff in Hc as [H1 _]. apply N.leb_le in H1.
  replace (c =? 0)%N with false; [reflexivity|]. symmetry. apply N.eqb_neq. lia.
Qed.

(* strtoll on [sign] digits, the first digit 1..9, base 0 *)
Lemma strtoll_body_dec neg s c r :
  (49 <= c <= 57)%N -> forallb is_dec r = true ->
  strtoll_body neg s (c :: r) 0 = strtoll_finish neg (dec_value 0 (c :: r)) [].
Proof.
  intros Hc Hr. unfold strtoll_body.
  assert (Hc48 : (c =? 48)%N = false) by (apply N.eqb_neq; lia).
  assert (Hhex : has_hex_prefix (c :: r) = false).
  { unfold has_hex_prefix. destruct r as [|x [|h t]]; try reflexivity. now rewrite Hc48. }
  rewrite Hhex. cbn [Z.eqb orb andb]. rewrite Hc48.
  assert (Hd : forallb is_dec (c :: r) = true).
  { cbn [forallb]. rewrite Hr. unfold is_dec.
    replace (48 <=? c)%N with true by (symmetry; apply N.leb_le; lia).
    replace (c <=? 57)%N with true by (symmetry; apply N.leb_le; lia). reflexivity. }
  rewrite take_digits_dec by assumption. reflexivity.
Qed.

Lemma strtoll_finish_ok (neg : bool) (v : Z) :
  in64 (if neg then - v else v) ->
  strtoll_finish neg v [] = {| st_value := if neg then - v else v; st_noconv := false; st_rest := []; st_erange := false |}.
Proof.
  unfold in64, strtoll_finish. intros [H1 H2].
  replace ((if neg then - v else v) <? INT64_MIN) with false by (symmetry; apply Z.ltb_ge; lia).
  replace (INT64_MAX <? (if neg then - v else v)) with false by (symmetry; apply Z.ltb_ge; lia).
  reflexivity.
Qed.

Lemma pow10_64 : 9223372036854775808 < 10 ^ Z.of_nat 64.
Proof. vm_compute. reflexivity. Qed.

Lemma string_to_int_print_dec z : in64 z -> string_to_int (print_dec z) 0 = Some z.
Proof.
  intros Hz. unfold string_to_int.
  assert (Hz' := Hz). unfold in64, INT64_MIN, INT64_MAX in Hz'.
  pose proof pow10_64 as P.
  unfold print_dec. destruct (z <? 0) eqn:Hneg.
  - apply Z.ltb_lt in Hneg.
    destruct (digits_of_head 64 (- z) [] ltac:(lia)) as (c & r & Hcr & Hc).
    assert (Hdec : forallb is_dec (print_nat 10 (- z)) = true) by (apply digits_of_dec; [lia|reflexivity]).
    assert (Hval : dec_value 0 (print_nat 10 (- z)) = - z) by (unfold print_nat; rewrite digits_of_value by lia; reflexivity).
    unfold print_nat in *. rewrite Hcr in *.
    rewrite cstr_id.
    2:{ pose proof (dec_nonzero _ Hdec) as Hnz0. cbn [forallb]. cbn [forallb] in Hnz0. rewrite Hnz0. reflexivity. }
    unfold strtoll. cbn [skip_space is_space N.leb N.eqb N.compare Pos.compare Pos.compare_cont andb orb Pos.eqb].
    cbn [forallb] in Hdec. apply andb_true_iff in Hdec as [_ Hr].
    rewrite strtoll_body_dec by assumption. rewrite Hval.
    rewrite strtoll_finish_ok by (rewrite Z.opp_involutive; exact Hz).
    cbn [st_erange st_noconv st_rest st_value]. now rewrite Z.opp_involutive.
  - apply Z.ltb_ge in Hneg.
    destruct (Z.eq_dec z 0) as [->|Hnz]; [vm_compute; reflexivity|].
    destruct (digits_of_head 64 z [] ltac:(lia)) as (c & r & Hcr & Hc).
    assert (Hdec : forallb is_dec (print_nat 10 z) = true) by (apply digits_of_dec; [lia|reflexivity]).
    assert (Hval : dec_value 0 (print_nat 10 z) = z) by (unfold print_nat; rewrite digits_of_value by lia; reflexivity).
    unfold print_nat in *. rewrite Hcr in *.
    rewrite cstr_id by (now apply dec_nonzero).
    unfold strtoll.
    assert (Hsp : is_space c = false).
    { unfold is_space. replace (c <=? 13)%N with false by (symmetry; apply N.leb_gt; lia).
      replace (c =? 32)%N with false by (symmetry; apply N.eqb_neq; lia). now rewrite andb_false_r. }
    cbn [skip_space]. rewrite Hsp.
    replace (c =? 45)%N with false by (symmetry; apply N.eqb_neq; lia).
    replace (c =? 43)%N with false by (symmetry; apply N.eqb_neq; lia).
    cbn [forallb] in Hdec. apply andb_true_iff in Hdec as [_ Hr].
    rewrite strtoll_body_dec by assumption. rewrite Hval.
    rewrite strtoll_finish_ok by exact Hz.
    reflexivity.
Qed.

Lemma to_int_roundtrip_lemma z :
  in64 z -> z <> YR_UNDEFINED -> mod_to_int (print_dec z) = Some z.
Proof.
  intros Hz Hu. unfold mod_to_int. rewrite string_to_int_print_dec by assumption.
  unfold ret_int. replace (z =? YR_UNDEFINED) with false; [reflexivity|]. symmetry. now apply Z.eqb_neq.
Qed.

(* the one value that cannot be returned: it is the representation of "undefined" *)
Lemma to_int_roundtrip_refuted_lemma :
  exists z, in64 z /\ mod_to_int (print_dec z) <> Some z.
Proof. exists YR_UNDEFINED. split; [unfold in64, INT64_MIN, INT64_MAX, YR_UNDEFINED; lia|]. vm_compute. discriminate. Qed.

(* ================================================================== 8. integer functions of math *)
Lemma uz_wrap z : in64 z -> wrap64 (uz z) = z.
Proof.
  unfold in64, INT64_MIN, INT64_MAX, wrap64, uz, two64. intros H.
  Z.div_mod_to_equations. lia.
Qed.

(* math.min / math.max are the minimum / maximum of the arguments read as unsigned 64-bit numbers *)
Lemma math_min_spec i j : in64 i -> in64 j -> i <> YR_UNDEFINED -> j <> YR_UNDEFINED ->
  math_min i j = Some (if uz i <? uz j then i else j).
Proof.
  intros Hi Hj Ui Uj. unfold math_min, arg_def, ret_int.
  apply Z.eqb_neq in Ui, Uj. rewrite Ui, Uj. cbn [negb andb].
  destruct (uz i <? uz j); rewrite uz_wrap by assumption; [now rewrite Ui|now rewrite Uj].
Qed.
Lemma math_max_spec i j : in64 i -> in64 j -> i <> YR_UNDEFINED -> j <> YR_UNDEFINED ->
  math_max i j = Some (if uz j <? uz i then i else j).
Proof.
  intros Hi Hj Ui Uj. unfold math_max, arg_def, ret_int.
  apply Z.eqb_neq in Ui, Uj. rewrite Ui, Uj. cbn [negb andb].
  destruct (uz j <? uz i); rewrite uz_wrap by assumption; [now rewrite Ui|now rewrite Uj].
Qed.

Lemma math_abs_exact i : in64 i -> i <> YR_UNDEFINED ->
  math_abs i = if i =? INT64_MIN then None else Some (Z.abs i).
Proof.
  intros Hi Ui. unfold math_abs, arg_def, ret_int.
  apply Z.eqb_neq in Ui. rewrite Ui. cbn [negb].
  destruct (i =? INT64_MIN); [reflexivity|].
  replace (Z.abs i =? YR_UNDEFINED) with false; [reflexivity|].
  symmetry. apply Z.eqb_neq. unfold YR_UNDEFINED. lia.
Qed.
(* the 4.5.2 function returned a negative "absolute value" *)
Lemma math_abs_pinned_refuted_lemma : exists i, in64 i /\ i <> YR_UNDEFINED /\ math_abs_pinned i = Some INT64_MIN.
Proof.
  exists INT64_MIN. repeat split; try (unfold in64, INT64_MIN, INT64_MAX, YR_UNDEFINED; lia).
Qed.
Example ex_abs : math_abs (-5) = Some 5 /\ math_abs INT64_MIN = None /\ math_abs INT64_MAX = Some INT64_MAX.
Proof. repeat split. Qed.

(* ================================================================== 9. refutations of the unrestricted statements,
   and non-vacuity examples *)
Local Open Scope N_scope.

(* 4.5.2 loop: a zero-length range that starts exactly where a later block starts is undefined, although the
   same bytes presented as one block give the digest of the empty string *)
Lemma addressed_bytes_exact_refuted_lemma :
  exists parts off len, nonempty_parts parts /\
    addressed false (blocks_of 0 parts) off len <> range_spec 0 (concat parts) off len /\
    addressed false [mkblock 0 (concat parts)] off len = range_spec 0 (concat parts) off len.
Proof.
  exists [[97; 98; 99]; [100; 101; 102]], 3%Z, 0%Z. split.
  - repeat constructor; discriminate.
  - split; vm_compute; [discriminate|reflexivity].
Qed.

(* an empty block between two contiguous blocks also cuts the range (both loop variants) *)
Lemma empty_block_refuted_lemma :
  exists fixd parts off len,
    addressed fixd (blocks_of 0 parts) off len <> range_spec 0 (concat parts) off len.
Proof. exists true, [[97; 98; 99]; []; [100; 101; 102]], 1%Z, 4%Z. vm_compute. discriminate. Qed.

Example ex_single_clip : addressed false [mkblock 0 [1; 2; 3; 4]] 2 100 = Some [3; 4].
Proof. vm_compute. reflexivity. Qed.
Example ex_single_outside : addressed false [mkblock 0 [1; 2; 3; 4]] 4 0 = None.
Proof. vm_compute. reflexivity. Qed.
Example ex_multi_cross : addressed false (blocks_of 0 [[1; 2; 3]; [4; 5]; [6]]) 1 5 = Some [2; 3; 4; 5; 6].
Proof. vm_compute. reflexivity. Qed.
Example ex_gap : addressed false [mkblock 0 [1; 2; 3]; mkblock 5 [4; 5]] 1 4 = None.
Proof. vm_compute. reflexivity. Qed.
Example ex_gap_inside_first : addressed false [mkblock 0 [1; 2; 3]; mkblock 5 [4; 5]] 1 2 = Some [2; 3].
Proof. vm_compute. reflexivity. Qed.
Example ex_contig_hyp : nonempty_parts [[1; 2; 3]; [4; 5]] /\ (0 <= 0)%Z.
Proof. split; [repeat constructor; discriminate|lia]. Qed.
Example ex_crc_check : crc32_table [49; 50; 51; 52; 53; 54; 55; 56; 57] = 0xCBF43926 /\ all_bytes [49; 50; 51; 52; 53; 54; 55; 56; 57] = true.
Proof. split; vm_compute; reflexivity. Qed.
Example ex_checksum_wrap : checksum32 (repeat 255 3) = 765.
Proof. vm_compute. reflexivity. Qed.
Example ex_mode_tie : mode_of (hist_add hist0 [7; 3; 7; 3; 9]) = 3.
Proof. vm_compute. reflexivity. Qed.
Example ex_cache_hit :
  results_with_cache (list N) (fun a l => l) false [mkblock 0 [1; 2; 3]] [(MD5, 0, 2); (MD5, 0, 3); (MD5, 0, 2); (SHA1, 0, 2)]%Z
  = [Some [1; 2]; Some [1; 2; 3]; Some [1; 2]; Some [1; 2]].
Proof. vm_compute. reflexivity. Qed.
Example ex_calls_in64 : Forall (fun q : call => let '(a, off, len) := q in in64 off /\ in64 len) [(MD5, 0, 2); (SHA256, -1, 9223372036854775807)]%Z.
Proof. repeat constructor; unfold in64, INT64_MIN, INT64_MAX; lia. Qed.
Example ex_to_int : mod_to_int [32; 45; 48; 120; 49; 70] = Some (-31)%Z /\ mod_to_int [48; 120] = None /\ mod_to_int [49; 0; 50] = Some 1%Z
                    /\ mod_to_int_base [122] 36 = Some 35%Z /\ mod_to_int [57; 50; 50; 51; 51; 55; 50; 48; 51; 54; 56; 53; 52; 55; 55; 53; 56; 48; 56] = None.
Proof. repeat split; vm_compute; reflexivity. Qed.
Example ex_roundtrip_hyp : in64 (-9223372036854775808)%Z /\ (-9223372036854775808)%Z <> YR_UNDEFINED.
Proof. split; [unfold in64, INT64_MIN, INT64_MAX; lia|discriminate]. Qed.
Example ex_streaming_hyp :   (* a digest context satisfying the two streaming laws: the bytes seen so far *)
  (forall s a b : list N, (s ++ a) ++ b = s ++ (a ++ b)) /\ (forall s : list N, s ++ [] = s).
Proof. split; intros; [now rewrite app_assoc|now rewrite app_nil_r]. Qed.

(* ================================================================== 10. string.to_int(s, 10): exactly the decimal numerals *)
Local Open Scope Z_scope.

Lemma digit_in10_inv c d : digit_in 10 c = Some d -> is_dec c = true /\ d = Z.of_N c - 48.
Proof.
  unfold digit_in, digit_val, is_dec.
  destruct ((48 <=? c) && (c <=? 57))%N eqn:E1.
  - destruct (Z.of_N c - 48 <? 10); [|discriminate]. intros H. injection H as <-. now split.
  - destruct ((97 <=? c) && (c <=? 122))%N eqn:E2.
    + apply andb_true_iff in E2 as [H1 _]. apply N.leb_le in H1.
      replace (Z.of_N c - 87 <? 10) with false by (symmetry; apply Z.ltb_ge; lia). discriminate.
    + destruct ((65 <=? c) && (c <=? 90))%N eqn:E3; [|discriminate].
      apply andb_true_iff in E3 as [H1 _]. apply N.leb_le in H1.
      replace (Z.of_N c - 55 <? 10) with false by (symmetry; apply Z.ltb_ge; lia). discriminate.
Qed.

Lemma skip_space_split s : exists ws, s = ws ++ skip_space s /\ forallb is_space ws = true.
Proof.
  induction s as [|c r [ws [He Hw]]]; [exists []; now split|].
  cbn [skip_space]. destruct (is_space c) eqn:E.
  - exists (c :: ws). cbn [app forallb]. rewrite E, Hw. split; [now f_equal|reflexivity].
  - exists []. now split.
Qed.

Lemma take_digits10_split s : forall acc n v m rest,
  take_digits 10 s acc n = (v, m, rest) ->
  exists ds, s = ds ++ rest /\ forallb is_dec ds = true /\ v = dec_value acc ds /\ m = (n + length ds)%nat.
Proof.
  induction s as [|c r IH]; intros acc n v m rest H; cbn [take_digits] in H.
  - injection H as <- <- <-. exists []. cbn. now rewrite Nat.add_0_r.
  - destruct (digit_in 10 c) as [d|] eqn:E.
    + apply digit_in10_inv in E as [Hc ->].
      apply IH in H as (ds & -> & Hd & -> & ->).
      exists (c :: ds). cbn [app forallb length dec_value fold_left]. rewrite Hc, Hd.
      repeat split. lia.
    + injection H as <- <- <-. exists []. cbn. now rewrite Nat.add_0_r.
Qed.

Definition accepted (r : strtoll_res) (v : Z) : Prop :=
  st_erange r = false /\ st_noconv r = false /\ st_rest r = [] /\ st_value r = v.

Lemma string_to_int_accepted s base v :
  string_to_int s base = Some v <-> accepted (strtoll (cstr s) base) v.
Proof.
  unfold string_to_int, accepted. destruct (strtoll (cstr s) base) as [val nc rest er]. cbn.
  destruct er, nc, rest; split; intros H; try discriminate; try (now destruct H as (? & ? & ? & ?); discriminate).
  - injection H as <-. now repeat split.
  - destruct H as (_ & _ & _ & ->). reflexivity.
Qed.

Lemma body10_accepted neg cs s2 v :
  accepted (strtoll_body neg cs s2 10) v <->
  (forallb is_dec s2 = true /\ s2 <> [] /\ v = (if neg then - dec_value 0 s2 else dec_value 0 s2) /\ in64 v).
Proof.
  unfold strtoll_body. change ((10 =? 0) || (10 =? 16)) with false. change (10 =? 0) with false. cbn [andb].
  destruct (take_digits 10 s2 0 0) as [[v0 n] rest] eqn:E.
  pose proof (take_digits10_split s2 0 0%nat v0 n rest E) as (ds & Hs & Hd & Hv & Hn).
  split.
  - destruct n as [|n']; [intros (_ & H & _); discriminate|].
    unfold strtoll_finish, accepted.
    destruct ((if neg then - v0 else v0) <? INT64_MIN) eqn:E1; [intros (H & _); discriminate|].
    destruct (INT64_MAX <? (if neg then - v0 else v0)) eqn:E2; [intros (H & _); discriminate|].
    cbn. intros (_ & _ & Hr & Hval). subst rest. rewrite app_nil_r in Hs. subst ds.
    apply Z.ltb_ge in E1, E2.
    repeat split; try assumption.
    + intros ->. cbn in Hn. lia.
    + now subst.
    + subst. unfold in64. lia.
    + subst. unfold in64. lia.
  - intros (Hdec & Hne & Hval & Hin).
    rewrite (take_digits_dec s2 0 0 Hdec) in E. injection E as <- <- <-.
    destruct s2 as [|c r]; [congruence|]. cbn [length Nat.add].
    rewrite strtoll_finish_ok by (rewrite <- Hval; exact Hin).
    unfold accepted. cbn. now repeat split.
Qed.

(* the numerals string.to_int(s, 10) accepts: white space, an optional sign, decimal digits, nothing else,
   value within int64 and different from the undefined pattern; everything else is rejected *)
Definition decimal_numeral (cs : list N) (v : Z) : Prop :=
  exists ws sg ds, cs = ws ++ sg ++ ds /\ forallb is_space ws = true /\
    (sg = [] \/ sg = [43%N] \/ sg = [45%N]) /\ ds <> [] /\ forallb is_dec ds = true /\
    v = (if bytes_eqb sg [45%N] then - dec_value 0 ds else dec_value 0 ds).

Lemma skip_space_app ws rest :
  forallb is_space ws = true -> (match rest with c :: _ => is_space c = false | [] => True end) ->
  skip_space (ws ++ rest) = rest.
Proof.
  induction ws as [|w r IH]; intros Hw Hr; cbn [app].
  - destruct rest as [|c t]; [reflexivity|]. cbn [skip_space]. now rewrite Hr.
  - cbn [forallb] in Hw. apply andb_true_iff in Hw as [H1 H2]. cbn [skip_space]. rewrite H1. now apply IH.
Qed.

Lemma dec_not_space c : is_dec c = true -> is_space c = false /\ (c =? 45)%N = false /\ (c =? 43)%N = false.
Proof.
  unfold is_dec, is_space. intros H. apply andb_true_iff in H as [H1 H2]. apply N.leb_le in H1, H2.
  replace (c <=? 13)%N with false by (symmetry; apply N.leb_gt; lia).
  replace (c =? 32)%N with false by (symmetry; apply N.eqb_neq; lia).
  replace (c =? 45)%N with false by (symmetry; apply N.eqb_neq; lia).
  replace (c =? 43)%N with false by (symmetry; apply N.eqb_neq; lia).
  now rewrite andb_false_r.
Qed.

Lemma to_int_base10_exact_lemma s v :
  mod_to_int_base s 10 = Some v <-> (decimal_numeral (cstr s) v /\ in64 v /\ v <> YR_UNDEFINED).
Proof.
  unfold mod_to_int_base. change (arg_def 10) with true. change (base_ok 10) with true. cbn [andb].
  set (cs := cstr s).
  split.
  - destruct (string_to_int s 10) as [v'|] eqn:E; [|discriminate].
    unfold ret_int. destruct (v' =? YR_UNDEFINED) eqn:Eu; [discriminate|]. intros H. injection H as ->.
    apply Z.eqb_neq in Eu.
    apply string_to_int_accepted in E. fold cs in E. unfold strtoll in E.
    destruct (skip_space_split cs) as (ws & Hcs & Hws).
    destruct (skip_space cs) as [|c r] eqn:Es.
    + apply body10_accepted in E as (_ & Hne & _). congruence.
    + destruct (c =? 45)%N eqn:E45; [|destruct (c =? 43)%N eqn:E43].
      * apply N.eqb_eq in E45. subst c. apply body10_accepted in E as (Hd & Hne & Hv & Hin).
        split; [|now split]. exists ws, [45%N], r. repeat split; try assumption. now right; right.
      * apply N.eqb_eq in E43. subst c. apply body10_accepted in E as (Hd & Hne & Hv & Hin).
        split; [|now split]. exists ws, [43%N], r. repeat split; try assumption. now right; left.
      * apply body10_accepted in E as (Hd & Hne & Hv & Hin).
        split; [|now split]. exists ws, [], (c :: r). repeat split; try assumption. now left.
  - intros ((ws & sg & ds & Hcs & Hws & Hsg & Hne & Hd & Hv) & Hin & Hu).
    assert (E : string_to_int s 10 = Some v).
    { apply string_to_int_accepted. fold cs. unfold strtoll. rewrite Hcs.
      destruct ds as [|d0 dr]; [congruence|].
      pose proof Hd as Hd'. cbn [forallb] in Hd'. apply andb_true_iff in Hd' as [Hd0 _].
      destruct (dec_not_space d0 Hd0) as (Hs0 & H45 & H43).
      destruct Hsg as [ Hsg | [ Hsg | Hsg ] ]; subst sg; cbn [app].
      - rewrite skip_space_app by assumption. rewrite H45, H43.
        apply body10_accepted. cbn [bytes_eqb] in Hv. exact (conj Hd (conj Hne (conj Hv Hin))).
      - rewrite skip_space_app by (try assumption; reflexivity). cbn [N.eqb Pos.eqb].
        apply body10_accepted. cbn [bytes_eqb N.eqb Pos.eqb andb] in Hv. exact (conj Hd (conj Hne (conj Hv Hin))).
      - rewrite skip_space_app by (try assumption; reflexivity). cbn [N.eqb Pos.eqb].
        apply body10_accepted. cbn [bytes_eqb N.eqb Pos.eqb andb] in Hv. exact (conj Hd (conj Hne (conj Hv Hin))). }
    rewrite E. unfold ret_int. apply Z.eqb_neq in Hu. now rewrite Hu.
Qed.

Example ex_decimal_numeral : decimal_numeral [32; 45; 52; 50]%N (-42) /\ in64 (-42) /\ -42 <> YR_UNDEFINED.
Proof.
  split; [|split; [unfold in64, INT64_MIN, INT64_MAX; lia|discriminate]].
  exists [32%N], [45%N], [52; 50]%N. repeat split; try reflexivity; try discriminate. now right; right.
Qed.

(* ================================================================== 11. math.monte_carlo_pi: integer core *)
Local Open Scope N_scope.

Lemma mc_update_app s a b : mc_update (mc_update s a) b = mc_update s (a ++ b).
Proof. unfold mc_update. now rewrite fold_left_app. Qed.

Lemma data_monte_carlo_exact fixd bs off len :
  data_monte_carlo fixd bs off len = option_map mc_counts (addressed fixd bs off len).
Proof.
  unfold data_monte_carlo, mc_counts.
  rewrite (range_walk_generic mc_update fixd mc_update_app (fun _ => eq_refl)).
  now destruct (addressed fixd bs off len).
Qed.

Lemma mc_update_six a b c d e f r m i :
  mc_update ([], m, i) (a :: b :: c :: d :: e :: f :: r) =
  mc_update ([], m + 1, if mc_hit a b c d e f then i + 1 else i) r.
Proof. reflexivity. Qed.

Lemma mc_update_spec n : forall l m i, (length l <= n)%nat ->
  let '(_, m', i') := mc_update ([], m, i) l in (m', i') = (m + fst (mc_spec l), i + snd (mc_spec l)).
Proof.
  induction n as [|n IH]; intros l m i Hl.
  - destruct l; [|cbn in Hl; lia]. cbn. now rewrite !N.add_0_r.
  - destruct l as [|a [|b [|c [|d [|e [|f r]]]]]]; try (cbn; now rewrite !N.add_0_r).
    rewrite mc_update_six. cbn [mc_spec].
    specialize (IH r (m + 1) (if mc_hit a b c d e f then i + 1 else i)).
    destruct (mc_update ([], m + 1, if mc_hit a b c d e f then i + 1 else i) r) as [[p' m'] i'].
    rewrite IH by (cbn [length] in Hl; lia).
    destruct (mc_spec r) as [ms is_]. cbn [fst snd].
    destruct (mc_hit a b c d e f); f_equal; lia.
Qed.

Lemma mc_counts_spec l : mc_counts l = mc_spec l.
Proof.
  unfold mc_counts, mc0. pose proof (mc_update_spec (length l) l 0 0 (le_n _)) as H.
  destruct (mc_update ([], 0, 0) l) as [[p m] i]. rewrite H. rewrite !N.add_0_l. now destruct (mc_spec l).
Qed.

(* the number of complete groups *)
Lemma mc_spec_count n : forall l, (length l <= n)%nat -> fst (mc_spec l) = N.of_nat (length l / 6).
Proof.
  induction n as [|n IH]; intros l Hl.
  - destruct l; [reflexivity|cbn in Hl; lia].
  - destruct l as [|a [|b [|c [|d [|e [|f r]]]]]]; try reflexivity.
    cbn [mc_spec]. specialize (IH r ltac:(cbn [length] in Hl; lia)).
    destruct (mc_spec r) as [ms is_]. cbn [fst] in *. rewrite IH.
    change (length (a :: b :: c :: d :: e :: f :: r)) with (6 + length r)%nat.
    replace (6 + length r)%nat with (length r + 1 * 6)%nat by lia.
    rewrite Nat.div_add by lia. lia.
Qed.

Example ex_mc_on_circle :   (* points exactly on the circle are hits; one step outside is not; trailing bytes are ignored *)
  mc_counts [255; 255; 255; 0; 0; 0] = (1, 1) /\ mc_counts [153; 153; 153; 204; 204; 204; 7; 7] = (1, 1) /\
  mc_counts [255; 255; 255; 0; 0; 1] = (1, 0) /\ mc_counts [153; 153; 154; 204; 204; 204] = (1, 0) /\
  mc_counts [255; 255; 254; 0; 0; 0; 255; 255; 255; 255; 255; 255] = (2, 1) /\ mc_counts [1; 2; 3; 4; 5] = (0, 0).
Proof. repeat split. Qed.
