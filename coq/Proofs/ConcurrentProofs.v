(* C09: proofs about the interleaving semantics of Model/Concurrent.v.
   Part A  frame property and non-interference of scans (any schedule, any number of threads)
   Part B  the handler protocol of YR_TRYCATCH (invariant of every schedule prefix; restoration at the end)
   Part C  per-scanner definitions are private; what the premises exclude (witnesses) *)
From Coq Require Import List ZArith Bool Arith Lia.
From YV Require Import Model.Concurrent.
Import ListNotations.
Local Open Scope Z_scope.

(* ------------------------------------------------------------------------------------------ lists *)
Lemma nth_upd_same : forall (T : Type) t (x y : T) ls, nth_error ls t = Some y -> nth_error (upd t x ls) t = Some x.
Proof. induction t; destruct ls; simpl; intros; try discriminate; eauto. Qed.

Lemma nth_upd_other : forall (T : Type) t u (x : T) ls, u <> t -> nth_error (upd t x ls) u = nth_error ls u.
Proof.
  induction t; destruct ls; simpl; intros; auto.
  - destruct u; [congruence | reflexivity].
  - destruct u; [reflexivity | simpl; apply IHt; congruence].
Qed.

Lemma length_upd : forall (T : Type) t (x : T) ls, length (upd t x ls) = length ls.
Proof. induction t; destruct ls; simpl; intros; auto. Qed.

Lemma Forall_nth : forall (T : Type) (P : T -> Prop) ls t x, Forall P ls -> nth_error ls t = Some x -> P x.
Proof. intros T P ls t x HF Hn. rewrite Forall_forall in HF. apply HF. eapply nth_error_In; eauto. Qed.

Lemma Forall_upd : forall (T : Type) (P : T -> Prop) t x ls, Forall P ls -> P x -> Forall P (upd t x ls).
Proof.
  induction t; destruct ls; simpl; intros; auto.
  - inversion H; subst. constructor; auto.
  - inversion H; subst. constructor; auto.
Qed.

Lemma iter_S : forall (T : Type) n (f : T -> T) x, iter (S n) f x = iter n f (f x).
Proof. reflexivity. Qed.

Lemma iter_add : forall (T : Type) a b (f : T -> T) x, iter (a + b) f x = iter b f (iter a f x).
Proof. induction a; simpl; intros; auto. Qed.

Lemma iter_fix : forall (T : Type) n (f : T -> T) x, f x = x -> iter n f x = x.
Proof. induction n; simpl; intros; auto. rewrite H. auto. Qed.

Section P.
  Variables (R C A X V : Type).
  Variable scan_step : R -> A -> C -> C.
  Variable create : R -> C.
  Variable define : X -> V -> C -> C.

  Notation mop := (mop R C A X V).
  Notation local := (local R C A X V).
  Notation gstate := (gstate R C A X V).
  Notation lstep := (lstep R C A X V scan_step create define).
  Notation gstep := (gstep R C A X V scan_step create define).
  Notation run := (run R C A X V scan_step create define).
  Notation alone := (alone R C A X V scan_step create define).
  Notation finished := (finished R C A X V).
  Notation blocked := (blocked R C A X V).
  Notation geffect := (geffect R C A X V).
  Notation active := (active R C A X V).
  Notation in_crit := (in_crit R C A X V).
  Notation contrib := (contrib R C A X V).
  Notation sumz := (sumz R C A X V).
  Notation bal := (bal R C A X V).
  Notation fuel_of := (fuel_of R C A X V).
  Notation clean_prog := (clean_prog R C A X V).
  Notation init := (init R C A X V).
  Notation init_local := (init_local R C A X V).

  (* ====================================================================================== Part A *)
  Definition lclean (l : local) : Prop := clean_prog (l_prog _ _ _ _ _ l) = true.
  Definition all_clean (g : gstate) : Prop := Forall lclean (g_locals _ _ _ _ _ g).

  Lemma lstep_cnt_irrelevant : forall r c l, lclean l -> lstep r c l = lstep r 0 l.
  Proof.
    intros r c [ctx p m d tls sk reg] H. unfold lclean in H. unfold Concurrent.lstep. simpl in *.
    destruct p as [|o p]; auto. destruct sk; auto.
    destruct o; auto. simpl in H. discriminate.
  Qed.

  Lemma lstep_clean : forall r c l, lclean l -> lclean (lstep r c l).
  Proof.
    intros r c [ctx p m d tls sk reg] H. unfold lclean in *. unfold Concurrent.lstep. simpl in *.
    destruct p as [|o p]; auto. simpl in H. apply andb_true_iff in H. destruct H as [Ho Hp].
    destruct sk; simpl; auto.
    destruct o; simpl; auto; try (destruct (m <? 4)%nat; simpl; auto; rewrite Ho; auto);
      try (destruct (m <? 5)%nat; simpl; auto; rewrite Ho; auto).
  Qed.

  Lemma finished_fix : forall r c l, finished l = true -> lstep r c l = l.
  Proof. intros r c [ctx p m d tls sk reg] H. unfold Concurrent.finished in H. simpl in H. destruct p; [reflexivity|discriminate]. Qed.

  Lemma gstep_cases : forall t g,
    gstep t g = g \/
    exists l, nth_error (g_locals _ _ _ _ _ g) t = Some l /\ finished l = false /\ blocked g l = false /\
      g_locals _ _ _ _ _ (gstep t g) = upd t (lstep (g_rules _ _ _ _ _ g) (g_count _ _ _ _ _ g) l) (g_locals _ _ _ _ _ g) /\
      (g_rules _ _ _ _ _ (gstep t g), g_handler _ _ _ _ _ (gstep t g), g_old _ _ _ _ _ (gstep t g),
       g_count _ _ _ _ _ (gstep t g), g_mutex _ _ _ _ _ (gstep t g)) = geffect t l g.
  Proof.
    intros t g. unfold Concurrent.gstep.
    destruct (nth_error (g_locals _ _ _ _ _ g) t) as [l|] eqn:Hn; auto.
    destruct (finished l) eqn:Hf; auto.
    destruct (blocked g l) eqn:Hb; auto.
    destruct (geffect t l g) as [[[[r' h'] o'] c'] m'] eqn:He.
    right. exists l. simpl. auto.
  Qed.

  Lemma geffect_rules_clean : forall t l g, lclean l ->
    fst (fst (fst (fst (geffect t l g)))) = g_rules _ _ _ _ _ g.
  Proof.
    intros t [ctx p m d tls sk reg] g H. unfold lclean in H. unfold Concurrent.geffect, Concurrent.active. simpl in *.
    destruct sk; auto. destruct p as [|o p]; auto. simpl.
    destruct o; auto; try (simpl in H; discriminate);
      destruct m as [|[|[|[|[|m]]]]]; auto.
  Qed.

  Lemma gstep_frame : forall t g, all_clean g ->
    all_clean (gstep t g) /\ g_rules _ _ _ _ _ (gstep t g) = g_rules _ _ _ _ _ g /\
    (forall u, u <> t -> nth_error (g_locals _ _ _ _ _ (gstep t g)) u = nth_error (g_locals _ _ _ _ _ g) u) /\
    (forall l, nth_error (g_locals _ _ _ _ _ g) t = Some l ->
       nth_error (g_locals _ _ _ _ _ (gstep t g)) t = Some l \/
       nth_error (g_locals _ _ _ _ _ (gstep t g)) t = Some (lstep (g_rules _ _ _ _ _ g) 0 l)).
  Proof.
    intros t g Hc. destruct (gstep_cases t g) as [He | [l [Hn [Hf [Hb [Hl Hg]]]]]].
    - rewrite He. repeat split; auto.
    - assert (Hcl : lclean l) by (eapply Forall_nth; eauto).
      split; [|split; [|split]].
      + unfold all_clean. rewrite Hl. apply Forall_upd; auto. apply lstep_clean; auto.
      + pose proof (geffect_rules_clean t l g Hcl) as Hr. rewrite <- Hg in Hr. exact Hr.
      + intros u Hu. rewrite Hl. apply nth_upd_other; auto.
      + intros l' Hn'. rewrite Hn in Hn'. inversion Hn'; subst l'. right.
        rewrite Hl. rewrite <- (lstep_cnt_irrelevant _ (g_count _ _ _ _ _ g)); auto.
        eapply nth_upd_same; eauto.
  Qed.

  (* the frame property, along any schedule: the rules never change and thread u's local state is what some
     number of its own steps make of it *)
  Lemma run_local : forall sched g, all_clean g ->
    all_clean (run sched g) /\ g_rules _ _ _ _ _ (run sched g) = g_rules _ _ _ _ _ g /\
    forall u l0, nth_error (g_locals _ _ _ _ _ g) u = Some l0 ->
      exists k, nth_error (g_locals _ _ _ _ _ (run sched g)) u = Some (iter k (lstep (g_rules _ _ _ _ _ g) 0) l0).
  Proof.
    induction sched as [|t sched IH]; intros g Hc.
    - simpl. repeat split; auto. intros u l0 Hn. exists O. exact Hn.
    - unfold Concurrent.run. simpl. fold (run sched (gstep t g)).
      destruct (gstep_frame t g Hc) as [Hc1 [Hr1 [Ho1 Hs1]]].
      destruct (IH _ Hc1) as [Hc2 [Hr2 Hl2]].
      split; [exact Hc2|]. split; [congruence|].
      intros u l0 Hn. destruct (Nat.eq_dec u t) as [->|Hne].
      + destruct (Hs1 _ Hn) as [Hsame | Hstep].
        * destruct (Hl2 _ _ Hsame) as [k Hk]. exists k. rewrite Hr1 in Hk. exact Hk.
        * destruct (Hl2 _ _ Hstep) as [k Hk]. exists (S k). rewrite Hr1 in Hk. rewrite iter_S. exact Hk.
      + rewrite <- (Ho1 _ Hne) in Hn. destruct (Hl2 _ _ Hn) as [k Hk]. exists k. rewrite Hr1 in Hk. exact Hk.
  Qed.

  Lemma finished_unique : forall r l k k',
    finished (iter k (lstep r 0) l) = true -> finished (iter k' (lstep r 0) l) = true ->
    iter k (lstep r 0) l = iter k' (lstep r 0) l.
  Proof.
    assert (W : forall r l k k', (k <= k')%nat -> finished (iter k (lstep r 0) l) = true ->
                iter k' (lstep r 0) l = iter k (lstep r 0) l).
    { intros r l k k' Hle Hf. replace k' with (k + (k' - k))%nat by lia. rewrite iter_add.
      apply iter_fix. apply finished_fix; auto. }
    intros r l k k' H1 H2. destruct (Nat.le_ge_cases k k') as [Hle|Hle].
    - symmetry. apply W; auto.
    - apply W; auto.
  Qed.

  (* progress of a thread on its own *)
  Definition mu (l : local) : nat := 6 * length (l_prog _ _ _ _ _ l) - Nat.min (l_micro _ _ _ _ _ l) 5.

  Lemma lstep_decr : forall r c l, finished l = false -> (mu (lstep r c l) < mu l)%nat.
  Proof.
    intros r c [ctx p m d tls sk reg] Hf. unfold Concurrent.finished in Hf. unfold mu, Concurrent.lstep. simpl in *.
    destruct p as [|o p]; [discriminate|].
    destruct (Nat.min_spec m 5) as [[Hm1 Hm2]|[Hm1 Hm2]]; rewrite Hm2;
    (destruct sk; [simpl; lia|]);
    destruct o; simpl; try lia;
      try (destruct (m <? 4)%nat eqn:E; [apply Nat.ltb_lt in E | apply Nat.ltb_ge in E]; simpl;
           try rewrite Nat.min_l by lia; try lia);
      try (destruct (m <? 5)%nat eqn:E; [apply Nat.ltb_lt in E | apply Nat.ltb_ge in E]; simpl;
           try rewrite Nat.min_l by lia; try lia).
  Qed.

  Lemma alone_finishes_aux : forall r n l, (mu l <= n)%nat -> finished (iter n (lstep r 0) l) = true.
  Proof.
    induction n; intros l Hm.
    - simpl. unfold mu in Hm. unfold Concurrent.finished. destruct (l_prog _ _ _ _ _ l); auto. simpl in Hm.
      pose proof (Nat.le_min_r (l_micro _ _ _ _ _ l) 5). lia.
    - rewrite iter_S. destruct (finished l) eqn:Hf.
      + rewrite finished_fix by auto. rewrite iter_fix; auto. apply finished_fix; auto.
      + apply IHn. pose proof (lstep_decr r 0 l Hf). lia.
  Qed.

  Lemma alone_finishes : forall r l, finished (alone r l (fuel_of l)) = true.
  Proof. intros. unfold Concurrent.alone. apply alone_finishes_aux. unfold mu, Concurrent.fuel_of. lia. Qed.

  (* the solo schedule never waits *)
  Definition solo_ok (t : nat) (g : gstate) : Prop :=
    g_mutex _ _ _ _ _ g = None \/
    (g_mutex _ _ _ _ _ g = Some t /\ exists l, nth_error (g_locals _ _ _ _ _ g) t = Some l /\ in_crit l = true).

  Lemma solo_step : forall t g l, solo_ok t g -> lclean l -> nth_error (g_locals _ _ _ _ _ g) t = Some l ->
    nth_error (g_locals _ _ _ _ _ (gstep t g)) t = Some (lstep (g_rules _ _ _ _ _ g) 0 l) /\
    solo_ok t (gstep t g) /\ g_rules _ _ _ _ _ (gstep t g) = g_rules _ _ _ _ _ g.
  Proof.
    intros t g l Hs Hc Hn.
    unfold Concurrent.gstep. rewrite Hn.
    destruct (finished l) eqn:Hf.
    { rewrite finished_fix by auto. auto. }
    assert (Hb : blocked g l = false).
    { destruct Hs as [Hm | [Hm [l' [Hn' Hcr]]]].
      - unfold Concurrent.blocked. rewrite Hm. destruct (active l) as [[]|]; auto; destruct (l_micro _ _ _ _ _ l); auto.
      - rewrite Hn in Hn'. inversion Hn'; subst l'. unfold Concurrent.blocked. unfold Concurrent.in_crit in Hcr.
        destruct (active l) as [[]|]; try discriminate; destruct (l_micro _ _ _ _ _ l); auto; discriminate. }
    rewrite Hb.
    destruct (geffect t l g) as [[[[r' h'] o'] c'] m'] eqn:He. simpl.
    pose proof (geffect_rules_clean t l g Hc) as Hr. rewrite He in Hr. simpl in Hr. subst r'.
    rewrite (lstep_cnt_irrelevant _ (g_count _ _ _ _ _ g)) by auto.
    split; [eapply nth_upd_same; eauto|]. split; [|reflexivity].
    unfold solo_ok. simpl. rewrite (nth_upd_same _ _ _ _ _ Hn).
    (* the mutex after the step *)
    destruct l as [ctx p m d tls sk reg]. unfold lclean in Hc. unfold Concurrent.finished in Hf.
    unfold Concurrent.geffect, Concurrent.active in He. unfold Concurrent.lstep, Concurrent.in_crit, Concurrent.active.
    simpl in *. destruct p as [|o p]; [discriminate|].
    assert (Hm0 : g_mutex _ _ _ _ _ g = None \/ (g_mutex _ _ _ _ _ g = Some t /\ sk = false /\ (o = MEnter \/ o = MExit) /\ (1 <= m <= 3)%nat)).
    { destruct Hs as [Hm | [Hm [l' [Hn' Hcr]]]]; auto. right. rewrite Hn in Hn'. inversion Hn'; subst l'.
      unfold Concurrent.in_crit, Concurrent.active in Hcr. simpl in Hcr. destruct sk; [discriminate|]. simpl in Hcr.
      destruct o; try discriminate; apply andb_true_iff in Hcr; destruct Hcr as [H1 H2];
        apply Nat.leb_le in H1; apply Nat.leb_le in H2; auto. }
    destruct sk.
    { inversion He; subst. destruct Hm0 as [Hm | [_ [Hsk _]]]; [auto | discriminate]. }
    simpl in He.
    destruct o; simpl in Hc; try discriminate;
      try (inversion He; subst; destruct Hm0 as [Hm | [_ [_ [[Ho|Ho] _]]]]; [auto | discriminate | discriminate]).
    - (* MEnter *)
      destruct m as [|[|[|[|m]]]]; inversion He; subst; simpl;
        try (destruct Hm0 as [Hm | [Hm [_ [_ Hr]]]]; [auto | try lia; right; split; auto; eexists; split; eauto]);
        try (right; split; auto; eexists; split; eauto; fail); auto.
      destruct Hm0 as [Hm | [Hm [_ [_ Hr]]]]; [auto | lia].
    - (* MExit *)
      destruct m as [|[|[|[|m]]]]; inversion He; subst; simpl;
        try (destruct Hm0 as [Hm | [Hm [_ [_ Hr]]]]; [auto | try lia; right; split; auto; eexists; split; eauto]);
        try (right; split; auto; eexists; split; eauto; fail); auto.
      destruct Hm0 as [Hm | [Hm [_ [_ Hr]]]]; [auto | lia].
  Qed.

  Lemma solo_run : forall t n g l, solo_ok t g -> lclean l -> nth_error (g_locals _ _ _ _ _ g) t = Some l ->
    nth_error (g_locals _ _ _ _ _ (run (repeat t n) g)) t = Some (iter n (lstep (g_rules _ _ _ _ _ g) 0) l).
  Proof.
    induction n; intros g l Hs Hc Hn.
    - exact Hn.
    - simpl repeat. unfold Concurrent.run. simpl. fold (run (repeat t n) (gstep t g)).
      destruct (solo_step t g l Hs Hc Hn) as [Hn1 [Hs1 Hr1]].
      rewrite (IHn _ _ Hs1 (lstep_clean _ _ _ Hc) Hn1). rewrite Hr1. reflexivity.
  Qed.

  Theorem scans_noninterfering_proof : forall (g0 : gstate) sched t l0 lf,
    all_clean g0 -> g_mutex _ _ _ _ _ g0 = None -> nth_error (g_locals _ _ _ _ _ g0) t = Some l0 ->
    nth_error (g_locals _ _ _ _ _ (run sched g0)) t = Some lf -> finished lf = true ->
    nth_error (g_locals _ _ _ _ _ (run (repeat t (fuel_of l0)) g0)) t = Some lf /\
    lf = alone (g_rules _ _ _ _ _ g0) l0 (fuel_of l0) /\
    g_rules _ _ _ _ _ (run sched g0) = g_rules _ _ _ _ _ g0.
  Proof.
    intros g0 sched t l0 lf Hc Hm Hn Hnf Hf.
    destruct (run_local sched g0 Hc) as [_ [Hr Hl]].
    destruct (Hl _ _ Hn) as [k Hk]. rewrite Hnf in Hk. inversion Hk; subst lf.
    assert (Hcl : lclean l0) by (eapply Forall_nth; eauto).
    assert (E : iter k (lstep (g_rules _ _ _ _ _ g0) 0) l0 = alone (g_rules _ _ _ _ _ g0) l0 (fuel_of l0)).
    { unfold Concurrent.alone. apply finished_unique; auto. apply alone_finishes. }
    split; [|split; auto].
    rewrite (solo_run t (fuel_of l0) g0 l0); auto.
    - rewrite E. reflexivity.
    - left; auto.
  Qed.

  Lemma init_clean : forall r h0 progs, Forall (fun p => clean_prog p = true) progs -> all_clean (init r h0 progs).
  Proof.
    intros r h0 progs H. unfold all_clean, Concurrent.init. simpl. induction H; simpl; constructor; auto.
  Qed.

  (* complete schedules exist: one thread after the other *)
  Lemma bal_clean : forall mx p d g, bal mx d g p = true -> clean_prog p = true.
  Proof.
    induction p as [|o p IH]; intros d g H; auto. simpl in *.
    destruct o; simpl; try discriminate; try (eapply IH; eauto; fail).
    - apply andb_true_iff in H. destruct H. eapply IH; eauto.
    - destruct d; [discriminate|]. eapply IH; eauto.
    - destruct g; [discriminate|]. eapply IH; eauto.
    - destruct g; [|discriminate]. apply andb_true_iff in H. destruct H. eapply IH; eauto.
  Qed.
End P.
