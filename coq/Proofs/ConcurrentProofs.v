(* C09: proofs about the interleaving semantics of Model/Concurrent.v.
   Part A  frame property and non-interference of scans (any schedule, any number of threads)
   Part B  the handler protocol of YR_TRYCATCH (invariant of every schedule prefix; restoration at the end)
   Part C  per-scanner definitions are private; what the premises exclude (witnesses) *)
From Coq Require Import List ZArith Bool Arith Lia.
From YV Require Import Model.Concurrent.
Import ListNotations.
Local Open Scope Z_scope.

(* ------------------------------------------------------------------------------------------ lists *)
Lemma nth_upd_same : forall (T : Type) t (x y : T) ls, nth_error ls t = Some y -> nth_error (upd t x ls) t = Some x.
Proof. induction t; destruct ls; simpl; intros; try discriminate; eauto. Qed.

Lemma nth_upd_other : forall (T : Type) t u (x : T) ls, u <> t -> nth_error (upd t x ls) u = nth_error ls u.
Proof.
  induction t; destruct ls; simpl; intros; auto.
  - destruct u; [congruence | reflexivity].
  - destruct u; [reflexivity | simpl; apply IHt; congruence].
Qed.

Lemma length_upd : forall (T : Type) t (x : T) ls, length (upd t x ls) = length ls.
Proof. induction t; destruct ls; simpl; intros; auto. Qed.

Lemma Forall_nth : forall (T : Type) (P : T -> Prop) ls t x, Forall P ls -> nth_error ls t = Some x -> P x.
Proof. intros T P ls t x HF Hn. rewrite Forall_forall in HF. apply HF. eapply nth_error_In; eauto. Qed.

Lemma Forall_upd : forall (T : Type) (P : T -> Prop) t x ls, Forall P ls -> P x -> Forall P (upd t x ls).
Proof.
  induction t; destruct ls; simpl; intros; auto.
  - inversion H; subst. constructor; auto.
  - inversion H; subst. constructor; auto.
Qed.

Lemma iter_S : forall (T : Type) n (f : T -> T) x, iter (S n) f x = iter n f (f x).
Proof. reflexivity. Qed.

Lemma iter_add : forall (T : Type) a b (f : T -> T) x, iter (a + b) f x = iter b f (iter a f x).
Proof. induction a; simpl; intros; auto. Qed.

Lemma iter_fix : forall (T : Type) n (f : T -> T) x, f x = x -> iter n f x = x.
Proof. induction n; simpl; intros; auto. rewrite H. auto. Qed.

Section P.
  Variables (R C A X V : Type).
  Variable scan_step : R -> A -> C -> C.
  Variable create : R -> C.
  Variable define : X -> V -> C -> C.

  Notation mop := (mop R C A X V).
  Notation local := (local R C A X V).
  Notation gstate := (gstate R C A X V).
  Notation lstep := (lstep R C A X V scan_step create define).
  Notation gstep := (gstep R C A X V scan_step create define).
  Notation run := (run R C A X V scan_step create define).
  Notation alone := (alone R C A X V scan_step create define).
  Notation finished := (finished R C A X V).
  Notation blocked := (blocked R C A X V).
  Notation geffect := (geffect R C A X V).
  Notation active := (active R C A X V).
  Notation in_crit := (in_crit R C A X V).
  Notation contrib := (contrib R C A X V).
  Notation sumz := (sumz R C A X V).
  Notation bal := (bal R C A X V).
  Notation fuel_of := (fuel_of R C A X V).
  Notation clean_prog := (clean_prog R C A X V).
  Notation init := (init R C A X V).
  Notation init_local := (init_local R C A X V).

  (* ====================================================================================== Part A *)
  Definition lclean (l : local) : Prop := clean_prog (l_prog _ _ _ _ _ l) = true.
  Definition all_clean (g : gstate) : Prop := Forall lclean (g_locals _ _ _ _ _ g).

  Lemma lstep_cnt_irrelevant : forall r c l, lclean l -> lstep r c l = lstep r 0 l.
  Proof.
    intros r c [ctx p m d tls sk reg] H. unfold lclean in H. unfold Concurrent.lstep. simpl in *.
    destruct p as [|o p]; auto. destruct sk; auto.
    destruct o; auto. simpl in H. discriminate.
  Qed.

  Lemma lstep_clean : forall r c l, lclean l -> lclean (lstep r c l).
  Proof.
    intros r c [ctx p m d tls sk reg] H. unfold lclean in *. unfold Concurrent.lstep. simpl in *.
    destruct p as [|o p]; auto. simpl in H. apply andb_true_iff in H. destruct H as [Ho Hp].
    destruct sk; simpl; auto.
    destruct o; simpl; auto; try (destruct (m <? 4)%nat; simpl; auto; rewrite Ho; auto);
      try (destruct (m <? 5)%nat; simpl; auto; rewrite Ho; auto).
  Qed.

  Lemma finished_fix : forall r c l, finished l = true -> lstep r c l = l.
  Proof. intros r c [ctx p m d tls sk reg] H. unfold Concurrent.finished in H. simpl in H. destruct p; [reflexivity|discriminate]. Qed.

  Lemma gstep_cases : forall t g,
    gstep t g = g \/
    exists l, nth_error (g_locals _ _ _ _ _ g) t = Some l /\ finished l = false /\ blocked g l = false /\
      g_locals _ _ _ _ _ (gstep t g) = upd t (lstep (g_rules _ _ _ _ _ g) (g_count _ _ _ _ _ g) l) (g_locals _ _ _ _ _ g) /\
      (g_rules _ _ _ _ _ (gstep t g), g_handler _ _ _ _ _ (gstep t g), g_old _ _ _ _ _ (gstep t g),
       g_count _ _ _ _ _ (gstep t g), g_mutex _ _ _ _ _ (gstep t g)) = geffect t l g.
  Proof.
    intros t g. unfold Concurrent.gstep.
    destruct (nth_error (g_locals _ _ _ _ _ g) t) as [l|] eqn:Hn; auto.
    destruct (finished l) eqn:Hf; auto.
    destruct (blocked g l) eqn:Hb; auto.
    destruct (geffect t l g) as [[[[r' h'] o'] c'] m'] eqn:He.
    right. exists l. simpl. auto.
  Qed.

  Lemma geffect_rules_clean : forall t l g, lclean l ->
    fst (fst (fst (fst (geffect t l g)))) = g_rules _ _ _ _ _ g.
  Proof.
    intros t [ctx p m d tls sk reg] g H. unfold lclean in H. unfold Concurrent.geffect, Concurrent.active. simpl in *.
    destruct sk; auto. destruct p as [|o p]; auto. simpl.
    destruct o; auto; try (simpl in H; discriminate);
      destruct m as [|[|[|[|[|m]]]]]; auto.
  Qed.

  Lemma gstep_frame : forall t g, all_clean g ->
    all_clean (gstep t g) /\ g_rules _ _ _ _ _ (gstep t g) = g_rules _ _ _ _ _ g /\
    (forall u, u <> t -> nth_error (g_locals _ _ _ _ _ (gstep t g)) u = nth_error (g_locals _ _ _ _ _ g) u) /\
    (forall l, nth_error (g_locals _ _ _ _ _ g) t = Some l ->
       nth_error (g_locals _ _ _ _ _ (gstep t g)) t = Some l \/
       nth_error (g_locals _ _ _ _ _ (gstep t g)) t = Some (lstep (g_rules _ _ _ _ _ g) 0 l)).
  Proof.
    intros t g Hc. destruct (gstep_cases t g) as [He | [l [Hn [Hf [Hb [Hl Hg]]]]]].
    - rewrite He. repeat split; auto.
    - assert (Hcl : lclean l) by (eapply Forall_nth; eauto).
      split; [|split; [|split]].
      + unfold all_clean. rewrite Hl. apply Forall_upd; auto. apply lstep_clean; auto.
      + pose proof (geffect_rules_clean t l g Hcl) as Hr. rewrite <- Hg in Hr. exact Hr.
      + intros u Hu. rewrite Hl. apply nth_upd_other; auto.
      + intros l' Hn'. rewrite Hn in Hn'. inversion Hn'; subst l'. right.
        rewrite Hl. rewrite <- (lstep_cnt_irrelevant _ (g_count _ _ _ _ _ g)); auto.
        eapply nth_upd_same; eauto.
  Qed.

  (* the frame property, along any schedule: the rules never change and thread u's local state is what some
     number of its own steps make of it *)
  Lemma run_local : forall sched g, all_clean g ->
    all_clean (run sched g) /\ g_rules _ _ _ _ _ (run sched g) = g_rules _ _ _ _ _ g /\
    forall u l0, nth_error (g_locals _ _ _ _ _ g) u = Some l0 ->
      exists k, nth_error (g_locals _ _ _ _ _ (run sched g)) u = Some (iter k (lstep (g_rules _ _ _ _ _ g) 0) l0).
  Proof.
    induction sched as [|t sched IH]; intros g Hc.
    - simpl. repeat split; auto. intros u l0 Hn. exists O. exact Hn.
    - unfold Concurrent.run. simpl. fold (run sched (gstep t g)).
      destruct (gstep_frame t g Hc) as [Hc1 [Hr1 [Ho1 Hs1]]].
      destruct (IH _ Hc1) as [Hc2 [Hr2 Hl2]].
      split; [exact Hc2|]. split; [congruence|].
      intros u l0 Hn. destruct (Nat.eq_dec u t) as [->|Hne].
      + destruct (Hs1 _ Hn) as [Hsame | Hstep].
        * destruct (Hl2 _ _ Hsame) as [k Hk]. exists k. rewrite Hr1 in Hk. exact Hk.
        * destruct (Hl2 _ _ Hstep) as [k Hk]. exists (S k). rewrite Hr1 in Hk. rewrite iter_S. exact Hk.
      + rewrite <- (Ho1 _ Hne) in Hn. destruct (Hl2 _ _ Hn) as [k Hk]. exists k. rewrite Hr1 in Hk. exact Hk.
  Qed.

  Lemma finished_unique : forall r l k k',
    finished (iter k (lstep r 0) l) = true -> finished (iter k' (lstep r 0) l) = true ->
    iter k (lstep r 0) l = iter k' (lstep r 0) l.
  Proof.
    assert (W : forall r l k k', (k <= k')%nat -> finished (iter k (lstep r 0) l) = true ->
                iter k' (lstep r 0) l = iter k (lstep r 0) l).
    { intros r l k k' Hle Hf. replace k' with (k + (k' - k))%nat by lia. rewrite iter_add.
      apply iter_fix. apply finished_fix; auto. }
    intros r l k k' H1 H2. destruct (Nat.le_ge_cases k k') as [Hle|Hle].
    - symmetry. apply W; auto.
    - apply W; auto.
  Qed.

  (* progress of a thread on its own *)
  Definition mu (l : local) : nat := 6 * length (l_prog _ _ _ _ _ l) - Nat.min (l_micro _ _ _ _ _ l) 5.

  Lemma lstep_decr : forall r c l, finished l = false -> (mu (lstep r c l) < mu l)%nat.
  Proof.
    intros r c [ctx p m d tls sk reg] Hf. unfold Concurrent.finished in Hf. cbn [l_prog] in Hf.
    destruct p as [|o p]; [discriminate|].
    unfold mu, Concurrent.lstep. cbn [l_prog l_micro l_skip].
    destruct sk; [cbn [l_prog l_micro length]; lia|].
    destruct o; cbn [l_prog l_micro length]; try lia.
    - destruct (m <? 4)%nat eqn:E; [apply Nat.ltb_lt in E | apply Nat.ltb_ge in E]; cbn [l_prog l_micro length]; lia.
    - destruct (m <? 4)%nat eqn:E; [apply Nat.ltb_lt in E | apply Nat.ltb_ge in E]; cbn [l_prog l_micro length]; lia.
    - destruct (m <? 5)%nat eqn:E; [apply Nat.ltb_lt in E | apply Nat.ltb_ge in E]; cbn [l_prog l_micro length]; lia.
  Qed.

  Lemma alone_finishes_aux : forall r n l, (mu l <= n)%nat -> finished (iter n (lstep r 0) l) = true.
  Proof.
    induction n; intros l Hm.
    - simpl. unfold mu in Hm. unfold Concurrent.finished. destruct (l_prog _ _ _ _ _ l); auto. cbn [length] in Hm.
      pose proof (Nat.le_min_r (l_micro _ _ _ _ _ l) 5). lia.
    - rewrite iter_S. destruct (finished l) eqn:Hf.
      + rewrite finished_fix by auto. rewrite iter_fix; auto. apply finished_fix; auto.
      + apply IHn. pose proof (lstep_decr r 0 l Hf). lia.
  Qed.

  Lemma alone_finishes : forall r l, finished (alone r l (fuel_of l)) = true.
  Proof. intros. unfold Concurrent.alone. apply alone_finishes_aux. unfold mu, Concurrent.fuel_of. lia. Qed.

  (* the solo schedule never waits *)
  Definition solo_ok (t : nat) (g : gstate) : Prop :=
    g_mutex _ _ _ _ _ g = None \/
    (g_mutex _ _ _ _ _ g = Some t /\ exists l, nth_error (g_locals _ _ _ _ _ g) t = Some l /\ in_crit l = true).

  Lemma solo_step : forall t g l, solo_ok t g -> lclean l -> nth_error (g_locals _ _ _ _ _ g) t = Some l ->
    nth_error (g_locals _ _ _ _ _ (gstep t g)) t = Some (lstep (g_rules _ _ _ _ _ g) 0 l) /\
    solo_ok t (gstep t g) /\ g_rules _ _ _ _ _ (gstep t g) = g_rules _ _ _ _ _ g.
  Proof.
    intros t g l Hs Hc Hn.
    unfold Concurrent.gstep. rewrite Hn.
    destruct (finished l) eqn:Hf.
    { rewrite finished_fix by auto. auto. }
    assert (Hb : blocked g l = false).
    { destruct Hs as [Hm | [Hm [l' [Hn' Hcr]]]].
      - unfold Concurrent.blocked. rewrite Hm. destruct (active l) as [[]|]; auto; destruct (l_micro _ _ _ _ _ l); auto.
      - rewrite Hn in Hn'. inversion Hn'; subst l'. unfold Concurrent.blocked. unfold Concurrent.in_crit in Hcr.
        destruct (active l) as [[]|]; try discriminate; destruct (l_micro _ _ _ _ _ l); auto; discriminate. }
    rewrite Hb.
    destruct (geffect t l g) as [[[[r' h'] o'] c'] m'] eqn:He. simpl.
    pose proof (geffect_rules_clean t l g Hc) as Hr. rewrite He in Hr. simpl in Hr. subst r'.
    rewrite (lstep_cnt_irrelevant _ (g_count _ _ _ _ _ g)) by auto.
    split; [eapply nth_upd_same; eauto|]. split; [|reflexivity].
    unfold solo_ok. simpl. rewrite (nth_upd_same _ _ _ _ _ Hn).
    (* the mutex after the step *)
    destruct l as [ctx p m d tls sk reg]. unfold lclean in Hc. unfold Concurrent.finished in Hf.
    unfold Concurrent.geffect, Concurrent.active in He. unfold Concurrent.lstep, Concurrent.in_crit, Concurrent.active.
    simpl in *. destruct p as [|o p]; [discriminate|].
    assert (Hm0 : g_mutex _ _ _ _ _ g = None \/ (g_mutex _ _ _ _ _ g = Some t /\ sk = false /\ (o = MEnter \/ o = MExit) /\ (1 <= m <= 3)%nat)).
    { destruct Hs as [Hm | [Hm [l' [Hn' Hcr]]]]; auto. right. rewrite Hn in Hn'. inversion Hn'; subst l'.
      unfold Concurrent.in_crit, Concurrent.active in Hcr. cbn [l_skip l_prog l_micro hd_error] in Hcr.
      destruct sk; [discriminate|]. cbn [hd_error] in Hcr.
      destruct o; try discriminate; apply andb_true_iff in Hcr; destruct Hcr as [H1 H2];
        apply Nat.leb_le in H1; apply Nat.leb_le in H2; auto. }
    destruct sk.
    { inversion He; subst. destruct Hm0 as [Hm | [_ [Hsk _]]]; [auto | discriminate]. }
    simpl in He.
    destruct o; simpl in Hc; try discriminate;
      try (inversion He; subst; destruct Hm0 as [Hm | [_ [_ [[Ho|Ho] _]]]]; [auto | discriminate | discriminate]).
    - (* MEnter *)
      destruct m as [|[|[|[|m]]]]; inversion He; subst; simpl;
        try (destruct Hm0 as [Hm | [Hm [_ [_ Hr]]]]; [auto | try lia; right; split; auto; eexists; split; eauto]);
        try (right; split; auto; eexists; split; eauto; fail); auto.
    - (* MExit *)
      destruct m as [|[|[|[|m]]]]; inversion He; subst; simpl;
        try (destruct Hm0 as [Hm | [Hm [_ [_ Hr]]]]; [auto | try lia; right; split; auto; eexists; split; eauto]);
        try (right; split; auto; eexists; split; eauto; fail); auto.
  Qed.

  Lemma solo_run : forall t n g l, solo_ok t g -> lclean l -> nth_error (g_locals _ _ _ _ _ g) t = Some l ->
    nth_error (g_locals _ _ _ _ _ (run (repeat t n) g)) t = Some (iter n (lstep (g_rules _ _ _ _ _ g) 0) l).
  Proof.
    induction n; intros g l Hs Hc Hn.
    - exact Hn.
    - simpl repeat. unfold Concurrent.run. simpl. fold (run (repeat t n) (gstep t g)).
      destruct (solo_step t g l Hs Hc Hn) as [Hn1 [Hs1 Hr1]].
      rewrite (IHn _ _ Hs1 (lstep_clean _ _ _ Hc) Hn1). rewrite Hr1. reflexivity.
  Qed.

  Theorem scans_noninterfering_proof : forall (g0 : gstate) sched t l0 lf,
    all_clean g0 -> g_mutex _ _ _ _ _ g0 = None -> nth_error (g_locals _ _ _ _ _ g0) t = Some l0 ->
    nth_error (g_locals _ _ _ _ _ (run sched g0)) t = Some lf -> finished lf = true ->
    nth_error (g_locals _ _ _ _ _ (run (repeat t (fuel_of l0)) g0)) t = Some lf /\
    lf = alone (g_rules _ _ _ _ _ g0) l0 (fuel_of l0) /\
    g_rules _ _ _ _ _ (run sched g0) = g_rules _ _ _ _ _ g0.
  Proof.
    intros g0 sched t l0 lf Hc Hm Hn Hnf Hf.
    destruct (run_local sched g0 Hc) as [_ [Hr Hl]].
    destruct (Hl _ _ Hn) as [k Hk]. rewrite Hnf in Hk. inversion Hk; subst lf.
    assert (Hcl : lclean l0) by (eapply Forall_nth; eauto).
    assert (E : iter k (lstep (g_rules _ _ _ _ _ g0) 0) l0 = alone (g_rules _ _ _ _ _ g0) l0 (fuel_of l0)).
    { unfold Concurrent.alone. apply finished_unique; auto. apply alone_finishes. }
    split; [|split; auto].
    rewrite (solo_run t (fuel_of l0) g0 l0); auto.
    - rewrite E. reflexivity.
    - left; auto.
  Qed.

  Lemma init_clean : forall r h0 progs, Forall (fun p => clean_prog p = true) progs -> all_clean (init r h0 progs).
  Proof.
    intros r h0 progs H. unfold all_clean, Concurrent.init. simpl. induction H; simpl; constructor; auto.
  Qed.

  (* complete schedules exist: one thread after the other *)
  Lemma bal_clean : forall mx p d g, bal mx d g p = true -> clean_prog p = true.
  Proof.
    induction p as [|o p IH]; intros d g H; auto. simpl in *.
    destruct o; simpl; try discriminate; try (eapply IH; eauto; fail).
    - apply andb_true_iff in H. destruct H. eapply IH; eauto.
    - destruct d; [discriminate|]. eapply IH; eauto.
    - destruct g; [discriminate|]. eapply IH; eauto.
    - destruct g; [|discriminate]. apply andb_true_iff in H. destruct H. eapply IH; eauto.
  Qed.

  (* ====================================================================================== Part B *)
  Local Opaque Z.of_nat.

  Definition linv (mx : nat) (l : local) : Prop :=
    (l_depth _ _ _ _ _ l <= mx)%nat /\
    if l_skip _ _ _ _ _ l
    then l_micro _ _ _ _ _ l = 0%nat /\ exists d, bal mx d (Some (l_depth _ _ _ _ _ l)) (l_prog _ _ _ _ _ l) = true
    else (exists g, bal mx (l_depth _ _ _ _ _ l) g (l_prog _ _ _ _ _ l) = true) /\
         (l_micro _ _ _ _ _ l = 0%nat \/
          ((hd_error (l_prog _ _ _ _ _ l) = Some MEnter \/ hd_error (l_prog _ _ _ _ _ l) = Some MExit) /\
           (l_micro _ _ _ _ _ l <= 4)%nat)).

  Lemma linv_step : forall mx r c l, linv mx l -> linv mx (lstep r c l).
  Proof.
    intros mx r c [ctx p m d tls sk reg] [Hd H]. unfold linv, Concurrent.lstep in *. cbn [l_depth l_skip l_micro l_prog] in *.
    destruct p as [|o p]; [split; auto|].
    destruct sk.
    - destruct H as [Hm [d' Hb]]. cbn [bal Concurrent.bal] in Hb.
      destruct o; cbn [l_depth l_skip l_micro l_prog]; try discriminate; (split; [exact Hd|]);
        try (split; [reflexivity|]; eauto; fail).
      + apply andb_true_iff in Hb. destruct Hb as [_ Hb]. split; eauto.
      + destruct d'; [discriminate|]. split; eauto.
      + apply andb_true_iff in Hb. destruct Hb as [He Hb]. apply Nat.eqb_eq in He. subst d'. split; eauto.
    - destruct H as [[g Hb] Hm]. cbn [bal Concurrent.bal] in Hb.
      destruct o; try discriminate.
      + (* MEnter *) apply andb_true_iff in Hb. destruct Hb as [Hle Hb]. apply Nat.leb_le in Hle.
        destruct (m <? 4)%nat eqn:E; [apply Nat.ltb_lt in E|]; cbn [l_depth l_skip l_micro l_prog hd_error].
        * split; [exact Hd|]. split; [exists g; cbn [Concurrent.bal]; apply andb_true_iff; split; auto; apply Nat.leb_le; auto|].
          right. split; auto; lia.
        * split; [exact Hle|]. split; eauto.
      + (* MExit *) destruct d as [|d']; [discriminate|].
        destruct (m <? 4)%nat eqn:E; [apply Nat.ltb_lt in E|]; cbn [l_depth l_skip l_micro l_prog hd_error].
        * split; [exact Hd|]. split; [exists g; exact Hb|]. right. split; auto; lia.
        * split; [simpl; lia|]. split; eauto.
      + cbn [l_depth l_skip l_micro l_prog]. split; [exact Hd|]. split; eauto.
      + cbn [l_depth l_skip l_micro l_prog]. split; [exact Hd|]. split; eauto.
      + cbn [l_depth l_skip l_micro l_prog]. split; [exact Hd|]. split; eauto.
      + cbn [l_depth l_skip l_micro l_prog]. split; [exact Hd|]. split; eauto.
      + (* MGuard *) destruct g; [discriminate|]. cbn [l_depth l_skip l_micro l_prog l_ctx]. split; [exact Hd|].
        destruct (negb (q r ctx)); cbv iota; split; eauto.
      + (* MEndGuard *) destruct g as [d0|]; [|discriminate]. apply andb_true_iff in Hb. destruct Hb as [He Hb].
        cbn [l_depth l_skip l_micro l_prog]. split; [exact Hd|]. split; eauto.
  Qed.

  Lemma contrib_pop : forall ctx p d tls sk reg, contrib (mkLocal _ _ _ _ _ ctx p 0 d tls sk reg) = Z.of_nat d.
  Proof.
    intros. unfold Concurrent.contrib. cbn [l_depth l_skip l_micro l_prog]. destruct sk; [lia|].
    destruct p as [|[] p]; cbn; lia.
  Qed.

  Lemma in_crit_pop : forall ctx p d tls sk reg, in_crit (mkLocal _ _ _ _ _ ctx p 0 d tls sk reg) = false.
  Proof.
    intros. unfold Concurrent.in_crit, Concurrent.active. cbn [l_depth l_skip l_micro l_prog]. destruct sk; auto.
    destruct p as [|[] p]; cbn; auto.
  Qed.

  Lemma linv_contrib : forall mx l, linv mx l -> 0 <= contrib l <= Z.of_nat mx.
  Proof.
    intros mx [ctx p m d tls sk reg] [Hd H]. unfold Concurrent.contrib. cbn [l_depth l_skip l_micro l_prog] in *.
    destruct sk; [lia|]. destruct H as [[g Hb] Hm].
    destruct p as [|o p]; [lia|]. destruct o; try lia.
    - cbn [Concurrent.bal] in Hb. apply andb_true_iff in Hb. destruct Hb as [Hle _]. apply Nat.leb_le in Hle.
      destruct (3 <=? m)%nat; lia.
    - cbn [Concurrent.bal] in Hb. destruct d; [discriminate|]. destruct (2 <=? m)%nat; lia.
  Qed.

  Definition quiescentc (h0 h o : sigact) (c : Z) : Prop := (c = 0 -> h = h0) /\ (c > 0 -> h = HYara /\ o = h0).

  Definition phasec (h0 h o : sigact) (c : Z) (l : local) : Prop :=
    match hd_error (l_prog _ _ _ _ _ l), l_micro _ _ _ _ _ l with
    | Some MEnter, 1%nat => quiescentc h0 h o c
    | Some MEnter, 2%nat => h = HYara /\ o = h0
    | Some MEnter, 3%nat => h = HYara /\ o = h0 /\ c > 0
    | Some MExit, 1%nat => quiescentc h0 h o c
    | Some MExit, 2%nat => h = HYara /\ o = h0
    | Some MExit, 3%nat => quiescentc h0 h o c
    | _, _ => False
    end.

  Lemma step_class : forall mx h0 t g l, linv mx l -> finished l = false -> blocked g l = false ->
    g_count _ _ _ _ _ g >= contrib l ->
    forall r' h' o' c' m', geffect t l g = (r', h', o', c', m') ->
    c' = g_count _ _ _ _ _ g + contrib (lstep (g_rules _ _ _ _ _ g) (g_count _ _ _ _ _ g) l) - contrib l /\
    r' = g_rules _ _ _ _ _ g /\
    ((in_crit l = false /\ in_crit (lstep (g_rules _ _ _ _ _ g) (g_count _ _ _ _ _ g) l) = false /\
        h' = g_handler _ _ _ _ _ g /\ o' = g_old _ _ _ _ _ g /\ c' = g_count _ _ _ _ _ g /\ m' = g_mutex _ _ _ _ _ g) \/
     (in_crit l = false /\ in_crit (lstep (g_rules _ _ _ _ _ g) (g_count _ _ _ _ _ g) l) = true /\
        g_mutex _ _ _ _ _ g = None /\ m' = Some t /\
        h' = g_handler _ _ _ _ _ g /\ o' = g_old _ _ _ _ _ g /\ c' = g_count _ _ _ _ _ g /\
        (quiescentc h0 h' o' c' -> phasec h0 h' o' c' (lstep (g_rules _ _ _ _ _ g) (g_count _ _ _ _ _ g) l))) \/
     (in_crit l = true /\ in_crit (lstep (g_rules _ _ _ _ _ g) (g_count _ _ _ _ _ g) l) = true /\ m' = g_mutex _ _ _ _ _ g /\
        (phasec h0 (g_handler _ _ _ _ _ g) (g_old _ _ _ _ _ g) (g_count _ _ _ _ _ g) l ->
         phasec h0 h' o' c' (lstep (g_rules _ _ _ _ _ g) (g_count _ _ _ _ _ g) l))) \/
     (in_crit l = true /\ in_crit (lstep (g_rules _ _ _ _ _ g) (g_count _ _ _ _ _ g) l) = false /\ m' = None /\
        h' = g_handler _ _ _ _ _ g /\ o' = g_old _ _ _ _ _ g /\ c' = g_count _ _ _ _ _ g /\
        (phasec h0 (g_handler _ _ _ _ _ g) (g_old _ _ _ _ _ g) (g_count _ _ _ _ _ g) l -> quiescentc h0 h' o' c'))).
  Proof.
    intros mx h0 t g l Hinv Hf Hb Hge r' h' o' c' m' He.
    pose proof (linv_contrib _ _ Hinv) as Hc0.
    destruct l as [ctx p m d tls sk reg]. destruct Hinv as [Hd H].
    unfold Concurrent.finished in Hf. cbn [l_depth l_skip l_micro l_prog] in *.
    destruct p as [|o p]; [discriminate|].
    unfold Concurrent.geffect, Concurrent.active in He. unfold Concurrent.blocked, Concurrent.active in Hb.
    unfold Concurrent.lstep. cbn [l_depth l_skip l_micro l_prog hd_error l_reg] in *.
    destruct sk.
    { inversion He; subst. rewrite contrib_pop, in_crit_pop.
      split; [unfold Concurrent.contrib; cbn [l_depth l_skip]; lia|]. split; [reflexivity|].
      left. unfold Concurrent.in_crit, Concurrent.active. cbn [l_skip]. auto 10. }
    destruct H as [[gd Hbal] Hm]. cbn [Concurrent.bal] in Hbal.
    destruct o; try discriminate.
    - (* MEnter *)
      apply andb_true_iff in Hbal. destruct Hbal as [Hle _].
      destruct m as [|[|[|[|m]]]]; cbn [Nat.ltb Nat.leb] in *.
      + (* lock *) destruct (g_mutex _ _ _ _ _ g) eqn:Hmx; [discriminate|]. inversion He; subst.
        split; [unfold Concurrent.contrib; cbn; lia|]. split; [reflexivity|]. right; left.
        unfold Concurrent.in_crit, Concurrent.active, phasec. cbn. auto 10.
      + (* test and install *) inversion He; subst. split; [unfold Concurrent.contrib; cbn; lia|]. split; [reflexivity|].
        right; right; left. unfold Concurrent.in_crit, Concurrent.active, phasec, Concurrent.test_install, quiescentc. cbn.
        split; auto. split; auto. split; auto. intros [Q0 Q1].
        destruct (g_count _ _ _ _ _ g =? 0) eqn:E; cbn.
        * apply Z.eqb_eq in E. split; auto.
        * apply Z.eqb_neq in E. unfold Concurrent.contrib in Hge, Hc0. cbn in Hge, Hc0. apply Q1. lia.
      + (* count++ *) inversion He; subst. split; [unfold Concurrent.contrib; cbn; lia|]. split; [reflexivity|].
        right; right; left. unfold Concurrent.in_crit, Concurrent.active, phasec. cbn.
        split; auto. split; auto. split; auto. intros [Q0 Q1]. split; auto. split; auto.
        unfold Concurrent.contrib in Hge, Hc0. cbn in Hge, Hc0. lia.
      + (* unlock *) inversion He; subst. split; [unfold Concurrent.contrib; cbn; lia|]. split; [reflexivity|].
        right; right; right. unfold Concurrent.in_crit, Concurrent.active, phasec, quiescentc. cbn.
        split; auto. split; auto. split; auto. split; auto. split; auto. split; auto.
        intros [Q0 [Q1 Q2]]. split; [lia | auto].
      + (* set tls, leave the macro *) inversion He; subst. cbn [l_depth l_skip l_micro l_prog]. rewrite contrib_pop, in_crit_pop.
        split; [unfold Concurrent.contrib; cbn; lia|]. split; [reflexivity|]. left.
        unfold Concurrent.in_crit, Concurrent.active. cbn. destruct m; auto 10.
    - (* MExit *)
      destruct d as [|d']; [discriminate|].
      destruct m as [|[|[|[|m]]]]; cbn [Nat.ltb Nat.leb] in *.
      + destruct (g_mutex _ _ _ _ _ g) eqn:Hmx; [discriminate|]. inversion He; subst.
        split; [unfold Concurrent.contrib; cbn; lia|]. split; [reflexivity|]. right; left.
        unfold Concurrent.in_crit, Concurrent.active, phasec. cbn. auto 10.
      + (* count-- *) inversion He; subst. split; [unfold Concurrent.contrib; cbn; lia|]. split; [reflexivity|].
        right; right; left. unfold Concurrent.in_crit, Concurrent.active, phasec, quiescentc. cbn.
        split; auto. split; auto. split; auto. intros [Q0 Q1].
        unfold Concurrent.contrib in Hge, Hc0. cbn in Hge, Hc0. apply Q1. lia.
      + (* test and restore *) inversion He; subst. split; [unfold Concurrent.contrib; cbn; lia|]. split; [reflexivity|].
        right; right; left. unfold Concurrent.in_crit, Concurrent.active, phasec, quiescentc. cbn.
        split; auto. split; auto. split; auto. intros [Q0 Q1].
        destruct (g_count _ _ _ _ _ g =? 0) eqn:E.
        * apply Z.eqb_eq in E. split; [auto | lia].
        * apply Z.eqb_neq in E. split; [intros; contradiction | auto].
      + (* unlock *) inversion He; subst. split; [unfold Concurrent.contrib; cbn; lia|]. split; [reflexivity|].
        right; right; right. unfold Concurrent.in_crit, Concurrent.active, phasec. cbn. auto 10.
      + inversion He; subst. cbn [l_depth l_skip l_micro l_prog]. rewrite contrib_pop, in_crit_pop.
        split; [unfold Concurrent.contrib; cbn; lia|]. split; [reflexivity|]. left.
        unfold Concurrent.in_crit, Concurrent.active. cbn. destruct m; auto 10.
    - inversion He; subst. rewrite contrib_pop, in_crit_pop. split; [unfold Concurrent.contrib; cbn; lia|]. split; [reflexivity|]. left. unfold Concurrent.in_crit, Concurrent.active. cbn. auto 10.
    - inversion He; subst. rewrite contrib_pop, in_crit_pop. split; [unfold Concurrent.contrib; cbn; lia|]. split; [reflexivity|]. left. unfold Concurrent.in_crit, Concurrent.active. cbn. auto 10.
    - inversion He; subst. rewrite contrib_pop, in_crit_pop. split; [unfold Concurrent.contrib; cbn; lia|]. split; [reflexivity|]. left. unfold Concurrent.in_crit, Concurrent.active. cbn. auto 10.
    - inversion He; subst. rewrite contrib_pop, in_crit_pop. split; [unfold Concurrent.contrib; cbn; lia|]. split; [reflexivity|]. left. unfold Concurrent.in_crit, Concurrent.active. cbn. auto 10.
    - inversion He; subst. rewrite contrib_pop, in_crit_pop. split; [unfold Concurrent.contrib; cbn; lia|]. split; [reflexivity|]. left. unfold Concurrent.in_crit, Concurrent.active. cbn. auto 10.
    - inversion He; subst. rewrite contrib_pop, in_crit_pop. split; [unfold Concurrent.contrib; cbn; lia|]. split; [reflexivity|]. left. unfold Concurrent.in_crit, Concurrent.active. cbn. auto 10.
  Qed.

  Definition quiescent (h0 : sigact) (g : gstate) : Prop :=
    quiescentc h0 (g_handler _ _ _ _ _ g) (g_old _ _ _ _ _ g) (g_count _ _ _ _ _ g).

  (* the invariant of every reachable state *)
  Definition ginv (mx : nat) (h0 : sigact) (g : gstate) : Prop :=
    (forall u l, nth_error (g_locals _ _ _ _ _ g) u = Some l -> linv mx l) /\
    g_count _ _ _ _ _ g = sumz (g_locals _ _ _ _ _ g) /\
    match g_mutex _ _ _ _ _ g with
    | None => (forall u l, nth_error (g_locals _ _ _ _ _ g) u = Some l -> in_crit l = false) /\ quiescent h0 g
    | Some t => exists l, nth_error (g_locals _ _ _ _ _ g) t = Some l /\ in_crit l = true /\
                  phasec h0 (g_handler _ _ _ _ _ g) (g_old _ _ _ _ _ g) (g_count _ _ _ _ _ g) l /\
                  forall u l', u <> t -> nth_error (g_locals _ _ _ _ _ g) u = Some l' -> in_crit l' = false
    end.

  Lemma sumz_upd : forall ls t l l', nth_error ls t = Some l -> sumz (upd t l' ls) = sumz ls - contrib l + contrib l'.
  Proof.
    induction ls as [|x ls IH]; intros t l l' Hn; destruct t; simpl in Hn; try discriminate.
    - inversion Hn; subst. unfold Concurrent.sumz. simpl. lia.
    - unfold Concurrent.sumz in *. simpl. rewrite (IH _ _ l' Hn). lia.
  Qed.

  Lemma sumz_ge : forall ls t l, (forall u x, nth_error ls u = Some x -> 0 <= contrib x) ->
    nth_error ls t = Some l -> sumz ls >= contrib l /\ sumz ls >= 0.
  Proof.
    induction ls as [|x ls IH]; intros t l Hall Hn; destruct t; simpl in Hn; try discriminate.
    - inversion Hn; subst. unfold Concurrent.sumz. simpl.
      assert (H0 : fold_right (fun l a => contrib l + a) 0 ls >= 0).
      { clear - Hall. assert (Hall' : forall u x, nth_error ls u = Some x -> 0 <= contrib x) by (intros u x Hx; apply (Hall (S u) x Hx)).
        clear Hall. induction ls as [|y ls IH]; simpl; [lia|].
        pose proof (Hall' O y eq_refl). assert (fold_right (fun l a => contrib l + a) 0 ls >= 0) by (apply IH; intros u x Hx; apply (Hall' (S u) x Hx)). lia. }
      pose proof (Hall O l eq_refl). lia.
    - unfold Concurrent.sumz in *. simpl.
      destruct (IH t l (fun u x Hx => Hall (S u) x Hx) Hn) as [H1 H2].
      pose proof (Hall O x eq_refl). lia.
  Qed.

  Lemma ginv_step : forall mx h0 t g, ginv mx h0 g -> ginv mx h0 (gstep t g).
  Proof.
    intros mx h0 t g [Hli [Hsum Hmx]].
    destruct (gstep_cases t g) as [He | [l [Hn [Hf [Hb [Hl Hg]]]]]].
    { rewrite He. split; auto. }
    assert (Hinv : linv mx l) by (eapply Hli; eauto).
    assert (Hnn : forall u x, nth_error (g_locals _ _ _ _ _ g) u = Some x -> 0 <= contrib x).
    { intros u x Hx. apply (linv_contrib mx x). eapply Hli; eauto. }
    assert (Hge : g_count _ _ _ _ _ g >= contrib l) by (rewrite Hsum; apply (sumz_ge _ t l Hnn Hn)).
    destruct (geffect t l g) as [[[[r' h'] o'] c'] m'] eqn:He.
    inversion Hg as [[Hr' Hh' Ho' Hc' Hm']]. clear Hg.
    destruct (step_class mx h0 t g l Hinv Hf Hb Hge r' h' o' c' m' He) as [Hcc [Hrr Hk]].
    set (l' := lstep (g_rules _ _ _ _ _ g) (g_count _ _ _ _ _ g) l) in *.
    assert (Hnew : nth_error (upd t l' (g_locals _ _ _ _ _ g)) t = Some l') by (eapply nth_upd_same; eauto).
    unfold ginv, quiescent in *. rewrite Hl, Hh', Ho', Hc', Hm'.
    split; [|split].
    - intros u x Hx. destruct (Nat.eq_dec u t) as [->|Hne].
      + rewrite Hnew in Hx. inversion Hx; subst x. apply linv_step; auto.
      + rewrite nth_upd_other in Hx by auto. eapply Hli; eauto.
    - rewrite (sumz_upd _ _ _ l' Hn). lia.
    - (* who holds the mutex before the step *)
      assert (Hcrit : in_crit l = true -> g_mutex _ _ _ _ _ g = Some t).
      { intros Hc. destruct (g_mutex _ _ _ _ _ g) as [t0|] eqn:Hm.
        - destruct Hmx as [l0 [Hn0 [Hc0 [_ Hoth]]]]. destruct (Nat.eq_dec t t0) as [->|Hne]; auto.
          rewrite (Hoth _ _ Hne Hn) in Hc. discriminate.
        - destruct Hmx as [Hnone _]. rewrite (Hnone _ _ Hn) in Hc. discriminate. }
      destruct Hk as [K | [K | [K | K]]].
      + destruct K as [Hc1 [Hc2 [-> [-> [-> ->]]]]].
        destruct (g_mutex _ _ _ _ _ g) as [t0|] eqn:Hm.
        * destruct Hmx as [l0 [Hn0 [Hc0 [Hph Hoth]]]].
          assert (Hne : t0 <> t) by (intros ->; rewrite Hn in Hn0; inversion Hn0; subst l0; congruence).
          exists l0. split; [rewrite nth_upd_other; auto|]. split; auto. split; auto.
          intros u x Hu Hx. destruct (Nat.eq_dec u t) as [->|Hne'].
          { rewrite Hnew in Hx. inversion Hx; subst x. auto. }
          { rewrite nth_upd_other in Hx by auto. eapply Hoth; eauto. }
        * destruct Hmx as [Hnone Hq]. split; auto.
          intros u x Hx. destruct (Nat.eq_dec u t) as [->|Hne'].
          { rewrite Hnew in Hx. inversion Hx; subst x. auto. }
          { rewrite nth_upd_other in Hx by auto. eapply Hnone; eauto. }
      + destruct K as [Hc1 [Hc2 [Hm [-> [-> [-> [-> Hph]]]]]]]. rewrite Hm in Hmx. destruct Hmx as [Hnone Hq].
        exists l'. split; auto. split; auto. split; [apply Hph; exact Hq|].
        intros u x Hu Hx. rewrite nth_upd_other in Hx by auto. eapply Hnone; eauto.
      + destruct K as [Hc1 [Hc2 [-> Hph]]]. rewrite (Hcrit Hc1) in *.
        destruct Hmx as [l0 [Hn0 [Hc0 [Hph0 Hoth]]]]. rewrite Hn in Hn0. inversion Hn0; subst l0.
        exists l'. split; auto. split; auto. split; [apply Hph; exact Hph0|].
        intros u x Hu Hx. rewrite nth_upd_other in Hx by auto. eapply Hoth; eauto.
      + destruct K as [Hc1 [Hc2 [-> [-> [-> [-> Hph]]]]]]. rewrite (Hcrit Hc1) in *.
        destruct Hmx as [l0 [Hn0 [Hc0 [Hph0 Hoth]]]]. rewrite Hn in Hn0. inversion Hn0; subst l0.
        split; [|apply Hph; exact Hph0].
        intros u x Hx. destruct (Nat.eq_dec u t) as [->|Hne'].
        { rewrite Hnew in Hx. inversion Hx; subst x. auto. }
        { rewrite nth_upd_other in Hx by auto. eapply Hoth; eauto. }
  Qed.

  Lemma ginv_run : forall mx h0 sched g, ginv mx h0 g -> ginv mx h0 (run sched g).
  Proof.
    induction sched as [|t sched IH]; intros g H; [exact H|].
    unfold Concurrent.run. simpl. apply IH. apply ginv_step. exact H.
  Qed.

  Lemma nth_map_init : forall (progs : list (list mop)) u l, nth_error (map init_local progs) u = Some l ->
    exists p, nth_error progs u = Some p /\ l = init_local p.
  Proof.
    induction progs as [|p progs IH]; intros u l H; destruct u; simpl in H; try discriminate.
    - inversion H; subst. exists p. split; auto.
    - apply IH in H. exact H.
  Qed.

  Lemma ginv_init : forall mx r n progs, Forall (fun p => bal mx 0 None p = true) progs ->
    ginv mx (HApp n) (init r (HApp n) progs).
  Proof.
    intros mx r n progs HF. unfold ginv, Concurrent.init. cbn [g_locals g_count g_mutex g_handler g_old].
    split; [|split; [|split]].
    - intros u l Hn. destruct (nth_map_init _ _ _ Hn) as [p [Hp ->]].
      assert (Hb : bal mx 0 None p = true) by (eapply (Forall_nth _ _ _ _ _ HF); eauto).
      unfold linv, Concurrent.init_local. cbn [l_depth l_skip l_micro l_prog]. split; [lia|]. split; eauto.
    - clear HF. induction progs as [|p progs IH]; [reflexivity|]. unfold Concurrent.sumz in *. simpl.
      unfold Concurrent.init_local at 1. rewrite contrib_pop. simpl. exact IH.
    - intros u l Hn. destruct (nth_map_init _ _ _ Hn) as [p [Hp ->]]. apply in_crit_pop.
    - unfold quiescent, quiescentc. cbn [g_count g_handler g_old]. split; [auto | lia].
  Qed.

  Lemma linv_finished : forall mx l, linv mx l -> finished l = true -> contrib l = 0 /\ in_crit l = false.
  Proof.
    intros mx [ctx p m d tls sk reg] [Hd H] Hf. unfold Concurrent.finished in Hf. cbn [l_depth l_skip l_micro l_prog] in *.
    destruct p; [|discriminate]. unfold Concurrent.contrib, Concurrent.in_crit, Concurrent.active. cbn [l_depth l_skip l_micro l_prog hd_error].
    destruct sk.
    - destruct H as [_ [d' Hb]]. discriminate.
    - destruct H as [[g Hb] _]. cbn in Hb. destruct g; [discriminate|]. apply Nat.eqb_eq in Hb. subst d. split; [reflexivity | reflexivity].
  Qed.

  Lemma sumz_zero : forall ls, (forall u x, nth_error ls u = Some x -> contrib x = 0) -> sumz ls = 0.
  Proof.
    induction ls as [|x ls IH]; intros H; [reflexivity|]. unfold Concurrent.sumz in *. simpl.
    rewrite (H O x eq_refl). rewrite IH; [reflexivity|]. intros u y Hy. apply (H (S u) y Hy).
  Qed.

  Lemma forallb_nth : forall (T : Type) (f : T -> bool) ls u x, forallb f ls = true -> nth_error ls u = Some x -> f x = true.
  Proof. intros T f ls u x H Hn. rewrite forallb_forall in H. apply H. eapply nth_error_In; eauto. Qed.

  Lemma sigact_eqb_yara : forall h, sigact_eqb h HYara = true <-> h = HYara.
  Proof. intros [n|]; simpl; split; intros; auto; discriminate. Qed.

  (* what the invariant says in the terms of the property *)
  Theorem handler_protocol_proof : forall mx r n progs sched,
    Forall (fun p => bal mx 0 None p = true) progs ->
    let g := run sched (init r (HApp n) progs) in
    (* the counter is the number of open try sections, thread by thread *)
    g_count _ _ _ _ _ g = sumz (g_locals _ _ _ _ _ g) /\
    (forall u l, nth_error (g_locals _ _ _ _ _ g) u = Some l -> 0 <= contrib l <= Z.of_nat mx) /\
    (* at most one thread is inside the critical section, and it is the owner of the mutex *)
    (forall u l, nth_error (g_locals _ _ _ _ _ g) u = Some l -> in_crit l = true -> g_mutex _ _ _ _ _ g = Some u) /\
    (* whenever nobody is in the middle of the critical section: installed <-> counter > 0, and otherwise the
       original handler is in place; while installed, the saved handler is the original one *)
    (g_mutex _ _ _ _ _ g = None ->
       (installed _ _ _ _ _ g = true <-> g_count _ _ _ _ _ g > 0) /\
       (g_count _ _ _ _ _ g = 0 -> g_handler _ _ _ _ _ g = HApp n) /\
       (g_count _ _ _ _ _ g > 0 -> g_old _ _ _ _ _ g = HApp n)) /\
    (* at the end the original handler is back, the counter is 0 and the mutex is free *)
    (all_finished _ _ _ _ _ g = true ->
       g_handler _ _ _ _ _ g = HApp n /\ g_count _ _ _ _ _ g = 0 /\ g_mutex _ _ _ _ _ g = None).
  Proof.
    intros mx r n progs sched HF g.
    assert (HI : ginv mx (HApp n) g) by (apply ginv_run; apply ginv_init; exact HF).
    destruct HI as [Hli [Hsum Hmx]].
    assert (Hnn : forall u l, nth_error (g_locals _ _ _ _ _ g) u = Some l -> 0 <= contrib l <= Z.of_nat mx).
    { intros u l Hn. apply linv_contrib. eapply Hli; eauto. }
    assert (Hge0 : g_count _ _ _ _ _ g >= 0).
    { rewrite Hsum. destruct (g_locals _ _ _ _ _ g) as [|x ls] eqn:E; [unfold Concurrent.sumz; simpl; lia|].
      rewrite <- E in *. apply (sumz_ge (g_locals _ _ _ _ _ g) O x); [intros u y Hy; apply (Hnn u y Hy)|rewrite E; reflexivity]. }
    split; [exact Hsum|]. split; [exact Hnn|]. split; [|split].
    - intros u l Hn Hc. destruct (g_mutex _ _ _ _ _ g) as [t0|].
      + destruct Hmx as [l0 [Hn0 [Hc0 [_ Hoth]]]]. destruct (Nat.eq_dec u t0) as [->|Hne]; auto.
        rewrite (Hoth _ _ Hne Hn) in Hc. discriminate.
      + destruct Hmx as [Hnone _]. rewrite (Hnone _ _ Hn) in Hc. discriminate.
    - intros Hm. rewrite Hm in Hmx. destruct Hmx as [_ [Q0 Q1]].
      split; [|split].
      + unfold Concurrent.installed. rewrite sigact_eqb_yara. split.
        * intros Hy. destruct (Z.eq_dec (g_count _ _ _ _ _ g) 0) as [E|E]; [|lia]. rewrite (Q0 E) in Hy. discriminate.
        * intros Hc. apply Q1; auto.
      + exact Q0.
      + intros Hc. apply Q1; auto.
    - intros Hall. unfold Concurrent.all_finished in Hall.
      assert (Hz : forall u x, nth_error (g_locals _ _ _ _ _ g) u = Some x -> contrib x = 0 /\ in_crit x = false).
      { intros u x Hx. apply (linv_finished mx); [eapply Hli; eauto|]. eapply forallb_nth; eauto. }
      assert (Hc0 : g_count _ _ _ _ _ g = 0) by (rewrite Hsum; apply sumz_zero; intros u x Hx; apply (Hz u x Hx)).
      destruct (g_mutex _ _ _ _ _ g) as [t0|].
      + destruct Hmx as [l0 [Hn0 [Hcr _]]]. destruct (Hz _ _ Hn0) as [_ Hcf]. congruence.
      + destruct Hmx as [_ [Q0 _]]. auto.
  Qed.

  (* with no nesting (mx = 1: what libyara's own calls do) "open sections" is "threads inside" *)
  Lemma sumz_flat : forall ls, (forall u x, nth_error ls u = Some x -> 0 <= contrib x <= 1) ->
    sumz ls = Z.of_nat (length (filter (inside R C A X V) ls)).
  Proof.
    induction ls as [|x ls IH]; intros H; [reflexivity|]. unfold Concurrent.sumz in *. simpl.
    rewrite IH by (intros u y Hy; apply (H (S u) y Hy)).
    pose proof (H O x eq_refl) as Hx. unfold Concurrent.inside.
    destruct (0 <? contrib x) eqn:E; [apply Z.ltb_lt in E | apply Z.ltb_ge in E]; simpl length; lia.
  Qed.

  Theorem handler_count_is_threads_inside_proof : forall r n progs sched,
    Forall (fun p => bal 1 0 None p = true) progs ->
    let g := run sched (init r (HApp n) progs) in
    g_count _ _ _ _ _ g = Z.of_nat (length (filter (inside R C A X V) (g_locals _ _ _ _ _ g))).
  Proof.
    intros r n progs sched HF g.
    destruct (handler_protocol_proof 1 r n progs sched HF) as [Hsum [Hnn _]]. fold g in Hsum, Hnn.
    rewrite Hsum. apply sumz_flat. intros u x Hx. pose proof (Hnn u x Hx). lia.
  Qed.

  (* ====================================================================================== Part C *)
  Theorem externals_private_proof : forall t (g : gstate) ctx x v p m d tls reg,
    nth_error (g_locals _ _ _ _ _ g) t = Some (mkLocal _ _ _ _ _ ctx (MDefine x v :: p) m d tls false reg) ->
    let g' := gstep t g in
    g_rules _ _ _ _ _ g' = g_rules _ _ _ _ _ g /\ g_handler _ _ _ _ _ g' = g_handler _ _ _ _ _ g /\
    g_old _ _ _ _ _ g' = g_old _ _ _ _ _ g /\ g_count _ _ _ _ _ g' = g_count _ _ _ _ _ g /\
    g_mutex _ _ _ _ _ g' = g_mutex _ _ _ _ _ g /\
    (forall u, u <> t -> nth_error (g_locals _ _ _ _ _ g') u = nth_error (g_locals _ _ _ _ _ g) u) /\
    nth_error (g_locals _ _ _ _ _ g') t = Some (mkLocal _ _ _ _ _ (option_map (define x v) ctx) p 0 d tls false reg).
  Proof.
    intros t g ctx x v p m d tls reg Hn g'. subst g'. unfold Concurrent.gstep. rewrite Hn.
    unfold Concurrent.finished, Concurrent.blocked, Concurrent.geffect, Concurrent.active, Concurrent.lstep.
    cbn [l_depth l_skip l_micro l_prog l_ctx l_tls l_reg hd_error g_rules g_handler g_old g_count g_mutex g_locals].
    repeat split; auto.
    - intros u Hu. apply nth_upd_other; auto.
    - eapply nth_upd_same; eauto.
  Qed.

  (* the shape of libyara's own scan calls satisfies the discipline (so the theorems apply to them) *)
  Lemma scan_call_bal : forall ok blocks exec report,
    bal 1 0 None (scan_call R C A X V ok blocks exec report) = true.
  Proof.
    intros. unfold Concurrent.scan_call. cbn [app Concurrent.bal Nat.leb andb].
    induction blocks as [|b bs IH]; [reflexivity|]. cbn [map app Concurrent.bal]. exact IH.
  Qed.

  Lemma scan_call_notry_bal : forall ok blocks exec report,
    bal 1 0 None (scan_call_notry R C A X V ok blocks exec report) = true.
  Proof.
    intros. unfold Concurrent.scan_call_notry.
    induction blocks as [|b bs IH]; [reflexivity|]. cbn [map app Concurrent.bal]. exact IH.
  Qed.
End P.

(* ================================================================================== concrete instance: witnesses *)
Definition ex_rules : irules := [(5, false); (12, false)].
(* thread 0: scanner with external 10, two blocks; thread 1: external -5, the second block ends in an error (callback
   abort / timeout): the second try section and the report are skipped; thread 2: SCAN_FLAGS_NO_TRYCATCH *)
Definition ex_progs : list (list imop) :=
  [ [MCreate; MDefine tt 10] ++ i_scan_call [3; 7] 1 2;
    [MCreate; MDefine tt (-5)] ++ i_scan_call [3; -1; 7] 1 2;
    [MCreate] ++ i_scan_call_notry [4] 1 2 ].
Definition ex_g0 : igstate := i_init ex_rules (HApp 0) ex_progs.
Fixpoint round_robin (n : nat) : list nat := match n with O => [] | S n' => [0; 1; 2; 1; 0]%nat ++ round_robin n' end.
Definition ex_sched : list nat := round_robin 40.

Definition ex_ctx (g : igstate) (t : nat) : option ictx :=
  match nth_error (g_locals _ _ _ _ _ g) t with Some l => l_ctx _ _ _ _ _ l | None => None end.

Lemma ex_premises :
  Forall (fun p => i_bal 1 0 None p = true) ex_progs /\
  all_finished _ _ _ _ _ (i_run ex_sched ex_g0) = true /\
  ex_ctx (i_run ex_sched ex_g0) 0 = Some (mkICtx 10 false [1; 1; 1; 1; 1; 0; 1; 1]) /\
  ex_ctx (i_run ex_sched ex_g0) 1 = Some (mkICtx (-5) true [0; 0]) /\
  ex_ctx (i_run ex_sched ex_g0) 2 = Some (mkICtx 0 false [0; 0; 0; 0; 0; 0]) /\
  (forall t, (t < 3)%nat ->
     ex_ctx (i_run ex_sched ex_g0) t = ex_ctx (i_run (repeat t 200) ex_g0) t).
Proof.
  split; [repeat constructor|]. split; [vm_compute; reflexivity|]. split; [vm_compute; reflexivity|].
  split; [vm_compute; reflexivity|]. split; [vm_compute; reflexivity|].
  intros t Ht. destruct t as [|[|[|t]]]; try lia; vm_compute; reflexivity.
Qed.

(* a prefix of that schedule at which two threads are inside a try section and one is not *)
Lemma ex_prefix :
  let g := i_run (firstn 24 ex_sched) ex_g0 in
  g_count _ _ _ _ _ g = 2 /\ installed _ _ _ _ _ g = true /\ g_mutex _ _ _ _ _ g = None /\
  map i_contrib (g_locals _ _ _ _ _ g) = [1; 1; 0].
Proof. vm_compute. repeat split; reflexivity. Qed.

(* 1. a write to the shared rules (yr_rule_disable) while another thread scans: the result depends on the schedule *)
Definition w_write_progs : list (list imop) := [ [MCreate; MScan 6]; [MRulesWrite i_disable0] ].
Lemma w_rules_write_interferes :
  all_finished _ _ _ _ _ (i_run [0; 0; 1]%nat (i_init ex_rules (HApp 0) w_write_progs)) = true /\
  all_finished _ _ _ _ _ (i_run [1; 0; 0]%nat (i_init ex_rules (HApp 0) w_write_progs)) = true /\
  ex_ctx (i_run [0; 0; 1]%nat (i_init ex_rules (HApp 0) w_write_progs)) 0 = Some (mkICtx 0 false [1; 0]) /\
  ex_ctx (i_run [1; 0; 0]%nat (i_init ex_rules (HApp 0) w_write_progs)) 0 = Some (mkICtx 0 false [0]).
Proof. vm_compute. repeat split; reflexivity. Qed.

(* 1b. a static buffer in a module (console.log(<int>) formatting into `static char msg[32]`): the buffer is shared state,
       the formatting a write to it.  Scanner A (external 1111) formats its value, scanner B (2222) formats its own while A
       is on its way into its callback, A's callback then reads: it does not see its own text (the step "buffer <= my
       value" yields 1 alone and 0 in the interleaving), although every scanner-owned datum is intact *)
Definition w_static_progs : list (list imop) :=
  [ [MCreate; MDefine tt 1111; MRulesWrite (i_format 1111); MScan 0];
    [MCreate; MDefine tt 2222; MRulesWrite (i_format 2222); MScan 0] ].
Lemma w_static_buffer_interferes :
  let g0 := i_init [(0, false)] (HApp 0) w_static_progs in
  all_finished _ _ _ _ _ (i_run [0; 0; 0; 1; 1; 1; 0; 1]%nat g0) = true /\
  ex_ctx (i_run [0; 0; 0; 1; 1; 1; 0; 1]%nat g0) 0 = Some (mkICtx 1111 false [0]) /\
  ex_ctx (i_run (repeat 0%nat 4) g0) 0 = Some (mkICtx 1111 false [1]) /\
  ex_ctx (i_run [0; 0; 0; 1; 1; 1; 0; 1]%nat g0) 1 = ex_ctx (i_run (repeat 1%nat 4) g0) 1.
Proof. vm_compute. repeat split; reflexivity. Qed.

(* 2. exception_handler_usecount++ outside the mutex: both threads see the counter at 0 inside their critical sections,
      so the second sigaction saves libyara's own handler as the "old" one (the original is lost); a lost update
      leaves the counter at 1 with two threads inside; when the first one leaves, the counter is 0 while the other is
      still inside; at the end the counter is -1, the original handler is not restored and no later scan would
      install the handler again *)
Definition w_racy_progs : list (list imop) := [ [MEnterRacy; MScan 1; MExit]; [MEnterRacy; MScan 1; MExit] ].
Definition w_racy_sched1 : list nat := [0; 0; 0; 1; 1; 1; 0; 1; 0; 1; 0; 1]%nat.
Definition w_racy_sched2 : list nat := w_racy_sched1 ++ [0; 0; 0; 0; 0; 0]%nat.
Definition w_racy_sched3 : list nat := w_racy_sched2 ++ [1; 1; 1; 1; 1; 1]%nat.
Lemma w_racy_enter_breaks_protocol :
  let g0 := i_init ex_rules (HApp 0) w_racy_progs in
  (g_count _ _ _ _ _ (i_run w_racy_sched1 g0) = 1 /\ g_old _ _ _ _ _ (i_run w_racy_sched1 g0) = HYara /\
   map (l_depth _ _ _ _ _) (g_locals _ _ _ _ _ (i_run w_racy_sched1 g0)) = [1; 1]%nat) /\
  (g_count _ _ _ _ _ (i_run w_racy_sched2 g0) = 0 /\ g_mutex _ _ _ _ _ (i_run w_racy_sched2 g0) = None /\
   map (l_depth _ _ _ _ _) (g_locals _ _ _ _ _ (i_run w_racy_sched2 g0)) = [0; 1]%nat) /\
  (all_finished _ _ _ _ _ (i_run w_racy_sched3 g0) = true /\ g_count _ _ _ _ _ (i_run w_racy_sched3 g0) = -1 /\
   g_handler _ _ _ _ _ (i_run w_racy_sched3 g0) = HYara).
Proof. vm_compute. repeat split; reflexivity. Qed.

(* 3. the handler is process wide: a handler the application installs while a scan is in flight is overwritten
      when the last try section is left *)
Definition w_app_progs : list (list imop) := [ [MEnter; MExit]; [MSigaction 7] ].
Lemma w_application_handler_lost :
  let g0 := i_init ex_rules (HApp 0) w_app_progs in
  g_handler _ _ _ _ _ (i_run [0; 0; 0; 0; 0; 1; 0; 0; 0; 0; 0]%nat g0) = HApp 0 /\
  g_handler _ _ _ _ _ (i_run [1; 0; 0; 0; 0; 0; 0; 0; 0; 0; 0]%nat g0) = HApp 7.
Proof. vm_compute. split; reflexivity. Qed.

(* 4. a YR_TRYCATCH nested in another one on the same thread (a scan started from a callback that runs inside
      yr_execute_code: CALLBACK_MSG_IMPORT_MODULE, CALLBACK_MSG_CONSOLE_LOG): leaving the inner section sets the TLS
      slot to NULL, so the rest of the outer section runs with the handler installed but without its jump buffer *)
Definition w_nested_progs : list (list imop) := [ [MEnter; MEnter; MExit; MScan 1; MExit] ].
Lemma w_nested_try_loses_jump_buffer :
  let g := i_run (repeat 0%nat 15) (i_init ex_rules (HApp 0) w_nested_progs) in
  map (l_depth _ _ _ _ _) (g_locals _ _ _ _ _ g) = [1%nat] /\ map (l_tls _ _ _ _ _) (g_locals _ _ _ _ _ g) = [None] /\
  installed _ _ _ _ _ g = true /\ i_bal 2 0 None (hd [] w_nested_progs) = true.
Proof. vm_compute. repeat split; reflexivity. Qed.

Section TLS.
  Variables (R C A X V : Type).
  Variable scan_step : R -> A -> C -> C.
  Variable create : R -> C.
  Variable define : X -> V -> C -> C.
  Notation local := (local R C A X V).
  Notation gstate := (gstate R C A X V).
  Notation lstep := (lstep R C A X V scan_step create define).
  Notation gstep := (gstep R C A X V scan_step create define).
  Notation run := (run R C A X V scan_step create define).

  (* yr_trycatch_trampoline_tls of the thread points to the jumpinfo of the section it is in, and is NULL outside *)
  Definition tlsinv (l : local) : Prop :=
    l_tls _ _ _ _ _ l = match l_depth _ _ _ _ _ l with O => None | S d => Some (S d) end.

  Lemma tls_step : forall r c l, linv R C A X V 1 l -> tlsinv l -> tlsinv (lstep r c l).
  Proof.
    intros r c [ctx p m d tls sk reg] [Hd H] Ht. unfold tlsinv, Concurrent.lstep in *. cbn [l_depth l_skip l_micro l_prog l_tls] in *.
    destruct p as [|o p]; [exact Ht|]. destruct sk; [exact Ht|].
    destruct H as [[g Hb] _]. cbn [Concurrent.bal] in Hb.
    destruct o; try discriminate; cbn [l_depth l_tls]; try exact Ht.
    - destruct (m <? 4)%nat; cbn [l_depth l_tls]; [exact Ht | reflexivity].
    - destruct (m <? 4)%nat; cbn [l_depth l_tls]; [exact Ht|]. destruct d as [|[|d]]; try reflexivity. lia.
  Qed.

  Theorem tls_points_to_own_frame_proof : forall r n progs sched,
    Forall (fun p => bal R C A X V 1 0 None p = true) progs ->
    forall u l, nth_error (g_locals _ _ _ _ _ (run sched (init R C A X V r (HApp n) progs))) u = Some l -> tlsinv l.
  Proof.
    intros r n progs sched HF.
    assert (G : forall sched g, ginv R C A X V 1 (HApp n) g ->
                (forall u l, nth_error (g_locals _ _ _ _ _ g) u = Some l -> tlsinv l) ->
                forall u l, nth_error (g_locals _ _ _ _ _ (run sched g)) u = Some l -> tlsinv l).
    { induction sched0 as [|t s IH]; intros g Hg Ht; [exact Ht|].
      unfold Concurrent.run. simpl. apply IH; [apply ginv_step; exact Hg|].
      intros u l Hn.
      destruct (gstep_cases R C A X V scan_step create define t g) as [He | [l0 [Hn0 [_ [_ [Hl _]]]]]].
      - rewrite He in Hn. eapply Ht; eauto.
      - rewrite Hl in Hn. destruct (Nat.eq_dec u t) as [->|Hne].
        + rewrite (nth_upd_same _ _ _ _ _ Hn0) in Hn. inversion Hn; subst l.
          apply tls_step; [destruct Hg as [Hli _]; eapply Hli; eauto | eapply Ht; eauto].
        + rewrite nth_upd_other in Hn by auto. eapply Ht; eauto. }
    apply G; [apply ginv_init; exact HF|].
    intros u l Hn. unfold Concurrent.init in Hn. cbn [g_locals] in Hn.
    destruct (nth_map_init R C A X V _ _ _ Hn) as [p [_ ->]]. reflexivity.
  Qed.
End TLS.

Lemma scan_calls_bal : forall (R C A X V : Type) (ok : R -> option C -> bool) (blocks : list A) (exec report : A),
  bal R C A X V 1 0 None (scan_call R C A X V ok blocks exec report) = true /\
  bal R C A X V 1 0 None (scan_call_notry R C A X V ok blocks exec report) = true.
Proof. intros. split; [apply scan_call_bal | apply scan_call_notry_bal]. Qed.
