(* C16: fail-safety of the AllocLang translations (Model/AllocLang.v), for every set of failing allocations. *)
From Coq Require Import List Arith Bool NArith Lia Permutation.
From YV Require Import Model.AllocLang.
Import ListNotations.

(* ------------------------------------------------------------------ lists of blocks *)
Lemma memb_In : forall b l, memb b l = true <-> In b l.
Proof.
  induction l as [|c t IH]; cbn; [split; [discriminate | tauto]|].
  destruct (Nat.eqb b c) eqn:E.
  - apply Nat.eqb_eq in E. subst. tauto.
  - apply Nat.eqb_neq in E. rewrite IH. split; [tauto | intros [H|H]; [congruence | exact H]].
Qed.

Lemma memb_false : forall b l, memb b l = false <-> ~ In b l.
Proof. intros. rewrite <- memb_In. destruct (memb b l); split; congruence. Qed.

Lemma remove1_perm : forall b l, In b l -> Permutation l (b :: remove1 b l).
Proof.
  induction l as [|c t IH]; cbn; [tauto|]. intros H.
  destruct (Nat.eqb b c) eqn:E.
  - apply Nat.eqb_eq in E. subst. apply Permutation_refl.
  - apply Nat.eqb_neq in E. destruct H as [H|H]; [congruence|].
    eapply perm_trans; [apply perm_skip, IH, H | apply perm_swap].
Qed.

Lemma remove1_In : forall a b l, In a (remove1 b l) -> In a l.
Proof.
  induction l as [|c t IH]; cbn; [tauto|]. destruct (Nat.eqb b c); cbn; tauto.
Qed.

Lemma remove1_NoDup : forall b l, NoDup l -> NoDup (remove1 b l).
Proof.
  induction l as [|c t IH]; cbn; intros H; [constructor|]. inversion H; subst.
  destruct (Nat.eqb b c); [assumption|]. constructor; [|auto]. intro Hc. apply remove1_In in Hc. contradiction.
Qed.

Lemma remove1_perm_inv : forall b l r, Permutation l (b :: r) -> Permutation (remove1 b l) r.
Proof.
  intros b l r H. assert (Hin : In b l) by (eapply Permutation_in; [apply Permutation_sym, H | left; reflexivity]).
  apply (Permutation_cons_inv (a := b)). eapply perm_trans; [apply Permutation_sym, remove1_perm, Hin | exact H].
Qed.

Lemma free_all_perm : forall l lv0 r, Permutation lv0 (l ++ r) ->
  exists lv', free_all l lv0 = Some lv' /\ Permutation lv' r.
Proof.
  induction l as [|b t IH]; cbn; intros lv0 r H; [eauto|].
  assert (Hin : In b lv0) by (eapply Permutation_in; [apply Permutation_sym, H | left; reflexivity]).
  apply memb_In in Hin. rewrite Hin. apply IH. apply remove1_perm_inv. exact H.
Qed.

Lemma all_live_incl : forall l lv0, (forall b, In b l -> In b lv0) -> all_live l lv0 = true.
Proof.
  intros. unfold all_live. apply forallb_forall. intros b Hb. apply memb_In. auto.
Qed.

Lemma free_all_In : forall l lv0 lv', free_all l lv0 = Some lv' -> forall b, In b lv' -> In b lv0.
Proof.
  induction l as [|c t IH]; cbn; intros lv0 lv' H b Hb; [inversion H; subst; assumption|].
  destruct (memb c lv0); [|discriminate]. eapply remove1_In. eapply IH; eauto.
Qed.

Lemma free_all_NoDup : forall l lv0 lv', free_all l lv0 = Some lv' -> NoDup lv0 -> NoDup lv'.
Proof.
  induction l as [|c t IH]; cbn; intros lv0 lv' H Hn; [inversion H; subst; assumption|].
  destruct (memb c lv0); [|discriminate]. eapply IH; eauto. apply remove1_NoDup, Hn.
Qed.

(* ------------------------------------------------------------------ well-formed states; preserved by every program *)
Definition bounded (s : state) : Prop := forall b, In b (live s) -> b < next s.
Definition wf (s : state) : Prop := NoDup (live s) /\ bounded s.

Lemma wf_empty : wf empty_state.
Proof. split; [constructor | intros b []]. Qed.

Lemma wf_alloc : forall s i pvf lvf r, wf s -> wf (mkst (next s :: live s) (S (next s)) i pvf lvf r).
Proof.
  intros s i pvf lvf r [Hn Hb]. unfold bounded in *. split; cbn.
  - constructor; [|assumption]. intro H. apply Hb in H. lia.
  - intros b H; cbn in *. destruct H as [H|H]; [lia | apply Hb in H; lia].
Qed.

Lemma wf_same_live : forall s n i pvf lvf r, wf s -> next s <= n -> wf (mkst (live s) n i pvf lvf r).
Proof. intros s n i pvf lvf r [Hn Hb] Hle. unfold bounded in *. split; [assumption | intros b H; cbn in *; apply Hb in H; lia]. Qed.

Lemma wf_sub : forall s l' n i pvf lvf r, wf s -> NoDup l' -> (forall b, In b l' -> In b (live s)) -> next s <= n ->
  wf (mkst l' n i pvf lvf r).
Proof.
  intros s l' n i pvf lvf r [Hn Hb] Hn' Hsub Hle. unfold bounded in *. split; [assumption|].
  intros b H; cbn in *. apply Hsub, Hb in H. lia.
Qed.

Lemma wf_realloc : forall s b i pvf lvf r, wf s -> wf (mkst (next s :: remove1 b (live s)) (S (next s)) i pvf lvf r).
Proof.
  intros s b i pvf lvf r [Hn Hb]. unfold bounded in *. split.
  - cbn. constructor; [| apply remove1_NoDup, Hn]. intro H. apply remove1_In, Hb in H. lia.
  - intros c H; cbn in *. destruct H as [H|H]; [lia | apply remove1_In, Hb in H; lia].
Qed.

Section WithFails.
Variable fails : nat -> bool.

Theorem exec_wf : forall c s o s', wf s -> exec fails c s = (o, s') -> wf s' /\ next s <= next s' /\ count s <= count s'.
Proof.
  induction c; intros s o s' Hwf He; cbn in He.
  - inversion He; subst; auto.
  - destruct (exec fails c1 s) as [o1 s1] eqn:E1. destruct (IHc1 _ _ _ Hwf E1) as (H1 & H2 & H3).
    destruct o1; [| inversion He; subst; auto | inversion He; subst; auto].
    destruct (IHc2 _ _ _ H1 He) as (H4 & H5 & H6). repeat split; [apply H4 | apply H4 | lia | lia].
  - destruct (fails (S (count s))); inversion He; subst; cbn; (split; [| lia]).
    + apply wf_same_live; auto.
    + apply wf_alloc; auto.
  - destruct (fails (S (count s))).
    + inversion He; subst; cbn. split; [apply wf_same_live; auto | lia].
    + destruct (pv s x) as [b|].
      * destruct (memb b (live s)) eqn:M; inversion He; subst; cbn; [| auto].
        split; [apply wf_realloc; auto | lia].
      * inversion He; subst; cbn. split; [apply wf_alloc; auto | lia].
  - destruct (pv s x) as [b|]; [| inversion He; subst; auto].
    destruct (memb b (live s)); inversion He; subst; cbn; [| auto].
    split; [|lia]. apply wf_sub with (s := s); [assumption | apply remove1_NoDup, Hwf | intros c H; eapply remove1_In; eauto | lia].
  - destruct (pv s x); eauto.
  - destruct (pv s x) as [b|]; [destruct (memb b (live s))|]; inversion He; subst; auto.
  - inversion He; subst; cbn. split; [apply wf_same_live; auto | cbn; lia].
  - inversion He; subst; cbn. split; [apply wf_same_live; auto | cbn; lia].
  - destruct (pv s x) as [b|]; [destruct (memb b (live s))|]; inversion He; subst; first [solve [auto] | solve [cbn; split; [apply wf_same_live; auto | cbn; lia]]].
  - destruct (all_live (lv s l) (live s)); inversion He; subst; auto.
  - destruct (all_live (lv s l1) (live s)); inversion He; subst; first [solve [auto] | solve [cbn; split; [apply wf_same_live; auto | cbn; lia]]].
  - inversion He; subst; cbn. split; [apply wf_same_live; auto | cbn; lia].
  - inversion He; subst; cbn. split; [apply wf_same_live; auto | cbn; lia].
  - destruct (free_all (lv s l) (live s)) as [lv'|] eqn:F; inversion He; subst; auto; cbn; split; [|lia]; apply wf_sub with (s := s); [assumption | eapply free_all_NoDup; [eauto | apply Hwf] | intros b H; eapply free_all_In; eauto | lia].
  - inversion He; subst; cbn. split; [apply wf_same_live; auto | cbn; lia].
  - inversion He; subst; auto.
  - destruct (exec fails c s) as [o1 s1] eqn:E1. destruct (IHc _ _ _ Hwf E1) as (H1 & H2 & H3).
    destruct o1; inversion He; subst; auto.
  - inversion He; subst; cbn. split; [apply wf_same_live; auto | cbn; lia].
  - destruct (rc s); eauto.
Qed.

End WithFails.

Lemma upd_same : forall A (f : nat -> A) x v, upd f x v x = v.
Proof. intros. unfold upd. rewrite Nat.eqb_refl. reflexivity. Qed.

Lemma upd_other : forall A (f : nat -> A) x v y, y <> x -> upd f x v y = f y.
Proof. intros. unfold upd. destruct (Nat.eqb y x) eqn:E; [apply Nat.eqb_eq in E; congruence | reflexivity]. Qed.

(* ------------------------------------------------------------------ the allocate-and-push loops *)
Definition pushed (s s' : state) (new : list nat) (x l : nat) : Prop :=
  live s' = new ++ live s /\ lv s' l = new ++ lv s l /\
  (forall l', l' <> l -> lv s' l' = lv s l') /\ (forall y, y <> x -> pv s' y = pv s y).

Lemma pushed_refl : forall s x l, pushed s s [] x l.
Proof. intros. repeat split; auto. Qed.

Lemma pushed_trans : forall s1 s2 s3 n1 n2 x l, pushed s1 s2 n1 x l -> pushed s2 s3 n2 x l -> pushed s1 s3 (n2 ++ n1) x l.
Proof.
  intros s1 s2 s3 n1 n2 x l (A1 & A2 & A3 & A4) (B1 & B2 & B3 & B4). repeat split.
  - rewrite B1, A1, app_assoc. reflexivity.
  - rewrite B2, A2, app_assoc. reflexivity.
  - intros. rewrite B3, A3; auto.
  - intros. rewrite B4, A4; auto.
Qed.

Definition loop_result (o : outcome) (s s' : state) (new : list nat) (n : nat) : Prop :=
  (o = Normal /\ rc s' = rc s /\ length new = n /\ count s' = count s + n) \/
  (o = Returned /\ rc s' = ENOMEM /\ length new < n /\ count s' <= count s + n).

Section Loops.
Variable fails : nat -> bool.

Lemma alloc_push_spec : forall x l s, exists o s' new,
  exec fails (alloc_push x l) s = (o, s') /\ pushed s s' new x l /\ loop_result o s s' new 1.
Proof.
  intros x l s. unfold alloc_push. cbn. destruct (fails (S (count s))) eqn:F; cbn.
  - rewrite upd_same. cbn. eexists _, _, []. split; [reflexivity|]. split.
    + repeat split; cbn; auto. intros. apply upd_other; auto.
    + right. cbn. repeat split; auto; lia.
  - repeat (rewrite ?upd_same, ?Nat.eqb_refl; cbn).
    eexists _, _, [next s]. split; [reflexivity|]. split.
    + repeat split; cbn; auto.
      * apply upd_same.
      * intros. apply upd_other; auto.
      * intros. apply upd_other; auto.
    + left. cbn. repeat split; auto; lia.
Qed.

Lemma repeat_push_spec : forall x l n s, exists o s' new,
  exec fails (repeat_cmd n (alloc_push x l)) s = (o, s') /\ pushed s s' new x l /\ loop_result o s s' new n.
Proof.
  induction n as [|n IH]; intros s.
  - exists Normal, s, []. cbn. split; [reflexivity|]. split; [apply pushed_refl|]. left. repeat split; auto.
  - destruct (alloc_push_spec x l s) as (o1 & s1 & n1 & E1 & P1 & R1).
    cbn [repeat_cmd exec]. rewrite E1. destruct R1 as [(-> & Hrc & Hlen & Hc) | (-> & Hrc & Hlen & Hc)].
    + destruct (IH s1) as (o2 & s2 & n2 & E2 & P2 & R2). exists o2, s2, (n2 ++ n1). split; [exact E2|].
      split; [eapply pushed_trans; eauto|].
      destruct R2 as [(-> & Hrc2 & Hlen2 & Hc2) | (-> & Hrc2 & Hlen2 & Hc2)]; [left | right]; rewrite app_length;
        repeat split; auto; try congruence; lia.
    + exists Returned, s1, n1. split; [reflexivity|]. split; [assumption|]. right. repeat split; auto; lia.
Qed.

Lemma push_loops_spec : forall x l ns s, exists o s' new,
  exec fails (push_loops ns x l) s = (o, s') /\ pushed s s' new x l /\ loop_result o s s' new (list_sum ns).
Proof.
  induction ns as [|n ns IH]; intros s.
  - exists Normal, s, []. cbn. split; [reflexivity|]. split; [apply pushed_refl|]. left. repeat split; auto.
  - destruct (repeat_push_spec x l n s) as (o1 & s1 & n1 & E1 & P1 & R1).
    unfold push_loops in *. change (list_sum (n :: ns)) with (n + list_sum ns). cbn [foreach exec]. rewrite E1.
    destruct R1 as [(-> & Hrc & Hlen & Hc) | (-> & Hrc & Hlen & Hc)].
    + destruct (IH s1) as (o2 & s2 & n2 & E2 & P2 & R2). exists o2, s2, (n2 ++ n1). split; [exact E2|].
      split; [eapply pushed_trans; eauto|].
      destruct R2 as [(-> & Hrc2 & Hlen2 & Hc2) | (-> & Hrc2 & Hlen2 & Hc2)]; [left | right]; rewrite app_length;
        repeat split; auto; try congruence; lia.
    + exists Returned, s1, n1. split; [reflexivity|]. split; [assumption|]. right. repeat split; auto; lia.
Qed.

End Loops.

(* ------------------------------------------------------------------ atom-list builders (atoms.c) *)
Definition list_builder (ns : list nat) (src dst : nat) : cmd :=
  Seq (ClearL dst) (Seq (UseList src) (Seq (push_loops ns vNEW dst) (Return OK))).

Lemma atoms_wide_is : forall src dst n, atoms_wide src dst n = list_builder (repeat 1 n) src dst.
Proof. reflexivity. Qed.
Lemma atoms_xor_is : forall src dst n a b, atoms_xor src dst n a b = list_builder (repeat (xor_iters a b) n) src dst.
Proof. reflexivity. Qed.
Lemma atoms_ci_is : forall src dst ns, atoms_case_insensitive src dst ns = list_builder ns src dst.
Proof. reflexivity. Qed.

Section Builders.
Variable fails : nat -> bool.

(* the builder returns; its output list owns exactly the new blocks, also when it returns ERROR_INSUFFICIENT_MEMORY
   (the caller destroys the partial list) *)
Lemma list_builder_spec : forall ns src dst s,
  src <> dst -> (forall b, In b (lv s src) -> In b (live s)) ->
  exists s' new, exec fails (list_builder ns src dst) s = (Returned, s') /\
    live s' = new ++ live s /\ lv s' dst = new /\ (forall l', l' <> dst -> lv s' l' = lv s l') /\
    (forall y, y <> vNEW -> pv s' y = pv s y) /\
    ((rc s' = OK /\ length new = list_sum ns /\ count s' = count s + list_sum ns) \/
     (rc s' = ENOMEM /\ length new < list_sum ns /\ count s' <= count s + list_sum ns)).
Proof.
  intros ns src dst s Hne Hsrc. unfold list_builder. cbn [exec].
  set (s0 := mkst (live s) (next s) (count s) (pv s) (upd (lv s) dst []) (rc s)).
  assert (Hl : lv s0 src = lv s src) by (cbn; apply upd_other; auto).
  rewrite Hl. cbn [live s0]. change (live s0) with (live s). rewrite (all_live_incl _ _ Hsrc).
  destruct (push_loops_spec fails vNEW dst ns s0) as (o & s1 & new & E & (P1 & P2 & P3 & P4) & R).
  rewrite E. cbn in P1, P2. rewrite upd_same, app_nil_r in P2.
  destruct R as [(-> & Hrc & Hlen & Hc) | (-> & Hrc & Hlen & Hc)].
  - eexists _, new. split; [reflexivity|]. cbn. cbn in Hc.
    split; [assumption|]. split; [assumption|]. split; [intros l' Hl'; rewrite P3 by auto; cbn; apply upd_other; auto|].
    split; [assumption|]. left. auto.
  - exists s1, new. split; [reflexivity|]. cbn in Hc.
    split; [assumption|]. split; [assumption|]. split; [intros l' Hl'; rewrite P3 by auto; cbn; apply upd_other; auto|].
    split; [assumption|]. right. auto.
Qed.

(* ---- yr_atoms_extract_from_string *)
Definition J (live0 : list nat) (s : state) : Prop := Permutation (live s) (lv s lATOMS ++ live0).

Definition stage_ok (live0 : list nat) (r : outcome * state) : Prop :=
  (fst r = Returned /\ rc (snd r) = ENOMEM /\ Permutation (live (snd r)) live0) \/
  (fst r = Normal /\ J live0 (snd r)).

Definition final_ok (live0 : list nat) (r : outcome * state) : Prop :=
  fst r = Returned /\
  ((rc (snd r) = OK /\ J live0 (snd r)) \/ (rc (snd r) = ENOMEM /\ Permutation (live (snd r)) live0)).

Lemma seq_stage : forall live0 a b s,
  stage_ok live0 (exec fails a s) -> (forall s1, J live0 s1 -> stage_ok live0 (exec fails b s1)) ->
  stage_ok live0 (exec fails (Seq a b) s).
Proof.
  intros live0 a b s Ha Hb. cbn [exec]. destruct (exec fails a s) as [o s1]. unfold stage_ok in Ha. cbn [fst snd] in Ha.
  destruct Ha as [(-> & H1 & H2) | (-> & H1)]; [left; auto | apply Hb, H1].
Qed.

Lemma seq_final : forall live0 a b s,
  stage_ok live0 (exec fails a s) -> (forall s1, J live0 s1 -> final_ok live0 (exec fails b s1)) ->
  final_ok live0 (exec fails (Seq a b) s).
Proof.
  intros live0 a b s Ha Hb. cbn [exec]. destruct (exec fails a s) as [o s1]. unfold stage_ok in Ha. cbn [fst snd] in Ha.
  destruct Ha as [(-> & H1 & H2) | (-> & H1)]; [split; cbn; auto | apply Hb, H1].
Qed.

Lemma J_In : forall live0 s b, J live0 s -> In b (lv s lATOMS) -> In b (live s).
Proof.
  intros live0 s b HJ Hb. eapply Permutation_in; [apply Permutation_sym, HJ | apply in_or_app; left; exact Hb].
Qed.

(* FAIL_ON_ERROR_WITH_CLEANUP( builder(atoms, &dst), { destroy(atoms); destroy(dst); atoms = NULL; } ) *)
Lemma builder_stage : forall live0 ns dst s, dst <> lATOMS -> J live0 s ->
  let r := exec fails (fail_on_error_with_cleanup (list_builder ns lATOMS dst) (destroy2 lATOMS dst)) s in
  (fst r = Returned /\ rc (snd r) = ENOMEM /\ Permutation (live (snd r)) live0) \/
  (fst r = Normal /\ exists new, live (snd r) = new ++ live s /\ lv (snd r) dst = new /\ lv (snd r) lATOMS = lv s lATOMS).
Proof.
  intros live0 ns dst s Hne HJ. unfold fail_on_error_with_cleanup. cbn [exec].
  destruct (list_builder_spec ns lATOMS dst s (not_eq_sym Hne) (fun b => J_In live0 s b HJ))
    as (s1 & new & E & L1 & L2 & L3 & L4 & R).
  rewrite E. destruct R as [(Hrc & _) | (Hrc & _)]; rewrite Hrc.
  - right. cbn. split; [reflexivity|]. exists new. auto.
  - left. unfold destroy2. cbn [exec].
    assert (HP : Permutation (live s1) (lv s1 lATOMS ++ (new ++ live0))).
    { rewrite L1, (L3 lATOMS) by auto. unfold J in HJ. rewrite HJ.
      rewrite !app_assoc. apply Permutation_app_tail, Permutation_app_comm. }
    destruct (free_all_perm _ _ _ HP) as (lv1 & F1 & P1). rewrite F1. cbn [lv live].
    rewrite L2. destruct (free_all_perm _ _ _ P1) as (lv2 & F2 & P2). rewrite F2. cbn.
    repeat split; auto.
Qed.

Definition stage_keep (ns : list nat) (dst : nat) : cmd :=
  Seq (fail_on_error_with_cleanup (list_builder ns lATOMS dst) (destroy2 lATOMS dst)) (Append lATOMS dst).
Definition stage_replace (ns : list nat) (dst : nat) : cmd :=
  Seq (fail_on_error_with_cleanup (list_builder ns lATOMS dst) (destroy2 lATOMS dst)) (Seq (FreeList lATOMS) (MoveL lATOMS dst)).

Lemma stage_keep_ok : forall live0 ns dst s, dst <> lATOMS -> J live0 s -> stage_ok live0 (exec fails (stage_keep ns dst) s).
Proof.
  intros live0 ns dst s Hne HJ. unfold stage_keep. cbn [exec].
  pose proof (builder_stage live0 ns dst s Hne HJ) as H. cbv zeta in H.
  destruct (exec fails (fail_on_error_with_cleanup (list_builder ns lATOMS dst) (destroy2 lATOMS dst)) s) as [o s1].
  cbn [fst snd] in H. destruct H as [(-> & H1 & H2) | (-> & new & H1 & H2 & H3)]; [left; auto|].
  right. cbn [exec].
  assert (Hl : all_live (lv s1 lATOMS) (live s1) = true).
  { apply all_live_incl. intros b Hb. rewrite H1. apply in_or_app. right. rewrite H3 in Hb. eapply J_In; eauto. }
  rewrite Hl. cbn. split; [reflexivity|]. unfold J. cbn. rewrite ?upd_same, H1, H2, H3. unfold J in HJ. rewrite HJ.
  rewrite <- !app_assoc. apply Permutation_app_swap_app.
Qed.

Lemma stage_replace_ok : forall live0 ns dst s, dst <> lATOMS -> J live0 s -> stage_ok live0 (exec fails (stage_replace ns dst) s).
Proof.
  intros live0 ns dst s Hne HJ. unfold stage_replace. cbn [exec].
  pose proof (builder_stage live0 ns dst s Hne HJ) as H. cbv zeta in H.
  destruct (exec fails (fail_on_error_with_cleanup (list_builder ns lATOMS dst) (destroy2 lATOMS dst)) s) as [o s1].
  cbn [fst snd] in H. destruct H as [(-> & H1 & H2) | (-> & new & H1 & H2 & H3)]; [left; auto|].
  right. cbn [exec].
  assert (HP : Permutation (live s1) (lv s1 lATOMS ++ (new ++ live0))).
  { rewrite H1, H3. unfold J in HJ. rewrite HJ. rewrite !app_assoc. apply Permutation_app_tail, Permutation_app_comm. }
  destruct (free_all_perm _ _ _ HP) as (lv1 & F1 & P1). rewrite F1. cbn. split; [reflexivity|].
  unfold J. cbn. rewrite ?upd_same, H2. exact P1.
Qed.

Lemma skip_ok : forall live0 s, J live0 s -> stage_ok live0 (exec fails Skip s).
Proof. intros. right. cbn. auto. Qed.

Lemma extract_is : forall i, extract_from_string i =
  seqs [ Malloc vITEM; IfNull vITEM (Return ENOMEM) Skip; Use vITEM; ClearL lATOMS; Push vITEM lATOMS;
         (if in_wide i then if in_ascii i then stage_keep (repeat 1 (length (atoms0 i))) lWIDE
                            else stage_replace (repeat 1 (length (atoms0 i))) lWIDE else Skip);
         (if in_nocase i then stage_keep (map (fun a => length (case_variants a)) (atoms1 i)) lCI else Skip);
         (if in_xor i then stage_replace (repeat (xor_iters (in_xmin i) (in_xmax i)) (length (atoms2 i))) lXOR else Skip);
         UseList lATOMS; Return OK ].
Proof. intros i. unfold extract_from_string. destruct (in_wide i), (in_ascii i), (in_nocase i), (in_xor i); reflexivity. Qed.

Lemma extract_prefix : forall rest s,
  exec fails (Seq (Malloc vITEM) (Seq (IfNull vITEM (Return ENOMEM) Skip) (Seq (Use vITEM) (Seq (ClearL lATOMS) (Seq (Push vITEM lATOMS) rest))))) s =
  if fails (S (count s))
  then (Returned, mkst (live s) (next s) (S (count s)) (upd (pv s) vITEM None) (lv s) ENOMEM)
  else exec fails rest (mkst (next s :: live s) (S (next s)) (S (count s)) (upd (pv s) vITEM (Some (next s)))
                             (upd (upd (lv s) lATOMS []) lATOMS [next s]) (rc s)).
Proof.
  intros rest s. cbn [exec]. destruct (fails (S (count s))); cbn; [reflexivity|].
  rewrite Nat.eqb_refl. cbn. rewrite Nat.eqb_refl. reflexivity.
Qed.

Theorem extract_from_string_spec : forall i s, final_ok (live s) (exec fails (extract_from_string i) s).
Proof.
  intros i s. rewrite extract_is. cbn [seqs]. rewrite extract_prefix.
  destruct (fails (S (count s))) eqn:F.
  - split; [reflexivity|]. right. split; [reflexivity | apply Permutation_refl].
  - set (s1 := mkst (next s :: live s) (S (next s)) (S (count s)) (upd (pv s) vITEM (Some (next s)))
                    (upd (upd (lv s) lATOMS []) lATOMS [next s]) (rc s)).
    assert (HJ : J (live s) s1) by (unfold J; cbn; apply Permutation_refl).
    clearbody s1.
    apply seq_final.
    { destruct (in_wide i); [destruct (in_ascii i); [apply stage_keep_ok | apply stage_replace_ok]; auto; discriminate | apply skip_ok; auto]. }
    intros s2 HJ2. apply seq_final.
    { destruct (in_nocase i); [apply stage_keep_ok; auto; discriminate | apply skip_ok; auto]. }
    intros s3 HJ3. apply seq_final.
    { destruct (in_xor i); [apply stage_replace_ok; auto; discriminate | apply skip_ok; auto]. }
    intros s4 HJ4. cbn [exec].
    rewrite (all_live_incl _ _ (fun b => J_In _ _ b HJ4)). cbn. split; [reflexivity|]. left. split; [reflexivity | exact HJ4].
Qed.

End Builders.

(* ------------------------------------------------------------------ straight-line functions *)
Lemma if_same : forall A (b : bool) (x : A), (if b then x else x) = x.
Proof. destruct b; reflexivity. Qed.

Ltac eqb_simp :=
  repeat match goal with
         | |- context [Nat.eqb ?a ?a] => rewrite (Nat.eqb_refl a)
         | |- context [Nat.eqb ?a ?b] => replace (Nat.eqb a b) with false by (symmetry; apply Nat.eqb_neq; lia)
         end.

Ltac memb_simp :=
  repeat match goal with
         | H : In ?b ?l |- context [memb ?b ?l] => rewrite (proj2 (memb_In b l) H)
         end; rewrite ?if_same.

Ltac run := repeat (cbn; eqb_simp; memb_simp).

Section Straight.
Variable fails : nat -> bool.

(* notebook.c *)
Theorem notebook_create_spec : forall s, exists s', exec fails notebook_create s = (Returned, s') /\
  ((rc s' = OK /\ exists n p, pv s' vNB = Some n /\ lv s' lPAGES = [p] /\ live s' = p :: n :: live s) \/
   (rc s' = ENOMEM /\ live s' = live s)).
Proof.
  intros s. unfold notebook_create. cbn [seqs exec].
  destruct (fails (S (count s))) eqn:F1; run.
  - eexists. split; [reflexivity|]. right. auto.
  - destruct (fails (S (S (count s)))) eqn:F2; run.
    + eexists. split; [reflexivity|]. right. auto.
    + eexists. split; [reflexivity|]. left. split; [reflexivity|]. eexists _, _. cbn. auto.
Qed.

Theorem notebook_alloc_spec : forall needs s n, pv s vNB = Some n -> In n (live s) ->
  (forall b, In b (lv s lPAGES) -> In b (live s)) ->
  exists s', exec fails (notebook_alloc needs) s = (Returned, s') /\ pv s' vNB = Some n /\
  ((rc s' = OK /\ exists new, live s' = new ++ live s /\ lv s' lPAGES = new ++ lv s lPAGES /\ length new = (if needs then 1 else 0)) \/
   (rc s' = ENOMEM /\ live s' = live s /\ lv s' lPAGES = lv s lPAGES)).
Proof.
  intros needs s n Hn Hin Hpages. unfold notebook_alloc. cbn [seqs exec]. rewrite Hn. memb_simp.
  rewrite (all_live_incl _ _ Hpages). destruct needs.
  - cbn [seqs exec]. destruct (fails (S (count s))) eqn:F1; run.
    + eexists. split; [reflexivity|]. cbn. split; [assumption|]. right. auto.
    + assert (Hl : all_live (lv s lPAGES) (next s :: live s) = true) by (apply all_live_incl; intros b Hb; right; auto).
      unfold all_live in Hl. cbn [memb] in Hl. rewrite Hl. cbn. eexists. split; [reflexivity|]. cbn. split; [assumption|]. left. split; [reflexivity|].
      exists [next s]. auto.
  - cbn [seqs exec]. rewrite (all_live_incl _ _ Hpages). cbn. eexists. split; [reflexivity|]. cbn. split; [assumption|].
    left. split; [reflexivity|]. exists []. auto.
Qed.

Theorem notebook_destroy_spec : forall s n frame, pv s vNB = Some n ->
  Permutation (live s) (n :: lv s lPAGES ++ frame) ->
  exists s', exec fails notebook_destroy s = (Returned, s') /\ rc s' = OK /\ Permutation (live s') frame.
Proof.
  intros s n frame Hn HP. unfold notebook_destroy. cbn [seqs exec]. rewrite Hn.
  assert (Hin : In n (live s)) by (eapply Permutation_in; [apply Permutation_sym, HP | left; reflexivity]).
  memb_simp.
  assert (HP2 : Permutation (live s) (lv s lPAGES ++ (n :: frame))).
  { rewrite HP. apply Permutation_middle. }
  destruct (free_all_perm _ _ _ HP2) as (lv1 & F1 & P1). rewrite F1. cbn. rewrite Hn.
  assert (Hin1 : In n lv1) by (eapply Permutation_in; [apply Permutation_sym, P1 | left; reflexivity]).
  memb_simp. cbn. eexists. split; [reflexivity|]. cbn. split; [reflexivity|]. apply remove1_perm_inv. exact P1.
Qed.

(* stack.c *)
Theorem stack_create_spec : forall s, exists s', exec fails stack_create s = (Returned, s') /\
  ((rc s' = OK /\ exists a d, pv s' vSTACK = Some a /\ pv s' vITEMS = Some d /\ live s' = d :: a :: live s) \/
   (rc s' = ENOMEM /\ live s' = live s /\ pv s' vSTACK = None)).
Proof.
  intros s. unfold stack_create. cbn [seqs exec].
  destruct (fails (S (count s))) eqn:F1; run.
  - eexists. split; [reflexivity|]. right. auto.
  - destruct (fails (S (S (count s)))) eqn:F2; run.
    + eexists. split; [reflexivity|]. right. auto.
    + eexists. split; [reflexivity|]. left. split; [reflexivity|]. eexists _, _. cbn. auto.
Qed.

Theorem stack_push_spec : forall full s a d, wf s -> pv s vSTACK = Some a -> pv s vITEMS = Some d -> In a (live s) -> In d (live s) -> a <> d ->
  exists s', exec fails (stack_push full) s = (Returned, s') /\ pv s' vSTACK = Some a /\
  ((rc s' = OK /\ exists d', pv s' vITEMS = Some d' /\ In a (live s') /\ In d' (live s') /\ a <> d' /\
                  Permutation (d :: live s') (d' :: live s)) \/
   (rc s' = ENOMEM /\ live s' = live s /\ pv s' vITEMS = Some d)).
Proof.
  intros full s a d Hwf Ha Hd Hina Hind Hne. unfold stack_push. cbn [seqs exec]. rewrite Ha. memb_simp. destruct full.
  - cbn [seqs exec]. destruct (fails (S (count s))) eqn:F1.
    + run. eexists. split; [reflexivity|]. cbn. split; [assumption|]. right. auto.
    + rewrite Hd. memb_simp. run. eexists. split; [reflexivity|]. cbn. split; [assumption|]. left. split; [reflexivity|].
      exists (next s). split; [reflexivity|]. split.
      * right. pose proof (remove1_perm d (live s) Hind) as P. 
        assert (In a (d :: remove1 d (live s))) as [Hx|Hx] by (eapply Permutation_in; eauto); [congruence | exact Hx].
      * split; [left; reflexivity|]. split.
        -- intro Hx. subst a. destruct Hwf as [_ Hb]. apply Hb in Hina. lia.
        -- eapply perm_trans; [apply perm_swap|]. apply perm_skip. apply Permutation_sym, remove1_perm, Hind.
  - cbn [seqs exec]. rewrite Hd. memb_simp. cbn. eexists. split; [reflexivity|]. cbn. split; [assumption|]. left. split; [reflexivity|].
    exists d. repeat split; auto.
Qed.

Theorem stack_destroy_spec : forall s a d frame, pv s vSTACK = Some a -> pv s vITEMS = Some d ->
  Permutation (live s) (a :: d :: frame) -> a <> d ->
  exists s', exec fails stack_destroy s = (Normal, s') /\ Permutation (live s') frame.
Proof.
  intros s a d frame Ha Hd HP Hne. unfold stack_destroy. cbn [seqs exec]. rewrite Ha.
  assert (Hina : In a (live s)) by (eapply Permutation_in; [apply Permutation_sym, HP | left; reflexivity]).
  assert (Hind : In d (live s)) by (eapply Permutation_in; [apply Permutation_sym, HP | right; left; reflexivity]).
  memb_simp. rewrite Hd. memb_simp. cbn. rewrite Ha.
  assert (P1 : Permutation (remove1 d (live s)) (a :: frame)).
  { apply remove1_perm_inv. rewrite HP. apply perm_swap. }
  assert (Hina1 : In a (remove1 d (live s))) by (eapply Permutation_in; [apply Permutation_sym, P1 | left; reflexivity]).
  memb_simp. cbn. eexists. split; [reflexivity|]. cbn. apply remove1_perm_inv. exact P1.
Qed.

(* hash.c *)
Theorem hash_create_spec : forall s, exists s', exec fails hash_create s = (Returned, s') /\
  ((rc s' = OK /\ exists t, pv s' vTABLE = Some t /\ lv s' lENTRIES = [] /\ live s' = t :: live s) \/
   (rc s' = ENOMEM /\ live s' = live s)).
Proof.
  intros s. unfold hash_create. cbn [seqs exec].
  destruct (fails (S (count s))) eqn:F1; run.
  - eexists. split; [reflexivity|]. right. auto.
  - eexists. split; [reflexivity|]. left. split; [reflexivity|]. eexists. cbn. auto.
Qed.

(* on failure nothing is left behind; on success the table owns exactly the new blocks *)
Lemma memb_older : forall t l extra, In t l -> memb t (extra ++ l) = true.
Proof. intros. apply memb_In. apply in_or_app. right. assumption. Qed.

Theorem hash_add_spec : forall has_ns s t, pv s vTABLE = Some t -> In t (live s) ->
  exists s', exec fails (hash_add has_ns) s = (Returned, s') /\ pv s' vTABLE = Some t /\
  ((rc s' = OK /\ exists new, live s' = new ++ live s /\ lv s' lENTRIES = rev new ++ lv s lENTRIES /\
                  length new = (if has_ns then 3 else 2)) \/
   (rc s' = ENOMEM /\ live s' = live s /\ lv s' lENTRIES = lv s lENTRIES)).
Proof.
  intros has_ns s t Ht Hin. unfold hash_add, hash_add_to. cbn [seqs exec].
  destruct (fails (S (count s))) eqn:F1.
  { run. eexists. split; [reflexivity|]. cbn. split; [assumption|]. right. auto. }
  run. destruct (fails (S (S (count s)))) eqn:F2.
  { run. eexists. split; [reflexivity|]. cbn. split; [assumption|]. right. auto. }
  run. destruct has_ns.
  - cbn [seqs exec]. run. destruct (fails (S (S (S (count s))))) eqn:F3.
    { run. eexists. split; [reflexivity|]. cbn. split; [assumption|]. right. auto. }
    run. rewrite Ht.
    pose proof (memb_older t (live s) [S (S (next s)); S (next s); next s] Hin) as M. cbn [app memb] in M. rewrite M.
    run. eexists. split; [reflexivity|]. cbn. split; [assumption|].
    left. split; [reflexivity|]. exists [S (S (next s)); S (next s); next s]. auto.
  - cbn [seqs exec]. run. rewrite Ht.
    pose proof (memb_older t (live s) [S (next s); next s] Hin) as M. cbn [app memb] in M. rewrite M.
    run. eexists. split; [reflexivity|]. cbn. split; [assumption|].
    left. split; [reflexivity|]. exists [S (next s); next s]. auto.
Qed.

Theorem hash_destroy_spec : forall s t frame, pv s vTABLE = Some t ->
  Permutation (live s) (t :: lv s lENTRIES ++ frame) ->
  exists s', exec fails hash_destroy s = (Normal, s') /\ Permutation (live s') frame.
Proof.
  intros s t frame Ht HP. unfold hash_destroy. cbn [seqs exec]. rewrite Ht.
  assert (Hin : In t (live s)) by (eapply Permutation_in; [apply Permutation_sym, HP | left; reflexivity]).
  memb_simp.
  assert (HP2 : Permutation (live s) (lv s lENTRIES ++ (t :: frame))) by (rewrite HP; apply Permutation_middle).
  destruct (free_all_perm _ _ _ HP2) as (lv1 & F1 & P1). rewrite F1. cbn. rewrite Ht.
  assert (Hin1 : In t lv1) by (eapply Permutation_in; [apply Permutation_sym, P1 | left; reflexivity]).
  memb_simp. cbn. eexists. split; [reflexivity|]. cbn. apply remove1_perm_inv. exact P1.
Qed.

(* arena.c *)
Theorem arena_create_spec : forall s, exists s', exec fails arena_create s = (Returned, s') /\
  ((rc s' = OK /\ exists a, pv s' vARENA = Some a /\ lv s' lRELOCS = [] /\ live s' = a :: live s) \/
   (rc s' = ENOMEM /\ live s' = live s)).
Proof.
  intros s. unfold arena_create. cbn [seqs exec].
  destruct (fails (S (count s))) eqn:F1; run.
  - eexists. split; [reflexivity|]. right. auto.
  - eexists. split; [reflexivity|]. left. split; [reflexivity|]. eexists. cbn. auto.
Qed.

(* the relocation entries made before a failure stay in the arena's list: they are released with the arena *)
Theorem arena_make_ptr_relocatable_spec : forall n s a, pv s vARENA = Some a -> In a (live s) ->
  exists s' new, exec fails (arena_make_ptr_relocatable n) s = (Returned, s') /\ pv s' vARENA = Some a /\
    live s' = new ++ live s /\ lv s' lRELOCS = new ++ lv s lRELOCS /\
    ((rc s' = OK /\ length new = n) \/ (rc s' = ENOMEM /\ length new < n)).
Proof.
  intros n s a Ha Hin. unfold arena_make_ptr_relocatable. cbn [exec]. rewrite Ha. memb_simp.
  destruct (push_loops_spec fails vNEW lRELOCS [n] s) as (o & s1 & new & E & (P1 & P2 & P3 & P4) & R).
  rewrite E. cbn [list_sum fold_right] in R. rewrite Nat.add_0_r in R.
  assert (Ha1 : pv s1 vARENA = Some a) by (rewrite P4; [assumption | discriminate]).
  destruct R as [(-> & Hrc & Hlen & Hc) | (-> & Hrc & Hlen & Hc)].
  - eexists _, new. split; [reflexivity|]. cbn. repeat split; auto.
  - exists s1, new. split; [reflexivity|]. repeat split; auto.
Qed.

(* a failed growth leaves the buffer as it was; a successful one replaces the buffer's block *)
Theorem arena_allocate_spec : forall path buf s a, pv s vARENA = Some a -> In a (live s) ->
  (forall b, In b (lv s lRELOCS) -> In b (live s)) ->
  (forall d, pv s (vBUF buf) = Some d -> In d (live s) /\ d <> a /\ ~ In d (lv s lRELOCS)) ->
  exists s', exec fails (arena_allocate path buf) s = (Returned, s') /\
    ((rc s' = ENOMEM /\ live s' = live s /\ pv s' (vBUF buf) = pv s (vBUF buf)) \/
     (rc s' = OK /\ match path with
                    | Grow => exists d', pv s' (vBUF buf) = Some d' /\
                                match pv s (vBUF buf) with
                                | Some d => Permutation (d :: live s') (d' :: live s)
                                | None => live s' = d' :: live s
                                end
                    | _ => live s' = live s /\ pv s' (vBUF buf) = pv s (vBUF buf)
                    end)).
Proof.
  intros path buf s a Ha Hin Hrel Hbuf. unfold arena_allocate. cbn [exec]. rewrite Ha. memb_simp. destruct path.
  - cbn. eexists. split; [reflexivity|]. right. cbn. auto.
  - cbn. eexists. split; [reflexivity|]. left. cbn. auto.
  - cbn [seqs exec]. destruct (fails (S (count s))) eqn:F1.
    + run. eexists. split; [reflexivity|]. left. cbn. repeat split; auto.
    + destruct (pv s (vBUF buf)) as [d|] eqn:Hd.
      * destruct (Hbuf d eq_refl) as (Hind & Hda & Hdr). memb_simp. run.
        assert (Hl : all_live (lv s lRELOCS) (next s :: remove1 d (live s)) = true).
        { apply all_live_incl. intros b Hb. right. pose proof (remove1_perm d (live s) Hind) as P.
          assert (In b (d :: remove1 d (live s))) as [Hx|Hx] by (eapply Permutation_in; [exact P | auto]); [subst; contradiction | exact Hx]. }
        unfold all_live in Hl. cbn [memb] in Hl. rewrite Hl. run.
        eexists. split; [reflexivity|]. right. cbn. split; [reflexivity|]. exists (next s). rewrite upd_same. split; [reflexivity|].
        eapply perm_trans; [apply perm_swap|]. apply perm_skip. apply Permutation_sym, remove1_perm, Hind.
      * run.
        assert (Hl : all_live (lv s lRELOCS) (next s :: live s) = true) by (apply all_live_incl; intros b Hb; right; auto).
        unfold all_live in Hl. cbn [memb] in Hl. rewrite Hl. run.
        eexists. split; [reflexivity|]. right. cbn. split; [reflexivity|]. exists (next s). rewrite upd_same. auto.
Qed.

End Straight.

Definition buf_blocks (s : state) (is : list nat) : list nat :=
  flat_map (fun i => match pv s (vBUF i) with Some d => [d] | None => [] end) is.

Lemma free_buffers_spec : forall fails is s rest, Permutation (live s) (buf_blocks s is ++ rest) ->
  exists s', exec fails (foreach is (fun i => IfNull (vBUF i) Skip (Free (vBUF i)))) s = (Normal, s') /\
    pv s' = pv s /\ lv s' = lv s /\ rc s' = rc s /\ Permutation (live s') rest.
Proof.
  induction is as [|i is IH]; intros s rest HP.
  - cbn. eexists. split; [reflexivity|]. cbn in HP. auto.
  - cbn [foreach exec]. unfold buf_blocks in HP. cbn [flat_map] in HP. destruct (pv s (vBUF i)) as [d|] eqn:Hd.
    + cbn [exec]. rewrite ?Hd.
      assert (Hin : In d (live s)) by (eapply Permutation_in; [apply Permutation_sym, HP | left; reflexivity]).
      rewrite (proj2 (memb_In _ _) Hin).
      set (s1 := mkst (remove1 d (live s)) (next s) (count s) (pv s) (lv s) (rc s)).
      destruct (IH s1 rest) as (s' & E & A & B & C & D).
      { cbn. apply remove1_perm_inv. exact HP. }
      exists s'. split; [exact E|]. auto.
    + cbn [exec]. apply IH. exact HP.
Qed.

Theorem arena_release_spec : forall fails nbuf s a frame, pv s vARENA = Some a ->
  Permutation (live s) (a :: buf_blocks s (seq 0 nbuf) ++ lv s lRELOCS ++ frame) ->
  exists s', exec fails (arena_release nbuf) s = (Returned, s') /\ rc s' = OK /\ Permutation (live s') frame.
Proof.
  intros fails nbuf s a frame Ha HP. unfold arena_release. cbn [exec]. rewrite Ha.
  assert (Hin : In a (live s)) by (eapply Permutation_in; [apply Permutation_sym, HP | left; reflexivity]).
  rewrite (proj2 (memb_In _ _) Hin).
  destruct (free_buffers_spec fails (seq 0 nbuf) s (lv s lRELOCS ++ (a :: frame))) as (s1 & E & A & B & C & D).
  { rewrite HP. rewrite app_assoc. rewrite Permutation_middle. rewrite <- app_assoc. reflexivity. }
  rewrite E. cbn [exec]. rewrite B.
  destruct (free_all_perm _ _ _ D) as (lv1 & F1 & P1). rewrite F1. cbn. rewrite A, Ha.
  assert (Hin1 : In a lv1) by (eapply Permutation_in; [apply Permutation_sym, P1 | left; reflexivity]).
  rewrite (proj2 (memb_In _ _) Hin1). cbn. eexists. split; [reflexivity|]. cbn. split; [reflexivity|].
  apply remove1_perm_inv. exact P1.
Qed.

Lemma NoDup_app_l : forall (a b : list nat), NoDup (a ++ b) -> NoDup a.
Proof.
  induction a as [|x a IH]; cbn; intros b H; [constructor|]. inversion H; subst. constructor; [|eauto].
  intro Hx. apply H2. apply in_or_app. left. exact Hx.
Qed.

(* the returned atom list is destroyable: its nodes are distinct live blocks, and they are exactly what was added *)
Corollary extract_from_string_fail_safe_full : forall fails i s o s', wf s ->
  exec fails (extract_from_string i) s = (o, s') ->
  o = Returned /\ wf s' /\
  ((rc s' = OK /\ Permutation (live s') (lv s' lATOMS ++ live s) /\ NoDup (lv s' lATOMS) /\
    (forall b, In b (lv s' lATOMS) -> In b (live s'))) \/
   (rc s' = ENOMEM /\ Permutation (live s') (live s))).
Proof.
  intros fails i s o s' Hwf E. pose proof (extract_from_string_spec fails i s) as H. rewrite E in H.
  destruct H as [Ho H]. cbn [fst snd] in *. split; [assumption|].
  destruct (exec_wf fails _ _ _ _ Hwf E) as (Hwf' & _). split; [assumption|].
  destruct H as [(Hrc & HJ) | (Hrc & HP)]; [left | right; auto].
  unfold J in HJ. split; [assumption|]. split; [assumption|]. split.
  - destruct Hwf' as [Hn _]. eapply Permutation_NoDup in Hn; [| exact HJ]. apply NoDup_app_l in Hn. exact Hn.
  - intros b Hb. eapply Permutation_in; [apply Permutation_sym, HJ | apply in_or_app; left; exact Hb].
Qed.

(* ------------------------------------------------------------------ non-vacuity *)
Definition ex_input : atoms_input := mkin [97; 98; 49; 100; 101]%N true true true true 1 3.

Example extract_succeeds : let r := exec (fun _ => false) (extract_from_string ex_input) empty_state in
  fst r = Returned /\ rc (snd r) = OK /\ length (lv (snd r) lATOMS) = 36 /\ length (live (snd r)) = 36 /\ count (snd r) = 48.
Proof. vm_compute. repeat split; reflexivity. Qed.

Example extract_fails_cleanly : forall k, In k (seq 1 48) ->
  let r := exec (fail_kth k) (extract_from_string ex_input) empty_state in
  fst r = Returned /\ rc (snd r) = ENOMEM /\ live (snd r) = [].
Proof.
  assert (H : forallb (fun k => let r := exec (fail_kth k) (extract_from_string ex_input) empty_state in
              match fst r, rc (snd r), live (snd r) with Returned, ENOMEM, [] => true | _, _, _ => false end) (seq 1 48) = true)
    by (vm_compute; reflexivity).
  intros k Hk. rewrite forallb_forall in H. specialize (H k Hk). cbv zeta in *.
  destruct (exec (fail_kth k) (extract_from_string ex_input) empty_state) as [o s1]. cbn [fst snd] in *.
  destruct o; try discriminate. destruct (rc s1); try discriminate. destruct (live s1); try discriminate. auto.
Qed.

Example stack_push_hypotheses_satisfiable :
  let s := snd (exec (fun _ => false) stack_create empty_state) in
  wf s /\ pv s vSTACK = Some 0 /\ pv s vITEMS = Some 1 /\ In 0 (live s) /\ In 1 (live s) /\ 0 <> 1.
Proof.
  cbv zeta. split.
  - eapply exec_wf with (fails := fun _ => false) (c := stack_create) (s := empty_state); [apply wf_empty | apply surjective_pairing].
  - vm_compute. repeat split; auto. discriminate.
Qed.

Example arena_release_hypotheses_satisfiable :
  let s := snd (arena_ops (fun _ => false) 64%N [AAlloc 0 32%N; AReloc 0 2; AAlloc 1 100%N] (repeat (mkbuf 0 0) 3)
                          (snd (run_op (fun _ => false) arena_create empty_state))) in
  pv s vARENA = Some 0 /\ Permutation (live s) (0 :: buf_blocks s (seq 0 3) ++ lv s lRELOCS ++ []).
Proof.
  vm_compute. split; [reflexivity|].
  apply NoDup_Permutation; [repeat constructor; cbn; intuition lia | repeat constructor; cbn; intuition lia |].
  intros x. cbn. intuition lia.
Qed.

Example notebook_destroy_hypotheses_satisfiable :
  let s := snd (exec (fun _ => false) notebook_create empty_state) in
  pv s vNB = Some 0 /\ Permutation (live s) (0 :: lv s lPAGES ++ []).
Proof. vm_compute. split; [reflexivity | apply perm_swap]. Qed.
