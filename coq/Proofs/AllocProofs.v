(* C16: fail-safety of the AllocLang translations (Model/AllocLang.v), for every set of failing allocations. *)
From Coq Require Import List Arith Bool NArith Lia Permutation.
From YV Require Import Model.AllocLang.
Import ListNotations.

(* ------------------------------------------------------------------ lists of blocks *)
Lemma memb_In : forall b l, memb b l = true <-> In b l.
Proof.
  induction l as [|c t IH]; cbn; [split; [discriminate | tauto]|].
  destruct (Nat.eqb b c) eqn:E.
  - apply Nat.eqb_eq in E. subst. tauto.
  - apply Nat.eqb_neq in E. rewrite IH. split; [tauto | intros [H|H]; [congruence | exact H]].
Qed.

Lemma memb_false : forall b l, memb b l = false <-> ~ In b l.
Proof. intros. rewrite <- memb_In. destruct (memb b l); split; congruence. Qed.

Lemma remove1_perm : forall b l, In b l -> Permutation l (b :: remove1 b l).
Proof.
  induction l as [|c t IH]; cbn; [tauto|]. intros H.
  destruct (Nat.eqb b c) eqn:E.
  - apply Nat.eqb_eq in E. subst. apply Permutation_refl.
  - apply Nat.eqb_neq in E. destruct H as [H|H]; [congruence|].
    eapply perm_trans; [apply perm_skip, IH, H | apply perm_swap].
Qed.

Lemma remove1_In : forall a b l, In a (remove1 b l) -> In a l.
Proof.
  induction l as [|c t IH]; cbn; [tauto|]. destruct (Nat.eqb b c); cbn; tauto.
Qed.

Lemma remove1_NoDup : forall b l, NoDup l -> NoDup (remove1 b l).
Proof.
  induction l as [|c t IH]; cbn; intros H; [constructor|]. inversion H; subst.
  destruct (Nat.eqb b c); [assumption|]. constructor; [|auto]. intro Hc. apply remove1_In in Hc. contradiction.
Qed.

Lemma remove1_perm_inv : forall b l r, Permutation l (b :: r) -> Permutation (remove1 b l) r.
Proof.
  intros b l r H. assert (Hin : In b l) by (eapply Permutation_in; [apply Permutation_sym, H | left; reflexivity]).
  apply (Permutation_cons_inv (a := b)). eapply perm_trans; [apply Permutation_sym, remove1_perm, Hin | exact H].
Qed.

Lemma free_all_perm : forall l lv0 r, Permutation lv0 (l ++ r) ->
  exists lv', free_all l lv0 = Some lv' /\ Permutation lv' r.
Proof.
  induction l as [|b t IH]; cbn; intros lv0 r H; [eauto|].
  assert (Hin : In b lv0) by (eapply Permutation_in; [apply Permutation_sym, H | left; reflexivity]).
  apply memb_In in Hin. rewrite Hin. apply IH. apply remove1_perm_inv. exact H.
Qed.

Lemma all_live_incl : forall l lv0, (forall b, In b l -> In b lv0) -> all_live l lv0 = true.
Proof.
  intros. unfold all_live. apply forallb_forall. intros b Hb. apply memb_In. auto.
Qed.

Lemma free_all_In : forall l lv0 lv', free_all l lv0 = Some lv' -> forall b, In b lv' -> In b lv0.
Proof.
  induction l as [|c t IH]; cbn; intros lv0 lv' H b Hb; [inversion H; subst; assumption|].
  destruct (memb c lv0); [|discriminate]. eapply remove1_In. eapply IH; eauto.
Qed.

Lemma free_all_NoDup : forall l lv0 lv', free_all l lv0 = Some lv' -> NoDup lv0 -> NoDup lv'.
Proof.
  induction l as [|c t IH]; cbn; intros lv0 lv' H Hn; [inversion H; subst; assumption|].
  destruct (memb c lv0); [|discriminate]. eapply IH; eauto. apply remove1_NoDup, Hn.
Qed.

(* ------------------------------------------------------------------ well-formed states; preserved by every program *)
Definition bounded (s : state) : Prop := forall b, In b (live s) -> b < next s.
Definition wf (s : state) : Prop := NoDup (live s) /\ bounded s.

Lemma wf_empty : wf empty_state.
Proof. split; [constructor | intros b []]. Qed.

Lemma wf_alloc : forall s i pvf lvf r, wf s -> wf (mkst (next s :: live s) (S (next s)) i pvf lvf r).
Proof.
  intros s i pvf lvf r [Hn Hb]. unfold bounded in *. split; cbn.
  - constructor; [|assumption]. intro H. apply Hb in H. lia.
  - intros b [H|H]; [lia | apply Hb in H; lia].
Qed.

Lemma wf_same_live : forall s n i pvf lvf r, wf s -> next s <= n -> wf (mkst (live s) n i pvf lvf r).
Proof. intros s n i pvf lvf r [Hn Hb] Hle. unfold bounded in *. split; cbn; [assumption | intros b H; apply Hb in H; lia]. Qed.

Section WithFails.
Variable fails : nat -> bool.

Theorem exec_wf : forall c s o s', wf s -> exec fails c s = (o, s') -> wf s' /\ next s <= next s' /\ count s <= count s'.
Proof.
  unfold wf, bounded. induction c; intros s o s' Hwf He; cbn in He; fold (wf s) in *.
  - inversion He; subst; auto.
  - destruct (exec fails c1 s) as [o1 s1] eqn:E1. destruct (IHc1 _ _ _ Hwf E1) as (H1 & H2 & H3).
    destruct o1; [| inversion He; subst; auto | inversion He; subst; auto].
    destruct (IHc2 _ _ _ H1 He) as (H4 & H5 & H6). repeat split; [apply H4 | apply H4 | lia | lia].
  - destruct (fails (S (count s))); inversion He; subst; cbn; (split; [| lia]).
    + apply wf_same_live; auto.
    + apply wf_alloc; auto.
  - destruct (fails (S (count s))).
    + inversion He; subst; cbn. split; [apply wf_same_live; auto | lia].
    + destruct (pv s x) as [b|].
      * destruct (memb b (live s)) eqn:M; inversion He; subst; cbn; [| auto].
        destruct Hwf as [Hn Hb]. split; [|lia]. split; cbn.
        -- constructor; [| apply remove1_NoDup, Hn]. intro H. apply remove1_In in H. apply Hb in H. lia.
        -- intros c [H|H]; [lia | apply remove1_In in H; apply Hb in H; lia].
      * inversion He; subst; cbn. split; [apply wf_alloc; auto | lia].
  - destruct (pv s x) as [b|]; [| inversion He; subst; auto].
    destruct (memb b (live s)); inversion He; subst; cbn; [| auto].
    destruct Hwf as [Hn Hb]. split; [|lia]. split; cbn; [apply remove1_NoDup, Hn | intros c H; apply remove1_In in H; auto].
  - destruct (pv s x); eauto.
  - destruct (pv s x) as [b|]; [destruct (memb b (live s))|]; inversion He; subst; auto.
  - inversion He; subst; cbn. split; [apply wf_same_live; auto | cbn; lia].
  - inversion He; subst; cbn. split; [apply wf_same_live; auto | cbn; lia].
  - destruct (pv s x) as [b|]; [destruct (memb b (live s))|]; inversion He; subst; auto.
    cbn. split; [apply wf_same_live; auto | cbn; lia].
  - destruct (all_live (lv s l) (live s)); inversion He; subst; auto.
  - destruct (all_live (lv s l1) (live s)); inversion He; subst; auto.
    cbn. split; [apply wf_same_live; auto | cbn; lia].
  - inversion He; subst; cbn. split; [apply wf_same_live; auto | cbn; lia].
  - inversion He; subst; cbn. split; [apply wf_same_live; auto | cbn; lia].
  - destruct (free_all (lv s l) (live s)) as [lv'|] eqn:F; inversion He; subst; auto.
    cbn. destruct Hwf as [Hn Hb]. split; [|cbn; lia]. split; cbn.
    + eapply free_all_NoDup; eauto.
    + intros b H. eapply free_all_In in H; eauto.
  - inversion He; subst; cbn. split; [apply wf_same_live; auto | cbn; lia].
  - inversion He; subst; auto.
  - destruct (exec fails c s) as [o1 s1] eqn:E1. destruct (IHc _ _ _ Hwf E1) as (H1 & H2 & H3).
    destruct o1; inversion He; subst; auto.
  - inversion He; subst; cbn. split; [apply wf_same_live; auto | cbn; lia].
  - destruct (rc s); eauto.
Qed.

End WithFails.
