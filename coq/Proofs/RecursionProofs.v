(* C06: recursion guards of the module parsers.  For a call graph between functions that carry a depth counter
   (edges: caller, callee, what is added to depth; -1 = a constant is passed) and rank certificates, the boolean
   check [calls_ok] implies, for EVERY closed call chain: no call on it passes a constant, at least one call
   passes depth + 1 (so depth strictly increases once around any cycle), and it goes through a function that
   tests depth against its limit before calling anything.  The graph and the certificates of dotnet.c are
   regenerated from the source on every run (gen/GenBounds.v). *)
From Coq Require Import ZArith List Bool Arith Lia.
From YV Require Import gen.GenBounds.
Import ListNotations.

Definition edge := (nat * nat * Z)%type.
Definition rk (r : list nat) (f : nat) : nat := nth f r 0%nat.
Definition gd (g : list bool) (f : nat) : bool := nth f g false.

Definition edge_ok (zr ur sr : list nat) (g : list bool) (e : edge) : bool :=
  match e with (f, h, d) =>
    (if (d =? 0)%Z then Nat.ltb (rk zr h) (rk zr f) else true) &&
    ((d =? 0)%Z || (d =? 1)%Z || (d =? -1)%Z) &&
    (if (d =? -1)%Z then Nat.ltb (rk sr h) (rk sr f) else Nat.leb (rk sr h) (rk sr f)) &&
    (if gd g f || gd g h then true else Nat.ltb (rk ur h) (rk ur f))
  end.

Definition calls_ok zr ur sr g (calls : list edge) : bool := forallb (edge_ok zr ur sr g) calls.

Inductive chain (calls : list edge) : nat -> nat -> list edge -> Prop :=
| chain_one : forall f h d, In (f, h, d) calls -> chain calls f h [(f, h, d)]
| chain_cons : forall f h k d es, In (f, h, d) calls -> chain calls h k es -> chain calls f k ((f, h, d) :: es).

Section Graph.
Variables (zr ur sr : list nat) (g : list bool) (calls : list edge).
Hypothesis Hok : calls_ok zr ur sr g calls = true.

Lemma edge_facts : forall f h d, In (f, h, d) calls ->
  (d = 0 \/ d = 1 \/ d = -1)%Z /\
  (d = 0%Z -> rk zr h < rk zr f) /\
  (rk sr h <= rk sr f) /\ (d = (-1)%Z -> rk sr h < rk sr f) /\
  (gd g f = false -> gd g h = false -> rk ur h < rk ur f).
Proof.
  intros f h d Hin. unfold calls_ok in Hok. rewrite forallb_forall in Hok. specialize (Hok _ Hin). unfold edge_ok in Hok.
  apply andb_prop in Hok. destruct Hok as [H123 H4]. apply andb_prop in H123. destruct H123 as [H12 H3].
  apply andb_prop in H12. destruct H12 as [H1 H2].
  repeat split.
  - destruct (d =? 0)%Z eqn:E0; [apply Z.eqb_eq in E0; auto|]. destruct (d =? 1)%Z eqn:E1; [apply Z.eqb_eq in E1; auto|].
    destruct (d =? -1)%Z eqn:E2; [apply Z.eqb_eq in E2; auto | discriminate].
  - intros ->. cbn in H1. apply Nat.ltb_lt in H1. exact H1.
  - destruct (d =? -1)%Z; [apply Nat.ltb_lt in H3; lia | apply Nat.leb_le in H3; exact H3].
  - intros ->. cbn in H3. apply Nat.ltb_lt in H3. exact H3.
  - intros Hf Hh. rewrite Hf, Hh in H4. cbn in H4. apply Nat.ltb_lt in H4. exact H4.
Qed.

Lemma chain_in : forall f k es, chain calls f k es -> forall e, In e es -> In e calls.
Proof.
  induction 1 as [f h d Hin | f h k d es Hin Hch IH]; intros e [<- | He]; auto. destruct He.
Qed.

Lemma chain_facts : forall f k es, chain calls f k es ->
  (rk sr k <= rk sr f) /\
  (rk sr k < rk sr f \/ forall e, In e es -> snd e <> (-1)%Z) /\
  (rk zr k < rk zr f \/ exists e, In e es /\ snd e <> 0%Z) /\
  (rk ur k < rk ur f \/ exists e, In e es /\ (gd g (fst (fst e)) = true \/ gd g (snd (fst e)) = true)).
Proof.
  induction 1 as [f h d Hin | f h k d es Hin Hch IH].
  - destruct (edge_facts _ _ _ Hin) as (Hd & Hz & Hs & Hr & Hu). split; [exact Hs|]. split; [|split].
    + destruct Hd as [-> | [-> | ->]]; [right | right | left; auto]; intros e [<- | []]; cbn; discriminate.
    + destruct (Z.eq_dec d 0) as [-> | Hne]; [left; auto | right; exists (f, h, d); cbn; auto].
    + destruct (gd g f) eqn:Gf; [right; exists (f, h, d); cbn; auto|].
      destruct (gd g h) eqn:Gh; [right; exists (f, h, d); cbn; auto|]. left. auto.
  - destruct (edge_facts _ _ _ Hin) as (Hd & Hz & Hs & Hr & Hu). destruct IH as (I1 & I2 & I3 & I4).
    split; [lia|]. split; [|split].
    + destruct I2 as [I2 | I2]; [left; lia|]. destruct (Z.eq_dec d (-1)) as [-> | Hne]; [left; specialize (Hr eq_refl); lia|].
      right. intros e [<- | He]; cbn; auto.
    + destruct I3 as [I3 | (e & A & B)]; [| right; exists e; cbn; auto].
      destruct (Z.eq_dec d 0) as [-> | Hne]; [left; specialize (Hz eq_refl); lia | right; exists (f, h, d); cbn; auto].
    + destruct I4 as [I4 | (e & A & B)]; [| right; exists e; cbn; auto].
      destruct (gd g f) eqn:Gf; [right; exists (f, h, d); cbn; auto|].
      destruct (gd g h) eqn:Gh; [right; exists (f, h, d); cbn; auto|]. left. specialize (Hu eq_refl eq_refl). lia.
Qed.

(* every closed call chain: no constant is passed on it, depth + 1 is passed at least once, a function that tests depth is on it *)
Theorem closed_chain : forall f es, chain calls f f es ->
  (forall e, In e es -> snd e <> (-1)%Z) /\
  (exists e, In e es /\ snd e = 1%Z) /\
  (exists e, In e es /\ (gd g (fst (fst e)) = true \/ gd g (snd (fst e)) = true)).
Proof.
  intros f es H. destruct (chain_facts _ _ _ H) as (_ & I2 & I3 & I4).
  assert (Hno : forall e, In e es -> snd e <> (-1)%Z) by (destruct I2 as [I2 | I2]; [lia | exact I2]).
  split; [exact Hno|]. split.
  - destruct I3 as [I3 | (e & A & B)]; [lia|]. exists e. split; [exact A|].
    pose proof (chain_in _ _ _ H e A) as Hc. destruct e as [[a b] d]. destruct (edge_facts _ _ _ Hc) as (Hd & _).
    cbn in *. specialize (Hno _ A). cbn in Hno. lia.
  - destruct I4 as [I4 | I4]; [lia | exact I4].
Qed.
End Graph.

(* dotnet.c as it is written now *)
Lemma dotnet_calls_ok : calls_ok dotnet_zero_rank dotnet_unguarded_rank dotnet_reset_rank dotnet_depth_guarded dotnet_depth_calls = true.
Proof. vm_compute. reflexivity. Qed.

Lemma dotnet_recursion_guarded_l : forall f es, chain dotnet_depth_calls f f es ->
  (forall e, In e es -> snd e <> (-1)%Z) /\
  (exists e, In e es /\ snd e = 1%Z) /\
  (exists e, In e es /\ (gd dotnet_depth_guarded (fst (fst e)) = true \/ gd dotnet_depth_guarded (snd (fst e)) = true)).
Proof. exact (closed_chain _ _ _ _ _ dotnet_calls_ok). Qed.

(* non-vacuity: there are closed chains (the recursion exists) and guarded functions with a positive limit *)
Example dotnet_has_a_cycle : exists f es, chain dotnet_depth_calls f f es.
Proof.
  assert (H : existsb (fun e => match e with (f, h, _) => Nat.eqb f h end) dotnet_depth_calls = true) by (vm_compute; reflexivity).
  apply existsb_exists in H. destruct H as ([[f h] d] & Hin & E). apply Nat.eqb_eq in E. subst h.
  exists f, [(f, f, d)]. apply chain_one. exact Hin.
Qed.
Example dotnet_limits_positive : existsb (fun z => (0 <? z)%Z) dotnet_depth_limits = true.
Proof. vm_compute. reflexivity. Qed.

(* ------------------------------------------------------------------ elf.c module_load: the header a branch reads fits in the block *)
(* a branch (class, data, demanded, cast, parser header size, parser bits, parser big-endian) is sound when what it demands of the
   block covers both the type it casts the block to and the header type of the parser it calls, and the parser is the one for
   that class and byte order *)
Definition elf_branch_ok (b : Z * Z * Z * Z * Z * Z * Z) : bool :=
  match b with (cls, dat, demanded, cast, phdr, bits, be) =>
    ((cast <=? demanded) && (phdr <=? demanded) && (cast =? phdr) &&
     (if cls =? ELF_CLASS_32 then bits =? 32 else if cls =? ELF_CLASS_64 then bits =? 64 else false) &&
     (if dat =? ELF_DATA_2LSB then be =? 0 else if dat =? ELF_DATA_2MSB then be =? 1 else false))%Z
  end.

Lemma elf_header_guards_match_l : forall cls dat demanded cast phdr bits be block_size,
  In (cls, dat, demanded, cast, phdr, bits, be) elf_header_branches ->
  (demanded < block_size)%Z ->
  (cast <= block_size /\ phdr <= block_size /\ cast = phdr /\
   (cls = ELF_CLASS_32 -> bits = 32) /\ (cls = ELF_CLASS_64 -> bits = 64) /\
   (dat = ELF_DATA_2LSB -> be = 0) /\ (dat = ELF_DATA_2MSB -> be = 1))%Z.
Proof.
  intros cls dat demanded cast phdr bits be block_size Hin Hsz.
  assert (H : forallb elf_branch_ok elf_header_branches = true) by (vm_compute; reflexivity).
  rewrite forallb_forall in H. specialize (H _ Hin). unfold elf_branch_ok in H.
  repeat (apply andb_prop in H; destruct H as [H ?]).
  repeat match goal with Hx : (_ <=? _)%Z = true |- _ => apply Z.leb_le in Hx | Hx : (_ =? _)%Z = true |- _ => apply Z.eqb_eq in Hx end.
  repeat split; try lia.
  - intros ->. rewrite Z.eqb_refl in *. match goal with Hx : (bits =? 32)%Z = true |- _ => apply Z.eqb_eq in Hx; exact Hx end.
  - intros ->. change (ELF_CLASS_64 =? ELF_CLASS_32)%Z with false in *. rewrite Z.eqb_refl in *.
    match goal with Hx : (bits =? 64)%Z = true |- _ => apply Z.eqb_eq in Hx; exact Hx end.
  - intros ->. rewrite Z.eqb_refl in *. match goal with Hx : (be =? 0)%Z = true |- _ => apply Z.eqb_eq in Hx; exact Hx end.
  - intros ->. change (ELF_DATA_2MSB =? ELF_DATA_2LSB)%Z with false in *. rewrite Z.eqb_refl in *.
    match goal with Hx : (be =? 1)%Z = true |- _ => apply Z.eqb_eq in Hx; exact Hx end.
Qed.

Example elf_header_branches_all_four : length elf_header_branches = 4%nat /\
  existsb (fun b => match b with (c, d, _, _, _, _, _) => ((c =? ELF_CLASS_64) && (d =? ELF_DATA_2MSB))%Z end) elf_header_branches = true.
Proof. vm_compute. auto. Qed.

(* ------------------------------------------------------------------ object.c: the dictionary storage never writes outside its block *)
(* state after some insertions: capacity of the block (entries), used, free; the three generated definitions are what
   yr_object_dict_set_item computes.  [dict_step] is one successful insertion; it writes objects[used]. *)
Local Open Scope Z_scope.
Record dstate := mkd { d_cap : Z; d_used : Z; d_free : Z }.

Definition dict_first : dstate := mkd dict_initial_count 1 (dict_initial_count - 1).

Definition dict_step (s : dstate) : dstate :=
  if d_free s =? 0
  then let c := dict_grow (d_used s) in mkd c (d_used s + 1) (dict_free_after_grow (d_used s) c - 1)
  else mkd (d_cap s) (d_used s + 1) (d_free s - 1).

Fixpoint dict_after (n : nat) : dstate := match n with O => dict_first | S m => dict_step (dict_after m) end.

Definition dict_inv (s : dstate) : Prop := 0 < d_used s /\ 0 <= d_free s /\ d_used s + d_free s = d_cap s.

Lemma dict_step_inv : forall s, dict_inv s -> dict_inv (dict_step s) /\ d_used s < d_cap (dict_step s).
Proof.
  intros [c u f] (Hu & Hf & Hc). unfold dict_inv, dict_step, dict_grow, dict_free_after_grow in *. cbn in *.
  destruct (f =? 0) eqn:E; cbn; [apply Z.eqb_eq in E | apply Z.eqb_neq in E]; lia.
Qed.

(* after any number of insertions used + free = capacity, and the slot the next insertion writes (index used) is inside the block *)
Lemma dict_growth_invariant_l : forall n, dict_inv (dict_after n) /\ d_used (dict_after n) <= d_cap (dict_after n) /\
  d_used (dict_after n) < d_cap (dict_step (dict_after n)).
Proof.
  assert (H0 : dict_inv dict_first) by (unfold dict_inv, dict_first, dict_initial_count; cbn; lia).
  assert (H : forall n, dict_inv (dict_after n)).
  { induction n as [|n IH]; [exact H0 | cbn [dict_after]; apply dict_step_inv; exact IH]. }
  intros n. split; [apply H|]. split; [destruct (H n) as (A & B & C); lia | apply dict_step_inv, H].
Qed.

Example dict_grows : d_cap (dict_after 63) = 64 /\ d_cap (dict_after 64) = 128 /\ d_cap (dict_after 193) = 256 /\ d_used (dict_after 193) = 194.
Proof. vm_compute. auto. Qed.
