(* The executable regex reference (Spec/RegexSpec.v ends) computes exactly the declarative relation M. *)
From Coq Require Import List Arith NArith Bool Lia Sorting.Sorted.
From YV Require Import Base.Bytes Spec.RegexSpec.
Import ListNotations.

(* ------------------------------------------------------------------ finite sets as duplicate-free lists *)
Lemma nat_mem_in x l : nat_mem x l = true <-> In x l.
Proof.
  unfold nat_mem. rewrite existsb_exists. split.
  - intros [y [Hy E]]. apply Nat.eqb_eq in E. now subst.
  - intros H. exists x. split; [exact H|apply Nat.eqb_refl].
Qed.

Lemma add_all_in l : forall acc x, In x (add_all l acc) <-> In x l \/ In x acc.
Proof.
  induction l as [|y l IH]; intros acc x; cbn [add_all].
  - split; [auto | intros [H|H]; [destruct H | exact H]].
  - destruct (nat_mem y acc) eqn:E.
    + rewrite IH. apply nat_mem_in in E. cbn [In]. split; [intros [H|H]; auto|intros [[->|H]|H]; auto].
    + rewrite IH. rewrite in_app_iff. cbn [In]. split.
      * intros [H|[H|[->|[]]]]; auto.
      * intros [[->|H]|H]; auto 6.
Qed.

Lemma nodup_snoc (acc : list nat) y : NoDup acc -> ~ In y acc -> NoDup (acc ++ [y]).
Proof.
  induction acc as [|a acc IH]; intros H Hn; cbn [app].
  - constructor; [intros []|constructor].
  - inversion H; subst. constructor.
    + rewrite in_app_iff. intros [Hi|[->|[]]]; [contradiction|]. apply Hn. now left.
    + apply IH; [assumption|]. intros Hi. apply Hn. now right.
Qed.

Lemma add_all_nodup l : forall acc, NoDup acc -> NoDup (add_all l acc).
Proof.
  induction l as [|y l IH]; intros acc H; cbn [add_all]; [exact H|].
  destruct (nat_mem y acc) eqn:E; [now apply IH|].
  apply IH. apply nodup_snoc; [exact H|]. intros Hi. apply nat_mem_in in Hi. congruence.
Qed.

Lemma add_all_length_ge l : forall acc, (length acc <= length (add_all l acc))%nat.
Proof.
  induction l as [|y l IH]; intros acc; cbn [add_all]; [lia|].
  destruct (nat_mem y acc); [apply IH|].
  specialize (IH (acc ++ [y])). rewrite app_length in IH. simpl in IH. lia.
Qed.

Lemma add_all_same_length l : forall acc, length (add_all l acc) = length acc -> forall x, In x l -> In x acc.
Proof.
  induction l as [|y l IH]; intros acc E x Hx; [destruct Hx|].
  cbn [add_all] in E. destruct (nat_mem y acc) eqn:Em.
  - destruct Hx as [->|Hx]; [now apply nat_mem_in|now apply IH].
  - pose proof (add_all_length_ge l (acc ++ [y])) as L. rewrite app_length in L. simpl in L. lia.
Qed.

Lemma nodup_bounded_length (l : list nat) B : NoDup l -> (forall x, In x l -> x <= B)%nat -> (length l <= S B)%nat.
Proof.
  intros Hn Hb. rewrite <- (seq_length (S B) 0). apply NoDup_incl_length; [exact Hn|].
  intros x Hx. apply in_seq. specialize (Hb x Hx). lia.
Qed.

(* ------------------------------------------------------------------ closure *)
Lemma closure_incl step : forall fuel acc x, In x acc -> In x (closure step fuel acc).
Proof.
  induction fuel as [|f IH]; intros acc x H; cbn [closure]; [exact H|].
  destruct (Nat.eqb _ _); [exact H|]. apply IH. apply add_all_in. now right.
Qed.

Lemma closure_sound (P : nat -> Prop) step :
  (forall k k', P k -> In k' (step k) -> P k') ->
  forall fuel acc, (forall x, In x acc -> P x) -> forall x, In x (closure step fuel acc) -> P x.
Proof.
  intros Hs. induction fuel as [|f IH]; intros acc Ha x Hx; cbn [closure] in Hx; [now apply Ha|].
  destruct (Nat.eqb _ _); [now apply Ha|].
  apply (IH (add_all (flat_map step acc) acc)); [|exact Hx].
  intros y Hy. apply add_all_in in Hy as [Hy|Hy]; [|now apply Ha].
  apply in_flat_map in Hy as [k [Hk Hy]]. eapply Hs; [apply Ha; exact Hk|exact Hy].
Qed.

Lemma closure_closed step B :
  (forall k k', (k <= B)%nat -> In k' (step k) -> (k' <= B)%nat) ->
  forall fuel acc, NoDup acc -> (forall x, In x acc -> (x <= B)%nat) -> (B + 2 <= fuel + length acc)%nat ->
  forall k k', In k (closure step fuel acc) -> In k' (step k) -> In k' (closure step fuel acc).
Proof.
  intros Hb. induction fuel as [|f IH]; intros acc Hn Ha Hm k k' Hk Hk'; cbn [closure] in *.
  - pose proof (nodup_bounded_length acc B Hn Ha). lia.
  - destruct (Nat.eqb (length (add_all (flat_map step acc) acc)) (length acc)) eqn:E.
    + apply Nat.eqb_eq in E. apply (add_all_same_length (flat_map step acc) acc E k'). apply in_flat_map. exists k. split; assumption.
    + apply Nat.eqb_neq in E.
      pose proof (add_all_length_ge (flat_map step acc) acc) as L.
      apply (IH (add_all (flat_map step acc) acc)) with (k := k); try assumption.
      * now apply add_all_nodup.
      * intros x Hx. apply add_all_in in Hx as [Hx|Hx]; [|now apply Ha].
        apply in_flat_map in Hx as [y [Hy Hx]]. eapply Hb; [apply Ha; exact Hy|exact Hx].
      * lia.
Qed.

(* ------------------------------------------------------------------ the relation *)
Lemma M_star_app buf a i k j : M buf (RStar a) i k -> M buf (RStar a) k j -> M buf (RStar a) i j.
Proof.
  intros H. remember (RStar a) as r eqn:E. revert E.
  induction H; intros E; try discriminate; inversion E; subst; intros H2; [exact H2|].
  eapply M_star1; [eassumption|]. now apply IHM2.
Qed.

Lemma byte_at_lt buf i b : byte_at buf i = Some b -> (i < length buf)%nat.
Proof. unfold byte_at. intros H. apply nth_error_Some. congruence. Qed.

Section Buf.
Variable buf : bytes.
Local Notation n := (length buf).

Lemma ends_correct : forall r i j, (i <= n)%nat -> (In j (ends buf r i) <-> M buf r i j) /\ (In j (ends buf r i) -> (i <= j <= n)%nat).
Proof.
  induction r as [|c|a IHa b IHb|a IHa b IHb|a IHa| | | |]; intros i j Hi.
  - (* REmpty *) cbn [ends In]. split; [split|].
    + intros [<-|[]]. constructor.
    + intros H. inversion H; subst. now left.
    + intros [<-|[]]. lia.
  - (* RSet *) cbn [ends]. destruct (byte_at buf i) as [bt|] eqn:Eb.
    + destruct (in_cset c bt) eqn:Ec; cbn [In]; (split; [split|]).
      * intros [<-|[]]. econstructor; eassumption.
      * intros H. inversion H; subst. now left.
      * intros [<-|[]]. apply byte_at_lt in Eb. fold n in Eb. lia.
      * intros [].
      * intros H. inversion H; subst. congruence.
      * intros [].
    + cbn [In]. split; [split|].
      * intros [].
      * intros H. inversion H; subst. congruence.
      * intros [].
  - (* RCat *) cbn [ends]. split; [split|].
    + intros H. apply add_all_in in H as [H|[]]. apply in_flat_map in H as [k [Hk H]].
      destruct (IHa i k Hi) as [Ea Ba]. specialize (Ba Hk).
      destruct (IHb k j ltac:(lia)) as [Eb _].
      econstructor; [apply Ea; exact Hk|apply Eb; exact H].
    + intros H. inversion H; subst. apply add_all_in. left. apply in_flat_map.
      destruct (IHa i k Hi) as [Ea Ba]. exists k. split; [now apply Ea|].
      specialize (Ba (proj2 Ea ltac:(eassumption))).
      destruct (IHb k j ltac:(lia)) as [Eb _]. now apply Eb.
    + intros H. apply add_all_in in H as [H|[]]. apply in_flat_map in H as [k [Hk H]].
      destruct (IHa i k Hi) as [_ Ba]. specialize (Ba Hk).
      destruct (IHb k j ltac:(lia)) as [_ Bb]. specialize (Bb H). lia.
  - (* RAlt *) cbn [ends]. split; [split|].
    + intros H. apply add_all_in in H as [H|H].
      * apply M_altr. now apply (IHb i j Hi).
      * apply add_all_in in H as [H|[]]. apply M_altl. now apply (IHa i j Hi).
    + intros H. apply add_all_in. inversion H; subst.
      * right. apply add_all_in. left. now apply (IHa i j Hi).
      * left. now apply (IHb i j Hi).
    + intros H. apply add_all_in in H as [H|H].
      * now apply (IHb i j Hi).
      * apply add_all_in in H as [H|[]]. now apply (IHa i j Hi).
  - (* RStar *) cbn [ends]. fold n.
    assert (Hstep : forall k k', (i <= k <= n)%nat -> In k' (ends buf a k) -> (i <= k' <= n)%nat /\ M buf a k k').
    { intros k k' Hk H. destruct (IHa k k' ltac:(lia)) as [E B]. specialize (B H). split; [lia|now apply E]. }
    assert (Hsound : forall x, In x (closure (ends buf a) (S n) [i]) -> (i <= x <= n)%nat /\ M buf (RStar a) i x).
    { apply (closure_sound (fun x => (i <= x <= n)%nat /\ M buf (RStar a) i x) (ends buf a)).
      - intros k k' [Hk Mk] H. destruct (Hstep k k' Hk H) as [Hk' Mk']. split; [exact Hk'|].
        eapply M_star_app; [exact Mk|]. eapply M_star1; [exact Mk'|constructor].
      - intros x [<-|[]]. split; [lia|constructor]. }
    split; [split|].
    + intros H. now apply Hsound.
    + intros H.
      assert (Hclosed : forall k k', In k (closure (ends buf a) (S n) [i]) -> In k' (ends buf a k) -> In k' (closure (ends buf a) (S n) [i])).
      { apply (closure_closed (ends buf a) n).
        - intros k k' Hk H'. destruct (IHa k k' Hk) as [_ B]. specialize (B H'). lia.
        - constructor; [intros []|constructor].
        - intros x [<-|[]]. exact Hi.
        - simpl. lia. }
      assert (G : forall r' k j', M buf r' k j' -> r' = RStar a -> In k (closure (ends buf a) (S n) [i]) -> In j' (closure (ends buf a) (S n) [i])).
      { intros r' k j' HM. induction HM as [ | | | | | a0 i0 | a0 i0 k0 j0 HM1 _ HM2 IH2 | | | | ]; intros E Hk; try discriminate.
        - exact Hk.
        - inversion E; subst a0. apply IH2; [reflexivity|]. apply (Hclosed i0 k0); [exact Hk|].
          destruct (Hsound i0 Hk) as [Hb _]. apply (IHa i0 k0 ltac:(lia)). exact HM1. }
      apply (G (RStar a) i j H eq_refl). apply closure_incl. now left.
    + intros H. now apply Hsound.
  - (* RStart *) cbn [ends]. destruct (Nat.eqb i 0) eqn:E; cbn [In]; (split; [split|]).
    + intros [<-|[]]. apply Nat.eqb_eq in E. subst. constructor.
    + intros H. inversion H; subst. now left.
    + intros [<-|[]]. lia.
    + intros [].
    + intros H. inversion H; subst. discriminate.
    + intros [].
  - (* REnd *) cbn [ends]. fold n. destruct (Nat.eqb i n) eqn:E; cbn [In]; (split; [split|]).
    + intros [<-|[]]. apply Nat.eqb_eq in E. subst. constructor.
    + intros H. inversion H; subst. now left.
    + intros [<-|[]]. lia.
    + intros [].
    + intros H. inversion H; subst. fold n in E. rewrite Nat.eqb_refl in E. discriminate.
    + intros [].
  - (* RWordB *) cbn [ends]. fold n. destruct (word_boundary buf i && (i <=? n)%nat) eqn:E; cbn [In]; (split; [split|]).
    + intros [<-|[]]. apply andb_true_iff in E as [E1 E2]. apply Nat.leb_le in E2. now constructor.
    + intros H. inversion H; subst. now left.
    + intros [<-|[]]. lia.
    + intros [].
    + intros H. inversion H; subst.
      match goal with Hw : word_boundary buf j = true, Hl : (j <= _)%nat |- _ =>
        apply Nat.leb_le in Hl; rewrite Hw, Hl in E; discriminate end.
    + intros [].
  - (* RNonWordB *) cbn [ends]. fold n. destruct (negb (word_boundary buf i) && (i <=? n)%nat) eqn:E; cbn [In]; (split; [split|]).
    + intros [<-|[]]. apply andb_true_iff in E as [E1 E2]. apply Nat.leb_le in E2. apply negb_true_iff in E1. now constructor.
    + intros H. inversion H; subst. now left.
    + intros [<-|[]]. lia.
    + intros [].
    + intros H. inversion H; subst.
      match goal with Hw : word_boundary buf j = false, Hl : (j <= _)%nat |- _ =>
        apply Nat.leb_le in Hl; rewrite Hw, Hl in E; discriminate end.
    + intros [].
Qed.

End Buf.

(* ------------------------------------------------------------------ string matches and the matches operator *)
Lemma seq_sorted' a k : StronglySorted lt (seq a k).
Proof.
  revert a; induction k as [|k IH]; intros a; cbn [seq]; constructor; [apply IH|].
  rewrite Forall_forall. intros x Hx. apply in_seq in Hx. lia.
Qed.

Lemma M_mono buf r i j : M buf r i j -> (i <= j)%nat.
Proof. induction 1; lia. Qed.

Lemma M_nonempty_start buf r i j : M buf r i j -> (i < j)%nat -> (i < length buf)%nat.
Proof.
  induction 1; intros Hlt;
    repeat match goal with H : M _ _ _ _ |- _ => apply M_mono in H end;
    try match goal with H : byte_at _ _ = Some _ |- _ => apply byte_at_lt in H end;
    lia.
Qed.

Theorem re_string_matches_exact_proof buf r :
  StronglySorted lt (map fst (re_matches_all buf r)) /\
  (forall o len, (0 < len)%nat ->
     ((exists ls, In (o, ls) (re_matches_all buf r) /\ In len ls) <-> M buf r o (o + len))).
Proof.
  split.
  - unfold re_matches_all.
    assert (G : forall l, StronglySorted lt l ->
                StronglySorted lt (map fst (filter (fun x : nat * list nat => match snd x with [] => false | _ => true end)
                                                   (map (fun o => (o, re_lengths buf r o)) l)))).
    { induction 1 as [|x l Hs IH Hf]; cbn [map filter]; [constructor|].
      destruct (re_lengths buf r x); cbn [snd map fst]; [exact IH|].
      constructor; [exact IH|]. rewrite Forall_forall in *. intros y Hy.
      apply in_map_iff in Hy as [[y' v] [<- Hy]]. apply filter_In in Hy as [Hy _].
      apply in_map_iff in Hy as [z [Hz Hin]]. inversion Hz; subst. cbn. now apply Hf. }
    apply G. apply seq_sorted'.
  - intros o len Hlen. unfold re_matches_all. split.
    + intros [ls [Hin Hl]]. apply filter_In in Hin as [Hin _]. apply in_map_iff in Hin as [o' [E Ho]].
      inversion E; subst. apply in_seq in Ho. unfold re_lengths in Hl.
      apply in_map_iff in Hl as [j [Ej Hj]]. apply filter_In in Hj as [Hj Hlt]. apply Nat.ltb_lt in Hlt.
      destruct (ends_correct buf r o j ltac:(lia)) as [Ec _]. apply Ec in Hj.
      replace (o + len)%nat with j by lia. exact Hj.
    + intros HM.
      assert (Ho : (o <= length buf)%nat).
      { pose proof (M_nonempty_start _ _ _ _ HM ltac:(lia)). lia. }
      destruct (ends_correct buf r o (o + len) Ho) as [Ec Eb]. apply Ec in HM. specialize (Eb HM).
      exists (re_lengths buf r o). split.
      * apply filter_In. split.
        -- apply in_map_iff. exists o. split; [reflexivity|]. apply in_seq. lia.
        -- cbn [snd]. destruct (re_lengths buf r o) eqn:E; [|reflexivity]. exfalso.
           assert (In len (re_lengths buf r o)).
           { unfold re_lengths. apply in_map_iff. exists (o + len)%nat. split; [lia|].
             apply filter_In. split; [exact HM|]. apply Nat.ltb_lt. lia. }
           rewrite E in H. destruct H.
      * unfold re_lengths. apply in_map_iff. exists (o + len)%nat. split; [lia|].
        apply filter_In. split; [exact HM|]. apply Nat.ltb_lt. lia.
Qed.

Theorem matches_operator_exact_proof buf r :
  re_matches_somewhere buf r = true <-> exists o j, (o <= length buf)%nat /\ M buf r o j.
Proof.
  unfold re_matches_somewhere. rewrite existsb_exists. split.
  - intros [o [Ho H]]. apply in_seq in Ho. destruct (ends buf r o) as [|j l] eqn:E; [discriminate|].
    exists o, j. split; [lia|]. apply (ends_correct buf r o j ltac:(lia)). rewrite E. now left.
  - intros [o [j [Ho HM]]]. exists o. split; [apply in_seq; lia|].
    apply (ends_correct buf r o j Ho) in HM. destruct (ends buf r o); [destruct HM|reflexivity].
Qed.

(* ------------------------------------------------------------------ hex-string jumps *)
Definition any : re := RSet CAny.

Lemma M_any buf i j : M buf any i j <-> j = S i /\ (i < length buf)%nat.
Proof.
  unfold any. split.
  - intros H. inversion H; subst. split; [reflexivity|]. eapply byte_at_lt; eassumption.
  - intros [-> Hi]. destruct (nth_error buf i) as [b|] eqn:E.
    + econstructor; [exact E|reflexivity].
    + apply nth_error_None in E. lia.
Qed.

Ltac use_any IH :=
  repeat match goal with
  | Hx : M _ any _ _ |- _ => apply M_any in Hx; destruct Hx as [? ?]
  | Hx : M _ (rpow any _) _ _ |- _ => apply IH in Hx; destruct Hx as [? ?]
  | Hx : M _ (ropt_pow any _) _ _ |- _ => apply IH in Hx; destruct Hx as [? ?]
  | Hx : M _ REmpty _ _ |- _ => inversion Hx; clear Hx
  end; subst.

Lemma rpow_any buf k : forall i j, M buf (rpow any k) i j <-> j = (i + k)%nat /\ (k = 0 \/ j <= length buf)%nat.
Proof.
  induction k as [|k IH]; intros i j; cbn [rpow].
  - split; [intros H; inversion H; subst; split; [lia|now left]|intros [-> _]; rewrite Nat.add_0_r; constructor].
  - split.
    + intros H. inversion H; subst. use_any IH. split; [lia|]. right. lia.
    + intros [-> [H|H]]; [discriminate|].
      apply M_cat with (k := S i); [apply M_any; split; [reflexivity|lia]|].
      apply IH. split; [lia|]. destruct k; [now left|right; lia].
Qed.

Lemma ropt_pow_any buf k : forall i j, M buf (ropt_pow any k) i j <-> (i <= j <= i + k)%nat /\ (j = i \/ j <= length buf)%nat.
Proof.
  induction k as [|k IH]; intros i j; cbn [ropt_pow].
  - split; [intros H; inversion H; subst; split; [lia|now left]|intros [Hr _]; assert (j = i) by lia; subst; constructor].
  - split.
    + intros H. inversion H; subst.
      * use_any IH. split; [lia|now left].
      * match goal with Hc : M _ (RCat _ _) _ _ |- _ => inversion Hc; subst end. use_any IH. split; [lia|]. right. lia.
    + intros [Hr Hb]. destruct (Nat.eq_dec j i) as [->|Hne].
      * apply M_altl. constructor.
      * apply M_altr. apply M_cat with (k := S i).
        -- apply M_any. split; [reflexivity|]. destruct Hb as [->|Hb]; lia.
        -- apply IH. split; [lia|]. destruct Hb as [->|Hb]; [lia|]. destruct (Nat.eq_dec j (S i)); [now left|now right].
Qed.

(* a jump [n-m] matches exactly the gaps of n..m bytes that fit in the buffer *)
Theorem hex_jump_exact_proof buf n m i j : (n <= m)%nat -> (i <= length buf)%nat ->
  (M buf (rrep any n (Some m)) i j <-> (i + n <= j <= i + m)%nat /\ (j <= length buf)%nat).
Proof.
  intros Hnm Hi. unfold rrep. split.
  - intros H. inversion H; subst.
    repeat match goal with
    | Hx : M _ (rpow any _) _ _ |- _ => apply rpow_any in Hx; destruct Hx as [? ?]
    | Hx : M _ (ropt_pow any _) _ _ |- _ => apply ropt_pow_any in Hx; destruct Hx as [? ?]
    end; subst. split; lia.
  - intros [Hr Hb]. apply M_cat with (k := (i + n)%nat).
    + apply rpow_any. split; [reflexivity|]. destruct n; [now left|right; lia].
    + apply ropt_pow_any. split; [lia|]. now right.
Qed.
