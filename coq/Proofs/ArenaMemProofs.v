(* Proofs about Model/ArenaMem.v: growth and relocation of the arena's buffers are invisible in the
   address-free content.  Statements are re-exported by Props/Properties_C19.v (and C08). *)
From Coq Require Import List NArith ZArith Lia Bool Arith.
From YV Require Import Base.Bytes gen.GenConsts Model.Arena Model.ArenaMem.
Import ListNotations.
Local Open Scope N_scope.

(* the model's slots are 8 bytes: re-checked against /repo's layout on every run *)
Lemma ptr_is_8_bytes : sizeof_ptr = 8%Z /\ sizeof_YR_ARENA_REF = 8%Z.
Proof. split; reflexivity. Qed.

(* ------------------------------------------------------------------ lists *)
Section Lists.
Context {A : Type}.
Implicit Types (l v : list A) (d : A).

Lemma length_upd l i (x : A) : length (upd l i x) = length l.
Proof. revert i; induction l as [|y r IH]; intros [|i]; simpl; auto. Qed.

Lemma nth_upd_same l i (x : A) d : (i < length l)%nat -> nth i (upd l i x) d = x.
Proof. revert i; induction l as [|y r IH]; intros [|i] H; simpl in *; try lia; auto. apply IH; lia. Qed.

Lemma nth_upd_other l i j (x : A) d : i <> j -> nth j (upd l i x) d = nth j l d.
Proof.
  revert i j; induction l as [|y r IH]; intros [|i] [|j] H; simpl; auto; try lia.
Qed.

Lemma nth_firstn_lt l n p d : (p < n)%nat -> nth p (firstn n l) d = nth p l d.
Proof.
  revert n p; induction l as [|y r IH]; intros [|n] [|p] H; simpl; auto; try lia. apply IH; lia.
Qed.

Lemma nth_skipn l off p d : nth p (skipn off l) d = nth (off + p) l d.
Proof.
  revert off; induction l as [|y r IH]; intros [|off]; simpl; auto.
  all: try (destruct p; reflexivity). all: try (destruct (off + p)%nat; reflexivity).
Qed.

Lemma length_slice l off n : (off + n <= length l)%nat -> length (slice l off n) = n.
Proof. intros H. unfold slice. rewrite firstn_length, skipn_length. lia. Qed.

Lemma nth_slice l off n p d : (p < n)%nat -> nth p (slice l off n) d = nth (off + p) l d.
Proof. intros H. unfold slice. rewrite nth_firstn_lt by lia. apply nth_skipn. Qed.

Lemma nth_splice l off v p d : (off + length v <= length l)%nat ->
  nth p (splice l off v) d =
  if (p <? off)%nat then nth p l d else if (p <? off + length v)%nat then nth (p - off) v d else nth p l d.
Proof.
  intros H. unfold splice.
  destruct (p <? off)%nat eqn:E1; [apply Nat.ltb_lt in E1|apply Nat.ltb_ge in E1].
  - rewrite app_nth1 by (rewrite firstn_length; lia). apply nth_firstn_lt; lia.
  - rewrite app_nth2 by (rewrite firstn_length; lia). rewrite firstn_length.
    replace (Nat.min off (length l)) with off by lia.
    destruct (p <? off + length v)%nat eqn:E2; [apply Nat.ltb_lt in E2|apply Nat.ltb_ge in E2].
    + rewrite app_nth1 by lia. reflexivity.
    + rewrite app_nth2 by lia. rewrite nth_skipn. f_equal. lia.
Qed.

Lemma slice_ext l l' off n d :
  (off + n <= length l)%nat -> (off + n <= length l')%nat ->
  (forall k, (k < n)%nat -> nth (off + k) l d = nth (off + k) l' d) -> slice l off n = slice l' off n.
Proof.
  intros H1 H2 H. apply nth_ext with (d := d) (d' := d).
  - rewrite !length_slice; auto.
  - intros k Hk. rewrite length_slice in Hk by auto. rewrite !nth_slice by lia. auto.
Qed.

Lemma slice_app_l l x off n : (off + n <= length l)%nat -> slice (l ++ x) off n = slice l off n.
Proof.
  intros H. unfold slice. rewrite skipn_app, firstn_app, skipn_length.
  replace (n - (length l - off))%nat with 0%nat by lia. simpl. now rewrite app_nil_r.
Qed.

Lemma slice_app_r l x off n : slice (l ++ x) (length l + off) n = slice x off n.
Proof.
  unfold slice. rewrite skipn_app. rewrite skipn_all2 by lia. simpl. do 2 f_equal. lia.
Qed.

Lemma slice_splice_eq l off v : (off + length v <= length l)%nat -> slice (splice l off v) off (length v) = v.
Proof. apply slice_splice_same. Qed.

Lemma list_ext l l' d : length l = length l' -> (forall p, (p < length l)%nat -> nth p l d = nth p l' d) -> l = l'.
Proof. intros. apply nth_ext with (d := d) (d' := d); auto. Qed.
End Lists.

Lemma nth_app_lt {A} (l x : list A) p d : (p < length l)%nat -> nth p (l ++ x) d = nth p l d.
Proof. intros. now apply app_nth1. Qed.

(* ------------------------------------------------------------------ slots *)
Definition sl_disj (s s' : slot) : Prop :=
  fst s <> fst s' \/ (snd s + 8 <= snd s')%nat \/ (snd s' + 8 <= snd s)%nat.

Lemma sl_disjb_spec s s' : sl_disjb s s' = true <-> sl_disj s s'.
Proof.
  unfold sl_disjb, sl_disj. rewrite !orb_true_iff, negb_true_iff, Nat.eqb_neq, !Nat.leb_le. tauto.
Qed.

Lemma sl_disj_sym s s' : sl_disj s s' -> sl_disj s' s.
Proof. unfold sl_disj. intuition. Qed.

Fixpoint NoOv (l : list slot) : Prop :=
  match l with [] => True | s :: r => (forall s', In s' r -> sl_disj s s') /\ NoOv r end.

Lemma NoOv_app l s : NoOv l -> (forall s', In s' l -> sl_disj s' s) -> NoOv (l ++ [s]).
Proof.
  induction l as [|a r IH]; simpl; intros H1 H2.
  - split; [intros ? []|exact I].
  - destruct H1 as [H1 H1']. split.
    + intros s' Hs'. apply in_app_or in Hs' as [Hs'|[<-|[]]]; auto.
    + apply IH; auto.
Qed.

Lemma NoOv_app_l l l' : NoOv (l ++ l') -> NoOv l.
Proof.
  induction l as [|a r IH]; simpl; auto. intros [H1 H2]. split; auto.
  intros s' Hs'. apply H1. apply in_or_app. now left.
Qed.

Lemma NoOv_apps l l' : NoOv l -> NoOv l' -> (forall s s', In s l -> In s' l' -> sl_disj s s') -> NoOv (l ++ l').
Proof.
  induction l as [|a r IH]; simpl; intros H1 H2 H3; auto.
  destruct H1 as [H1 H1']. split.
  - intros s' Hs'. apply in_app_or in Hs' as [Hs'|Hs']; auto.
  - apply IH; auto.
Qed.

Lemma NoOv_disj l s s' : NoOv l -> In s l -> In s' l -> s = s' \/ sl_disj s s'.
Proof.
  induction l as [|a r IH]; simpl; [tauto|]. intros [H1 H2] [<-|Hs] [<-|Hs']; auto.
  right. apply sl_disj_sym. auto.
Qed.

(* position p of buffer b lies in no slot of rs *)
Definition free_pos (rs : list slot) (b p : nat) : Prop :=
  forall s, In s rs -> fst s = b -> ~ (snd s <= p < snd s + 8)%nat.

Lemma free_pos_dec rs b p :
  {s | In s rs /\ fst s = b /\ (snd s <= p < snd s + 8)%nat} + {free_pos rs b p}.
Proof.
  induction rs as [|a r IH].
  - right. intros s [].
  - destruct IH as [[s [H1 H2]]|IH].
    + left. exists s. split; [now right|auto].
    + destruct (Nat.eq_dec (fst a) b) as [E|E].
      * destruct (Compare_dec.le_dec (snd a) p) as [L1|L1].
        -- destruct (Compare_dec.lt_dec p (snd a + 8)) as [L2|L2].
           ++ left. exists a. split; [now left|auto].
           ++ right. intros s [<-|Hs] Hb; [lia|now apply IH].
        -- right. intros s [<-|Hs] Hb; [lia|now apply IH].
      * right. intros s [<-|Hs] Hb; [congruence|now apply IH].
Qed.

(* two buffers that agree on every slot and on every free position are equal *)
Lemma buf_eq_by_slots (rs : list slot) (b : nat) (x y : bytes) :
  length x = length y ->
  (forall s, In s rs -> fst s = b -> (snd s + 8 <= length x)%nat) ->
  (forall s, In s rs -> fst s = b -> slice x (snd s) 8 = slice y (snd s) 8) ->
  (forall p, free_pos rs b p -> nth p x 0 = nth p y 0) ->
  x = y.
Proof.
  intros HL Hin Hs Hf. apply list_ext with (d := 0); auto.
  intros p Hp. destruct (free_pos_dec rs b p) as [[s [H1 [H2 H3]]]|Hfree]; auto.
  specialize (Hs s H1 H2). specialize (Hin s H1 H2).
  assert (E : nth (p - snd s) (slice x (snd s) 8) 0 = nth (p - snd s) (slice y (snd s) 8) 0) by now rewrite Hs.
  rewrite !nth_slice in E by lia. replace (snd s + (p - snd s))%nat with p in E by lia. exact E.
Qed.

(* ------------------------------------------------------------------ one pass over the relocation list *)
Definition slots_in (rs : list slot) (l : list mbuf) : Prop :=
  forall s, In s rs -> (fst s < length l)%nat /\ (snd s + 8 <= used l (fst s))%nat.

Definition same_shape (l l' : list mbuf) : Prop :=
  length l' = length l /\
  forall b, base (bufof l' b) = base (bufof l b) /\ cap (bufof l' b) = cap (bufof l b) /\ used l' b = used l b.

Lemma same_shape_refl l : same_shape l l.
Proof. split; auto. Qed.

Lemma same_shape_trans l1 l2 l3 : same_shape l1 l2 -> same_shape l2 l3 -> same_shape l1 l3.
Proof.
  intros [H1 H2] [H3 H4]. split; [congruence|]. intros b.
  destruct (H2 b) as (?&?&?), (H4 b) as (?&?&?). repeat split; congruence.
Qed.

Lemma slots_in_shape rs l l' : same_shape l l' -> slots_in rs l -> slots_in rs l'.
Proof.
  intros [H1 H2] H s Hs. destruct (H s Hs) as [A B]. destruct (H2 (fst s)) as (_&_&U).
  split; [lia|]. rewrite U. exact B.
Qed.

Lemma bufof_upd_same l i x : (i < length l)%nat -> bufof (upd l i x) i = x.
Proof. apply nth_upd_same. Qed.
Lemma bufof_upd_other l i j x : i <> j -> bufof (upd l i x) j = bufof l j.
Proof. apply nth_upd_other. Qed.

Lemma slot_step_spec f l s :
  (forall x, length x = 8%nat -> length (f x) = 8%nat) ->
  (fst s < length l)%nat -> (snd s + 8 <= used l (fst s))%nat ->
  let l' := slot_step f l s in
  same_shape l l' /\
  slice (data (bufof l' (fst s))) (snd s) 8 = f (slice (data (bufof l (fst s))) (snd s) 8) /\
  (forall b p, ~ (b = fst s /\ (snd s <= p < snd s + 8)%nat) ->
     nth p (data (bufof l' b)) 0 = nth p (data (bufof l b)) 0).
Proof.
  intros Hf Hb Ho l'. unfold used in Ho.
  set (mb := bufof l (fst s)) in *.
  set (v := f (slice (data mb) (snd s) 8)).
  assert (Lv : length v = 8%nat) by (apply Hf, length_slice; lia).
  assert (E : bufof l' (fst s) = with_data mb (splice (data mb) (snd s) v)).
  { unfold l', slot_step. fold mb. fold v. now rewrite bufof_upd_same. }
  split; [|split].
  - split; [apply length_upd|]. intros b. destruct (Nat.eq_dec (fst s) b) as [<-|N].
    + rewrite E. unfold used. rewrite E. simpl. rewrite splice_length by lia. auto.
    + unfold used, l', slot_step. rewrite bufof_upd_other by auto. auto.
  - rewrite E. simpl. rewrite <- Lv at 1. apply slice_splice_eq. lia.
  - intros b p H. destruct (Nat.eq_dec (fst s) b) as [<-|N].
    + rewrite E. simpl. rewrite nth_splice by lia. rewrite Lv.
      destruct (p <? snd s)%nat eqn:E1; auto.
      destruct (p <? snd s + 8)%nat eqn:E2; auto.
      apply Nat.ltb_ge in E1. apply Nat.ltb_lt in E2. exfalso. apply H. split; auto.
    + unfold l', slot_step. rewrite bufof_upd_other by auto. auto.
Qed.

Lemma mapslots_spec f rs : forall l,
  (forall x, length x = 8%nat -> length (f x) = 8%nat) ->
  slots_in rs l -> NoOv rs ->
  let l' := mapslots f rs l in
  same_shape l l' /\
  (forall s, In s rs -> slice (data (bufof l' (fst s))) (snd s) 8 = f (slice (data (bufof l (fst s))) (snd s) 8)) /\
  (forall b p, free_pos rs b p -> nth p (data (bufof l' b)) 0 = nth p (data (bufof l b)) 0).
Proof.
  induction rs as [|s rs IH]; intros l Hf Hin Hno l'.
  - split; [apply same_shape_refl|]. split; [intros ? []|auto].
  - destruct Hno as [Hd Hno].
    destruct (Hin s (or_introl eq_refl)) as [Hb Ho].
    destruct (slot_step_spec f l s Hf Hb Ho) as (S1 & E1 & P1).
    set (l1 := slot_step f l s) in *.
    assert (Hin1 : slots_in rs l1).
    { apply slots_in_shape with (l := l); auto. intros x Hx. apply Hin. now right. }
    destruct (IH l1 Hf Hin1 Hno) as (S2 & E2 & P2).
    change (mapslots f (s :: rs) l) with (mapslots f rs l1) in l'. fold l' in S2, E2, P2.
    assert (Keep : forall s', In s' rs ->
              slice (data (bufof l1 (fst s'))) (snd s') 8 = slice (data (bufof l (fst s'))) (snd s') 8).
    { intros s' Hs'. destruct (Hin s' (or_intror Hs')) as [Hb' Ho'].
      destruct S1 as [_ S1]. destruct (S1 (fst s')) as (_&_&U1).
      apply slice_ext with (d := 0); unfold used in *; try lia.
      intros k Hk. apply P1. intros [Eb Hp]. specialize (Hd s' Hs'). unfold sl_disj in Hd. lia. }
    split; [eapply same_shape_trans; eauto|]. split.
    + intros s' [<-|Hs'].
      * rewrite <- E1.
        destruct S1 as [_ S1]. destruct (S1 (fst s)) as (_&_&U1).
        destruct S2 as [_ S2]. destruct (S2 (fst s)) as (_&_&U2).
        apply slice_ext with (d := 0); unfold used in *; try lia.
        intros k Hk. apply P2. intros s' Hs' Eb Hp. specialize (Hd s' Hs'). unfold sl_disj in Hd. lia.
      * rewrite E2 by auto. now rewrite Keep.
    + intros b p Hfree. rewrite P2.
      * apply P1. intros [Eb Hp]. apply (Hfree s (or_introl eq_refl)); auto.
      * intros s' Hs'. apply Hfree. now right.
Qed.

(* ------------------------------------------------------------------ geometry and pointers *)
Definition geom_ok (l : list mbuf) : Prop :=
  (forall i, (i < length l)%nat ->
      (base (bufof l i) = 0 -> used l i = 0%nat /\ cap (bufof l i) = 0) /\
      N.of_nat (used l i) <= cap (bufof l i) /\ base (bufof l i) + cap (bufof l i) <= two64) /\
  (forall i j, (i < length l)%nat -> (j < length l)%nat -> i <> j ->
      base (bufof l i) <> 0 -> base (bufof l j) <> 0 ->
      base (bufof l i) + cap (bufof l i) <= base (bufof l j) \/
      base (bufof l j) + cap (bufof l j) <= base (bufof l i)).

(* the value v stored in a slot designates t *)
Definition points (l : list mbuf) (v : N) (t : option slot) : Prop :=
  match t with
  | None => v = 0
  | Some (i, o) => (i < length l)%nat /\ base (bufof l i) <> 0 /\ (o < used l i)%nat /\
                   v = base (bufof l i) + N.of_nat o
  end.

Definition slotval (l : list mbuf) (s : slot) : N := le_dec (slice (data (bufof l (fst s))) (snd s) 8).

Definition hitb (mb : mbuf) (v : N) : bool :=
  negb (base mb =? 0) && (base mb <=? v) && (v <? base mb + nlen (data mb)).
Lemma hitb_spec mb v :
  hitb mb v = true <-> (base mb <> 0 /\ base mb <= v < base mb + N.of_nat (length (data mb))).
Proof.
  unfold hitb, nlen. rewrite !andb_true_iff, negb_true_iff, N.eqb_neq, N.leb_le, N.ltb_lt. tauto.
Qed.
Lemma p2r_from_cons k mb r v :
  p2r_from k (mb :: r) v = if hitb mb v then Some (k, N.to_nat (v - base mb)) else p2r_from (S k) r v.
Proof. reflexivity. Qed.

Lemma p2r_from_spec v : forall i l k,
  (forall j, (j < i)%nat -> ~ (base (bufof l j) <> 0 /\ base (bufof l j) <= v < base (bufof l j) + N.of_nat (used l j))) ->
  (i < length l)%nat ->
  base (bufof l i) <> 0 -> base (bufof l i) <= v < base (bufof l i) + N.of_nat (used l i) ->
  p2r_from k l v = Some ((k + i)%nat, N.to_nat (v - base (bufof l i))).
Proof.
  induction i as [|i IH]; intros l k Hprev Hlen Hb Hv; destruct l as [|mb r]; simpl in Hlen; try lia;
    rewrite p2r_from_cons.
  - unfold bufof, used in Hb, Hv. simpl in Hb, Hv.
    destruct (hitb mb v) eqn:E.
    + unfold bufof. simpl. do 2 f_equal. lia.
    + exfalso. assert (hitb mb v = true) by (apply hitb_spec; auto). congruence.
  - assert (H0 := Hprev 0%nat ltac:(lia)). unfold bufof, used in H0. simpl in H0.
    destruct (hitb mb v) eqn:E.
    + exfalso. apply H0. now apply hitb_spec.
    + rewrite (IH r (S k)).
      * unfold bufof. simpl. f_equal. f_equal. lia.
      * intros j Hj. apply (Hprev (S j)). lia.
      * lia.
      * exact Hb.
      * exact Hv.
Qed.

Lemma p2r_spec l v t : geom_ok l -> points l v t -> p2r l v = t.
Proof.
  intros [G1 G2] H. unfold p2r. destruct t as [[i o]|]; simpl in H.
  - destruct H as (Hi & Hb & Ho & ->).
    replace (base (bufof l i) + N.of_nat o =? 0) with false by (symmetry; apply N.eqb_neq; lia).
    rewrite (p2r_from_spec _ i l 0%nat); auto; try lia.
    + simpl. do 2 f_equal. lia.
    + intros j Hj [Hbj Hr]. destruct (G1 i Hi) as (_ & Ui & _). destruct (G1 j ltac:(lia)) as (_ & Uj & _).
      destruct (G2 i j Hi ltac:(lia) ltac:(lia) Hb Hbj); lia.
  - subst v. reflexivity.
Qed.

Lemma geom_ok_shape l l' : same_shape l l' -> geom_ok l -> geom_ok l'.
Proof.
  intros [SL S] [G1 G2]. split.
  - intros i Hi. rewrite SL in Hi. destruct (S i) as (-> & -> & ->). auto.
  - intros i j Hi Hj. rewrite SL in Hi, Hj. destruct (S i) as (-> & -> & _), (S j) as (-> & -> & _). auto.
Qed.

Lemma points_shape l l' v t : same_shape l l' -> points l v t -> points l' v t.
Proof.
  intros [SL S] H. destruct t as [[i o]|]; simpl in *; auto.
  destruct (S i) as (-> & _ & ->). rewrite SL. exact H.
Qed.

Lemma enc_ref_len r : length (enc_ref r) = 8%nat.
Proof. unfold enc_ref. now rewrite app_length, !le_enc_length. Qed.
Lemma enc_t_len t : length (enc_t t) = 8%nat.
Proof. destruct t as [[i o]|]; apply enc_ref_len. Qed.

Lemma le_dec_enc8 v : v < two64 -> le_dec (le_enc 8 v) = v.
Proof. intros H. apply le_dec_enc. exact H. Qed.

Lemma le_dec_zeros n : le_dec (repeat 0 n) = 0.
Proof. induction n; simpl; auto. rewrite IHn. reflexivity. Qed.

(* ------------------------------------------------------------------ growth arithmetic *)
Lemma dbl_reaches fuel : forall n need, need <= n * 2 ^ N.of_nat fuel -> need <= dbl fuel n need.
Proof.
  induction fuel as [|f IH]; intros n need H.
  - simpl in *. lia.
  - cbn [dbl]. destruct (n <? need) eqn:E.
    + apply IH. rewrite Nnat.Nat2N.inj_succ, N.pow_succ_r' in H. lia.
    + apply N.ltb_ge in E. exact E.
Qed.

Lemma grow_size_ok init cp need n : grow_size init cp need = GOk n -> need <= n /\ n <= four_gb.
Proof.
  unfold grow_size. destruct (four_gb <? need); [discriminate|].
  set (k := dbl 64 _ need). destruct (k <? need) eqn:E1; [discriminate|].
  destruct (four_gb <? k) eqn:E2; [discriminate|]. intros [= <-].
  apply N.ltb_ge in E1, E2. auto.
Qed.

(* with a non-zero initial size the doubling loop terminates *)
Lemma grow_never_hangs init cp need : 0 < init -> grow_size init cp need <> GHang.
Proof.
  intros Hi. unfold grow_size. destruct (four_gb <? need) eqn:E0; [discriminate|].
  apply N.ltb_ge in E0.
  set (s := if cp =? 0 then init else 2 * cp).
  assert (Hs : 1 <= s). { unfold s. destruct (cp =? 0) eqn:E; [lia|]. apply N.eqb_neq in E. lia. }
  assert (H : need <= dbl 64 s need).
  { apply dbl_reaches. unfold four_gb in E0. change (2 ^ N.of_nat 64) with 18446744073709551616. lia. }
  destruct (dbl 64 s need <? need) eqn:E1; [apply N.ltb_lt in E1; lia|].
  destruct (four_gb <? dbl 64 s need); discriminate.
Qed.

Lemma pick_size_ok a init cp need n : pick_size a init cp need = GOk n -> need <= n /\ n <= four_gb.
Proof.
  destruct a as [k|]; simpl; [|apply grow_size_ok].
  destruct ((k <? need) || (four_gb <? k)) eqn:E; [discriminate|]. intros [= <-].
  apply orb_false_iff in E as [E1 E2]. apply N.ltb_ge in E1, E2. auto.
Qed.
Lemma pick_never_hangs a init cp need : 0 < init -> pick_size a init cp need <> GHang.
Proof.
  destruct a as [k|]; simpl; [|apply grow_never_hangs].
  intros _. destruct ((k <? need) || (four_gb <? k)); discriminate.
Qed.

(* capacities for which the outcome differs: the one way in which the initial capacity IS visible *)
Lemma grow_limit_depends_on_capacity :
  grow_size 3 (3 * 1073741824) (3 * 1073741824 + 1) = GNoMem /\
  grow_size 1048576 2147483648 (3 * 1073741824 + 1) = GOk four_gb.
Proof. split; vm_compute; reflexivity. Qed.

Lemma place_ok_from_spec nbase ncap b : forall l k,
  place_ok_from k l b nbase ncap = true ->
  forall j, (j < length l)%nat -> (k + j)%nat <> b -> base (bufof l j) <> 0 ->
    base (bufof l j) + cap (bufof l j) <= nbase \/ nbase + ncap <= base (bufof l j).
Proof.
  induction l as [|mb r IH]; intros k H j Hj Hne Hb; simpl in Hj; [lia|].
  simpl in H. apply andb_true_iff in H as [H1 H2].
  destruct j as [|j].
  - unfold bufof in *. simpl in *.
    rewrite !orb_true_iff in H1. destruct H1 as [[[H1|H1]|H1]|H1].
    + apply Nat.eqb_eq in H1. lia.
    + apply N.eqb_eq in H1. congruence.
    + apply N.leb_le in H1. auto.
    + apply N.leb_le in H1. auto.
  - unfold bufof in *. simpl in *. apply (IH (S k) H2 j); auto; lia.
Qed.

(* ------------------------------------------------------------------ invariant and abstraction relation *)
Record inv (m : mem_arena) : Prop := {
  inv_geom : geom_ok (mbufs m);
  inv_in : slots_in (mrelocs m) (mbufs m);
  inv_no : NoOv (mrelocs m);
  inv_init : 0 < minit m;
  inv_pin : mpinned m = false }.

Record Rabs (m : mem_arena) (A : aarena) : Prop := {
  ra_rel : arelocs A = mrelocs m;
  ra_len : length (abufs A) = length (mbufs m);
  ra_used : forall b, length (nth b (abufs A) []) = used (mbufs m) b;
  ra_slot : forall s, In s (mrelocs m) ->
      exists t, points (mbufs m) (slotval (mbufs m) s) t /\ slice (nth (fst s) (abufs A) []) (snd s) 8 = enc_t t;
  ra_free : forall b p, free_pos (mrelocs m) b p -> nth p (nth b (abufs A) []) 0 = nth p (data (bufof (mbufs m) b)) 0 }.

(* the related content is the one [absA] computes: conversion of every registered pointer by
   yr_arena_ptr_to_ref's search *)
Lemma Rabs_abs m A : inv m -> Rabs m A -> absA m = A.
Proof.
  intros [G Hin Hno _ _] [R1 R2 R3 R4 R5]. unfold absA.
  destruct (mapslots_spec (cvt (mbufs m)) (mrelocs m) (mbufs m)) as ([SL S] & E & P); auto.
  { intros x _. apply enc_t_len. }
  set (l' := mapslots (cvt (mbufs m)) (mrelocs m) (mbufs m)) in *.
  destruct A as [ab ar]. simpl in *. f_equal; [|auto].
  apply list_ext with (d := []).
  - rewrite map_length. transitivity (length (mbufs m)); [exact SL|symmetry; exact R2].
  - intros b Hb. rewrite map_length in Hb.
    change (@nil N) with (data nullbuf). rewrite map_nth. fold (bufof l' b). change (data nullbuf) with (@nil N).
    destruct (S b) as (_ & _ & U).
    apply buf_eq_by_slots with (rs := mrelocs m) (b := b).
    + rewrite R3. exact U.
    + intros s Hs <-. fold (used l' (fst s)). rewrite U. now apply Hin.
    + intros s Hs <-. rewrite E by auto. destruct (R4 s Hs) as (t & Pt & Et).
      etransitivity; [|symmetry; exact Et].
      unfold cvt. fold (slotval (mbufs m) s). now rewrite (p2r_spec _ _ t).
    + intros p Hp. rewrite P by auto. symmetry. now apply R5.
Qed.

(* ------------------------------------------------------------------ allocation *)
Definition placed (l : list mbuf) (rs : list slot) (b : nat) (nbase ncap : N) (x : bytes) : list mbuf :=
  let mb := bufof l b in
  let l1 := if negb (base mb =? 0) && negb (base mb =? nbase)
            then mapslots (fixup (base mb) (nlen (data mb)) nbase) rs l else l in
  upd l1 b {| base := nbase; cap := ncap; data := data (bufof l1 b) ++ x |}.

Lemma fixup_len ob u nb x : length x = 8%nat -> length (fixup ob u nb x) = 8%nat.
Proof. intros H. unfold fixup. destruct (_ && _); auto using le_enc_length. Qed.

Lemma placed_spec l rs b nbase ncap x :
  geom_ok l -> slots_in rs l -> NoOv rs -> (b < length l)%nat ->
  (nbase = 0 -> x = [] /\ ncap = 0 /\ base (bufof l b) = 0) ->
  N.of_nat (used l b) + nlen x <= ncap -> nbase + ncap <= two64 ->
  (forall j, (j < length l)%nat -> j <> b -> base (bufof l j) <> 0 -> nbase <> 0 ->
      base (bufof l j) + cap (bufof l j) <= nbase \/ nbase + ncap <= base (bufof l j)) ->
  let l' := placed l rs b nbase ncap x in
  length l' = length l /\ geom_ok l' /\
  (forall j, j <> b -> base (bufof l' j) = base (bufof l j) /\
                       cap (bufof l' j) = cap (bufof l j) /\ used l' j = used l j) /\
  (used l' b = used l b + length x)%nat /\
  (forall k, (k < length x)%nat -> nth (used l b + k) (data (bufof l' b)) 0 = nth k x 0) /\
  (forall s t, In s rs -> points l (slotval l s) t -> points l' (slotval l' s) t) /\
  (forall j p, free_pos rs j p -> (p < used l j)%nat -> nth p (data (bufof l' j)) 0 = nth p (data (bufof l j)) 0).
Proof.
  intros G Hin Hno Hb Hnull Hfit Htop Hdisj l'.
  set (mb := bufof l b) in *. set (ob := base mb). set (u := nlen (data mb)).
  set (moved := negb (ob =? 0) && negb (ob =? nbase)).
  set (g := fun s : bytes => if moved then fixup ob u nbase s else s).
  set (l1 := if moved then mapslots (fixup ob u nbase) rs l else l).
  assert (L1 : same_shape l l1 /\
               (forall s, In s rs -> slice (data (bufof l1 (fst s))) (snd s) 8 = g (slice (data (bufof l (fst s))) (snd s) 8)) /\
               (forall j p, free_pos rs j p -> nth p (data (bufof l1 j)) 0 = nth p (data (bufof l j)) 0)).
  { unfold l1, g. destruct moved.
    - apply mapslots_spec; auto. intros; now apply fixup_len.
    - split; [apply same_shape_refl|]. split; auto. }
  destruct L1 as ([SL S] & E1 & P1).
  assert (El' : l' = upd l1 b {| base := nbase; cap := ncap; data := data (bufof l1 b) ++ x |}) by reflexivity.
  assert (Hb1 : (b < length l1)%nat) by lia.
  assert (Bb : bufof l' b = {| base := nbase; cap := ncap; data := data (bufof l1 b) ++ x |}).
  { rewrite El'. now apply bufof_upd_same. }
  assert (Bo : forall j, j <> b -> bufof l' j = bufof l1 j).
  { intros j Hj. rewrite El'. apply bufof_upd_other. auto. }
  assert (Ub : used l' b = (used l b + length x)%nat).
  { unfold used at 1. rewrite Bb. simpl. rewrite app_length. destruct (S b) as (_ & _ & U). unfold used in U. rewrite U. reflexivity. }
  assert (Uo : forall j, j <> b -> base (bufof l' j) = base (bufof l j) /\ cap (bufof l' j) = cap (bufof l j) /\ used l' j = used l j).
  { intros j Hj. unfold used. rewrite (Bo j Hj). destruct (S j) as (? & ? & ?). auto. }
  assert (Ll' : length l' = length l). { rewrite El', length_upd. exact SL. }
  destruct G as [G1 G2].
  assert (Gu : N.of_nat (used l b) = u) by reflexivity.
  assert (G' : geom_ok l').
  { split.
    - intros i Hi. rewrite Ll' in Hi. destruct (Nat.eq_dec i b) as [->|Ni].
      + rewrite Ub. rewrite Bb. simpl. split.
        * intros Hz. destruct (Hnull Hz) as (-> & -> & Hob). destruct (G1 b Hb) as (Hz' & _). destruct (Hz' Hob) as [-> _]. auto.
        * unfold nlen in Hfit. split; lia.
      + destruct (Uo i Ni) as (-> & -> & ->). auto.
    - intros i j Hi Hj Hij Hbi Hbj. rewrite Ll' in Hi, Hj.
      destruct (Nat.eq_dec i b) as [->|Ni]; destruct (Nat.eq_dec j b) as [->|Nj]; try lia.
      + rewrite Bb in *. simpl in *. destruct (Uo j Nj) as (Ej & Cj & _). rewrite Ej, Cj in *.
        destruct (Hdisj j Hj Nj Hbj Hbi); auto.
      + rewrite Bb in *. simpl in *. destruct (Uo i Ni) as (Ei & Ci & _). rewrite Ei, Ci in *.
        destruct (Hdisj i Hi Ni Hbi Hbj); auto.
      + destruct (Uo i Ni) as (Ei & Ci & _), (Uo j Nj) as (Ej & Cj & _). rewrite Ei, Ci, Ej, Cj in *. auto. }
  (* data of l' inside the old used part is the data of l1 *)
  assert (Dold : forall j p, (p < used l j)%nat -> nth p (data (bufof l' j)) 0 = nth p (data (bufof l1 j)) 0).
  { intros j p Hp. destruct (Nat.eq_dec j b) as [->|Nj].
    - rewrite Bb. simpl. apply nth_app_lt. destruct (S b) as (_ & _ & U). unfold used in *. lia.
    - now rewrite (Bo j Nj). }
  assert (Sold : forall s, In s rs -> slice (data (bufof l' (fst s))) (snd s) 8 = slice (data (bufof l1 (fst s))) (snd s) 8).
  { intros s Hs. destruct (Hin s Hs) as [Hs1 Hs2]. destruct (S (fst s)) as (_ & _ & U).
    destruct (Nat.eq_dec (fst s) b) as [Eb|Nb].
    - rewrite Eb in *. rewrite Bb. simpl. apply slice_app_l. unfold used in *. lia.
    - now rewrite (Bo _ Nb). }
  split; [exact Ll'|]. split; [exact G'|]. split; [exact Uo|]. split; [exact Ub|].
  split; [|split].
  - intros k Hk. rewrite Bb. simpl. rewrite app_nth2.
    + f_equal. destruct (S b) as (_ & _ & U). unfold used in *. lia.
    + destruct (S b) as (_ & _ & U). unfold used in *. lia.
  - (* pointers keep designating the same (buffer, offset) *)
    intros s t Hs Pt. unfold slotval. rewrite Sold, E1 by auto. fold (slotval l s). 
    set (v := slotval l s) in *. unfold slotval in v. fold v.
    destruct t as [[i o]|]; simpl in Pt.
    + destruct Pt as (Hi & Hbi & Ho & Ev).
      destruct (Nat.eq_dec i b) as [->|Ni].
      * (* target in the buffer that was (perhaps) moved *)
        fold mb in Hbi, Ev. fold ob in Hbi, Ev.
        assert (Hou : N.of_nat o < u) by (rewrite <- Gu; lia).
        unfold g. destruct moved eqn:Em.
        -- unfold fixup. fold v.
           replace ((ob <=? v) && (v <? ob + u)) with true
             by (symmetry; apply andb_true_iff; split; [apply N.leb_le|apply N.ltb_lt]; lia).
           rewrite le_dec_enc8 by (unfold nlen in *; lia).
           simpl. rewrite Ll', Ub, Bb. simpl. repeat split; auto; try lia.
        -- fold v. simpl. rewrite Ll', Ub, Bb. simpl.
           assert (ob = nbase).
           { unfold moved in Em. apply andb_false_iff in Em as [Em|Em]; apply negb_false_iff, N.eqb_eq in Em; congruence. }
           subst nbase. repeat split; auto; lia.
      * (* target in another buffer: outside the moved range *)
        assert (Hv : g (slice (data (bufof l (fst s))) (snd s) 8) = slice (data (bufof l (fst s))) (snd s) 8).
        { unfold g. destruct moved eqn:Em; auto. unfold fixup. fold v.
          replace ((ob <=? v) && (v <? ob + u)) with false; auto.
          symmetry. apply andb_false_iff.
          apply andb_true_iff in Em as [Em _]. apply negb_true_iff, N.eqb_neq in Em.
          destruct (G1 i Hi) as (_ & Ci & _). destruct (G1 b Hb) as (_ & Cb & _). fold mb in Cb. rewrite Gu in Cb.
          destruct (G2 i b Hi Hb Ni Hbi Em) as [D|D]; fold mb in D; fold ob in D.
          - left. apply N.leb_gt. lia.
          - right. apply N.ltb_ge. lia. }
        rewrite Hv. fold v. simpl. rewrite Ll'. destruct (Uo i Ni) as (-> & _ & ->). auto.
    + simpl. unfold g. destruct moved eqn:Em; [|exact Pt].
      unfold fixup. fold v. rewrite Pt.
      apply andb_true_iff in Em as [Em _]. apply negb_true_iff, N.eqb_neq in Em.
      replace (ob <=? 0) with false by (symmetry; apply N.leb_gt; lia). simpl. exact Pt.
  - intros j p Hf Hp. rewrite Dold by auto. now apply P1.
Qed.

Lemma length_zero_nil {A} (l : list A) : length l = 0%nat -> l = [].
Proof. destruct l; simpl; auto; lia. Qed.

(* what _yr_arena_allocate_memory does to the buffers, whichever branch it takes *)
Lemma m_alloc_spec orc m b z x :
  inv m -> (b < length (mbufs m))%nat ->
  match m_alloc orc m b z x with
  | MOk m' =>
      let l := mbufs m in let l' := mbufs m' in let rs := mrelocs m in
      mrelocs m' = rs /\ (minit m' = minit m /\ mpinned m' = mpinned m) /\
      length l' = length l /\ geom_ok l' /\
      (forall j, j <> b -> base (bufof l' j) = base (bufof l j) /\
                           cap (bufof l' j) = cap (bufof l j) /\ used l' j = used l j) /\
      (used l' b = used l b + length x)%nat /\
      (forall k, (k < length x)%nat -> nth (used l b + k) (data (bufof l' b)) 0 = nth k x 0) /\
      (forall s t, In s rs -> points l (slotval l s) t -> points l' (slotval l' s) t) /\
      (forall j p, free_pos rs j p -> (p < used l j)%nat -> nth p (data (bufof l' j)) 0 = nth p (data (bufof l j)) 0)
  | MErr ENoMem => True
  | MBad BadPlacement => True
  | _ => False
  end.
Proof.
  intros [G Hin Hno Hinit Hpin] Hb. unfold m_alloc.
  replace (length (mbufs m) <? b)%nat with false by (symmetry; apply Nat.ltb_ge; lia).
  replace (b =? length (mbufs m))%nat with false by (symmetry; apply Nat.eqb_neq; lia).
  set (l := mbufs m) in *. set (mb := bufof l b). set (u := nlen (data mb)).
  assert (G' := G). destruct G' as [G1 G2]. destruct (G1 b Hb) as (Gz & Gu & Gt). fold mb in Gz, Gu, Gt.
  assert (Eu : N.of_nat (used l b) = u) by reflexivity.
  destruct (cap mb - u <? nlen x) eqn:Egrow.
  - destruct (pick_size (snd (orc (mcalls m))) (minit m) (cap mb) (u + nlen x)) as [ncap| | |] eqn:Eg.
    + destruct (placement_ok l b (fst (orc (mcalls m))) ncap) eqn:Ep; [|exact I].
      set (nbase := fst (orc (mcalls m))) in *.
      unfold placement_ok in Ep. apply andb_true_iff in Ep as [Ep Ep3]. apply andb_true_iff in Ep as [Ep1 Ep2].
      apply negb_true_iff, N.eqb_neq in Ep1. apply N.leb_le in Ep2.
      destruct (pick_size_ok _ _ _ _ _ Eg) as [Hfit _].
      cbv zeta. cbn [mrelocs minit mbufs mpinned].
      split; [reflexivity|]. split; [split; reflexivity|].
      apply (placed_spec l (mrelocs m) b nbase ncap x G Hin Hno Hb).
      * intros Hz. congruence.
      * rewrite Eu. exact Hfit.
      * exact Ep2.
      * intros j Hj Hne Hbj _. apply (place_ok_from_spec nbase ncap b l 0%nat Ep3 j); auto.
    + exact I.
    + exfalso. eapply pick_never_hangs; eauto.
    + exact I.
  - apply N.ltb_ge in Egrow.
    rewrite Hpin, andb_false_r. cbn [andb].
    cbv zeta. cbn [mrelocs minit mbufs mpinned].
    split; [reflexivity|]. split; [split; reflexivity|].
    assert (Epl : upd l b (with_data mb (data mb ++ x)) = placed l (mrelocs m) b (base mb) (cap mb) x).
    { unfold placed. fold mb. rewrite N.eqb_refl. cbn [negb]. rewrite andb_false_r. reflexivity. }
    rewrite Epl.
    apply (placed_spec l (mrelocs m) b (base mb) (cap mb) x G Hin Hno Hb).
    + intros Hz. destruct (Gz Hz) as [U0 C0]. fold mb. split; [|auto].
      apply length_zero_nil. unfold nlen in Egrow. unfold u, nlen in *. unfold used in U0. fold mb in U0. lia.
    + fold mb. rewrite Eu. lia.
    + exact Gt.
    + intros j Hj Hne Hbj Hbb. destruct (G2 j b Hj Hb Hne Hbj Hbb) as [D|D]; [left|right]; exact D.
Qed.

Definition sim_res (r : mres mem_arena) (A' : aarena) : Prop :=
  match r with
  | MOk m' => inv m' /\ Rabs m' A'
  | MErr ENoMem => True
  | MBad BadPlacement => True
  | _ => False
  end.

Lemma a_alloc_ok A b x news A' : a_alloc A b x news = MOk A' ->
  (b < length (abufs A))%nat /\
  A' = {| abufs := upd (abufs A) b (nth b (abufs A) [] ++ x); arelocs := arelocs A ++ news |}.
Proof.
  unfold a_alloc. destruct (length (abufs A) <? b)%nat eqn:E1; [discriminate|].
  destruct (b =? length (abufs A))%nat eqn:E2; [discriminate|]. intros [= <-].
  apply Nat.ltb_ge in E1. apply Nat.eqb_neq in E2. split; [lia|reflexivity].
Qed.

Lemma nth_over {A} (l : list A) p d : (length l <= p)%nat -> nth p l d = d.
Proof. apply nth_overflow. Qed.

Lemma sim_alloc orc m A b z xC xA news A' :
  inv m -> Rabs m A -> a_alloc A b xA news = MOk A' ->
  length xA = length xC ->
  let u := used (mbufs m) b in
  (forall s, In s news -> fst s = b /\ (u <= snd s)%nat /\ (snd s + 8 <= u + length xC)%nat) ->
  NoOv news ->
  (forall k, (k < length xC)%nat -> free_pos news b (u + k) -> nth k xA 0 = nth k xC 0) ->
  match m_alloc orc m b z xC with
  | MOk m' =>
      (forall s, In s news -> exists t, points (mbufs m') (le_dec (slice xC (snd s - u) 8)) t /\
                                        slice xA (snd s - u) 8 = enc_t t) ->
      inv (m_reg m' news) /\ Rabs (m_reg m' news) A'
  | MErr ENoMem => True
  | MBad BadPlacement => True
  | _ => False
  end.
Proof.
  intros I R Ha HL u Hnews Hno Hfree.
  destruct (a_alloc_ok _ _ _ _ _ Ha) as [Hb ->].
  destruct R as [R1 R2 R3 R4 R5].
  assert (Hb' : (b < length (mbufs m))%nat) by (rewrite <- R2; exact Hb).
  generalize (m_alloc_spec orc m b z xC I Hb').
  destruct (m_alloc orc m b z xC) as [m'|[]|[]]; auto.
  cbv zeta. intros (Er & (Ei & Epn) & Ll & G' & Uo & Ub & Dn & Pp & Df) Hpt.
  destruct I as [G Hin HnoR Hinit Hpin].
  set (l := mbufs m) in *. fold u in Ub, Dn.
  assert (Ab : length (nth b (abufs A) []) = u) by apply R3.
  (* the new region of the concrete buffer holds xC *)
  assert (Snew : forall o, (o + 8 <= length xC)%nat -> slice (data (bufof (mbufs m') b)) (u + o) 8 = slice xC o 8).
  { intros o Ho. apply list_ext with (d := 0).
    - rewrite !length_slice; auto. fold (used (mbufs m') b). lia.
    - intros k Hk. rewrite length_slice in Hk by (fold (used (mbufs m') b); lia).
      rewrite !nth_slice by lia. rewrite <- Nat.add_assoc. apply Dn. lia. }
  split.
  - (* invariant *)
    constructor; cbn [m_reg mbufs mrelocs minit]; auto.
    + intros s Hs. rewrite Er in Hs. apply in_app_or in Hs as [Hs|Hs].
      * destruct (Hin s Hs) as [H1 H2]. fold l in H1, H2. split; [lia|].
        destruct (Nat.eq_dec (fst s) b) as [E|N]; [rewrite E in *; lia|].
        destruct (Uo _ N) as (_ & _ & ->). exact H2.
      * destruct (Hnews s Hs) as (-> & H1 & H2). split; [lia|]. rewrite Ub. exact H2.
    + rewrite Er. apply NoOv_apps; auto.
      intros s s' Hs Hs'. destruct (Hnews s' Hs') as (E' & H1 & H2). destruct (Hin s Hs) as [_ H3].
      unfold sl_disj. destruct (Nat.eq_dec (fst s) b) as [E|N]; [|left; congruence].
      rewrite E in H3. fold l in H3. fold u in H3. right. left. lia.
    + now rewrite Ei.
    + cbn [m_reg mpinned]. rewrite Epn. exact Hpin.
  - constructor; cbn [m_reg mbufs mrelocs abufs arelocs].
    + now rewrite R1, Er.
    + rewrite length_upd. fold l in R2. lia.
    + intros j. destruct (Nat.eq_dec j b) as [->|N].
      * rewrite nth_upd_same by exact Hb. rewrite app_length, Ub. fold l in Ab. lia.
      * rewrite nth_upd_other by auto. destruct (Uo _ N) as (_ & _ & ->). apply R3.
    + intros s Hs. rewrite Er in Hs. apply in_app_or in Hs as [Hs|Hs].
      * destruct (R4 s Hs) as (t & Pt & Et). exists t. split; [apply Pp; auto|].
        destruct (Nat.eq_dec (fst s) b) as [E|N].
        -- rewrite E in *. rewrite nth_upd_same by exact Hb.
           rewrite slice_app_l; [exact Et|]. destruct (Hin s Hs) as [_ H2]. rewrite E in H2. fold l in H2. fold u in H2. lia.
        -- rewrite nth_upd_other by auto. exact Et.
      * destruct (Hnews s Hs) as (E & H1 & H2). destruct (Hpt s Hs) as (t & Pt & Et). exists t.
        assert (Eo : snd s = (u + (snd s - u))%nat) by lia.
        split.
        -- unfold slotval. rewrite E. rewrite Eo. rewrite Snew by lia. exact Pt.
        -- rewrite E. rewrite nth_upd_same by exact Hb.
           pose proof (slice_app_r (nth b (abufs A) []) xA (snd s - u) 8) as Q. rewrite Ab in Q.
           rewrite Eo at 1. rewrite Q. exact Et.
    + intros j p Hp.
      assert (HpR : free_pos (mrelocs m) j p). { intros s Hs. apply Hp. rewrite Er. apply in_or_app. now left. }
      assert (HpN : free_pos news j p). { intros s Hs. apply Hp. rewrite Er. apply in_or_app. now right. }
      destruct (Nat.eq_dec j b) as [->|N].
      * rewrite nth_upd_same by exact Hb.
        destruct (Nat.lt_ge_cases p u) as [C|C].
        -- rewrite nth_app_lt by lia. rewrite Df by auto. apply R5; auto.
        -- rewrite app_nth2 by lia. rewrite Ab.
           destruct (Nat.lt_ge_cases (p - u) (length xC)) as [C2|C2].
           ++ rewrite Hfree; auto.
              ** replace p with (u + (p - u))%nat at 2 by lia. symmetry. apply Dn. exact C2.
              ** replace (u + (p - u))%nat with p by lia. exact HpN.
           ++ rewrite !nth_over; auto; [fold (used (mbufs m') b)|]; lia.
      * rewrite nth_upd_other by auto.
        destruct (Uo _ N) as (_ & _ & Uj).
        destruct (Nat.lt_ge_cases p (used l j)) as [C|C].
        -- rewrite Df by auto. apply R5; auto.
        -- rewrite !nth_over; auto; [fold (used (mbufs m') j)|rewrite R3; fold l]; lia.
Qed.

(* ------------------------------------------------------------------ stores into allocated memory *)
Definition poked (l : list mbuf) (b off : nat) (x : bytes) : list mbuf :=
  upd l b (with_data (bufof l b) (splice (data (bufof l b)) off x)).

Lemma poked_spec l b off x :
  (b < length l)%nat -> (off + length x <= used l b)%nat ->
  let l' := poked l b off x in
  same_shape l l' /\
  (forall j, j <> b -> bufof l' j = bufof l j) /\
  (forall p, nth p (data (bufof l' b)) 0 =
             if (p <? off)%nat then nth p (data (bufof l b)) 0
             else if (p <? off + length x)%nat then nth (p - off) x 0 else nth p (data (bufof l b)) 0).
Proof.
  intros Hb Ho l'. unfold used in Ho.
  assert (Bb : bufof l' b = with_data (bufof l b) (splice (data (bufof l b)) off x)) by (apply bufof_upd_same; auto).
  assert (Bo : forall j, j <> b -> bufof l' j = bufof l j) by (intros j Hj; apply bufof_upd_other; auto).
  split; [|split; auto].
  - split; [apply length_upd|]. intros j. destruct (Nat.eq_dec j b) as [->|N].
    + unfold used. rewrite Bb. simpl. rewrite splice_length by lia. auto.
    + unfold used. rewrite (Bo j N). auto.
  - intros p. rewrite Bb. simpl. apply nth_splice. lia.
Qed.

Lemma sim_poke m A b off xC xA news :
  inv m -> Rabs m A ->
  (b < length (mbufs m))%nat -> (off + length xC <= used (mbufs m) b)%nat -> length xA = length xC ->
  NoOv (mrelocs m ++ news) ->
  (forall s, In s news -> s = (b, off)) ->
  (forall s, In s (mrelocs m ++ news) ->
     (s = (b, off) /\ length xC = 8%nat /\ exists t, points (mbufs m) (le_dec xC) t /\ xA = enc_t t) \/
     (In s (mrelocs m) /\ (fst s <> b \/ (snd s + 8 <= off)%nat \/ (off + length xC <= snd s)%nat))) ->
  (forall p, free_pos (mrelocs m ++ news) b p -> (off <= p < off + length xC)%nat ->
     nth (p - off) xA 0 = nth (p - off) xC 0) ->
  let m' := {| mbufs := poked (mbufs m) b off xC; mrelocs := mrelocs m ++ news; minit := minit m; mcalls := mcalls m;
               mzlim := mzlim m; mpinned := mpinned m |} in
  inv m' /\ Rabs m' (let A1 := a_poke A b off xA in {| abufs := abufs A1; arelocs := arelocs A ++ news |}).
Proof.
  intros [G Hin HnoR Hinit Hpin] [R1 R2 R3 R4 R5] Hb Ho HL Hno Hnews Hsl Hfr. cbv zeta.
  set (l := mbufs m) in *.
  destruct (poked_spec l b off xC Hb Ho) as (Sh & Bo & Dp). set (l' := poked l b off xC) in *.
  assert (HbA : (b < length (abufs A))%nat) by (rewrite R2; exact Hb).
  assert (Ab : length (nth b (abufs A) []) = used l b) by apply R3.
  assert (Ap : forall p, nth p (splice (nth b (abufs A) []) off xA) 0 =
             if (p <? off)%nat then nth p (nth b (abufs A) []) 0
             else if (p <? off + length xC)%nat then nth (p - off) xA 0 else nth p (nth b (abufs A) []) 0).
  { intros p. rewrite nth_splice by lia. now rewrite HL. }
  assert (Sh' := Sh). destruct Sh' as [SL SS].
  split.
  - constructor; cbn [mbufs mrelocs minit mpinned]; auto.
    + eapply geom_ok_shape; eauto.
    + intros s Hs. apply in_app_or in Hs as [Hs|Hs].
      * apply (slots_in_shape _ l l' Sh Hin s Hs).
      * rewrite (Hnews s Hs). simpl. destruct (Hsl s (in_or_app _ _ _ (or_intror Hs))) as [(E & L8 & _)|(Hs' & _)].
        -- split; [fold l'; lia|]. destruct (SS b) as (_ & _ & ->). lia.
        -- rewrite (Hnews s Hs) in Hs'. apply (slots_in_shape _ l l' Sh Hin _ Hs').
  - constructor; cbn [mbufs mrelocs abufs arelocs a_poke].
    + now rewrite R1.
    + rewrite length_upd. fold l'. rewrite SL. exact R2.
    + intros j. fold l'. destruct (SS j) as (_ & _ & ->). destruct (Nat.eq_dec j b) as [->|N].
      * rewrite nth_upd_same by exact HbA. rewrite splice_length by lia. exact Ab.
      * rewrite nth_upd_other by auto. apply R3.
    + intros s Hs. fold l'. destruct (Hsl s Hs) as [(-> & L8 & t & Pt & Ext)|(Hs' & Hd)].
      * exists t. cbn [fst snd]. split.
        -- unfold slotval. cbn [fst snd]. unfold l', poked. rewrite bufof_upd_same by exact Hb. simpl.
           rewrite <- L8 at 1. rewrite slice_splice_eq by (unfold used in Ho; lia).
           apply (points_shape l); auto.
        -- rewrite nth_upd_same by exact HbA.
           assert (L8' : length xA = 8%nat) by lia. rewrite <- L8' at 1.
           rewrite slice_splice_eq by lia. exact Ext.
      * destruct (R4 s Hs') as (t & Pt & Et). exists t. destruct (Hin s Hs') as [Hs1 Hs2]. fold l in Hs1, Hs2.
        split.
        -- apply (points_shape l); auto.
           replace (slotval l' s) with (slotval l s); auto. unfold slotval. f_equal.
           destruct (Nat.eq_dec (fst s) b) as [E|N]; [|now rewrite (Bo _ N)].
           rewrite E in *. apply slice_ext with (d := 0).
           ++ exact Hs2.
           ++ destruct (SS b) as (_ & _ & U). unfold used in U. unfold used in Hs2. lia.
           ++ intros k Hk. rewrite Dp.
              destruct (snd s + k <? off)%nat eqn:E1; auto.
              destruct (snd s + k <? off + length xC)%nat eqn:E2; auto.
              apply Nat.ltb_ge in E1. apply Nat.ltb_lt in E2. exfalso. lia.
        -- etransitivity; [|exact Et].
           destruct (Nat.eq_dec (fst s) b) as [E|N]; [|now rewrite nth_upd_other by auto].
           rewrite E in *. rewrite nth_upd_same by exact HbA. apply slice_ext with (d := 0).
           ++ rewrite splice_length by lia. lia.
           ++ lia.
           ++ intros k Hk. rewrite Ap.
              destruct (snd s + k <? off)%nat eqn:E1; auto.
              destruct (snd s + k <? off + length xC)%nat eqn:E2; auto.
              apply Nat.ltb_ge in E1. apply Nat.ltb_lt in E2. exfalso. lia.
    + intros j p Hp. fold l'.
      assert (HpR : free_pos (mrelocs m) j p). { intros s Hs. apply Hp. apply in_or_app. now left. }
      destruct (Nat.eq_dec j b) as [->|N].
      * rewrite nth_upd_same by exact HbA. rewrite Ap, Dp.
        destruct (p <? off)%nat eqn:E1; [now apply R5|].
        destruct (p <? off + length xC)%nat eqn:E2; [|now apply R5].
        apply Nat.ltb_ge in E1. apply Nat.ltb_lt in E2. apply Hfr; auto.
      * rewrite nth_upd_other by auto. rewrite (Bo _ N). now apply R5.
Qed.

(* ------------------------------------------------------------------ one operation *)
Lemma m_reg_nil m : m_reg m [] = m.
Proof. destruct m. unfold m_reg. simpl. now rewrite app_nil_r. Qed.

Lemma sim_alloc_plain orc m A b z x A' :
  inv m -> Rabs m A -> a_alloc A b x [] = MOk A' -> sim_res (m_alloc orc m b z x) A'.
Proof.
  intros Iv R Ha.
  pose proof (sim_alloc orc m A b z x x [] A' Iv R Ha eq_refl) as S. cbv zeta in S.
  specialize (S (fun s (H : In s []) => match H with end) I (fun k _ _ => eq_refl)).
  unfold sim_res. destruct (m_alloc orc m b z x) as [m'|[]|[]]; auto.
  rewrite m_reg_nil in S. apply S. intros s [].
Qed.

Lemma of_mres_ok {A} (r : mres A) a : of_mres r = AOk a -> r = MOk a.
Proof. destruct r; simpl; congruence. Qed.

Lemma valid_t_points l A t :
  geom_ok l -> length (abufs A) = length l -> (forall b, length (nth b (abufs A) []) = used l b) ->
  valid_t true (abufs A) t = true ->
  exists p, get_ptr l t = MOk p /\ points l p t /\ p < two64.
Proof.
  intros [G1 _] HL HU Hv. destruct t as [[i o]|]; simpl in *.
  - apply andb_true_iff in Hv as [Hi Ho]. apply Nat.ltb_lt in Hi, Ho. rewrite HL in Hi. rewrite HU in Ho.
    replace (i <? length l)%nat with true by (symmetry; apply Nat.ltb_lt; auto).
    replace (o <=? used l i)%nat with true by (symmetry; apply Nat.leb_le; lia).
    destruct (G1 i Hi) as (Gz & Gu & Gt).
    destruct (base (bufof l i) =? 0) eqn:Ez.
    + apply N.eqb_eq in Ez. destruct (Gz Ez). lia.
    + apply N.eqb_neq in Ez. eexists. split; [reflexivity|]. split; [repeat split; auto|]. lia.
  - exists 0. repeat split.
Qed.

Lemma fold_splice_spec (v : bytes) offs : forall l0 : bytes,
  length v = 8%nat ->
  (forall o, In o offs -> (o + 8 <= length l0)%nat) ->
  NoOv (map (fun o => (0%nat, o)) offs) ->
  let r := fold_left (fun l o => splice l o v) offs l0 in
  length r = length l0 /\
  (forall o, In o offs -> slice r o 8 = v) /\
  (forall p, (forall o, In o offs -> ~ (o <= p < o + 8)%nat) -> nth p r 0 = nth p l0 0).
Proof.
  induction offs as [|o offs IH]; intros l0 Lv Hin Hno r.
  - simpl in *. repeat split; auto. intros ? [].
  - simpl in Hno. destruct Hno as [Hd Hno].
    assert (Ho : (o + 8 <= length l0)%nat) by (apply Hin; now left).
    set (l1 := splice l0 o v).
    assert (L1 : length l1 = length l0) by (apply splice_length; lia).
    destruct (IH l1 Lv) as (L2 & S2 & P2); auto.
    { intros o' Ho'. rewrite L1. apply Hin. now right. }
    change (fold_left (fun l o => splice l o v) (o :: offs) l0) with (fold_left (fun l o => splice l o v) offs l1) in r.
    fold r in L2, S2, P2.
    assert (D : forall o', In o' offs -> (o + 8 <= o')%nat \/ (o' + 8 <= o)%nat).
    { intros o' Ho'. specialize (Hd (0%nat, o')). unfold sl_disj in Hd. simpl in Hd.
      destruct Hd as [Hd|Hd]; [apply in_map_iff; eauto|congruence|auto]. }
    split; [lia|]. split.
    + intros o' [<-|Ho']; [|now apply S2].
      transitivity (slice l1 o 8).
      * apply slice_ext with (d := 0); try lia. intros k Hk. apply P2. intros o' Ho'. specialize (D o' Ho'). lia.
      * unfold l1. rewrite <- Lv at 1. apply slice_splice_eq. lia.
    + intros p Hp. rewrite P2 by (intros o' Ho'; apply Hp; now right).
      unfold l1. rewrite nth_splice by lia. rewrite Lv.
      specialize (Hp o (or_introl eq_refl)).
      destruct (p <? o)%nat eqn:E1; auto. destruct (p <? o + 8)%nat eqn:E2; auto.
      apply Nat.ltb_ge in E1. apply Nat.ltb_lt in E2. lia.
Qed.

Lemma offs_ok_spec n offs : offs_ok n offs = true ->
  (forall o, In o offs -> (o + 8 <= n)%nat) /\ forall b, NoOv (map (fun o => (b, o)) offs).
Proof.
  induction offs as [|o r IH]; simpl; intros H.
  - split; [intros ? []|intros; exact I].
  - apply andb_true_iff in H as [H H3]. apply andb_true_iff in H as [H1 H2].
    apply Nat.leb_le in H1. destruct (IH H3) as [I1 I2]. split.
    + intros o' [<-|Ho']; auto.
    + intros b. split; [|apply I2].
      intros s' Hs'. apply in_map_iff in Hs' as (o' & <- & Ho').
      rewrite forallb_forall in H2. specialize (H2 o' Ho').
      apply orb_true_iff in H2. unfold sl_disj. simpl. right.
      destruct H2 as [H2|H2]; apply Nat.leb_le in H2; auto.
Qed.

Lemma le_dec_all_zero (l : bytes) : (forall p, nth p l 0 = 0) -> le_dec l = 0.
Proof.
  induction l as [|a r IH]; intros H; simpl; auto.
  rewrite IH; [|intros p; apply (H (S p))]. specialize (H 0%nat). simpl in H. lia.
Qed.

Lemma zeros_slice n o : le_dec (slice (repeat 0 n) o 8) = 0.
Proof.
  apply le_dec_all_zero. intros p. unfold slice.
  destruct (Nat.lt_ge_cases p 8) as [C|C].
  - rewrite nth_firstn_lt by auto. rewrite nth_skipn.
    destruct (Nat.lt_ge_cases (o + p) n) as [C2|C2].
    + apply nth_repeat.
    + apply nth_overflow. rewrite repeat_length. lia.
  - apply nth_overflow. rewrite firstn_length. lia.
Qed.

Lemma sim_poke0 m A b off xC xA :
  inv m -> Rabs m A ->
  (b < length (mbufs m))%nat -> (off + length xC <= used (mbufs m) b)%nat -> length xA = length xC ->
  (forall s, In s (mrelocs m) ->
     (s = (b, off) /\ length xC = 8%nat /\ exists t, points (mbufs m) (le_dec xC) t /\ xA = enc_t t) \/
     (fst s <> b \/ (snd s + 8 <= off)%nat \/ (off + length xC <= snd s)%nat)) ->
  (forall p, free_pos (mrelocs m) b p -> (off <= p < off + length xC)%nat ->
     nth (p - off) xA 0 = nth (p - off) xC 0) ->
  sim_res (m_poke m b off xC) (a_poke A b off xA).
Proof.
  intros Iv R Hb Ho HL Hsl Hfr.
  pose proof (sim_poke m A b off xC xA [] Iv R Hb Ho HL) as S. cbv zeta in S.
  rewrite !app_nil_r in S.
  unfold m_poke.
  replace ((b <? length (mbufs m))%nat && (off + length xC <=? used (mbufs m) b)%nat) with true
    by (symmetry; apply andb_true_iff; split; [apply Nat.ltb_lt|apply Nat.leb_le]; auto).
  unfold sim_res. apply S; auto.
  - apply Iv.
  - intros s [].
  - intros s Hs. destruct (Hsl s Hs) as [H|H]; [left|right]; auto.
Qed.

Lemma sim_step orc m A o A' :
  inv m -> Rabs m A -> astep true A o = AOk A' -> sim_res (step orc m o) A'.
Proof.
  intros Iv R Hs.
  assert (I' := Iv). destruct I' as [G Hin Hno Hinit Hpin].
  assert (R' := R). destruct R' as [R1 R2 R3 R4 R5].
  destruct o as [b n|b x|b x|b n offs|b off t|b off t|b off x|b i t]; simpl in Hs.
  - apply of_mres_ok in Hs. now apply sim_alloc_plain with (A := A).
  - apply of_mres_ok in Hs. now apply sim_alloc_plain with (A := A).
  - apply of_mres_ok in Hs. now apply sim_alloc_plain with (A := A).
  - (* allocate_struct *)
    destruct (offs_ok n offs) eqn:Eo; [|discriminate]. apply of_mres_ok in Hs.
    destruct (offs_ok_spec _ _ Eo) as [O1 O2].
    rewrite R3 in Hs. set (u := used (mbufs m) b) in *.
    destruct (fold_splice_spec (enc_t None) offs (repeat 0 n) (enc_t_len None)) as (FL & FS & FP).
    { intros o Ho. rewrite repeat_length. auto. } { apply O2. }
    fold (struct_image n offs) in FL, FS, FP. rewrite repeat_length in FL.
    pose proof (sim_alloc orc m A b true (repeat 0 n) (struct_image n offs) _ A' Iv R Hs) as S.
    cbv zeta in S. fold u in S. rewrite repeat_length in S. specialize (S FL).
    assert (Hn : forall s, In s (map (fun o => (b, (u + o)%nat)) offs) ->
                 fst s = b /\ (u <= snd s)%nat /\ (snd s + 8 <= u + n)%nat).
    { intros s Hs'. apply in_map_iff in Hs' as (o & <- & Ho). simpl. specialize (O1 o Ho). lia. }
    assert (Hnov : NoOv (map (fun o => (b, (u + o)%nat)) offs)).
    { clear -O2. specialize (O2 b). induction offs as [|o r IH]; simpl in *; auto.
      destruct O2 as [D N]. split; auto.
      intros s' Hs'. apply in_map_iff in Hs' as (o' & <- & Ho').
      specialize (D (b, o') ltac:(apply in_map_iff; eauto)). unfold sl_disj in *. simpl in *. lia. }
    specialize (S Hn Hnov).
    assert (Hfr : forall k, (k < n)%nat -> free_pos (map (fun o => (b, (u + o)%nat)) offs) b (u + k) ->
                  nth k (struct_image n offs) 0 = nth k (repeat 0 n) 0).
    { intros k Hk Hf. apply FP. intros o Ho Hr.
      apply (Hf (b, (u + o)%nat)); [apply in_map_iff; eauto|reflexivity|simpl; lia]. }
    specialize (S Hfr).
    unfold step. fold u. unfold sim_res, mbind.
    destruct (m_alloc orc m b true (repeat 0 n)) as [m'|[]|[]]; auto.
    apply S. intros s Hs'. apply in_map_iff in Hs' as (o & <- & Ho). simpl.
    replace (u + o - u)%nat with o by lia. exists None. split.
    + simpl. apply zeros_slice.
    + now apply FS.
  - (* make_ptr_relocatable + store *)
    destruct ((b <? length (abufs A))%nat && (off + 8 <=? length (nth b (abufs A) []))%nat) eqn:E1; [|discriminate].
    destruct (forallb (sl_disjb (b, off)) (arelocs A)) eqn:E2; [|discriminate].
    destruct (valid_t true (abufs A) t) eqn:E3; [|discriminate].
    simpl in Hs. injection Hs as <-.
    apply andb_true_iff in E1 as [E1 E1']. apply Nat.ltb_lt in E1. apply Nat.leb_le in E1'.
    rewrite R2 in E1. rewrite R3 in E1'. rewrite R1 in E2. rewrite forallb_forall in E2.
    destruct (valid_t_points _ _ _ G R2 R3 E3) as (p & Ep & Pp & Hp).
    unfold step. rewrite Ep. unfold mbind, m_poke. cbn [m_reg mbufs mrelocs minit mcalls].
    rewrite le_enc_length.
    replace ((b <? length (mbufs m))%nat && (off + 8 <=? used (mbufs m) b)%nat) with true
      by (symmetry; apply andb_true_iff; split; [apply Nat.ltb_lt|apply Nat.leb_le]; auto).
    unfold sim_res.
    pose proof (sim_poke m A b off (le_enc 8 p) (enc_t t) [(b, off)] Iv R E1) as S. cbv zeta in S.
    rewrite le_enc_length in S. apply S; auto.
    + apply enc_t_len.
    + apply NoOv_app; auto. intros s' Hs'. apply sl_disj_sym. apply sl_disjb_spec. auto.
    + intros s [<-|[]]. reflexivity.
    + intros s Hs'. apply in_app_or in Hs' as [Hs'|[<-|[]]].
      * right. split; auto. specialize (E2 s Hs'). apply sl_disjb_spec in E2. unfold sl_disj in E2. simpl in E2.
        destruct E2 as [E2|[E2|E2]]; auto.
      * left. repeat split; auto. exists t. split; auto. now rewrite le_dec_enc8.
    + intros q Hq Hr. exfalso. apply (Hq (b, off)); [apply in_or_app; right; now left|reflexivity|simpl; lia].
  - (* store a pointer into a registered slot *)
    destruct (existsb (slot_eqb (b, off)) (arelocs A)) eqn:E1; [|discriminate].
    destruct (valid_t true (abufs A) t) eqn:E3; [|discriminate].
    simpl in Hs. injection Hs as <-.
    rewrite R1 in E1. apply existsb_exists in E1 as (s0 & Hs0 & Eq).
    unfold slot_eqb in Eq. apply andb_true_iff in Eq as [Eq1 Eq2]. apply Nat.eqb_eq in Eq1, Eq2. simpl in Eq1, Eq2.
    assert (Es0 : s0 = (b, off)) by (destruct s0; simpl in *; congruence). subst s0.
    destruct (Hin _ Hs0) as [Hb Ho]. simpl in Hb, Ho.
    destruct (valid_t_points _ _ _ G R2 R3 E3) as (p & Ep & Pp & Hp).
    unfold step. rewrite Ep. unfold mbind.
    apply sim_poke0; [exact Iv|exact R|exact Hb|rewrite le_enc_length; exact Ho
                     |rewrite le_enc_length; apply enc_t_len| |].
    + intros s Hs'. rewrite le_enc_length.
      destruct (NoOv_disj _ _ _ Hno Hs' Hs0) as [->|D].
      * left. repeat split; auto. exists t. split; auto. now rewrite le_dec_enc8.
      * right. unfold sl_disj in D. simpl in D. destruct D as [D|[D|D]]; auto.
    + intros q Hq Hr. rewrite le_enc_length in Hr. exfalso. apply (Hq (b, off)); auto.
  - (* store plain bytes *)
    destruct ((b <? length (abufs A))%nat && (off + length x <=? length (nth b (abufs A) []))%nat) eqn:E1; [|discriminate].
    destruct (forallb (fun s : slot => negb (fst s =? b)%nat || (snd s + 8 <=? off)%nat
                                       || (off + length x <=? snd s)%nat) (arelocs A)) eqn:E2; [|discriminate].
    simpl in Hs. injection Hs as <-.
    apply andb_true_iff in E1 as [E1 E1']. apply Nat.ltb_lt in E1. apply Nat.leb_le in E1'.
    rewrite R2 in E1. rewrite R3 in E1'. rewrite R1 in E2. rewrite forallb_forall in E2.
    unfold step. apply sim_poke0; [exact Iv|exact R|exact E1|exact E1'|reflexivity| |reflexivity].
    intros s Hs'. right. specialize (E2 s Hs'). rewrite !orb_true_iff, negb_true_iff, Nat.eqb_neq, !Nat.leb_le in E2.
    tauto.
  - (* yr_parser_emit_with_arg_reloc *)
    destruct (valid_t true (abufs A) t) eqn:E3; [|discriminate]. simpl in Hs.
    destruct (match t with Some (tb, _) => (tb =? b)%nat | None => false end) eqn:E4; [discriminate|].
    destruct (a_alloc A b [i] []) as [A1| |] eqn:Ea1; try (simpl in Hs; discriminate).
    apply of_mres_ok in Hs.
    destruct (valid_t_points _ _ _ G R2 R3 E3) as (p & Ep & Pp & Hp).
    unfold step. rewrite Ep. unfold mbind.
    destruct (a_alloc_ok _ _ _ _ _ Ea1) as [HbA EA1].
    assert (Hb : (b < length (mbufs m))%nat) by (rewrite <- R2; exact HbA).
    pose proof (sim_alloc_plain orc m A b false [i] A1 Iv R Ea1) as S1.
    pose proof (m_alloc_spec orc m b false [i] Iv Hb) as M1.
    destruct (m_alloc orc m b false [i]) as [m1|[]|[]]; try exact S1; try exact I.
    destruct S1 as [I1 Ra1]. cbv zeta in M1. destruct M1 as (_ & _ & Ll1 & _ & Uo1 & Ub1 & _).
    assert (Hb1 : (b < length (mbufs m1))%nat) by lia.
    pose proof (m_alloc_spec orc m1 b false (le_enc 8 p) I1 Hb1) as M2.
    rewrite R3 in Hs.
    pose proof (sim_alloc orc m1 A1 b false (le_enc 8 p) (enc_t t) _ A' I1 Ra1 Hs) as S2.
    cbv zeta in S2. rewrite le_enc_length, enc_t_len in S2. specialize (S2 eq_refl).
    simpl in Ub1.
    assert (Hn : forall s, In s [(b, S (used (mbufs m) b))] ->
       fst s = b /\ (used (mbufs m1) b <= snd s)%nat /\ (snd s + 8 <= used (mbufs m1) b + 8)%nat).
    { intros s [<-|[]]. simpl. lia. }
    specialize (S2 Hn). specialize (S2 (conj (fun s (H : In s []) => match H with end) I)).
    assert (Hfr : forall k, (k < 8)%nat -> free_pos [(b, S (used (mbufs m) b))] b (used (mbufs m1) b + k) ->
                  nth k (enc_t t) 0 = nth k (le_enc 8 p) 0).
    { intros k Hk Hf. exfalso. apply (Hf (b, S (used (mbufs m) b))); [now left|reflexivity|simpl; lia]. }
    specialize (S2 Hfr).
    destruct (m_alloc orc m1 b false (le_enc 8 p)) as [m2|[]|[]]; try exact S2; try exact I.
    unfold sim_res. apply S2. intros s [<-|[]]. cbn [fst snd].
    replace (S (used (mbufs m) b) - used (mbufs m1) b)%nat with 0%nat by lia.
    exists t. cbv zeta in M2. destruct M2 as (_ & _ & Ll2 & _ & Uo2 & _).
    assert (Sl : forall y : bytes, length y = 8%nat -> slice y 0 8 = y).
    { intros y Hy. unfold slice. cbn [skipn]. rewrite <- Hy. apply firstn_all. }
    rewrite !Sl by (try apply le_enc_length; apply enc_t_len). split; [|reflexivity].
    rewrite le_dec_enc8 by auto.
    destruct t as [[tb to]|]; simpl in Pp |- *; auto.
    apply Nat.eqb_neq in E4.
    destruct Pp as (P1 & P2 & P3 & P4).
    destruct (Uo1 tb E4) as (B1 & _ & U1). destruct (Uo2 tb E4) as (B2 & _ & U2).
    rewrite B2, B1, U2, U1. repeat split; auto. lia.
Qed.

(* ------------------------------------------------------------------ sequences *)
Lemma run_sim orc ops : forall m A A',
  inv m -> Rabs m A -> arun true A ops = AOk A' -> sim_res (run orc m ops) A'.
Proof.
  induction ops as [|o r IH]; intros m A A' Iv R Hr; simpl in *.
  - injection Hr as <-. split; auto.
  - destruct (astep true A o) as [A1| | |] eqn:Ea; try discriminate.
    pose proof (sim_step orc m A o A1 Iv R Ea) as S.
    destruct (step orc m o) as [m1|[]|[]]; simpl in S |- *; try exact S.
    destruct S as [I1 R1]. eapply IH; eauto.
Qed.

Lemma nth_repeat_any {A} (a : A) n i : nth i (repeat a n) a = a.
Proof.
  destruct (Nat.lt_ge_cases i n).
  - apply nth_repeat.
  - apply nth_overflow. rewrite repeat_length. lia.
Qed.

Lemma bufof_repeat nb i : bufof (repeat nullbuf nb) i = nullbuf.
Proof. apply nth_repeat_any. Qed.

Lemma init_ok nb cp : 0 < cp -> inv (init nb cp) /\ Rabs (init nb cp) (ainit nb).
Proof.
  intros Hc. split.
  - constructor; cbn [init mbufs mrelocs minit mpinned]; auto.
    + split.
      * intros i Hi. unfold used. rewrite bufof_repeat. simpl. unfold two64. repeat split; lia.
      * intros i j _ _ _ Hb. rewrite bufof_repeat in Hb. simpl in Hb. congruence.
    + intros s [].
    + exact I.
  - constructor; cbn [init ainit mbufs mrelocs minit abufs arelocs]; auto.
    + now rewrite !repeat_length.
    + intros b. unfold used. rewrite bufof_repeat. rewrite nth_repeat_any. reflexivity.
    + intros s [].
    + intros b p _. rewrite bufof_repeat. rewrite nth_repeat_any. simpl. destruct p; reflexivity.
Qed.

(* the content computed from the real memory image equals the content computed without addresses *)
Theorem abs_is_address_free nb ops cp orc m A :
  0 < cp -> arun true (ainit nb) ops = AOk A -> run orc (init nb cp) ops = MOk m -> absA m = A /\ inv m.
Proof.
  intros Hc Ha Hr. destruct (init_ok nb cp Hc) as [I0 R0].
  pose proof (run_sim orc ops _ _ _ I0 R0 Ha) as S. rewrite Hr in S. destruct S as [I1 R1].
  split; auto. now apply Rabs_abs.
Qed.

Theorem growth_invisible_proof nb ops cp cp' orc orc' m m' :
  disciplined nb ops -> 0 < cp -> 0 < cp' ->
  run orc (init nb cp) ops = MOk m -> run orc' (init nb cp') ops = MOk m' ->
  abs m = abs m'.
Proof.
  intros [A Ha] Hc Hc' H1 H2. unfold abs.
  destruct (abs_is_address_free _ _ _ _ _ _ Hc Ha H1) as [-> _].
  destruct (abs_is_address_free _ _ _ _ _ _ Hc' Ha H2) as [-> _]. reflexivity.
Qed.

(* a disciplined sequence can only fail by exhausting memory (or when the oracle is not a realloc) *)
Theorem run_progress_proof nb ops cp orc :
  disciplined nb ops -> 0 < cp ->
  match run orc (init nb cp) ops with
  | MOk _ => True | MErr ENoMem => True | MBad BadPlacement => True | _ => False
  end.
Proof.
  intros [A Ha] Hc. destruct (init_ok nb cp Hc) as [I0 R0].
  pose proof (run_sim orc ops _ _ _ I0 R0 Ha) as S.
  destruct (run orc (init nb cp) ops) as [m|[]|[]]; auto.
Qed.

(* ------------------------------------------------------------------ saving *)
Lemma table_from_ext : forall (l1 l2 : list bytes) off,
  length l1 = length l2 -> (forall i, length (nth i l1 []) = length (nth i l2 [])) ->
  table_from off l1 = table_from off l2.
Proof.
  induction l1 as [|a r IH]; intros [|a' r'] off HL H; cbn [length] in HL; try lia; auto.
  cbn [table_from].
  assert (Ea : nlen a = nlen a') by (unfold nlen; f_equal; apply (H 0%nat)).
  rewrite Ea. do 2 f_equal. apply IH; [lia|]. intros i. apply (H (S i)).
Qed.

Lemma save_mem_abs c m : slots_in (mrelocs m) (mbufs m) -> NoOv (mrelocs m) -> save_mem c m = save c (abs m).
Proof.
  intros Hin Hno. unfold save_mem, save, abs, to_arena, absA. cbn [bufs relocs abufs arelocs].
  destruct (mapslots_spec (cvt (mbufs m)) (mrelocs m) (mbufs m)) as ([SL S] & _ & _); auto.
  { intros x _. apply enc_t_len. }
  set (l' := mapslots (cvt (mbufs m)) (mrelocs m) (mbufs m)) in *.
  assert (E1 : nlen (map data l') = nlen (mbufs m)) by (unfold nlen; now rewrite map_length, SL).
  rewrite E1. f_equal. f_equal; [|f_equal; f_equal; now rewrite map_map].
  apply table_from_ext.
  - now rewrite !map_length.
  - intros i. change (@nil N) with (data nullbuf). rewrite !map_nth. destruct (S i) as (_ & _ & U). symmetry. exact U.
Qed.

(* the bytes written depend only on the address-free content (for C08) *)
Theorem save_address_free_proof c m m' :
  slots_in (mrelocs m) (mbufs m) -> NoOv (mrelocs m) ->
  slots_in (mrelocs m') (mbufs m') -> NoOv (mrelocs m') ->
  abs m = abs m' -> save_mem c m = save_mem c m'.
Proof. intros H1 H2 H3 H4 E. rewrite !save_mem_abs by auto. now rewrite E. Qed.

Theorem save_independent_of_capacity_proof c nb ops cp cp' orc orc' m m' :
  disciplined nb ops -> 0 < cp -> 0 < cp' ->
  run orc (init nb cp) ops = MOk m -> run orc' (init nb cp') ops = MOk m' ->
  save_mem c m = save_mem c m' /\ save_mem c m = save c (abs m).
Proof.
  intros D Hc Hc' H1 H2. assert (D' := D). destruct D' as [A Ha].
  destruct (abs_is_address_free _ _ _ _ _ _ Hc Ha H1) as [_ [_ I1 I2 _ _]].
  destruct (abs_is_address_free _ _ _ _ _ _ Hc' Ha H2) as [_ [_ I3 I4 _ _]].
  split; [|now apply save_mem_abs].
  apply save_address_free_proof; [exact I1|exact I2|exact I3|exact I4|].
  exact (growth_invisible_proof _ _ _ _ _ _ _ _ D Hc Hc' H1 H2).
Qed.

(* ------------------------------------------------------------------ non-vacuity and refutations *)
(* every allocation moves the buffer to fresh addresses / to addresses going down *)
Definition orc_up : oracle := fun k => (N.of_nat (S k) * 65536, None).
Definition orc_down : oracle := fun k => (1099511627776 - N.of_nat (S k) * 2097152, None).
(* another growth policy: exactly the room that is needed plus one byte, so that every allocation
   that does not fit moves the buffer *)
Definition orc_tight (sizes : list N) : oracle := fun k => (N.of_nat (S k) * 65536, Some (nth k sizes 0)).
Definition get_ok (r : mres mem_arena) : mem_arena := match r with MOk m => m | _ => init 0 1 end.
Definition is_ok {A} (r : mres A) : bool := match r with MOk _ => true | _ => false end.

(* all operation kinds; pointers within a buffer, across buffers and NULL; growth of both buffers
   after the pointers were stored *)
Definition ex_ops : list op :=
  [ OStruct 1 24 [0; 16]%nat; OWrite 0 [104; 105; 0]; OStorePtr 1 0 (Some (0, 1)%nat);
    OStorePtr 1 16 (Some (1, 0)%nat); OAlloc 2 4; OEmitArgReloc 2 7 (Some (0, 0)%nat);
    OWrite 0 [1; 2; 3; 4; 5; 6; 7; 8; 9]; OStruct 1 16 [8]%nat; OStoreBytes 1 24 [255; 254];
    OStorePtr 1 32 (Some (1, 39)%nat); OAllocRaw 0 [9; 9]; OWrite 0 [0; 0; 0; 0; 0; 0; 0; 0];
    ORelocStore 0 14 (Some (2, 5)%nat); OStorePtr 1 0 None; OWrite 2 [1]; OWrite 1 [2]; OWrite 0 [3] ].

Lemma ex_ops_ok :
  disciplined 3 ex_ops /\
  is_ok (run orc_up (init 3 1) ex_ops) = true /\ is_ok (run orc_down (init 3 1048576) ex_ops) = true /\
  (* the run at capacity 1 really relocates: 8 reallocs, each moving the buffer, against 3 *)
  mcalls (get_ok (run orc_up (init 3 1) ex_ops)) = 8%nat /\
  mcalls (get_ok (run orc_down (init 3 1048576) ex_ops)) = 3%nat.
Proof. split; [eexists; vm_compute; reflexivity|]. repeat split; vm_compute; reflexivity. Qed.

(* one past the end: permitted by yr_arena_get_ptr's assert, not covered by the fix-up range
   [data, data + used): the registered pointer goes stale when its target buffer moves *)
Definition ope_ops : list op :=
  [ OStruct 1 8 [0]%nat; OWrite 0 [1; 2; 3; 4; 5; 6; 7; 8]; OStorePtr 1 0 (Some (0, 8)%nat); OWrite 0 [9] ].

Lemma one_past_end_refuted_proof :
  exists nb ops cp cp' orc orc' m m',
    (exists A, arun false (ainit nb) ops = AOk A) /\ 0 < cp /\ 0 < cp' /\
    run orc (init nb cp) ops = MOk m /\ run orc' (init nb cp') ops = MOk m' /\
    abs_found m = false /\ abs_found m' = true /\ abs m <> abs m'.
Proof.
  exists 2%nat, ope_ops, 8, 1048576, orc_up, orc_down,
         (get_ok (run orc_up (init 2 8) ope_ops)), (get_ok (run orc_down (init 2 1048576) ope_ops)).
  split; [eexists; vm_compute; reflexivity|].
  repeat split; try (vm_compute; reflexivity).
  intros H. vm_compute in H. discriminate H.
Qed.

(* yr_parser_emit_with_arg_reloc takes the pointer before it writes: with a target in the buffer it
   writes to, the stored pointer is stale whenever that write relocates the buffer *)
Definition stale_ops : list op := [ OWrite 0 [1; 2; 3; 4; 5; 6; 7; 8]; OEmitArgReloc 0 7 (Some (0, 0)%nat) ].

Lemma pointer_taken_before_write_refuted_proof :
  exists nb ops cp cp' orc orc' m m',
    arun true (ainit nb) ops = ADisc DSameBuffer /\ 0 < cp /\ 0 < cp' /\
    run orc (init nb cp) ops = MOk m /\ run orc' (init nb cp') ops = MOk m' /\ abs m <> abs m'.
Proof.
  exists 1%nat, stale_ops, 8, 1048576, orc_up, orc_down,
         (get_ok (run orc_up (init 1 8) stale_ops)), (get_ok (run orc_down (init 1 1048576) stale_ops)).
  repeat split; try (vm_compute; reflexivity).
  intros H. vm_compute in H. discriminate H.
Qed.

(* PINNED CODE: yr_arena_allocate_zeroed_memory / yr_arena_allocate_struct zeroed only what a realloc
   made with the ZERO flag added.  After a growth caused by yr_arena_write_data the spare capacity is
   whatever malloc returned, and a later "zeroed" allocation that fits into it was not zeroed: whether
   that happened depended on the initial capacity (8: the write grows the buffer to 8 bytes, 3 spare
   bytes are handed out as zeroed memory; 5: the allocation has to grow and is zeroed).  The current
   code ([init]) zeroes the region in every case. *)
Definition dirty_ops : list op := [ OWrite 0 [1; 2; 3; 4; 5]; OAlloc 0 3 ].
Lemma zeroed_allocation_not_zeroed_pinned_proof :
  disciplined 1 dirty_ops /\
  run orc_up (init_pinned 1 8) dirty_ops = MBad BadDirtyZero /\
  is_ok (run orc_up (init_pinned 1 5) dirty_ops) = true /\
  is_ok (run orc_up (init 1 8) dirty_ops) = true.
Proof. split; [eexists; vm_compute; reflexivity|]. repeat split; vm_compute; reflexivity. Qed.
