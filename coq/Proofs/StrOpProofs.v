(* the executable string operators decide the declarative statements *)
From Coq Require Import List NArith Bool Lia.
From YV Require Import Base.Bytes Spec.TextSpec Spec.StrOpSpec.
Import ListNotations.
Local Open Scope N_scope.

Lemma is_prefix_spec p : forall s, is_prefix p s = true <-> exists t, s = p ++ t.
Proof.
  induction p as [|x p IH]; intros s; cbn [is_prefix].
  - split; [intros _; now exists s|reflexivity].
  - destruct s as [|y s]; [split; [discriminate|intros [t H]; discriminate]|].
    rewrite andb_true_iff, N.eqb_eq, IH. split.
    + intros [-> [t ->]]. now exists t.
    + intros [t H]. inversion H; subst. split; [reflexivity|now exists t].
Qed.

Theorem contains_spec_proof hay needle : contains hay needle = true <-> exists p s, hay = p ++ needle ++ s.
Proof.
  induction hay as [|c hay IH]; cbn [contains].
  - rewrite orb_false_r, is_prefix_spec. split.
    + intros [t H]. exists [], t. exact H.
    + intros [p [s H]]. destruct p; [now exists s|discriminate].
  - rewrite orb_true_iff, is_prefix_spec, IH. split.
    + intros [[t H]|[p [s H]]]; [exists [], t; exact H|exists (c :: p), s; now rewrite H].
    + intros [p [s H]]. destruct p as [|x p]; [left; now exists s|right]. inversion H; subst. now exists p, s.
Qed.

Theorem startswith_spec_proof a b : strop_eval SStartsWith a b = true <-> exists t, a = b ++ t.
Proof. apply is_prefix_spec. Qed.

Theorem endswith_spec_proof a b : strop_eval SEndsWith a b = true <-> exists t, a = t ++ b.
Proof.
  cbn [strop_eval]. rewrite is_prefix_spec. split.
  - intros [t H]. exists (rev t). apply (f_equal (@rev N)) in H. rewrite rev_involutive, rev_app_distr, rev_involutive in H. exact H.
  - intros [t ->]. exists (rev t). now rewrite rev_app_distr.
Qed.

Lemma s_compare_eq a : forall b, s_compare a b = Eq <-> a = b.
Proof.
  induction a as [|x a IH]; intros [|y b]; cbn [s_compare]; try (split; [discriminate|discriminate]); [split; reflexivity|].
  destruct (N.compare_spec x y) as [->|H|H].
  - rewrite IH. split; [now intros ->|intros E; now inversion E].
  - split; [discriminate|intros E; inversion E; lia].
  - split; [discriminate|intros E; inversion E; lia].
Qed.

Theorem str_eq_spec_proof a b : strop_eval SEq a b = true <-> a = b.
Proof.
  cbn [strop_eval]. rewrite <- s_compare_eq. destruct (s_compare a b); split; congruence.
Qed.

(* the case-insensitive forms are the case-sensitive ones on the lower-cased operands *)
Theorem i_forms_proof a b :
  strop_eval SIContains a b = strop_eval SContains (lower_s a) (lower_s b) /\
  strop_eval SIStartsWith a b = strop_eval SStartsWith (lower_s a) (lower_s b) /\
  strop_eval SIEndsWith a b = strop_eval SEndsWith (lower_s a) (lower_s b) /\
  (strop_eval SIEquals a b = true <-> lower_s a = lower_s b).
Proof. repeat split; try reflexivity; apply bytes_eqb_eq. Qed.
