(* base64 strings: the searched forms are context independent (Spec/Base64Spec.v) *)
From Coq Require Import List Arith NArith ZArith Bool Lia ZifyNat ZifyN ZifyBool.
From YV Require Import Base.Bytes Spec.TextSpec Model.TextAtoms Spec.Base64Spec.
Import ListNotations.
Local Open Scope N_scope.

Ltac Zify.zify_post_hook ::= Z.div_mod_to_equations.

(* a sextet that starts in the upper part of a byte (bit offset 0 or 2) does not look at the next byte *)
Lemma sextet_word_high x y y' r : x < 256 -> y < 256 -> y' < 256 -> (r = 0 \/ r = 2)%nat ->
  ((x * 256 + y) / 2 ^ N.of_nat (10 - r)) mod 64 = ((x * 256 + y') / 2 ^ N.of_nat (10 - r)) mod 64.
Proof.
  intros Hx Hy Hy' [-> | ->].
  - change (2 ^ N.of_nat (10 - 0)) with 1024. f_equal. lia.
  - change (2 ^ N.of_nat (10 - 2)) with 256. f_equal. lia.
Qed.

Lemma byte_nth_lt T q : all_bytes T = true -> byte_nth T q < 256.
Proof.
  unfold byte_nth. revert q. induction T as [|c r IH]; intros q H; [destruct q; cbn [nth]; lia|].
  cbn [all_bytes forallb] in H. apply andb_true_iff in H as [H1 H2]. destruct q; cbn [nth]; [now apply N.ltb_lt in H1|now apply IH].
Qed.

(* position arithmetic of sextet j *)
Lemma sextet_pos_shift k j : ((6 * (4 * k + j)) / 8 = 3 * k + (6 * j) / 8 /\ (6 * (4 * k + j)) mod 8 = (6 * j) mod 8)%nat.
Proof. lia. Qed.

Lemma sextet_offset_cases j : ((6 * j) mod 8 = 0 \/ (6 * j) mod 8 = 2 \/ (6 * j) mod 8 = 4 \/ (6 * j) mod 8 = 6)%nat.
Proof. lia. Qed.

Section Context.
Variables (s P Q : bytes) (i k : nat).
Hypothesis Hi : (i < 3)%nat.
Hypothesis HP : length P = (3 * k + i)%nat.
Hypothesis Bs : all_bytes s = true.
Hypothesis BP : all_bytes P = true.
Hypothesis BQ : all_bytes Q = true.

Let T := P ++ s ++ Q.
Let Ti := repeat 65 i ++ s.

Lemma all_bytes_repeat65 n : all_bytes (repeat 65 n) = true.
Proof. induction n as [|n IH]; [reflexivity|]. cbn [repeat all_bytes forallb]. exact IH. Qed.

Lemma BT : all_bytes T = true.
Proof. unfold T. rewrite !all_bytes_app. now rewrite BP, Bs, BQ. Qed.

Lemma BTi : all_bytes Ti = true.
Proof. unfold Ti. rewrite all_bytes_app. now rewrite all_bytes_repeat65, Bs. Qed.

(* inside the region of s both texts hold the same byte *)
Lemma same_byte y : (i <= y < i + length s)%nat -> byte_nth T (3 * k + y) = byte_nth Ti y.
Proof.
  intros Hy. unfold byte_nth, T, Ti.
  rewrite app_nth2 by lia. rewrite app_nth1 by lia.
  rewrite app_nth2 by (rewrite repeat_length; lia). rewrite repeat_length. f_equal. lia.
Qed.

Theorem b64_context_independent_proof j :
  (b64_leading i <= j)%nat ->
  (j < data_chars (i + length s) - (if (pad_of (i + length s) =? 0)%nat then 0 else 1))%nat ->
  sextet_at T (4 * k + j) = sextet_at Ti j.
Proof.
  intros Hlo Hhi. unfold sextet_at.
  destruct (sextet_pos_shift k j) as [Eq Er]. rewrite Eq, Er.
  set (q := ((6 * j) / 8)%nat) in *. set (r := ((6 * j) mod 8)%nat) in *.
  assert (Hq : (i <= q)%nat).
  { unfold q, b64_leading in *. destruct i as [|[|[|?]]]; lia. }
  assert (Hq2 : (q < i + length s)%nat /\ ((r = 0 \/ r = 2)%nat \/ (S q < i + length s)%nat)).
  { unfold q, r, data_chars, pad_of in *.
    destruct (Nat.eqb_spec ((3 - (i + length s) mod 3) mod 3) 0); lia. }
  destruct Hq2 as [Hq1 Hq2].
  rewrite (same_byte q) by lia.
  destruct Hq2 as [Hr | Hq2].
  - apply sextet_word_high; try assumption; try apply byte_nth_lt; try apply BT; apply BTi.
  - replace (S (3 * k + q)) with (3 * k + S q)%nat by lia. rewrite (same_byte (S q)) by lia. reflexivity.
Qed.

End Context.

(* ------------------------------------------------------------------ the searched form as a list of sextets *)
Lemma skipn_map_seq {A} (f : nat -> A) a n : skipn a (map f (seq 0 n)) = map f (seq a (n - a)).
Proof.
  destruct (Nat.le_gt_cases a n) as [H|H].
  - replace n with (a + (n - a))%nat at 1 by lia. rewrite seq_app, map_app. rewrite skipn_app_exact by (now rewrite map_length, seq_length).
    reflexivity.
  - rewrite skipn_all2 by (rewrite map_length, seq_length; lia). replace (n - a)%nat with 0%nat by lia. reflexivity.
Qed.

Lemma firstn_map_seq {A} (f : nat -> A) a n c : (c <= n)%nat -> firstn c (map f (seq a n)) = map f (seq a c).
Proof.
  intros H. replace n with (c + (n - c))%nat by lia. rewrite seq_app, map_app.
  apply firstn_app_exact. now rewrite map_length, seq_length.
Qed.

Definition variant_count (i n : nat) : nat :=
  (data_chars (i + n) - (if (pad_of (i + n) =? 0)%nat then 0 else 1) - b64_leading i)%nat.

Lemma b64_variant_chars alpha s i : (i < 3)%nat -> s <> [] ->
  b64_variant alpha s i =
  map (fun j => nth (N.to_nat (sextet_at (repeat 65 i ++ s) j)) alpha 0) (seq (b64_leading i) (variant_count i (length s))).
Proof.
  intros Hi Hs. unfold b64_variant, b64_encode, variant_count.
  assert (Hn : (1 <= length s)%nat) by (destruct s; [congruence|cbn; lia]).
  rewrite !app_length, !map_length, !seq_length, !repeat_length.
  set (g := fun j => nth (N.to_nat (sextet_at (repeat 65 i ++ s) j)) alpha 0).
  rewrite skipn_app, skipn_map_seq, map_length, seq_length, firstn_app, map_length, seq_length.
  set (D := data_chars (i + length s)). set (pad := pad_of (i + length s)).
  assert (HD : (b64_leading i <= D)%nat).
  { unfold D, data_chars, b64_leading. destruct i as [|[|[|?]]]; lia. }
  replace (b64_leading i - D)%nat with 0%nat by lia. cbn [skipn].
  assert (Hc : (D + pad - (b64_leading i + b64_trailing pad) = D - (if (pad =? 0)%nat then 0 else 1) - b64_leading i)%nat).
  { unfold b64_trailing. destruct pad; cbn [Nat.eqb]; lia. }
  rewrite Hc. set (c := (D - (if (pad =? 0)%nat then 0 else 1) - b64_leading i)%nat).
  replace (c - (D - b64_leading i))%nat with 0%nat by (unfold c; lia). cbn [firstn]. rewrite app_nil_r.
  apply firstn_map_seq. unfold c. lia.
Qed.

(* whatever surrounds s in a text T = P ++ s ++ Q, the base64 encoding of T contains the form for i = |P| mod 3, at the
   character offset that corresponds to s *)
Theorem encoded_text_contains_variant_proof alpha s P Q i k :
  (i < 3)%nat -> length P = (3 * k + i)%nat -> s <> [] ->
  all_bytes s = true -> all_bytes P = true -> all_bytes Q = true ->
  let v := b64_variant alpha s i in
  slice (b64_encode alpha (P ++ s ++ Q)) (4 * k + b64_leading i) (length v) = v.
Proof.
  intros Hi HP Hs Bs BP BQ v. unfold v. rewrite (b64_variant_chars alpha s i Hi Hs). rewrite map_length, seq_length.
  assert (Hn : (1 <= length s)%nat) by (destruct s; [congruence|cbn; lia]).
  unfold slice, b64_encode. set (T := P ++ s ++ Q).
  assert (LT : length T = (3 * k + i + length s + length Q)%nat) by (unfold T; rewrite !app_length; lia).
  set (c := variant_count i (length s)).
  assert (Hfit : (4 * k + b64_leading i + c <= data_chars (length T))%nat).
  { rewrite LT. unfold c, variant_count, data_chars, pad_of, b64_leading.
    destruct (Nat.eqb_spec ((3 - (i + length s) mod 3) mod 3) 0); destruct i as [|[|[|?]]]; lia. }
  rewrite skipn_app. rewrite skipn_map_seq. rewrite map_length, seq_length.
  replace (4 * k + b64_leading i - data_chars (length T))%nat with 0%nat by lia. cbn [skipn].
  rewrite firstn_app. rewrite map_length, seq_length.
  replace (c - (data_chars (length T) - (4 * k + b64_leading i)))%nat with 0%nat by lia. cbn [firstn]. rewrite app_nil_r.
  rewrite firstn_map_seq by lia.
  replace (seq (4 * k + b64_leading i) c) with (map (fun j => (4 * k + j)%nat) (seq (b64_leading i) c)).
  2:{ clear. generalize (b64_leading i) as a. induction c as [|c IH]; intros a; [reflexivity|]. cbn [seq map]. f_equal. rewrite IH. f_equal. lia. }
  rewrite map_map. apply map_ext_in. intros j Hj. apply in_seq in Hj. f_equal. f_equal.
  apply (b64_context_independent_proof s P Q i k Hi HP Bs BP BQ j); [lia|].
  unfold c, variant_count in Hj. lia.
Qed.

(* ------------------------------------------------------------------ the reference lists exactly the occurrences of the forms *)
Theorem b64_matches_exact_proof alpha s plain wide buf :
  (forall o len, In len (b64_occs_at alpha s plain wide buf o) <->
     exists v, In v (b64_variants alpha s plain wide) /\ v <> [] /\ slice buf o (length v) = v /\ len = nlen v) /\
  (forall o l, In (o, l) (b64_matches alpha s plain wide buf) <-> (o < length buf)%nat /\ l = b64_occs_at alpha s plain wide buf o /\ l <> []).
Proof.
  split.
  - intros o len. unfold b64_occs_at. rewrite in_flat_map. split.
    + intros [v [Hv H]]. destruct v as [|c v']; [destruct H|]. cbn [negb andb] in H.
      destruct (bytes_eqb _ _) eqn:E in H; [|destruct H]. destruct H as [<-|[]]. apply bytes_eqb_eq in E.
      exists (c :: v'). repeat split; try assumption. discriminate.
    + intros [v [Hv [Hne [E ->]]]]. exists v. split; [exact Hv|]. destruct v as [|c v']; [congruence|]. cbn [negb andb].
      rewrite E. rewrite (proj2 (bytes_eqb_eq _ _) eq_refl). now left.
  - intros o l. unfold b64_matches. rewrite filter_In, in_map_iff. split.
    + intros [[o' [E Ho]] Hne]. inversion E; subst. apply in_seq in Ho. cbn [snd] in Hne. repeat split; try lia.
      intros E0. rewrite E0 in Hne. discriminate.
    + intros [Ho [-> Hne]]. split; [exists o; split; [reflexivity|apply in_seq; lia]|]. cbn [snd].
      destruct (b64_occs_at alpha s plain wide buf o); [congruence|reflexivity].
Qed.
