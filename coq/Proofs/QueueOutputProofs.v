(* C18: the lock discipline of the output path (Model/QueueOutput.v).
   1. [chk_sound]: if the abstract interpreter accepts a statement, EVERY execution of it (any branch,
      any number of loop iterations, early returns) respects the discipline.
   2. [writes_by_owner] / [group_atomic]: in every interleaving of threads that respect the discipline,
      under the mutex semantics, an event that needs the mutex is performed by the owner of the
      mutex, hence everything printed between a lock and the matching unlock is contiguous.
   3. instantiated with the worker code regenerated from cli/yara.c (gen/GenOutput.v). *)
From Coq Require Import List String Bool Arith Lia.
From YV Require Import Model.QueueOutput gen.GenOutput.
Import ListNotations.

(* ------------------------------------------------------------------ 1. soundness of chk *)
Section Sound.
Variable allowed : oev -> bool.
Notation lrun := (lrun allowed).
Notation chk := (chk allowed).

Lemma lrun_app h t1 t2 : lrun h (t1 ++ t2) = match lrun h t1 with Some h1 => lrun h1 t2 | None => None end.
Proof. revert h; induction t1 as [|e t IH]; simpl; intros h; auto. destruct (lstep allowed h e); auto. Qed.

Lemma omerge_l a b x v : omerge a b = Some x -> a = Some v -> x = Some v.
Proof. destruct a as [p|], b as [q|]; simpl; intros H E; inversion E; subst; try (inversion H; auto; fail).
  destruct (Bool.eqb v q); inversion H; auto. Qed.
Lemma omerge_r a b x v : omerge a b = Some x -> b = Some v -> x = Some v.
Proof. destruct a as [p|], b as [q|]; simpl; intros H E; inversion E; subst; try (inversion H; auto; fail).
  destruct (Bool.eqb p v) eqn:Eq; inversion H; subst. apply Bool.eqb_prop in Eq. subst; auto. Qed.

Lemma rmerge_l x y r o v : rmerge x y = Some r -> sel x o = Some v -> sel r o = Some v.
Proof.
  unfold rmerge. destruct (omerge (r_n x) (r_n y)) eqn:E1, (omerge (r_b x) (r_b y)) eqn:E2,
    (omerge (r_c x) (r_c y)) eqn:E3, (omerge (r_r x) (r_r y)) eqn:E4; intros H; inversion H; subst; clear H.
  destruct o; simpl; intros Hs; eauto using omerge_l.
Qed.
Lemma rmerge_r x y r o v : rmerge x y = Some r -> sel y o = Some v -> sel r o = Some v.
Proof.
  unfold rmerge. destruct (omerge (r_n x) (r_n y)) eqn:E1, (omerge (r_b x) (r_b y)) eqn:E2,
    (omerge (r_c x) (r_c y)) eqn:E3, (omerge (r_r x) (r_r y)) eqn:E4; intros H; inversion H; subst; clear H.
  destruct o; simpl; intros Hs; eauto using omerge_r.
Qed.

Lemma okst_some o h v : okst o h = true -> o = Some v -> v = h.
Proof. intros H ->. simpl in H. apply Bool.eqb_prop in H. auto. Qed.

Lemma loop_chk_inv c b h r : chk (OLoop c b) h = Some r ->
  exists rc rb, chk c h = Some rc /\ r_n rc = Some h /\ chk b h = Some rb /\
    okst (r_n rb) h = true /\ okst (r_c rb) h = true /\ okst (r_b rb) h = true /\ r = mkR (Some h) None None (r_r rb).
Proof.
  simpl. intros Hc.
  destruct (QueueOutput.chk allowed c h) as [rc|] eqn:Ec; [|discriminate].
  destruct (okst (r_n rc) h && negb (isnone (r_n rc)) && isnone (r_b rc) && isnone (r_c rc) && isnone (r_r rc)) eqn:Ek; [|discriminate].
  apply andb_prop in Ek; destruct Ek as [Ek _]. apply andb_prop in Ek; destruct Ek as [Ek _].
  apply andb_prop in Ek; destruct Ek as [Ek _]. apply andb_prop in Ek; destruct Ek as [K1 K2].
  destruct (QueueOutput.chk allowed b h) as [rb|] eqn:Eb; [|discriminate].
  destruct (okst (r_n rb) h && okst (r_c rb) h && okst (r_b rb) h) eqn:Ek2; [|discriminate].
  apply andb_prop in Ek2; destruct Ek2 as [Ek2 Kb]. apply andb_prop in Ek2; destruct Ek2 as [Kn Kc].
  inversion Hc; subst. exists rc, rb. repeat split; auto.
  destruct (r_n rc) as [x|]; simpl in *; [|discriminate]. apply Bool.eqb_prop in K1. subst; auto.
Qed.

Theorem chk_sound s tr o : exec s tr o ->
  forall h r, chk s h = Some r -> exists h', sel r o = Some h' /\ lrun h tr = Some h'.
Proof.
  induction 1; intros h r Hc; try (simpl in Hc; match type of Hc with context [OLoop] => fail 1 | _ => idtac end).
  - inversion Hc; subst. exists h; auto.
  - destruct (lstep allowed h e) as [h'|] eqn:E; [|discriminate]. inversion Hc; subst.
    exists h'; simpl. rewrite E. auto.
  - (* seq, first part ends normally *)
    destruct (chk a h) as [ra|] eqn:Ea; [|discriminate].
    destruct (IHexec1 _ _ Ea) as (h1 & S1 & L1). simpl in S1. rewrite S1 in Hc.
    destruct (chk b h1) as [rb|] eqn:Eb; [|discriminate].
    destruct (IHexec2 _ _ Eb) as (h2 & S2 & L2).
    exists h2. split. eapply rmerge_r; eauto. rewrite lrun_app, L1. auto.
  - (* seq, first part leaves *)
    destruct (chk a h) as [ra|] eqn:Ea; [|discriminate].
    destruct (IHexec _ _ Ea) as (h1 & S1 & L1).
    destruct (r_n ra) as [hn|] eqn:En.
    + destruct (chk b hn) as [rb|] eqn:Eb; [|discriminate].
      exists h1; split; auto. eapply rmerge_l; eauto. destruct o; simpl in *; auto. congruence.
    + inversion Hc; subst. eauto.
  - destruct (chk a h) as [ra|] eqn:Ea; [|discriminate]. destruct (chk b h) as [rb|] eqn:Eb; [|discriminate].
    destruct (IHexec _ _ Ea) as (h1 & S1 & L1). exists h1; split; auto. eapply rmerge_l; eauto.
  - destruct (chk a h) as [ra|] eqn:Ea; [|discriminate]. destruct (chk b h) as [rb|] eqn:Eb; [|discriminate].
    destruct (IHexec _ _ Eb) as (h1 & S1 & L1). exists h1; split; auto. eapply rmerge_r; eauto.
  - (* loop exit *)
    apply loop_chk_inv in Hc. destruct Hc as (rc & rb & Ec & En & Eb & Kn & Kc & Kb & ->).
    destruct (IHexec _ _ Ec) as (h1 & S1 & L1). simpl in S1. rewrite En in S1. inversion S1; subst h1.
    exists h; auto.
  - (* loop iteration *)
    assert (Hc' := Hc).
    apply loop_chk_inv in Hc. destruct Hc as (rc & rb & Ec & En & Eb & Kn & Kc & Kb & ->).
    destruct (IHexec1 _ _ Ec) as (h1 & S1 & L1). simpl in S1. rewrite En in S1. inversion S1; subst h1.
    destruct (IHexec2 _ _ Eb) as (h2 & S2 & L2).
    assert (h2 = h).
    { destruct H1; subst ob; simpl in S2; [eapply okst_some; [exact Kn | exact S2] | eapply okst_some; [exact Kc | exact S2]]. }
    subst h2.
    destruct (IHexec3 _ _ Hc') as (h3 & S3 & L3).
    exists h3; split; auto. rewrite lrun_app, L1, lrun_app, L2. auto.
  - (* loop left by break *)
    apply loop_chk_inv in Hc. destruct Hc as (rc & rb & Ec & En & Eb & Kn & Kc & Kb & ->).
    destruct (IHexec1 _ _ Ec) as (h1 & S1 & L1). simpl in S1. rewrite En in S1. inversion S1; subst h1.
    destruct (IHexec2 _ _ Eb) as (h2 & S2 & L2). simpl in S2. pose proof (okst_some _ _ _ Kb S2). subst h2.
    exists h; split; auto. rewrite lrun_app, L1. auto.
  - (* loop left by return *)
    apply loop_chk_inv in Hc. destruct Hc as (rc & rb & Ec & En & Eb & Kn & Kc & Kb & ->).
    destruct (IHexec1 _ _ Ec) as (h1 & S1 & L1). simpl in S1. rewrite En in S1. inversion S1; subst h1.
    destruct (IHexec2 _ _ Eb) as (h2 & S2 & L2). simpl in S2.
    exists h2; split; auto. rewrite lrun_app, L1. auto.
  - (* switch *)
    destruct (chk s h) as [rs|] eqn:Es; [|discriminate].
    destruct (omerge (r_n rs) (r_b rs)) as [nn|] eqn:Em; [|discriminate]. inversion Hc; subst.
    destruct (IHexec _ _ Es) as (h1 & S1 & L1). exists h1; split; auto.
    destruct o; simpl in *; eauto using omerge_l, omerge_r.
  - (* call *)
    destruct (chk s h) as [rs|] eqn:Es; [|discriminate].
    destruct (isnone (r_b rs) && isnone (r_c rs)); [|discriminate].
    destruct (omerge (r_n rs) (r_r rs)) as [nn|] eqn:Em; [|discriminate]. inversion Hc; subst.
    destruct (IHexec _ _ Es) as (h1 & S1 & L1). exists h1; split; auto.
    destruct H0; subst o; simpl in *; eauto using omerge_l, omerge_r.
  - inversion Hc; subst. exists h; auto.
  - inversion Hc; subst. exists h; auto.
  - inversion Hc; subst. exists h; auto.
Qed.

(* a trace that respects the discipline does so on every prefix *)
Lemma lrun_prefix h t1 t2 : lrun h (t1 ++ t2) <> None -> lrun h t1 <> None.
Proof. rewrite lrun_app. destruct (lrun h t1); congruence. Qed.

(* ------------------------------------------------------------------ 2. interleavings *)
Definition needs_lock (e : oev) : bool :=
  match e with ELock | EUnlock => false | _ => negb (allowed e) end.

(* owner of the mutex and "thread t believes it holds it" agree *)
Definition coherent (own : option nat) (hs : nat -> bool) : Prop := forall t, hs t = true <-> own = Some t.

Lemma grun_app own g1 g2 : grun own (g1 ++ g2) = match grun own g1 with Some o => grun o g2 | None => None end.
Proof. revert own; induction g1 as [|x g IH]; simpl; intros; auto. destruct (gstep own x); auto. Qed.

Lemma proj_app t g1 g2 : proj t (g1 ++ g2) = proj t g1 ++ proj t g2.
Proof. induction g1 as [|[u e] g IH]; simpl; auto. destruct (Nat.eqb u t); simpl; rewrite IH; auto. Qed.

(* one step keeps coherence; an event that needs the mutex is done by the owner *)
Lemma step_coherent own hs u e own' :
  coherent own hs -> gstep own (u, e) = Some own' ->
  forall hu', lstep allowed (hs u) e = Some hu' ->
  coherent own' (fun t => if Nat.eqb t u then hu' else hs t) /\ (needs_lock e = true -> own = Some u).
Proof.
  intros Hco Hg hu' Hl. unfold gstep in Hg; simpl in Hg.
  destruct e; simpl in *.
  - (* lock *)
    destruct own; [discriminate|]. inversion Hg; subst. destruct (hs u) eqn:Eu; [discriminate|]. inversion Hl; subst.
    split; [|discriminate]. intros t. destruct (Nat.eqb t u) eqn:E.
    + apply Nat.eqb_eq in E. subst. split; auto.
    + apply Nat.eqb_neq in E. split; intros Ht. apply Hco in Ht. discriminate. inversion Ht; congruence.
  - (* unlock *)
    destruct own as [w|]; [|discriminate]. destruct (Nat.eqb w u) eqn:Ew; [|discriminate]. inversion Hg; subst.
    apply Nat.eqb_eq in Ew. subst w. destruct (hs u) eqn:Eu; [|discriminate]. inversion Hl; subst.
    split; [|discriminate]. intros t. destruct (Nat.eqb t u) eqn:E.
    + split; discriminate.
    + apply Nat.eqb_neq in E. split; intros Ht; [|discriminate]. apply Hco in Ht. inversion Ht; congruence.
  - inversion Hg; subst. destruct (hs u || allowed (EOut s site)) eqn:Ea; [|discriminate]. inversion Hl; subst.
    split.
    + intros t. destruct (Nat.eqb t u) eqn:E; [apply Nat.eqb_eq in E; subst|]; apply Hco.
    + intros Hn. apply negb_true_iff in Hn. rewrite Hn, orb_false_r in Ea. apply Hco; auto.
  - inversion Hg; subst. destruct (hs u || allowed (EVar v write)) eqn:Ea; [|discriminate]. inversion Hl; subst.
    split.
    + intros t. destruct (Nat.eqb t u) eqn:E; [apply Nat.eqb_eq in E; subst|]; apply Hco.
    + intros Hn. apply negb_true_iff in Hn. rewrite Hn, orb_false_r in Ea. apply Hco; auto.
Qed.

Lemma lrun_cons_proj hs g u e :
  (forall t, lrun (hs t) (proj t ((u, e) :: g)) <> None) ->
  exists hu', lstep allowed (hs u) e = Some hu' /\
              forall t, lrun (if Nat.eqb t u then hu' else hs t) (proj t g) <> None.
Proof.
  intros H. pose proof (H u) as Hu. simpl in Hu. rewrite Nat.eqb_refl in Hu. simpl in Hu.
  destruct (lstep allowed (hs u) e) as [hu'|] eqn:E; [|congruence].
  exists hu'; split; auto. intros t. destruct (Nat.eqb t u) eqn:Et.
  - apply Nat.eqb_eq in Et. subst. auto.
  - specialize (H t). simpl in H. rewrite Nat.eqb_sym, Et in H. auto.
Qed.

Theorem writes_by_owner_gen g : forall own hs,
  coherent own hs -> grun own g <> None -> (forall t, lrun (hs t) (proj t g) <> None) ->
  forall pre u e post, g = pre ++ (u, e) :: post -> needs_lock e = true -> grun own pre = Some (Some u).
Proof.
  induction g as [|[w x] g IH]; intros own hs Hco Hg Hl pre u e post Eg Hn.
  - destruct pre; discriminate.
  - simpl in Hg. destruct (gstep own (w, x)) as [own'|] eqn:Es; [|congruence].
    destruct (lrun_cons_proj _ _ _ _ Hl) as (hw' & Hls & Hl').
    destruct (step_coherent _ _ _ _ _ Hco Es _ Hls) as [Hco' Hown].
    destruct pre as [|p pre]; simpl in Eg; inversion Eg; subst.
    + simpl. f_equal. auto.
    + simpl. rewrite Es. eapply IH; eauto.
Qed.

(* while t holds the mutex and does not unlock, nobody else can become the owner *)
Lemma owner_stays t sec : forall o, grun (Some t) sec = Some o -> ~ In (t, EUnlock) sec ->
  o = Some t /\ forall p q, sec = p ++ q -> grun (Some t) p = Some (Some t).
Proof.
  induction sec as [|[u e] sec IH]; simpl; intros o Hg Hni.
  - inversion Hg; subst. split; auto. intros p q E. destruct p; [auto|discriminate].
  - unfold gstep in Hg; simpl in Hg.
    assert (Hs : gstep (Some t) (u, e) = Some (Some t)).
    { unfold gstep; simpl. destruct e; auto; simpl in Hg; try discriminate.
      destruct (Nat.eqb t u) eqn:E; [|discriminate]. apply Nat.eqb_eq in E. subst. exfalso. apply Hni. auto. }
    assert (Hg' : grun (Some t) sec = Some o).
    { destruct e; simpl in Hg; auto; try discriminate.
      destruct (Nat.eqb t u) eqn:E; [|discriminate]. apply Nat.eqb_eq in E. subst. exfalso. apply Hni. auto. }
    destruct (IH _ Hg') as [Ho Hp]. { intro; apply Hni; auto. }
    split; auto. intros p q E. destruct p as [|x p]; [auto|]. simpl in E. inversion E; subst. simpl. rewrite Hs. eauto.
Qed.

Theorem group_atomic_gen g :
  grun None g <> None -> (forall t, lrun false (proj t g) <> None) ->
  forall pre t sec post, g = pre ++ (t, ELock) :: sec ++ (t, EUnlock) :: post -> ~ In (t, EUnlock) sec ->
  forall u e, In (u, e) sec -> needs_lock e = true -> u = t.
Proof.
  intros Hg Hl pre t sec post Eg Hni u e Hin Hn.
  apply in_split in Hin. destruct Hin as (s1 & s2 & Es).
  assert (Hco : coherent None (fun _ => false)). { intros x; split; discriminate. }
  assert (E1 : g = (pre ++ (t, ELock) :: s1) ++ (u, e) :: (s2 ++ (t, EUnlock) :: post)).
  { rewrite Eg, Es. rewrite <- ?app_assoc. simpl. rewrite <- ?app_assoc. simpl. reflexivity. }
  pose proof (writes_by_owner_gen g None (fun _ => false) Hco Hg Hl _ _ _ _ E1 Hn) as Hown.
  (* the owner after pre ++ [lock] ++ s1 is t *)
  rewrite grun_app in Hown. destruct (grun None pre) as [o1|] eqn:Ep; [|discriminate].
  simpl in Hown. unfold gstep in Hown; simpl in Hown. destruct o1; [discriminate|]. simpl in Hown.
  assert (Hsec : exists o, grun (Some t) sec = Some o).
  { subst g. rewrite grun_app, Ep in Hg. simpl in Hg. unfold gstep in Hg; simpl in Hg.
    rewrite grun_app in Hg. destruct (grun (Some t) sec); eauto. congruence. }
  destruct Hsec as (o & Ho). destruct (owner_stays _ _ _ Ho Hni) as [_ Hp].
  rewrite (Hp s1 ((u, e) :: s2) Es) in Hown. inversion Hown; auto.
Qed.
End Sound.

(* soundness of the witness generator *)
Lemma orun_exec fuel : forall s ch t o ch', orun fuel s ch = Some (t, o, ch') -> exec s t o.
Proof.
  induction fuel as [|k IH]; intros s ch t o ch' H; [discriminate|].
  destruct s; simpl in H.
  - inversion H; subst; constructor.
  - inversion H; subst; constructor.
  - destruct (orun k s1 ch) as [[[t1 o1] ch1]|] eqn:E1; [|discriminate].
    destruct o1; try (inversion H; subst; apply x_seq_x; [eapply IH; eauto | discriminate]).
    destruct (orun k s2 ch1) as [[[t2 o2] ch2]|] eqn:E2; [|discriminate]. inversion H; subst.
    eapply x_seq_n; eapply IH; eauto.
  - destruct ch as [|c r]; [discriminate|]. destruct c; [apply x_choice_l | apply x_choice_r]; eapply IH; eauto.
  - destruct (orun k s1 ch) as [[[tc oc] ch1]|] eqn:Ec; [|discriminate].
    destruct oc; try discriminate. destruct ch1 as [|c ch1]; [discriminate|]. destruct c.
    + destruct (orun k s2 ch1) as [[[tb ob] ch2]|] eqn:Eb; [|discriminate].
      destruct ob.
      * destruct (orun k (OLoop s1 s2) ch2) as [[[t3 o3] ch3]|] eqn:El; [|discriminate]. inversion H; subst.
        eapply x_loop_iter; eauto.
      * inversion H; subst. eapply x_loop_brk; eauto.
      * destruct (orun k (OLoop s1 s2) ch2) as [[[t3 o3] ch3]|] eqn:El; [|discriminate]. inversion H; subst.
        eapply x_loop_iter; eauto.
      * inversion H; subst. eapply x_loop_ret; eauto.
    + inversion H; subst. eapply x_loop_exit; eauto.
  - destruct (orun k s ch) as [[[t1 o1] ch1]|] eqn:E1; [|discriminate]. inversion H; subst. constructor; eauto.
  - destruct (orun k s ch) as [[[t1 o1] ch1]|] eqn:E1; [|discriminate].
    destruct o1; inversion H; subst; eapply x_fun; eauto.
  - inversion H; subst; constructor.
  - inversion H; subst; constructor.
  - inversion H; subst; constructor.
Qed.

(* ------------------------------------------------------------------ 3. the worker code regenerated from cli/yara.c *)
(* [known_unprotected_vars] and [unlocked_stderr_sites] (Model/QueueOutput.v): the accesses without output_mutex that are accepted *)
Definition allowed_now : oev -> bool :=
  out_allowed known_unprotected_vars unlocked_stderr_sites (written_vars out_worker) out_main_writes.

(* the abstract interpreter accepts the generated worker code: started without the mutex, every way of
   leaving it is the normal one and ends without the mutex *)
Lemma worker_checked : chk allowed_now out_worker false = Some (mkR (Some false) None None None).
Proof. vm_compute. reflexivity. Qed.

Lemma lrun_split allowed h pre e post h' :
  lrun allowed h (pre ++ e :: post) = Some h' ->
  exists hp, lrun allowed h pre = Some hp /\ lstep allowed hp e <> None.
Proof.
  rewrite lrun_app. destruct (lrun allowed h pre) as [hp|]; [|discriminate]. simpl.
  intros H. exists hp; split; auto. destruct (lstep allowed hp e); congruence.
Qed.

Lemma smem_In x l : smem x l = true -> In x l.
Proof.
  unfold smem. rewrite existsb_exists. intros (y & Hy & E). apply String.eqb_eq in E. subst; auto.
Qed.
Lemma smem_notIn x l : smem x l = false -> ~ In x l.
Proof.
  unfold smem. intros H Hi. assert (existsb (String.eqb x) l = true).
  { apply existsb_exists. exists x; split; auto. apply String.eqb_refl. } congruence.
Qed.

Theorem worker_disciplined tr o : exec out_worker tr o -> o = ONormal /\ lrun allowed_now false tr = Some false.
Proof.
  intros H. destruct (chk_sound allowed_now _ _ _ H _ _ worker_checked) as (h' & S & L).
  destruct o; simpl in S; try discriminate. inversion S; subst. auto.
Qed.

Theorem output_under_mutex_proof : forall tr o, exec out_worker tr o ->
  lrun allowed_now false tr = Some false /\
  forall pre e post, tr = pre ++ e :: post ->
    exists held, lrun allowed_now false pre = Some held /\
      (forall site, e = EOut Stdout site -> held = true) /\
      (forall site, e = EOut Stderr site -> held = true \/ In site unlocked_stderr_sites) /\
      (e = ELock -> held = false) /\ (e = EUnlock -> held = true).
Proof.
  intros tr o H. destruct (worker_disciplined _ _ H) as [_ L]. split; auto.
  intros pre e post E. rewrite E in L. destruct (lrun_split _ _ _ _ _ _ L) as (hp & Lp & Hs).
  exists hp. split; auto. repeat split.
  - intros site ->. simpl in Hs. rewrite orb_false_r in Hs. destruct hp; auto; try congruence.
  - intros site ->. destruct hp; auto. right. apply smem_In.
    destruct (smem site unlocked_stderr_sites) eqn:Em; auto. exfalso. apply Hs.
    unfold lstep, allowed_now, out_allowed. rewrite Em. reflexivity.
  - intros ->. simpl in Hs. destruct hp; auto; try congruence.
  - intros ->. simpl in Hs. destruct hp; auto; try congruence.
Qed.

Theorem shared_accesses_proof : forall tr o, exec out_worker tr o ->
  forall pre v w post, tr = pre ++ EVar v w :: post ->
    exists held, lrun allowed_now false pre = Some held /\
      (held = true \/ In v known_unprotected_vars \/
       (w = false /\ ~ In v (written_vars out_worker) /\ ~ In v out_main_writes)).
Proof.
  intros tr o H pre v w post E. destruct (worker_disciplined _ _ H) as [_ L].
  rewrite E in L. destruct (lrun_split _ _ _ _ _ _ L) as (hp & Lp & Hs).
  exists hp; split; auto. destruct hp; auto. right.
  destruct (smem v known_unprotected_vars) eqn:Ek; [left; apply smem_In; auto|]. right.
  assert (Ha : allowed_now (EVar v w) = true).
  { destruct (allowed_now (EVar v w)) eqn:Ea; auto. exfalso. apply Hs. unfold lstep. rewrite Ea. reflexivity. }
  unfold allowed_now, out_allowed in Ha. rewrite Ek in Ha. rewrite orb_false_l in Ha.
  apply andb_prop in Ha. destruct Ha as [Ha H3]. apply andb_prop in Ha. destruct Ha as [H1 H2].
  destruct w; [discriminate|]. apply negb_true_iff in H2. apply negb_true_iff in H3.
  repeat split; auto using smem_notIn.
Qed.

(* any number of worker threads, each somewhere in an execution of the worker code, interleaved in any
   way the mutex permits: whatever is written to stdout between a lock and the matching unlock of a
   thread is written by that thread (the lines of a match group are contiguous in the output) *)
Theorem match_group_atomic_proof : forall g : list (nat * oev),
  (forall t, exists tr o rest, exec out_worker tr o /\ tr = proj t g ++ rest) ->
  grun None g <> None ->
  forall pre t sec post, g = pre ++ (t, ELock) :: sec ++ (t, EUnlock) :: post -> ~ In (t, EUnlock) sec ->
  forall u site, In (u, EOut Stdout site) sec -> u = t.
Proof.
  intros g Hw Hg pre t sec post E Hni u site Hin.
  eapply (group_atomic_gen allowed_now g Hg); eauto.
  intros x. destruct (Hw x) as (tr & o & rest & Hx & Et).
  destruct (worker_disciplined _ _ Hx) as [_ L]. rewrite Et in L.
  eapply lrun_prefix. rewrite L. discriminate.
Qed.

(* ... and at any moment a write to stdout is done by the owner of the mutex *)
Theorem stdout_writer_owns_mutex_proof : forall g : list (nat * oev),
  (forall t, exists tr o rest, exec out_worker tr o /\ tr = proj t g ++ rest) ->
  grun None g <> None ->
  forall pre u site post, g = pre ++ (u, EOut Stdout site) :: post -> grun None pre = Some (Some u).
Proof.
  intros g Hw Hg pre u site post E.
  eapply (writes_by_owner_gen allowed_now g None (fun _ => false)); eauto.
  - intros x; split; discriminate.
  - intros x. destruct (Hw x) as (tr & o & rest & Hx & Et).
    destruct (worker_disciplined _ _ Hx) as [_ L]. rewrite Et in L.
    eapply lrun_prefix. rewrite L. discriminate.
Qed.

(* ------------------------------------------------------------------ non-vacuity *)
(* the worker code has an execution that locks, prints to stdout, unlocks and touches shared variables *)
Example worker_has_printing_execution :
  exists tr, exec out_worker tr ONormal /\
             existsb is_lock tr = true /\ existsb is_stdout tr = true /\ existsb is_var tr = true.
Proof.
  assert (E : exists tr ch, orun 5000 out_worker out_example_choices = Some (tr, ONormal, ch) /\
                            (existsb is_lock tr && existsb is_stdout tr && existsb is_var tr) = true).
  { vm_compute. eexists; eexists; split; reflexivity. }
  destruct E as (tr & ch & E & F). exists tr. split. eapply orun_exec; eauto.
  apply andb_prop in F. destruct F as [F F3]. apply andb_prop in F. destruct F as [F1 F2]. auto.
Qed.

(* an interleaving of two threads that respects the mutex and the discipline ... *)
Definition ex_g : list (nat * oev) :=
  [(1, ELock); (1, EOut Stdout "a"); (2, EVar "limit" false); (1, EOut Stdout "b"); (1, EUnlock);
   (2, ELock); (2, EOut Stdout "c"); (2, EUnlock); (2, EVar "total_count" true)]%string.
Example ex_g_ok : grun None ex_g = Some None /\ lrun allowed_now false (proj 1 ex_g) = Some false /\
                  lrun allowed_now false (proj 2 ex_g) = Some false.
Proof. vm_compute. repeat split. Qed.

(* ... and what the discipline excludes: the mutex alone does not prevent a thread that prints without
   taking it from writing into another thread's group; such a thread is rejected by [lrun] *)
Definition ex_torn : list (nat * oev) :=
  [(1, ELock); (1, EOut Stdout "a"); (2, EOut Stdout "x"); (1, EOut Stdout "b"); (1, EUnlock)]%string.
Example ex_torn_rejected : grun None ex_torn = Some None /\ lrun allowed_now false (proj 2 ex_torn) = None.
Proof. vm_compute. split; reflexivity. Qed.

(* the abstract interpreter rejects the three hand-made breaking changes (on a small statement):
   a lock removed, a print moved before the lock, an early return between lock and unlock *)
Example chk_rejects_missing_lock :
  chk allowed_now (OSeq (OEv (EOut Stdout "f")) (OEv EUnlock)) false = None.
Proof. reflexivity. Qed.
Example chk_rejects_print_before_lock :
  chk allowed_now (OSeq (OEv (EOut Stdout "f")) (OSeq (OEv ELock) (OEv EUnlock))) false = None.
Proof. reflexivity. Qed.
Example chk_rejects_early_return :
  chk allowed_now (OFun "f" (OSeq (OEv ELock) (OSeq (OChoice OReturn OSkip) (OEv EUnlock)))) false = None.
Proof. reflexivity. Qed.
Example chk_rejects_new_unprotected_counter :
  chk allowed_now (OEv (EVar "other_count" true)) false = None.
Proof. reflexivity. Qed.
