(* The literal verifier and the scan of one text string (Model/Verify.v) against the documented semantics
   (Spec/TextSpec.v), composed with the automaton theorems (Proofs/ACProofs.v) and the atom coverage
   certificate (Proofs/TextProofs.v). *)
From Coq Require Import List Arith NArith ZArith Bool Lia Sorting.Sorted.
From YV Require Import Base.Bytes gen.GenConsts gen.GenTables Model.Arena Model.Image Model.AC Spec.TextSpec Model.TextAtoms
                       Model.Verify Proofs.TextProofs Proofs.ACProofs.
Import ListNotations.
Local Open Scope N_scope.

(* ------------------------------------------------------------------ compare functions *)
Lemma nlen_pos (s : bytes) : s <> [] -> nlen s <> 0.
Proof. destruct s; [congruence|]. intros _. unfold nlen. cbn [length]. lia. Qed.

Lemma c_compare_inv nc data s f : c_compare nc data s = f -> f <> 0 ->
  f = nlen s /\ match_ascii nc 0 s data = true.
Proof.
  unfold c_compare. intros H Hf. destruct (length data <? length s)%nat; [congruence|].
  destruct (match_ascii nc 0 s data); [split; [congruence|reflexivity]|congruence].
Qed.

Lemma c_wcompare_inv nc data s f : c_wcompare nc data s = f -> f <> 0 ->
  f = 2 * nlen s /\ match_wide nc 0 s data = true.
Proof.
  unfold c_wcompare. intros H Hf. destruct (length data <? 2 * length s)%nat; [congruence|].
  destruct (match_wide nc 0 s data); [split; [congruence|reflexivity]|congruence].
Qed.

Lemma c_xor_compare_inv data s f k : c_xor_compare data s = (f, k) -> f <> 0 ->
  f = nlen s /\ k = first_key data s /\ match_ascii false k s data = true.
Proof.
  unfold c_xor_compare. intros H Hf. destruct (length data <? length s)%nat; [inversion H; congruence|].
  destruct (match_ascii false (first_key data s) s data) eqn:E; inversion H; subst; [auto|congruence].
Qed.

Lemma c_xor_wcompare_inv data s f k : c_xor_wcompare data s = (f, k) -> f <> 0 ->
  f = 2 * nlen s /\ k = first_key data s /\ match_wide false k s data = true.
Proof.
  unfold c_xor_wcompare. intros H Hf. destruct (length data <? 2 * length s)%nat; [inversion H; congruence|].
  destruct (match_wide false (first_key data s) s data) eqn:E; inversion H; subst; [auto|congruence].
Qed.

Lemma widen_length (s : bytes) : length (widen s) = (2 * length s)%nat.
Proof. induction s as [|c r IH]; [reflexivity|]. cbn [widen flat_map app length] in *. unfold widen in IH. lia. Qed.

Lemma c_compare_complete nc data s : match_ascii nc 0 s data = true -> c_compare nc data s = nlen s.
Proof.
  intros H. unfold c_compare. destruct (match_ascii_forall2 _ _ _ _ H) as [L _].
  destruct (Nat.ltb_spec (length data) (length s)); [lia|]. now rewrite H.
Qed.

Lemma c_wcompare_complete nc data s : match_wide nc 0 s data = true -> c_wcompare nc data s = 2 * nlen s.
Proof.
  intros H. unfold c_wcompare. destruct (match_wide_forall2 _ _ _ _ H) as [L _]. rewrite widen_length in L.
  destruct (Nat.ltb_spec (length data) (2 * length s)); [lia|]. now rewrite H.
Qed.

Lemma c_xor_compare_complete data s : match_ascii false (first_key data s) s data = true ->
  c_xor_compare data s = (nlen s, first_key data s).
Proof.
  intros H. unfold c_xor_compare. destruct (match_ascii_forall2 _ _ _ _ H) as [L _].
  destruct (Nat.ltb_spec (length data) (length s)); [lia|]. now rewrite H.
Qed.

Lemma c_xor_wcompare_complete data s : match_wide false (first_key data s) s data = true ->
  c_xor_wcompare data s = (2 * nlen s, first_key data s).
Proof.
  intros H. unfold c_xor_wcompare. destruct (match_wide_forall2 _ _ _ _ H) as [L _]. rewrite widen_length in L.
  destruct (Nat.ltb_spec (length data) (2 * length s)); [lia|]. now rewrite H.
Qed.

(* a successful comparison of non-empty operands with key k: k is the xor of the first bytes *)
Lemma match_ascii_first_key k s data : s <> [] -> match_ascii false k s data = true -> first_key data s = k.
Proof.
  destruct s as [|p0 s']; [congruence|]. intros _. destruct data as [|d0 data']; [discriminate|].
  cbn [match_ascii first_key]. intros H. apply andb_true_iff in H as [H _]. unfold byte_eq in H. apply N.eqb_eq in H.
  subst d0. rewrite N.lxor_comm, <- N.lxor_assoc, N.lxor_nilpotent, N.lxor_0_l. reflexivity.
Qed.

Lemma match_wide_first_key k s data : s <> [] -> match_wide false k s data = true -> first_key data s = k.
Proof.
  destruct s as [|p0 s']; [congruence|]. intros _. destruct data as [|d0 [|z data']]; try discriminate.
  cbn [match_wide first_key]. intros H. apply andb_true_iff in H as [H _]. apply andb_true_iff in H as [H _].
  unfold byte_eq in H. apply N.eqb_eq in H.
  subst d0. rewrite N.lxor_comm, <- N.lxor_assoc, N.lxor_nilpotent, N.lxor_0_l. reflexivity.
Qed.

(* ------------------------------------------------------------------ what a non-trusting verification accepted *)
Definition acc_ascii (fl : vflags) (s data : bytes) (fwd key : N) : Prop :=
  fwd = nlen s /\ match_ascii (vf_nocase fl) key s data = true /\ (vf_ascii fl = true \/ vf_xor fl = true).
Definition acc_wide (fl : vflags) (s data : bytes) (fwd key : N) : Prop :=
  fwd = 2 * nlen s /\ match_wide (vf_nocase fl) key s data = true /\ vf_wide fl = true.

Lemma forward_nonfits fl s bt data fwd key :
  vf_fits fl = false -> (vf_xor fl = true -> vf_nocase fl = false) -> s <> [] ->
  forward_and_key fl s bt data = (fwd, key) -> fwd <> 0 ->
  (acc_ascii fl s data fwd key \/ acc_wide fl s data fwd key) /\
  (if vf_xor fl then key = first_key data s else key = 0).
Proof.
  intros Hfits Hleg Hs H Hf. unfold forward_and_key in H. rewrite Hfits in H.
  unfold acc_ascii, acc_wide.
  destruct (vf_nocase fl) eqn:En.
  - assert (Ex : vf_xor fl = false) by (destruct (vf_xor fl); [specialize (Hleg eq_refl); discriminate|reflexivity]).
    rewrite Ex. injection H as H1 H2. subst key. split; [|reflexivity].
    destruct (vf_ascii fl) eqn:Ea.
    + destruct (c_compare true data s =? 0) eqn:E0.
      * apply N.eqb_eq in E0. rewrite E0 in *. rewrite andb_true_r in H1.
        destruct (vf_wide fl) eqn:Ew; [|congruence].
        destruct (c_wcompare_inv _ _ _ _ H1 Hf) as [-> M]. right. auto.
      * rewrite andb_false_r in H1. apply N.eqb_neq in E0.
        destruct (c_compare_inv _ _ _ _ H1 Hf) as [-> M]. left. auto.
    + cbn [N.eqb] in H1. rewrite andb_true_r in H1. destruct (vf_wide fl) eqn:Ew; [|congruence].
      destruct (c_wcompare_inv _ _ _ _ H1 Hf) as [-> M]. right. auto.
  - set (f1 := if vf_ascii fl then c_compare false data s else 0) in *.
    set (f2 := if vf_wide fl && (f1 =? 0) then c_wcompare false data s else f1) in *.
    assert (Hplain : f2 <> 0 -> (f2 = nlen s /\ match_ascii false 0 s data = true /\ vf_ascii fl = true) \/
                               (f2 = 2 * nlen s /\ match_wide false 0 s data = true /\ vf_wide fl = true)).
    { intros Hf2. unfold f2, f1 in *. destruct (vf_ascii fl) eqn:Ea.
      - destruct (c_compare false data s =? 0) eqn:E0.
        + apply N.eqb_eq in E0. rewrite E0 in *. rewrite andb_true_r in *.
          destruct (vf_wide fl) eqn:Ew; [|congruence].
          destruct (c_wcompare_inv _ _ _ _ eq_refl Hf2) as [E M]. right. auto.
        + rewrite andb_false_r in *. apply N.eqb_neq in E0.
          destruct (c_compare_inv _ _ _ _ eq_refl Hf2) as [E M]. left. auto.
      - cbn [N.eqb] in *. rewrite andb_true_r in *. destruct (vf_wide fl) eqn:Ew; [|congruence].
        destruct (c_wcompare_inv _ _ _ _ eq_refl Hf2) as [E M]. right. auto. }
    destruct (vf_xor fl) eqn:Ex.
    + destruct (f2 =? 0) eqn:E2; cbn [andb] in H.
      * destruct (vf_wide fl) eqn:Ew.
        -- destruct (c_xor_wcompare data s) as [fw kw] eqn:Exw. cbn [fst] in H.
           destruct (fw =? 0) eqn:Efw.
           ++ destruct (c_xor_compare_inv _ _ _ _ H Hf) as [-> [-> M]]. split; [left; auto|reflexivity].
           ++ inversion H; subst. destruct (c_xor_wcompare_inv _ _ _ _ Exw Hf) as [-> [-> M]]. split; [right; auto|reflexivity].
        -- cbn [fst N.eqb] in H. destruct (c_xor_compare_inv _ _ _ _ H Hf) as [-> [-> M]]. split; [left; auto|reflexivity].
      * inversion H; subst. apply N.eqb_neq in E2. destruct (Hplain E2) as [[E [M A]]|[E [M A]]].
        -- split; [left; auto|]. symmetry. now apply match_ascii_first_key.
        -- split; [right; auto|]. symmetry. now apply match_wide_first_key.
    + cbn [andb] in H. inversion H; subst. destruct (Hplain Hf) as [[E [M A]]|[E [M A]]]; (split; [|reflexivity]); [left|right]; auto.
Qed.

(* ------------------------------------------------------------------ flags *)
Lemma flags_agree_inv fl m : flags_agree fl m = true ->
  vf_ascii fl = (m_ascii m || negb (m_wide m)) /\ vf_wide fl = m_wide m /\ vf_nocase fl = m_nocase m /\
  vf_fullword fl = m_fullword m /\ vf_xor fl = (match m_xor m with Some _ => true | None => false end).
Proof.
  unfold flags_agree. intros H. repeat (apply andb_true_iff in H as [H ?]).
  repeat match goal with Hx : Bool.eqb _ _ = true |- _ => apply Bool.eqb_prop in Hx end. auto.
Qed.

Lemma legal_xor_nocase fl m : flags_agree fl m = true -> legal m = true -> vf_xor fl = true -> vf_nocase fl = false.
Proof.
  intros Ha Hl Hx. destruct (flags_agree_inv _ _ Ha) as [_ [_ [En [_ Ex]]]]. rewrite En. rewrite Ex in Hx.
  unfold legal in Hl. destruct (m_xor m) as [[lo hi]|]; [|discriminate].
  apply andb_true_iff in Hl as [Hl _]. apply andb_true_iff in Hl as [Hl _]. now apply negb_true_iff in Hl.
Qed.

Lemma nlen_to_nat (s : bytes) : N.to_nat (nlen s) = length s.
Proof. unfold nlen. apply Nnat.Nat2N.id. Qed.

(* ------------------------------------------------------------------ soundness of a non-trusting verification *)
Lemma verify_nonfits_sound fl s m bt buf off fwd key :
  flags_agree fl m = true -> legal m = true -> s <> [] -> vf_fits fl = false ->
  verify_literal fl s bt None buf off = Some (fwd, key) ->
  (forall lo hi, m_xor m = Some (lo, hi) -> lo <= key /\ key <= hi /\ (fwd = nlen s -> vf_ascii fl = true)) ->
  In (fwd, key) (occs_at s m buf off).
Proof.
  intros Ha Hl Hs Hfits Hv Hside.
  pose proof (legal_xor_nocase _ _ Ha Hl) as Hxn.
  destruct (flags_agree_inv _ _ Ha) as [Ea [Ew [En [Efw Ex]]]].
  unfold verify_literal in Hv.
  destruct (Nat.leb_spec (length buf) off) as [|Hoff]; [discriminate|].
  set (data := skipn off buf) in *.
  destruct (forward_and_key fl s bt data) as [f k] eqn:Efk. cbn [fst] in Hv.
  destruct (f =? 0) eqn:Ef0; [discriminate|]. apply N.eqb_neq in Ef0.
  destruct (Nat.ltb_spec (length buf) (off + N.to_nat f)); [discriminate|].
  destruct (vf_fullword fl && _) eqn:Efull in Hv; [discriminate|].
  injection Hv as -> ->.
  destruct (forward_nonfits _ _ _ _ _ _ Hfits Hxn Hs Efk Ef0) as [Hacc Hkey].
  assert (Hnl : nlen s <> 0) by now apply nlen_pos.
  unfold occs_at. fold data.
  destruct s as [|p0 s']; [congruence|]. set (s := p0 :: s') in *.
  destruct data as [|d0 data'] eqn:Ed.
  { exfalso. assert (L : length data = 0%nat) by (rewrite Ed; reflexivity). unfold data in L. rewrite skipn_length in L. lia. }
  (* the key is admissible *)
  assert (Hk : In key (keys_of m d0 p0)).
  { unfold keys_of. destruct (m_xor m) as [[lo hi]|] eqn:Emx.
    - rewrite Ex in Hkey. unfold s in Hkey. cbn [first_key] in Hkey. subst key.
      destruct (Hside lo hi eq_refl) as [K1 [K2 _]]. apply N.leb_le in K1, K2. rewrite K1, K2. now left.
    - rewrite Ex in Hkey. subst key. now left. }
  apply in_or_app. destruct Hacc as [[Ef [M A]]|[Ef [M A]]].
  - left. subst fwd.
    assert (Hasc : vf_ascii fl = true).
    { destruct A as [A|A]; [exact A|]. rewrite Ex in A. destruct (m_xor m) as [[lo hi]|] eqn:Emx; [|discriminate].
      destruct (Hside lo hi eq_refl) as [_ [_ Hh]]. now apply Hh. }
    rewrite <- Ea, Hasc. apply in_flat_map. exists key. split; [exact Hk|].
    rewrite <- En, M. cbn [andb].
    replace (nlen s =? 2 * nlen s) with false in Efull by (symmetry; apply N.eqb_neq; lia).
    rewrite nlen_to_nat in Efull. rewrite <- Efw.
    destruct (vf_fullword fl); cbn [andb negb orb] in *.
    + apply negb_false_iff in Efull. rewrite Efull. now left.
    + now left.
  - right. subst fwd. rewrite <- Ew, A. apply in_flat_map. exists key. split; [exact Hk|].
    rewrite <- En, M. cbn [andb].
    rewrite N.eqb_refl in Efull.
    replace (N.to_nat (2 * nlen s)) with (2 * length s)%nat in Efull by (unfold nlen; lia). rewrite <- Efw.
    destruct (vf_fullword fl); cbn [andb negb orb] in *.
    + apply negb_false_iff in Efull. rewrite Efull. now left.
    + now left.
Qed.

(* ------------------------------------------------------------------ list helpers *)
Lemma nth_skipn {A} (l : list A) off t d : nth t (skipn off l) d = nth (off + t) l d.
Proof. revert l. induction off as [|off IH]; intros l; [reflexivity|]. destruct l; [destruct t; reflexivity|]. cbn [skipn plus nth]. apply IH. Qed.

Lemma nth_firstn_lt {A} (l : list A) n t d : (t < n)%nat -> nth t (firstn n l) d = nth t l d.
Proof.
  revert l t. induction n as [|n IH]; intros l t H; [lia|]. destruct l; [destruct t; reflexivity|].
  destruct t; [reflexivity|]. cbn [firstn nth]. apply IH. lia.
Qed.

Lemma Forall2_nth {A B} (R : A -> B -> Prop) l1 l2 da db : Forall2 R l1 l2 ->
  forall j, (j < length l2)%nat -> R (nth j l1 da) (nth j l2 db).
Proof.
  induction 1 as [|x y l1 l2 Hxy _ IH]; intros j Hj; [cbn in Hj; lia|].
  destruct j; [exact Hxy|]. cbn [nth]. apply IH. cbn in Hj. lia.
Qed.

Lemma atom_window_nth v buf i t : atom_ends_at v buf i -> (t < length v)%nat -> nth (i - length v + t) buf 0 = nth t v 0.
Proof.
  intros [L [E Hi]] Ht. rewrite <- E at 2. unfold slice. rewrite nth_firstn_lt by exact Ht. now rewrite nth_skipn.
Qed.

Lemma lxor_byte_table :
  forallb (fun a => forallb (fun b => N.lxor a b <? 256) range256) range256 = true.
Proof. vm_compute. reflexivity. Qed.

Lemma lxor_byte a b : a < 256 -> b < 256 -> N.lxor a b < 256.
Proof.
  intros Ha Hb. pose proof lxor_byte_table as T. rewrite forallb_forall in T. specialize (T a (in_range256 a Ha)).
  rewrite forallb_forall in T. specialize (T b (in_range256 b Hb)). now apply N.ltb_lt in T.
Qed.

(* ------------------------------------------------------------------ the key forced by an atom *)
Lemma forced_key_sound lo hi en r' v bt buf off k :
  forced_key_ok lo hi en r' (v, bt) = true ->
  atom_ends_at v buf (off + N.to_nat bt) ->
  (length r' <= length (skipn off buf))%nat ->
  Forall2 (Rr false k) (firstn (length r') (skipn off buf)) r' ->
  en = true /\ lo <= k /\ k <= hi.
Proof.
  unfold forced_key_ok. cbn [fst snd]. intros Hc Ha Hlen HF.
  destruct (Nat.ltb_spec (N.to_nat bt) (length v)) as [|Hbt]; [discriminate|].
  set (w0 := (N.to_nat bt - length v)%nat) in *.
  set (kof := fun j => N.lxor (nth j r' 0) (nth (j - w0) v 0)) in *.
  assert (Hk : forall j, (w0 <= j < w0 + length v)%nat -> (j < length r')%nat -> kof j = k).
  { intros j Hj Hjr. unfold kof.
    pose proof (Forall2_nth _ _ _ 0 0 HF j Hjr) as Hr. unfold Rr, byte_eq in Hr. apply N.eqb_eq in Hr.
    rewrite nth_firstn_lt in Hr by exact Hjr. rewrite nth_skipn in Hr.
    pose proof (atom_window_nth v buf (off + N.to_nat bt) (j - w0) Ha ltac:(lia)) as Hv.
    replace (off + N.to_nat bt - length v + (j - w0))%nat with (off + j)%nat in Hv by lia.
    rewrite <- Hv, Hr. rewrite <- N.lxor_assoc, N.lxor_nilpotent. apply N.lxor_0_l. }
  destruct (filter (fun j => (j <? length r')%nat) (seq w0 (length v))) as [|j0 J] eqn:EJ; [discriminate|].
  assert (HJ : forall j, In j (j0 :: J) -> (w0 <= j < w0 + length v)%nat /\ (j < length r')%nat).
  { intros j Hj. rewrite <- EJ in Hj. apply filter_In in Hj as [Hj1 Hj2]. apply in_seq in Hj1. apply Nat.ltb_lt in Hj2. split; lia. }
  assert (Hall : forallb (fun j => kof j =? kof j0) (j0 :: J) = true).
  { apply forallb_forall. intros j Hj. destruct (HJ j Hj) as [A B]. destruct (HJ j0 (or_introl eq_refl)) as [A0 B0].
    rewrite (Hk j A B), (Hk j0 A0 B0). apply N.eqb_refl. }
  change (forallb (fun j => kof j =? kof j0) (j0 :: J)) with
    (forallb (fun j => N.lxor (nth j r' 0) (nth (j - w0) v 0) =? N.lxor (nth j0 r' 0) (nth (j0 - w0) v 0)) (j0 :: J)) in Hall.
  rewrite Hall in Hc. destruct (HJ j0 (or_introl eq_refl)) as [A0 B0]. pose proof (Hk j0 A0 B0) as Hk0. unfold kof in Hk0. rewrite Hk0 in Hc.
  apply andb_true_iff in Hc as [Hc K2]. apply andb_true_iff in Hc as [Hen K1]. apply N.leb_le in K1, K2. auto.
Qed.

(* ------------------------------------------------------------------ hits of the automaton are atom occurrences *)
Lemma owns_atoms_of cr mu v : owns cr (states cr) mu v ->
  In (v, am_backtrack (pool_at cr mu)) (atoms_of cr (am_string (pool_at cr mu))).
Proof.
  intros [g [own [Hg [Ho Hmu]]]]. unfold atoms_of, atoms_for. apply in_map_iff.
  exists (am_string (pool_at cr mu), (v, am_backtrack (pool_at cr mu))). split; [reflexivity|].
  apply filter_In. split; [|cbn [fst]; apply N.eqb_refl].
  unfold all_atoms. apply in_flat_map. exists (g, v). split; [exact Hg|]. rewrite Ho.
  apply in_map_iff. exists mu. split; [reflexivity|exact Hmu].
Qed.

Lemma suffix_atom_ends v buf i : (i <= length buf)%nat -> suffix v (firstn i buf) -> atom_ends_at v buf i.
Proof.
  intros Hi [p H]. pose proof (f_equal (@length N) H) as L. rewrite firstn_length_le, app_length in L by exact Hi.
  unfold atom_ends_at. split; [lia|]. split; [|exact Hi].
  unfold slice. rewrite <- (firstn_skipn i buf) at 1. rewrite H, <- app_assoc.
  rewrite skipn_app_exact by lia. now apply firstn_app_exact.
Qed.

Lemma hit_atom cr buf i mu :
  ac_cert cr = true -> all_bytes buf = true -> (i <= length buf)%nat -> In mu (hits_at cr buf i) ->
  exists v, In (v, am_backtrack (pool_at cr mu)) (atoms_of cr (am_string (pool_at cr mu))) /\
            atom_ends_at v buf i /\ am_backtrack (pool_at cr mu) <= N.of_nat i.
Proof.
  intros Hc Hb Hi Hin. apply (ac_reports_all_and_only_proof cr Hc buf i mu Hb) in Hin as [[v [Hs Ho]] Hbt].
  exists v. split; [now apply owns_atoms_of|]. split; [now apply suffix_atom_ends|exact Hbt].
Qed.

(* ------------------------------------------------------------------ xor strings: the atom forces an admissible key *)
Lemma all_bytes_nth l j : all_bytes l = true -> nth j l 0 < 256.
Proof.
  revert j. induction l as [|c r IH]; intros j H; [destruct j; cbn; lia|].
  cbn [all_bytes forallb] in H. apply andb_true_iff in H as [H1 H2]. destruct j; cbn [nth]; [now apply N.ltb_lt in H1|now apply IH].
Qed.

Lemma first_key_byte data s : all_bytes data = true -> all_bytes s = true -> first_key data s < 256.
Proof.
  intros Hd Hs. unfold first_key. destruct data as [|d0 ?]; [lia|]. destruct s as [|s0 ?]; [lia|].
  apply lxor_byte; [apply (all_bytes_nth _ 0 Hd)|apply (all_bytes_nth _ 0 Hs)].
Qed.

Lemma xor_side_condition fl s m atoms v bt buf off fwd key lo hi :
  flags_agree fl m = true -> legal m = true -> s <> [] -> vf_fits fl = false ->
  all_bytes buf = true -> all_bytes s = true ->
  m_xor m = Some (lo, hi) -> xor_keys_ok fl s m atoms = true ->
  In (v, bt) atoms -> atom_ends_at v buf (off + N.to_nat bt) ->
  verify_literal fl s bt None buf off = Some (fwd, key) ->
  lo <= key /\ key <= hi /\ (fwd = nlen s -> vf_ascii fl = true).
Proof.
  intros Ha Hl Hs Hfits Hb Hsb Emx Hx Hin Hat Hv.
  pose proof (legal_xor_nocase _ _ Ha Hl) as Hxn.
  destruct (flags_agree_inv _ _ Ha) as [Ea [Ew [En [Efw Ex]]]]. rewrite Emx in Ex.
  unfold verify_literal in Hv.
  destruct (Nat.leb_spec (length buf) off) as [|Hoff]; [discriminate|].
  set (data := skipn off buf) in *.
  destruct (forward_and_key fl s bt data) as [f k] eqn:Efk. cbn [fst] in Hv.
  destruct (f =? 0) eqn:Ef0; [discriminate|]. apply N.eqb_neq in Ef0.
  destruct (Nat.ltb_spec (length buf) (off + N.to_nat f)); [discriminate|].
  destruct (vf_fullword fl && _) eqn:Efull in Hv; [discriminate|].
  injection Hv as -> ->.
  destruct (forward_nonfits _ _ _ _ _ _ Hfits Hxn Hs Efk Ef0) as [Hacc Hkey]. rewrite Ex in Hkey.
  specialize (Hxn Ex).
  unfold xor_keys_ok in Hx. rewrite Emx in Hx. apply orb_true_iff in Hx as [Hx|Hx].
  - apply andb_true_iff in Hx as [Hx Hasc]. apply andb_true_iff in Hx as [L0 H255].
    apply N.eqb_eq in L0, H255. subst lo hi. split; [lia|]. split; [|auto].
    assert (key < 256); [|lia]. subst key. apply first_key_byte; [now apply all_bytes_skipn|exact Hsb].
  - rewrite forallb_forall in Hx. specialize (Hx _ Hin). apply andb_true_iff in Hx as [Hxa Hxw].
    assert (Hnl : nlen s <> 0) by now apply nlen_pos.
    destruct Hacc as [[Ef [M A]]|[Ef [M A]]].
    + rewrite Hxn in M. destruct (match_ascii_forall2 _ _ _ _ M) as [L F].
      destruct (forced_key_sound _ _ _ _ _ _ _ _ _ Hxa Hat L F) as [Hen [K1 K2]]. auto.
    + rewrite Hxn in M. destruct (match_wide_forall2 _ _ _ _ M) as [L F]. rewrite A in Hxw.
      destruct (forced_key_sound _ _ _ _ _ _ _ _ _ Hxw Hat L F) as [_ [K1 K2]].
      split; [exact K1|]. split; [exact K2|]. intros E. rewrite E in Ef. lia.
Qed.

(* ------------------------------------------------------------------ converses of the comparison lemmas *)
Lemma match_ascii_of_forall2 nocase k pat : forall data,
  (length pat <= length data)%nat -> Forall2 (Rr nocase k) (firstn (length pat) data) pat ->
  match_ascii nocase k pat data = true.
Proof.
  induction pat as [|p pat IH]; intros data L F; [reflexivity|].
  destruct data as [|d data]; [cbn in L; lia|]. cbn [length firstn] in *. inversion F; subst.
  cbn [match_ascii]. apply andb_true_iff. split; [assumption|]. apply IH; [lia|assumption].
Qed.

Lemma lower_zero_table : forallb (fun z => implb (lower z =? 0) (z =? 0)) range256 = true.
Proof. vm_compute. reflexivity. Qed.

Lemma lower_zero z : z < 256 -> lower z = 0 -> z = 0.
Proof.
  intros Hz H. pose proof lower_zero_table as T. rewrite forallb_forall in T. specialize (T z (in_range256 z Hz)).
  rewrite H in T. cbn in T. now apply N.eqb_eq in T.
Qed.

Lemma match_wide_of_forall2 nocase k pat : (nocase = true -> k = 0) -> forall data,
  all_bytes data = true ->
  (length (widen pat) <= length data)%nat -> Forall2 (Rr nocase k) (firstn (length (widen pat)) data) (widen pat) ->
  match_wide nocase k pat data = true.
Proof.
  intros Hk. induction pat as [|p pat IH]; intros data Hb L F; [reflexivity|].
  cbn [widen flat_map app length] in L, F. fold (widen pat) in L, F.
  destruct data as [|d [|z data]]; [cbn in L; lia|cbn in L; lia|].
  cbn [length firstn] in *. inversion F as [|? ? ? ? H1 F1]; subst. inversion F1 as [|? ? ? ? H2 F2]; subst.
  cbn [all_bytes forallb] in Hb. apply andb_true_iff in Hb as [_ Hb]. apply andb_true_iff in Hb as [Hz Hb].
  cbn [match_wide]. apply andb_true_iff. split; [apply andb_true_iff; split|].
  - exact H1.
  - unfold Rr, byte_eq in H2. rewrite N.lxor_0_l in H2. destruct nocase.
    + rewrite (Hk eq_refl) in *. apply N.eqb_eq in H2. apply N.eqb_eq. apply lower_zero; [now apply N.ltb_lt in Hz|].
      rewrite H2. reflexivity.
    + exact H2.
  - apply IH; [exact Hb|lia|exact F2].
Qed.

(* ------------------------------------------------------------------ variants of a window are related to it *)
Lemma lower_alter_eq_table : forallb (fun p => lower (alter p) =? lower p) range256 = true.
Proof. vm_compute. reflexivity. Qed.

Lemma lower_alter p : lower (alter p) = lower p.
Proof.
  destruct (N.lt_ge_cases p 256) as [Hp|Hp].
  - pose proof lower_alter_eq_table as T. rewrite forallb_forall in T. specialize (T p (in_range256 p Hp)). now apply N.eqb_eq in T.
  - unfold alter. rewrite nth_overflow; [reflexivity|]. change (length altercase_table) with 256%nat. lia.
Qed.

Lemma case_combos_rel r : forall v, In v (case_combos r) -> Forall2 (Rr true 0) v r.
Proof.
  induction r as [|c r IH]; intros v H; cbn [case_combos] in H.
  - destruct H as [<-|[]]. constructor.
  - apply in_app_or in H as [H|H].
    + apply in_map_iff in H as [v' [<- Hv]]. constructor; [|now apply IH].
      unfold Rr, byte_eq. rewrite N.lxor_0_r. apply N.eqb_refl.
    + destruct (alter c =? c); [destruct H|]. apply in_map_iff in H as [v' [<- Hv]]. constructor; [|now apply IH].
      unfold Rr, byte_eq. rewrite N.lxor_0_r, lower_alter. apply N.eqb_refl.
Qed.

Lemma in_keys_in_inv lo hi k : In k (keys_in lo hi) -> lo <= k /\ k <= hi.
Proof. unfold keys_in. intros H. apply in_map_iff in H as [n [<- Hn]]. apply in_seq in Hn. lia. Qed.

Lemma variants_rel m v r : legal m = true -> In v (window_variants m r) ->
  exists k, key_ok m k /\ Forall2 (Rr (m_nocase m) k) v r.
Proof.
  intros Hl H. unfold window_variants, key_ok, legal in *. destruct (m_xor m) as [[lo hi]|].
  - apply andb_true_iff in Hl as [Hl _]. apply andb_true_iff in Hl as [Hl _]. apply negb_true_iff in Hl. rewrite Hl.
    apply in_map_iff in H as [k [<- Hk]]. exists k. split; [now apply in_keys_in_inv|].
    clear. induction r as [|c r IH]; cbn [map]; constructor; [|exact IH]. unfold Rr, byte_eq. apply N.eqb_refl.
  - exists 0. split; [reflexivity|]. destruct (m_nocase m).
    + now apply case_combos_rel.
    + destruct H as [<-|[]]. clear. induction r as [|c r IH]; constructor; [|exact IH].
      unfold Rr, byte_eq. rewrite N.lxor_0_r. apply N.eqb_refl.
Qed.

(* ------------------------------------------------------------------ soundness of a trusting (FITS_IN_ATOM) verification *)
Lemma in_renderings fl s r : In r (renderings fl s) -> (r = s /\ vf_ascii fl = true) \/ (r = widen s /\ vf_wide fl = true).
Proof.
  unfold renderings. intros H. apply in_app_or in H as [H|H].
  - destruct (vf_ascii fl); [|destruct H]. destruct H as [<-|[]]. now left.
  - destruct (vf_wide fl); [|destruct H]. destruct H as [<-|[]]. now right.
Qed.

Lemma nlen_widen s : nlen (widen s) = 2 * nlen s.
Proof. unfold nlen. rewrite widen_length. lia. Qed.

Lemma verify_fits_sound fl s m atoms v bt buf off fwd key :
  flags_agree fl m = true -> legal m = true -> s <> [] -> vf_fits fl = true ->
  all_bytes buf = true ->
  fits_ok fl s m atoms = true -> In (v, bt) atoms -> atom_ends_at v buf (off + N.to_nat bt) ->
  verify_literal fl s bt None buf off = Some (fwd, key) ->
  In (fwd, key) (occs_at s m buf off).
Proof.
  intros Ha Hl Hs Hfits Hb Hfo Hin Hat Hv.
  pose proof (legal_xor_nocase _ _ Ha Hl) as Hxn.
  destruct (flags_agree_inv _ _ Ha) as [Ea [Ew [En [Efw Ex]]]].
  unfold fits_ok in Hfo. apply andb_true_iff in Hfo as [Hfo _]. rewrite forallb_forall in Hfo. specialize (Hfo _ Hin).
  apply existsb_exists in Hfo as [r [Hr Hfo]]. cbn [fst snd] in Hfo.
  apply andb_true_iff in Hfo as [Hfo Hvar]. apply andb_true_iff in Hfo as [Lv Hbt].
  apply Nat.eqb_eq in Lv. apply N.eqb_eq in Hbt.
  apply existsb_exists in Hvar as [v' [Hvar E]]. apply bytes_eqb_eq in E. subst v'.
  destruct (variants_rel _ _ _ Hl Hvar) as [k [Hk F]].
  assert (Hbt' : N.to_nat bt = length r) by (subst bt; apply nlen_to_nat).
  set (data := skipn off buf) in *.
  assert (Hdata : firstn (length r) data = v).
  { destruct Hat as [_ [E _]]. rewrite Hbt', <- Lv in E. replace (off + length v - length v)%nat with off in E by lia.
    unfold slice in E. rewrite <- Lv. exact E. }
  assert (Ldata : (length r <= length data)%nat).
  { destruct Hat as [_ [_ Hi]]. unfold data. rewrite skipn_length. lia. }
  unfold verify_literal in Hv.
  destruct (Nat.leb_spec (length buf) off) as [|Hoff]; [discriminate|]. fold data in Hv.
  destruct (forward_and_key fl s bt data) as [f kk] eqn:Efk. cbn [fst] in Hv.
  destruct (f =? 0) eqn:Ef0; [discriminate|].
  destruct (Nat.ltb_spec (length buf) (off + N.to_nat f)); [discriminate|].
  destruct (vf_fullword fl && _) eqn:Efull in Hv; [discriminate|].
  injection Hv as -> ->.
  unfold forward_and_key in Efk. rewrite Hfits in Efk. injection Efk as Ef Ekey. subst fwd.
  assert (Hnl : nlen s <> 0) by now apply nlen_pos.
  assert (Hknc : m_nocase m = true -> k = 0).
  { intros Hn. unfold key_ok in Hk. destruct (m_xor m) as [[lo hi]|] eqn:Emx; [|exact Hk].
    rewrite Ex in Hxn. specialize (Hxn eq_refl). congruence. }
  unfold occs_at. fold data.
  destruct s as [|p0 s']; [congruence|]. set (s := p0 :: s') in *.
  destruct data as [|d0 data'] eqn:Ed.
  { exfalso. assert (L : length data = 0%nat) by (rewrite Ed; reflexivity). unfold data in L. rewrite skipn_length in L. lia. }
  rewrite <- Ed in *.
  apply in_or_app. destruct (in_renderings _ _ _ Hr) as [[-> Hasc]|[-> Hwide]].
  - (* the atom is the whole ascii rendering *)
    left. subst bt. rewrite <- Hdata in F.
    assert (M : match_ascii (m_nocase m) k s data = true) by (apply match_ascii_of_forall2; assumption).
    assert (Hkey : key = k /\ In k (keys_of m d0 p0)).
    { unfold keys_of, key_ok in *. destruct (m_xor m) as [[lo hi]|] eqn:Emx.
      - rewrite Ex in *. specialize (Hxn eq_refl). rewrite <- En, Hxn in M.
        pose proof (match_ascii_first_key _ _ _ Hs M) as Hfk.
        rewrite <- Hfk in M. rewrite (c_xor_compare_complete _ _ M) in Ekey. cbn [fst snd] in Ekey. rewrite Hasc in Ekey.
        replace (nlen s =? 0) with false in Ekey by (symmetry; now apply N.eqb_neq). cbn [andb negb] in Ekey.
        split; [congruence|]. rewrite Ed in Hfk. unfold s in Hfk. cbn [first_key] in Hfk. rewrite Hfk.
        destruct Hk as [K1 K2]. apply N.leb_le in K1, K2. rewrite K1, K2. now left.
      - rewrite Ex in Ekey. split; [congruence|]. subst k. now left. }
    destruct Hkey as [-> Hkin].
    rewrite <- Ea, Hasc. apply in_flat_map. exists k. split; [exact Hkin|]. rewrite M. cbn [andb].
    replace (nlen s =? 2 * nlen s) with false in Efull by (symmetry; apply N.eqb_neq; lia).
    rewrite nlen_to_nat in Efull. rewrite <- Efw.
    destruct (vf_fullword fl); cbn [andb negb orb] in *.
    + apply negb_false_iff in Efull. rewrite Efull. now left.
    + now left.
  - (* the atom is the whole wide rendering *)
    right. subst bt. rewrite <- Hdata in F. rewrite nlen_widen in *.
    assert (M : match_wide (m_nocase m) k s data = true).
    { apply match_wide_of_forall2; try assumption. now apply all_bytes_skipn. }
    assert (Hkey : key = k /\ In k (keys_of m d0 p0)).
    { unfold keys_of, key_ok in *. destruct (m_xor m) as [[lo hi]|] eqn:Emx.
      - rewrite Ex in *. specialize (Hxn eq_refl). rewrite <- En, Hxn in M.
        pose proof (match_wide_first_key _ _ _ Hs M) as Hfk.
        rewrite <- Hfk in M. rewrite (c_xor_wcompare_complete _ _ M) in Ekey. cbn [fst snd] in Ekey. rewrite Hwide in Ekey.
        replace (2 * nlen s =? 0) with false in Ekey by (symmetry; apply N.eqb_neq; lia). cbn [andb negb] in Ekey.
        assert (key = k).
        { destruct (vf_ascii fl); cbn [andb] in Ekey; [|congruence].
          unfold c_xor_compare in Ekey. destruct (length data <? length s)%nat; cbn [fst snd N.eqb negb] in Ekey; [congruence|].
          destruct (match_ascii false (first_key data s) s data); cbn [fst snd N.eqb negb] in Ekey; [|congruence].
          replace (nlen s =? 0) with false in Ekey by (symmetry; now apply N.eqb_neq). cbn [negb] in Ekey. congruence. }
        split; [assumption|]. rewrite Ed in Hfk. unfold s in Hfk. cbn [first_key] in Hfk. rewrite Hfk.
        destruct Hk as [K1 K2]. apply N.leb_le in K1, K2. rewrite K1, K2. now left.
      - rewrite Ex in Ekey. split; [congruence|]. subst k. now left. }
    destruct Hkey as [-> Hkin].
    rewrite <- Ew, Hwide. apply in_flat_map. exists k. split; [exact Hkin|]. rewrite M. cbn [andb].
    rewrite N.eqb_refl in Efull.
    replace (N.to_nat (2 * nlen s)) with (2 * length s)%nat in Efull by (unfold nlen; lia). rewrite <- Efw.
    destruct (vf_fullword fl); cbn [andb negb orb] in *.
    + apply negb_false_iff in Efull. rewrite Efull. now left.
    + now left.
Qed.

(* ------------------------------------------------------------------ the match list *)
Definition insert_all (evs acc : list (nat * (N * N))) : list (nat * (N * N)) :=
  fold_left (fun acc e => add_match e acc) evs acc.

Lemma add_match_in x e l : In x (add_match e l) -> x = e \/ In x l.
Proof.
  induction l as [|y r IH]; cbn [add_match]; [intros [<-|[]]; now left|].
  destruct (fst e <? fst y)%nat; [intros [<-|H]; [now left|now right]|].
  destruct (fst e =? fst y)%nat; [now right|].
  intros [<-|H]; [right; now left|]. destruct (IH H) as [->|H']; [now left|right; now right].
Qed.

Lemma add_match_keeps x e l : In x l -> In x (add_match e l).
Proof.
  induction l as [|y r IH]; cbn [add_match]; [intros []|].
  destruct (fst e <? fst y)%nat; [now right|]. destruct (fst e =? fst y)%nat; [auto|].
  intros [<-|H]; [now left|right; now apply IH].
Qed.

Lemma add_match_offset e l : exists x, In x (add_match e l) /\ fst x = fst e.
Proof.
  induction l as [|y r IH]; cbn [add_match]; [exists e; split; [now left|reflexivity]|].
  destruct (fst e <? fst y)%nat; [exists e; split; [now left|reflexivity]|].
  destruct (Nat.eqb_spec (fst e) (fst y)) as [E|E]; [exists y; split; [now left|now symmetry]|].
  destruct IH as [x [Hx E']]. exists x. split; [now right|exact E'].
Qed.

Lemma add_match_sorted e l : StronglySorted lt (map fst l) -> StronglySorted lt (map fst (add_match e l)).
Proof.
  induction l as [|y r IH]; intros Hs; cbn [add_match map]; [repeat constructor|].
  cbn [map] in Hs. inversion Hs as [|? ? Hs' Hf]; subst.
  destruct (Nat.ltb_spec (fst e) (fst y)) as [Hlt|Hge].
  - cbn [map]. constructor; [exact Hs|]. constructor; [exact Hlt|]. eapply Forall_impl; [|exact Hf]. intros z Hz. lia.
  - destruct (Nat.eqb_spec (fst e) (fst y)) as [E|E]; [exact Hs|].
    cbn [map]. constructor; [now apply IH|]. apply Forall_forall. intros z Hz.
    apply in_map_iff in Hz as [x [<- Hx]]. destruct (add_match_in _ _ _ Hx) as [->|Hx']; [lia|].
    rewrite Forall_forall in Hf. apply Hf. now apply in_map.
Qed.

Lemma insert_all_in evs : forall acc x, In x (insert_all evs acc) -> In x evs \/ In x acc.
Proof.
  induction evs as [|e evs IH]; intros acc x H; [now right|]. cbn [insert_all fold_left] in H.
  destruct (IH _ _ H) as [H'|H']; [left; now right|]. destruct (add_match_in _ _ _ H') as [->|H'']; [left; now left|now right].
Qed.

Lemma insert_all_keeps evs : forall acc x, In x acc -> In x (insert_all evs acc).
Proof. induction evs as [|e evs IH]; intros acc x H; [exact H|]. cbn [insert_all fold_left]. apply IH. now apply add_match_keeps. Qed.

Lemma insert_all_offset evs : forall acc e, In e evs -> exists x, In x (insert_all evs acc) /\ fst x = fst e.
Proof.
  induction evs as [|e' evs IH]; intros acc e H; [destruct H|]. cbn [insert_all fold_left]. destruct H as [->|H].
  - destruct (add_match_offset e acc) as [x [Hx E]]. exists x. split; [now apply insert_all_keeps|exact E].
  - now apply IH.
Qed.

Lemma insert_all_sorted evs : forall acc, StronglySorted lt (map fst acc) -> StronglySorted lt (map fst (insert_all evs acc)).
Proof. induction evs as [|e evs IH]; intros acc H; [exact H|]. cbn [insert_all fold_left]. apply IH. now apply add_match_sorted. Qed.

Lemma insert_all_app a b acc : insert_all (a ++ b) acc = insert_all b (insert_all a acc).
Proof. unfold insert_all. apply fold_left_app. Qed.

(* the verifications of one position / of the whole scan as a list of events in the order of the scan *)
Definition event_of (cr : crules) (sidx : N) (fl : vflags) (s : bytes) (fixed : option N) (buf : bytes) (i : nat) (mu : N)
  : list (nat * (N * N)) :=
  let am := pool_at cr mu in
  if am_string am =? sidx then
    let off := (i - N.to_nat (am_backtrack am))%nat in
    match verify_literal fl s (am_backtrack am) fixed buf off with Some lk => [(off, lk)] | None => [] end
  else [].

Definition events_at cr sidx fl s fixed buf i := flat_map (event_of cr sidx fl s fixed buf i) (hits_at cr buf i).

Lemma verify_hits_events cr sidx fl s fixed buf i acc :
  verify_hits cr sidx fl s fixed buf i acc = insert_all (events_at cr sidx fl s fixed buf i) acc.
Proof.
  unfold verify_hits, events_at. generalize (hits_at cr buf i) as l. intros l. revert acc.
  induction l as [|mu l IH]; intros acc; [reflexivity|].
  cbn [fold_left flat_map]. rewrite insert_all_app, IH. f_equal.
  unfold event_of. destruct (am_string (pool_at cr mu) =? sidx); [|reflexivity].
  destruct (verify_literal _ _ _ _ _ _); reflexivity.
Qed.

Lemma scan_string_events cr sidx fl s fixed buf :
  scan_string cr sidx fl s fixed buf = insert_all (flat_map (events_at cr sidx fl s fixed buf) (seq 0 (S (length buf)))) [].
Proof.
  unfold scan_string. generalize (seq 0 (S (length buf))) as l. generalize (@nil (nat * (N * N))) as acc.
  intros acc l. revert acc. induction l as [|i l IH]; intros acc; [reflexivity|].
  cbn [fold_left flat_map]. rewrite insert_all_app, IH. f_equal. apply verify_hits_events.
Qed.

Lemma in_scan_events cr sidx fl s fixed buf o lk :
  In (o, lk) (flat_map (events_at cr sidx fl s fixed buf) (seq 0 (S (length buf)))) <->
  exists i mu, (i <= length buf)%nat /\ In mu (hits_at cr buf i) /\ am_string (pool_at cr mu) = sidx /\
               o = (i - N.to_nat (am_backtrack (pool_at cr mu)))%nat /\
               verify_literal fl s (am_backtrack (pool_at cr mu)) fixed buf o = Some lk.
Proof.
  rewrite in_flat_map. split.
  - intros [i [Hi H]]. apply in_seq in Hi. unfold events_at in H. apply in_flat_map in H as [mu [Hmu H]].
    unfold event_of in H. destruct (N.eqb_spec (am_string (pool_at cr mu)) sidx) as [E|E]; [|destruct H].
    destruct (verify_literal _ _ _ _ _ _) as [lk'|] eqn:Ev; [|destruct H]. destruct H as [H|[]]. injection H as <- <-.
    exists i, mu. repeat split; try assumption; lia.
  - intros [i [mu [Hi [Hmu [E [-> Hv]]]]]]. exists i. split; [apply in_seq; lia|].
    unfold events_at. apply in_flat_map. exists mu. split; [exact Hmu|]. unfold event_of. rewrite E, N.eqb_refl, Hv. now left.
Qed.

(* ------------------------------------------------------------------ the scan of one string: ascending and sound *)
Theorem scan_string_sorted_proof cr sidx fl s fixed buf :
  StronglySorted lt (map fst (scan_string cr sidx fl s fixed buf)).
Proof. rewrite scan_string_events. apply insert_all_sorted. constructor. Qed.

Lemma text_certs_inv cr sidx fl s m : text_certs cr sidx fl s m = true ->
  flags_agree fl m = true /\ legal m = true /\ all_bytes s = true /\ s <> [] /\
  (vf_fits fl = true -> fits_ok fl s m (atoms_of cr sidx) = true) /\
  (vf_fits fl = false -> xor_keys_ok fl s m (atoms_of cr sidx) = true).
Proof.
  unfold text_certs, text_certs_on. intros H. apply andb_true_iff in H as [H Hc]. apply andb_true_iff in H as [H Hne].
  apply andb_true_iff in H as [H Hb]. apply andb_true_iff in H as [Ha Hl].
  repeat split; try assumption.
  - destruct s; [discriminate|congruence].
  - intros E. now rewrite E in Hc.
  - intros E. now rewrite E in Hc.
Qed.

Theorem scan_string_sound_proof cr sidx fl s m buf o len key :
  ac_cert cr = true -> all_bytes buf = true -> text_certs cr sidx fl s m = true ->
  In (o, (len, key)) (scan_string cr sidx fl s None buf) -> In (len, key) (occs_at s m buf o).
Proof.
  intros Hc Hb Ht Hin. destruct (text_certs_inv _ _ _ _ _ Ht) as [Ha [Hl [Hsb [Hs [Hfit Hxor]]]]].
  rewrite scan_string_events in Hin. apply insert_all_in in Hin as [Hin|[]].
  apply in_scan_events in Hin as [i [mu [Hi [Hmu [E [Ho Hv]]]]]].
  destruct (hit_atom cr buf i mu Hc Hb Hi Hmu) as [v [Hat [Hends Hbt]]]. rewrite E in Hat.
  set (bt := am_backtrack (pool_at cr mu)) in *.
  assert (Ei : i = (o + N.to_nat bt)%nat) by lia. rewrite Ei in Hends.
  destruct (vf_fits fl) eqn:Ef.
  - apply (verify_fits_sound fl s m (atoms_of cr sidx) v bt buf o len key); auto.
  - apply (verify_nonfits_sound fl s m bt buf o len key); auto.
    intros lo hi Emx. apply (xor_side_condition fl s m (atoms_of cr sidx) v bt buf o len key lo hi); auto.
Qed.

(* ------------------------------------------------------------------ completeness of the verification *)
Lemma lxor_self_zero p k : k = N.lxor p k -> p = 0.
Proof.
  intros H. assert (E : N.lxor (N.lxor p k) k = N.lxor k k) by congruence.
  rewrite N.lxor_assoc, N.lxor_nilpotent, N.lxor_0_r in E. exact E.
Qed.

Lemma lxor_cancel p a b : N.lxor p a = N.lxor p b -> a = b.
Proof.
  intros H. assert (E : N.lxor p (N.lxor p a) = N.lxor p (N.lxor p b)) by congruence.
  now rewrite <- !N.lxor_assoc, N.lxor_nilpotent, !N.lxor_0_l in E.
Qed.

(* a string without NUL bytes of at least two characters cannot occur in its ascii and in its wide form at one place *)
Lemma no_both nc k1 k2 s data :
  nonul s = true -> (2 <= length s)%nat -> all_bytes s = true -> (nc = true -> k1 = 0 /\ k2 = 0) ->
  match_ascii nc k1 s data = true -> match_wide nc k2 s data = true -> False.
Proof.
  intros Hn L Hb Hk Ma Mw. destruct s as [|p0 [|p1 s']]; try (cbn in L; lia).
  destruct data as [|d0 [|d1 data']]; try discriminate.
  cbn [match_ascii match_wide] in Ma, Mw.
  apply andb_true_iff in Ma as [A0 Ma]. apply andb_true_iff in Ma as [A1 _].
  apply andb_true_iff in Mw as [W0 _]. apply andb_true_iff in W0 as [W0 Z].
  apply N.eqb_eq in Z. subst d1.
  cbn [nonul forallb] in Hn. apply andb_true_iff in Hn as [_ Hn]. apply andb_true_iff in Hn as [Hp1 _].
  apply negb_true_iff in Hp1. apply N.eqb_neq in Hp1. apply Hp1.
  cbn [all_bytes forallb] in Hb. apply andb_true_iff in Hb as [_ Hb]. apply andb_true_iff in Hb as [B1 _].
  unfold is_byte in B1. apply N.ltb_lt in B1.
  unfold byte_eq in *. destruct nc.
  - destruct (Hk eq_refl) as [-> ->]. rewrite N.lxor_0_r in A1. apply N.eqb_eq in A1.
    apply lower_zero; [exact B1|]. rewrite <- A1. reflexivity.
  - apply N.eqb_eq in A0, A1, W0. rewrite A0 in W0. apply lxor_cancel in W0. rewrite <- W0 in A1. now apply lxor_self_zero in A1.
Qed.

Lemma keys_of_key m d0 p0 k : In k (keys_of m d0 p0) -> (m_xor m = None /\ k = 0) \/ (exists lo hi, m_xor m = Some (lo, hi) /\ k = N.lxor d0 p0).
Proof.
  unfold keys_of. destruct (m_xor m) as [[lo hi]|].
  - destruct (_ && _); [|intros []]. intros [<-|[]]. right. eauto.
  - intros [<-|[]]. now left.
Qed.

Lemma verify_nonfits_complete fl s m bt buf o lk :
  flags_agree fl m = true -> legal m = true -> s <> [] -> all_bytes s = true -> vf_fits fl = false ->
  (vf_wide fl = true -> (2 <= length s)%nat) ->
  (vf_wide fl && (vf_ascii fl || vf_xor fl) = true -> nonul s = true) ->
  In lk (occs_at s m buf o) -> exists lk', verify_literal fl s bt None buf o = Some lk'.
Proof.
  intros Ha Hl Hs Hsb Hfits Hw2 Hnn Hin.
  pose proof (legal_xor_nocase _ _ Ha Hl) as Hxn.
  destruct (flags_agree_inv _ _ Ha) as [Ea [Ew [En [Efw Ex]]]].
  assert (Ho : (o < length buf)%nat).
  { destruct (Nat.lt_ge_cases o (length buf)) as [|Hge]; [assumption|]. rewrite occs_at_past_end in Hin by lia. destruct Hin. }
  assert (Hnl : nlen s <> 0) by now apply nlen_pos.
  unfold occs_at in Hin. set (data := skipn o buf) in *.
  destruct s as [|p0 s']; [congruence|]. set (s := p0 :: s') in *.
  destruct data as [|d0 data'] eqn:Ed; [destruct Hin|]. rewrite <- Ed in *.
  (* what the comparison functions answer, by cases on the occurrence *)
  assert (Hfk : exists key, (forward_and_key fl s bt data = (nlen s, key) /\ (length s <= length data)%nat /\
                             (negb (m_fullword m) || fullword_ascii buf o (length s)) = true) \/
                            (forward_and_key fl s bt data = (2 * nlen s, key) /\ (2 * length s <= length data)%nat /\
                             (negb (m_fullword m) || fullword_wide buf o (2 * length s)) = true)).
  { unfold forward_and_key. rewrite Hfits.
    apply in_app_or in Hin as [Hin|Hin].
    - (* an ascii occurrence *)
      destruct (m_ascii m || negb (m_wide m)) eqn:Easc; [|destruct Hin].
      apply in_flat_map in Hin as [k [Hk Hin]].
      destruct (match_ascii (m_nocase m) k s data && _) eqn:Em; [|destruct Hin].
      apply andb_true_iff in Em as [M Hfull]. rewrite <- En in M.
      destruct (match_ascii_forall2 _ _ _ _ M) as [L _].
      assert (Hexcl : forall k', (vf_nocase fl = true -> k' = 0) -> match_wide (vf_nocase fl) k' s data = true -> vf_wide fl = false).
      { intros k' Hk' Mw. destruct (vf_wide fl) eqn:Ewd; [|reflexivity]. exfalso.
        assert (Hk0 : vf_nocase fl = true -> k = 0).
        { intros Hn. destruct (keys_of_key _ _ _ _ Hk) as [[_ ->]|[lo [hi [Emx _]]]]; [reflexivity|].
          rewrite Emx in Ex. specialize (Hxn Ex). congruence. }
        apply (no_both (vf_nocase fl) k k' s data); auto.
        apply Hnn. rewrite Ea. reflexivity. }
      rewrite Ea. destruct (vf_nocase fl) eqn:Enc.
      + assert (k = 0).
        { destruct (keys_of_key _ _ _ _ Hk) as [[_ ->]|[lo [hi [Emx _]]]]; [reflexivity|]. rewrite Emx in Ex. specialize (Hxn Ex). congruence. }
        subst k. rewrite (c_compare_complete _ _ _ M).
        replace (nlen s =? 0) with false by (symmetry; now apply N.eqb_neq). rewrite andb_false_r.
        exists 0. left. auto.
      + destruct (c_compare false data s =? 0) eqn:E1.
        * apply N.eqb_eq in E1. rewrite E1. rewrite andb_true_r.
          assert (Ewc : (if vf_wide fl then c_wcompare false data s else 0) = 0).
          { destruct (vf_wide fl) eqn:Ewd; [|reflexivity].
            destruct (N.eq_dec (c_wcompare false data s) 0) as [|Hne]; [assumption|].
            destruct (c_wcompare_inv _ _ _ _ eq_refl Hne) as [_ Mw]. pose proof (Hexcl 0 (fun _ => eq_refl) Mw). congruence. }
          rewrite Ewc. cbn [N.eqb]. rewrite andb_true_r.
          destruct (keys_of_key _ _ _ _ Hk) as [[Emx ->]|[lo [hi [Emx Hkk]]]].
          -- (* not a xor string: the plain comparison must have succeeded *)
             rewrite (c_compare_complete _ _ _ M) in E1. congruence.
          -- rewrite Emx in Ex. rewrite Ex.
             assert (Hfk : first_key data s = k) by now apply match_ascii_first_key.
             assert (Exw : fst (if vf_wide fl then c_xor_wcompare data s else (0, 0)) = 0).
             { destruct (vf_wide fl) eqn:Ewd; [|reflexivity].
               destruct (c_xor_wcompare data s) as [fw kw] eqn:Exw. cbn [fst].
               destruct (N.eq_dec fw 0) as [|Hne]; [assumption|].
               destruct (c_xor_wcompare_inv _ _ _ _ Exw Hne) as [_ [_ Mw]]. pose proof (Hexcl kw ltac:(discriminate) Mw). congruence. }
             rewrite Exw. cbn [N.eqb]. rewrite <- Hfk in M. rewrite (c_xor_compare_complete _ _ M).
             exists (first_key data s). left. auto.
        * rewrite andb_false_r. apply N.eqb_neq in E1.
          destruct (c_compare_inv _ _ _ _ eq_refl E1) as [E1' _]. rewrite E1'.
          replace (nlen s =? 0) with false by (symmetry; now apply N.eqb_neq). rewrite andb_false_r.
          exists 0. left. auto.
    - (* a wide occurrence *)
      destruct (m_wide m) eqn:Ewd; [|destruct Hin]. rewrite Ew.
      apply in_flat_map in Hin as [k [Hk Hin]].
      destruct (match_wide (m_nocase m) k s data && _) eqn:Em; [|destruct Hin].
      apply andb_true_iff in Em as [M Hfull]. rewrite <- En in M.
      destruct (match_wide_forall2 _ _ _ _ M) as [L _]. rewrite widen_length in L.
      assert (Hk0 : vf_nocase fl = true -> k = 0).
      { intros Hn. destruct (keys_of_key _ _ _ _ Hk) as [[_ ->]|[lo [hi [Emx _]]]]; [reflexivity|].
        rewrite Emx in Ex. specialize (Hxn Ex). congruence. }
      assert (Hexcl : forall k', (vf_nocase fl = true -> k' = 0) -> match_ascii (vf_nocase fl) k' s data = true ->
                                 vf_ascii fl || vf_xor fl = false).
      { intros k' Hk' Mw. destruct (vf_ascii fl || vf_xor fl) eqn:Eax; [|reflexivity]. exfalso.
        apply (no_both (vf_nocase fl) k' k s data); auto.
        apply Hnn. rewrite Ew. reflexivity. }
      assert (Ef1 : forall nc, nc = vf_nocase fl -> (if vf_ascii fl then c_compare nc data s else 0) = 0).
      { intros nc ->. destruct (vf_ascii fl) eqn:Easc; [|reflexivity].
        destruct (N.eq_dec (c_compare (vf_nocase fl) data s) 0) as [|Hne]; [assumption|].
        destruct (c_compare_inv _ _ _ _ eq_refl Hne) as [_ Ma]. pose proof (Hexcl 0 (fun _ => eq_refl) Ma). discriminate. }
      destruct (vf_nocase fl) eqn:Enc.
      + rewrite (Ef1 true eq_refl). cbn [N.eqb andb]. rewrite (Hk0 eq_refl) in M.
        rewrite (c_wcompare_complete _ _ _ M). exists 0. right. auto.
      + rewrite (Ef1 false eq_refl). cbn [N.eqb]. rewrite andb_true_r.
        destruct (c_wcompare false data s =? 0) eqn:E2.
        * apply N.eqb_eq in E2. rewrite E2. rewrite andb_true_r.
          destruct (keys_of_key _ _ _ _ Hk) as [[Emx ->]|[lo [hi [Emx Hkk]]]].
          -- rewrite (c_wcompare_complete _ _ _ M) in E2. lia.
          -- rewrite Emx in Ex. rewrite Ex.
             assert (Hfk : first_key data s = k) by now apply match_wide_first_key.
             rewrite <- Hfk in M. rewrite (c_xor_wcompare_complete _ _ M). cbn [fst].
             replace (2 * nlen s =? 0) with false by (symmetry; apply N.eqb_neq; lia).
             exists (first_key data s). right. auto.
        * apply N.eqb_neq in E2. destruct (c_wcompare_inv _ _ _ _ eq_refl E2) as [E2' _]. rewrite E2'.
          replace (2 * nlen s =? 0) with false by (symmetry; apply N.eqb_neq; lia). rewrite andb_false_r.
          exists 0. right. auto. }
  destruct Hfk as [key [[Efk [L Hfull]]|[Efk [L Hfull]]]].
  - exists (nlen s, key). unfold verify_literal.
    destruct (Nat.leb_spec (length buf) o); [lia|]. fold data. rewrite Efk. cbn [fst].
    replace (nlen s =? 0) with false by (symmetry; now apply N.eqb_neq).
    rewrite nlen_to_nat. unfold data in L. rewrite skipn_length in L.
    destruct (Nat.ltb_spec (length buf) (o + length s)); [lia|].
    replace (nlen s =? 2 * nlen s) with false by (symmetry; apply N.eqb_neq; lia).
    rewrite Efw. destruct (m_fullword m); cbn [negb orb andb] in *; [rewrite Hfull|]; reflexivity.
  - exists (2 * nlen s, key). unfold verify_literal.
    destruct (Nat.leb_spec (length buf) o); [lia|]. fold data. rewrite Efk. cbn [fst].
    replace (2 * nlen s =? 0) with false by (symmetry; apply N.eqb_neq; lia).
    replace (N.to_nat (2 * nlen s)) with (2 * length s)%nat by (unfold nlen; lia).
    unfold data in L. rewrite skipn_length in L.
    destruct (Nat.ltb_spec (length buf) (o + 2 * length s)); [lia|].
    rewrite N.eqb_refl.
    rewrite Efw. destruct (m_fullword m); cbn [negb orb andb] in *; [rewrite Hfull|]; reflexivity.
Qed.

Lemma slice_whole {A} (l : list A) : slice l 0 (length l) = l.
Proof. unfold slice. cbn [skipn]. apply firstn_all. Qed.

Lemma all_bytes_widen s : all_bytes s = true -> all_bytes (widen s) = true.
Proof.
  induction s as [|c r IH]; intros H; [reflexivity|].
  cbn [all_bytes forallb] in H. apply andb_true_iff in H as [H1 H2].
  cbn [widen flat_map app all_bytes forallb]. rewrite H1. cbn. apply IH. exact H2.
Qed.

(* a whole rendering r occurring at o (related to the data by key k) is an atom of a FITS_IN_ATOM string *)
Lemma fits_rendering_atom fl s m atoms r buf o k :
  legal m = true -> all_bytes buf = true -> all_bytes r = true -> r <> [] ->
  fits_ok fl s m atoms = true -> In r (renderings fl s) -> key_ok m k ->
  (length r <= length (skipn o buf))%nat -> Forall2 (Rr (m_nocase m) k) (firstn (length r) (skipn o buf)) r ->
  In (firstn (length r) (skipn o buf), nlen r) atoms /\
  atom_ends_at (firstn (length r) (skipn o buf)) buf (o + N.to_nat (nlen r)).
Proof.
  intros Hl Hb Hrb Hne Hfo Hr Hk L F. unfold fits_ok in Hfo. apply andb_true_iff in Hfo as [_ Hfo].
  rewrite forallb_forall in Hfo. specialize (Hfo _ Hr). unfold window_covered in Hfo.
  apply andb_true_iff in Hfo as [_ Hall]. rewrite slice_whole in Hall. rewrite forallb_forall in Hall.
  set (dwin := firstn (length r) (skipn o buf)) in *.
  assert (Hin : In dwin (window_variants m r)).
  { apply (window_in_variants m k); try assumption. unfold dwin. apply all_bytes_firstn. now apply all_bytes_skipn. }
  specialize (Hall _ Hin). apply has_atom_in in Hall. cbn [plus] in Hall. split; [exact Hall|].
  assert (Ld : length dwin = length r) by (unfold dwin; rewrite firstn_length_le; [reflexivity|exact L]).
  assert (Hrl : length r <> 0%nat) by (destruct r; [congruence|cbn; lia]).
  rewrite skipn_length in L. rewrite nlen_to_nat. unfold atom_ends_at. rewrite Ld. repeat split; try lia.
  replace (o + length r - length r)%nat with o by lia. reflexivity.
Qed.

Lemma verify_fits_complete fl s m atoms buf o lk :
  flags_agree fl m = true -> legal m = true -> s <> [] -> all_bytes s = true -> all_bytes buf = true ->
  vf_fits fl = true -> fits_ok fl s m atoms = true ->
  In lk (occs_at s m buf o) ->
  exists v bt lk', In (v, bt) atoms /\ atom_ends_at v buf (o + N.to_nat bt) /\ verify_literal fl s bt None buf o = Some lk'.
Proof.
  intros Ha Hl Hs Hsb Hb Hfits Hfo Hin.
  destruct (flags_agree_inv _ _ Ha) as [Ea [Ew [En [Efw Ex]]]].
  assert (Ho : (o < length buf)%nat).
  { destruct (Nat.lt_ge_cases o (length buf)) as [|Hge]; [assumption|]. rewrite occs_at_past_end in Hin by lia. destruct Hin. }
  assert (Hnl : nlen s <> 0) by now apply nlen_pos.
  unfold occs_at in Hin. set (data := skipn o buf) in *.
  destruct s as [|p0 s']; [congruence|]. set (s := p0 :: s') in *.
  destruct data as [|d0 data'] eqn:Ed; [destruct Hin|]. rewrite <- Ed in *.
  apply in_app_or in Hin as [Hin|Hin].
  - destruct (m_ascii m || negb (m_wide m)) eqn:Easc; [|destruct Hin].
    apply in_flat_map in Hin as [k [Hk Hin]].
    destruct (match_ascii (m_nocase m) k s data && _) eqn:Em; [|destruct Hin].
    apply andb_true_iff in Em as [M Hfull].
    destruct (match_ascii_forall2 _ _ _ _ M) as [L F].
    assert (Hr : In s (renderings fl s)) by (unfold renderings; rewrite Ea; now left).
    destruct (fits_rendering_atom fl s m atoms s buf o k Hl Hb Hsb Hs Hfo Hr (keys_of_ok _ _ _ _ Hk) L F) as [Hat Hends].
    exists (firstn (length s) data), (nlen s).
    eexists. split; [exact Hat|]. split; [exact Hends|].
    unfold verify_literal. destruct (Nat.leb_spec (length buf) o); [lia|]. fold data.
    unfold forward_and_key. rewrite Hfits. cbn [fst].
    replace (nlen s =? 0) with false by (symmetry; now apply N.eqb_neq).
    rewrite nlen_to_nat. unfold data in L. rewrite skipn_length in L.
    destruct (Nat.ltb_spec (length buf) (o + length s)); [lia|].
    replace (nlen s =? 2 * nlen s) with false by (symmetry; apply N.eqb_neq; lia).
    rewrite Efw. destruct (m_fullword m); cbn [negb orb andb] in *; [rewrite Hfull|]; reflexivity.
  - destruct (m_wide m) eqn:Ewd; [|destruct Hin].
    apply in_flat_map in Hin as [k [Hk Hin]].
    destruct (match_wide (m_nocase m) k s data && _) eqn:Em; [|destruct Hin].
    apply andb_true_iff in Em as [M Hfull].
    destruct (match_wide_forall2 _ _ _ _ M) as [L F].
    assert (Hr : In (widen s) (renderings fl s)) by (unfold renderings; rewrite Ew; apply in_or_app; right; now left).
    assert (Hwne : widen s <> []) by (unfold s; cbn; discriminate).
    destruct (fits_rendering_atom fl s m atoms (widen s) buf o k Hl Hb (all_bytes_widen _ Hsb) Hwne Hfo Hr (keys_of_ok _ _ _ _ Hk) L F) as [Hat Hends].
    exists (firstn (length (widen s)) data), (nlen (widen s)).
    eexists. split; [exact Hat|]. split; [exact Hends|].
    unfold verify_literal. destruct (Nat.leb_spec (length buf) o); [lia|]. fold data.
    unfold forward_and_key. rewrite Hfits. cbn [fst]. rewrite nlen_widen.
    replace (2 * nlen s =? 0) with false by (symmetry; apply N.eqb_neq; lia).
    replace (N.to_nat (2 * nlen s)) with (2 * length s)%nat by (unfold nlen; lia).
    rewrite widen_length in L. unfold data in L. rewrite skipn_length in L.
    destruct (Nat.ltb_spec (length buf) (o + 2 * length s)); [lia|].
    rewrite N.eqb_refl.
    rewrite Efw. destruct (m_fullword m); cbn [negb orb andb] in *; [rewrite Hfull|]; reflexivity.
Qed.

(* ------------------------------------------------------------------ the scan of one string is complete *)
Theorem scan_string_complete_proof cr sidx fl s m buf o lk :
  ac_cert cr = true -> all_bytes buf = true -> text_certs cr sidx fl s m = true -> complete_certs cr sidx fl s m = true ->
  In lk (occs_at s m buf o) -> exists lk', In (o, lk') (scan_string cr sidx fl s None buf).
Proof.
  intros Hc Hb Ht Hcc Hin. destruct (text_certs_inv _ _ _ _ _ Ht) as [Ha [Hl [Hsb [Hs [Hfit Hxor]]]]].
  unfold complete_certs, complete_certs_on in Hcc. apply andb_true_iff in Hcc as [Hcc Hnn]. apply andb_true_iff in Hcc as [Hcov Hff].
  assert (Hcand : exists v bt lk', In (v, bt) (atoms_of cr sidx) /\ atom_ends_at v buf (o + N.to_nat bt) /\
                                   verify_literal fl s bt None buf o = Some lk').
  { destruct (vf_fits fl) eqn:Ef.
    - apply (verify_fits_complete fl s m (atoms_of cr sidx) buf o lk); auto.
    - destruct (candidates_complete_proof s m (atoms_of cr sidx) buf o lk Hl Hsb Hb Hcov Hin) as [v [bt [Hat Hends]]].
      assert (Hw2 : vf_wide fl = true -> (2 <= length s)%nat).
      { intros Hw. unfold fits_flag_ok in Hff. rewrite Ef, Hw in Hff. apply Bool.eqb_prop in Hff. symmetry in Hff.
        apply Nat.leb_gt in Hff. change (Z.to_nat YR_MAX_ATOM_LENGTH) with 4%nat in Hff. lia. }
      destruct (verify_nonfits_complete fl s m bt buf o lk Ha Hl Hs Hsb Ef Hw2) as [lk' Hv]; [|exact Hin|].
      + intros Hn. now rewrite Hn in Hnn.
      + exists v, bt, lk'. auto. }
  destruct Hcand as [v [bt [lk' [Hat [Hends Hv]]]]].
  destruct (atoms_of_owns _ _ _ _ Hat) as [mu [Ho [Hsx Hbt]]].
  assert (Hhit : In mu (hits_at cr buf (o + N.to_nat bt))).
  { apply (ac_reports_all_and_only_proof cr Hc); [exact Hb|]. split.
    - exists v. split; [now apply atom_ends_suffix|exact Ho].
    - rewrite Hbt. lia. }
  assert (Hev : In (o, lk') (flat_map (events_at cr sidx fl s None buf) (seq 0 (S (length buf))))).
  { apply in_scan_events. exists (o + N.to_nat bt)%nat, mu. rewrite Hbt.
    destruct Hends as [_ [_ Hi]]. repeat split; try assumption. lia. }
  rewrite scan_string_events. destruct (insert_all_offset _ [] _ Hev) as [[o' lk''] [Hx E]]. cbn [fst] in E. subst o'.
  exists lk''. exact Hx.
Qed.

(* ------------------------------------------------------------------ the incremental scan is the same scan *)
Lemma firstn_snoc (buf : bytes) i b r : skipn i buf = b :: r -> firstn (S i) buf = firstn i buf ++ [b].
Proof.
  revert buf. induction i as [|i IH]; intros buf H.
  - destruct buf; cbn in H; [discriminate|]. inversion H; subst. reflexivity.
  - destruct buf as [|x buf]; [discriminate|]. cbn [skipn] in H. specialize (IH _ H).
    change (x :: firstn (S i) buf = (x :: firstn i buf) ++ [b]). rewrite IH. reflexivity.
Qed.

Lemma scan_inc_eq cr sidx fl s fixed buf : forall rest i acc,
  skipn i buf = rest -> (i <= length buf)%nat ->
  scan_inc cr sidx fl s fixed buf (ac_run cr (firstn i buf)) i rest acc =
  fold_left (fun acc i => verify_hits cr sidx fl s fixed buf i acc) (seq i (S (length rest))) acc.
Proof.
  induction rest as [|b r IH]; intros i acc Hsk Hi.
  - cbn [scan_inc length seq fold_left]. unfold verify_state_hits, verify_hits, hits_at. reflexivity.
  - cbn [scan_inc length]. change (seq i (S (S (length r)))) with (i :: seq (S i) (S (length r))). cbn [fold_left].
    assert (Hacc : verify_state_hits cr sidx fl s fixed buf (ac_run cr (firstn i buf)) i acc = verify_hits cr sidx fl s fixed buf i acc)
      by (unfold verify_state_hits, verify_hits, hits_at; reflexivity).
    rewrite Hacc.
    assert (Hstep : match ac_run cr (firstn i buf) with Some q' => ac_step cr q' b | None => None end = ac_run cr (firstn (S i) buf)).
    { rewrite (firstn_snoc buf i b r Hsk). unfold ac_run. rewrite ac_run_from_app.
      destruct (ac_run_from cr 0 (firstn i buf)) as [q'|]; [|reflexivity]. cbn [ac_run_from]. destruct (ac_step cr q' b); reflexivity. }
    rewrite Hstep. apply IH.
    + replace (S i) with (i + 1)%nat by lia. rewrite <- skipn_skipn'. rewrite Hsk. reflexivity.
    + assert (L : length (skipn i buf) = S (length r)) by (rewrite Hsk; reflexivity). rewrite skipn_length in L. lia.
Qed.

Theorem scan_string_inc_eq cr sidx fl s fixed buf :
  scan_string_inc cr sidx fl s fixed buf = scan_string cr sidx fl s fixed buf.
Proof.
  unfold scan_string_inc, scan_string. change (Some 0) with (ac_run cr (firstn 0 buf)).
  apply (scan_inc_eq cr sidx fl s fixed buf buf 0 []); [reflexivity|lia].
Qed.

(* ------------------------------------------------------------------ exactly the documented offsets, in order *)
Lemma sorted_same_members (l1 l2 : list nat) :
  StronglySorted lt l1 -> StronglySorted lt l2 -> (forall x, In x l1 <-> In x l2) -> l1 = l2.
Proof.
  revert l2. induction l1 as [|a l1 IH]; intros l2 S1 S2 H.
  - destruct l2 as [|b l2]; [reflexivity|]. exfalso. apply (H b). now left.
  - destruct l2 as [|b l2]; [exfalso; apply (H a); now left|].
    inversion S1 as [|? ? S1' F1]; subst. inversion S2 as [|? ? S2' F2]; subst.
    rewrite Forall_forall in F1, F2.
    assert (a = b).
    { destruct (proj1 (H a) (or_introl eq_refl)) as [->|Ha]; [reflexivity|].
      destruct (proj2 (H b) (or_introl eq_refl)) as [->|Hb]; [reflexivity|].
      specialize (F1 _ Hb). specialize (F2 _ Ha). lia. }
    subst b. f_equal. apply IH; try assumption. intros x. split; intros Hx.
    + destruct (proj1 (H x) (or_intror Hx)) as [<-|Hx']; [|exact Hx']. specialize (F1 _ Hx). lia.
    + destruct (proj2 (H x) (or_intror Hx)) as [<-|Hx']; [|exact Hx']. specialize (F2 _ Hx). lia.
Qed.

Theorem scan_offsets_exact_proof cr sidx fl s m buf :
  ac_cert cr = true -> all_bytes buf = true -> text_certs cr sidx fl s m = true -> complete_certs cr sidx fl s m = true ->
  map fst (scan_string cr sidx fl s None buf) = map fst (text_matches s m buf).
Proof.
  intros Hc Hb Ht Hcc. apply sorted_same_members.
  - apply scan_string_sorted_proof.
  - apply (proj1 (text_matches_exact_proof s m buf)).
  - intros o. rewrite !in_map_iff. split.
    + intros [[o' [len key]] [E Hin]]. cbn [fst] in E. subst o'.
      pose proof (scan_string_sound_proof _ _ _ _ _ _ _ _ _ Hc Hb Ht Hin) as Hocc.
      apply (proj2 (text_matches_exact_proof s m buf)) in Hocc as [l [Hl _]]. exists (o, l). split; [reflexivity|exact Hl].
    + intros [[o' l] [E Hin]]. cbn [fst] in E. subst o'.
      assert (Hne : exists lk, In lk l).
      { unfold text_matches in Hin. apply filter_In in Hin as [_ Hne]. cbn [snd] in Hne. destruct l as [|lk l]; [discriminate|]. exists lk. now left. }
      destruct Hne as [lk Hlk].
      assert (Hocc : In lk (occs_at s m buf o)).
      { apply (proj2 (text_matches_exact_proof s m buf)). exists l. split; assumption. }
      destruct (scan_string_complete_proof _ _ _ _ _ _ _ _ Hc Hb Ht Hcc Hocc) as [lk' Hx].
      exists (o, lk'). split; [reflexivity|exact Hx].
Qed.

(* the offsets recorded for a string do not depend on the image it was compiled into (other rules, other order, reloaded) *)
Theorem scan_offsets_image_independent_proof cr1 sidx1 fl1 cr2 sidx2 fl2 s m buf :
  ac_cert cr1 = true -> ac_cert cr2 = true -> all_bytes buf = true ->
  text_certs cr1 sidx1 fl1 s m = true -> complete_certs cr1 sidx1 fl1 s m = true ->
  text_certs cr2 sidx2 fl2 s m = true -> complete_certs cr2 sidx2 fl2 s m = true ->
  map fst (scan_string cr1 sidx1 fl1 s None buf) = map fst (scan_string cr2 sidx2 fl2 s None buf).
Proof.
  intros. rewrite (scan_offsets_exact_proof cr1 sidx1 fl1 s m buf), (scan_offsets_exact_proof cr2 sidx2 fl2 s m buf); auto.
Qed.

(* ------------------------------------------------------------------ shortcuts of yr_scan_verify_match (C12) *)
(* fixed offset: a string used only as `$s at K` records exactly the matches at K *)
Lemma verify_literal_fixed fl s bt K buf off :
  verify_literal fl s bt (Some K) buf off = if K =? N.of_nat off then verify_literal fl s bt None buf off else None.
Proof.
  unfold verify_literal. destruct (length buf <=? off)%nat; [now destruct (K =? N.of_nat off)|].
  destruct (K =? N.of_nat off); reflexivity.
Qed.

Definition at_offset (K : N) (x : nat * (N * N)) : bool := K =? N.of_nat (fst x).

Lemma filter_nil {A} (p : A -> bool) l : (forall x, In x l -> p x = false) -> filter p l = [].
Proof. induction l as [|y r IH]; intros H; [reflexivity|]. cbn [filter]. rewrite (H y (or_introl eq_refl)). apply IH. intros x Hx. apply H. now right. Qed.

Lemma add_match_filter K e l : StronglySorted lt (map fst l) ->
  filter (at_offset K) (add_match e l) = if at_offset K e then add_match e (filter (at_offset K) l) else filter (at_offset K) l.
Proof.
  induction l as [|y r IH]; intros Hs.
  - cbn [add_match filter]. destruct (at_offset K e); reflexivity.
  - cbn [map] in Hs. inversion Hs as [|? ? Hs' Hf]; subst. specialize (IH Hs').
    cbn [add_match]. destruct (Nat.ltb_spec (fst e) (fst y)) as [Hlt|Hge].
    + cbn [filter]. destruct (at_offset K e) eqn:Ee; [|reflexivity].
      destruct (at_offset K y) eqn:Ey.
      * unfold at_offset in *. apply N.eqb_eq in Ee, Ey. lia.
      * (* everything kept from r is at K too, hence equal to e's offset: impossible after y > e ... but the list may hold K later *)
        assert (Hr : filter (at_offset K) r = []).
        { apply filter_nil. intros x Hx. rewrite Forall_forall in Hf. specialize (Hf (fst x) (in_map fst _ _ Hx)).
          unfold at_offset in *. apply N.eqb_eq in Ee. apply N.eqb_neq. lia. }
        rewrite Hr. reflexivity.
    + destruct (Nat.eqb_spec (fst e) (fst y)) as [E|E].
      * cbn [filter]. destruct (at_offset K e) eqn:Ee.
        -- assert (Ey : at_offset K y = true) by (unfold at_offset in *; now rewrite <- E). rewrite Ey.
           cbn [add_match]. rewrite E, Nat.ltb_irrefl, Nat.eqb_refl. reflexivity.
        -- reflexivity.
      * cbn [filter]. rewrite IH. destruct (at_offset K e) eqn:Ee; destruct (at_offset K y) eqn:Ey; try reflexivity.
        unfold at_offset in *. apply N.eqb_eq in Ee, Ey. lia.
Qed.

Lemma insert_all_filter K evs : forall acc, StronglySorted lt (map fst acc) ->
  insert_all (filter (at_offset K) evs) (filter (at_offset K) acc) = filter (at_offset K) (insert_all evs acc).
Proof.
  induction evs as [|e evs IH]; intros acc Hs; [reflexivity|].
  cbn [insert_all fold_left filter]. fold (insert_all evs (add_match e acc)).
  rewrite <- (IH _ (add_match_sorted e acc Hs)). rewrite (add_match_filter K e acc Hs).
  destruct (at_offset K e); reflexivity.
Qed.

Lemma filter_flat_map {A B} (p : B -> bool) (f : A -> list B) l :
  filter p (flat_map f l) = flat_map (fun x => filter p (f x)) l.
Proof. induction l as [|x l IH]; [reflexivity|]. cbn [flat_map]. rewrite filter_app, IH. reflexivity. Qed.

Lemma event_of_fixed cr sidx fl s K buf i mu :
  event_of cr sidx fl s (Some K) buf i mu = filter (at_offset K) (event_of cr sidx fl s None buf i mu).
Proof.
  unfold event_of. destruct (am_string (pool_at cr mu) =? sidx); [|reflexivity].
  rewrite verify_literal_fixed. set (off := (i - N.to_nat (am_backtrack (pool_at cr mu)))%nat).
  destruct (verify_literal fl s (am_backtrack (pool_at cr mu)) None buf off) as [lk|].
  - cbn [filter]. unfold at_offset. cbn [fst]. destruct (K =? N.of_nat off); reflexivity.
  - destruct (K =? N.of_nat off); reflexivity.
Qed.

(* a string used only as `$s at K`: the scan records exactly the matches at K of the unrestricted scan *)
Theorem fixed_offset_shortcut_exact_proof cr sidx fl s K buf :
  scan_string cr sidx fl s (Some K) buf = filter (at_offset K) (scan_string cr sidx fl s None buf).
Proof.
  rewrite !scan_string_events. rewrite <- (insert_all_filter K _ []) by constructor. cbn [filter]. f_equal.
  rewrite filter_flat_map. apply flat_map_ext. intros i. unfold events_at. rewrite filter_flat_map.
  apply flat_map_ext. intros mu. apply event_of_fixed.
Qed.

(* fast mode, string used only as `$s`: verification stops after the first recorded match; the recorded match is one of
   the unrestricted scan's offsets, and there is one iff the unrestricted scan has one *)
Definition first_event (evs : list (nat * (N * N))) : list (nat * (N * N)) := match evs with [] => [] | e :: _ => [e] end.

Lemma verify_hits_fast_events cr sidx fl s fixed buf i acc :
  verify_hits_fast cr sidx fl s fixed buf i acc =
  match acc with [] => first_event (events_at cr sidx fl s fixed buf i) | _ :: _ => acc end.
Proof.
  unfold verify_hits_fast, events_at. generalize (hits_at cr buf i) as l. intros l. revert acc.
  induction l as [|mu l IH]; intros acc; [destruct acc; reflexivity|].
  cbn [fold_left flat_map]. destruct acc as [|a acc].
  - rewrite IH. unfold event_of at 2. fold (event_of cr sidx fl s fixed buf i mu).
    unfold event_of. destruct (am_string (pool_at cr mu) =? sidx); [|reflexivity].
    destruct (verify_literal _ _ _ _ _ _); reflexivity.
  - rewrite IH. reflexivity.
Qed.

Lemma scan_string_fast_events cr sidx fl s fixed buf :
  scan_string_fast cr sidx fl s fixed buf = first_event (flat_map (events_at cr sidx fl s fixed buf) (seq 0 (S (length buf)))).
Proof.
  unfold scan_string_fast. generalize (seq 0 (S (length buf))) as l. intros l.
  assert (G : forall acc, fold_left (fun acc i => verify_hits_fast cr sidx fl s fixed buf i acc) l acc =
                          match acc with [] => first_event (flat_map (events_at cr sidx fl s fixed buf) l) | _ :: _ => acc end).
  { induction l as [|i l IH]; intros acc; [destruct acc; reflexivity|].
    cbn [fold_left flat_map]. rewrite IH, verify_hits_fast_events. destruct acc as [|a acc]; [|reflexivity].
    destruct (events_at cr sidx fl s fixed buf i) as [|e evs]; reflexivity. }
  apply (G []).
Qed.

Theorem fast_mode_single_match_proof cr sidx fl s fixed buf :
  (scan_string_fast cr sidx fl s fixed buf = [] <-> scan_string cr sidx fl s fixed buf = []) /\
  (forall x, In x (scan_string_fast cr sidx fl s fixed buf) -> exists x', In x' (scan_string cr sidx fl s fixed buf) /\ fst x' = fst x).
Proof.
  rewrite scan_string_fast_events, scan_string_events.
  set (evs := flat_map (events_at cr sidx fl s fixed buf) (seq 0 (S (length buf)))). split.
  - destruct evs as [|e evs']; [split; reflexivity|]. split; [discriminate|].
    intros H. exfalso. destruct (insert_all_offset (e :: evs') [] e (or_introl eq_refl)) as [x [Hx _]]. rewrite H in Hx. destruct Hx.
  - intros x Hx. destruct evs as [|e evs']; [destruct Hx|]. destruct Hx as [<-|[]].
    apply (insert_all_offset (e :: evs') [] e). now left.
Qed.

(* ------------------------------------------------------------------ saving and loading keeps what the scan model records *)
From YV Require Import Proofs.ArenaProofs.
Theorem text_scan_same_after_reload_proof (a a' : arena) sidx buf :
  wf_arena a = true -> rules_load cfg_current (save cfg_current a) = LOk a' ->
  scan_image_string (decode a') sidx buf = scan_image_string (decode a) sidx buf.
Proof.
  intros Hwf Hl. rewrite (load_save_roundtrip_proof a Hwf) in Hl. inversion Hl; subst. reflexivity.
Qed.
