(* The interval-based hex reference (Spec/HexSpec.v) computes exactly the relation M of the translated expression. *)
From Coq Require Import List Arith NArith Bool Lia.
From YV Require Import Base.Bytes Spec.RegexSpec Proofs.RegexProofs Spec.HexSpec.
Import ListNotations.

Fixpoint hex_wf (p : hexpat) : bool :=
  match p with
  | HNil => true
  | HTok _ r => hex_wf r
  | HJump n m r => (n <=? m)%N && hex_wf r
  | HJumpInf _ r => hex_wf r
  | HAltP a b r => hex_wf a && hex_wf b && hex_wf r
  end.

Lemma in_posns buf j : In j (posns buf) <-> (j <= N.of_nat (length buf))%N.
Proof.
  unfold posns. rewrite in_map_iff. split.
  - intros [k [<- Hk]]. apply in_seq in Hk. lia.
  - intros H. exists (N.to_nat j). split; [apply N2Nat.id|]. apply in_seq. lia.
Qed.

Lemma in_norm buf f j : In j (norm (posns buf) f) <-> (j <= N.of_nat (length buf))%N /\ f j = true.
Proof. unfold norm. rewrite filter_In, in_posns. tauto. Qed.

Lemma memN_in x l : memN x l = true <-> In x l.
Proof.
  unfold memN. rewrite existsb_exists. split.
  - intros [y [Hy E]]. apply N.eqb_eq in E. now subst.
  - intros H. exists x. split; [exact H|apply N.eqb_refl].
Qed.

Lemma M_bound buf r i j : (i <= length buf)%nat -> M buf r i j -> (i <= j <= length buf)%nat.
Proof.
  intros Hi HM. destruct (ends_correct buf r i j Hi) as [Ec Eb]. apply Eb. now apply Ec.
Qed.

Lemma star_any buf i j : M buf (RStar anyset) i j <-> (i <= j)%nat /\ (j = i \/ j <= length buf)%nat.
Proof.
  split.
  - intros H. remember (RStar anyset) as r eqn:Er. induction H; try discriminate.
    + split; [lia|now left].
    + inversion Er; subst. specialize (IHM2 eq_refl). apply M_any in H. destruct H as [-> Hlt].
      destruct IHM2 as [Hle Hb]. split; [lia|]. right. destruct Hb as [->|Hb]; lia.
  - intros [Hle Hb]. remember (j - i)%nat as d eqn:Ed. revert i Hle Hb Ed.
    induction d as [|d IH]; intros i Hle Hb Ed.
    + assert (j = i) by lia. subst. constructor.
    + apply M_star1 with (k := S i).
      * apply M_any. split; [reflexivity|]. destruct Hb as [->|Hb]; lia.
      * apply IH; [lia| |lia]. destruct Hb as [->|Hb]; [lia|]. now right.
Qed.

Lemma jump_inf_exact buf n i j : (i <= length buf)%nat ->
  (M buf (rrep anyset n None) i j <-> (i + n <= j)%nat /\ (j <= length buf)%nat).
Proof.
  intros Hi. unfold rrep. split.
  - intros H. inversion H; subst.
    match goal with Hx : M _ (rpow _ _) _ _ |- _ => apply rpow_any in Hx; destruct Hx as [-> Hb1] end.
    match goal with Hx : M _ (RStar _) _ _ |- _ => apply star_any in Hx; destruct Hx as [Hle Hb2] end.
    split; [lia|]. destruct Hb2 as [->|Hb2]; [|exact Hb2]. destruct Hb1 as [->|Hb1]; lia.
  - intros [Hr Hb]. apply M_cat with (k := (i + n)%nat).
    + apply rpow_any. split; [reflexivity|]. destruct n; [now left|right; lia].
    + apply star_any. split; [lia|]. now right.
Qed.

Section Spec.
Variable buf : bytes.
Notation L := (N.of_nat (length buf)).

Definition bounded (St : list N) : Prop := forall i, In i St -> (i <= L)%N.

Lemma norm_bounded f : bounded (norm (posns buf) f).
Proof. intros i Hi. now apply in_norm in Hi. Qed.

Lemma hends_spec p : hex_wf p = true -> forall St, bounded St -> forall j,
  In j (hends_on (posns buf) buf p St) <-> exists i, In i St /\ M buf (hex_to_re p) (N.to_nat i) (N.to_nat j).
Proof.
  induction p as [|c r IHr|n m r IHr|n r IHr|a IHa b IHb r IHr]; intros Hwf St HS j;
    (destruct St as [|s0 St0]; [cbn [hends_on]; (split; [intros []|intros [i [[] _]]])|]);
    cbn [hends_on hex_to_re hex_wf] in *; set (St := s0 :: St0) in *; clearbody St.
  - split.
    + intros Hj. exists j. split; [exact Hj|constructor].
    + intros [i [Hi HM]]. inversion HM; subst.
      match goal with E : _ = N.to_nat _ |- _ => apply N2Nat.inj in E; subst end. exact Hi.
  - rewrite (IHr Hwf _ (norm_bounded _) j). split.
    + intros [k [Hk HM]]. apply in_norm in Hk as [Hkb Hk]. apply existsb_exists in Hk as [i [Hi Hc]].
      apply andb_true_iff in Hc as [E Hc]. apply N.eqb_eq in E. subst k.
      unfold byte_atN in Hc. destruct (nth_error buf (N.to_nat i)) as [bb|] eqn:Eb; [|discriminate].
      exists i. split; [exact Hi|]. apply M_cat with (k := S (N.to_nat i)).
      * econstructor; [exact Eb|exact Hc].
      * rewrite <- N2Nat.inj_succ. exact HM.
    + intros [i [Hi HM]]. inversion HM as [| |a0 b0 i0 k j0 H1 H2| | | | | | | |]; subst.
      inversion H1 as [|c0 i1 bb Hb Hc| | | | | | | | |]; subst.
      exists (N.succ i). split.
      * apply in_norm. pose proof (byte_at_lt _ _ _ Hb) as Hlt. split; [lia|].
        apply existsb_exists. exists i. split; [exact Hi|]. rewrite N.eqb_refl. cbn [andb].
        unfold byte_atN. unfold byte_at in Hb. rewrite Hb. exact Hc.
      * rewrite N2Nat.inj_succ. exact H2.
  - apply andb_true_iff in Hwf as [Hnm Hwf]. apply N.leb_le in Hnm.
    rewrite (IHr Hwf _ (norm_bounded _) j). split.
    + intros [k [Hk HM]]. apply in_norm in Hk as [Hkb Hk]. apply existsb_exists in Hk as [i [Hi Hc]].
      apply andb_true_iff in Hc as [H1 H2]. apply N.leb_le in H1. apply N.leb_le in H2.
      exists i. split; [exact Hi|]. apply M_cat with (k := N.to_nat k); [|exact HM].
      pose proof (HS i Hi) as Hib.
      apply hex_jump_exact_proof; [lia|lia|]. split; lia.
    + intros [i [Hi HM]]. pose proof (HS i Hi) as Hib.
      inversion HM as [| |a0 b0 i0 k j0 H1 H2| | | | | | | |]; subst.
      apply hex_jump_exact_proof in H1; [|lia|lia]. destruct H1 as [Hr Hb].
      exists (N.of_nat k). rewrite Nat2N.id. split; [|exact H2].
      apply in_norm. split; [lia|]. apply existsb_exists. exists i. split; [exact Hi|].
      apply andb_true_iff. split; apply N.leb_le; lia.
  - rewrite (IHr Hwf _ (norm_bounded _) j). split.
    + intros [k [Hk HM]]. apply in_norm in Hk as [Hkb Hk]. apply existsb_exists in Hk as [i [Hi Hc]].
      apply N.leb_le in Hc. pose proof (HS i Hi) as Hib.
      exists i. split; [exact Hi|]. apply M_cat with (k := N.to_nat k); [|exact HM].
      apply jump_inf_exact; [lia|]. split; lia.
    + intros [i [Hi HM]]. pose proof (HS i Hi) as Hib.
      inversion HM as [| |a0 b0 i0 k j0 H1 H2| | | | | | | |]; subst.
      apply jump_inf_exact in H1; [|lia]. destruct H1 as [Hr Hb].
      exists (N.of_nat k). rewrite Nat2N.id. split; [|exact H2].
      apply in_norm. split; [lia|]. apply existsb_exists. exists i. split; [exact Hi|]. apply N.leb_le. lia.
  - apply andb_true_iff in Hwf as [Hwf Hwr]. apply andb_true_iff in Hwf as [Hwa Hwb].
    rewrite (IHr Hwr _ (norm_bounded _) j). split.
    + intros [k [Hk HM]]. apply in_norm in Hk as [Hkb Hk]. apply orb_true_iff in Hk as [Hk|Hk]; apply memN_in in Hk.
      * apply (IHa Hwa _ HS) in Hk as [i [Hi Ha]]. exists i. split; [exact Hi|].
        apply M_cat with (k := N.to_nat k); [now apply M_altl|exact HM].
      * apply (IHb Hwb _ HS) in Hk as [i [Hi Hb]]. exists i. split; [exact Hi|].
        apply M_cat with (k := N.to_nat k); [now apply M_altr|exact HM].
    + intros [i [Hi HM]]. pose proof (HS i Hi) as Hib.
      inversion HM as [| |a0 b0 i0 k j0 H1 H2| | | | | | | |]; subst.
      assert (Hkb : (k <= length buf)%nat) by (apply (M_bound buf _ (N.to_nat i) k) in H1; lia).
      exists (N.of_nat k). rewrite Nat2N.id. split; [|exact H2].
      apply in_norm. split; [lia|]. apply orb_true_iff.
      inversion H1 as [| | |a1 b1 i1 j1 Ha|a1 b1 i1 j1 Hb| | | | | |]; subst; [left|right]; apply memN_in.
      * apply (IHa Hwa _ HS). exists i. split; [exact Hi|]. now rewrite Nat2N.id.
      * apply (IHb Hwb _ HS). exists i. split; [exact Hi|]. now rewrite Nat2N.id.
Qed.

End Spec.

Theorem hex_fast_reference_exact_proof buf p i j : hex_wf p = true -> (i <= N.of_nat (length buf))%N ->
  (In j (hends buf p [i]) <-> M buf (hex_to_re p) (N.to_nat i) (N.to_nat j)).
Proof.
  intros Hwf Hi. unfold hends. rewrite (hends_spec buf p Hwf [i]).
  - split.
    + intros [k [[<-|[]] HM]]. exact HM.
    + intros HM. exists i. split; [now left|exact HM].
  - intros k [<-|[]]. exact Hi.
Qed.

Theorem hex_matches_exact_proof buf p : hex_wf p = true ->
  forall o len, (0 < len)%N ->
    ((exists ls, In (o, ls) (hex_matches_all buf p) /\ In len ls) <->
     M buf (hex_to_re p) (N.to_nat o) (N.to_nat o + N.to_nat len)).
Proof.
  intros Hwf o len Hlen. unfold hex_matches_all. split.
  - intros [ls [Hin Hl]]. apply filter_In in Hin as [Hin _]. apply in_map_iff in Hin as [o' [E Ho]].
    inversion E; subst. apply in_map_iff in Ho as [k [<- Hk]]. apply in_seq in Hk.
    unfold hex_lengths_on in Hl. fold (hends buf p [N.of_nat k]) in Hl. apply in_map_iff in Hl as [j [Ej Hj]]. apply filter_In in Hj as [Hj Hlt].
    apply N.ltb_lt in Hlt. apply (hex_fast_reference_exact_proof buf p _ j Hwf) in Hj; [|lia].
    replace (N.to_nat (N.of_nat k) + N.to_nat len)%nat with (N.to_nat j) by lia. exact Hj.
  - intros HM.
    assert (Ho : (N.to_nat o < length buf)%nat).
    { apply (M_nonempty_start _ _ _ _ HM). lia. }
    assert (Hj : In (o + len)%N (hends buf p [o])).
    { apply (hex_fast_reference_exact_proof buf p o _ Hwf); [lia|].
      replace (N.to_nat (o + len)) with (N.to_nat o + N.to_nat len)%nat by lia. exact HM. }
    assert (Hin : In len (hex_lengths_on (posns buf) buf p o)).
    { unfold hex_lengths_on. fold (hends buf p [o]). apply in_map_iff. exists (o + len)%N. split; [lia|].
      apply filter_In. split; [exact Hj|]. apply N.ltb_lt. lia. }
    exists (hex_lengths_on (posns buf) buf p o). split; [|exact Hin].
    apply filter_In. split.
    + apply in_map_iff. exists o. split; [reflexivity|]. apply in_map_iff. exists (N.to_nat o).
      split; [apply N2Nat.id|]. apply in_seq. lia.
    + cbn [snd]. destruct (hex_lengths_on (posns buf) buf p o); [destruct Hin|reflexivity].
Qed.
