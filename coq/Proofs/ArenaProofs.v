(* Proofs about the compiled-rules codec model (Model/Arena.v). *)
From Coq Require Import List NArith ZArith Lia Bool.
From YV Require Import Base.Bytes gen.GenConsts Model.Arena.
Import ListNotations.
Local Open Scope N_scope.

Local Notation c := cfg_current.

(* ---------------------------------------------------------------- stream reads *)
Lemma take_app {n} (a b : bytes) : n = length a -> take n (a ++ b) = Some (a, b).
Proof.
  intros ->. unfold take. rewrite app_length.
  replace (length a <=? length a + length b)%nat with true by (symmetry; apply Nat.leb_le; lia).
  rewrite firstn_app, Nat.sub_diag, firstn_all, skipn_app, Nat.sub_diag, skipn_all. simpl.
  now rewrite app_nil_r.
Qed.

Lemma take_short n (s : bytes) : (length s < n)%nat -> take n s = None.
Proof. intros H. unfold take. replace (n <=? length s)%nat with false; [reflexivity|]. symmetry. apply Nat.leb_gt. lia. Qed.

Lemma nlen_app {A} (a b : list A) : nlen (a ++ b) = nlen a + nlen b.
Proof. unfold nlen. rewrite app_length. lia. Qed.

Lemma nlen_to_nat {A} (l : list A) : N.to_nat (nlen l) = length l.
Proof. unfold nlen. apply Nnat.Nat2N.id. Qed.

(* ---------------------------------------------------------------- references *)
Lemma enc_ref_length r : length (enc_ref r) = 8%nat.
Proof. unfold enc_ref. now rewrite app_length, !le_enc_length. Qed.

Lemma dec_enc_ref r : fst r < 4294967296 -> snd r < 4294967296 -> dec_ref (enc_ref r) = r.
Proof.
  intros H1 H2. destruct r as [a b]. unfold dec_ref, enc_ref. simpl fst in *. simpl snd in *.
  rewrite firstn_app_exact by (now rewrite le_enc_length).
  rewrite skipn_app_exact by (now rewrite le_enc_length).
  rewrite <- (app_nil_r (le_enc 4 b)). rewrite firstn_app_exact by (now rewrite le_enc_length).
  rewrite !le_dec_enc; [reflexivity| |]; simpl; lia.
Qed.

Lemma terminator_current : terminator c = enc_ref (null32, null32).
Proof. reflexivity. Qed.

(* ---------------------------------------------------------------- buffer table *)
Lemma ent_size_12 : ent_size = 12%nat. Proof. reflexivity. Qed.
Lemma hdr_size_6 : hdr_size = 6%nat. Proof. reflexivity. Qed.
Lemma ref_size_8 : ref_size = 8%nat. Proof. reflexivity. Qed.

Lemma table_from_length off bs : length (table_from off bs) = (ent_size * length bs)%nat.
Proof.
  revert off; induction bs as [|b r IH]; intros off; cbn [table_from length].
  - lia.
  - rewrite !app_length, !le_enc_length, IH, ent_size_12. lia.
Qed.

Definition sizes_ok (bs : list bytes) : Prop := Forall (fun b => nlen b <= max_loadable_buffer) bs.

Fixpoint total (bs : list bytes) : N := match bs with [] => 0 | b :: r => nlen b + total r end.

Lemma read_sizes_table off bs rest :
  sizes_ok bs -> read_sizes (length bs) (table_from off bs ++ rest) = map nlen bs.
Proof.
  revert off; induction bs as [|b r IH]; intros off H; cbn [table_from length read_sizes map]; [reflexivity|].
  inversion H as [|? ? Hb Hr]; subst.
  rewrite <- !app_assoc. f_equal.
  - rewrite skipn_app_exact by (now rewrite le_enc_length).
    rewrite firstn_app_exact by (now rewrite le_enc_length).
    apply le_dec_enc. unfold max_loadable_buffer in Hb. simpl. lia.
  - rewrite app_assoc. rewrite skipn_app_exact by (now rewrite app_length, !le_enc_length).
    apply IH. assumption.
Qed.

Lemma read_offsets_table off bs rest :
  off + total bs < 18446744073709551616 ->
  offsets_consistent off (read_offsets (length bs) (table_from off bs ++ rest)) (map nlen bs) = true.
Proof.
  revert off; induction bs as [|b r IH]; intros off H; cbn [table_from length read_offsets map offsets_consistent total] in *; [reflexivity|].
  rewrite <- !app_assoc.
  rewrite firstn_app_exact by (now rewrite le_enc_length).
  rewrite le_dec_enc by (simpl; lia). rewrite N.eqb_refl. cbn [andb].
  change ent_size with (8 + 4)%nat.
  rewrite app_assoc. rewrite skipn_app_exact by (now rewrite app_length, !le_enc_length).
  apply IH. lia.
Qed.

(* ---------------------------------------------------------------- buffer bodies *)
Lemma read_bodies_ok bs rest :
  sizes_ok bs -> read_bodies (map nlen bs) (concat bs ++ rest) = LOk (bs, rest).
Proof.
  induction bs as [|b r IH]; intros H; cbn [map concat read_bodies]; [reflexivity|].
  inversion H as [|? ? Hb Hr]; subst.
  destruct (nlen b =? 0) eqn:E0.
  - apply N.eqb_eq in E0. assert (b = []) as -> by (destruct b; [reflexivity|unfold nlen in E0; simpl in E0; lia]).
    simpl app. rewrite IH by assumption. reflexivity.
  - replace (max_loadable_buffer <? nlen b) with false by (symmetry; apply N.ltb_ge; exact Hb).
    rewrite <- app_assoc.
    replace (nlen (b ++ concat r ++ rest) <? nlen b) with false
      by (symmetry; apply N.ltb_ge; rewrite nlen_app; lia).
    rewrite nlen_to_nat. rewrite take_app by reflexivity.
    rewrite IH by assumption. reflexivity.
Qed.

Lemma read_bodies_truncated bs rest m :
  sizes_ok bs -> (m < length (concat bs))%nat ->
  read_bodies (map nlen bs) (firstn m (concat bs ++ rest)) = LErr ECorruptFile.
Proof.
  revert m; induction bs as [|b r IH]; intros m H Hm; cbn [map concat read_bodies] in *.
  - simpl in Hm. lia.
  - inversion H as [|? ? Hb Hr]; subst.
    destruct (nlen b =? 0) eqn:E0.
    + apply N.eqb_eq in E0. assert (b = []) as -> by (destruct b; [reflexivity|unfold nlen in E0; simpl in E0; lia]).
      simpl app in *. rewrite IH by assumption. reflexivity.
    + replace (max_loadable_buffer <? nlen b) with false by (symmetry; apply N.ltb_ge; exact Hb).
      rewrite app_length in Hm. rewrite <- app_assoc.
      destruct (Nat.lt_ge_cases m (length b)) as [Hlt|Hge].
      * replace (nlen (firstn m (b ++ concat r ++ rest)) <? nlen b) with true; [reflexivity|].
        symmetry. apply N.ltb_lt. unfold nlen. rewrite firstn_length. lia.
      * rewrite firstn_app. rewrite firstn_all2 by lia.
        replace (nlen (b ++ firstn (m - length b) (concat r ++ rest)) <? nlen b) with false
          by (symmetry; apply N.ltb_ge; rewrite nlen_app; lia).
        rewrite nlen_to_nat. rewrite take_app by reflexivity.
        rewrite IH by (assumption || lia). reflexivity.
Qed.

(* ---------------------------------------------------------------- relocation loop *)
Lemma overlaps_sym r d : overlaps r d = overlaps d r.
Proof.
  unfold overlaps. rewrite (N.eqb_sym (fst r) (fst d)).
  destruct (fst d =? fst r); simpl; [|reflexivity]. apply andb_comm.
Qed.

Lemma no_overlap_head done e r :
  no_overlap (done ++ e :: r) = true -> existsb (overlaps e) done = false.
Proof.
  induction done as [|d done IH]; intros H; [reflexivity|].
  cbn [app no_overlap] in H. apply andb_true_iff in H as [H1 H2].
  cbn [existsb]. rewrite IH by assumption. rewrite orb_false_r.
  apply negb_true_iff in H1. rewrite existsb_app in H1. apply orb_false_iff in H1 as [_ H1].
  cbn [existsb] in H1. apply orb_false_iff in H1 as [H1 _]. now rewrite overlaps_sym.
Qed.

Lemma buf_len_bound bs i : sizes_ok bs -> buf_len bs i <= max_loadable_buffer.
Proof.
  intros H. unfold buf_len. destruct (nth_in_or_default (N.to_nat i) bs []) as [Hin|Hd].
  - unfold sizes_ok in H. rewrite Forall_forall in H. now apply H.
  - rewrite Hd. unfold nlen, max_loadable_buffer. simpl. lia.
Qed.

Lemma reloc_step_ok bs done e :
  reloc_ok bs e = true -> existsb (overlaps e) done = false -> reloc_step c bs done e = LOk tt.
Proof.
  intros H Hov. destruct e as [bid off]. unfold reloc_ok in H. unfold reloc_step.
  apply andb_true_iff in H as [H12 H3]. apply andb_true_iff in H12 as [H1 H2].
  apply N.ltb_lt in H1. apply N.leb_le in H2.
  replace (nlen bs <=? bid) with false by (symmetry; apply N.leb_gt; lia).
  set (used := buf_len bs bid) in *.
  replace (used =? 0) with false by (symmetry; apply N.eqb_neq; lia).
  replace ((8 <=? used) && (used - 8 <? off)) with false
    by (symmetry; apply andb_false_iff; right; apply N.ltb_ge; lia).
  replace (used <? 8) with false by (symmetry; apply N.ltb_ge; lia).
  rewrite Hov.
  change (reloc_validates_target cfg_current) with true. cbv iota.
  cbv zeta in H3. cbv zeta.
  set (r := dec_ref (slice (nth (N.to_nat bid) bs []) (N.to_nat off) 8)) in *.
  destruct (is_null_ref r) eqn:En; [reflexivity|].
  now rewrite H3.
Qed.

Lemma reloc_entry_bounds bs e :
  sizes_ok bs -> nlen bs < 4294967295 -> reloc_ok bs e = true ->
  fst e < 4294967295 /\ snd e < 4294967296.
Proof.
  intros Hs Hn H. destruct e as [bid off]. unfold reloc_ok in H.
  apply andb_true_iff in H as [H12 _]. apply andb_true_iff in H12 as [H1 H2].
  apply N.ltb_lt in H1. apply N.leb_le in H2. simpl.
  pose proof (buf_len_bound bs bid Hs) as Hb. unfold max_loadable_buffer in Hb. lia.
Qed.

Lemma is_null_ref_false e : fst e < 4294967295 -> is_null_ref e = false.
Proof.
  intros H. unfold is_null_ref, null32. replace (fst e =? 4294967295) with false; [reflexivity|].
  symmetry. apply N.eqb_neq. lia.
Qed.

Definition null_entry : bytes := enc_ref (null32, null32).

Lemma reloc_loop_ok bs : sizes_ok bs -> nlen bs < 4294967295 ->
  forall rl done fuel junk,
  forallb (reloc_ok bs) rl = true -> no_overlap (done ++ rl) = true -> (length rl < fuel)%nat ->
  reloc_loop c fuel bs done (concat (map enc_ref rl) ++ null_entry ++ junk) = LOk (done ++ rl).
Proof.
  intros Hs Hn. induction rl as [|e rl IH]; intros done fuel junk Hok Hno Hf.
  - destruct fuel as [|fuel]; [simpl in Hf; lia|]. cbn [map concat app reloc_loop].
    rewrite ref_size_8. unfold null_entry. rewrite take_app by (now rewrite enc_ref_length).
    rewrite dec_enc_ref by (simpl; unfold null32; lia).
    change (reloc_terminated cfg_current) with true. simpl. now rewrite app_nil_r.
  - destruct fuel as [|fuel]; [simpl in Hf; lia|]. cbn [map concat reloc_loop].
    cbn [forallb] in Hok. apply andb_true_iff in Hok as [He Hok].
    destruct (reloc_entry_bounds bs e Hs Hn He) as [B1 B2].
    rewrite ref_size_8. rewrite <- app_assoc. rewrite take_app by (now rewrite enc_ref_length).
    rewrite dec_enc_ref by lia. rewrite is_null_ref_false by assumption. rewrite andb_false_r.
    rewrite reloc_step_ok by (assumption || now apply no_overlap_head with (r := rl)).
    cbn [lbind]. rewrite IH.
    + now rewrite <- app_assoc.
    + assumption.
    + now rewrite <- app_assoc.
    + simpl in Hf. lia.
Qed.

Lemma reloc_loop_truncated bs : sizes_ok bs -> nlen bs < 4294967295 ->
  forall rl done fuel m,
  forallb (reloc_ok bs) rl = true -> no_overlap (done ++ rl) = true -> (m < 8 * fuel)%nat ->
  (m < 8 * length rl + 8)%nat ->
  reloc_loop c fuel bs done (firstn m (concat (map enc_ref rl) ++ null_entry)) = LErr ECorruptFile.
Proof.
  intros Hs Hn. induction rl as [|e rl IH]; intros done fuel m Hok Hno Hf Hm.
  - destruct fuel as [|fuel]; [lia|]. cbn [map concat app reloc_loop].
    rewrite take_short; [reflexivity|]. rewrite firstn_length, ref_size_8. simpl in Hm. lia.
  - destruct fuel as [|fuel]; [lia|]. cbn [map concat reloc_loop].
    cbn [forallb] in Hok. apply andb_true_iff in Hok as [He Hok].
    destruct (reloc_entry_bounds bs e Hs Hn He) as [B1 B2].
    rewrite <- app_assoc.
    destruct (Nat.lt_ge_cases m 8) as [Hlt|Hge].
    + rewrite take_short; [reflexivity|]. rewrite firstn_length, ref_size_8. lia.
    + rewrite firstn_app, enc_ref_length. rewrite firstn_all2 by (rewrite enc_ref_length; lia).
      rewrite ref_size_8. rewrite take_app by (now rewrite enc_ref_length).
      rewrite dec_enc_ref by lia. rewrite is_null_ref_false by assumption. rewrite andb_false_r.
      rewrite reloc_step_ok by (assumption || now apply no_overlap_head with (r := rl)).
      cbn [lbind]. apply IH.
      * assumption.
      * now rewrite <- app_assoc.
      * lia.
      * cbn [length] in Hm. lia.
Qed.

(* ---------------------------------------------------------------- whole loader *)
Lemma total_bound bs : sizes_ok bs -> total bs <= N.of_nat (length bs) * max_loadable_buffer.
Proof.
  induction bs as [|b r IH]; intros H; cbn [total length]; [lia|].
  inversion H; subst. specialize (IH ltac:(assumption)). lia.
Qed.

Definition off0 (nb : N) : N := N.of_nat hdr_size + N.of_nat ent_size * nb.

Definition after_table (bs0 : list bytes) (rest : bytes) : lres arena :=
  do x <- read_bodies (map nlen bs0) rest;
  let '(bs, s3) := x in
  do rl <- reloc_loop c (S (length s3)) bs [] s3;
  LOk {| bufs := bs; relocs := rl |}.

Lemma arena_load_header nb Y : nb <= max_buffers ->
  arena_load c (header nb ++ Y) =
  match take (N.to_nat nb * ent_size) Y with
  | None => LErr ECorruptFile
  | Some (t, s2) =>
      let sizes := read_sizes (N.to_nat nb) t in
      if negb (offsets_consistent (off0 nb) (read_offsets (N.to_nat nb) t) sizes) then LErr ECorruptFile
      else do x <- read_bodies sizes s2;
           let '(bs, s3) := x in
           do rl <- reloc_loop c (S (length s3)) bs [] s3;
           LOk {| bufs := bs; relocs := rl |}
  end.
Proof.
  intros Hnb. unfold arena_load. rewrite take_app by reflexivity.
  unfold header at 1 2 3. cbn [magic app firstn bytes_eqb nth].
  rewrite !N.eqb_refl. cbn [andb negb].
  replace (max_buffers <? nb) with false by (symmetry; apply N.ltb_ge; exact Hnb).
  change (table_checks_offsets cfg_current) with true. cbn [andb]. reflexivity.
Qed.

Lemma arena_load_prefix bs0 rest :
  sizes_ok bs0 -> nlen bs0 <= max_buffers ->
  arena_load c (header (nlen bs0) ++ table_from (off0 (nlen bs0)) bs0 ++ rest) = after_table bs0 rest.
Proof.
  intros Hs Hn. rewrite arena_load_header by assumption.
  rewrite nlen_to_nat.
  rewrite take_app by (rewrite table_from_length; lia).
  cbv zeta.
  rewrite <- (app_nil_r (table_from _ bs0)).
  rewrite read_sizes_table by assumption.
  rewrite read_offsets_table.
  - reflexivity.
  - pose proof (total_bound bs0 Hs) as Hb. unfold off0, max_loadable_buffer, max_buffers in *.
    unfold nlen in *. rewrite hdr_size_6, ent_size_12. simpl in Hn. lia.
Qed.

Record wf_facts (a : arena) : Prop := {
  wf_nb : nlen (bufs a) = num_sections;
  wf_sizes : sizes_ok (bufs a);
  wf_relocs : forallb (reloc_ok (bufs a)) (relocs a) = true;
  wf_disj : no_overlap (relocs a) = true;
  wf_sum : nlen (nth summary_section (bufs a) []) = summary_size;
  wf_rules : le_dec (firstn 4 (nth summary_section (bufs a) [])) <= nlen (nth rules_table (bufs a) []) / rule_size
}.

Lemma wf_arena_facts a : wf_arena a = true -> wf_facts a.
Proof.
  unfold wf_arena. intros H.
  repeat (apply andb_true_iff in H; destruct H as [H ?]).
  constructor.
  - now apply N.eqb_eq.
  - unfold sizes_ok. rewrite Forall_forall. intros b Hb.
    match goal with [ F : forallb _ (bufs a) = true |- _ ] => rewrite forallb_forall in F; specialize (F b Hb);
      apply andb_true_iff in F; destruct F as [_ F]; now apply N.leb_le in F end.
  - assumption.
  - assumption.
  - now apply N.eqb_eq.
  - now apply N.leb_le.
Qed.

Lemma rules_from_arena_ok a : wf_facts a -> rules_from_arena c a = LOk a.
Proof.
  intros [H1 _ _ _ H5 H6]. unfold rules_from_arena.
  change (rules_checks_sections cfg_current) with true. cbv iota.
  rewrite H1, N.eqb_refl. rewrite H5, N.eqb_refl. cbn [negb].
  replace (_ <? _) with false by (symmetry; apply N.ltb_ge; exact H6). reflexivity.
Qed.

Lemma save_shape a :
  save c a = header (nlen (bufs a)) ++ table_from (off0 (nlen (bufs a))) (bufs a) ++
             concat (bufs a) ++ concat (map enc_ref (relocs a)) ++ null_entry.
Proof. reflexivity. Qed.

Lemma num_sections_small : num_sections <= max_buffers /\ num_sections < 4294967295.
Proof. vm_compute. split; [discriminate|reflexivity]. Qed.

Theorem load_save_roundtrip_proof a :
  wf_arena a = true -> rules_load c (save c a) = LOk a.
Proof.
  intros Hwf. pose proof (wf_arena_facts a Hwf) as F. destruct F as [H1 H2 H3 H4 H5 H6] eqn:EF.
  destruct num_sections_small as [S1 S2].
  unfold rules_load. rewrite save_shape.
  rewrite arena_load_prefix by (assumption || (rewrite H1; assumption)).
  unfold after_table. rewrite read_bodies_ok by assumption. cbn [lbind].
  rewrite <- (app_nil_r null_entry).
  rewrite reloc_loop_ok; try assumption.
  - cbn [app lbind]. destruct a as [bs rl]. cbn [bufs relocs] in *. apply rules_from_arena_ok. exact (wf_arena_facts _ Hwf).
  - rewrite H1. assumption.
  - rewrite !app_length. unfold null_entry. rewrite enc_ref_length.
    assert (length (concat (map enc_ref (relocs a))) = (8 * length (relocs a))%nat) as ->.
    { clear. induction (relocs a) as [|e r IH]; cbn [map concat length]; [reflexivity|].
      rewrite app_length, enc_ref_length, IH. lia. }
    simpl. lia.
Qed.

Lemma concat_enc_length rl : length (concat (map enc_ref rl)) = (8 * length rl)%nat.
Proof.
  induction rl as [|e r IH]; cbn [map concat length]; [reflexivity|].
  rewrite app_length, enc_ref_length, IH. lia.
Qed.

Lemma lbind_err {A B} (r : lres A) (f : A -> lres B) e : r = LErr e -> lbind r f = LErr e.
Proof. intros ->. reflexivity. Qed.

Theorem truncated_rejected_proof a n :
  wf_arena a = true -> (n < length (save c a))%nat ->
  exists e, rules_load c (firstn n (save c a)) = LErr e.
Proof.
  intros Hwf Hn. pose proof (wf_arena_facts a Hwf) as [H1 H2 H3 H4 H5 H6].
  destruct num_sections_small as [S1 S2].
  unfold rules_load. rewrite save_shape in *.
  set (P1 := header (nlen (bufs a))) in *.
  set (P2 := table_from (off0 (nlen (bufs a))) (bufs a)) in *.
  set (P3 := concat (bufs a)) in *.
  set (P4 := concat (map enc_ref (relocs a)) ++ null_entry) in *.
  assert (L1 : length P1 = 6%nat) by reflexivity.
  assert (L2 : length P2 = (12 * length (bufs a))%nat) by (unfold P2; now rewrite table_from_length, ent_size_12).
  assert (L4 : length P4 = (8 * length (relocs a) + 8)%nat)
    by (unfold P4, null_entry; now rewrite app_length, concat_enc_length, enc_ref_length).
  assert (Hnb : nlen (bufs a) <= max_buffers) by (rewrite H1; assumption).
  destruct (Nat.lt_ge_cases n 6) as [C1|C1].
  { (* inside the header *)
    exists EInvalidFile. apply lbind_err. unfold arena_load.
    rewrite take_short; [reflexivity|]. rewrite firstn_length, hdr_size_6. lia. }
  rewrite firstn_app, L1. rewrite firstn_all2 by lia.
  destruct (Nat.lt_ge_cases (n - 6) (length P2)) as [C2|C2].
  { (* inside the buffer table *)
    exists ECorruptFile. apply lbind_err. unfold P1. rewrite arena_load_header by assumption.
    rewrite take_short; [reflexivity|]. rewrite firstn_length, nlen_to_nat, ent_size_12. lia. }
  rewrite firstn_app. rewrite (firstn_all2 P2) by lia.
  unfold P1, P2. rewrite arena_load_prefix by assumption. fold P2.
  unfold after_table.
  destruct (Nat.lt_ge_cases (n - 6 - length P2) (length P3)) as [C3|C3].
  { (* inside the buffer bodies *)
    exists ECorruptFile. apply lbind_err. apply lbind_err.
    unfold P3. apply read_bodies_truncated; assumption. }
  (* inside the relocation list or its terminator *)
  exists ECorruptFile. apply lbind_err.
  rewrite firstn_app. rewrite (firstn_all2 P3) by lia.
  unfold P3 at 1. rewrite read_bodies_ok by assumption. cbn [lbind].
  apply lbind_err. unfold P4. apply reloc_loop_truncated; try assumption.
  - rewrite H1. assumption.
  - rewrite !app_length in Hn. rewrite L1, L4 in Hn.
    rewrite firstn_length. fold P4. rewrite L4. fold P3. lia.
  - rewrite !app_length in Hn. rewrite L1, L4 in Hn. fold P3. lia.
Qed.

(* ---------------------------------------------------------------- what any accepted file looks like *)
Lemma read_sizes_length k t : length (read_sizes k t) = k.
Proof. revert t; induction k as [|k IH]; intros t; cbn [read_sizes length]; [reflexivity|]. now rewrite IH. Qed.

Lemma read_bodies_length sizes : forall s bs s3, read_bodies sizes s = LOk (bs, s3) -> length bs = length sizes.
Proof.
  induction sizes as [|sz r IH]; intros s bs s3 H; cbn [read_bodies] in H.
  - inversion H; reflexivity.
  - destruct (sz =? 0).
    + destruct (read_bodies r s) as [[bs' s'']| |] eqn:E; cbn [lbind] in H; try discriminate.
      inversion H; subst. cbn [length fst]. f_equal. eapply IH; eassumption.
    + destruct (max_loadable_buffer <? sz); [discriminate|].
      destruct (if nlen s <? sz then None else take (N.to_nat sz) s) as [[b s1]|]; [|discriminate].
      destruct (read_bodies r s1) as [[bs' s'']| |] eqn:E; cbn [lbind] in H; try discriminate.
      inversion H; subst. cbn [length fst]. f_equal. eapply IH; eassumption.
Qed.

Lemma arena_load_accepts s a' :
  arena_load c s = LOk a' ->
  firstn 4 s = magic /\ nth 4 s 0 = file_version /\ nlen (bufs a') = nth 5 s 0.
Proof.
  unfold arena_load. intros H.
  destruct (take hdr_size s) as [[h s1]|] eqn:Et; [|discriminate].
  assert (Hh : h = firstn hdr_size s) by (unfold take in Et; destruct (_ <=? _)%nat; inversion Et; reflexivity).
  assert (Hlen : (hdr_size <= length s)%nat).
  { unfold take in Et. destruct (hdr_size <=? length s)%nat eqn:E; [now apply Nat.leb_le in E|discriminate]. }
  destruct (bytes_eqb (firstn 4 h) magic) eqn:Em; cbn [negb] in H; [|discriminate].
  destruct (nth 4 h 0 =? file_version) eqn:Ev; cbn [negb] in H; [|discriminate].
  destruct (max_buffers <? nth 5 h 0) eqn:Enb; [discriminate|].
  destruct (take (N.to_nat (nth 5 h 0) * ent_size) s1) as [[t s2]|]; [|discriminate].
  destruct (table_checks_offsets c && _); [discriminate|].
  destruct (read_bodies _ s2) as [[bs s3]| |] eqn:Eb; cbn [lbind] in H; try discriminate.
  destruct (reloc_loop c _ bs [] s3) as [rl| |]; cbn [lbind] in H; try discriminate.
  inversion H; subst a'. cbn [bufs].
  apply bytes_eqb_eq in Em. apply N.eqb_eq in Ev.
  assert (F4 : firstn 4 h = firstn 4 s).
  { rewrite Hh. rewrite firstn_firstn. rewrite hdr_size_6. reflexivity. }
  assert (N4 : forall i, (i < 6)%nat -> nth i h 0 = nth i s 0).
  { intros i Hi. rewrite Hh. rewrite <- (firstn_skipn hdr_size s) at 2.
    rewrite app_nth1; [reflexivity|]. rewrite firstn_length, hdr_size_6. rewrite hdr_size_6 in Hlen. lia. }
  repeat split.
  - now rewrite <- F4.
  - now rewrite <- N4 by lia.
  - apply read_bodies_length in Eb. rewrite read_sizes_length in Eb.
    unfold nlen. rewrite Eb. rewrite Nnat.N2Nat.id. apply N4. lia.
Qed.

Theorem accepted_files_have_valid_header s a' :
  rules_load c s = LOk a' ->
  firstn 4 s = magic /\ nth 4 s 0 = file_version /\ nth 5 s 0 = num_sections.
Proof.
  unfold rules_load. intros H.
  destruct (arena_load c s) as [a| |] eqn:E; cbn [lbind] in H; try discriminate.
  destruct (arena_load_accepts s a E) as [H1 [H2 H3]].
  repeat split; try assumption.
  unfold rules_from_arena in H. change (rules_checks_sections cfg_current) with true in H. cbv iota in H.
  destruct (nlen (bufs a) =? num_sections) eqn:En; cbn [negb] in H; [|discriminate].
  apply N.eqb_eq in En. congruence.
Qed.

(* ---------------------------------------------------------------- the pinned loader (before the fix) *)
Definition tiny_arena : arena :=
  {| bufs := [ [] ; repeat 0 56 ; [] ; [] ; [] ; [] ; [] ; [] ; [] ; [] ; [] ; le_enc 4 1 ++ le_enc 4 0 ++ le_enc 4 0 ];
     relocs := [] |}.

Definition tiny_arena_reloc : arena :=
  {| bufs := [ [] ; enc_ref (null32, null32) ++ enc_ref (1, 8) ++ repeat 0 40 ; [] ; [] ; [] ; [] ; [] ; [] ; [] ; [] ; [] ;
               le_enc 4 1 ++ le_enc 4 0 ++ le_enc 4 0 ];
     relocs := [ (1, 0); (1, 8) ] |}.

Lemma tiny_arena_wf : wf_arena tiny_arena = true /\ wf_arena tiny_arena_reloc = true.
Proof. split; vm_compute; reflexivity. Qed.

(* On the pinned tree a file cut inside its relocation list loaded successfully as a different arena. *)
Theorem truncated_refuted_pinned_proof :
  exists a n a', wf_arena a = true /\ (n < length (save cfg_pinned a))%nat /\
     rules_load cfg_pinned (firstn n (save cfg_pinned a)) = LOk a' /\ a' <> a.
Proof.
  exists tiny_arena_reloc, (length (save cfg_pinned tiny_arena_reloc) - 8)%nat.
  eexists. split; [vm_compute; reflexivity|]. split; [vm_compute; lia|].
  split; [vm_compute; reflexivity|]. intros H. discriminate H.
Qed.
