(* Proofs about Model/ReEmit.v: the distance tests of _yr_re_emit are exact. *)
From Coq Require Import ZArith List Bool Lia.
From YV Require Import Base.Cmp gen.GenConsts gen.GenLimits Model.ReEmit.
Import ListNotations.
Local Open Scope Z_scope.

Lemma em_sz_pos : 0 < re_sz_split /\ 0 < re_sz_jump /\ 0 < re_sz_literal /\ 0 < re_sz_any /\ 0 < re_sz_class /\
               0 < re_sz_repeat /\ 0 < re_sz_repeat_any.
Proof. repeat split; reflexivity. Qed.

Lemma em_size_pos r : em_wf r = true -> 0 < em_size r.
Proof.
  destruct em_sz_pos as (P1 & P2 & P3 & P4 & P5 & P6 & P7).
  induction r as [| | |a IHa b IHb|n a IHa|a IHa b IHb|a IHa|a IHa|lo hi a IHa|]; cbn [em_wf em_size]; intros W; try lia.
  - apply andb_true_iff in W as [Wa Wb]. specialize (IHa Wa). specialize (IHb Wb). lia.
  - apply andb_true_iff in W as [Wn Wa]. apply Z.ltb_lt in Wn. specialize (IHa Wa). nia.
  - apply andb_true_iff in W as [Wa Wb]. specialize (IHa Wa). specialize (IHb Wb). lia.
  - specialize (IHa W). lia.
  - specialize (IHa W). lia.
  - apply andb_true_iff in W as [W Wa]. apply andb_true_iff in W as [W W3]. apply andb_true_iff in W as [W1 W2].
    apply Z.leb_le in W1, W2, W3. specialize (IHa Wa).
    unfold em_rg_prolog, em_rg_repeat, em_rg_split, em_rg_epilog.
    destruct (0 <? lo) eqn:E1; destruct (lo <? hi) eqn:E2; destruct (1 <? hi) eqn:E3; destruct (lo + 1 <? hi) eqn:E4;
      destruct (2 <? hi) eqn:E5; cbn [orb];
      try apply Z.ltb_lt in E1; try apply Z.ltb_ge in E1; try apply Z.ltb_lt in E2; try apply Z.ltb_ge in E2;
      try apply Z.ltb_lt in E3; try apply Z.ltb_ge in E3; lia.
Qed.

(* one test: for a forward distance 0 <= d < 2^31 and for a backward distance -2^31 < d < 0 the generated test
   fires exactly when d does not fit the type it is narrowed to *)
Definition em_test_exact (op : cmpop) (lim : Z) (n16 : bool) (forward : bool) : Prop :=
  forall d, (if forward then 0 <= d < 2147483648 else -2147483648 < d < 0) -> em_dist_rejects op lim d = negb (em_fit n16 d).

Ltac test_common OP LIM :=
  intros d Hd; unfold em_dist_rejects, em_fit, em_two32;
  let v := eval vm_compute in (LIM mod 4294967296) in
  let E := fresh "E" in
  (assert (E : LIM mod 4294967296 = v) by (vm_compute; reflexivity)); rewrite E; clear E;
  unfold OP; cbn [cmp_eval].
Ltac test_finish :=
  repeat match goal with |- context [?a <? ?b] => destruct (Z.ltb_spec a b) end;
  repeat match goal with |- context [?a <=? ?b] => destruct (Z.leb_spec a b) end;
  cbn [andb negb]; first [reflexivity | lia].
Ltac fwd_test OP LIM :=
  test_common OP LIM; match goal with H : _ <= ?x < _ |- _ => rewrite (Z.mod_small x 4294967296) by lia end; test_finish.
Ltac back_test OP LIM :=
  test_common OP LIM; match goal with H : _ < ?x < 0 |- _ => rewrite <- (Z_mod_plus_full x 1 4294967296) end;
  rewrite Z.mod_small by lia; test_finish.

Lemma plus_back_exact : em_test_exact re_plus_back_op re_plus_back_lim true false.
Proof. back_test re_plus_back_op re_plus_back_lim. Qed.
Lemma star_back_exact : em_test_exact re_star_back_op re_star_back_lim true false.
Proof. back_test re_star_back_op re_star_back_lim. Qed.
Lemma star_fwd_exact : em_test_exact re_star_fwd_op re_star_fwd_lim true true.
Proof. fwd_test re_star_fwd_op re_star_fwd_lim. Qed.
Lemma alt_split_exact : em_test_exact re_alt_split_op re_alt_split_lim true true.
Proof. fwd_test re_alt_split_op re_alt_split_lim. Qed.
Lemma alt_jump_exact : em_test_exact re_alt_jump_op re_alt_jump_lim true true.
Proof. fwd_test re_alt_jump_op re_alt_jump_lim. Qed.
Lemma range_split_exact : em_test_exact re_range_split_op re_range_split_lim true true.
Proof. fwd_test re_range_split_op re_range_split_lim. Qed.
Lemma range_rep_back_exact : em_test_exact re_range_rep_back_op re_range_rep_back_lim false false.
Proof. back_test re_range_rep_back_op re_range_rep_back_lim. Qed.
Lemma range_rep_fwd_exact : em_test_exact re_range_rep_fwd_op re_range_rep_fwd_lim false true.
Proof. fwd_test re_range_rep_fwd_op re_range_rep_fwd_lim. Qed.

Lemma node_tests_exact r : em_wf r = true -> em_size r < 2147483648 ->
  forallb (fun t => match t with (op, lim, d, _) => negb (em_dist_rejects op lim d) end) (em_node_tests r) =
  forallb (fun t => match t with (_, _, d, n16) => em_fit n16 d end) (em_node_tests r).
Proof.
  destruct em_sz_pos as (P1 & P2 & P3 & P4 & P5 & P6 & P7).
  destruct r as [| | |a b|n a|a b|a|a|lo hi a|]; cbn [em_node_tests forallb]; try reflexivity; intros W B; cbn [em_wf em_size] in W, B.
  - apply andb_true_iff in W as [Wa Wb]. pose proof (em_size_pos _ Wa). pose proof (em_size_pos _ Wb).
    rewrite alt_split_exact, alt_jump_exact by (cbv beta iota; lia). now rewrite !negb_involutive.
  - pose proof (em_size_pos _ W).
    rewrite star_back_exact, star_fwd_exact by (cbv beta iota; lia). now rewrite !negb_involutive.
  - pose proof (em_size_pos _ W).
    rewrite plus_back_exact by (cbv beta iota; lia). now rewrite !negb_involutive.
  - apply andb_true_iff in W as [W Wa]. pose proof (em_size_pos _ Wa) as Ha.
    assert (Hs : em_size a < 2147483648 - 2 * re_sz_repeat \/ em_rg_repeat lo hi = false).
    { destruct (em_rg_repeat lo hi) eqn:E; [left|now right].
      destruct (em_rg_prolog lo hi), (em_rg_split lo hi), (em_rg_epilog lo hi); lia. }
    assert (Hs2 : em_size a < 2147483648 - re_sz_split \/ em_rg_split lo hi = false).
    { unfold em_rg_split, em_rg_epilog in *. destruct (lo <? hi) eqn:E; [left|now right]. cbn [orb] in B.
      destruct (em_rg_prolog lo hi), (em_rg_repeat lo hi); lia. }
    rewrite !forallb_app.
    f_equal.
    + destruct (em_rg_repeat lo hi); [|reflexivity]. destruct Hs as [Hs|Hs]; [|discriminate].
      cbn [forallb]. rewrite range_rep_back_exact, range_rep_fwd_exact by (cbv beta iota; lia). now rewrite !negb_involutive.
    + destruct (em_rg_split lo hi); [|reflexivity]. destruct Hs2 as [Hs2|Hs2]; [|discriminate].
      cbn [forallb]. rewrite range_split_exact by (cbv beta iota; lia). now rewrite !negb_involutive.
Qed.

Lemma child_size_le r c : em_wf r = true -> In c (em_children r) -> em_wf c = true /\ em_size c <= em_size r.
Proof.
  destruct em_sz_pos as (P1 & P2 & P3 & P4 & P5 & P6 & P7).
  destruct r as [| | |a b|n a|a b|a|a|lo hi a|]; cbn [em_children em_wf em_size]; intros W H; try contradiction.
  - apply andb_true_iff in W as [Wa Wb]. pose proof (em_size_pos _ Wa). pose proof (em_size_pos _ Wb).
    destruct H as [<-|[<-|[]]]; split; auto; lia.
  - apply andb_true_iff in W as [Wn Wa]. rewrite Wn in H. apply Z.ltb_lt in Wn. pose proof (em_size_pos _ Wa).
    destruct H as [<-|[]]. split; auto. nia.
  - apply andb_true_iff in W as [Wa Wb]. pose proof (em_size_pos _ Wa). pose proof (em_size_pos _ Wb).
    destruct H as [<-|[<-|[]]]; split; auto; lia.
  - destruct H as [<-|[]]. split; auto. lia.
  - destruct H as [<-|[]]. split; auto. lia.
  - apply andb_true_iff in W as [W Wa]. apply andb_true_iff in W as [W W3]. apply andb_true_iff in W as [W1 W2].
    apply Z.leb_le in W1, W2, W3. pose proof (em_size_pos _ Wa).
    destruct H as [<-|[]]. split; auto.
    unfold em_rg_prolog, em_rg_repeat, em_rg_split, em_rg_epilog.
    destruct (0 <? lo) eqn:E1; destruct (lo <? hi) eqn:E2; destruct (1 <? hi) eqn:E3; destruct (lo + 1 <? hi) eqn:E4;
      destruct (2 <? hi) eqn:E5; cbn [orb];
      try apply Z.ltb_lt in E1; try apply Z.ltb_ge in E1; try apply Z.ltb_lt in E2; try apply Z.ltb_ge in E2;
      try apply Z.ltb_lt in E3; try apply Z.ltb_ge in E3; lia.
Qed.

(* re.c answers ERROR_REGULAR_EXPRESSION_TOO_LARGE exactly for the expressions in which some stored offset
   would not fit its 16-bit (repeat instructions: 32-bit) field *)
Theorem emit_ok_exact_proof : forall r, em_wf r = true -> em_size r < 2147483648 -> em_ok r = em_fits r.
Proof.
  induction r as [| | |a IHa b IHb|n a IHa|a IHa b IHb|a IHa|a IHa|lo hi a IHa|]; intros W B;
    try reflexivity.
  - pose proof (child_size_le (EmCat a b) a W (or_introl eq_refl)) as [Wa La].
    pose proof (child_size_le (EmCat a b) b W (or_intror (or_introl eq_refl))) as [Wb Lb].
    cbn [em_ok em_fits em_node_tests forallb]. rewrite IHa, IHb by (auto; lia). reflexivity.
  - assert (Wn : (0 <? n) = true) by (cbn [em_wf] in W; apply andb_true_iff in W; tauto).
    assert (Hc : In a (em_children (EmRep n a))) by (cbn [em_children]; rewrite Wn; now left).
    pose proof (child_size_le _ a W Hc) as [Wa La].
    cbn [em_ok em_fits]. rewrite Wn. apply IHa; auto; lia.
  - pose proof (child_size_le (EmAlt a b) a W (or_introl eq_refl)) as [Wa La].
    pose proof (child_size_le (EmAlt a b) b W (or_intror (or_introl eq_refl))) as [Wb Lb].
    pose proof (node_tests_exact (EmAlt a b) W B) as T.
    cbn [em_ok em_fits]. rewrite IHa, IHb by (auto; lia). f_equal. exact T.
  - pose proof (child_size_le (EmStar a) a W (or_introl eq_refl)) as [Wa La].
    pose proof (node_tests_exact (EmStar a) W B) as T.
    cbn [em_ok em_fits]. rewrite IHa by (auto; lia). f_equal. exact T.
  - pose proof (child_size_le (EmPlus a) a W (or_introl eq_refl)) as [Wa La].
    pose proof (node_tests_exact (EmPlus a) W B) as T.
    cbn [em_ok em_fits]. rewrite IHa by (auto; lia). f_equal. exact T.
  - pose proof (child_size_le (EmRange lo hi a) a W (or_introl eq_refl)) as [Wa La].
    pose proof (node_tests_exact (EmRange lo hi a) W B) as T.
    cbn [em_ok em_fits]. rewrite IHa by (auto; lia). f_equal. exact T.
Qed.

(* the boundaries, per emit site, as sizes of the sub-expression (in bytes of code) *)
Definition em_body (k : Z) : emrx := EmRep k EmLit.       (* 2k bytes *)
Lemma boundaries :
  (* alternative, first branch: size(e1) + 7 <= 32767 *)
  em_ok (EmAlt (EmCat (em_body 16379) (EmCat EmAny EmAny)) EmLit) = true /\ em_ok (EmAlt (EmCat (em_body 16380) EmAny) EmLit) = false /\
  (* alternative, second branch: 3 + size(e2) <= 32767 *)
  em_ok (EmAlt EmLit (em_body 16382)) = true /\ em_ok (EmAlt EmLit (EmCat (em_body 16382) EmAny)) = false /\
  (* star: size(e) + 7 <= 32767 (the backward jump, size(e) + 4 <= 32768, is never the binding test) *)
  em_ok (EmStar (em_body 16380)) = true /\ em_ok (EmStar (EmCat (em_body 16380) EmAny)) = false /\
  (* plus: size(e) <= 32768 *)
  em_ok (EmPlus (em_body 16384)) = true /\ em_ok (EmPlus (EmCat (em_body 16384) EmAny)) = false /\
  (* e?, e{n,m}: 4 + size(e) <= 32767 *)
  em_ok (EmRange 0 1 (EmCat (em_body 16381) EmAny)) = true /\ em_ok (EmRange 0 1 (em_body 16382)) = false /\
  em_ok (EmRange 2 32767 (EmCat (em_body 16381) EmAny)) = true /\ em_ok (EmRange 2 32767 (em_body 16382)) = false /\
  (* e{n}: no split, no 16-bit offset at all *)
  em_ok (EmRange 3 3 (em_body 20000)) = true.
Proof. repeat split; vm_compute; reflexivity. Qed.

(* faithful-model quirk: e{0} emits no code, and a + over it has distance 0, which the unsigned test reads as too large *)
Lemma plus_over_empty_refuted : em_fits (EmPlus (EmRange 0 0 EmLit)) = true /\ em_ok (EmPlus (EmRange 0 0 EmLit)) = false.
Proof. split; vm_compute; reflexivity. Qed.
