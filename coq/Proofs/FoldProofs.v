(* Proofs about the generated models of compile-time folding (grammar.y) and the integer VM cases
   (exec.c): gen/GenFold.v is regenerated from the sources on every run, so these proofs are
   re-checked against what the code says now. *)
From Coq Require Import ZArith Lia Bool List.
From YV Require Import gen.GenConsts Base.CSem gen.GenFold Spec.IntSpec.
Local Open Scope Z_scope.

Ltac unfold_sem :=
  cbv [run_stmt fold_result vm_result s_seq s_ifb s_set_value s_set_result s_fail_if s_stop s_skip init_state trapped
       cb2 cb_lt cb_gt cb_le cb_ge cb_eq cb_ne cb_is_undef cb_nz
       c_land c_lor c_cond c_lnot c_is_undef c_add c_sub c_mul c_div c_rem c_shl c_shr c_band c_bor c_bxor
       c_lt c_gt c_le c_ge c_eq c_ne c_neg c_bnot c_llabs lift1 lift2 f_result f_value f_status].

Ltac is_lit x := lazymatch x with Z0 => idtac | Zpos _ => idtac | Zneg _ => idtac | _ => is_const x end.

Ltac const_cmp1 :=
  match goal with
  | |- context [wrap64 (- ?x)] => is_lit x; let r := eval vm_compute in (wrap64 (- x)) in change (wrap64 (- x)) with r
  | |- context [Z.eqb ?x ?y] => is_lit x; is_lit y; let r := eval vm_compute in (Z.eqb x y) in change (Z.eqb x y) with r
  | |- context [Z.ltb ?x ?y] => is_lit x; is_lit y; let r := eval vm_compute in (Z.ltb x y) in change (Z.ltb x y) with r
  | |- context [Z.leb ?x ?y] => is_lit x; is_lit y; let r := eval vm_compute in (Z.leb x y) in change (Z.leb x y) with r
  end.

Ltac simp := repeat (cbv beta iota; cbn [negb andb orb]; const_cmp1); cbv beta iota; cbn [negb andb orb].

Ltac split_atom :=
  match goal with
  | |- context [if ?c then _ else _] =>
      lazymatch c with
      | negb (?f ?x ?y) => destruct (f x y) eqn:?
      | ?f ?x ?y => destruct (f x y) eqn:?
      end
  end; simp.

Ltac to_arith :=
  cbn [andb orb negb] in *;
  repeat match goal with
  | H : (_ && _) = true |- _ => apply andb_true_iff in H; destruct H
  | H : (_ && _) = false |- _ => apply andb_false_iff in H; destruct H
  | H : (_ =? _) = true |- _ => apply Z.eqb_eq in H
  | H : (_ =? _) = false |- _ => apply Z.eqb_neq in H
  | H : (_ <? _) = true |- _ => apply Z.ltb_lt in H
  | H : (_ <? _) = false |- _ => apply Z.ltb_ge in H
  | H : (_ <=? _) = true |- _ => apply Z.leb_le in H
  | H : (_ <=? _) = false |- _ => apply Z.leb_gt in H
  end.

Ltac crunch := unfold_sem; simp; repeat split_atom.
Ltac arith :=
  repeat match goal with H : context [if ?c then _ else _] |- _ =>
    lazymatch c with true => fail | false => fail | _ => idtac end; destruct c eqn:?; cbv beta iota in H end;
  to_arith; unfold YR_UNDEFINED, INT64_MIN, INT64_MAX, in64 in *; lia.

(* ------------------------------------------------------------------ folding agrees with the VM *)
Definition agrees2 (fold : Z -> Z -> foldres) (vm : Z -> Z -> vmres) : Prop :=
  forall a b v, fold a b = Folded v -> a <> YR_UNDEFINED -> b <> YR_UNDEFINED -> vm a b = VVal v.
Definition agrees1 (fold : Z -> foldres) (vm : Z -> vmres) : Prop :=
  forall a v, fold a = Folded v -> a <> YR_UNDEFINED -> vm a = VVal v.

Ltac agree := intros a b v; unfold vm_of_fold_add, vm_of_fold_sub, vm_of_fold_mul, vm_of_fold_div,
  vm_of_fold_mod, vm_of_fold_bxor, vm_of_fold_band, vm_of_fold_bor, vm_of_fold_shl, vm_of_fold_shr;
  match goal with |- ?f a b = _ -> _ -> _ -> ?g a b = _ => unfold f, g end;
  crunch; intros; first [congruence | exfalso; timeout 20 arith].

Lemma fold_add_agrees : agrees2 fold_add vm_of_fold_add. Proof. agree. Qed.
Lemma fold_sub_agrees : agrees2 fold_sub vm_of_fold_sub. Proof. agree. Qed.
Lemma fold_mul_agrees : agrees2 fold_mul vm_of_fold_mul. Proof. agree. Qed.
Lemma fold_div_agrees : agrees2 fold_div vm_of_fold_div. Proof. agree. Qed.
Lemma fold_mod_agrees : agrees2 fold_mod vm_of_fold_mod. Proof. agree. Qed.
Lemma fold_bxor_agrees : agrees2 fold_bxor vm_of_fold_bxor. Proof. agree. Qed.
Lemma fold_band_agrees : agrees2 fold_band vm_of_fold_band. Proof. agree. Qed.
Lemma fold_bor_agrees : agrees2 fold_bor vm_of_fold_bor. Proof. agree. Qed.
Lemma fold_shl_agrees : agrees2 fold_shl vm_of_fold_shl. Proof. agree. Qed.
Lemma fold_shr_agrees : agrees2 fold_shr vm_of_fold_shr. Proof. agree. Qed.
Lemma fold_neg_agrees : agrees1 fold_neg vm_of_fold_neg.
Proof. intros a v. unfold vm_of_fold_neg, fold_neg, vm_OP_INT_MINUS. crunch; intros; first [congruence | exfalso; timeout 20 arith]. Qed.
Lemma fold_bnot_agrees : agrees1 fold_bnot vm_of_fold_bnot.
Proof. intros a v. unfold vm_of_fold_bnot, fold_bnot, vm_OP_BITWISE_NOT. crunch; intros; first [congruence | exfalso; timeout 20 arith]. Qed.

(* ------------------------------------------------------------------ the compiler never traps *)
Ltac notrap f := intros a b Ha Hb; unfold f; crunch; first [discriminate | exfalso; timeout 20 arith].

Lemma fold_add_no_trap : forall a b, in64 a -> in64 b -> fold_add a b <> FTrap. Proof. notrap fold_add. Qed.
Lemma fold_sub_no_trap : forall a b, in64 a -> in64 b -> fold_sub a b <> FTrap. Proof. notrap fold_sub. Qed.
Lemma fold_mul_no_trap : forall a b, in64 a -> in64 b -> fold_mul a b <> FTrap. Proof. notrap fold_mul. Qed.
Lemma fold_div_no_trap : forall a b, in64 a -> in64 b -> fold_div a b <> FTrap. Proof. notrap fold_div. Qed.
Lemma fold_mod_no_trap : forall a b, in64 a -> in64 b -> fold_mod a b <> FTrap. Proof. notrap fold_mod. Qed.
Lemma fold_bxor_no_trap : forall a b, in64 a -> in64 b -> fold_bxor a b <> FTrap. Proof. notrap fold_bxor. Qed.
Lemma fold_band_no_trap : forall a b, in64 a -> in64 b -> fold_band a b <> FTrap. Proof. notrap fold_band. Qed.
Lemma fold_bor_no_trap : forall a b, in64 a -> in64 b -> fold_bor a b <> FTrap. Proof. notrap fold_bor. Qed.
Lemma fold_shl_no_trap : forall a b, in64 a -> in64 b -> fold_shl a b <> FTrap. Proof. notrap fold_shl. Qed.
Lemma fold_shr_no_trap : forall a b, in64 a -> in64 b -> fold_shr a b <> FTrap. Proof. notrap fold_shr. Qed.

(* ------------------------------------------------------------------ the VM computes the documented operators *)
Definition enc (o : option Z) : vmres := match o with Some v => VVal v | None => VVal YR_UNDEFINED end.

Ltac vmspec f g := intros a b Ha Hb; unfold f, g; crunch; unfold enc;
  repeat match goal with |- context [if ?c then _ else _] => destruct c eqn:? end;
  first [reflexivity | exfalso; timeout 20 arith].

Lemma vm_add_spec : forall a b, a <> YR_UNDEFINED -> b <> YR_UNDEFINED -> vm_OP_INT_ADD a b = enc (spec_add a b).
Proof. vmspec vm_OP_INT_ADD spec_add. Qed.
Lemma vm_sub_spec : forall a b, a <> YR_UNDEFINED -> b <> YR_UNDEFINED -> vm_OP_INT_SUB a b = enc (spec_sub a b).
Proof. vmspec vm_OP_INT_SUB spec_sub. Qed.
Lemma vm_mul_spec : forall a b, a <> YR_UNDEFINED -> b <> YR_UNDEFINED -> vm_OP_INT_MUL a b = enc (spec_mul a b).
Proof. vmspec vm_OP_INT_MUL spec_mul. Qed.
Lemma vm_div_spec : forall a b, a <> YR_UNDEFINED -> b <> YR_UNDEFINED -> vm_OP_INT_DIV a b = enc (spec_div a b).
Proof. vmspec vm_OP_INT_DIV spec_div. Qed.
Lemma vm_mod_spec : forall a b, a <> YR_UNDEFINED -> b <> YR_UNDEFINED -> vm_OP_MOD a b = enc (spec_mod a b).
Proof. vmspec vm_OP_MOD spec_mod. Qed.
Lemma vm_shl_spec : forall a b, a <> YR_UNDEFINED -> b <> YR_UNDEFINED -> vm_OP_SHL a b = enc (spec_shl a b).
Proof. vmspec vm_OP_SHL spec_shl. Qed.
Lemma vm_shr_spec : forall a b, a <> YR_UNDEFINED -> b <> YR_UNDEFINED -> vm_OP_SHR a b = enc (spec_shr a b).
Proof. vmspec vm_OP_SHR spec_shr. Qed.
Lemma vm_band_spec : forall a b, a <> YR_UNDEFINED -> b <> YR_UNDEFINED -> vm_OP_BITWISE_AND a b = enc (spec_band a b).
Proof. vmspec vm_OP_BITWISE_AND spec_band. Qed.
Lemma vm_bor_spec : forall a b, a <> YR_UNDEFINED -> b <> YR_UNDEFINED -> vm_OP_BITWISE_OR a b = enc (spec_bor a b).
Proof. vmspec vm_OP_BITWISE_OR spec_bor. Qed.
Lemma vm_bxor_spec : forall a b, a <> YR_UNDEFINED -> b <> YR_UNDEFINED -> vm_OP_BITWISE_XOR a b = enc (spec_bxor a b).
Proof. vmspec vm_OP_BITWISE_XOR spec_bxor. Qed.
Lemma vm_eq_spec : forall a b, a <> YR_UNDEFINED -> b <> YR_UNDEFINED -> vm_OP_INT_EQ a b = enc (spec_cmp Z.eqb a b).
Proof. vmspec vm_OP_INT_EQ spec_cmp. Qed.
Lemma vm_neq_spec : forall a b, a <> YR_UNDEFINED -> b <> YR_UNDEFINED -> vm_OP_INT_NEQ a b = enc (spec_cmp (fun x y => negb (x =? y)) a b).
Proof. vmspec vm_OP_INT_NEQ spec_cmp. Qed.
Lemma vm_lt_spec : forall a b, a <> YR_UNDEFINED -> b <> YR_UNDEFINED -> vm_OP_INT_LT a b = enc (spec_cmp Z.ltb a b).
Proof. vmspec vm_OP_INT_LT spec_cmp. Qed.
Lemma vm_gt_spec : forall a b, a <> YR_UNDEFINED -> b <> YR_UNDEFINED -> vm_OP_INT_GT a b = enc (spec_cmp (fun x y => y <? x) a b).
Proof. vmspec vm_OP_INT_GT spec_cmp. Qed.
Lemma vm_le_spec : forall a b, a <> YR_UNDEFINED -> b <> YR_UNDEFINED -> vm_OP_INT_LE a b = enc (spec_cmp Z.leb a b).
Proof. vmspec vm_OP_INT_LE spec_cmp. Qed.
Lemma vm_ge_spec : forall a b, a <> YR_UNDEFINED -> b <> YR_UNDEFINED -> vm_OP_INT_GE a b = enc (spec_cmp (fun x y => y <=? x) a b).
Proof. vmspec vm_OP_INT_GE spec_cmp. Qed.

(* undefined operands: every binary integer VM case yields undefined *)
Ltac vmundef f := intros a b H; unfold f; crunch; first [reflexivity | exfalso; destruct H; timeout 20 arith].
Lemma vm_undef_propagates_add : forall a b, a = YR_UNDEFINED \/ b = YR_UNDEFINED -> vm_OP_INT_ADD a b = VVal YR_UNDEFINED.
Proof. vmundef vm_OP_INT_ADD. Qed.

(* ------------------------------------------------------------------ boolean opcodes and undefined values (C04) *)
Definition truthZ (x : Z) : bool := negb (x =? YR_UNDEFINED) && negb (x =? 0).

Lemma vm_and_spec : forall a b, vm_OP_AND a b = VVal (b2z (truthZ a && truthZ b)).
Proof. intros a b. unfold vm_OP_AND, truthZ. crunch; unfold b2z; repeat match goal with |- context [if ?c then _ else _] => destruct c eqn:? end; first [reflexivity | exfalso; timeout 20 arith]. Qed.

Lemma vm_or_spec : forall a b, vm_OP_OR a b = VVal (b2z (truthZ a || truthZ b)).
Proof. intros a b. unfold vm_OP_OR, truthZ. crunch; unfold b2z; repeat match goal with |- context [if ?c then _ else _] => destruct c eqn:? end; first [reflexivity | exfalso; timeout 20 arith]. Qed.

Lemma vm_not_spec : forall a, vm_OP_NOT a = VVal (if a =? YR_UNDEFINED then YR_UNDEFINED else b2z (a =? 0)).
Proof. intros a. unfold vm_OP_NOT. crunch; unfold b2z; repeat match goal with |- context [if ?c then _ else _] => destruct c eqn:? end; first [reflexivity | exfalso; timeout 20 arith]. Qed.

Ltac vmundef2 f := intros a b H; unfold f; crunch; first [reflexivity | exfalso; destruct H; timeout 20 arith].
Lemma vm_undef_sub : forall a b, a = YR_UNDEFINED \/ b = YR_UNDEFINED -> vm_OP_INT_SUB a b = VVal YR_UNDEFINED. Proof. vmundef2 vm_OP_INT_SUB. Qed.
Lemma vm_undef_mul : forall a b, a = YR_UNDEFINED \/ b = YR_UNDEFINED -> vm_OP_INT_MUL a b = VVal YR_UNDEFINED. Proof. vmundef2 vm_OP_INT_MUL. Qed.
Lemma vm_undef_div : forall a b, a = YR_UNDEFINED \/ b = YR_UNDEFINED -> vm_OP_INT_DIV a b = VVal YR_UNDEFINED. Proof. vmundef2 vm_OP_INT_DIV. Qed.
Lemma vm_undef_mod : forall a b, a = YR_UNDEFINED \/ b = YR_UNDEFINED -> vm_OP_MOD a b = VVal YR_UNDEFINED. Proof. vmundef2 vm_OP_MOD. Qed.
Lemma vm_undef_shl : forall a b, a = YR_UNDEFINED \/ b = YR_UNDEFINED -> vm_OP_SHL a b = VVal YR_UNDEFINED. Proof. vmundef2 vm_OP_SHL. Qed.
Lemma vm_undef_shr : forall a b, a = YR_UNDEFINED \/ b = YR_UNDEFINED -> vm_OP_SHR a b = VVal YR_UNDEFINED. Proof. vmundef2 vm_OP_SHR. Qed.
Lemma vm_undef_band : forall a b, a = YR_UNDEFINED \/ b = YR_UNDEFINED -> vm_OP_BITWISE_AND a b = VVal YR_UNDEFINED. Proof. vmundef2 vm_OP_BITWISE_AND. Qed.
Lemma vm_undef_bor : forall a b, a = YR_UNDEFINED \/ b = YR_UNDEFINED -> vm_OP_BITWISE_OR a b = VVal YR_UNDEFINED. Proof. vmundef2 vm_OP_BITWISE_OR. Qed.
Lemma vm_undef_bxor : forall a b, a = YR_UNDEFINED \/ b = YR_UNDEFINED -> vm_OP_BITWISE_XOR a b = VVal YR_UNDEFINED. Proof. vmundef2 vm_OP_BITWISE_XOR. Qed.
Lemma vm_undef_eq : forall a b, a = YR_UNDEFINED \/ b = YR_UNDEFINED -> vm_OP_INT_EQ a b = VVal YR_UNDEFINED. Proof. vmundef2 vm_OP_INT_EQ. Qed.
Lemma vm_undef_neq : forall a b, a = YR_UNDEFINED \/ b = YR_UNDEFINED -> vm_OP_INT_NEQ a b = VVal YR_UNDEFINED. Proof. vmundef2 vm_OP_INT_NEQ. Qed.
Lemma vm_undef_lt : forall a b, a = YR_UNDEFINED \/ b = YR_UNDEFINED -> vm_OP_INT_LT a b = VVal YR_UNDEFINED. Proof. vmundef2 vm_OP_INT_LT. Qed.
Lemma vm_undef_gt : forall a b, a = YR_UNDEFINED \/ b = YR_UNDEFINED -> vm_OP_INT_GT a b = VVal YR_UNDEFINED. Proof. vmundef2 vm_OP_INT_GT. Qed.
Lemma vm_undef_le : forall a b, a = YR_UNDEFINED \/ b = YR_UNDEFINED -> vm_OP_INT_LE a b = VVal YR_UNDEFINED. Proof. vmundef2 vm_OP_INT_LE. Qed.
Lemma vm_undef_ge : forall a b, a = YR_UNDEFINED \/ b = YR_UNDEFINED -> vm_OP_INT_GE a b = VVal YR_UNDEFINED. Proof. vmundef2 vm_OP_INT_GE. Qed.
