(* C15: proofs about Model/Limits.v over the generated operators/constants (gen/GenLimits.v, gen/GenConsts.v).
   A change of an operator or of a structural fact in the source changes GenLimits.v and breaks the
   corresponding lemma here. *)
From Coq Require Import ZArith NArith List Bool Lia.
From YV Require Import Base.Cmp gen.GenConsts gen.GenLimits Model.Limits.
Import ListNotations.
Local Open Scope Z_scope.

(* ------------------------------------------------------------------ counters *)
Lemma iter_step_exact : forall (rej : Z -> bool) (init top : Z),
  init <= top ->
  (forall c, init <= c <= top -> (rej c = true <-> c = top)) ->
  forall k : nat,
    (init + Z.of_nat k <= top -> Nat.iter k (lim_step rej) (Some init) = Some (init + Z.of_nat k)) /\
    (top < init + Z.of_nat k -> Nat.iter k (lim_step rej) (Some init) = None).
Proof.
  intros rej init top Hle Hrej k. induction k as [|k [IH1 IH2]].
  - split; intros H.
    + simpl. f_equal. lia.
    + simpl in H. lia.
  - rewrite Nat2Z.inj_succ. split; intros H.
    + simpl. rewrite IH1 by lia. simpl.
      destruct (rej (init + Z.of_nat k)) eqn:E.
      * apply Hrej in E; lia.
      * f_equal. lia.
    + simpl. destruct (Z_lt_le_dec top (init + Z.of_nat k)) as [Hgt|Hle'].
      * rewrite IH2 by lia. reflexivity.
      * rewrite IH1 by lia. simpl.
        assert (Heq : init + Z.of_nat k = top) by lia.
        destruct (rej (init + Z.of_nat k)) eqn:E; [reflexivity|].
        assert (Ht : rej (init + Z.of_nat k) = true) by (apply Hrej; lia).
        congruence.
Qed.

Lemma feed_exact : forall (rej : Z -> bool) (init top : Z),
  init <= top ->
  (forall c, init <= c <= top -> (rej c = true <-> c = top)) ->
  forall n : N, lim_accepted (lim_feed rej n init) = true <-> init + Z.of_N n <= top.
Proof.
  intros rej init top Hle Hrej n. unfold lim_feed. rewrite N2Nat.inj_iter.
  destruct (iter_step_exact rej init top Hle Hrej (N.to_nat n)) as [H1 H2].
  rewrite N_nat_Z in H1, H2.
  destruct (Z_le_gt_dec (init + Z.of_N n) top) as [Hok|Hbad].
  - rewrite H1 by exact Hok. simpl. split; intros _; [exact Hok|reflexivity].
  - rewrite H2 by lia. simpl. split; intros H; [discriminate|lia].
Qed.

Lemma feed_value : forall (rej : Z -> bool) (init top : Z),
  init <= top ->
  (forall c, init <= c <= top -> (rej c = true <-> c = top)) ->
  forall n : N, init + Z.of_N n <= top -> lim_feed rej n init = Some (init + Z.of_N n).
Proof.
  intros rej init top Hle Hrej n H. unfold lim_feed. rewrite N2Nat.inj_iter.
  destruct (iter_step_exact rej init top Hle Hrej (N.to_nat n)) as [H1 _].
  rewrite N_nat_Z in H1. exact (H1 H).
Qed.

(* ------------------------------------------------------------------ matches per string *)
Lemma match_cap_limit_pos : 0 < match_cap_limit.
Proof. unfold match_cap_limit, YR_MAX_STRING_MATCHES. lia. Qed.

Lemma match_add_rejects_spec : forall c, 0 <= c <= match_cap_limit -> (match_add_rejects c = true <-> c = match_cap_limit).
Proof.
  intros c Hc. unfold match_add_rejects. rewrite cmp_true_iff.
  unfold match_cap_op, match_cap_test_first, lim_seen, cmp_prop. lia.
Qed.

(* the L-th match is stored, the (L+1)-th is refused *)
Lemma limit_exact_matches_proof : forall n : N, accepts_matches n = true <-> Z.of_N n <= YR_MAX_STRING_MATCHES.
Proof.
  intros n. unfold accepts_matches.
  rewrite (feed_exact match_add_rejects 0 match_cap_limit).
  - unfold match_cap_limit. lia.
  - pose proof match_cap_limit_pos; lia.
  - exact match_add_rejects_spec.
Qed.

Lemma add_match_none_iff : forall off m, add_match off m = None <-> match_add_rejects (ml_count m) = true.
Proof.
  intros off m. unfold add_match. destruct (match_add_rejects (ml_count m)).
  - split; reflexivity.
  - destruct (ins off (ml_offs m)). split; discriminate.
Qed.

(* count = number of stored offsets, and never exceeds the cap *)
Lemma ins_length : forall x l, length (fst (ins x l)) = (if snd (ins x l) then S (length l) else length l).
Proof.
  intros x l. induction l as [|y t IH]; simpl.
  - reflexivity.
  - destruct (x =? y); [reflexivity|]. destruct (x <? y); [reflexivity|].
    destruct (ins x t) as [t' b]. simpl in *. rewrite IH. destruct b; reflexivity.
Qed.

Definition ml_wf (m : mlist) : Prop := ml_count m = Z.of_nat (length (ml_offs m)) /\ ml_count m <= match_cap_limit.

Lemma add_match_wf : forall off m m', ml_wf m -> add_match off m = Some m' -> ml_wf m'.
Proof.
  intros off m m' [Hc Hb] H. unfold add_match in H.
  destruct (match_add_rejects (ml_count m)) eqn:E; [discriminate|].
  assert (Hlt : ml_count m < match_cap_limit).
  { destruct (Z.eq_dec (ml_count m) match_cap_limit) as [Heq|Hne]; [|lia].
    assert (match_add_rejects (ml_count m) = true) by (apply match_add_rejects_spec; lia). congruence. }
  pose proof (ins_length off (ml_offs m)) as HL.
  destruct (ins off (ml_offs m)) as [l b]. inversion H; subst; clear H.
  unfold ml_wf; simpl in *. destruct b; rewrite HL; split; lia.
Qed.

(* isolation: with a callback that answers CONTINUE, what string s does (including hitting the cap
   and being disabled) never changes the match list of another string *)
Lemma continue_result_is_success : too_many_continue_result =? ERROR_SUCCESS = true.
Proof. reflexivity. Qed.

Definition agree_except (s : nat) (c1 c2 : ctx) : Prop :=
  cx_rc c1 = ERROR_SUCCESS /\ cx_rc c2 = ERROR_SUCCESS /\ forall x, x <> s -> cx_str c1 x = cx_str c2 x.

Lemma verify_own : forall answer s c1 c2 off,
  (forall x, answer x = true) -> agree_except s c1 c2 -> agree_except s (verify answer c1 (s, off)) c2.
Proof.
  intros answer s c1 c2 off Hans (R1 & R2 & Hs). unfold verify.
  rewrite R1. change (negb (ERROR_SUCCESS =? ERROR_SUCCESS)) with false. cbv iota.
  destruct (disabled_string_skipped && ss_disabled (cx_str c1 s)).
  - repeat split; assumption.
  - destruct (add_match off (ss_ml (cx_str c1 s))) as [m'|].
    + repeat split; simpl; try assumption.
      intros x Hx. unfold upd. destruct (Nat.eqb_spec x s); [contradiction|]. apply Hs; assumption.
    + rewrite Hans. split; [|split]; simpl.
      * apply Z.eqb_eq. exact continue_result_is_success.
      * assumption.
      * intros x Hx. unfold upd. destruct (Nat.eqb_spec x s); [contradiction|]. apply Hs; assumption.
Qed.

Lemma verify_other : forall answer s c1 c2 x off,
  (forall y, answer y = true) -> x <> s -> agree_except s c1 c2 ->
  agree_except s (verify answer c1 (x, off)) (verify answer c2 (x, off)).
Proof.
  intros answer s c1 c2 x off Hans Hx (R1 & R2 & Hs). unfold verify.
  rewrite R1, R2. change (negb (ERROR_SUCCESS =? ERROR_SUCCESS)) with false. cbv iota.
  rewrite <- (Hs x Hx).
  destruct (disabled_string_skipped && ss_disabled (cx_str c1 x)).
  - repeat split; assumption.
  - destruct (add_match off (ss_ml (cx_str c1 x))) as [m'|].
    + repeat split; simpl; try assumption.
      intros y Hy. unfold upd. destruct (Nat.eqb y x); [reflexivity|]. apply Hs; assumption.
    + rewrite Hans. split; [|split]; simpl; try (apply Z.eqb_eq; exact continue_result_is_success).
      intros y Hy. unfold upd. destruct (Nat.eqb y x); [reflexivity|]. apply Hs; assumption.
Qed.

Lemma run_isolated_gen : forall answer s evs c1 c2,
  (forall x, answer x = true) -> agree_except s c1 c2 ->
  agree_except s (fold_left (verify answer) evs c1)
                 (fold_left (verify answer) (filter (fun e => negb (Nat.eqb (fst e) s)) evs) c2).
Proof.
  intros answer s evs. induction evs as [|[x off] evs IH]; intros c1 c2 Hans HR.
  - exact HR.
  - simpl. destruct (Nat.eqb_spec x s) as [->|Hne]; simpl.
    + apply IH; [assumption|]. apply verify_own; assumption.
    + apply IH; [assumption|]. apply verify_other; assumption.
Qed.

Lemma limit_isolated_proof : forall (answer : nat -> bool) (evs : list (nat * Z)) (s s' : nat),
  (forall x, answer x = true) -> s' <> s ->
  matches_of (run answer evs) s' = matches_of (run answer (filter (fun e => negb (Nat.eqb (fst e) s)) evs)) s' /\
  cx_rc (run answer evs) = ERROR_SUCCESS.
Proof.
  intros answer evs s s' Hans Hne.
  assert (H0 : agree_except s ctx0 ctx0) by (repeat split; reflexivity).
  destruct (run_isolated_gen answer s evs ctx0 ctx0 Hans H0) as (R1 & _ & Hs).
  split; [|exact R1]. unfold matches_of, run. rewrite (Hs s' Hne). reflexivity.
Qed.

(* ... while a callback that does not answer CONTINUE makes the whole scan fail with the documented
   error: not silent *)
Lemma abort_not_silent_proof : forall (evs : list (nat * Z)) (c : ctx),
  cx_rc c <> ERROR_SUCCESS -> fold_left (verify (fun _ => false)) evs c = c.
Proof.
  intros evs. induction evs as [|e evs IH]; intros c Hc; [reflexivity|].
  simpl. assert (Hv : verify (fun _ => false) c e = c).
  { unfold verify. destruct (cx_rc c =? ERROR_SUCCESS) eqn:E; [apply Z.eqb_eq in E; contradiction|reflexivity]. }
  rewrite Hv. apply IH; assumption.
Qed.

(* slow-scanning warning window, and the fact that only the string with index 0 is looked at *)
Lemma slow_window_proof : forall c, slow_final true c = true <-> YR_SLOW_STRING_MATCHES <= c < YR_MAX_STRING_MATCHES.
Proof.
  intros c. unfold slow_final. rewrite !andb_true_iff, !cmp_true_iff.
  unfold slow_final_lo_op, slow_final_hi_op, slow_final_lo, slow_final_hi, cmp_prop. intuition.
Qed.

Lemma slow_other_strings_unseen_proof :
  exists (counts : nat -> Z) (s : nat), s <> 0%nat /\ YR_SLOW_STRING_MATCHES <= counts s < YR_MAX_STRING_MATCHES /\
     slow_visit (slow_observed counts) = false /\ slow_final true (slow_observed counts) = false.
Proof.
  exists (fun x => if Nat.eqb x 1 then 700000 else 0), 1%nat.
  split; [discriminate|]. split; [vm_compute; split; [discriminate|reflexivity]|].
  split; vm_compute; reflexivity.
Qed.

(* ------------------------------------------------------------------ match data *)
Lemma match_data_exact_proof : forall m len, 0 <= m < 2147483648 -> match_data_len m len = Z.min len m.
Proof.
  intros m len Hm. unfold match_data_len, match_data_cast_int32, to_int32.
  replace ((m + 2147483648) mod 4294967296) with (m + 2147483648).
  - f_equal. lia.
  - symmetry. apply Z.mod_small. lia.
Qed.

Lemma match_data_negative_proof : exists m len, 0 <= m < 4294967296 /\ 0 < len /\ match_data_len m len < 0.
Proof. exists 2147483648, 5. vm_compute. repeat split; intros; discriminate. Qed.

(* ------------------------------------------------------------------ VM stack *)
Lemma limit_exact_vm_stack_proof : forall (cap : Z) (d : N), 0 <= cap -> (accepts_vm_stack cap d = true <-> Z.of_N d <= cap).
Proof.
  intros cap d Hcap. unfold accepts_vm_stack.
  rewrite (feed_exact (fun sp => negb (vm_push_stores sp cap)) vm_sp_init cap).
  - unfold vm_sp_init. lia.
  - unfold vm_sp_init. lia.
  - intros c Hc. rewrite negb_true_iff. unfold vm_push_stores. rewrite cmp_false_iff.
    unfold vm_push_op, cmp_prop. unfold vm_sp_init in Hc. lia.
Qed.

Lemma vm_iter_exact_proof :
  Forall (fun chk => forall sp cap, vm_iter_accepts chk sp cap = true <-> sp + (fst chk + 1) <= cap) vm_iter_checks.
Proof.
  unfold vm_iter_checks.
  repeat (apply Forall_cons; [intros sp cap; unfold vm_iter_accepts; rewrite negb_true_iff, cmp_false_iff; simpl; lia|]).
  apply Forall_nil.
Qed.

(* ------------------------------------------------------------------ regular expressions *)
Lemma limit_exact_splits_proof : forall n : N, accepts_splits n = true <-> Z.of_N n <= RE_MAX_SPLIT_ID.
Proof.
  intros n. unfold accepts_splits.
  rewrite (feed_exact split_rejects 0 split_id_limit).
  - unfold split_id_limit. lia.
  - unfold split_id_limit, RE_MAX_SPLIT_ID. lia.
  - intros c Hc. unfold split_rejects. rewrite cmp_true_iff.
    unfold split_id_op, split_id_test_first, lim_seen, cmp_prop. lia.
Qed.

Lemma limit_exact_fibers_proof : forall n : N, accepts_fibers n = true <-> Z.of_N n <= RE_MAX_FIBERS.
Proof.
  intros n. unfold accepts_fibers.
  rewrite (feed_exact fiber_rejects 0 fiber_limit).
  - unfold fiber_limit. lia.
  - unfold fiber_limit, RE_MAX_FIBERS. lia.
  - intros c Hc. unfold fiber_rejects. rewrite cmp_true_iff.
    unfold fiber_op, fiber_test_first, lim_seen, cmp_prop. lia.
Qed.

Lemma limit_exact_re_range_proof : forall hi, re_range_rejects hi = false <-> hi <= RE_MAX_RANGE.
Proof.
  intros hi. unfold re_range_rejects. rewrite cmp_false_iff. unfold re_range_op, re_range_limit, cmp_prop. lia.
Qed.

(* the fiber stack (uint16_t stack[RE_MAX_STACK]) has no test of its own: one slot per enclosing
   e{n,m} with a repeat section; such a node emits the code of e at least twice more (prolog and
   epilog), and a repeat section larger than INT16_MAX is refused, so nesting is logarithmic *)
Fixpoint pow3 (d : nat) : Z := match d with O => 1 | S d' => 3 * pow3 d' end.
Lemma pow3_pos : forall d, 0 < pow3 d.
Proof. induction d as [|d IH]; [reflexivity|]. change (pow3 (S d)) with (3 * pow3 d). lia. Qed.
Lemma pow3_grows : forall d, Z.of_nat d < pow3 d.
Proof.
  induction d as [|d IH]; [reflexivity|]. rewrite Nat2Z.inj_succ. change (pow3 (S d)) with (3 * pow3 d).
  pose proof (pow3_pos d). lia.
Qed.
Lemma re_stack_depth_bounded_proof : forall d : nat, pow3 d <= 32767 -> Z.of_nat d < RE_MAX_STACK.
Proof.
  intros d H. pose proof (pow3_grows d).
  destruct (le_lt_dec d 10) as [Hs|Hb].
  - unfold RE_MAX_STACK. lia.
  - exfalso. assert (Hm : forall a b : nat, (a <= b)%nat -> pow3 a <= pow3 b).
    { intros a b Hab. induction Hab; [lia|]. change (pow3 (S m)) with (3 * pow3 m). pose proof (pow3_pos m). lia. }
    specialize (Hm 10%nat d). assert (pow3 10 = 59049) by reflexivity. lia.
Qed.

(* ------------------------------------------------------------------ compiler *)
Lemma limit_exact_loops_proof : forall d : N, accepts_loops d = true <-> Z.of_N d <= YR_MAX_LOOP_NESTING.
Proof.
  intros d. unfold accepts_loops.
  rewrite (feed_exact loop_rejects loop_index_init (loop_nest_limit - 1)).
  - unfold loop_index_init, loop_nest_limit. lia.
  - unfold loop_index_init, loop_nest_limit, YR_MAX_LOOP_NESTING. lia.
  - intros c Hc. unfold loop_rejects. rewrite cmp_true_iff.
    unfold loop_nest_op, loop_nest_add, cmp_prop. lia.
Qed.

Lemma limit_exact_strings_proof : forall (max : Z) (n : N), 0 <= max -> (accepts_strings max n = true <-> Z.of_N n <= max).
Proof.
  intros max n Hmax. unfold accepts_strings.
  rewrite (feed_exact (strings_rejects max) strings_count_init max).
  - unfold strings_count_init. lia.
  - unfold strings_count_init. lia.
  - intros c Hc. unfold strings_rejects. rewrite cmp_true_iff.
    unfold strings_op, cmp_prop. unfold strings_count_init in Hc. lia.
Qed.

Lemma limit_exact_includes_proof : forall d : N, accepts_includes d = true <-> Z.of_N d <= YR_MAX_INCLUDE_DEPTH.
Proof.
  intros d. unfold accepts_includes.
  rewrite (feed_exact include_rejects include_ptr_init include_limit).
  - unfold include_ptr_init, include_limit. lia.
  - unfold include_ptr_init, include_limit, YR_MAX_INCLUDE_DEPTH. lia.
  - intros c Hc. unfold include_rejects. rewrite cmp_true_iff.
    unfold include_op, include_test_first, lim_seen, cmp_prop. unfold include_ptr_init in Hc. lia.
Qed.

(* ------------------------------------------------------------------ lexer *)
Lemma limit_exact_lexbuf_proof : forall len cur, lex_rejects len cur = false <-> len + cur <= YR_LEX_BUF_SIZE - 2.
Proof.
  intros len cur. unfold lex_rejects. rewrite cmp_false_iff.
  unfold lexbuf_op, lexbuf_size, lexbuf_slack, cmp_prop. lia.
Qed.

Lemma limit_exact_ident_proof : forall len, ident_rejects len = false <-> len <= 128.
Proof.
  intros len. unfold ident_rejects. rewrite cmp_false_iff. unfold ident_op, ident_limit, cmp_prop. lia.
Qed.

Lemma kb_div : LLONG_MAX / int_kb_div = 9007199254740991.
Proof. reflexivity. Qed.
Lemma mb_div : LLONG_MAX / int_mb_div = 8796093022207.
Proof. reflexivity. Qed.

Lemma limit_exact_int_literal_proof : forall (v : Z) (s : suffix), 0 <= v ->
  (v * suffix_mul s <= LLONG_MAX -> int_literal v s = Some (v * suffix_mul s)) /\
  (LLONG_MAX < v * suffix_mul s -> int_literal v s = None).
Proof.
  intros v s Hv. unfold int_literal, strtoll_clamp.
  destruct (Z.ltb_spec LLONG_MAX v) as [Hbig|Hsmall].
  - (* strtoll clamped *)
    change (int_clamp_detected && (LLONG_MAX =? LLONG_MAX) && true) with true. cbv iota.
    split; intros H; [|reflexivity].
    exfalso. assert (1 <= suffix_mul s) by (destruct s; vm_compute; discriminate). nia.
  - unfold int_clamp_detected. rewrite andb_false_r.
    destruct s; unfold suffix_mul.
    + split; intros H; [f_equal; lia|]. unfold LLONG_MAX in *. lia.
    + rewrite kb_div. unfold int_kb_op, int_kb_mul.
      destruct (cmp_eval CGt v 9007199254740991) eqn:E.
      * apply cmp_true_iff in E. simpl in E. split; intros H; [unfold LLONG_MAX in *; lia|reflexivity].
      * apply cmp_false_iff in E. simpl in E. split; intros H; [reflexivity|unfold LLONG_MAX in *; lia].
    + rewrite mb_div. unfold int_mb_op, int_mb_mul.
      destruct (cmp_eval CGt v 8796093022207) eqn:E.
      * apply cmp_true_iff in E. simpl in E. split; intros H; [unfold LLONG_MAX in *; lia|reflexivity].
      * apply cmp_false_iff in E. simpl in E. split; intros H; [reflexivity|unfold LLONG_MAX in *; lia].
Qed.

(* ------------------------------------------------------------------ timeout: work between two clock reads *)
Lemma block_spacing_proof : forall i, 0 <= i ->
  exists j, i <= j < i + block_check_modulus /\ block_reads_clock j = true.
Proof.
  intros i Hi. set (m := block_check_modulus). set (r := block_check_residue).
  assert (Hm : 0 < m) by (unfold m, block_check_modulus; lia).
  assert (Hr : 0 <= r < m) by (unfold r, m, block_check_residue, block_check_modulus; lia).
  exists (i + (r - i) mod m). pose proof (Z.mod_pos_bound (r - i) m Hm) as Hb.
  split; [lia|]. unfold block_reads_clock, block_guard_extra. rewrite ?andb_true_r. fold m r. apply Z.eqb_eq.
  rewrite Z.add_mod_idemp_r by lia. replace (i + (r - i)) with r by lia. apply Z.mod_small; exact Hr.
Qed.

Lemma vm_reads_within_gen : forall (k : nat) (c : Z),
  c < vm_check_cycles -> vm_check_cycles <= c + Z.of_nat k -> vm_reads_within k c = true.
Proof.
  induction k as [|k IH]; intros c Hc Hk.
  - simpl in Hk. lia.
  - rewrite Nat2Z.inj_succ in Hk. simpl. unfold vm_tick.
    destruct (cmp_eval vm_check_op (c + 1) vm_check_cycles) eqn:E; [reflexivity|].
    apply cmp_false_iff in E. unfold vm_check_op, cmp_prop in E. apply IH; lia.
Qed.

Lemma vm_tick_invariant : forall c, vm_cycle_reset <= c < vm_check_cycles ->
  vm_cycle_reset <= snd (vm_tick c) < vm_check_cycles.
Proof.
  intros c Hc. unfold vm_tick. destruct (cmp_eval vm_check_op (c + 1) vm_check_cycles) eqn:E; simpl.
  - unfold vm_cycle_reset, vm_check_cycles. lia.
  - apply cmp_false_iff in E. unfold vm_check_op, cmp_prop in E. lia.
Qed.

Lemma timeout_check_spacing_proof :
  (* block loop: from any position the clock is read again within K iterations, one byte each, K <= 4096 *)
  (forall i, 0 <= i -> exists j, i <= j < i + block_check_modulus /\ block_reads_clock j = true) /\
  block_index_step = 1 /\ block_check_modulus <= SPEC_BLOCK_SPACING /\
  (* VM: cycle starts in [reset, M), stays there, and from any such value the clock is read within M
     instructions, M <= 100 *)
  (vm_cycle_reset <= vm_cycle_init < vm_check_cycles) /\
  (forall c, vm_cycle_reset <= c < vm_check_cycles -> vm_cycle_reset <= snd (vm_tick c) < vm_check_cycles) /\
  (forall c, vm_cycle_reset <= c < vm_check_cycles -> vm_reads_within (Z.to_nat vm_check_cycles) c = true) /\
  vm_check_cycles <= SPEC_VM_SPACING.
Proof.
  split; [exact block_spacing_proof|].
  split; [reflexivity|]. split; [vm_compute; discriminate|].
  split; [vm_compute; split; [discriminate|reflexivity]|].
  split; [exact vm_tick_invariant|].
  split; [|vm_compute; discriminate].
  intros c Hc. apply vm_reads_within_gen; [lia|].
  rewrite Z2Nat.id by (unfold vm_check_cycles; lia). unfold vm_cycle_reset in Hc. lia.
Qed.

(* wall clock: only relative to a bound on the cost of one step, which the model does not have *)
Lemma cost_sum_bounded : forall (cost : Z -> Z) (B : Z), 0 <= B -> (forall t, cost t <= B) ->
  forall (k : nat) (s : Z), cost_sum cost s k <= Z.of_nat k * B.
Proof.
  intros cost B HB Hc. induction k as [|k IH]; intros s.
  - simpl. lia.
  - rewrite Nat2Z.inj_succ. simpl. specialize (IH (s + 1)). specialize (Hc s). lia.
Qed.

Lemma timeout_bounded_delay_partial_proof : forall (cost : Z -> Z) (B : Z), 0 <= B -> (forall t, cost t <= B) ->
  (forall i, 0 <= i -> exists k : nat, Z.of_nat k < block_check_modulus /\ block_reads_clock (i + Z.of_nat k) = true /\
                                      cost_sum cost i k <= SPEC_BLOCK_SPACING * B) /\
  (forall (s c : Z), vm_cycle_reset <= c < vm_check_cycles ->
       vm_reads_within (Z.to_nat vm_check_cycles) c = true /\
       cost_sum cost s (Z.to_nat vm_check_cycles) <= SPEC_VM_SPACING * B).
Proof.
  intros cost B HB Hc. split.
  - intros i Hi. destruct (block_spacing_proof i Hi) as (j & Hj & Hread).
    exists (Z.to_nat (j - i)). rewrite Z2Nat.id by lia.
    split; [lia|]. split; [replace (i + (j - i)) with j by lia; exact Hread|].
    pose proof (cost_sum_bounded cost B HB Hc (Z.to_nat (j - i)) i) as Hs.
    rewrite Z2Nat.id in Hs by lia.
    assert (block_check_modulus <= SPEC_BLOCK_SPACING) by (vm_compute; discriminate). nia.
  - intros s c Hcyc. split.
    + destruct timeout_check_spacing_proof as (_ & _ & _ & _ & _ & H & _). apply H; exact Hcyc.
    + pose proof (cost_sum_bounded cost B HB Hc (Z.to_nat vm_check_cycles) s) as Hs.
      rewrite Z2Nat.id in Hs by (unfold vm_check_cycles; lia).
      assert (vm_check_cycles <= SPEC_VM_SPACING) by (vm_compute; discriminate). nia.
Qed.

(* ------------------------------------------------------------------ defaults of the configurable limits *)
Lemma defaults_proof : 0 < cfg_default_stack_size < 4294967296 /\ 0 < cfg_default_max_strings_per_rule < 4294967296 /\
                       0 <= cfg_default_max_match_data < 2147483648 /\
                       exec_MEM_SIZE = YR_MAX_LOOP_NESTING * (YR_MAX_LOOP_VARS + YR_INTERNAL_LOOP_VARS).
Proof. vm_compute. repeat split; intros; discriminate. Qed.

(* ------------------------------------------------------------------ non-vacuity / boundary examples *)
Definition NL (z : Z) : N := Z.to_N z.

Lemma examples_proof :
  accepts_matches (NL YR_MAX_STRING_MATCHES) = true /\ accepts_matches (NL (YR_MAX_STRING_MATCHES + 1)) = false /\
  accepts_vm_stack 4 4 = true /\ accepts_vm_stack 4 5 = false /\ accepts_vm_stack 0 1 = false /\
  accepts_vm_stack cfg_default_stack_size (NL cfg_default_stack_size) = true /\
  accepts_vm_stack cfg_default_stack_size (NL (cfg_default_stack_size + 1)) = false /\
  accepts_splits (NL RE_MAX_SPLIT_ID) = true /\ accepts_splits (NL (RE_MAX_SPLIT_ID + 1)) = false /\
  accepts_fibers (NL RE_MAX_FIBERS) = true /\ accepts_fibers (NL (RE_MAX_FIBERS + 1)) = false /\
  accepts_loops (NL YR_MAX_LOOP_NESTING) = true /\ accepts_loops (NL (YR_MAX_LOOP_NESTING + 1)) = false /\
  accepts_strings cfg_default_max_strings_per_rule (NL cfg_default_max_strings_per_rule) = true /\
  accepts_strings cfg_default_max_strings_per_rule (NL (cfg_default_max_strings_per_rule + 1)) = false /\
  accepts_strings 0 1 = false /\
  accepts_includes (NL YR_MAX_INCLUDE_DEPTH) = true /\ accepts_includes (NL (YR_MAX_INCLUDE_DEPTH + 1)) = false /\
  lex_rejects (YR_LEX_BUF_SIZE - 2) 0 = false /\ lex_rejects (YR_LEX_BUF_SIZE - 1) 0 = true /\
  ident_rejects 128 = false /\ ident_rejects 129 = true /\
  int_literal 9223372036854775807 SNone = Some 9223372036854775807 /\ int_literal 9223372036854775808 SNone = None /\
  int_literal 9007199254740991 SKB = Some 9223372036854774784 /\ int_literal 9007199254740992 SKB = None /\
  re_range_rejects RE_MAX_RANGE = false /\ re_range_rejects (RE_MAX_RANGE + 1) = true.
Proof. vm_compute. repeat split; reflexivity. Qed.

Lemma scan_examples_proof :
  scan_all_match true (NL (YR_SLOW_STRING_MATCHES + 1)) = (YR_SLOW_STRING_MATCHES + 1, 0, false, ERROR_SUCCESS) /\
  scan_all_match true (NL (YR_SLOW_STRING_MATCHES + 2)) = (YR_SLOW_STRING_MATCHES + 2, 0, true, ERROR_SUCCESS) /\
  scan_all_match true (NL YR_MAX_STRING_MATCHES) = (YR_MAX_STRING_MATCHES, 0, false, ERROR_SUCCESS) /\
  scan_all_match true (NL (YR_MAX_STRING_MATCHES + 1)) = (YR_MAX_STRING_MATCHES, 1, false, ERROR_SUCCESS) /\
  scan_all_match false (NL (YR_MAX_STRING_MATCHES + 1)) = (YR_MAX_STRING_MATCHES, 1, false, ERROR_TOO_MANY_MATCHES).
Proof. vm_compute. repeat split; reflexivity. Qed.

Lemma isolation_example_proof :
  let evs := [(0%nat, 1); (1%nat, 7); (0%nat, 2); (1%nat, 9)] in
  matches_of (run (fun _ => true) evs) 1%nat = [7; 9] /\ matches_of (run (fun _ => true) evs) 0%nat = [1; 2].
Proof. vm_compute. split; reflexivity. Qed.


(* the room test of every iterator admits exactly the stores that follow it: with p stores the last one writes
   items[sp + p - 1], which lies inside the buffer iff sp + p <= capacity (p regenerated from exec.c) *)
Lemma Forall2_map_r {A B} (P : A -> B -> Prop) (f : A -> B) (l : list A) :
  Forall (fun x => P x (f x)) l -> Forall2 P l (map f l).
Proof. induction 1; simpl; constructor; auto. Qed.

Lemma vm_iter_room_is_pushes : map (fun c : Z * cmpop => fst c + 1) vm_iter_checks = vm_iter_pushes.
Proof. reflexivity. Qed.

Lemma vm_iter_room_exact_proof :
  Forall2 (fun chk p => forall sp cap, vm_iter_accepts chk sp cap = true <-> sp + p <= cap) vm_iter_checks vm_iter_pushes.
Proof.
  rewrite <- vm_iter_room_is_pushes.
  apply (Forall2_map_r (fun chk p => forall sp cap, vm_iter_accepts chk sp cap = true <-> sp + p <= cap)).
  exact vm_iter_exact_proof.
Qed.

Lemma vm_iter_pushes_example : vm_iter_pushes <> [] /\ Forall (fun p => 2 <= p) vm_iter_pushes.
Proof. split; [discriminate|]. unfold vm_iter_pushes. repeat constructor; discriminate. Qed.


(* seconds -> nanoseconds in yr_scanner_set_timeout: no wrap-around for any timeout the `int` parameter can carry *)
Lemma timeout_ns_exact_proof : forall t, 0 <= t <= timeout_param_max -> timeout_ns t = t * timeout_ns_per_second.
Proof.
  intros t Ht. unfold timeout_param_max in Ht. unfold timeout_ns, timeout_ns_per_second, c_wrap_u, c_wrap_s.
  repeat match goal with
         | |- context [?a mod ?m] => rewrite (Z.mod_small a m) by lia
         | |- context [?a + ?h - ?h] => replace (a + h - h) with a by lia
         end.
  lia.
Qed.

Lemma timeout_ns_example : timeout_ns 3 = 3000000000 /\ timeout_ns 60 = 60000000000 /\ timeout_ns 2147483647 = 2147483647000000000.
Proof. repeat split; vm_compute; reflexivity. Qed.


(* position of the VM's deadline test: nothing executes between a positive test and the loop exit *)
Lemma vm_deadline_stops_at_once_proof : vm_instrs_after_deadline_test = 0 /\ vm_deadline_test_after_switch = true.
Proof. split; reflexivity. Qed.


(* every block, whatever its size, gets at least one clock read (at its first byte): a scan delivered in small blocks
   is not exempt from the deadline *)
Lemma every_block_reads_clock_proof : forall size, 1 <= size -> exists i, 0 <= i < size /\ block_reads_clock i = true.
Proof. intros size Hs. exists 0. split; [lia|]. vm_compute. reflexivity. Qed.
