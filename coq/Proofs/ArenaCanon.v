(* Canonical form of accepted compiled-rules files (Model/Arena.v): whatever the current loader
   accepts is, byte for byte, the file the saver writes for the arena it returns, possibly followed
   by bytes that are never read.  So there is no "half-loaded" result: header, section table,
   section bodies and relocation list of an accepted file are all determined by the loaded arena. *)
From Coq Require Import List NArith ZArith Lia Bool.
From YV Require Import Base.Bytes gen.GenConsts Model.Arena Proofs.ArenaProofs.
Import ListNotations.
Local Open Scope N_scope.

Local Notation c := cfg_current.

Lemma all_bytes_app a b : all_bytes (a ++ b) = all_bytes a && all_bytes b.
Proof. unfold all_bytes. apply forallb_app. Qed.

Lemma all_bytes_firstn n l : all_bytes l = true -> all_bytes (firstn n l) = true.
Proof.
  intros H. rewrite <- (firstn_skipn n l) in H. rewrite all_bytes_app in H.
  now apply andb_true_iff in H as [H _].
Qed.

Lemma all_bytes_skipn n l : all_bytes l = true -> all_bytes (skipn n l) = true.
Proof.
  intros H. rewrite <- (firstn_skipn n l) in H. rewrite all_bytes_app in H.
  now apply andb_true_iff in H as [_ H].
Qed.

Lemma take_inv n (s a b : bytes) : take n s = Some (a, b) -> s = a ++ b /\ length a = n.
Proof.
  unfold take. destruct (n <=? length s)%nat eqn:E; [|discriminate].
  intros H. inversion H; subst. apply Nat.leb_le in E. split.
  - symmetry. apply firstn_skipn.
  - rewrite firstn_length. lia.
Qed.

(* an all-bytes list of known length is the encoding of its value *)
Lemma le_enc_of_dec k l : all_bytes l = true -> length l = k -> le_enc k (le_dec l) = l.
Proof. intros H <-. now apply le_enc_dec. Qed.

Lemma enc_dec_ref e : all_bytes e = true -> length e = 8%nat -> enc_ref (dec_ref e) = e.
Proof.
  intros Hb Hl. unfold enc_ref, dec_ref. cbn [fst snd].
  rewrite (le_enc_of_dec 4 (firstn 4 e)); [|now apply all_bytes_firstn|rewrite firstn_length; lia].
  rewrite (le_enc_of_dec 4 (firstn 4 (skipn 4 e)));
    [|now apply all_bytes_firstn, all_bytes_skipn|rewrite firstn_length, skipn_length; lia].
  assert (E : firstn 4 (skipn 4 e) = skipn 4 e).
  { apply firstn_all2. rewrite skipn_length. lia. }
  rewrite E. apply firstn_skipn.
Qed.

Lemma is_null_ref_eq r : is_null_ref r = true -> r = (null32, null32).
Proof.
  unfold is_null_ref. intros H. apply andb_true_iff in H as [H1 H2].
  apply N.eqb_eq in H1. apply N.eqb_eq in H2. destruct r; cbn [fst snd] in *; congruence.
Qed.

(* ---------------------------------------------------------------- section bodies *)
Lemma read_bodies_inv sizes : forall s bs s3,
  read_bodies sizes s = LOk (bs, s3) -> s = concat bs ++ s3 /\ map nlen bs = sizes.
Proof.
  induction sizes as [|sz r IH]; intros s bs s3 H; cbn [read_bodies] in H.
  - inversion H; subst. split; reflexivity.
  - destruct (sz =? 0) eqn:Ez.
    + destruct (read_bodies r s) as [[bs' s'']| |] eqn:E; cbn [lbind] in H; try discriminate.
      inversion H; subst. cbn [fst snd]. destruct (IH _ _ _ E) as [H1 H2].
      apply N.eqb_eq in Ez. subst sz. split.
      * cbn [concat app]. exact H1.
      * cbn [map]. rewrite H2. reflexivity.
    + destruct (max_loadable_buffer <? sz); [discriminate|].
      destruct (nlen s <? sz); [discriminate|].
      destruct (take (N.to_nat sz) s) as [[b s1]|] eqn:Et; [|discriminate].
      destruct (read_bodies r s1) as [[bs' s'']| |] eqn:E; cbn [lbind] in H; try discriminate.
      inversion H; subst. cbn [fst snd]. destruct (IH _ _ _ E) as [H1 H2].
      apply take_inv in Et as [Hs Hl]. split.
      * cbn [concat]. rewrite <- app_assoc. rewrite <- H1. exact Hs.
      * cbn [map]. rewrite H2. f_equal. unfold nlen. rewrite Hl. apply Nnat.N2Nat.id.
Qed.

(* ---------------------------------------------------------------- section table *)
Lemma table_canonical : forall (bs : list bytes) (off : N) (t : bytes),
  all_bytes t = true -> length t = (length bs * ent_size)%nat ->
  offsets_consistent off (read_offsets (length bs) t) (read_sizes (length bs) t) = true ->
  read_sizes (length bs) t = map nlen bs ->
  t = table_from off bs.
Proof.
  induction bs as [|b r IH]; intros off t Hb Hl Hc Hs.
  - cbn [length Nat.mul] in Hl. destruct t; [reflexivity|discriminate].
  - cbn [length read_offsets read_sizes offsets_consistent map] in *.
    apply andb_true_iff in Hc as [Ho Hc]. apply N.eqb_eq in Ho.
    set (x := le_dec (firstn 4 (skipn 8 t))) in *.
    set (y := read_sizes (length r) (skipn ent_size t)) in *.
    injection Hs as Hsz Hrest. subst x y.
    rewrite ent_size_12 in *.
    assert (Hlt : (12 <= length t)%nat) by lia.
    rewrite <- (firstn_skipn 12 t). cbn [table_from].
    assert (E12 : firstn 12 t = le_enc 8 off ++ le_enc 4 (nlen b)).
    { rewrite <- (firstn_skipn 8 (firstn 12 t)).
      rewrite firstn_firstn. change (Init.Nat.min 8 12) with 8%nat.
      f_equal.
      - rewrite <- Ho. symmetry. apply le_enc_of_dec; [now apply all_bytes_firstn|]. rewrite firstn_length. lia.
      - assert (Es : skipn 8 (firstn 12 t) = firstn 4 (skipn 8 t)).
        { rewrite skipn_firstn_comm. reflexivity. }
        rewrite Es. rewrite <- Hsz. symmetry.
        apply le_enc_of_dec; [now apply all_bytes_firstn, all_bytes_skipn|].
        rewrite firstn_length, skipn_length. lia. }
    rewrite E12. rewrite <- app_assoc. do 2 f_equal.
    apply IH.
    + now apply all_bytes_skipn.
    + rewrite skipn_length. lia.
    + rewrite Hsz in Hc. rewrite Hrest in Hc. rewrite <- Hrest in Hc. exact Hc.
    + exact Hrest.
Qed.

(* ---------------------------------------------------------------- relocation list *)
Lemma reloc_loop_inv bs : forall fuel done s rl,
  all_bytes s = true -> (length s < fuel)%nat ->
  reloc_loop c fuel bs done s = LOk rl ->
  exists rl' tail, rl = done ++ rl' /\ s = concat (map enc_ref rl') ++ enc_ref (null32, null32) ++ tail.
Proof.
  induction fuel as [|fuel IH]; intros done s rl Hb Hf H; [lia|].
  cbn [reloc_loop] in H. rewrite ref_size_8 in H.
  destruct (take 8 s) as [[e s']|] eqn:Et.
  - apply take_inv in Et as [Hs Hl].
    change (reloc_terminated c) with true in H. cbn [andb] in H.
    assert (Hbe : all_bytes e = true /\ all_bytes s' = true).
    { rewrite Hs, all_bytes_app in Hb. now apply andb_true_iff in Hb. }
    destruct Hbe as [Hbe Hbs].
    destruct (is_null_ref (dec_ref e)) eqn:En.
    + inversion H; subst rl. exists [], s'. split; [now rewrite app_nil_r|].
      cbn [map concat app]. apply is_null_ref_eq in En. rewrite <- En.
      rewrite enc_dec_ref by assumption. exact Hs.
    + destruct (reloc_step c bs done (dec_ref e)) as [[]| |]; cbn [lbind] in H; try discriminate.
      apply IH in H; [|assumption|rewrite Hs, app_length in Hf; lia].
      destruct H as [rl' [tail [H1 H2]]].
      exists (dec_ref e :: rl'), tail. split.
      * rewrite H1. rewrite <- app_assoc. reflexivity.
      * cbn [map concat]. rewrite enc_dec_ref by assumption.
        rewrite <- app_assoc. rewrite <- H2. exact Hs.
  - change (reloc_terminated c) with true in H. discriminate.
Qed.

(* ---------------------------------------------------------------- the whole file *)
Theorem accepted_file_is_saved_image_proof (s : bytes) (a : arena) :
  all_bytes s = true -> rules_load c s = LOk a ->
  exists tail, s = save c a ++ tail.
Proof.
  intros Hb H. unfold rules_load in H.
  destruct (arena_load c s) as [a0| |] eqn:E; cbn [lbind] in H; try discriminate.
  assert (Ha : a0 = a).
  { unfold rules_from_arena in H. change (rules_checks_sections cfg_current) with true in H. cbv iota in H.
    destruct (negb _); [discriminate|]. destruct (negb _); [discriminate|].
    destruct (_ <? _); [discriminate|]. now inversion H. }
  subst a0. clear H. unfold arena_load in E.
  destruct (take hdr_size s) as [[h s1]|] eqn:Et; [|discriminate].
  apply take_inv in Et as [Hs Hlh]. rewrite hdr_size_6 in Hlh.
  destruct (bytes_eqb (firstn 4 h) magic) eqn:Em; cbn [negb] in E; [|discriminate].
  destruct (nth 4 h 0 =? file_version) eqn:Ev; cbn [negb] in E; [|discriminate].
  destruct (max_buffers <? nth 5 h 0) eqn:Enb; [discriminate|].
  destruct (take (N.to_nat (nth 5 h 0) * ent_size) s1) as [[t s2]|] eqn:Et2; [|discriminate].
  apply take_inv in Et2 as [Hs1 Hlt].
  change (table_checks_offsets c) with true in E. cbn [andb] in E.
  destruct (offsets_consistent _ _ _) eqn:Eo; cbn [negb] in E; [|discriminate].
  destruct (read_bodies _ s2) as [[bs s3]| |] eqn:Eb; cbn [lbind] in E; try discriminate.
  destruct (reloc_loop c _ bs [] s3) as [rl| |] eqn:Er; cbn [lbind] in E; try discriminate.
  inversion E; subst a. clear E.
  apply bytes_eqb_eq in Em. apply N.eqb_eq in Ev.
  (* all-bytes facts for the pieces *)
  assert (Hb1 : all_bytes h = true /\ all_bytes s1 = true).
  { rewrite Hs, all_bytes_app in Hb. now apply andb_true_iff in Hb. }
  destruct Hb1 as [Hbh Hb1].
  assert (Hb2 : all_bytes t = true /\ all_bytes s2 = true).
  { rewrite Hs1, all_bytes_app in Hb1. now apply andb_true_iff in Hb1. }
  destruct Hb2 as [Hbt Hb2].
  pose proof (read_bodies_length _ _ _ _ Eb) as Hlen. rewrite read_sizes_length in Hlen.
  apply read_bodies_inv in Eb as [Hs2 Hsizes].
  assert (Hb3 : all_bytes s3 = true).
  { rewrite Hs2, all_bytes_app in Hb2. now apply andb_true_iff in Hb2. }
  apply reloc_loop_inv in Er; [|assumption|lia].
  destruct Er as [rl' [tail [Hrl Hs3]]]. cbn [app] in Hrl. subst rl'.
  exists tail. unfold save. cbn [bufs relocs]. rewrite terminator_current.
  (* header *)
  assert (Hh : h = header (nlen bs)).
  { unfold header. assert (Hn : nlen bs = nth 5 h 0).
    { unfold nlen. rewrite Hlen. apply Nnat.N2Nat.id. }
    rewrite Hn. rewrite <- Ev. rewrite <- Em.
    destruct h as [|b0 [|b1 [|b2 [|b3 [|b4 [|b5 [|b6 h']]]]]]]; try discriminate.
    reflexivity. }
  (* table *)
  assert (Hn : N.to_nat (nth 5 h 0) = length bs) by (symmetry; exact Hlen).
  assert (Ht : t = table_from (N.of_nat hdr_size + N.of_nat ent_size * nlen bs) bs).
  { apply table_canonical.
    - exact Hbt.
    - rewrite Hlt, Hn. reflexivity.
    - rewrite <- Hn. unfold nlen. rewrite <- Hn, Nnat.N2Nat.id. exact Eo.
    - rewrite <- Hn. symmetry. exact Hsizes. }
  rewrite Hs, Hs1, Hs2, Hs3, <- Hh, <- Ht. rewrite <- !app_assoc. reflexivity.
Qed.

(* consequence for a damaged section table: two accepted files that carry the same sections and
   relocations agree on every byte of header and table, i.e. an accepted file whose table differs
   from the written one has different section contents *)
Corollary accepted_same_arena_same_bytes_proof (s s' : bytes) (a : arena) :
  all_bytes s = true -> all_bytes s' = true ->
  rules_load c s = LOk a -> rules_load c s' = LOk a ->
  firstn (length (save c a)) s = firstn (length (save c a)) s'.
Proof.
  intros Hb Hb' H H'.
  destruct (accepted_file_is_saved_image_proof s a Hb H) as [t ->].
  destruct (accepted_file_is_saved_image_proof s' a Hb' H') as [t' ->].
  rewrite !firstn_app, !Nat.sub_diag, !firstn_all. cbn [firstn]. reflexivity.
Qed.
