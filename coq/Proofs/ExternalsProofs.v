(* C20: proofs over Model/Externals.v *)
From Coq Require Import List NArith ZArith QArith Bool Lia.
From YV Require Import Base.Bytes Base.CSem gen.GenConsts Model.Externals.
Import ListNotations.

Ltac conj := repeat match goal with |- _ /\ _ => split end.

(* ------------------------------------------------------------------ slots *)
Lemma slot_get_set_other j k o l : j <> k -> slot_get j (slot_set k o l) = slot_get j l.
Proof.
  intros N. assert (F : Nat.eqb k j = false) by (apply Nat.eqb_neq; congruence).
  induction l as [|[i p] t IH]; cbn.
  - now rewrite F.
  - destruct (Nat.eqb i k) eqn:E; cbn.
    + apply Nat.eqb_eq in E. subst i. now rewrite F.
    + now rewrite IH.
Qed.

Lemma slot_get_set_same k o l : slot_get k (slot_set k o l) = Some o.
Proof.
  induction l as [|[i p] t IH]; cbn.
  - now rewrite Nat.eqb_refl.
  - destruct (Nat.eqb i k) eqn:E; cbn; [now rewrite Nat.eqb_refl | now rewrite E].
Qed.

Lemma slot_set_same k o l : slot_get k l = Some o -> slot_set k o l = l.
Proof.
  induction l as [|[i p] t IH]; cbn; [discriminate|].
  destruct (Nat.eqb i k) eqn:E.
  - apply Nat.eqb_eq in E. intros [= ->]. now subst.
  - intros H. now rewrite IH.
Qed.

Lemma slot_get_del_other j k l : j <> k -> slot_get j (slot_del k l) = slot_get j l.
Proof.
  intros N. assert (F : Nat.eqb k j = false) by (apply Nat.eqb_neq; congruence).
  induction l as [|[i p] t IH]; cbn; auto.
  destruct (Nat.eqb i k) eqn:E; cbn.
  - apply Nat.eqb_eq in E. subst i. now rewrite F.
  - now rewrite IH.
Qed.

(* ------------------------------------------------------------------ isolation *)
Theorem scanner_defs_isolated_proof : forall w k x d w' r,
  step w (OSDef k x d) = (w', r) ->
  w_comp w' = w_comp w /\ w_rules w' = w_rules w /\
  forall j, j <> k -> slot_get j (w_scanners w') = slot_get j (w_scanners w).
Proof.
  intros w k x d w' r H. cbn in H.
  destruct (slot_get k (w_scanners w)) as [ob|]; [|injection H as <- _; auto].
  destruct (scanner_define ob x d) as [ob' rc]. injection H as <- _. cbn.
  conj; auto. intros j N. now apply slot_get_set_other.
Qed.

(* a rules-level define does not reach a scanner that already exists, nor the compiler *)
Theorem rules_defs_leave_scanners_proof : forall w x d w' r,
  step w (ORDef x d) = (w', r) -> w_scanners w' = w_scanners w /\ w_comp w' = w_comp w.
Proof.
  intros w x d w' r H. cbn in H. destruct (w_rules w) as [rs|]; [|injection H as <- _; auto].
  destruct (rules_define rs x d) as [r' rc]. injection H as <- _. auto.
Qed.

(* a scanner takes its values when it is created *)
Theorem create_snapshots_rules_proof : forall w k w' rs ob,
  w_rules w = Some rs -> slot_get k (w_scanners w) = None -> scanner_objs rs [] = inl ob ->
  step w (OCreate k) = (w', Res ROk) ->
  slot_get k (w_scanners w') = Some ob /\ w_rules w' = Some rs.
Proof.
  intros w k w' rs ob R S O H. cbn in H. rewrite R, S, O in H. injection H as <-. cbn.
  split; auto using slot_get_set_same.
Qed.

(* ------------------------------------------------------------------ invalid defines *)
Definition is_define (o : op) : bool :=
  match o with OCDef _ _ | ORDef _ _ | OSDef _ _ _ => true | _ => false end.

Definition invalid_define_changes_nothing_statement : Prop :=
  forall w o c w', is_define o = true -> step w o = (w', Res (RErr c)) -> w' = w.

(* NULL strings are rejected at every level and leave no trace (compiler: ce98a74, scanner: 0dc25b3) *)
Lemma null_string_rejected_everywhere_proof :
  snd (run world0 [OCDef 1%N (DS None); OCDef 1%N (DS (Some [97%N])); OCDef 1%N (DS None); OGetRules; ORDef 1%N (DS None);
                   OCreate 0%nat; OSDef 0%nat 1%N (DS None); OSDef 0%nat 9%N (DS None); OScan 0%nat]) =
    [Res (RErr ERROR_INVALID_ARGUMENT); Res ROk; Res (RErr ERROR_INVALID_ARGUMENT); Res ROk; Res (RErr ERROR_INVALID_ARGUMENT);
     Res ROk; Res (RErr ERROR_INVALID_ARGUMENT); Res (RErr ERROR_INVALID_ARGUMENT); Seen [(1%N, PS [97%N])]].
Proof. reflexivity. Qed.

(* saving after a rules-level string define aborts *)
Lemma save_after_string_redefine_crashes_proof :
  snd (run world0 [OCDef 1%N (DS (Some [97%N])); OGetRules; OSave; ORDef 1%N (DS (Some [98%N])); OSave]) =
    [Res ROk; Res ROk; Res ROk; Res ROk; Res RCrash].
Proof. reflexivity. Qed.

Lemma rules_update_err r x f c r' :
  (forall e e' c, f e = (e', RErr c) -> e' = e) ->
  rules_update r x f = (r', RErr c) -> r' = r.
Proof.
  intros F. revert r'. induction r as [|e t IH]; intros r' H; cbn in H.
  - now injection H as <-.
  - destruct (N.eqb (x_id e) x).
    + destruct (f e) as [e' rc] eqn:E. injection H as <- ->. now rewrite (F _ _ _ E).
    + destruct (rules_update t x f) as [t' rc] eqn:E. injection H as <- ->. now rewrite (IH _ eq_refl).
Qed.

Lemma rules_define_err r x d c r' : rules_define r x d = (r', RErr c) -> r' = r.
Proof.
  unfold rules_define. intros H.
  destruct d as [z|z|q|[s|]].
  5: now injection H as <-.
  all: eapply rules_update_err; [|exact H]; intros e e' c'; cbv beta; destruct (x_ty e); intros E;
       first [discriminate E | now inversion E].
Qed.

Lemma scanner_define_err o x d c o' : scanner_define o x d = (o', RErr c) -> o' = o.
Proof.
  unfold scanner_define. destruct d as [z|z|q|[s|]]; try (now intros [= <-]);
    (destruct (lookup x o) as [v|]; [|now intros [= <-]]; destruct v; intros H; try discriminate; now injection H as <-).
Qed.

Theorem invalid_define_changes_nothing_proof : invalid_define_changes_nothing_statement.
Proof.
  intros w o c w' D H. destruct o as [x d|?|x d|?|k x d|?|?|?|?]; try discriminate; cbn in H.
  - destruct w as [cs [rs|] sc]; cbn in *; [now injection H as <-|].
    unfold compiler_define in H.
    destruct d as [z|z|q|[s|]]; try (destruct (mem x (c_objs cs)); [now injection H as <-|discriminate]).
    now injection H as <-.
  - destruct w as [cs [rs|] sc]; cbn in *; [|now injection H as <-].
    destruct (rules_define rs x d) as [r' rc] eqn:E. injection H as <- ->.
    now rewrite (rules_define_err _ _ _ _ _ E).
  - destruct w as [cs rs sc]; cbn in *.
    destruct (slot_get k sc) as [ob|] eqn:G; [|now injection H as <-].
    destruct (scanner_define ob x d) as [ob' rc] eqn:E. injection H as <- ->.
    rewrite (scanner_define_err _ _ _ _ _ E). unfold with_scanners. cbn. now rewrite slot_set_same.
Qed.

(* the documented codes: unknown identifier -> ERROR_INVALID_ARGUMENT, known identifier with a value
   of an incompatible type -> ERROR_INVALID_EXTERNAL_VARIABLE_TYPE *)
Fixpoint rfind (x : ident) (r : rules) : option xentry :=
  match r with [] => None | e :: t => if N.eqb (x_id e) x then Some e else rfind x t end.

Theorem rules_define_codes_proof : forall r x d,
  snd (rules_define r x d) =
    match d, rfind x r with
    | DS None, _ => RErr ERROR_INVALID_ARGUMENT
    | _, None => RErr ERROR_INVALID_ARGUMENT
    | _, Some e => if rules_valid (x_ty e) d then ROk else RErr ERROR_INVALID_EXTERNAL_VARIABLE_TYPE
    end.
Proof.
  intros r x d.
  assert (G : forall f, snd (rules_update r x f) = match rfind x r with None => RErr ERROR_INVALID_ARGUMENT | Some e => snd (f e) end).
  { intros f. induction r as [|e t IH]; cbn; auto.
    destruct (N.eqb (x_id e) x); [now destruct (f e)|]. destruct (rules_update t x f); cbn in *; auto. }
  unfold rules_define. destruct d as [z|z|q|[s|]]; auto; rewrite G; destruct (rfind x r) as [e|]; auto; destruct (x_ty e); reflexivity.
Qed.

Theorem scanner_define_codes_proof : forall o x d,
  snd (scanner_define o x d) =
    match d, lookup x o with
    | DS None, _ => RErr ERROR_INVALID_ARGUMENT
    | _, None => RErr ERROR_INVALID_ARGUMENT
    | DI _, Some (PI _) | DB _, Some (PI _) | DF _, Some (PF _) | DS (Some _), Some (PS _) => ROk
    | _, Some _ => RErr ERROR_INVALID_EXTERNAL_VARIABLE_TYPE
    end.
Proof.
  intros o x d. unfold scanner_define. destruct d as [z|z|q|[s|]]; auto; destruct (lookup x o) as [v|]; auto; destruct v; reflexivity.
Qed.

Theorem compiler_define_codes_proof : forall c x d,
  snd (compiler_define c x d) =
    match d with
    | DS None => RErr ERROR_INVALID_ARGUMENT
    | _ => if mem x (c_objs c) then RErr ERROR_DUPLICATED_EXTERNAL_VARIABLE else ROk
    end.
Proof.
  intros c x d. unfold compiler_define. destruct d as [z|z|q|[s|]]; auto; destruct (mem x (c_objs c)); reflexivity.
Qed.

(* ------------------------------------------------------------------ externals behave like literals *)
Lemma subst_n_eval env env' e v : eval_n env e = Some v -> eval_n env' (subst_n env e) = Some v.
Proof.
  revert v. induction e; intros v H; cbn in *; auto.
  - destruct (lookup x env) as [[z|q|s|]|]; try discriminate; cbn; auto.
  - destruct (eval_n env e1), (eval_n env e2); try discriminate. now rewrite (IHe1 _ eq_refl), (IHe2 _ eq_refl).
  - destruct (eval_n env e1), (eval_n env e2); try discriminate. now rewrite (IHe1 _ eq_refl), (IHe2 _ eq_refl).
  - destruct (eval_n env e1), (eval_n env e2); try discriminate. now rewrite (IHe1 _ eq_refl), (IHe2 _ eq_refl).
  - destruct (eval_n env e) as [n|]; try discriminate. now rewrite (IHe _ eq_refl).
Qed.

Lemma subst_s_eval env env' e v : eval_s env e = Some v -> eval_s env' (subst_s env e) = Some v.
Proof.
  destruct e; cbn; auto. destruct (lookup x env) as [[z|q|s|]|]; try discriminate; cbn; auto.
Qed.

Theorem externals_behave_as_literals_proof : forall env env' c b,
  eval_cond env c = Some b -> eval_cond env' (subst_c env c) = Some b.
Proof.
  intros env env' c. induction c; intros r H; cbn in *.
  - destruct (eval_n env a) eqn:A, (eval_n env b) eqn:B; try discriminate.
    now rewrite (subst_n_eval _ env' _ _ A), (subst_n_eval _ env' _ _ B).
  - destruct (eval_s env a) eqn:A, (eval_s env b) eqn:B; try discriminate.
    now rewrite (subst_s_eval _ env' _ _ A), (subst_s_eval _ env' _ _ B).
  - destruct (eval_n env a) eqn:A; try discriminate. now rewrite (subst_n_eval _ env' _ _ A).
  - destruct (eval_s env a) eqn:A; try discriminate. now rewrite (subst_s_eval _ env' _ _ A).
  - destruct (eval_cond env c); try discriminate. now rewrite (IHc _ eq_refl).
  - destruct (eval_cond env c1), (eval_cond env c2); try discriminate. now rewrite (IHc1 _ eq_refl), (IHc2 _ eq_refl).
  - destruct (eval_cond env c1), (eval_cond env c2); try discriminate. now rewrite (IHc1 _ eq_refl), (IHc2 _ eq_refl).
Qed.

(* ------------------------------------------------------------------ the most specific value, step by step *)
Lemma lookup_update_same x v o w : lookup x o = Some w -> lookup x (update x v o) = Some v.
Proof.
  induction o as [|[y u] t IH]; cbn; [discriminate|].
  destruct (N.eqb y x) eqn:E; cbn; rewrite E; auto.
Qed.

Lemma lookup_update_other x y v o : y <> x -> lookup y (update x v o) = lookup y o.
Proof.
  intros N. induction o as [|[z u] t IH]; cbn; auto.
  destruct (N.eqb z x) eqn:E; cbn.
  - apply N.eqb_eq in E. subst z. destruct (N.eqb x y) eqn:E2; auto. apply N.eqb_eq in E2. congruence.
  - destruct (N.eqb z y); auto.
Qed.

(* an accepted scanner-level definition becomes the value that scanner sees; every other variable keeps its value *)
Theorem scanner_define_sets_proof : forall o x d o',
  scanner_define o x d = (o', ROk) ->
  lookup x o' = Some (dval_payload d) /\ forall y, y <> x -> lookup y o' = lookup y o.
Proof.
  intros o x d o' H. unfold scanner_define in H.
  destruct d as [z|z|q|[s|]]; try discriminate;
    (destruct (lookup x o) as [v|] eqn:L; [|discriminate]; destruct v; try discriminate; injection H as <-; cbn;
     (split; [eapply lookup_update_same; eauto | intros; now apply lookup_update_other])).
Qed.

(* a scan reports exactly the objects of its own scanner *)
Theorem scan_sees_own_objects_proof : forall w k ob, slot_get k (w_scanners w) = Some ob -> step w (OScan k) = (w, Seen ob).
Proof. intros w k ob H. cbn. now rewrite H. Qed.

(* the closed form over histories ([spec_scanner], Model/Externals.v) evaluated against the state machine on a
   history with all three levels, valid and invalid definitions *)
Definition msv_history : list op :=
  [ORDef 1%N (DI 7); OCreate 0%nat; ORDef 1%N (DB 1); ORDef 1%N (DI 8); OCreate 1%nat; OSDef 0%nat 1%N (DB 2);
   OSDef 1%nat 1%N (DF (1#2)); OSDef 1%nat 2%N (DS (Some [98%N])); ORDef 2%N (DS (Some [99%N])); OCreate 2%nat; ODestroy 0%nat].
Lemma msv_example_proof :
  let w := run_state world0 ([OCDef 1%N (DI 5); OCDef 2%N (DS (Some [97%N])); OCDef 1%N (DF (1#2)); OGetRules] ++ msv_history) in
  forall k x decl, In (k, x, decl) [(0%nat, 1%N, (XInt, PI 5)); (1%nat, 1%N, (XInt, PI 5)); (2%nat, 1%N, (XInt, PI 5));
                                    (0%nat, 2%N, (XStr, PS [97%N])); (1%nat, 2%N, (XStr, PS [97%N])); (2%nat, 2%N, (XStr, PS [97%N]))] ->
  match slot_get k (w_scanners w) with Some ob => lookup x ob | None => None end = spec_scanner (rev msv_history) decl k x.
Proof.
  cbv zeta. intros k x decl H. cbn [In] in H.
  repeat (destruct H as [H|H]; [injection H as <- <- <-; vm_compute; reflexivity|]). contradiction.
Qed.
