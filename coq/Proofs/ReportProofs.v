(* C11: proofs about Model/Report.v.  Backbone: the operational model (message counter, bitmaps, early exits)
   delivers exactly a cut of the declarative message list  modules ++ expected rule messages ++ [finished]
   ([scan_is_cut]); the eight protocol statements are corollaries of that and of facts about [rp_cut]. *)
From Coq Require Import List ZArith Bool Arith Lia.
From YV Require Import gen.GenConsts Model.Report Spec.ReportSpec.
Import ListNotations.

(* ------------------------------------------------------------------ rp_cut *)
Lemma stops_not_completed : forall sc k m, rp_stops sc k m <> Some RCompleted.
Proof.
  intros sc k m; destruct m; simpl;
    try destruct (rp_is_abort (sc k)); try destruct (rp_is_error (sc k)); congruence.
Qed.

Lemma cut_cases : forall sc msgs k,
  (rp_cut sc k msgs = (msgs, RCompleted) /\
   forall j m, nth_error msgs j = Some m -> rp_stops sc (k + j) m = None)
  \/ (exists n m o, nth_error msgs n = Some m /\ rp_stops sc (k + n) m = Some o /\
        rp_cut sc k msgs = (firstn (S n) msgs, o) /\
        forall j m', j < n -> nth_error msgs j = Some m' -> rp_stops sc (k + j) m' = None).
Proof.
  intros sc msgs; induction msgs as [|a ms IH]; intros k.
  - left; split; [reflexivity|]. intros j m H; destruct j; discriminate.
  - simpl rp_cut. destruct (rp_stops sc k a) as [o|] eqn:Es.
    + right. exists 0, a, o. rewrite Nat.add_0_r.
      split; [reflexivity|]. split; [exact Es|]. split; [reflexivity|]. intros j m' Hj; lia.
    + destruct (IH (S k)) as [[Hc Hn] | (n & m & o & Hnth & Hs & Hc & Hb)].
      * left. rewrite Hc. split; [reflexivity|]. intros j m Hj. destruct j as [|j]; simpl in Hj.
        -- inversion Hj; subst. rewrite Nat.add_0_r. exact Es.
        -- replace (k + S j) with (S k + j) by lia. apply Hn; exact Hj.
      * right. exists (S n), m, o. rewrite Hc.
        split; [exact Hnth|]. split; [replace (k + S n) with (S k + n) by lia; exact Hs|].
        split; [reflexivity|]. intros j m' Hj Hnj. destruct j as [|j]; simpl in Hnj.
        -- inversion Hnj; subst. rewrite Nat.add_0_r. exact Es.
        -- replace (k + S j) with (S k + j) by lia. apply Hb; [lia|exact Hnj].
Qed.

Lemma cut_stop_at : forall sc msgs k n m o,
  (forall j m', j < n -> nth_error msgs j = Some m' -> rp_stops sc (k + j) m' = None) ->
  nth_error msgs n = Some m -> rp_stops sc (k + n) m = Some o ->
  rp_cut sc k msgs = (firstn (S n) msgs, o).
Proof.
  intros sc msgs k n m o Hb Hn Hs.
  destruct (cut_cases sc msgs k) as [[_ Hnone] | (n' & m' & o' & Hn' & Hs' & Hc & Hb')].
  - rewrite (Hnone _ _ Hn) in Hs; discriminate.
  - destruct (Nat.lt_trichotomy n' n) as [Hlt | [Heq | Hgt]].
    + rewrite (Hb _ _ Hlt Hn') in Hs'; discriminate.
    + subst n'. rewrite Hn in Hn'; inversion Hn'; subst m'. rewrite Hs in Hs'; inversion Hs'; subst o'. exact Hc.
    + rewrite (Hb' _ _ Hgt Hn) in Hs; discriminate.
Qed.

Lemma cut_no_stop : forall sc msgs k,
  (forall j m, nth_error msgs j = Some m -> rp_stops sc (k + j) m = None) ->
  rp_cut sc k msgs = (msgs, RCompleted).
Proof.
  intros sc msgs k H.
  destruct (cut_cases sc msgs k) as [[Hc _] | (n & m & o & Hn & Hs & _)]; [exact Hc|].
  rewrite (H _ _ Hn) in Hs; discriminate.
Qed.

Lemma cut_prefix : forall sc msgs k, exists n, fst (rp_cut sc k msgs) = firstn n msgs.
Proof.
  intros sc msgs k.
  destruct (cut_cases sc msgs k) as [[Hc _] | (n & m & o & _ & _ & Hc & _)]; rewrite Hc; simpl.
  - exists (length msgs). symmetry; apply firstn_all.
  - exists (S n); reflexivity.
Qed.

Lemma cut_app : forall sc a b k,
  rp_cut sc k (a ++ b) =
  match rp_cut sc k a with
  | (t, RCompleted) => let '(t2, o2) := rp_cut sc (k + length t) b in (t ++ t2, o2)
  | (t, o) => (t, o)
  end.
Proof.
  intros sc a; induction a as [|x a IH]; intros b k.
  - simpl. rewrite Nat.add_0_r. destruct (rp_cut sc k b); reflexivity.
  - simpl. destruct (rp_stops sc k x) as [o|] eqn:Es.
    + destruct o; try reflexivity. exfalso; exact (stops_not_completed _ _ _ Es).
    + rewrite IH. destruct (rp_cut sc (S k) a) as [t o]. destruct o; try reflexivity.
      simpl. replace (k + S (length t)) with (S (k + length t)) by lia.
      destruct (rp_cut sc (S (k + length t)) b); reflexivity.
Qed.

Lemma cut_never_stop : forall msgs k, rp_cut never_stop k msgs = (msgs, RCompleted).
Proof.
  intros msgs k. apply cut_no_stop. intros j m _. destruct m; reflexivity.
Qed.

(* ------------------------------------------------------------------ modules *)
Definition mm (l : list nat) : list rp_msg := flat_map (fun m => [RImport m; RImported m]) l.

Lemma mm_all_module : forall l, forallb is_module_msg (mm l) = true.
Proof. induction l; simpl; auto. Qed.

Lemma load_cut : forall imports loaded sc k,
  rp_load imports loaded sc k =
  (fst (rp_cut sc k (mm (dedup imports loaded))),
   k + length (fst (rp_cut sc k (mm (dedup imports loaded)))),
   match snd (rp_cut sc k (mm (dedup imports loaded))) with RCompleted => true | _ => false end).
Proof.
  induction imports as [|m rest IH]; intros loaded sc k.
  - simpl. rewrite Nat.add_0_r. reflexivity.
  - simpl. destruct (existsb (Nat.eqb m) loaded).
    + apply IH.
    + simpl. destruct (rp_is_error (sc k)).
      * simpl. rewrite Nat.add_1_r. reflexivity.
      * destruct (rp_is_error (sc (S k))).
        -- simpl. replace (k + 2) with (S (S k)) by lia. reflexivity.
        -- rewrite IH. destruct (rp_cut sc (S (S k)) (mm (dedup rest (m :: loaded)))) as [t o]. simpl.
           replace (k + S (S (length t))) with (S (S (k + length t))) by lia. reflexivity.
Qed.

Lemma dedup_spec : forall l seen,
  NoDup (dedup l seen) /\ forall m, In m (dedup l seen) <-> (In m l /\ ~ In m seen).
Proof.
  induction l as [|x l IH]; intros seen; simpl.
  - split; [constructor|]. intros m; split; [intros []|intros [[] _]].
  - destruct (existsb (Nat.eqb x) seen) eqn:E.
    + destruct (IH seen) as [Hn Hi]. split; [exact Hn|]. intros m. rewrite Hi. split.
      * intros [H1 H2]; split; [right; exact H1|exact H2].
      * intros [[H1|H1] H2]; [|split; assumption]. subst m. exfalso.
        apply existsb_exists in E. destruct E as (y & Hy & Hxy). apply Nat.eqb_eq in Hxy. subst y. exact (H2 Hy).
    + destruct (IH (x :: seen)) as [Hn Hi]. split.
      * constructor; [|exact Hn]. rewrite Hi. intros [_ H]; apply H; left; reflexivity.
      * intros m. simpl. rewrite Hi. simpl. split.
        -- intros [H|[H1 H2]].
           ++ subst m. split; [left; reflexivity|]. intros Hs.
              assert (existsb (Nat.eqb x) seen = true) as Hc
                by (apply existsb_exists; exists x; split; [exact Hs|apply Nat.eqb_refl]).
              rewrite Hc in E; discriminate.
           ++ split; [right; exact H1|]. intros Hs; apply H2; right; exact Hs.
        -- intros [[H|H] H2]; [left; exact H|].
           destruct (Nat.eq_dec x m) as [He|Hne]; [left; exact He|].
           right. split; [exact H|]. intros [Hx|Hs]; [exact (Hne Hx)|exact (H2 Hs)].
Qed.

(* ------------------------------------------------------------------ rule code and report loop *)
Fixpoint rule_msgs (f : Z) (unsat : list nat) (rules : list rp_rule) (bits : list bool) (i : nat) : list rp_msg :=
  match rules, bits with
  | r :: rs, b :: bs =>
      (match rp_message f unsat i r b with
       | Some m => if rp_private r then [] else [m]
       | None => []
       end) ++ rule_msgs f unsat rs bs (S i)
  | _, _ => []
  end.

Lemma message_is_rule : forall f unsat i r b m,
  rp_message f unsat i r b = Some m -> m = RMatch i \/ m = RNoMatch i.
Proof.
  intros f unsat i r b m. unfold rp_message.
  destruct (if b then negb (rp_unsat unsat (rp_ns r)) else false);
    [destruct (rp_rep_m f)|destruct (rp_rep_n f)]; intros H; inversion H; auto.
Qed.

Lemma report_cut : forall f unsat rules bits sc i k,
  rp_report f unsat rules bits sc i k = rp_cut sc k (rule_msgs f unsat rules bits i ++ [RFinished]).
Proof.
  intros f unsat; induction rules as [|r rs IH]; intros bits sc i k.
  - reflexivity.
  - destruct bits as [|b bs]; [reflexivity|].
    simpl. destruct (rp_message f unsat i r b) as [m|] eqn:Em.
    + destruct (rp_private r).
      * simpl. apply IH.
      * destruct (message_is_rule _ _ _ _ _ _ Em) as [-> | ->]; simpl;
          (destruct (rp_is_abort (sc k)); [reflexivity|]; destruct (rp_is_error (sc k)); [reflexivity|];
           rewrite IH; reflexivity).
    + simpl. apply IH.
Qed.

Lemma if_same_true : forall b : bool, (if b then true else true) = true.
Proof. destruct b; reflexivity. Qed.

Lemma eval_spec : forall rules unsat0 bits unsat,
  rp_eval rules unsat0 = (bits, unsat) ->
  bits = map rp_rule_true rules /\
  forall ns, rp_unsat unsat ns = rp_unsat unsat0 ns || negb (ns_ok rules ns).
Proof.
  induction rules as [|r rs IH]; intros unsat0 bits unsat H.
  - simpl in H. inversion H; subst. split; [reflexivity|]. intros ns. simpl. rewrite orb_false_r. reflexivity.
  - simpl in H.
    destruct (rp_eval rs (if rp_rule_true r then unsat0 else if rp_global r then rp_ns r :: unsat0 else unsat0))
      as [bs u] eqn:E.
    inversion H; subst bits unsat. apply IH in E. destruct E as [Hb Hu].
    split; [simpl; f_equal; exact Hb|].
    intros ns. rewrite Hu. unfold ns_ok. simpl forallb.
    destruct (rp_rule_true r) eqn:Et.
    + rewrite if_same_true. reflexivity.
    + destruct (rp_global r) eqn:Eg.
      * unfold rp_unsat at 1. simpl existsb. rewrite (Nat.eqb_sym ns (rp_ns r)).
        destruct (Nat.eqb (rp_ns r) ns); simpl.
        -- rewrite orb_true_r. reflexivity.
        -- reflexivity.
      * reflexivity.
Qed.

Lemma rule_msgs_expected : forall f all unsat,
  (forall ns, rp_unsat unsat ns = negb (ns_ok all ns)) ->
  forall rules i, rule_msgs f unsat rules (map rp_rule_true rules) i = expected_from f all rules i.
Proof.
  intros f all unsat H; induction rules as [|r rs IH]; intros i.
  - reflexivity.
  - simpl. rewrite IH. f_equal.
    unfold rp_message, expected_one, verdict. rewrite H.
    destruct (rp_rule_true r); destruct (ns_ok all (rp_ns r)); simpl;
      destruct (rp_private r); destruct (rp_rep_m f); destruct (rp_rep_n f); reflexivity.
Qed.

Lemma cut_modules_not_aborted : forall sc msgs k,
  forallb is_module_msg msgs = true -> snd (rp_cut sc k msgs) <> RAborted.
Proof.
  intros sc; induction msgs as [|m ms IH]; intros k H; simpl; [discriminate|].
  simpl in H. apply andb_prop in H. destruct H as [Hm Hms].
  destruct m; simpl in Hm; try discriminate; simpl;
    (destruct (rp_is_error (sc k)); [simpl; discriminate|];
     specialize (IH (S k) Hms); destruct (rp_cut sc (S k) ms); exact IH).
Qed.

(* ------------------------------------------------------------------ the backbone *)
Theorem scan_is_cut : forall imports rules f sc,
  rp_scan_o imports rules f sc = rp_cut sc 0 (rp_full imports rules f).
Proof.
  intros imports rules f sc. unfold rp_scan_o, rp_full, module_msgs. fold (mm (dedup imports [])).
  rewrite load_cut. rewrite cut_app.
  pose proof (cut_modules_not_aborted sc (mm (dedup imports [])) 0 (mm_all_module _)) as Hna.
  destruct (rp_cut sc 0 (mm (dedup imports []))) as [tm o]. simpl fst; simpl snd. simpl in Hna.
  destruct o; [|congruence|reflexivity].
  destruct (rp_eval rules []) as [bits unsat] eqn:Ee.
  apply eval_spec in Ee. destruct Ee as [Hb Hu]. subst bits.
  rewrite report_cut.
  rewrite (rule_msgs_expected (rp_set_flags f) rules unsat).
  - unfold expected. reflexivity.
  - intros ns. rewrite Hu. reflexivity.
Qed.

Lemma scan_trace_ret : forall imports rules f sc,
  rp_trace imports rules f sc = fst (rp_cut sc 0 (rp_full imports rules f)) /\
  rp_ret imports rules f sc = rp_rc (snd (rp_cut sc 0 (rp_full imports rules f))).
Proof.
  intros. unfold rp_trace, rp_ret, rp_scan. rewrite scan_is_cut.
  destruct (rp_cut sc 0 (rp_full imports rules f)); split; reflexivity.
Qed.

Lemma full_trace_never_stop : forall imports rules f,
  rp_trace imports rules f never_stop = rp_full imports rules f.
Proof.
  intros. destruct (scan_trace_ret imports rules f never_stop) as [H _]. rewrite H, cut_never_stop. reflexivity.
Qed.

(* ------------------------------------------------------------------ shape of the full list *)
Lemma expected_from_all_rule : forall f all rules i, forallb is_rule_msg (expected_from f all rules i) = true.
Proof.
  intros f all; induction rules as [|r rs IH]; intros i; simpl; [reflexivity|].
  rewrite forallb_app, IH, andb_true_r. unfold expected_one.
  destruct (rp_private r); [reflexivity|].
  destruct (verdict all r); [destruct (rp_rep_m f)|destruct (rp_rep_n f)]; reflexivity.
Qed.

Lemma filter_all : forall (A : Type) (p : A -> bool) l, forallb p l = true -> filter p l = l.
Proof.
  induction l as [|x l IH]; simpl; intros H; [reflexivity|].
  apply andb_prop in H. destruct H as [Hx Hl]. rewrite Hx, IH; auto.
Qed.

Lemma filter_none : forall (A : Type) (p q : A -> bool) l,
  forallb q l = true -> (forall x, q x = true -> p x = false) -> filter p l = [].
Proof.
  induction l as [|x l IH]; simpl; intros H Hpq; [reflexivity|].
  apply andb_prop in H. destruct H as [Hx Hl]. rewrite (Hpq _ Hx). apply IH; auto.
Qed.

Lemma rule_part_full : forall imports rules f, rule_part (rp_full imports rules f) = expected f rules.
Proof.
  intros. unfold rule_part, rp_full, module_msgs. fold (mm (dedup imports [])).
  rewrite !filter_app.
  rewrite (filter_none _ is_rule_msg is_module_msg (mm _) (mm_all_module _)) by (intros x; destruct x; simpl; congruence).
  rewrite (filter_all _ is_rule_msg (expected f rules)) by apply expected_from_all_rule.
  simpl. rewrite app_nil_r. reflexivity.
Qed.

Lemma module_part_full : forall imports rules f, module_part (rp_full imports rules f) = module_msgs imports.
Proof.
  intros. unfold module_part, rp_full, module_msgs. fold (mm (dedup imports [])).
  rewrite !filter_app.
  rewrite (filter_all _ is_module_msg (mm _)) by apply mm_all_module.
  rewrite (filter_none _ is_module_msg is_rule_msg (expected f rules) (expected_from_all_rule _ _ _ _))
    by (intros x; destruct x; simpl; congruence).
  simpl. rewrite app_nil_r. reflexivity.
Qed.

Lemma filter_firstn_prefix : forall (A : Type) (p : A -> bool) l n,
  exists n', filter p (firstn n l) = firstn n' (filter p l).
Proof.
  induction l as [|x l IH]; intros n.
  - exists 0. destruct n; reflexivity.
  - destruct n as [|n]; [exists 0; reflexivity|].
    simpl. destruct (IH n) as [n' Hn']. destruct (p x).
    + exists (S n'). simpl. rewrite Hn'. reflexivity.
    + exists n'. exact Hn'.
Qed.

(* the full list is  pre ++ [RFinished]  with no RFinished in pre *)
Definition full_pre imports rules f := module_msgs imports ++ expected f rules.

Lemma full_split : forall imports rules f, rp_full imports rules f = full_pre imports rules f ++ [RFinished].
Proof. intros. unfold rp_full, full_pre. rewrite app_assoc. reflexivity. Qed.

Lemma full_pre_no_finished : forall imports rules f, ~ In RFinished (full_pre imports rules f).
Proof.
  intros imports rules f H. unfold full_pre in H. apply in_app_or in H. destruct H as [H|H].
  - pose proof (mm_all_module (dedup imports [])) as Hm. rewrite forallb_forall in Hm.
    specialize (Hm _ H). discriminate.
  - pose proof (expected_from_all_rule (rp_set_flags f) rules rules 0) as Hm. rewrite forallb_forall in Hm.
    specialize (Hm _ H). discriminate.
Qed.

Lemma firstn_In : forall (A : Type) n (l : list A) x, In x (firstn n l) -> In x l.
Proof.
  induction n; intros l x H; [destruct H|]. destruct l; [destruct H|]. simpl in H. destruct H; [left|right]; auto.
Qed.

(* a stopped scan never delivers RFinished *)
Lemma stopped_no_finished : forall imports rules f sc n m o,
  nth_error (rp_full imports rules f) n = Some m -> rp_stops sc n m = Some o ->
  ~ In RFinished (firstn (S n) (rp_full imports rules f)).
Proof.
  intros imports rules f sc n m o Hn Hs Hin.
  rewrite full_split in *.
  assert (n < length (full_pre imports rules f)) as Hlt.
  { assert (n < length (full_pre imports rules f ++ [RFinished])) as H1 by (apply nth_error_Some; congruence).
    rewrite app_length in H1. simpl in H1.
    destruct (Nat.eq_dec n (length (full_pre imports rules f))) as [He|Hne]; [|lia].
    subst n. rewrite nth_error_app2 in Hn by lia. rewrite Nat.sub_diag in Hn. simpl in Hn.
    inversion Hn; subst m. simpl in Hs. discriminate. }
  rewrite firstn_app in Hin. replace (S n - length (full_pre imports rules f)) with 0 in Hin by lia.
  rewrite firstn_O in Hin. rewrite app_nil_r in Hin. apply firstn_In in Hin.
  exact (full_pre_no_finished _ _ _ Hin).
Qed.

(* the trace of any scan: either the full list, or the full list cut right after the first stopping answer *)
Lemma trace_cases : forall imports rules f sc,
  (rp_trace imports rules f sc = rp_full imports rules f /\ rp_ret imports rules f sc = ERROR_SUCCESS /\
   forall j m, nth_error (rp_full imports rules f) j = Some m -> rp_stops sc j m = None)
  \/ (exists n m o, nth_error (rp_full imports rules f) n = Some m /\ rp_stops sc n m = Some o /\
        rp_trace imports rules f sc = firstn (S n) (rp_full imports rules f) /\
        rp_ret imports rules f sc = rp_rc o /\
        forall j m', j < n -> nth_error (rp_full imports rules f) j = Some m' -> rp_stops sc j m' = None).
Proof.
  intros imports rules f sc.
  destruct (scan_trace_ret imports rules f sc) as [Ht Hr].
  destruct (cut_cases sc (rp_full imports rules f) 0) as [[Hc Hn] | (n & m & o & Hnth & Hs & Hc & Hb)].
  - left. rewrite Ht, Hr, Hc. split; [reflexivity|]. split; [reflexivity|]. exact Hn.
  - right. exists n, m, o. rewrite Ht, Hr, Hc. simpl in *.
    split; [exact Hnth|]. split; [exact Hs|]. split; [reflexivity|]. split; [reflexivity|]. exact Hb.
Qed.

Lemma nth_error_firstn_lt : forall (A : Type) (l : list A) n j, j < n -> nth_error (firstn n l) j = nth_error l j.
Proof.
  induction l as [|x l IH]; intros n j H.
  - destruct n; destruct j; reflexivity.
  - destruct n as [|n]; [lia|]. destruct j as [|j]; [reflexivity|]. simpl. apply IH. lia.
Qed.

(* ------------------------------------------------------------------ expected: what is in it *)
Lemma ns_ok_spec : forall all ns,
  ns_ok all ns = true <-> (forall g, In g all -> rp_global g = true -> rp_ns g = ns -> rp_rule_true g = true).
Proof.
  intros all ns. unfold ns_ok. rewrite forallb_forall. split.
  - intros H g Hg Hgl Hns. specialize (H g Hg). rewrite Hgl in H. subst ns. rewrite Nat.eqb_refl in H. exact H.
  - intros H g Hg. destruct (rp_global g) eqn:Eg; [|reflexivity].
    destruct (Nat.eqb (rp_ns g) ns) eqn:En; [|reflexivity]. apply Nat.eqb_eq in En. apply H; auto.
Qed.

Lemma verdict_spec : forall all r, verdict all r = true <-> rule_holds all r.
Proof.
  intros all r. unfold verdict, rule_holds. destruct (rp_rule_true r).
  - rewrite ns_ok_spec. split; [intros H; split; [reflexivity|exact H]|intros [_ H]; exact H].
  - split; [discriminate|intros [H _]; discriminate].
Qed.

Lemma expected_in : forall f all rules i0 m,
  In m (expected_from f all rules i0) ->
  exists j r, nth_error rules j = Some r /\ rp_private r = false /\
    ((m = RMatch (i0 + j) /\ verdict all r = true /\ rp_rep_m f = true) \/
     (m = RNoMatch (i0 + j) /\ verdict all r = false /\ rp_rep_n f = true)).
Proof.
  intros f all; induction rules as [|r rs IH]; intros i0 m H; [destruct H|].
  simpl in H. apply in_app_or in H. destruct H as [H|H].
  - exists 0, r. rewrite Nat.add_0_r. unfold expected_one in H.
    destruct (rp_private r); [destruct H|]. split; [reflexivity|]. split; [reflexivity|].
    destruct (verdict all r).
    + destruct (rp_rep_m f); [|destruct H]. destruct H as [H|[]]. left; auto.
    + destruct (rp_rep_n f); [|destruct H]. destruct H as [H|[]]. right; auto.
  - destruct (IH _ _ H) as (j & r' & Hn & Hp & Hm). exists (S j), r'.
    replace (i0 + S j) with (S i0 + j) by lia. auto.
Qed.

Lemma expected_complete : forall f all rules i0 j r,
  nth_error rules j = Some r -> rp_private r = false ->
  (verdict all r = true -> rp_rep_m f = true -> In (RMatch (i0 + j)) (expected_from f all rules i0)) /\
  (verdict all r = false -> rp_rep_n f = true -> In (RNoMatch (i0 + j)) (expected_from f all rules i0)).
Proof.
  intros f all; induction rules as [|x rs IH]; intros i0 j r Hn Hp; [destruct j; discriminate|].
  destruct j as [|j]; simpl in Hn.
  - inversion Hn; subst x. rewrite Nat.add_0_r. simpl. unfold expected_one. rewrite Hp.
    split; intros Hv Hf; rewrite Hv, Hf; apply in_or_app; left; left; reflexivity.
  - destruct (IH (S i0) j r Hn Hp) as [H1 H2]. replace (i0 + S j) with (S i0 + j) by lia.
    simpl. split; intros Hv Hf; apply in_or_app; right; auto.
Qed.

(* with both report flags on, [expected] names exactly the non-private rules, ascending *)
Definition msg_index (m : rp_msg) : nat := match m with RMatch i | RNoMatch i => i | _ => 0 end.

Lemma expected_indices : forall f all rules i0,
  rp_rep_m f = true -> rp_rep_n f = true ->
  map msg_index (expected_from f all rules i0) =
  map fst (filter (fun ir => negb (rp_private (snd ir))) (combine (seq i0 (length rules)) rules)).
Proof.
  intros f all rules i0 Hm Hn; revert i0; induction rules as [|r rs IH]; intros i0; [reflexivity|].
  simpl. rewrite map_app, IH. unfold expected_one. rewrite Hm, Hn.
  destruct (rp_private r); simpl; [reflexivity|]. destruct (verdict all r); reflexivity.
Qed.

(* ------------------------------------------------------------------ the eight statements *)
Theorem each_nonprivate_once_in_order_proof : forall imports rules f sc,
  (exists n, rule_part (rp_trace imports rules f sc) = firstn n (expected f rules)) /\
  (In RFinished (rp_trace imports rules f sc) -> rule_part (rp_trace imports rules f sc) = expected f rules).
Proof.
  intros imports rules f sc. split.
  - destruct (scan_trace_ret imports rules f sc) as [Ht _]. rewrite Ht.
    destruct (cut_prefix sc (rp_full imports rules f) 0) as [n Hn]. rewrite Hn.
    destruct (filter_firstn_prefix _ is_rule_msg (rp_full imports rules f) n) as [n' Hn'].
    exists n'. unfold rule_part at 1. rewrite Hn'. fold (rule_part (rp_full imports rules f)).
    rewrite rule_part_full. reflexivity.
  - intros Hin. destruct (trace_cases imports rules f sc) as [[Ht _] | (n & m & o & Hn & Hs & Ht & _)].
    + rewrite Ht. apply rule_part_full.
    + rewrite Ht in Hin. exfalso. exact (stopped_no_finished _ _ _ _ _ _ _ Hn Hs Hin).
Qed.

Lemma trace_in_full : forall imports rules f sc m,
  In m (rp_trace imports rules f sc) -> In m (rp_full imports rules f).
Proof.
  intros imports rules f sc m H. destruct (scan_trace_ret imports rules f sc) as [Ht _]. rewrite Ht in H.
  destruct (cut_prefix sc (rp_full imports rules f) 0) as [n Hn]. rewrite Hn in H. exact (firstn_In _ _ _ _ H).
Qed.

Lemma rule_msg_in_full : forall imports rules f m,
  is_rule_msg m = true -> In m (rp_full imports rules f) -> In m (expected f rules).
Proof.
  intros imports rules f m Hr H. unfold rp_full in H. apply in_app_or in H. destruct H as [H|H].
  - pose proof (mm_all_module (dedup imports [])) as Hm. rewrite forallb_forall in Hm.
    specialize (Hm _ H). destruct m; simpl in *; congruence.
  - apply in_app_or in H. destruct H as [H|[H|[]]]; [exact H|]. subst m. discriminate.
Qed.

Theorem private_never_proof : forall imports rules f sc i,
  In (RMatch i) (rp_trace imports rules f sc) \/ In (RNoMatch i) (rp_trace imports rules f sc) ->
  exists r, nth_error rules i = Some r /\ rp_private r = false.
Proof.
  intros imports rules f sc i [H|H]; apply trace_in_full in H; apply rule_msg_in_full in H; try reflexivity;
    unfold expected in H; apply expected_in in H; destruct H as (j & r & Hn & Hp & [[He _]|[He _]]);
    inversion He; subst i; exists r; auto.
Qed.

Theorem finished_last_iff_not_aborted_proof : forall imports rules f sc,
  (In RFinished (rp_trace imports rules f sc) <-> ~ answers_stop sc (rp_trace imports rules f sc)) /\
  (In RFinished (rp_trace imports rules f sc) ->
   exists pre, rp_trace imports rules f sc = pre ++ [RFinished] /\ ~ In RFinished pre).
Proof.
  intros imports rules f sc.
  destruct (trace_cases imports rules f sc) as [[Ht [_ Hnone]] | (n & m & o & Hn & Hs & Ht & _ & _)].
  - rewrite Ht. split.
    + split.
      * intros _ (k & m & Hk & Hstop). apply Hstop. exact (Hnone _ _ Hk).
      * intros _. rewrite full_split. apply in_or_app; right; left; reflexivity.
    + intros _. exists (full_pre imports rules f). split; [apply full_split|apply full_pre_no_finished].
  - rewrite Ht. pose proof (stopped_no_finished _ _ _ _ _ _ _ Hn Hs) as Hno. split.
    + split; [intros H; exfalso; exact (Hno H)|].
      intros Hna. exfalso. apply Hna. exists n, m. split.
      * rewrite nth_error_firstn_lt by lia. exact Hn.
      * rewrite Hs. discriminate.
    + intros H; exfalso; exact (Hno H).
Qed.

Theorem matching_iff_cond_and_globals_proof : forall imports rules f sc i,
  (In (RMatch i) (rp_trace imports rules f sc) -> exists r, nth_error rules i = Some r /\ rule_holds rules r) /\
  (In (RNoMatch i) (rp_trace imports rules f sc) -> exists r, nth_error rules i = Some r /\ ~ rule_holds rules r) /\
  (In RFinished (rp_trace imports rules f sc) -> forall r, nth_error rules i = Some r -> rp_private r = false ->
     (In (RMatch i) (rp_trace imports rules f sc) <-> (rp_rep_m (rp_set_flags f) = true /\ rule_holds rules r)) /\
     (In (RNoMatch i) (rp_trace imports rules f sc) <-> (rp_rep_n (rp_set_flags f) = true /\ ~ rule_holds rules r))).
Proof.
  intros imports rules f sc i.
  assert (forall m, is_rule_msg m = true -> In m (rp_trace imports rules f sc) ->
            exists j r, nth_error rules j = Some r /\ rp_private r = false /\
              ((m = RMatch (0 + j) /\ verdict rules r = true /\ rp_rep_m (rp_set_flags f) = true) \/
               (m = RNoMatch (0 + j) /\ verdict rules r = false /\ rp_rep_n (rp_set_flags f) = true))) as Hsound.
  { intros m Hr H. apply trace_in_full in H. apply rule_msg_in_full in H; [|exact Hr].
    unfold expected in H. exact (expected_in _ _ _ _ _ H). }
  split; [|split].
  - intros H. destruct (Hsound (RMatch i) eq_refl H) as (j & r & Hn & _ & [[He [Hv _]]|[He _]]); inversion He; subst i.
    exists r. split; [exact Hn|]. apply verdict_spec; exact Hv.
  - intros H. destruct (Hsound (RNoMatch i) eq_refl H) as (j & r & Hn & _ & [[He _]|[He [Hv _]]]); inversion He; subst i.
    exists r. split; [exact Hn|]. rewrite <- verdict_spec. rewrite Hv. discriminate.
  - intros Hfin r Hn Hp.
    assert (rp_trace imports rules f sc = rp_full imports rules f) as Hfull.
    { destruct (trace_cases imports rules f sc) as [[Ht _] | (n & m & o & Hn' & Hs & Ht & _)]; [exact Ht|].
      rewrite Ht in Hfin. exfalso. exact (stopped_no_finished _ _ _ _ _ _ _ Hn' Hs Hfin). }
    destruct (expected_complete (rp_set_flags f) rules rules 0 i r Hn Hp) as [Hc1 Hc2]. simpl in Hc1, Hc2.
    split; split.
    + intros H. destruct (Hsound (RMatch i) eq_refl H) as (j & r' & Hn' & _ & [[He [Hv Hf]]|[He _]]); inversion He; subst i.
      simpl in Hn. rewrite Hn in Hn'; inversion Hn'; subst r'. split; [exact Hf|apply verdict_spec; exact Hv].
    + intros [Hf Hh]. apply verdict_spec in Hh. rewrite Hfull. unfold rp_full.
      apply in_or_app; right; apply in_or_app; left. unfold expected. auto.
    + intros H. destruct (Hsound (RNoMatch i) eq_refl H) as (j & r' & Hn' & _ & [[He _]|[He [Hv Hf]]]); inversion He; subst i.
      simpl in Hn. rewrite Hn in Hn'; inversion Hn'; subst r'. split; [exact Hf|].
      rewrite <- verdict_spec. rewrite Hv. discriminate.
    + intros [Hf Hh]. assert (verdict rules r = false) as Hv.
      { destruct (verdict rules r) eqn:E; [|reflexivity]. exfalso. apply Hh. apply verdict_spec. exact E. }
      rewrite Hfull. unfold rp_full. apply in_or_app; right; apply in_or_app; left. unfold expected. auto.
Qed.

Theorem import_pair_once_per_module_proof : forall imports rules f sc,
  (forall k, k < length (module_msgs imports) -> rp_is_error (sc k) = false) ->
  module_part (rp_trace imports rules f sc) = flat_map (fun m => [RImport m; RImported m]) (dedup imports []) /\
  NoDup (dedup imports []) /\ (forall m, In m (dedup imports []) <-> In m imports).
Proof.
  intros imports rules f sc Hsc. split; [|split].
  - destruct (trace_cases imports rules f sc) as [[Ht _] | (n & m & o & Hn & Hs & Ht & _ & _)]; rewrite Ht.
    + apply module_part_full.
    + assert (length (module_msgs imports) <= n) as Hle.
      { destruct (Nat.le_gt_cases (length (module_msgs imports)) n) as [H|H]; [exact H|]. exfalso.
        unfold rp_full in Hn. rewrite nth_error_app1 in Hn by exact H.
        pose proof (mm_all_module (dedup imports [])) as Hm. rewrite forallb_forall in Hm.
        apply nth_error_In in Hn. specialize (Hm _ Hn).
        destruct m; simpl in Hm; try discriminate; simpl in Hs; rewrite (Hsc _ H) in Hs; discriminate. }
      unfold rp_full. rewrite firstn_app. rewrite firstn_all2 by lia.
      unfold module_part. rewrite filter_app.
      rewrite (filter_all _ is_module_msg (module_msgs imports)) by apply mm_all_module.
      rewrite (filter_none _ is_module_msg (fun x => negb (is_module_msg x))).
      * apply app_nil_r.
      * apply forallb_forall. intros x Hx. apply firstn_In in Hx. apply in_app_or in Hx. destruct Hx as [Hx|[Hx|[]]].
        -- pose proof (expected_from_all_rule (rp_set_flags f) rules rules 0) as He. rewrite forallb_forall in He.
           specialize (He _ Hx). destruct x; simpl in *; congruence.
        -- subst x; reflexivity.
      * intros x Hx. destruct (is_module_msg x); simpl in Hx; congruence.
  - apply dedup_spec.
  - intros m. destruct (dedup_spec imports []) as [_ H]. rewrite H. split; [intros [H1 _]; exact H1|intros H1; split; [exact H1|intros []]].
Qed.

Theorem abort_stops_with_success_proof : forall imports rules f sc k m,
  nth_error (rp_full imports rules f) k = Some m -> is_rule_msg m = true ->
  (forall j m', j < k -> nth_error (rp_full imports rules f) j = Some m' -> rp_stops sc j m' = None) ->
  sc k = CALLBACK_ABORT ->
  rp_scan imports rules f sc = (firstn (S k) (rp_full imports rules f), ERROR_SUCCESS) /\
  ~ In RFinished (firstn (S k) (rp_full imports rules f)).
Proof.
  intros imports rules f sc k m Hn Hr Hb Ha.
  assert (rp_stops sc k m = Some RAborted) as Hs.
  { destruct m; simpl in Hr; try discriminate; simpl; rewrite Ha; reflexivity. }
  split.
  - unfold rp_scan. rewrite scan_is_cut.
    rewrite (cut_stop_at sc (rp_full imports rules f) 0 k m RAborted); auto.
  - exact (stopped_no_finished _ _ _ _ _ _ _ Hn Hs).
Qed.

Theorem error_stops_with_callback_error_proof : forall imports rules f sc k m,
  nth_error (rp_full imports rules f) k = Some m -> is_rule_msg m = true ->
  (forall j m', j < k -> nth_error (rp_full imports rules f) j = Some m' -> rp_stops sc j m' = None) ->
  sc k = CALLBACK_ERROR ->
  rp_scan imports rules f sc = (firstn (S k) (rp_full imports rules f), ERROR_CALLBACK_ERROR) /\
  ~ In RFinished (firstn (S k) (rp_full imports rules f)).
Proof.
  intros imports rules f sc k m Hn Hr Hb Ha.
  assert (rp_stops sc k m = Some RErrored) as Hs.
  { destruct m; simpl in Hr; try discriminate; simpl; rewrite Ha; reflexivity. }
  split.
  - unfold rp_scan. rewrite scan_is_cut.
    rewrite (cut_stop_at sc (rp_full imports rules f) 0 k m RErrored); auto.
  - exact (stopped_no_finished _ _ _ _ _ _ _ Hn Hs).
Qed.

Theorem module_error_fails_scan_proof : forall imports rules f sc k m,
  nth_error (rp_full imports rules f) k = Some m -> is_module_msg m = true ->
  (forall j, j < k -> rp_is_error (sc j) = false) ->
  sc k = CALLBACK_ERROR ->
  rp_scan imports rules f sc = (firstn (S k) (module_msgs imports), ERROR_CALLBACK_ERROR) /\
  rule_part (firstn (S k) (module_msgs imports)) = [] /\
  ~ In RFinished (firstn (S k) (module_msgs imports)).
Proof.
  intros imports rules f sc k m Hn Hm Hb Ha.
  assert (rp_stops sc k m = Some RErrored) as Hs.
  { destruct m; simpl in Hm; try discriminate; simpl; rewrite Ha; reflexivity. }
  assert (k < length (module_msgs imports)) as Hk.
  { destruct (Nat.le_gt_cases (length (module_msgs imports)) k) as [H|H]; [|exact H]. exfalso.
    unfold rp_full in Hn. rewrite nth_error_app2 in Hn by exact H. apply nth_error_In in Hn.
    apply in_app_or in Hn. destruct Hn as [Hx|[Hx|[]]].
    - pose proof (expected_from_all_rule (rp_set_flags f) rules rules 0) as He. rewrite forallb_forall in He.
      specialize (He _ Hx). destruct m; simpl in *; congruence.
    - subst m; discriminate. }
  assert (firstn (S k) (rp_full imports rules f) = firstn (S k) (module_msgs imports)) as Hf.
  { unfold rp_full. rewrite firstn_app. replace (S k - length (module_msgs imports)) with 0 by lia.
    simpl. apply app_nil_r. }
  assert (forall x, In x (firstn (S k) (module_msgs imports)) -> is_module_msg x = true) as Hall.
  { intros x Hx. apply firstn_In in Hx. pose proof (mm_all_module (dedup imports [])) as He.
    rewrite forallb_forall in He. exact (He _ Hx). }
  split; [|split].
  - unfold rp_scan. rewrite scan_is_cut.
    rewrite (cut_stop_at sc (rp_full imports rules f) 0 k m RErrored); auto.
    + rewrite Hf. reflexivity.
    + intros j m' Hj Hnj. simpl.
      assert (is_module_msg m' = true) as Hm'.
      { unfold rp_full in Hnj. rewrite nth_error_app1 in Hnj by lia. apply nth_error_In in Hnj.
        pose proof (mm_all_module (dedup imports [])) as He. rewrite forallb_forall in He. exact (He _ Hnj). }
      destruct m'; simpl in Hm'; try discriminate; simpl; rewrite (Hb _ Hj); reflexivity.
  - unfold rule_part. apply (filter_none _ is_rule_msg is_module_msg).
    + apply forallb_forall. exact Hall.
    + intros x; destruct x; simpl; congruence.
  - intros H. specialize (Hall _ H). discriminate.
Qed.

(* ------------------------------------------------------------------ set_flags: the four settings *)
Lemma set_flags_four :
  let both := Z.lor SCAN_FLAGS_REPORT_RULES_MATCHING SCAN_FLAGS_REPORT_RULES_NOT_MATCHING in
  (rp_rep_m (rp_set_flags 0) = true /\ rp_rep_n (rp_set_flags 0) = true) /\
  (rp_rep_m (rp_set_flags SCAN_FLAGS_REPORT_RULES_MATCHING) = true /\
   rp_rep_n (rp_set_flags SCAN_FLAGS_REPORT_RULES_MATCHING) = false) /\
  (rp_rep_m (rp_set_flags SCAN_FLAGS_REPORT_RULES_NOT_MATCHING) = false /\
   rp_rep_n (rp_set_flags SCAN_FLAGS_REPORT_RULES_NOT_MATCHING) = true) /\
  (rp_rep_m (rp_set_flags both) = true /\ rp_rep_n (rp_set_flags both) = true).
Proof. vm_compute. repeat split. Qed.

(* ------------------------------------------------------------------ non-vacuity *)
(* ns 0: global g (true), private p, a (true), b (false); ns 1: global h (false), c (true), global private gp;
   imports: module 0 in ns 0, modules 1 and 0 in ns 1 *)
Definition ex_rules : list rp_rule :=
  [ mk_rp_rule 0 true false false true; mk_rp_rule 0 false true false true; mk_rp_rule 0 false false false true;
    mk_rp_rule 0 false false false false;
    mk_rp_rule 1 true false false false; mk_rp_rule 1 false false false true; mk_rp_rule 1 true true false true ].
Definition ex_imports : list nat := [0; 1; 0].

Lemma ex_full : rp_scan ex_imports ex_rules 0 never_stop =
  ([RImport 0; RImported 0; RImport 1; RImported 1; RMatch 0; RMatch 2; RNoMatch 3; RNoMatch 4; RNoMatch 5; RFinished],
   ERROR_SUCCESS).
Proof. vm_compute. reflexivity. Qed.

Lemma ex_abort : rp_scan ex_imports ex_rules 0 (rp_script_of [(5%nat, CALLBACK_ABORT)]) =
  ([RImport 0; RImported 0; RImport 1; RImported 1; RMatch 0; RMatch 2], ERROR_SUCCESS).
Proof. vm_compute. reflexivity. Qed.

Lemma ex_error : rp_scan ex_imports ex_rules 0 (rp_script_of [(5%nat, CALLBACK_ERROR)]) =
  ([RImport 0; RImported 0; RImport 1; RImported 1; RMatch 0; RMatch 2], ERROR_CALLBACK_ERROR).
Proof. vm_compute. reflexivity. Qed.

Lemma ex_module_error : rp_scan ex_imports ex_rules 0 (rp_script_of [(2%nat, CALLBACK_ERROR)]) =
  ([RImport 0; RImported 0; RImport 1], ERROR_CALLBACK_ERROR).
Proof. vm_compute. reflexivity. Qed.

(* an abort answer to a module message is ignored (modules.c looks at CALLBACK_ERROR only) *)
Lemma ex_module_abort_ignored : rp_scan ex_imports ex_rules 0 (rp_script_of [(2%nat, CALLBACK_ABORT)]) =
  rp_scan ex_imports ex_rules 0 never_stop.
Proof. vm_compute. reflexivity. Qed.

Lemma ex_hyps_abort :
  nth_error (rp_full ex_imports ex_rules 0) 5 = Some (RMatch 2) /\
  (forall j m', j < 5 -> nth_error (rp_full ex_imports ex_rules 0) j = Some m' ->
     rp_stops (rp_script_of [(5%nat, CALLBACK_ABORT)]) j m' = None).
Proof.
  split; [vm_compute; reflexivity|].
  intros j m' Hj. do 5 (destruct j as [|j]; [vm_compute; intros H; inversion H; reflexivity|]). lia.
Qed.
