(* GENERATED from /repo's sources (scan.c, scanner.c, exec.c, re.c, re_lexer.l, grammar.y, parser.c, compiler.c,
   lexer.l, libyara.c) by lib/genlimits.py: do not edit *)
From Coq Require Import ZArith List.
From YV Require Import Base.Cmp gen.GenConsts.
Import ListNotations.
Local Open Scope Z_scope.

(* libyara.c yr_initialize: defaults of the configurable limits, as passed to yr_set_configuration *)
Definition cfg_default_stack_size : Z := (16384)%Z.   (* DEFAULT_STACK_SIZE *)
Definition cfg_default_max_strings_per_rule : Z := (10000)%Z.   (* DEFAULT_MAX_STRINGS_PER_RULE *)
Definition cfg_default_max_match_data : Z := (512)%Z.   (* DEFAULT_MAX_MATCH_DATA *)
Definition exec_MEM_SIZE : Z := (20)%Z.   (* YR_MAX_LOOP_NESTING*(YR_MAX_LOOP_VARS + YR_INTERNAL_LOOP_VARS) *)

(* exec.c push(x): `if (stack.sp OP stack.capacity) store else ERROR_EXEC_STACK_OVERFLOW` *)
Definition vm_push_op : cmpop := CLt.
Definition vm_push_error : Z := ERROR_EXEC_STACK_OVERFLOW.
Definition vm_sp_init : Z := (0)%Z.

(* exec.c iterators: `if (stack->sp + K OP stack->capacity) return ERROR_EXEC_STACK_OVERFLOW` then K+1 pushes *)
Definition vm_iter_checks : list (Z * cmpop) := [(1, CGe); (2, CGe); (1, CGe); (1, CGe); (1, CGe); (1, CGe)].
(* iter_array_next, iter_dict_next, iter_int_range_next, iter_int_enum_next, iter_string_set_next, iter_text_string_set_next *)

(* the slots each iterator writes after its room test: `stack->items[stack->sp++]` stores on the longest path *)
Definition vm_iter_pushes : list Z := [2; 3; 2; 2; 2; 2].

(* exec.c clock read: `if (context->timeout > 0ULL && ++cycle OP N) { elapsed...; if (elapsed_time OP2 context->timeout) ...; cycle = R; }` *)
Definition vm_check_op : cmpop := CEq.
Definition vm_check_cycles : Z := (100)%Z.
Definition vm_timeout_op : cmpop := CGt.
Definition vm_cycle_reset : Z := (0)%Z.
Definition vm_cycle_init : Z := (0)%Z.

(* exec.c: instructions executed between a positive deadline test (`result = ERROR_SCAN_TIMEOUT; stop = true`) and the exit of `while (!stop)`: 0 when the test is the last statement of the loop body (after the switch), 1 when it sits before the switch *)
Definition vm_instrs_after_deadline_test : Z := (0)%Z.
Definition vm_deadline_test_after_switch : bool := true.

(* scan.c _yr_scan_add_match_to_list: `if (matches_list->count OP LIMIT) { result = ERR; goto _exit; }` before the insertion *)
Definition match_cap_op : cmpop := CEq.
Definition match_cap_limit : Z := YR_MAX_STRING_MATCHES.
Definition match_cap_error : Z := ERROR_TOO_MANY_MATCHES.
Definition match_cap_test_first : bool := true.

(* scan.c yr_scan_verify_match: disabled strings are skipped; ERROR_TOO_MANY_MATCHES is negotiated with the callback *)
Definition disabled_string_skipped : bool := true.
Definition too_many_trigger : Z := ERROR_TOO_MANY_MATCHES.
Definition too_many_message : Z := CALLBACK_MSG_TOO_MANY_MATCHES.
Definition too_many_continue_disables : bool := true.
Definition too_many_continue_result : Z := ERROR_SUCCESS.
Definition too_many_other_result : Z := ERROR_TOO_MANY_MATCHES.

(* scan.c: data_length = yr_min(match_length, (int32_t) max_match_data) *)
Definition match_data_cast_int32 : bool := true.

(* scanner.c block loop: `while (i < block->size) { if (i % N == R && scanner->timeout > 0) { if (elapsed OP timeout) ERROR_SCAN_TIMEOUT } ... block_data[i++] ...}` *)
Definition block_check_modulus : Z := (4096)%Z.
Definition block_check_residue : Z := (0)%Z.
(* further conjuncts of the guard, over the offset i inside the current block *)
Definition block_guard_extra (i : Z) : bool := true.
Definition block_timeout_op : cmpop := CGt.
Definition block_timeout_error : Z := ERROR_SCAN_TIMEOUT.
Definition block_index_init : Z := (0)%Z.
Definition block_index_step : Z := (1)%Z.

(* scanner.c yr_scanner_set_timeout(scanner, int timeout): `scanner->timeout = timeout * 1000000000ULL;` (uint64_t field, compared with yr_stopwatch_elapsed_ns in the block loop and in the VM); integer types and wrap-around explicit *)
Definition timeout_param_max : Z := (2147483647)%Z.
Definition timeout_ns (timeout : Z) : Z := (c_wrap_u 18446744073709551616 (c_wrap_u 18446744073709551616 ((c_wrap_u 18446744073709551616 timeout) * (c_wrap_u 18446744073709551616 1000000000)))).
Definition timeout_ns_per_second : Z := (1000000000)%Z.

(* scanner.c slow-scanning warning: visit test `scanner->matches->count OP SLOW` (matches[0]: the string with index 0), final test lo/hi *)
Definition slow_visit_op : cmpop := CGe.
Definition slow_limit : Z := YR_SLOW_STRING_MATCHES.
Definition slow_final_lo_op : cmpop := CGe.
Definition slow_final_lo : Z := YR_SLOW_STRING_MATCHES.
Definition slow_final_hi_op : cmpop := CLt.
Definition slow_final_hi : Z := YR_MAX_STRING_MATCHES.
Definition slow_counts_string_index : Z := (0)%Z.

(* re.c _yr_re_emit: `if (A - B OP LIMIT) return ERROR_REGULAR_EXPRESSION_TOO_LARGE; x = (intN_t) (A - B)` (A, B are uint32 arena offsets: a backward distance is tested as a wrapped unsigned value) *)
Definition re_plus_back_op : cmpop := CLt.
Definition re_plus_back_lim : Z := (-32768)%Z.
Definition re_star_back_op : cmpop := CLt.
Definition re_star_back_lim : Z := (-32768)%Z.
Definition re_star_fwd_op : cmpop := CGt.
Definition re_star_fwd_lim : Z := (32767)%Z.
Definition re_alt_split_op : cmpop := CGt.
Definition re_alt_split_lim : Z := (32767)%Z.
Definition re_alt_jump_op : cmpop := CGt.
Definition re_alt_jump_lim : Z := (32767)%Z.
Definition re_range_rep_back_op : cmpop := CLt.
Definition re_range_rep_back_lim : Z := (-2147483648)%Z.
Definition re_range_rep_fwd_op : cmpop := CGt.
Definition re_range_rep_fwd_lim : Z := (2147483647)%Z.
Definition re_range_split_op : cmpop := CGt.
Definition re_range_split_lim : Z := (32767)%Z.

(* sizes of the regexp instructions _yr_re_emit writes: opcode byte + arguments *)
Definition re_sz_split : Z := (4)%Z.
Definition re_sz_jump : Z := (3)%Z.
Definition re_sz_literal : Z := (2)%Z.
Definition re_sz_any : Z := (1)%Z.
Definition re_sz_class : Z := (34)%Z.
Definition re_sz_repeat : Z := (9)%Z.
Definition re_sz_repeat_any : Z := (5)%Z.

(* re.c _yr_emit_split: `if (emit_context->next_split_id OP RE_MAX_SPLIT_ID) return ERROR_REGULAR_EXPRESSION_TOO_COMPLEX` before next_split_id++ *)
Definition split_id_op : cmpop := CEq.
Definition split_id_limit : Z := RE_MAX_SPLIT_ID.
Definition split_id_error : Z := ERROR_REGULAR_EXPRESSION_TOO_COMPLEX.
Definition split_id_test_first : bool := true.

(* re.c _yr_re_fiber_create: `if (fiber_pool->fiber_count OP RE_MAX_FIBERS) return ERROR_TOO_MANY_RE_FIBERS` before fiber_count++ (only when the free list is empty) *)
Definition fiber_op : cmpop := CEq.
Definition fiber_limit : Z := RE_MAX_FIBERS.
Definition fiber_error : Z := ERROR_TOO_MANY_RE_FIBERS.
Definition fiber_test_first : bool := true.

(* re.c RE_NODE_RANGE: which of prolog/repeat/epilog are emitted (each contains the code of e once), and the jump-size tests *)
Definition re_jump_tests : Z := (4)%Z.

(* re_lexer.l: `if (hi_bound OP RE_MAX_RANGE)` -> repeat interval too large *)
Definition re_range_op : cmpop := CGt.
Definition re_range_limit : Z := RE_MAX_RANGE.

(* grammar.y for-loops: `if (compiler->loop_index + K OP YR_MAX_LOOP_NESTING) result = ERROR_LOOP_NESTING_LIMIT_EXCEEDED; ... compiler->loop_index++` *)
Definition loop_nest_add : Z := (1)%Z.
Definition loop_nest_op : cmpop := CEq.
Definition loop_nest_limit : Z := YR_MAX_LOOP_NESTING.
Definition loop_nest_error : Z := ERROR_LOOP_NESTING_LIMIT_EXCEEDED.
Definition loop_nest_tests : Z := (1)%Z.
Definition loop_index_init : Z := (-1)%Z.

(* compiler.c _yr_compiler_push_file_name: `if (compiler->file_name_stack_ptr OP YR_MAX_INCLUDE_DEPTH) return ERROR_INCLUDE_DEPTH_EXCEEDED` before ptr++ *)
Definition include_op : cmpop := CEq.
Definition include_limit : Z := YR_MAX_INCLUDE_DEPTH.
Definition include_error : Z := ERROR_INCLUDE_DEPTH_EXCEEDED.
Definition include_test_first : bool := true.
Definition include_ptr_init : Z := (0)%Z.

(* parser.c phase 2: per string `strings_in_rule++; if (strings_in_rule OP max_strings_per_rule) return ERROR_TOO_MANY_STRINGS` *)
Definition strings_op : cmpop := CGt.
Definition strings_error : Z := ERROR_TOO_MANY_STRINGS.
Definition strings_count_init : Z := (0)%Z.

(* lexer.l lex_check_space_ok(data, current_size, max_length): `if (strlen(data) + current_size OP max_length - S)` -> error *)
Definition lexbuf_op : cmpop := CGe.
Definition lexbuf_slack : Z := (1)%Z.
Definition lexbuf_size : Z := YR_LEX_BUF_SIZE.

(* lexer.l identifiers: `if (strlen(yytext) OP N) syntax_error("identifier too long")` *)
Definition ident_op : cmpop := CGt.
Definition ident_limit : Z := (128)%Z.

(* lexer.l integer literals: strtoll clamps; `integer == LLONG_MAX && errno == ERANGE` -> overflow; KB/MB: `integer OP LLONG_MAX / M` -> overflow else *= M *)
Definition int_clamp_detected : bool := true.
Definition int_kb_op : cmpop := CGt.
Definition int_kb_div : Z := (1024)%Z.
Definition int_kb_mul : Z := (1024)%Z.
Definition int_mb_op : cmpop := CGt.
Definition int_mb_div : Z := (1048576)%Z.
Definition int_mb_mul : Z := (1048576)%Z.
